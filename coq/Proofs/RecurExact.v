(* Proofs/RecurExact.v — forward exactness of Model/Recur.v against Spec/RecurSpec.v, part 1:
   L1  the expansion (dateutil's period-by-period iteration, rrule_model) started at a dtstart
       date a0 enumerates exactly the dates d >= a0 with matches_s (series_from r a0) (cdate_of d),
       ascending, each once.
   The assembly (anchor, skip/stop tests, fuel, C07_forward_exact and corollaries) is in
   Proofs/RecurExact2.v. *)
From CG Require Import Model.Recur Spec.RecurSpec Proofs.CivilP Proofs.CdateP Proofs.RecurP.
From Coq Require Import Lia ZifyBool.
Ltac Zify.zify_post_hook ::= Z.to_euclidean_division_equations.

(* ------------------------------------------------------------------------------------------ *)
(* lists                                                                                       *)

Lemma zseq_go_app n1 : forall n2 s,
  zseq_go (n1 + n2) s = zseq_go n1 s ++ zseq_go n2 (s + Z.of_nat n1).
Proof.
  induction n1 as [|n1 IH]; intros n2 s.
  - cbn [plus zseq_go app]. rewrite Z.add_0_r. reflexivity.
  - cbn [plus zseq_go app]. rewrite IH. do 3 f_equal. lia.
Qed.

Lemma zseq_app s n1 n2 : 0 <= n1 -> 0 <= n2 -> zseq s (n1 + n2) = zseq s n1 ++ zseq (s + n1) n2.
Proof.
  intros H1 H2. unfold zseq. rewrite Z2Nat.inj_add by assumption.
  rewrite zseq_go_app. rewrite Z2Nat.id by assumption. reflexivity.
Qed.

Lemma zseq_nil s n : n <= 0 -> zseq s n = [].
Proof. intros H. unfold zseq. replace (Z.to_nat n) with O by lia. reflexivity. Qed.

Lemma filter_none {A} (P : A -> bool) l : (forall x, In x l -> P x = false) -> filter P l = [].
Proof.
  induction l as [|x l IH]; intros H; [reflexivity|]. cbn [filter].
  rewrite (H x (or_introl eq_refl)). apply IH. intros y Hy. apply H. right. exact Hy.
Qed.

Lemma filter_filter' {A} (P Q : A -> bool) l :
  filter P (filter Q l) = filter (fun x => Q x && P x) l.
Proof.
  induction l as [|x l IH]; [reflexivity|]. cbn [filter].
  destruct (Q x); cbn [filter andb]; [destruct (P x)|]; rewrite IH; reflexivity.
Qed.

Lemma cd_day_cdate_of d : cd_day (cdate_of d) = d.
Proof. unfold cdate_of. destruct (civil_from_days d) as [[y m] dd]. reflexivity. Qed.

Lemma map_cd_day_filter (P : cdate -> bool) l :
  map cd_day (filter P (map cdate_of l)) = filter (fun d => P (cdate_of d)) l.
Proof.
  induction l as [|x l IH]; [reflexivity|]. cbn [map filter].
  destruct (P (cdate_of x)); cbn [map]; rewrite IH, ?cd_day_cdate_of; reflexivity.
Qed.

(* the candidate days of a span, as a filter over the day numbers *)
Lemma cand_days (P : cdate -> bool) s n :
  map cd_day (filter P (cdates s n)) = filter (fun d => P (cdate_of d)) (zseq s n).
Proof. rewrite cdates_spec. apply map_cd_day_filter. Qed.

Lemma zmem_flat_map {A} (g : A -> list Z) d l :
  zmem d (flat_map g l) = existsb (fun e => zmem d (g e)) l.
Proof.
  unfold zmem. induction l as [|x l IH]; [reflexivity|].
  cbn [flat_map existsb]. rewrite existsb_app, IH. reflexivity.
Qed.

Lemma existsb_ext_in {A} (f g : A -> bool) l :
  (forall x, In x l -> f x = g x) -> existsb f l = existsb g l.
Proof.
  induction l as [|x l IH]; intros H; [reflexivity|]. cbn [existsb].
  rewrite (H x (or_introl eq_refl)), IH; [reflexivity|]. intros y Hy. apply H. right. exact Hy.
Qed.

Lemma existsb_map {A B} (f : B -> bool) (g : A -> B) l :
  existsb f (map g l) = existsb (fun x => f (g x)) l.
Proof. induction l as [|x l IH]; [reflexivity|]. cbn [map existsb]. rewrite IH. reflexivity. Qed.

Lemma existsb_false {A} (f : A -> bool) l :
  (forall x, In x l -> f x = false) -> existsb f l = false.
Proof.
  induction l as [|x l IH]; intros H; [reflexivity|]. cbn [existsb].
  rewrite (H x (or_introl eq_refl)), IH; [reflexivity|]. intros y Hy. apply H. right. exact Hy.
Qed.

(* ------------------------------------------------------------------------------------------ *)
(* periods: the numbering of Spec/RecurSpec.v as a function of the day number, and the first   *)
(* day of the period with a given index                                                        *)

Definition pidx (f : freq) (d : Z) : Z := period_of f (cdate_of d).

Definition pstart (f : freq) (p : Z) : Z :=
  match f with
  | Daily => p
  | Weekly => 7 * p - 3
  | Monthly => month_first (p / 12) (p mod 12 + 1)
  | Yearly => days_from_civil p 1 1
  end.

Lemma pidx_daily d : pidx Daily d = d.
Proof. apply period_of_daily. Qed.
Lemma pidx_weekly d : pidx Weekly d = (d + 3) / 7.
Proof. apply period_of_weekly. Qed.
Lemma pidx_monthly d : pidx Monthly d = midx d.
Proof. apply period_of_monthly. Qed.
Lemma pidx_yearly d : pidx Yearly d = year_of d.
Proof. apply period_of_yearly. Qed.

Lemma pidx_mono f x y : x <= y -> pidx f x <= pidx f y.
Proof.
  intros H. destruct f.
  - rewrite !pidx_daily. exact H.
  - rewrite !pidx_weekly. lia.
  - rewrite !pidx_monthly. apply midx_mono. exact H.
  - rewrite !pidx_yearly. apply year_mono. exact H.
Qed.

(* the day after the last day of a month is the first of the next month *)
Lemma month_first_next y m : 1 <= m <= 12 ->
  month_first y m + dim y m =
  if m <? 12 then month_first y (m + 1) else month_first (y + 1) 1.
Proof.
  intros Hm. unfold month_first.
  pose proof (dim_bounds y m) as Hd.
  assert (Hv : valid_date y m (dim y m) = true) by (apply valid_date_intro; lia).
  pose proof (civil_succ (days_from_civil y m (dim y m))) as Hs.
  rewrite (civil_from_days_from_civil _ _ _ Hv) in Hs.
  unfold next_civ in Hs. rewrite Z.ltb_irrefl in Hs.
  pose proof (civil_roundtrip (days_from_civil y m (dim y m) + 1)) as Hr.
  rewrite Hs in Hr.
  assert (E : days_from_civil y m (dim y m) = days_from_civil y m 1 + (dim y m - 1)).
  { rewrite <- dfc_day_linear. f_equal. ring. }
  destruct (m <? 12); destruct Hr as [Hr _]; lia.
Qed.

Lemma pstart_monthly_succ p : pstart Monthly (p + 1) = pstart Monthly p + dim (p / 12) (p mod 12 + 1).
Proof.
  cbn [pstart]. rewrite month_first_next by lia.
  destruct (p mod 12 + 1 <? 12) eqn:E.
  - replace ((p + 1) / 12) with (p / 12) by lia.
    replace ((p + 1) mod 12 + 1) with (p mod 12 + 1 + 1) by lia. reflexivity.
  - replace ((p + 1) / 12) with (p / 12 + 1) by lia.
    replace ((p + 1) mod 12 + 1) with 1 by lia. reflexivity.
Qed.

Lemma pstart_yearly_succ y : pstart Yearly (y + 1) = pstart Yearly y + diy y.
Proof.
  cbn [pstart]. unfold days_from_civil, diy, is_leap.
  change (1 <=? 2) with true. change (1 >? 2) with false. cbv iota zeta.
  replace (y + 1 - 1) with y by ring.
  destruct ((y mod 4 =? 0) && negb (y mod 100 =? 0) || (y mod 400 =? 0)) eqn:E; lia.
Qed.

(* length of period p *)
Definition plen (f : freq) (p : Z) : Z :=
  match f with
  | Daily => 1
  | Weekly => 7
  | Monthly => dim (p / 12) (p mod 12 + 1)
  | Yearly => diy p
  end.

Lemma pstart_succ f p : pstart f (p + 1) = pstart f p + plen f p.
Proof.
  destruct f; cbn [plen].
  - reflexivity.
  - cbn [pstart]. ring.
  - apply pstart_monthly_succ.
  - apply pstart_yearly_succ.
Qed.

Lemma plen_min f p : period_min_days f <= plen f p.
Proof.
  destruct f; cbn [plen period_min_days]; try lia.
  - pose proof (dim_bounds (p / 12) (p mod 12 + 1)). lia.
  - pose proof (diy_bounds p). lia.
Qed.

Lemma plen_pos f p : 0 < plen f p.
Proof. pose proof (plen_min f p). destruct f; cbn [period_min_days] in *; lia. Qed.

(* a date belongs to period p iff it lies between p's first day and the next period's *)
Lemma pidx_monthly_of_first p dd : 1 <= dd <= dim (p / 12) (p mod 12 + 1) ->
  pidx Monthly (pstart Monthly p + (dd - 1)) = p.
Proof.
  intros Hdd. rewrite pidx_monthly. cbn [pstart]. unfold month_first, midx, year_of, month_of.
  rewrite <- dfc_day_linear. replace (1 + (dd - 1)) with dd by ring.
  rewrite civil_from_days_from_civil by (apply valid_date_intro; lia).
  cbn [fst snd]. lia.
Qed.

Theorem pidx_span f d p : pidx f d = p <-> pstart f p <= d < pstart f (p + 1).
Proof.
  destruct f.
  - rewrite pidx_daily. cbn [pstart]. lia.
  - rewrite pidx_weekly. cbn [pstart]. lia.
  - rewrite pstart_succ. cbn [plen]. split.
    + intros <-. rewrite pidx_monthly. unfold midx, year_of, month_of.
      pose proof (civil_roundtrip d) as Hr. destruct (civil_from_days d) as [[y m] dd].
      destruct Hr as [Hr Hv]. apply valid_date_elim in Hv. cbn [fst snd pstart].
      replace ((y * 12 + m - 1) / 12) with y by lia.
      replace ((y * 12 + m - 1) mod 12 + 1) with m by lia.
      unfold month_first. rewrite <- Hr.
      assert (E : days_from_civil y m dd = days_from_civil y m 1 + (dd - 1)).
      { rewrite <- dfc_day_linear. f_equal. ring. }
      lia.
    + intros H. replace d with (pstart Monthly p + (d - pstart Monthly p + 1 - 1)) by ring.
      apply pidx_monthly_of_first. lia.
  - rewrite pidx_yearly. split.
    + intros <-. split; [apply jan1_le|apply lt_next_jan1].
    + intros [H1 H2]. cbn [pstart] in *.
      assert (Ha : p <= year_of d).
      { rewrite <- (year_of_jan1 p). apply year_mono. exact H1. }
      assert (Hb : year_of d <= p).
      { replace p with (p + 1 - 1) by ring. rewrite <- (year_of_before_jan1 (p + 1)).
        apply year_mono. lia. }
      lia.
Qed.

Lemma pstart_le f d : pstart f (pidx f d) <= d.
Proof. apply (pidx_span f d (pidx f d)). reflexivity. Qed.

Lemma pstart_lt_mono_step f p : pstart f p < pstart f (p + 1).
Proof. rewrite pstart_succ. pose proof (plen_pos f p). lia. Qed.

(* pstart over j further periods: at least j minimal period lengths *)
Lemma pstart_advance f p (j : nat) :
  pstart f p + Z.of_nat j * period_min_days f <= pstart f (p + Z.of_nat j).
Proof.
  induction j as [|j IH].
  - change (Z.of_nat 0) with 0. rewrite !Z.add_0_r. lia.
  - rewrite Nat2Z.inj_succ. replace (p + Z.succ (Z.of_nat j)) with (p + Z.of_nat j + 1) by lia.
    rewrite pstart_succ. pose proof (plen_min f (p + Z.of_nat j)).
    replace (Z.succ (Z.of_nat j) * period_min_days f)
      with (Z.of_nat j * period_min_days f + period_min_days f) by ring. lia.
Qed.

Lemma pstart_mono f p p' : p <= p' -> pstart f p <= pstart f p'.
Proof.
  intros H. pose proof (pstart_advance f p (Z.to_nat (p' - p))) as Ha.
  rewrite Z2Nat.id in Ha by lia. replace (p + (p' - p)) with p' in Ha by ring.
  assert (0 <= period_min_days f) by (destruct f; cbn; lia). nia.
Qed.

(* a day at or after the start of period p lies in a period >= p; before it, in one < p *)
Lemma pidx_ge f d p : pstart f p <= d -> p <= pidx f d.
Proof.
  intros H. destruct (Z_le_gt_dec p (pidx f d)) as [|Hgt]; [assumption|].
  pose proof (proj1 (pidx_span f d (pidx f d)) eq_refl) as [_ H2].
  pose proof (pstart_mono f (pidx f d + 1) p). lia.
Qed.

Lemma pidx_lt f d p : d < pstart f p -> pidx f d < p.
Proof.
  intros H. destruct (Z_lt_ge_dec (pidx f d) p) as [|Hge]; [assumption|].
  pose proof (pstart_le f d). pose proof (pstart_mono f p (pidx f d)). lia.
Qed.

(* ------------------------------------------------------------------------------------------ *)
(* the rule handed to rrule (rr_init) and the series taking its defaults from the same date    *)

Definition plainb (f : freq) (e : Z * option Z) : bool :=
  match snd e with
  | None => true
  | Some n => (n =? 0) || freq_eqb f Weekly || freq_eqb f Daily
  end.

Definition nth_entries (f : freq) (bw : list (Z * option Z)) : list (Z * Z) :=
  flat_map (fun e => if plainb f e then [] else
                       match snd e with Some n => [(fst e, n)] | None => [] end) bw.

Lemma rr_of_fields r a0 :
  let S := series_from r a0 in
  let q := rr_of r a0 in
  q_freq q = r_freq r /\ q_interval q = r_interval r /\ q_dtstart q = a0 /\
  q_bymonth q = e_bymonth S /\
  q_bymonthday q = filter (fun x => 0 <? x) (e_bymonthday S) /\
  q_bynmonthday q = filter (fun x => x <? 0) (e_bymonthday S) /\
  q_byweekday q = map fst (filter (plainb (r_freq r)) (e_byday S)) /\
  q_bynweekday q = nth_entries (r_freq r) (e_byday S) /\
  q_bysetpos q = r_bysetpos r.
Proof.
  unfold rr_of, rr_init, series_from, month_of, day_of, no_day_rule.
  destruct (civil_from_days a0) as [[y m] d].
  cbn [q_freq q_interval q_dtstart q_bymonth q_bymonthday q_bynmonthday q_byweekday q_bynweekday
       q_bysetpos e_bymonth e_bymonthday e_byday fst snd].
  repeat split; reflexivity.
Qed.

(* what is assumed of the BYxxx lists of a rule *)
Definition byday_plain_only (r : rule) : Prop := forallb (plainb (r_freq r)) (r_byweekday r) = true.
Definition byday_nth_only (r : rule) : Prop :=
  forallb (fun e => negb (plainb (r_freq r) e)) (r_byweekday r) = true.

Record lists_ok (r : rule) : Prop := mkListsOk {
  lo_bymonth : Forall (fun m => 1 <= m <= 12) (r_bymonth r);
  lo_bymonthday : Forall (fun e => e <> 0) (r_bymonthday r);
  lo_byday_wd : Forall (fun e => 0 <= fst e < 7) (r_byweekday r);
  lo_unmixed : byday_plain_only r \/ byday_nth_only r }.

(* ---- BYMONTHDAY ---- *)
Lemma monthday_mem y m dd l :
  Forall (fun e => e <> 0) l ->
  zmem dd (filter (fun x => 0 <? x) l) || zmem (dd - dim y m - 1) (filter (fun x => x <? 0) l)
  = existsb (monthday_entry_ok y m dd) l.
Proof.
  induction 1 as [|e l He _ IH]; [reflexivity|].
  cbn [filter existsb]. rewrite <- IH. unfold monthday_entry_ok.
  destruct (0 <? e) eqn:E1; destruct (e <? 0) eqn:E2; try lia; unfold zmem; cbn [existsb].
  - fold (zmem dd (filter (fun x => 0 <? x) l)). rewrite orb_assoc. reflexivity.
  - fold (zmem (dd - dim y m - 1) (filter (fun x => x <? 0) l)).
    replace (dd - dim y m - 1 =? e) with (dd =? dim y m + 1 + e) by lia.
    rewrite orb_assoc. rewrite (orb_comm _ (dd =? dim y m + 1 + e)). rewrite <- orb_assoc. reflexivity.
Qed.

Lemma monthday_equiv y m dd l :
  Forall (fun e => e <> 0) l ->
  (is_nil (filter (fun x => 0 <? x) l) && is_nil (filter (fun x => x <? 0) l))
  || zmem dd (filter (fun x => 0 <? x) l) || zmem (dd - dim y m - 1) (filter (fun x => x <? 0) l)
  = is_nil l || existsb (monthday_entry_ok y m dd) l.
Proof.
  intros H. rewrite <- orb_assoc, (monthday_mem y m dd l H).
  destruct l as [|e l]; [reflexivity|].
  f_equal. inversion H as [|? ? He _]; subst. cbn [filter is_nil].
  destruct (0 <? e) eqn:E1; [reflexivity|]. destruct (e <? 0) eqn:E2; [apply andb_false_r|lia].
Qed.

(* ---- n-th weekdays ---- *)
Lemma nth_in_range_spec first last wd n d :
  first <= d <= last -> n <> 0 -> 0 <= wd < 7 ->
  zmem d (nth_in_range first last wd n) =
  (weekday d =? wd) && is_nth (d - first + 1) (last - first + 1) n.
Proof.
  intros Hd Hn Hwd. unfold nth_in_range, is_nth, weekday.
  destruct (n <? 0) eqn:En.
  - replace (0 <? n) with false by lia.
    set (i0 := last + (n + 1) * 7).
    set (i := i0 - ((i0 + 3) mod 7 - wd) mod 7).
    destruct ((first <=? i) && (i <=? last)) eqn:E; cbn [zmem existsb].
    + rewrite orb_false_r. subst i i0. lia.
    + subst i i0. lia.
  - replace (0 <? n) with true by lia.
    set (i0 := first + (n - 1) * 7).
    set (i := i0 + (7 - (i0 + 3) mod 7 + wd) mod 7).
    destruct ((first <=? i) && (i <=? last)) eqn:E; cbn [zmem existsb].
    + rewrite orb_false_r. subst i i0. lia.
    + subst i i0. lia.
Qed.

Lemma nth_in_range_out first last wd n d :
  ~ (first <= d <= last) -> zmem d (nth_in_range first last wd n) = false.
Proof.
  intros Hd. unfold nth_in_range.
  match goal with |- context [if (?a <=? ?i) && (?i <=? ?b) then _ else _] =>
    destruct ((a <=? i) && (i <=? b)) eqn:E end; cbn [zmem existsb]; [|reflexivity].
  rewrite orb_false_r. lia.
Qed.

(* a date, its calendar fields and the first day of its month / year *)
Lemma civil_month_first d y m dd :
  civil_from_days d = (y, m, dd) ->
  1 <= m <= 12 /\ 1 <= dd <= dim y m /\ d = month_first y m + (dd - 1) /\
  midx d = y * 12 + m - 1 /\ year_of d = y.
Proof.
  intros E. destruct (civil_fields_valid _ _ _ _ E) as [Hv Hd]. apply valid_date_elim in Hv.
  unfold month_first, midx, year_of, month_of. rewrite E. cbn [fst snd].
  rewrite <- dfc_day_linear. replace (1 + (dd - 1)) with dd by ring. lia.
Qed.

Lemma month_range_month y m' d : 1 <= m' <= 12 ->
  month_first y m' <= d <= month_last y m' -> midx d = y * 12 + m' - 1.
Proof.
  intros Hm H. unfold month_last in H. fold (month_first y m') in H.
  rewrite <- pidx_monthly. apply pidx_span. rewrite pstart_succ. cbn [pstart plen].
  replace ((y * 12 + m' - 1) / 12) with y by lia.
  replace ((y * 12 + m' - 1) mod 12 + 1) with m' by lia. lia.
Qed.

Lemma existsb_pick (g : Z -> bool) (m : Z) (X : bool) l :
  (forall m', In m' l -> g m' = (m =? m') && X) -> existsb g l = zmem m l && X.
Proof.
  unfold zmem. induction l as [|x l IH]; intros H; [reflexivity|].
  cbn [existsb]. rewrite (H x (or_introl eq_refl)), IH by (intros; apply H; right; assumption).
  destruct (m =? x); destruct X; destruct (existsb (Z.eqb m) l); reflexivity.
Qed.

Lemma nth_entries_existsb f (g : Z * Z -> bool) l :
  forallb (fun e => negb (plainb f e)) l = true ->
  existsb g (nth_entries f l) =
  existsb (fun e => match snd e with Some n => g (fst e, n) | None => false end) l.
Proof.
  unfold nth_entries. induction l as [|e l IH]; intros H; [reflexivity|].
  cbn [forallb] in H. apply andb_true_iff in H. destruct H as [He Hl].
  cbn [flat_map existsb]. rewrite existsb_app, (IH Hl).
  destruct (plainb f e) eqn:Ep; [discriminate|].
  destruct (snd e) as [n|]; cbn [existsb]; [rewrite orb_false_r|]; reflexivity.
Qed.

Lemma nth_entries_plain f l : forallb (plainb f) l = true -> nth_entries f l = [] /\ filter (plainb f) l = l.
Proof.
  unfold nth_entries. induction l as [|e l IH]; intros H; [split; reflexivity|].
  cbn [forallb] in H. apply andb_true_iff in H. destruct H as [He Hl].
  destruct (IH Hl) as [I1 I2]. cbn [flat_map filter]. rewrite He, I1, I2. split; reflexivity.
Qed.

Lemma nth_only_filter f l : forallb (fun e => negb (plainb f e)) l = true -> filter (plainb f) l = [].
Proof.
  induction l as [|e l IH]; intros H; [reflexivity|].
  cbn [forallb] in H. apply andb_true_iff in H. destruct H as [He Hl].
  cbn [filter]. destruct (plainb f e); [discriminate|]. apply IH. exact Hl.
Qed.

(* ---- the lists of the series ---- *)
Lemma series_monthday_nonzero r a0 :
  lists_ok r -> Forall (fun e => e <> 0) (e_bymonthday (series_from r a0)).
Proof.
  intros H. unfold series_from. cbn [e_bymonthday].
  destruct (no_day_rule r && (freq_eqb (r_freq r) Yearly || freq_eqb (r_freq r) Monthly)).
  - constructor; [|constructor]. unfold day_of.
    destruct (civil_from_days a0) as [[y m] dd] eqn:E.
    destruct (civil_month_first _ _ _ _ E) as (_ & Hdd & _). cbn [snd]. lia.
  - apply lo_bymonthday. exact H.
Qed.

Lemma byday_cases r a0 :
  lists_ok r ->
  let S := series_from r a0 in
  forallb (plainb (r_freq r)) (e_byday S) = true \/
  (forallb (fun e => negb (plainb (r_freq r) e)) (e_byday S) = true /\
   e_byday S = r_byweekday r /\ r_byweekday r <> [] /\
   (r_freq r = Monthly \/ r_freq r = Yearly) /\ e_bymonth S = r_bymonth r).
Proof.
  intros H S. unfold S, series_from, no_day_rule. cbn [e_byday e_bymonth].
  destruct (lo_unmixed r H) as [Hp|Hn].
  - left. destruct (is_nil (r_byweekday r) && is_nil (r_bymonthday r) && freq_eqb (r_freq r) Weekly);
      [reflexivity|exact Hp].
  - unfold byday_nth_only in Hn. destruct (r_byweekday r) as [|e l] eqn:Ebw.
    + left. cbn [is_nil andb]. destruct (is_nil (r_bymonthday r) && freq_eqb (r_freq r) Weekly); reflexivity.
    + right. cbn [is_nil andb]. split; [exact Hn|]. split; [reflexivity|]. split; [discriminate|].
      split; [|reflexivity].
      pose proof Hn as Hn'. cbn [forallb] in Hn'.
      apply andb_true_iff in Hn'. destruct Hn' as [He _]. unfold plainb in He.
      destruct (snd e) as [n|]; [|discriminate].
      destruct (r_freq r); cbn [freq_eqb] in He; rewrite ?orb_true_r in He; try discriminate; auto.
Qed.

Lemma is_nil_map {A B} (g : A -> B) l : is_nil (map g l) = is_nil l.
Proof. destruct l; reflexivity. Qed.

Lemma is_nil_nth_entries f l :
  forallb (fun e => negb (plainb f e)) l = true -> is_nil (nth_entries f l) = is_nil l.
Proof.
  destruct l as [|e l]; [reflexivity|]. cbn [forallb]. intros H.
  apply andb_true_iff in H. destruct H as [He _]. unfold nth_entries. cbn [flat_map].
  destruct (plainb f e) eqn:Ep; [discriminate|]. unfold plainb in Ep.
  destruct (snd e); [reflexivity|discriminate].
Qed.

(* the n-th weekday entries over a range that contains the date / does not contain it *)
Lemma range_entries f bw first last d :
  forallb (fun e => negb (plainb f e)) bw = true ->
  Forall (fun e => 0 <= fst e < 7) bw ->
  first <= d <= last ->
  existsb (fun e => zmem d (nth_in_range first last (fst e) (snd e))) (nth_entries f bw) =
  existsb (fun e => (weekday d =? fst e) &&
                    match snd e with
                    | Some n => is_nth (d - first + 1) (last - first + 1) n
                    | None => false
                    end) bw.
Proof.
  intros Hn Hwd Hd.
  rewrite (nth_entries_existsb f (fun e => zmem d (nth_in_range first last (fst e) (snd e))) bw Hn).
  apply existsb_ext_in. intros e He. cbn [fst snd].
  rewrite forallb_forall in Hn. specialize (Hn e He).
  rewrite Forall_forall in Hwd. specialize (Hwd e He).
  unfold plainb in Hn. destruct (snd e) as [n|]; [|rewrite andb_false_r; reflexivity].
  apply nth_in_range_spec; [exact Hd| |exact Hwd].
  intros ->. cbn in Hn. discriminate.
Qed.

Lemma range_entries_out (l : list (Z * Z)) first last d :
  ~ (first <= d <= last) ->
  existsb (fun e => zmem d (nth_in_range first last (fst e) (snd e))) l = false.
Proof. intros H. apply existsb_false. intros e _. apply nth_in_range_out. exact H. Qed.

(* the model state visits the period the date belongs to *)
Definition state_of_period (f : freq) (st : pstate) (p : Z) : Prop :=
  match f, st with
  | Daily, PDay _ => True
  | Weekly, PWeek _ => True
  | Monthly, PMonth am => am = p
  | Yearly, PYear y => y = p
  | _, _ => False
  end.

Lemma zmem_nwdays q st d :
  zmem d (nwdays q st) =
  existsb (fun rg => existsb (fun e => zmem d (nth_in_range (fst rg) (snd rg) (fst e) (snd e)))
                             (q_bynweekday q)) (nw_ranges q st).
Proof.
  unfold nwdays. rewrite zmem_flat_map. apply existsb_ext_in. intros rg _. apply zmem_flat_map.
Qed.

Lemma day_ok_unfold q nwd d y m dd :
  day_ok q nwd (d, y, m, dd) =
  (is_nil (q_bymonth q) || zmem m (q_bymonth q)) &&
  (is_nil (q_byweekday q) || zmem (weekday d) (q_byweekday q)) &&
  (is_nil (q_bynweekday q) || zmem d nwd) &&
  ((is_nil (q_bymonthday q) && is_nil (q_bynmonthday q)) ||
   zmem dd (q_bymonthday q) || zmem (dd - dim y m - 1) (q_bynmonthday q)).
Proof. reflexivity. Qed.

Lemma filters_ok_unfold s d y m dd :
  filters_ok s (d, y, m, dd) =
  (is_nil (e_bymonth s) || zmem m (e_bymonth s)) &&
  (is_nil (e_byday s) || existsb (byday_entry_ok s d y m dd) (e_byday s)) &&
  (is_nil (e_bymonthday s) || existsb (monthday_entry_ok y m dd) (e_bymonthday s)).
Proof. reflexivity. Qed.

(* the heart of L1: on the days of the period a state visits, dateutil's day filter is the
   declarative predicate of the series *)
Lemma day_ok_filters r a0 st d :
  lists_ok r ->
  state_of_period (r_freq r) st (pidx (r_freq r) d) ->
  day_ok (rr_of r a0) (nwdays (rr_of r a0) st) (cdate_of d) = filters_ok (series_from r a0) (cdate_of d).
Proof.
  intros Hok Hst.
  destruct (rr_of_fields r a0) as (Hf & Hk & Hd0 & Hbm & Hpos & Hneg & Hwd & Hnw & Hsp).
  cbv zeta in *.
  pose proof (byday_cases r a0 Hok) as Hcases. cbv zeta in Hcases.
  pose proof (series_monthday_nonzero r a0 Hok) as Hmd.
  assert (HfS : e_freq (series_from r a0) = r_freq r) by reflexivity.
  assert (HnyS : e_nth_in_year (series_from r a0) = freq_eqb (r_freq r) Yearly && is_nil (r_bymonth r))
    by reflexivity.
  set (S := series_from r a0) in *. set (q := rr_of r a0) in *.
  unfold cdate_of. destruct (civil_from_days d) as [[y m] dd] eqn:E.
  destruct (civil_month_first _ _ _ _ E) as (Hm & Hdd & Hdm & Hmi & Hyr).
  rewrite day_ok_unfold, filters_ok_unfold.
  rewrite Hpos, Hneg, (monthday_equiv y m dd _ Hmd).
  f_equal. rewrite Hbm.
  destruct (is_nil (e_bymonth S) || zmem m (e_bymonth S)) eqn:EA; [|reflexivity].
  cbn [andb]. rewrite Hwd, Hnw.
  destruct Hcases as [Hp|(Hn & Hbw & Hne & Hfr & Hbm')].
  - (* plain weekdays only *)
    destruct (nth_entries_plain _ _ Hp) as [-> ->]. cbn [is_nil orb]. rewrite andb_true_r.
    rewrite is_nil_map. f_equal. unfold zmem. rewrite existsb_map.
    apply existsb_ext_in. intros e He. rewrite forallb_forall in Hp. specialize (Hp e He).
    unfold byday_entry_ok, plainb in *. rewrite HfS.
    destruct (snd e) as [n|]; [|rewrite andb_true_r; reflexivity].
    destruct (n =? 0); [rewrite andb_true_r; reflexivity|].
    destruct (r_freq r); cbn in Hp; try discriminate; rewrite andb_true_r; reflexivity.
  - (* n-th weekdays only: a MONTHLY or YEARLY rule *)
    rewrite (nth_only_filter _ _ Hn). cbn [map is_nil orb andb].
    rewrite (is_nil_nth_entries _ _ Hn). f_equal.
    assert (Hwdr : Forall (fun e => 0 <= fst e < 7) (e_byday S)).
    { rewrite Hbw. apply lo_byday_wd. exact Hok. }
    rewrite zmem_nwdays. rewrite Hnw.
    (* the entry test of the series, for non-plain entries *)
    assert (Hentry : forall first last,
      (if e_nth_in_year S then first = days_from_civil y 1 1 /\ last - first + 1 = diy y
       else d - first + 1 = dd /\ last - first + 1 = dim y m) ->
      existsb (fun e => (weekday d =? fst e) &&
                        match snd e with
                        | Some n => is_nth (d - first + 1) (last - first + 1) n
                        | None => false
                        end) (e_byday S) =
      existsb (byday_entry_ok S d y m dd) (e_byday S)).
    { intros first last Hfl. apply existsb_ext_in. intros e He.
      rewrite forallb_forall in Hn. specialize (Hn e He).
      unfold byday_entry_ok, plainb in *. rewrite HfS. f_equal.
      destruct (snd e) as [n|]; [|discriminate].
      destruct (n =? 0); [discriminate|].
      destruct (e_nth_in_year S).
      - destruct Hfl as [-> ->]. destruct Hfr as [->| ->]; reflexivity.
      - destruct Hfl as [-> ->]. destruct Hfr as [->| ->]; reflexivity. }
    destruct Hfr as [Hfr|Hfr]; rewrite Hfr in Hst; destruct st as [?|?|am|y']; try contradiction;
      cbn [state_of_period] in Hst; cbn [nw_ranges].
    + (* MONTHLY *)
      rewrite pidx_monthly, Hmi in Hst. subst am.
      replace ((y * 12 + m - 1) / 12) with y by lia.
      replace ((y * 12 + m - 1) mod 12 + 1) with m by lia.
      cbn [existsb fst snd]. rewrite orb_false_r.
      rewrite (range_entries _ _ _ _ _ Hn Hwdr) by (unfold month_last; fold (month_first y m); lia).
      apply Hentry. rewrite HnyS, Hfr. cbn [freq_eqb andb].
      unfold month_last. fold (month_first y m). lia.
    + (* YEARLY *)
      rewrite pidx_yearly, Hyr in Hst. subst y'.
      assert (Hyspan : days_from_civil y 1 1 <= d < days_from_civil y 1 1 + diy y).
      { pose proof (proj1 (pidx_span Yearly d y)) as Hs. rewrite pidx_yearly, pstart_succ in Hs.
        cbn [pstart plen] in Hs. apply Hs. exact Hyr. }
      rewrite Hbm, Hbm'. destruct (is_nil (r_bymonth r)) eqn:Enil.
      * cbn [existsb fst snd]. rewrite orb_false_r.
        rewrite (range_entries _ _ _ _ _ Hn Hwdr) by lia.
        apply Hentry. rewrite HnyS, Hfr, ?Enil. cbn [freq_eqb andb]. lia.
      * rewrite existsb_map. cbn [fst snd].
        rewrite Hbm', Enil in EA. cbn [orb] in EA.
        rewrite (existsb_pick _ m (existsb (byday_entry_ok S d y m dd) (e_byday S))).
        { rewrite EA. reflexivity. }
        intros m' Hm'.
        assert (Hm'r : 1 <= m' <= 12).
        { pose proof (lo_bymonth r Hok) as Hb. rewrite Forall_forall in Hb. apply Hb. exact Hm'. }
        destruct (m =? m') eqn:Emm.
        -- apply Z.eqb_eq in Emm. subst m'. cbn [andb].
           rewrite (range_entries _ _ _ _ _ Hn Hwdr) by (unfold month_last; fold (month_first y m); lia).
           apply Hentry. rewrite HnyS, Hfr, ?Enil. cbn [freq_eqb andb].
           unfold month_last. fold (month_first y m). lia.
        -- cbn [andb]. apply range_entries_out. intros Hin.
           apply (month_range_month y m' d Hm'r) in Hin. lia.
Qed.

(* ------------------------------------------------------------------------------------------ *)
(* L1: the expansion, period by period                                                         *)

(* the declarative predicate, on day numbers *)
Definition M (r : rule) (a0 d : Z) : bool := matches_s (series_from r a0) (cdate_of d).

Definition no_setpos (r : rule) : Prop := r_bysetpos r = [].

(* the state of rrule's loop that stands for the whole period p *)
Definition full_state (f : freq) (p : Z) : pstate :=
  match f with
  | Daily => PDay p
  | Weekly => PWeek (7 * p - 3)
  | Monthly => PMonth p
  | Yearly => PYear p
  end.

Lemma full_state_span f p : period_span (full_state f p) = (pstart f p, plen f p).
Proof.
  destruct f; cbn [full_state period_span pstart plen]; try reflexivity.
  f_equal. unfold weekday. lia.
Qed.

Lemma full_state_of_period f p : state_of_period f (full_state f p) p.
Proof. destruct f; cbn; auto. Qed.

Lemma in_phase_pidx r a0 d :
  in_phase (series_from r a0) (cdate_of d) =
  ((pidx (r_freq r) d - pidx (r_freq r) a0) mod r_interval r =? 0).
Proof. reflexivity. Qed.

Lemma M_in_phase r a0 d :
  no_setpos r ->
  (pidx (r_freq r) d - pidx (r_freq r) a0) mod r_interval r = 0 ->
  M r a0 d = filters_ok (series_from r a0) (cdate_of d).
Proof.
  intros Hsp Hph. unfold M, matches_s. rewrite in_phase_pidx, Hph. cbn [Z.eqb].
  destruct (filters_ok (series_from r a0) (cdate_of d)); [|reflexivity].
  unfold setpos_ok. unfold series_from at 1. cbn [e_bysetpos]. rewrite Hsp. reflexivity.
Qed.

Lemma M_out_of_phase r a0 d :
  (pidx (r_freq r) d - pidx (r_freq r) a0) mod r_interval r <> 0 -> M r a0 d = false.
Proof.
  intros Hph. unfold M, matches_s. rewrite in_phase_pidx.
  destruct ((pidx (r_freq r) d - pidx (r_freq r) a0) mod r_interval r =? 0) eqn:E; [lia|reflexivity].
Qed.

(* one pass of the loop over a state whose span lies inside an in-phase period *)
Lemma period_occ_span r a0 st p s n :
  lists_ok r -> no_setpos r ->
  state_of_period (r_freq r) st p ->
  period_span st = (s, n) ->
  (forall d, s <= d < s + n -> pidx (r_freq r) d = p) ->
  (p - pidx (r_freq r) a0) mod r_interval r = 0 ->
  period_occ (rr_of r a0) st = filter (fun d => (a0 <=? d) && M r a0 d) (zseq s n).
Proof.
  intros Hok Hsp Hst Hspan Hin Hph.
  destruct (rr_of_fields r a0) as (Hf & Hk & Hd0 & _ & _ & _ & _ & _ & Hqsp). cbv zeta in *.
  unfold period_occ. rewrite Hspan, Hqsp, Hsp, Hd0. cbn [is_nil].
  rewrite cand_days, filter_filter'. apply filter_ext_in. intros d Hd.
  apply zseq_In in Hd.
  assert (Hd' : s <= d < s + n) by lia.
  rewrite day_ok_filters; [|exact Hok|rewrite (Hin d Hd'); exact Hst].
  rewrite M_in_phase; [|exact Hsp|rewrite (Hin d Hd'); exact Hph].
  apply andb_comm.
Qed.

(* the states the loop goes through: dtstart's own period first, then every interval-th *)
Definition st_at (r : rule) (a0 : Z) (j : Z) : pstate :=
  if j =? 0 then init_state (rr_of r a0)
  else full_state (r_freq r) (pidx (r_freq r) a0 + j * r_interval r).

Lemma init_state_eq r a0 :
  init_state (rr_of r a0) =
  match r_freq r with
  | Weekly => PWeek a0
  | f => full_state f (pidx f a0)
  end.
Proof.
  destruct (rr_of_fields r a0) as (Hf & Hk & Hd0 & _). cbv zeta in *.
  unfold init_state. rewrite Hf, Hd0.
  destruct (civil_from_days a0) as [[y m] dd] eqn:E.
  destruct (civil_month_first _ _ _ _ E) as (_ & _ & _ & Hmi & Hyr).
  destruct (r_freq r); cbn [full_state].
  - rewrite pidx_daily. reflexivity.
  - reflexivity.
  - rewrite pidx_monthly, Hmi. reflexivity.
  - rewrite pidx_yearly, Hyr. reflexivity.
Qed.

Lemma next_state_full r a0 p :
  next_state (rr_of r a0) (full_state (r_freq r) p) = full_state (r_freq r) (p + r_interval r).
Proof.
  destruct (rr_of_fields r a0) as (_ & Hk & _). cbv zeta in *.
  destruct (r_freq r); cbn [full_state next_state]; rewrite Hk; try reflexivity.
  f_equal. unfold weekday. lia.
Qed.

Lemma next_state_at r a0 j : 0 <= j -> next_state (rr_of r a0) (st_at r a0 j) = st_at r a0 (j + 1).
Proof.
  intros Hj. unfold st_at. replace (j + 1 =? 0) with false by lia.
  destruct (j =? 0) eqn:E.
  - apply Z.eqb_eq in E. subst j. rewrite init_state_eq.
    replace (pidx (r_freq r) a0 + (0 + 1) * r_interval r) with (pidx (r_freq r) a0 + r_interval r) by ring.
    destruct (r_freq r) eqn:Ef; try (rewrite <- Ef, next_state_full, Ef; reflexivity).
    destruct (rr_of_fields r a0) as (_ & Hk & _). cbv zeta in *.
    cbn [next_state full_state]. rewrite Hk, pidx_weekly. f_equal. unfold weekday. lia.
  - rewrite next_state_full. f_equal. ring.
Qed.

Lemma init_state_cases r a0 :
  init_state (rr_of r a0) = full_state (r_freq r) (pidx (r_freq r) a0) \/
  (r_freq r = Weekly /\ init_state (rr_of r a0) = PWeek a0).
Proof.
  rewrite init_state_eq. destruct (r_freq r); auto.
Qed.

(* one pass, as a filter over all the days of the state's period *)
Lemma period_occ_at r a0 j :
  lists_ok r -> no_setpos r -> 0 <= j ->
  period_occ (rr_of r a0) (st_at r a0 j) =
  filter (fun d => (a0 <=? d) && M r a0 d)
         (zseq (pstart (r_freq r) (pidx (r_freq r) a0 + j * r_interval r))
               (plen (r_freq r) (pidx (r_freq r) a0 + j * r_interval r))).
Proof.
  intros Hok Hsp Hj.
  set (p := pidx (r_freq r) a0 + j * r_interval r).
  assert (Hph : (p - pidx (r_freq r) a0) mod r_interval r = 0).
  { unfold p. replace (pidx (r_freq r) a0 + j * r_interval r - pidx (r_freq r) a0)
      with (j * r_interval r) by ring.
    apply Z_mod_mult. }
  assert (Hfull : forall d, pstart (r_freq r) p <= d < pstart (r_freq r) p + plen (r_freq r) p ->
                            pidx (r_freq r) d = p).
  { intros d Hd. apply pidx_span. rewrite pstart_succ. exact Hd. }
  assert (Hgen : st_at r a0 j = full_state (r_freq r) p ->
                 period_occ (rr_of r a0) (st_at r a0 j) =
                 filter (fun d => (a0 <=? d) && M r a0 d) (zseq (pstart (r_freq r) p) (plen (r_freq r) p))).
  { intros ->. apply (period_occ_span r a0 _ p); try assumption.
    - apply full_state_of_period.
    - apply full_state_span. }
  unfold st_at in *. destruct (j =? 0) eqn:E; [|apply Hgen; reflexivity].
  apply Z.eqb_eq in E. subst j.
  assert (Hp : p = pidx (r_freq r) a0) by (unfold p; ring).
  destruct (init_state_cases r a0) as [Hi|[Ef Hi]]; [apply Hgen; rewrite Hi, Hp; reflexivity|].
  (* WEEKLY: the first week is truncated at dtstart *)
  clear Hgen. rewrite Hi. rewrite Ef in *. cbn [pstart plen].
  rewrite (period_occ_span r a0 (PWeek a0) p a0 (7 - weekday a0)); try assumption.
  - pose proof (weekday_range a0) as Hw.
    replace (zseq (7 * p - 3) 7) with (zseq (7 * p - 3) (weekday a0 + (7 - weekday a0))) by (f_equal; ring).
    rewrite zseq_app by lia. rewrite filter_app.
    rewrite (filter_none _ (zseq (7 * p - 3) (weekday a0))).
    + cbn [app]. f_equal. f_equal. rewrite Hp, pidx_weekly. unfold weekday. lia.
    + intros d Hd. apply zseq_In in Hd. rewrite Hp, pidx_weekly in Hd. unfold weekday in *.
      replace (a0 <=? d) with false by lia. reflexivity.
  - rewrite Ef. exact I.
  - reflexivity.
  - rewrite Ef. intros d Hd. rewrite Hp, !pidx_weekly. unfold weekday in *. lia.
  - rewrite Ef. exact Hph.
Qed.

(* between two visited periods nothing matches *)
Lemma gap_none r a0 j :
  0 < r_interval r ->
  let f := r_freq r in
  let p := pidx f a0 + j * r_interval r in
  filter (fun d => (a0 <=? d) && M r a0 d)
         (zseq (pstart f (p + 1)) (pstart f (p + r_interval r) - pstart f (p + 1))) = [].
Proof.
  intros Hk f p. apply filter_none. intros d Hd. apply zseq_In in Hd.
  assert (H1 : p + 1 <= pidx f d) by (apply pidx_ge; lia).
  assert (H2 : pidx f d < p + r_interval r) by (apply pidx_lt; lia).
  rewrite M_out_of_phase; [apply andb_false_r|]. fold f.
  replace (pidx f d - pidx f a0) with ((pidx f d - p) + j * r_interval r) by (unfold p; ring).
  rewrite Z_mod_plus_full. rewrite Z.mod_small by lia. lia.
Qed.

Definition Mfrom (r : rule) (a0 d : Z) : bool := (a0 <=? d) && M r a0 d.

Lemma rrule_periods_spec r a0 :
  lists_ok r -> no_setpos r -> 0 < r_interval r ->
  let f := r_freq r in
  let p0 := pidx f a0 in
  forall (n : nat) j, 0 <= j ->
  rrule_periods (rr_of r a0) (st_at r a0 j) n =
  filter (Mfrom r a0)
         (zseq (pstart f (p0 + j * r_interval r))
               (pstart f (p0 + (j + Z.of_nat n) * r_interval r) - pstart f (p0 + j * r_interval r))).
Proof.
  intros Hok Hsp Hk f p0. induction n as [|n IH]; intros j Hj.
  - cbn [rrule_periods]. rewrite Z.add_0_r, Z.sub_diag. reflexivity.
  - cbn [rrule_periods]. rewrite next_state_at by exact Hj. rewrite IH by lia.
    rewrite (period_occ_at r a0 j Hok Hsp Hj). cbv zeta. fold f p0.
    set (p := p0 + j * r_interval r).
    replace (p0 + (j + 1) * r_interval r) with (p + r_interval r) by (unfold p; ring).
    replace (p0 + (j + 1 + Z.of_nat n) * r_interval r) with (p0 + (j + Z.of_nat (S n)) * r_interval r) by lia.
    set (pe := p0 + (j + Z.of_nat (S n)) * r_interval r).
    assert (Hpe : p + r_interval r <= pe) by (unfold pe, p; nia).
    pose proof (pstart_succ f p) as Hs1.
    pose proof (pstart_mono f (p + 1) (p + r_interval r) ltac:(lia)) as Hs2.
    pose proof (pstart_mono f (p + r_interval r) pe Hpe) as Hs3.
    pose proof (plen_pos f p) as Hl.
    replace (pstart f pe - pstart f p) with
        (plen f p + ((pstart f (p + r_interval r) - pstart f (p + 1)) +
                     (pstart f pe - pstart f (p + r_interval r)))) by lia.
    rewrite zseq_app by lia. rewrite filter_app. f_equal.
    rewrite <- Hs1. rewrite zseq_app by lia. rewrite filter_app.
    pose proof (gap_none r a0 j Hk) as Hg. cbv zeta in Hg. fold f p0 p in Hg.
    unfold Mfrom at 2. rewrite Hg. cbn [app]. f_equal. f_equal. lia.
Qed.

Lemma pstart_le_dtstart f a0 : pstart f (pidx f a0) <= a0.
Proof. apply pstart_le. Qed.

(* L1 (rules without BYSETPOS): [n] passes of rrule's loop started at dtstart a0 yield exactly
   the days d, a0 <= d < first day of period (p0 + n*interval), that satisfy the series'
   predicate — ascending, each once *)
Theorem L1_expansion r a0 (n : nat) :
  lists_ok r -> no_setpos r -> 0 < r_interval r ->
  let f := r_freq r in
  let E := pstart f (pidx f a0 + Z.of_nat n * r_interval r) in
  rrule_model (rr_of r a0) n = filter (M r a0) (zseq a0 (E - a0)).
Proof.
  intros Hok Hsp Hk f E. unfold rrule_model.
  change (init_state (rr_of r a0)) with (st_at r a0 0).
  rewrite (rrule_periods_spec r a0 Hok Hsp Hk n 0) by lia. fold f.
  rewrite Z.mul_0_l, Z.add_0_r, Z.add_0_l. fold E.
  pose proof (pstart_le f a0) as Hle.
  destruct n as [|n].
  - unfold E. cbn [Z.of_nat]. rewrite Z.mul_0_l, Z.add_0_r, Z.sub_diag.
    rewrite (zseq_nil a0) by lia. reflexivity.
  - assert (HE : a0 < E).
    { unfold E. pose proof (proj1 (pidx_span f a0 (pidx f a0)) eq_refl) as [_ H2].
      pose proof (pstart_mono f (pidx f a0 + 1) (pidx f a0 + Z.of_nat (S n) * r_interval r)). nia. }
    replace (E - pstart f (pidx f a0)) with ((a0 - pstart f (pidx f a0)) + (E - a0)) by ring.
    rewrite zseq_app by lia. rewrite filter_app.
    rewrite filter_none.
    + cbn [app]. replace (pstart f (pidx f a0) + (a0 - pstart f (pidx f a0))) with a0 by ring.
      apply filter_ext_in. intros d Hd. apply zseq_In in Hd. unfold Mfrom.
      replace (a0 <=? d) with true by lia. reflexivity.
    + intros d Hd. apply zseq_In in Hd. unfold Mfrom. replace (a0 <=? d) with false by lia. reflexivity.
Qed.

Print Assumptions L1_expansion.
