(* Proofs/GenEq9.v — tie C for the operator classes of calgebra/core.py whose operands are other
   timelines: the definitions generated from the source text of Union.fetch, Difference.fetch,
   Difference.overlapping, Complement.overlapping and Timeline.overlapping (Gen/Source.v:
   g_union_fetch, g_diff_fetch, g_diff_overlapping, g_compl_overlapping, g_base_overlapping) equal,
   for ALL inputs, the corresponding cases of Model/Expr.v's [fetch] and [overlapping].
   The operands are values of an abstract type TL whose fetch is the argument tl_fetch; the model
   corollaries instantiate TL := expr, tl_fetch := fetch env. *)
From CG Require Import Model.Loop Gen.Source Model.Expr Proofs.GenEq Proofs.GenEq5 Proofs.Merge.
From Coq Require Import ZArith List Bool Lia.
Import ListNotations.
Open Scope Z_scope.

(* ------------------------------------------------------------------------------------------ *)
(* generic facts about the loop combinators of Model/Loop.v                                     *)

(* a generator's `for` whose body calls a res-valued function, keeps no state and always falls
   through: a flat_map, provided the body completes normally on every item of the stream *)
Lemma run_for_r_flat_map {A B : Type} (body : unit -> A -> res (list B * unit * ctl))
      (post : unit -> list B) (f : A -> list B) :
  post tt = [] ->
  forall xs, (forall x, In x xs -> body tt x = RDone (f x, tt, Cont)) ->
             run_for_r body post tt xs = RDone (flat_map f xs).
Proof.
  intros Hp. induction xs as [|x r IH]; intro Hb; cbn [run_for_r flat_map].
  - rewrite Hp. reflexivity.
  - rewrite (Hb x (or_introl eq_refl)).
    rewrite IH by (intros y Hy; apply Hb; right; exact Hy). reflexivity.
Qed.

(* a nested `for` that yields the items satisfying a test and never breaks: a filter *)
Lemma sub_for_filter {A : Type} (c : A -> bool) (body : unit -> A -> list A * unit * bool) :
  (forall x, body tt x = ((if c x then [x] else []), tt, true)) ->
  forall xs, sub_for body tt xs = (filter c xs, tt).
Proof.
  intros Hb. induction xs as [|x r IH]; cbn [sub_for filter]; [reflexivity|].
  rewrite Hb, IH. destruct (c x); reflexivity.
Qed.

(* `v = s0; for x in xs: if f(x): v = g(x); break` *)
Lemma iter_for_first {S R : Type} (f : ivl -> bool) (g : ivl -> S)
      (body : S -> ivl -> step S R) (post : S -> R) :
  (forall s x, body s x = if f x then SBrk (g x) else SCont s) ->
  forall xs s0, iter_for body post s0 xs =
                post (match first_some f g xs with Some v => v | None => s0 end).
Proof.
  intros Hb. induction xs as [|x r IH]; intro s0; cbn [iter_for first_some]; [reflexivity|].
  rewrite Hb. destruct (f x); [reflexivity|]. apply IH.
Qed.

Lemma first_some_ext {A : Type} (f f' : ivl -> bool) (g : ivl -> A) :
  (forall x, f x = f' x) -> forall l, first_some f g l = first_some f' g l.
Proof.
  intros Hf. induction l as [|x r IH]; cbn [first_some]; [reflexivity|].
  rewrite Hf, IH. reflexivity.
Qed.

(* time negation keeps the number of events *)
Lemma total_len_neg {TL : Type} (f : TL -> list ivl) (l : list TL) :
  total_len (map (fun u => neg_stream (f u)) l) = total_len (map f l).
Proof.
  unfold total_len. induction l as [|u r IH]; cbn [map fold_right]; [reflexivity|].
  rewrite IH. unfold neg_stream. rewrite map_length. reflexivity.
Qed.

(* ------------------------------------------------------------------------------------------ *)
(* 1. Union.fetch                                                                              *)

Theorem g_union_fetch_eq : forall (TL : Type) (srcs : list TL) tlf a b rv,
  g_union_fetch srcs tlf a b rv =
  merge_by (if rv then lt_rev else lt_fwd) (map (fun s => tlf s a b rv) srcs).
Proof. intros TL srcs tlf a b rv. unfold g_union_fetch. destruct rv; reflexivity. Qed.
Print Assumptions g_union_fetch_eq.

Corollary g_union_fetch_is_model : forall env es a b rv,
  g_union_fetch es (fetch env) a b rv = fetch env (Union es) a b rv.
Proof. intros env es a b rv. rewrite g_union_fetch_eq. reflexivity. Qed.
Print Assumptions g_union_fetch_is_model.

(* ------------------------------------------------------------------------------------------ *)
(* 2. Difference.fetch                                                                         *)

(* fuel: more than the total number of events the subtractors return (in the reverse branch the
   sweep runs on the NEGATED subtractor streams, which have the same lengths) *)
Theorem g_diff_fetch_eq_total : forall (TL : Type) fuel sf (subs : list TL) tlf a b rv,
  (total_len (map (fun u => tlf u a b rv) subs) < fuel)%nat ->
  g_diff_fetch fuel sf subs tlf a b rv =
  RDone (match subs with
         | [] => sf a b rv
         | _ => if rv then neg_stream (diff_sweep (neg_stream (sf a b true))
                                                  (map (fun u => neg_stream (tlf u a b true)) subs))
                else diff_sweep (sf a b false) (map (fun u => tlf u a b false) subs)
         end).
Proof.
  intros TL fuel sf subs tlf a b rv Hf. unfold g_diff_fetch.
  destruct subs as [|u0 us]; [reflexivity|].
  cbn [nonempty negb]. cbv zeta.
  set (subs := u0 :: us) in *. clearbody subs.
  destruct rv.
  - rewrite (map_ext (fun sub => g_negate_stream (tlf sub a b true))
                     (fun u => neg_stream (tlf u a b true))
                     (fun u => g_negate_stream_eq (tlf u a b true))).
    rewrite !g_negate_stream_eq.
    rewrite g_diff_sweep_eq by (rewrite merge_length, total_len_neg; exact Hf).
    cbn [res_bind]. rewrite g_negate_stream_eq. reflexivity.
  - rewrite g_diff_sweep_eq by (rewrite merge_length; exact Hf).
    reflexivity.
Qed.
Print Assumptions g_diff_fetch_eq_total.

(* the same with the bound as the length of the merged subtractor stream *)
Theorem g_diff_fetch_eq : forall (TL : Type) fuel sf (subs : list TL) tlf a b rv,
  (length (merge_by lt_fwd (map (fun u => tlf u a b rv) subs)) < fuel)%nat ->
  g_diff_fetch fuel sf subs tlf a b rv =
  RDone (match subs with
         | [] => sf a b rv
         | _ => if rv then neg_stream (diff_sweep (neg_stream (sf a b true))
                                                  (map (fun u => neg_stream (tlf u a b true)) subs))
                else diff_sweep (sf a b false) (map (fun u => tlf u a b false) subs)
         end).
Proof.
  intros TL fuel sf subs tlf a b rv Hf. apply g_diff_fetch_eq_total.
  rewrite merge_length in Hf. exact Hf.
Qed.
Print Assumptions g_diff_fetch_eq.

(* without subtractors no fuel is needed *)
Lemma g_diff_fetch_nosubs : forall (TL : Type) fuel sf (tlf : TL -> _) a b rv,
  g_diff_fetch fuel sf [] tlf a b rv = RDone (sf a b rv).
Proof. reflexivity. Qed.

Corollary g_diff_fetch_is_model : forall env s subs a b rv fuel,
  (total_len (map (fun u => fetch env u a b rv) subs) < fuel)%nat ->
  g_diff_fetch fuel (fetch env s) subs (fetch env) a b rv = RDone (fetch env (Diff s subs) a b rv).
Proof.
  intros env s subs a b rv fuel Hf. rewrite g_diff_fetch_eq_total by exact Hf.
  destruct subs; reflexivity.
Qed.
Print Assumptions g_diff_fetch_is_model.

(* ------------------------------------------------------------------------------------------ *)
(* 3. Difference.overlapping                                                                   *)

Theorem g_diff_overlapping_eq : forall (TL : Type) fuel sov (subs : list TL) tlf p,
  (forall src, In src (sov p) ->
     (length (merge_by lt_fwd (map (fun u => tlf u (st src) (en src) false) subs)) < fuel)%nat) ->
  g_diff_overlapping fuel sov subs tlf p =
  RDone (match subs with
         | [] => sov p
         | _ => flat_map (fun src => filter (contains p)
                                            (diff_sweep [src] (map (fun u => tlf u (st src) (en src) false) subs)))
                         (sov p)
         end).
Proof.
  intros TL fuel sov subs tlf p Hf. unfold g_diff_overlapping.
  destruct subs as [|u0 us]; [reflexivity|].
  cbn [nonempty negb]. cbv zeta.
  set (subs := u0 :: us) in *.
  change (match subs with
          | [] => sov p
          | _ :: _ => flat_map (fun src => filter (contains p)
                         (diff_sweep [src] (map (fun u => tlf u (st src) (en src) false) subs))) (sov p)
          end)
    with (flat_map (fun src => filter (contains p)
                         (diff_sweep [src] (map (fun u => tlf u (st src) (en src) false) subs))) (sov p)).
  clearbody subs.
  apply run_for_r_flat_map; [reflexivity|].
  intros src Hin. cbv beta.
  rewrite g_diff_sweep_eq by (apply Hf; exact Hin).
  cbn [res_bind].
  match goal with
  | |- context [sub_for ?B tt _] => rewrite (sub_for_filter (contains p) B)
  end.
  - reflexivity.
  - intro x. unfold contains. destruct ((fstart x <=? p) && (p <? fend x)); reflexivity.
Qed.
Print Assumptions g_diff_overlapping_eq.

Corollary g_diff_overlapping_is_model : forall env s subs p fuel,
  (forall src, In src (overlapping env s p) ->
     (length (merge_by lt_fwd (map (fun u => fetch env u (st src) (en src) false) subs)) < fuel)%nat) ->
  g_diff_overlapping fuel (overlapping env s) subs (fetch env) p = RDone (overlapping env (Diff s subs) p).
Proof.
  intros env s subs p fuel Hf. rewrite g_diff_overlapping_eq by exact Hf.
  destruct subs; reflexivity.
Qed.
Print Assumptions g_diff_overlapping_is_model.

(* ------------------------------------------------------------------------------------------ *)
(* 4. Complement.overlapping                                                                   *)

Theorem g_compl_overlapping_eq : forall sf selff p,
  g_compl_overlapping sf selff p =
  if existsb (contains p) (sf (Some p) (Some (p + 1)) false) then []
  else [mkI (join (first_some (contains p) st (selff None (Some (p + 1)) true)))
            (join (first_some (fun i => fstart i >? p) st (sf (Some p) None false))) Plain].
Proof.
  intros sf selff p. unfold g_compl_overlapping.
  change (fun ivl_ : ivl => (fstart ivl_ <=? p) && (p <? fend ivl_)) with (contains p).
  destruct (existsb (contains p) (sf (Some p) (Some (p + 1)) false)); [reflexivity|].
  cbv zeta.
  match goal with
  | |- iter_for ?B ?P None ?xs = _ =>
    rewrite (iter_for_first (fun i => fstart i >? p) st B P)
      by (intros s x; destruct (fstart x >? p); reflexivity)
  end.
  match goal with
  | |- iter_for ?B ?P None ?xs = _ =>
    rewrite (iter_for_first (fun i => (fstart i <=? p) && (fend i >? p)) st B P)
      by (intros s x; destruct ((fstart x <=? p) && (fend x >? p)); reflexivity)
  end.
  rewrite (first_some_ext (fun i => (fstart i <=? p) && (fend i >? p)) (contains p))
    by (intro x; unfold contains; rewrite Z.gtb_ltb; reflexivity).
  reflexivity.
Qed.
Print Assumptions g_compl_overlapping_eq.

Corollary g_compl_overlapping_is_model : forall env s p,
  g_compl_overlapping (fetch env s) (fetch env (Compl s)) p = overlapping env (Compl s) p.
Proof. intros env s p. rewrite g_compl_overlapping_eq. reflexivity. Qed.
Print Assumptions g_compl_overlapping_is_model.

(* ------------------------------------------------------------------------------------------ *)
(* 5. Timeline.overlapping (the base implementation)                                           *)

Theorem g_base_overlapping_eq : forall sf p,
  g_base_overlapping sf p = filter (contains p) (sf (Some p) (Some (p + 1)) false).
Proof. reflexivity. Qed.
Print Assumptions g_base_overlapping_eq.

(* every class except Difference and Complement inherits it *)
Corollary g_base_overlapping_is_model : forall env e p,
  (match e with Diff _ _ | Compl _ => False | _ => True end) ->
  g_base_overlapping (fetch env e) p = overlapping env e p.
Proof.
  intros env e p H. rewrite g_base_overlapping_eq.
  destruct e; try contradiction; reflexivity.
Qed.
Print Assumptions g_base_overlapping_is_model.

(* ------------------------------------------------------------------------------------------ *)
(* 6. concrete runs (and non-vacuity of the fuel hypotheses)                                   *)

Definition ev (a b : Z) : ivl := mkI (Some a) (Some b) Plain.
Definition eA : expr := Stored [ev 0 10; ev 20 30].
Definition eB : expr := Stored [ev 2 4; ev 25 40].
Definition eC : expr := Stored [ev 6 7].

Example g_union_fetch_example :
  g_union_fetch [eA; eB; eC] (fetch []) None None false
  = [ev 0 10; ev 2 4; ev 6 7; ev 20 30; ev 25 40]
  /\ g_union_fetch [eA; eB; eC] (fetch []) (Some 3) (Some 22) true
  = [ev 20 30; ev 6 7; ev 2 4; ev 0 10].
Proof. vm_compute. split; reflexivity. Qed.

Example g_diff_fetch_example :
  g_diff_fetch 4 (fetch [] eA) [eB; eC] (fetch []) None None false
  = RDone [ev 0 2; ev 4 6; ev 7 10; ev 20 25]
  /\ g_diff_fetch 4 (fetch [] eA) [eB; eC] (fetch []) None None true
  = RDone [ev 20 25; ev 7 10; ev 4 6; ev 0 2].
Proof. vm_compute. split; reflexivity. Qed.

(* the fuel bound of g_diff_fetch_is_model holds for that run: 3 < 4 *)
Example g_diff_fetch_bound :
  (total_len (map (fun u => fetch [] u None None true) [eB; eC]) < 4)%nat
  /\ (length (merge_by lt_fwd (map (fun u => fetch [] u None None false) [eB; eC])) < 4)%nat.
Proof. vm_compute. split; repeat constructor. Qed.

(* with too little fuel the result is the explicit RFuel, never a truncated list *)
Example g_diff_fetch_fuel0 :
  g_diff_fetch 0 (fetch [] eA) [eB; eC] (fetch []) None None false = RFuel
  /\ g_diff_fetch 0 (fetch [] eA) [eB; eC] (fetch []) None None true = RFuel.
Proof. vm_compute. split; reflexivity. Qed.

(* ... except without subtractors, where the sweep does not run *)
Example g_diff_fetch_fuel0_nosubs :
  g_diff_fetch 0 (fetch [] eA) (@nil expr) (fetch []) None None false = RDone [ev 0 10; ev 20 30].
Proof. vm_compute. reflexivity. Qed.

Example g_diff_overlapping_example :
  g_diff_overlapping 4 (overlapping [] eA) [eB; eC] (fetch []) 5 = RDone [ev 4 6]
  /\ g_diff_overlapping 4 (overlapping [] eA) [eB; eC] (fetch []) 3 = RDone []
  /\ g_diff_overlapping 4 (overlapping [] eA) [eB; eC] (fetch []) 22 = RDone [ev 20 25]
  /\ g_diff_overlapping 0 (overlapping [] eA) [eB; eC] (fetch []) 5 = RFuel.
Proof. vm_compute. repeat split; reflexivity. Qed.

Example g_diff_overlapping_bound :
  forall src, In src (overlapping [] eA 5) ->
    (length (merge_by lt_fwd (map (fun u => fetch [] u (st src) (en src) false) [eB; eC])) < 4)%nat.
Proof.
  intros src [H|[]]. subst src. vm_compute. repeat constructor.
Qed.

Example g_compl_overlapping_example :
  g_compl_overlapping (fetch [] eA) (fetch [] (Compl eA)) 15 = [mkI (Some 10) (Some 20) Plain]
  /\ g_compl_overlapping (fetch [] eA) (fetch [] (Compl eA)) 5 = []
  /\ g_compl_overlapping (fetch [] eA) (fetch [] (Compl eA)) (-3) = [mkI None (Some 0) Plain]
  /\ g_compl_overlapping (fetch [] eA) (fetch [] (Compl eA)) 30 = [mkI (Some 30) None Plain].
Proof. vm_compute. repeat split; reflexivity. Qed.

Example g_base_overlapping_example :
  g_base_overlapping (fetch [] (Union [eA; eB])) 3 = [ev 0 10; ev 2 4]
  /\ g_base_overlapping (fetch [] (Union [eA; eB])) 10 = []
  /\ g_base_overlapping (fetch [] (Union [eA; eB])) 1 = [ev 0 10].
Proof. vm_compute. repeat split; reflexivity. Qed.
