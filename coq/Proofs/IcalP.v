(* Proofs/IcalP.v — theorems of C19 about Model/Ical.v:
     rrule_text_roundtrip        the emitted RRULE text parses back to the same rule parameters
     vevent_roundtrip_static     write -> load gives back the same static event
     vevent_roundtrip_recurring  write -> load gives back the same pattern (all parameters)
     readd_preserves             MemoryTimeline's re-creation keeps every parameter
   and the refutations of their unconditional forms. *)
From CG Require Import Spec.IcalSpec.
From Coq Require Import Lia.

(* ------------------------------------------------------------------------------------------ *)
(* (b) the text                                                                                *)

Fixpoint add_vals (k : key) (vs : list token) (a : vrecur) : option vrecur :=
  match vs with
  | [] => Some a
  | v :: r => match add_value k v a with Some a' => add_vals k r a' | None => None end
  end.

Fixpoint add_parts (ps : list (key * list token)) (a : vrecur) : option vrecur :=
  match ps with
  | [] => Some a
  | p :: r => match add_vals (fst p) (snd p) a with Some a' => add_parts r a' | None => None end
  end.

Lemma run_key_comma : forall k a l, run (SComma k) a l = run (SKey k) a l.
Proof. intros k a [|t r]; reflexivity. Qed.

Lemma run_vals : forall k vs a rest,
  vs <> [] -> forallb is_val vs = true ->
  run (SKey k) a (commas vs ++ rest) =
  match add_vals k vs a with Some a' => run (SVal k) a' rest | None => None end.
Proof.
  intros k vs. induction vs as [|v r IH]; intros a rest Hne Hv; [congruence|].
  simpl in Hv. apply andb_prop in Hv. destruct Hv as [Hv Hr].
  destruct r as [|w r'].
  - simpl. rewrite Hv. destruct (add_value k v a); reflexivity.
  - change (commas (v :: w :: r')) with (v :: TComma :: commas (w :: r')).
    simpl app. cbn [run]. rewrite Hv. cbn [add_vals].
    destruct (add_value k v a) as [a'|]; [|reflexivity].
    rewrite run_key_comma. apply IH; [congruence|exact Hr].
Qed.

Definition part_ok (q : key * list token) : Prop := snd q <> [] /\ forallb is_val (snd q) = true.

Lemma run_parts : forall ps a,
  ps <> [] -> Forall part_ok ps -> run SStart a (join_parts ps) = add_parts ps a.
Proof.
  induction ps as [|p r IH]; intros a Hne Hok; [congruence|].
  inversion Hok as [|? ? [Hp1 Hp2] Hr]; subst.
  destruct r as [|q r'].
  - simpl. unfold part_text. cbn [run].
    rewrite <- (app_nil_r (commas (snd p))). rewrite run_vals by assumption.
    destruct (add_vals (fst p) (snd p) a); reflexivity.
  - change (join_parts (p :: q :: r')) with (part_text p ++ TSemi :: join_parts (q :: r')).
    unfold part_text. simpl app. cbn [run]. rewrite run_vals by assumption.
    cbn [add_parts]. destruct (add_vals (fst p) (snd p) a) as [a'|]; [|reflexivity].
    cbn [run]. apply IH; [congruence|exact Hr].
Qed.

Lemma add_parts_filter : forall ps a, add_parts (filter has_vals ps) a = add_parts ps a.
Proof.
  induction ps as [|p r IH]; intros a; [reflexivity|].
  cbn [filter add_parts]. destruct (has_vals p) eqn:Hh.
  - cbn [add_parts]. destruct (add_vals (fst p) (snd p) a); [apply IH|reflexivity].
  - unfold has_vals in Hh. destruct (snd p); [cbn [add_vals]; apply IH | discriminate].
Qed.

Lemma vals_int : forall l, forallb is_val (map TInt l) = true.
Proof. induction l; simpl; auto. Qed.

Lemma vals_day : forall l, forallb is_val (map day_token l) = true.
Proof.
  induction l as [|e l IH]; simpl; auto. rewrite IH.
  unfold day_token. destruct (snd e) as [n|]; [destruct (n =? 0)|]; reflexivity.
Qed.

Lemma filtered_ok : forall ps,
  Forall (fun q => forallb is_val (snd q) = true) ps -> Forall part_ok (filter has_vals ps).
Proof.
  induction ps as [|p r IH]; intros H; simpl; [constructor|].
  inversion H; subst. destruct (has_vals p) eqn:Hh.
  - constructor; [|apply IH; assumption]. split; [|assumption].
    unfold has_vals in Hh. destruct (snd p); [discriminate|congruence].
  - apply IH; assumption.
Qed.

Lemma all_parts_vals : forall p, Forall (fun q => forallb is_val (snd q) = true) (all_parts p).
Proof.
  intros p. unfold all_parts.
  repeat (constructor; [cbn [snd]; try apply vals_int; try apply vals_day; try reflexivity|]).
  - destruct (p_interval p =? 1); reflexivity.
  - destruct (p_wkst p); reflexivity.
  - constructor.
Qed.

(* what vRecur.from_ical hands back for the text of p *)
Definition vrecur_of (p : rparts) : vrecur :=
  mkVR (Some (p_freq p)) (if p_interval p =? 1 then None else Some (p_interval p))
       (p_byday p) (p_bymonth p) (p_bymonthday p) (p_byweekno p) (p_byyearday p) (p_bysetpos p)
       (p_byhour p) (p_byminute p) (p_bysecond p) (p_wkst p).

Ltac list_key :=
  let l := fresh "l" in let a := fresh "a" in let IH := fresh "IH" in let h := fresh "h" in
  induction l as [|h l IH]; intros a; destruct a; cbn [map add_vals add_value];
  [rewrite app_nil_r; reflexivity | rewrite IH; cbn; rewrite <- app_assoc; reflexivity].

Lemma add_bymonth : forall l a, add_vals KByMonth (map TInt l) a =
  Some (mkVR (v_freq a) (v_interval a) (v_byday a) (v_bymonth a ++ l) (v_bymonthday a) (v_byweekno a)
             (v_byyearday a) (v_bysetpos a) (v_byhour a) (v_byminute a) (v_bysecond a) (v_wkst a)).
Proof. list_key. Qed.
Lemma add_bymonthday : forall l a, add_vals KByMonthDay (map TInt l) a =
  Some (mkVR (v_freq a) (v_interval a) (v_byday a) (v_bymonth a) (v_bymonthday a ++ l) (v_byweekno a)
             (v_byyearday a) (v_bysetpos a) (v_byhour a) (v_byminute a) (v_bysecond a) (v_wkst a)).
Proof. list_key. Qed.
Lemma add_byweekno : forall l a, add_vals KByWeekNo (map TInt l) a =
  Some (mkVR (v_freq a) (v_interval a) (v_byday a) (v_bymonth a) (v_bymonthday a) (v_byweekno a ++ l)
             (v_byyearday a) (v_bysetpos a) (v_byhour a) (v_byminute a) (v_bysecond a) (v_wkst a)).
Proof. list_key. Qed.
Lemma add_byyearday : forall l a, add_vals KByYearDay (map TInt l) a =
  Some (mkVR (v_freq a) (v_interval a) (v_byday a) (v_bymonth a) (v_bymonthday a) (v_byweekno a)
             (v_byyearday a ++ l) (v_bysetpos a) (v_byhour a) (v_byminute a) (v_bysecond a) (v_wkst a)).
Proof. list_key. Qed.
Lemma add_bysetpos : forall l a, add_vals KBySetPos (map TInt l) a =
  Some (mkVR (v_freq a) (v_interval a) (v_byday a) (v_bymonth a) (v_bymonthday a) (v_byweekno a)
             (v_byyearday a) (v_bysetpos a ++ l) (v_byhour a) (v_byminute a) (v_bysecond a) (v_wkst a)).
Proof. list_key. Qed.
Lemma add_byhour : forall l a, add_vals KByHour (map TInt l) a =
  Some (mkVR (v_freq a) (v_interval a) (v_byday a) (v_bymonth a) (v_bymonthday a) (v_byweekno a)
             (v_byyearday a) (v_bysetpos a) (v_byhour a ++ l) (v_byminute a) (v_bysecond a) (v_wkst a)).
Proof. list_key. Qed.
Lemma add_byminute : forall l a, add_vals KByMinute (map TInt l) a =
  Some (mkVR (v_freq a) (v_interval a) (v_byday a) (v_bymonth a) (v_bymonthday a) (v_byweekno a)
             (v_byyearday a) (v_bysetpos a) (v_byhour a) (v_byminute a ++ l) (v_bysecond a) (v_wkst a)).
Proof. list_key. Qed.
Lemma add_bysecond : forall l a, add_vals KBySecond (map TInt l) a =
  Some (mkVR (v_freq a) (v_interval a) (v_byday a) (v_bymonth a) (v_bymonthday a) (v_byweekno a)
             (v_byyearday a) (v_bysetpos a) (v_byhour a) (v_byminute a) (v_bysecond a ++ l) (v_wkst a)).
Proof. list_key. Qed.

Definition day_wf (e : Z * option Z) : bool :=
  match snd e with Some n => negb (n =? 0) | None => true end.

Lemma add_byday : forall l a, forallb day_wf l = true ->
  add_vals KByDay (map day_token l) a =
  Some (mkVR (v_freq a) (v_interval a) (v_byday a ++ l) (v_bymonth a) (v_bymonthday a) (v_byweekno a)
             (v_byyearday a) (v_bysetpos a) (v_byhour a) (v_byminute a) (v_bysecond a) (v_wkst a)).
Proof.
  induction l as [|e l IH]; intros a H; destruct a; cbn [map add_vals].
  - cbn. rewrite app_nil_r. reflexivity.
  - simpl in H. apply andb_prop in H. destruct H as [He Hl].
    assert (Ht : day_token e = TDay (fst e) (snd e)).
    { unfold day_token, day_wf in *. destruct (snd e) as [n|]; [|reflexivity].
      destruct (n =? 0); [discriminate|reflexivity]. }
    rewrite Ht. cbn [add_value]. rewrite IH by exact Hl. cbn. rewrite <- app_assoc.
    destruct e; reflexivity.
Qed.

Lemma text_parses : forall p, text_wf p = true ->
  parse_vrecur (rrule_text p) = Some (vrecur_of p).
Proof.
  intros p Hwf. unfold parse_vrecur, rrule_text.
  rewrite run_parts.
  - rewrite add_parts_filter. unfold all_parts. cbn [add_parts fst snd].
    cbn [add_vals add_value vr_empty].
    assert (Hi : add_vals KInterval (if p_interval p =? 1 then [] else [TInt (p_interval p)])
                   (mkVR (Some (p_freq p)) None [] [] [] [] [] [] [] [] [] None) =
                 Some (mkVR (Some (p_freq p)) (if p_interval p =? 1 then None else Some (p_interval p))
                            [] [] [] [] [] [] [] [] [] None)).
    { destruct (p_interval p =? 1); reflexivity. }
    rewrite Hi. rewrite add_byday by exact Hwf. cbn [v_freq v_interval v_byday v_bymonth v_bymonthday
      v_byweekno v_byyearday v_bysetpos v_byhour v_byminute v_bysecond v_wkst app].
    rewrite add_bymonth; cbn [v_freq v_interval v_byday v_bymonth v_bymonthday
      v_byweekno v_byyearday v_bysetpos v_byhour v_byminute v_bysecond v_wkst app].
    rewrite add_bymonthday; cbn [v_freq v_interval v_byday v_bymonth v_bymonthday
      v_byweekno v_byyearday v_bysetpos v_byhour v_byminute v_bysecond v_wkst app].
    rewrite add_byweekno; cbn [v_freq v_interval v_byday v_bymonth v_bymonthday
      v_byweekno v_byyearday v_bysetpos v_byhour v_byminute v_bysecond v_wkst app].
    rewrite add_byyearday; cbn [v_freq v_interval v_byday v_bymonth v_bymonthday
      v_byweekno v_byyearday v_bysetpos v_byhour v_byminute v_bysecond v_wkst app].
    rewrite add_bysetpos; cbn [v_freq v_interval v_byday v_bymonth v_bymonthday
      v_byweekno v_byyearday v_bysetpos v_byhour v_byminute v_bysecond v_wkst app].
    rewrite add_byhour; cbn [v_freq v_interval v_byday v_bymonth v_bymonthday
      v_byweekno v_byyearday v_bysetpos v_byhour v_byminute v_bysecond v_wkst app].
    rewrite add_byminute; cbn [v_freq v_interval v_byday v_bymonth v_bymonthday
      v_byweekno v_byyearday v_bysetpos v_byhour v_byminute v_bysecond v_wkst app].
    rewrite add_bysecond; cbn [v_freq v_interval v_byday v_bymonth v_bymonthday
      v_byweekno v_byyearday v_bysetpos v_byhour v_byminute v_bysecond v_wkst app].
    unfold vrecur_of. destruct (p_wkst p); reflexivity.
  - unfold all_parts. simpl. congruence.
  - apply filtered_ok. apply all_parts_vals.
Qed.

Lemma parts_of_vrecur_of : forall p, parts_of_vrecur (vrecur_of p) = p.
Proof.
  intros p. unfold parts_of_vrecur, vrecur_of. cbn.
  destruct (p_interval p =? 1) eqn:E.
  - apply Z.eqb_eq in E. destruct p; cbn in *; subst; reflexivity.
  - destruct p; reflexivity.
Qed.

Theorem rrule_text_roundtrip_wf : forall p, text_wf p = true -> parse_rrule (rrule_text p) = Some p.
Proof.
  intros p H. unfold parse_rrule. rewrite text_parses by exact H. rewrite parts_of_vrecur_of. reflexivity.
Qed.

Lemma supported_wf : forall p, supported p = true -> text_wf p = true.
Proof.
  intros p H. unfold supported in H. unfold text_wf.
  repeat (apply andb_prop in H; destruct H as [H ?]).
  match goal with Hd : forallb _ (p_byday p) = true |- _ => revert Hd end.
  clear. induction (p_byday p) as [|e l IH]; simpl; intros H; [reflexivity|].
  apply andb_prop in H. destruct H as [He Hl]. rewrite IH by exact Hl.
  apply andb_prop in He. destruct He as [_ He].
  destruct (snd e) as [n|]; [|reflexivity].
  unfold nz_range in He. apply andb_prop in He. destruct He as [_ He]. rewrite He. reflexivity.
Qed.

Theorem rrule_text_roundtrip : forall p, supported p = true -> parse_rrule (rrule_text p) = Some p.
Proof. intros p H. apply rrule_text_roundtrip_wf. apply supported_wf. exact H. Qed.

(* the unconditional form is false: an ordinal 0 is printed as a plain day *)
Definition p_ord0 : rparts := mkP Monthly 1 [(0, Some 0)] [] [] [] [] [] [] [] [] None.
Theorem rrule_text_roundtrip_refuted : exists p, parse_rrule (rrule_text p) <> Some p.
Proof. exists p_ord0. vm_compute. discriminate. Qed.

(* ------------------------------------------------------------------------------------------ *)
(* helpers                                                                                     *)

Lemma pairs_eqb_eq : forall l m : list (Z * Z),
  list_eqb (fun p q => (fst p =? fst q) && (snd p =? snd q)) l m = true -> l = m.
Proof.
  induction l as [|a l IH]; destruct m as [|b m]; simpl; try discriminate; auto.
  intros H. apply andb_prop in H. destruct H as [H1 H2].
  apply andb_prop in H1. destruct H1 as [Ha Hb].
  apply Z.eqb_eq in Ha. apply Z.eqb_eq in Hb.
  destruct a, b; simpl in *; subst. f_equal. apply IH. exact H2.
Qed.

Lemma zone_eqb_eq : forall a b, zone_eqb a b = true -> a = b.
Proof.
  intros [o1 t1] [o2 t2] H. unfold zone_eqb in H. simpl in H.
  apply andb_prop in H. destruct H as [Ho Ht]. apply Z.eqb_eq in Ho.
  apply pairs_eqb_eq in Ht. subst. reflexivity.
Qed.

Lemma pairs_eqb_refl : forall l : list (Z * Z),
  list_eqb (fun p q => (fst p =? fst q) && (snd p =? snd q)) l l = true.
Proof. induction l as [|a l IH]; simpl; auto. rewrite !Z.eqb_refl, IH. reflexivity. Qed.

Lemma zone_eqb_refl : forall z, zone_eqb z z = true.
Proof. intros [o t]. unfold zone_eqb. simpl. rewrite Z.eqb_refl, pairs_eqb_refl. reflexivity. Qed.

Lemma utc_wall : forall t, utc_to_wall utc_zone t = t.
Proof. intros t. unfold utc_to_wall, offset_at. simpl. lia. Qed.

Lemma div_mul_exact : forall s, s mod DAY = 0 -> s / DAY * DAY = s.
Proof. intros s H. pose proof (Z.div_mod s DAY). unfold DAY in *. lia. Qed.

Lemma meta_back : forall m b, m_allday m = b ->
  mkMeta (present (m_summary m)) (present (m_description m)) (present (m_uid m))
         (present (m_location m)) b = m.
Proof. intros m b Hb. unfold present. destruct m; simpl in *; subst; reflexivity. Qed.

(* ------------------------------------------------------------------------------------------ *)
(* (a) static events                                                                           *)

Definition static_ok (s e : Z) (m : meta) : Prop :=
  s <= e /\ (m_allday m = true -> s mod DAY = 0 /\ e mod DAY = 0).

Theorem vevent_roundtrip_static : forall s e m,
  static_ok s e m -> roundtrip (Static (Some s) (Some e) m) = Some (Static (Some s) (Some e) m).
Proof.
  intros s e m (Hle & Hal).
  unfold roundtrip, to_vevent, load_vevent, of_vevent, loaded_text.
  destruct (m_allday m) eqn:Ea; cbn.
  - destruct (Hal eq_refl) as [Hs He]. rewrite !div_mul_exact by assumption.
    assert (Hlt : (e <? s) = false) by (apply Z.ltb_ge; exact Hle). rewrite Hlt. cbn.
    rewrite meta_back by assumption. reflexivity.
  - assert (Hlt : (e <? s) = false) by (apply Z.ltb_ge; exact Hle). rewrite Hlt. cbn.
    rewrite meta_back by assumption. reflexivity.
Qed.

(* without the hypotheses the statement is false of the model: an all-day event whose bounds are
   not midnights UTC comes back moved, an event without an end comes back empty *)
Definition m_none (ad : bool) : meta := mkMeta None None None None ad.
Theorem vevent_roundtrip_static_refuted :
  (exists s e m, s <= e /\ roundtrip (Static (Some s) (Some e) m) <> Some (Static (Some s) (Some e) m)) /\
  (exists s m, roundtrip (Static (Some s) None m) <> Some (Static (Some s) None m)).
Proof.
  split.
  - exists 3600, 90000, (m_none true). split; [lia|]. vm_compute. discriminate.
  - exists 5, (m_none false). vm_compute. discriminate.
Qed.

(* ------------------------------------------------------------------------------------------ *)
(* re-creation of a stored pattern                                                             *)

Lemma mk_xrule_parts : forall x,
  mk_xrule (parts_of x) (r_exdates (x_rule x)) (r_anchor (x_rule x)) (r_sod (x_rule x))
           (r_dur (x_rule x)) (r_zone (x_rule x)) = x.
Proof. intros [[? ? ? ? ? ? ? ? ? ? ?] ? ? ? ? ? ?]. reflexivity. Qed.

(* the anchor's own weekday is among the plain weekdays of the rule, if it has any (what
   RecurringPattern.__init__ insists on) *)
Definition weekday_ok (r : rule) (aday : Z) : Prop :=
  is_nil (plain_days (r_byweekday r)) = true \/
  zmem (weekday aday) (plain_days (r_byweekday r)) = true.

Lemma rp_make_ok : forall x a aday sod,
  weekday_ok (x_rule x) aday ->
  rp_make (parts_of x) (Some a) aday sod (r_dur (x_rule x)) (r_zone (x_rule x)) (r_exdates (x_rule x)) =
  Some (mk_xrule (parts_of x) (r_exdates (x_rule x)) (Some a) sod (r_dur (x_rule x)) (r_zone (x_rule x))).
Proof.
  intros x a aday sod H. unfold rp_make.
  change (p_byday (parts_of x)) with (r_byweekday (x_rule x)).
  destruct H as [H|H]; rewrite H; simpl; [reflexivity|].
  rewrite Bool.andb_false_r. reflexivity.
Qed.

Lemma in_day : forall s, 0 <= s < DAY -> ((0 <=? s) && (s <? DAY)) = true.
Proof. intros s H. apply andb_true_intro. split; [apply Z.leb_le|apply Z.ltb_lt]; lia. Qed.

(* a pattern as RecurringPattern.__init__ builds it: a time of day in [0, DAY), or an anchor
   whose own wall-clock reading (own_wall: the anchor's local date at start_seconds, which is what
   a datetime start given inside a DST gap leaves behind, else the reading of the timestamp) shows
   start_seconds, on one of the rule's plain weekdays *)
Definition stored_ok (r : rule) : Prop :=
  0 <= r_sod r < DAY /\
  match r_anchor r with
  | None => True
  | Some a => wall_sod (own_wall (r_zone r) a (r_sod r)) = r_sod r /\
              weekday_ok r (wall_day (own_wall (r_zone r) a (r_sod r)))
  end.

Theorem readd_preserves : forall x m,
  stored_ok (x_rule x) -> readd (Pattern x m) = Some (Pattern x m).
Proof.
  intros x m [Hr H]. unfold readd.
  destruct (r_anchor (x_rule x)) as [a|] eqn:Ea.
  - destruct H as (Hs & Hw). rewrite in_day by exact Hr. unfold rp_init_dt.
    rewrite rp_make_ok by exact Hw. rewrite Hs. rewrite <- Ea. rewrite mk_xrule_parts. reflexivity.
  - unfold rp_init.
    assert (Hlt : (DAY <? r_sod (x_rule x)) = false) by (apply Z.ltb_ge; lia). rewrite Hlt.
    rewrite in_day by exact Hr. unfold rp_make. rewrite <- Ea. rewrite mk_xrule_parts. reflexivity.
Qed.

(* the hypothesis is needed: a record whose start_seconds is not what its anchor reads (no
   constructor call produces one) is re-created with the anchor's reading *)
Definition z_plus1 : zone := mkZone 3600 [].
Definition x_of (r : rule) : xrule := mkX r [] [] [] [] [] None.
Theorem readd_preserves_refuted :
  exists x m, readd (Pattern x m) <> Some (Pattern x m) /\ readd (Pattern x m) <> None.
Proof.
  exists (x_of (mkRule Daily 1 [] [] [] [] [] (Some 1704096000) 100 3600 z_plus1)), (m_none false).
  split; vm_compute; discriminate.
Qed.

(* ------------------------------------------------------------------------------------------ *)
(* (a) recurring patterns                                                                      *)

Lemma stamp_ts : forall z t, fold_of z t = false -> ts_of (stamp z t) = t.
Proof.
  intros z t H. unfold stamp. destruct (zone_eqb z utc_zone); simpl; [reflexivity|].
  unfold fold_of in H. apply Bool.negb_false_iff in H. apply Z.eqb_eq in H. exact H.
Qed.

Lemma stamp_w_zone : forall z w, zone_of_dt (stamp_w z w) = z.
Proof.
  intros z w. unfold stamp_w. destruct (zone_eqb z utc_zone) eqn:E; simpl; [|reflexivity].
  apply zone_eqb_eq in E. congruence.
Qed.

Lemma stamp_w_wall : forall z w, wall_of (stamp_w z w) = w.
Proof. intros z w. unfold stamp_w. destruct (zone_eqb z utc_zone); reflexivity. Qed.

Lemma stamp_w_timed : forall z w, is_date (stamp_w z w) = false.
Proof. intros z w. unfold stamp_w. destruct (zone_eqb z utc_zone); reflexivity. Qed.

(* reading a printed wall-clock value back: the instant of that reading with fold = 0 *)
Lemma stamp_w_ts : forall z w, ts_of (stamp_w z w) = wall_to_utc z w false.
Proof.
  intros z w. unfold stamp_w. destruct (zone_eqb z utc_zone) eqn:E; simpl; [|reflexivity].
  apply zone_eqb_eq in E. subst. unfold wall_to_utc, wall_offset. simpl. lia.
Qed.

Lemma exdates_back : forall z l, Forall (fun t => fold_of z t = false) l ->
  loaded_exdates (map (stamp z) l) = l.
Proof.
  intros z l H. unfold loaded_exdates. induction H as [|t l Ht Hl IH]; simpl; [reflexivity|].
  rewrite stamp_ts by exact Ht. rewrite IH. reflexivity.
Qed.

Lemma duration_timed : forall v d rr ex a b c e,
  is_date v = false -> duration_of (mkVE v (EDuration d) rr ex a b c e) = d.
Proof.
  intros v d rr ex a b c e H. unfold duration_of, end_dt. cbn [ve_end ve_dtstart].
  destruct v; simpl in *; try discriminate; try rewrite zone_eqb_refl; lia.
Qed.

(* a timed pattern (not flagged all-day) the round trip keeps *)
Definition anchor_ok (r : rule) : Prop :=
  0 <= r_sod r < DAY /\
  match r_anchor r with
  | None => True
  | Some a =>
    let w := own_wall (r_zone r) a (r_sod r) in
    wall_to_utc (r_zone r) w false = a /\       (* the printed reading denotes the anchor: it is not the
                                                   second pass of a DST fold *)
    wall_sod w = r_sod r /\                      (* as built by RecurringPattern.__init__ *)
    wall_day w <> phase_base (r_freq r) /\       (* not on the date time-of-day patterns are written on *)
    weekday_ok r (wall_day w)
  end.

Definition timed_ok (x : xrule) (m : meta) : Prop :=
  text_wf (parts_of x) = true /\ m_allday m = false /\
  anchor_ok (x_rule x) /\ Forall (fun t => fold_of (r_zone (x_rule x)) t = false) (r_exdates (x_rule x)).

Lemma base_wall : forall f sod, 0 <= sod < DAY ->
  wall_day (phase_base f * DAY + sod) = phase_base f /\ wall_sod (phase_base f * DAY + sod) = sod.
Proof.
  intros f sod H. unfold wall_day, wall_sod. split.
  - rewrite Z.add_comm. rewrite Z.div_add by (unfold DAY; lia).
    rewrite Z.div_small by exact H. lia.
  - rewrite Z.add_comm. rewrite Z.mod_add by (unfold DAY; lia). apply Z.mod_small. exact H.
Qed.

Theorem vevent_roundtrip_recurring : forall x m,
  timed_ok x m -> roundtrip (Pattern x m) = Some (Pattern x m).
Proof.
  intros x m (Hwf & Had & (Hr & Ha) & Hex).
  unfold roundtrip, to_vevent.
  rewrite text_parses by exact Hwf.
  assert (Hwd : writes_date (x_rule x) m = false) by (unfold writes_date; rewrite Had; reflexivity).
  rewrite Hwd.
  assert (Hgen : forall w,
     wall_day w = phase_base (r_freq (x_rule x)) /\ wall_sod w = r_sod (x_rule x) /\ r_anchor (x_rule x) = None \/
     (exists a, r_anchor (x_rule x) = Some a /\ w = own_wall (r_zone (x_rule x)) a (r_sod (x_rule x))) ->
     load_vevent (mkVE (stamp_w (r_zone (x_rule x)) w) (EDuration (r_dur (x_rule x)))
                       (Some (vrecur_of (parts_of x)))
                       (map (fun t => stamp (r_zone (x_rule x)) t) (r_exdates (x_rule x)))
                       (present (m_summary m)) (present (m_description m)) (present (m_uid m))
                       (present (m_location m))) = Some (Pattern x m)).
  { intros w Hw. unfold load_vevent, of_vevent, loaded_text.
    cbn [ve_dtstart ve_end ve_rrule ve_exdate ve_summary ve_description ve_uid ve_location].
    rewrite parts_of_vrecur_of. rewrite exdates_back by exact Hex.
    change (p_freq (parts_of x)) with (r_freq (x_rule x)).
    rewrite duration_timed by apply stamp_w_timed.
    rewrite stamp_w_wall, stamp_w_zone, stamp_w_ts, stamp_w_timed.
    destruct Hw as [(Hbd & Hbs & Ea)|(a & Ea & Hw)].
    - rewrite Hbd, Hbs, Z.eqb_refl. unfold rp_init.
      assert (Hlt : (DAY <? r_sod (x_rule x)) = false) by (apply Z.ltb_ge; lia). rewrite Hlt.
      rewrite in_day by exact Hr. unfold rp_make. rewrite <- Ea. rewrite mk_xrule_parts.
      rewrite meta_back by exact Had.
      apply readd_preserves. unfold stored_ok. rewrite Ea. auto.
    - rewrite Ea in Ha. cbv zeta in Ha. rewrite <- Hw in Ha. destruct Ha as (Hts & Hs & Hb & Hwk).
      assert (Hne : (wall_day w =? phase_base (r_freq (x_rule x))) = false) by (apply Z.eqb_neq; exact Hb).
      rewrite Hne. unfold rp_init_dt. rewrite rp_make_ok by exact Hwk. rewrite Hts, Hs.
      rewrite <- Ea. rewrite mk_xrule_parts. rewrite meta_back by exact Had.
      apply readd_preserves. unfold stored_ok. rewrite Ea. rewrite <- Hw. auto. }
  destruct (r_anchor (x_rule x)) as [a|] eqn:Ea.
  - apply Hgen. right. exists a. auto.
  - apply Hgen. left. destruct (base_wall (r_freq (x_rule x)) (r_sod (x_rule x)) Hr). auto.
Qed.

(* all-day patterns: whole days from midnight UTC, written with a DATE start *)
Definition allday_ok (x : xrule) (m : meta) : Prop :=
  let r := x_rule x in
  text_wf (parts_of x) = true /\ m_allday m = true /\
  r_zone r = utc_zone /\ r_sod r = 0 /\ r_dur r mod DAY = 0 /\
  match r_anchor r with
  | None => True
  | Some a => a mod DAY = 0 /\ a / DAY <> phase_base (r_freq r) /\ weekday_ok r (a / DAY)
  end /\
  Forall (fun t => t mod DAY = 0) (r_exdates r).

Lemma exdates_back_date : forall l, Forall (fun t => t mod DAY = 0) l ->
  loaded_exdates (map (fun t => DDate (t / DAY)) l) = l.
Proof.
  intros l H. unfold loaded_exdates. induction H as [|t l Ht Hl IH]; simpl; [reflexivity|].
  rewrite div_mul_exact by exact Ht. rewrite IH. reflexivity.
Qed.

Lemma duration_date : forall d dur rr ex a b c e, dur mod DAY = 0 ->
  duration_of (mkVE (DDate d) (EDuration dur) rr ex a b c e) = dur.
Proof.
  intros. unfold duration_of, end_dt. cbn. pose proof (div_mul_exact dur H). lia.
Qed.

Lemma own_wall_utc_midnight : forall a, a mod DAY = 0 -> own_wall utc_zone a 0 = a.
Proof.
  intros a H. unfold own_wall. rewrite utc_wall. unfold mk_wall, wall_day.
  rewrite Z.add_0_r. rewrite div_mul_exact by exact H.
  assert (Hu : forall w f, wall_to_utc utc_zone w f = w).
  { intros w f. unfold wall_to_utc, wall_offset, offset_at, utc_zone; destruct f; simpl; lia. }
  rewrite Hu, Z.eqb_refl. reflexivity.
Qed.

Theorem vevent_roundtrip_recurring_allday : forall x m,
  allday_ok x m -> roundtrip (Pattern x m) = Some (Pattern x m).
Proof.
  intros x m (Hwf & Had & Hz & Hs & Hdur & Ha & Hex).
  unfold roundtrip, to_vevent.
  rewrite text_parses by exact Hwf.
  assert (Hwd : writes_date (x_rule x) m = true).
  { unfold writes_date. rewrite Had, Hz, Hs, Hdur. reflexivity. }
  rewrite Hwd. rewrite Hz, Hs. unfold stamp, stamp_w. rewrite zone_eqb_refl.
  unfold load_vevent, of_vevent, loaded_text.
  destruct (r_anchor (x_rule x)) as [a|] eqn:Ea;
    cbn [ve_dtstart ve_end ve_rrule ve_exdate ve_summary ve_description ve_uid ve_location
         is_date zone_of_dt wall_of ts_of];
    rewrite parts_of_vrecur_of; rewrite exdates_back_date by exact Hex;
    rewrite duration_date by exact Hdur;
    change (p_freq (parts_of x)) with (r_freq (x_rule x)).
  - destruct Ha as (Hm & Hb & Hw).
    rewrite own_wall_utc_midnight by exact Hm.
    rewrite div_mul_exact by exact Hm.
    assert (Hne : (wall_day a =? phase_base (r_freq (x_rule x))) = false)
      by (apply Z.eqb_neq; exact Hb).
    rewrite Hne. unfold rp_init_dt. rewrite <- Hz.
    rewrite rp_make_ok by exact Hw.
    assert (Hsod : wall_sod a = r_sod (x_rule x)) by (unfold wall_sod; rewrite Hm, Hs; reflexivity).
    rewrite Hsod.
    assert (Hx : mk_xrule (parts_of x) (r_exdates (x_rule x)) (Some a) (r_sod (x_rule x))
                          (r_dur (x_rule x)) (r_zone (x_rule x)) = x)
      by (rewrite <- Ea; apply mk_xrule_parts).
    rewrite Hx. rewrite meta_back by exact Had.
    apply readd_preserves. unfold stored_ok. rewrite Ea, Hz, Hs.
    rewrite own_wall_utc_midnight by exact Hm.
    split; [unfold DAY; lia|]. split; [unfold wall_sod; exact Hm|exact Hw].
  - rewrite Z.add_0_r. rewrite Z.div_mul by (unfold DAY; lia).
    unfold wall_day, wall_sod. rewrite Z.div_mul by (unfold DAY; lia). rewrite Z.eqb_refl.
    rewrite Z.mod_mul by (unfold DAY; lia).
    unfold rp_init. cbn [Z.ltb Z.leb Z.compare DAY andb].
    unfold rp_make. rewrite <- Hz. rewrite <- Hs at 1. rewrite <- Ea. rewrite mk_xrule_parts.
    rewrite meta_back by exact Had.
    apply readd_preserves. unfold stored_ok. rewrite Ea, Hs. unfold DAY. split; [lia|exact I].
Qed.

(* without the hypotheses the statement is false of the model (each witness is written and read
   back, but as a different pattern):
   1. an all-day-flagged pattern outside UTC comes back without the flag;
   2. a first occurrence in the repeated hour of a DST fold comes back an hour earlier;
   3. a pattern anchored on the date time-of-day patterns are written on comes back as a time-of-day
      pattern (same occurrences, other parameters) *)
Definition z_gap : zone := mkZone 0 [(1000000, 3600)].        (* clocks go forward at t = 1000000 *)
Definition z_fold : zone := mkZone 3600 [(1000000, 0)].       (* clocks go back at t = 1000000 *)
Definition changed (it : item) : Prop := roundtrip it <> Some it /\ roundtrip it <> None.
Theorem vevent_roundtrip_recurring_refuted :
  changed (Pattern (x_of (mkRule Daily 1 [] [] [] [] [] None 0 86400 z_plus1)) (m_none true)) /\
  changed (Pattern (x_of (mkRule Daily 1 [] [] [] [] [] (Some 1001800) 51400 3600 z_fold)) (m_none false)) /\
  changed (Pattern (x_of (mkRule Daily 1 [] [] [] [] [] (Some 43200) 43200 3600 utc_zone)) (m_none false)).
Proof. repeat split; vm_compute; discriminate. Qed.

(* an anchor given inside a DST gap (start_seconds 14:16:40 on a day whose clock jumps from
   13:46:40 to 14:46:40; the timestamp reads 15:16:40) is kept *)
Example gap_anchor_kept :
  let it := Pattern (x_of (mkRule Daily 1 [] [] [] [] [] (Some 1001800) 51400 3600 z_gap)) (m_none false) in
  roundtrip it = Some it.
Proof. vm_compute. reflexivity. Qed.

(* ------------------------------------------------------------------------------------------ *)
(* the hypotheses are satisfiable                                                              *)
Definition p_example : rparts :=
  mkP Monthly 2 [(0, Some 1); (4, Some (-1))] [3; 9] [] [] [] [1; -1] [] [] [] None.
Example supported_example : supported p_example = true.
Proof. vm_compute. reflexivity. Qed.

(* every other Monday 09:00 for an hour in a UTC+1 zone, anchored on Monday 2024-01-01, one
   instance excluded *)
Definition x_example : xrule :=
  x_of (mkRule Weekly 2 [(0, None)] [] [] [] [1705305600] (Some 1704096000) 32400 3600 z_plus1).
Definition m_example : meta := mkMeta (Some 5%N) None (Some 0%N) None false.
Example timed_ok_example : timed_ok x_example m_example.
Proof.
  unfold timed_ok. split; [vm_compute; reflexivity|].
  split; [reflexivity|]. split.
  - unfold anchor_ok. cbn [x_example x_of x_rule r_anchor r_sod].
    split; [unfold DAY; lia|]. cbv zeta.
    split; [vm_compute; reflexivity|]. split; [vm_compute; reflexivity|].
    split; [vm_compute; intro H; discriminate H|].
    right. vm_compute. reflexivity.
  - cbn. repeat constructor.
Qed.

Definition x_allday : xrule := x_of (mkRule Weekly 1 [(0, None)] [] [] [] [1704672000] None 0 86400 utc_zone).
Example allday_ok_example : allday_ok x_allday (m_none true).
Proof.
  unfold allday_ok. split; [vm_compute; reflexivity|].
  split; [reflexivity|]. split; [reflexivity|]. split; [reflexivity|]. split; [vm_compute; reflexivity|].
  split; [exact I|]. cbn. repeat constructor.
Qed.

Example static_ok_example : static_ok 1704067200 1704153600 (mkMeta (Some 3%N) None None None true).
Proof.
  unfold static_ok. split; [lia|].
  intros _. split; vm_compute; reflexivity.
Qed.

Example stored_ok_example : stored_ok (x_rule x_example).
Proof.
  unfold stored_ok. cbn [x_example x_of x_rule r_anchor r_sod r_zone].
  split; [unfold DAY; lia|]. split; [vm_compute; reflexivity|]. right. vm_compute. reflexivity.
Qed.
