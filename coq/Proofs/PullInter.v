(* Proofs/PullInter.v — C14: the Intersection pull machine (k >= 2 operands, any mask/emit
   selection) refines Intersection._sweep of the list model (Model/Sweeps.v inter_sweep);
   with it, the clip "& solid" of Timeline.__getitem__. *)
From Coq Require Import Lia.
From CG Require Import Model.Pull Proofs.PullP Proofs.PullRefine Proofs.InterFuel.

Section Inter.
Variable env : fenv.
Variable o : oenv.
Notation runs := (runs env o).
Notation good := (good env o).
Notation steps_to := (steps_to env o).

(* machine-side source state (state, child machine) vs list-side state *)
Definition R1 (sm : sstate * mach) (sl : sstate) : Prop :=
  cur (fst sm) = cur sl /\ exh (fst sm) = exh sl /\ lpc (fst sm) = lpc sl /\
  (exh sl = false -> runs (snd sm) (rest sl)).

Definition ev {A} (p : nat -> prog A) (a : A) : Prop :=
  exists N, forall F, (N <= F)%nat -> run o (p F) = Some a.

Definition ev2 {A} (p : nat -> nat -> prog A) (a : A) : Prop :=
  exists N, forall G F, (N <= G)%nat -> (N <= F)%nat -> run o (p G F) = Some a.

Lemma padv_sim : forall sm sl, R1 sm sl ->
  exists sm', R1 sm' (fst (advance sl)) /\
    ev (fun F => padv (next F env) sm) (sm', snd (advance sl)).
Proof.
  intros [s m] sl (Hc & He & Hl & Hr). simpl in *. unfold advance, padv. simpl.
  rewrite He. destruct (exh sl) eqn:E.
  - exists (s, m). split; [repeat split; simpl; auto; congruence|]. exists O. intros; reflexivity.
  - specialize (Hr eq_refl). destruct (rest sl) as [|x r] eqn:Er.
    + inversion Hr as [? m' Hst|]; subst. destruct Hst as [N H].
      exists (mkS (cur s) [] true (lpc s), m'). split.
      * repeat split; simpl; auto. discriminate.
      * exists N. intros F HF. rewrite run_bind, H by lia. reflexivity.
    + inversion Hr as [|? m' ? ? Hst Hrr]; subst. destruct Hst as [N H].
      exists (mkS (Some x) [] false None, m'). split.
      * repeat split; simpl; auto.
      * exists N. intros F HF. rewrite run_bind, H by lia. reflexivity.
Qed.

Lemma R1_lpc_is : forall sm sl c, R1 sm sl -> lpc_is (fst sm) c = lpc_is sl c.
Proof. intros sm sl c (_ & _ & Hl & _). unfold lpc_is. rewrite Hl. reflexivity. Qed.

Lemma R1_ends_at : forall c sm sl, R1 sm sl -> ends_at c (fst sm) = ends_at c sl.
Proof. intros c sm sl (Hc & He & _ & _). unfold ends_at. rewrite Hc, He. reflexivity. Qed.

Lemma R1_stalled : forall c sm sl, R1 sm sl -> stalled c (fst sm) = stalled c sl.
Proof.
  intros c sm sl H. pose proof (R1_lpc_is sm sl c H) as Hl. destruct H as (Hc & He & _ & _).
  unfold stalled. rewrite Hc, He, Hl. reflexivity.
Qed.

Lemma padv_first_sim : forall p sel, (forall sm sl, R1 sm sl -> p (fst sm) = p sl) ->
  forall ssm ssl, Forall2 R1 ssm ssl -> forall i,
  exists ssm', Forall2 R1 ssm' (fst (adv_first p sel i ssl)) /\
    ev (fun F => padv_first (next F env) p sel i ssm) (ssm', snd (adv_first p sel i ssl)).
Proof.
  intros p sel Hp ssm ssl H. induction H as [|sm sl rm rl H1 HF IH]; intro i.
  - exists []. split; [constructor|]. exists O. intros; reflexivity.
  - simpl. rewrite (Hp sm sl H1). destruct (sel i && p sl).
    + destruct (padv_sim sm sl H1) as [sm' [HR [N HN]]]. exists (sm' :: rm). split.
      * simpl. constructor; assumption.
      * exists N. intros F HF'. rewrite run_bind, HN by lia. reflexivity.
    + destruct (IH (S i)) as [rm' [HR [N HN]]].
      destruct (adv_first p sel (S i) rl) as [rl' b]. simpl in *. exists (sm :: rm'). split.
      * constructor; assumption.
      * exists N. intros F HF'. rewrite run_bind, HN by lia. reflexivity.
Qed.

Lemma iinit_sim : forall ms Ls, Forall2 runs ms Ls ->
  exists ssm, Forall2 R1 ssm (map init_state Ls) /\
    ev (fun F => iinit (next F env) (map (fun m => (s0, m)) ms)) ssm.
Proof.
  intros ms Ls H. induction H as [|m L ms Ls Hr HF IH].
  - exists []. split; [constructor|]. exists O. intros; reflexivity.
  - destruct IH as [ssm [HR [N HN]]].
    assert (H0 : R1 (s0, m) (mkS None L false None)).
    { repeat split; simpl; auto. }
    destruct (padv_sim _ _ H0) as [sm' [HR1 [N1 HN1]]].
    exists (sm' :: ssm). split.
    + simpl. constructor; assumption.
    + exists (Nat.max N N1). intros F HF'. simpl.
      rewrite run_bind, HN1 by lia. rewrite run_bind, HN by lia. reflexivity.
Qed.

Lemma all_cur_R1 : forall ssm ssl, Forall2 R1 ssm ssl -> all_cur (map fst ssm) = all_cur ssl.
Proof.
  intros ssm ssl H. induction H as [|sm sl rm rl (Hc & _) HF IH]; [reflexivity|].
  unfold all_cur in *. simpl. rewrite Hc, IH. reflexivity.
Qed.

Lemma Forall2_len : forall A B (R : A -> B -> Prop) l1 l2, Forall2 R l1 l2 -> length l1 = length l2.
Proof. intros A B R l1 l2 H. induction H; simpl; congruence. Qed.

(* ---- the emit loop *)

Lemma efind_skip : forall oe sel pre suf i j, (i + length pre <= j)%nat ->
  efind oe sel i j (pre ++ suf) = efind oe sel (i + length pre) j suf.
Proof.
  intros oe sel pre. induction pre as [|x pre IH]; intros suf i j H; simpl in *.
  - rewrite Nat.add_0_r. reflexivity.
  - replace (j <=? i)%nat with false by (symmetry; apply Nat.leb_gt; lia). simpl.
    replace (i + S (length pre))%nat with (S i + length pre)%nat by lia.
    destruct (cur (fst x)); apply IH; lia.
Qed.

Lemma efind_ge : forall oe sel L i j1 j2, (j1 <= i)%nat -> (j2 <= i)%nat ->
  efind oe sel i j1 L = efind oe sel i j2 L.
Proof.
  intros oe sel L. induction L as [|x L IH]; intros i j1 j2 H1 H2; simpl; [reflexivity|].
  replace (j1 <=? i)%nat with true by (symmetry; apply Nat.leb_le; lia).
  replace (j2 <=? i)%nat with true by (symmetry; apply Nat.leb_le; lia).
  destruct (cur (fst x)); [destruct (true && sel i && negb (lpc_is (fst x) oe)); [reflexivity|]|];
    apply IH; lia.
Qed.

Definition ipost (f : nat) (nx : mach -> prog step) (masks : list bool) (oe : Z)
           (ss : list (sstate * mach)) : prog step :=
  bind (padv_first nx (ends_at oe) (fun _ => true) 0 ss) (fun r1 =>
  bind (if snd r1 then Ret r1 else padv_first nx (stalled oe) (emit_sel masks) 0 (fst r1)) (fun r2 =>
  if snd r2 then iloop f nx masks None (fst r2)
  else Ret (None, MInter masks IDone (fst r2)))).

Lemma iloop_entry : forall f nx masks os oe j ss,
  iloop (S f) nx masks (Some (os, oe, j)) ss =
  match (if os <? oe then efind oe (emit_sel masks) 0 j ss else None) with
  | Some (i, c) => Ret (Some (set_span c (unS os) (unE oe)), MInter masks (IEmit os oe i) ss)
  | None => ipost f nx masks oe ss
  end.
Proof. reflexivity. Qed.

Lemma upd_app : forall A (pre : list A) x y suf, upd (length pre) y (pre ++ x :: suf) = pre ++ y :: suf.
Proof. intros A pre. induction pre as [|p pre IH]; intros; simpl; [reflexivity|]. rewrite IH. reflexivity. Qed.

Lemma set_lpc_app : forall pre s m suf oe,
  set_lpc (length pre) oe (pre ++ (s, m) :: suf) =
  pre ++ (mkS (cur s) (rest s) (exh s) (Some oe), m) :: suf.
Proof.
  intros. unfold set_lpc. rewrite nth_error_app2 by lia. rewrite Nat.sub_diag. simpl.
  apply upd_app.
Qed.

Lemma emit_sim : forall os oe masks K, os <? oe = true ->
  forall sufm sufl, Forall2 R1 sufm sufl -> forall prem prel, Forall2 R1 prem prel ->
  (forall ssm', Forall2 R1 ssm' (prel ++ fst (emit os oe (emit_sel masks) (length prel) sufl)) ->
     exists r, ev2 (fun G F => ipost G (next F env) masks oe ssm') r /\ good r K) ->
  exists r, ev2 (fun G F => iloop (S G) (next F env) masks (Some (os, oe, length prel)) (prem ++ sufm)) r /\
            good r (snd (emit os oe (emit_sel masks) (length prel) sufl) ++ K).
Proof.
  intros os oe masks K Hlt sufm sufl H.
  induction H as [|sm sl rm rl H1 HF IH]; intros prem prel Hpre HK.
  - cbn [emit fst snd] in *. destruct (HK (prem ++ [])) as [r [[N HN] Hg]].
    { apply Forall2_app; [exact Hpre|constructor]. }
    exists r. split; [|exact Hg]. exists N. intros G F HG HF'. cbv beta.
    rewrite iloop_entry, Hlt. rewrite efind_skip by (rewrite (Forall2_len _ _ _ _ _ Hpre); simpl; lia).
    simpl. apply HN; assumption.
  - pose proof (Forall2_len _ _ _ _ _ Hpre) as Hlen.
    assert (Hcur : cur (fst sm) = cur sl) by apply H1.
    pose proof (R1_lpc_is sm sl oe H1) as Hlp.
    assert (HlenS : forall x : sstate, length (prel ++ [x]) = S (length prel)).
    { intro x. rewrite app_length. simpl. lia. }
    assert (HlenM : forall x : sstate * mach, length (prem ++ [x]) = S (length prem)).
    { intro x. rewrite app_length. simpl. lia. }
    cbn [emit]. destruct (emit os oe (emit_sel masks) (S (length prel)) rl) as [rl' out'] eqn:Eem.
    assert (Hnoemit : forall sl2, R1 sm sl2 ->
              efind oe (emit_sel masks) (length prel) (length prel) (sm :: rm) =
              efind oe (emit_sel masks) (S (length prel)) (S (length prel)) rm ->
              (forall ssm', Forall2 R1 ssm' ((prel ++ [sl2]) ++ rl') ->
                 exists r, ev2 (fun G F => ipost G (next F env) masks oe ssm') r /\ good r K) ->
              exists r, ev2 (fun G F => iloop (S G) (next F env) masks (Some (os, oe, length prel))
                                              (prem ++ sm :: rm)) r /\ good r (out' ++ K)).
    { intros sl2 HR2 Hef HK2.
      destruct (IH (prem ++ [sm]) (prel ++ [sl2])) as [r [[N HN] Hg]].
      - apply Forall2_app; [exact Hpre|constructor; [exact HR2|constructor]].
      - rewrite HlenS, Eem. simpl. exact HK2.
      - exists r. rewrite HlenS in *. rewrite Eem in Hg. simpl in Hg.
        split; [|exact Hg]. exists N. intros G F HG HF'.
        specialize (HN G F HG HF'). cbv beta in *. rewrite iloop_entry, Hlt in *.
        rewrite efind_skip in HN by (rewrite HlenM; lia).
        rewrite <- (app_assoc prem [sm] rm) in HN. cbn [app] in HN.
        rewrite efind_skip by lia. cbn [Nat.add] in *.
        rewrite HlenM, Hlen in HN. rewrite Hlen, Hef. exact HN. }
    destruct (cur sl) as [c|] eqn:Ec.
    + destruct (emit_sel masks (length prel) && negb (lpc_is sl oe)) eqn:Esel.
      * (* the machine yields for index |pre| and is resumed in IEmit *)
        exists (Some (set_span c (unS os) (unE oe)), MInter masks (IEmit os oe (length prel)) (prem ++ sm :: rm)).
        split.
        -- exists O. intros G F _ _. cbv beta. rewrite iloop_entry, Hlt, efind_skip by lia. simpl.
           rewrite Hcur, Hlen, Nat.leb_refl, Hlp. simpl. rewrite Esel. reflexivity.
        -- simpl. eexists. split; [reflexivity|].
           set (sl2 := mkS (cur sl) (rest sl) (exh sl) (Some oe)).
           destruct sm as [s m].
           set (sm2 := (mkS (cur s) (rest s) (exh s) (Some oe), m)).
           assert (HR2 : R1 sm2 sl2).
           { destruct H1 as (A & B & C & D). repeat split; simpl in *; auto. }
           destruct (IH (prem ++ [sm2]) (prel ++ [sl2])) as [r [[N HN] Hg]].
           ++ apply Forall2_app; [exact Hpre|constructor; [exact HR2|constructor]].
           ++ rewrite HlenS, Eem. simpl.
              intros ssm' Hs. apply HK. cbn [emit]. rewrite Eem, Ec, Esel. cbn [fst].
              rewrite <- app_assoc in Hs. cbn [app] in Hs. unfold sl2 in Hs. rewrite Ec in Hs. exact Hs.
           ++ rewrite HlenS in *. rewrite Eem in Hg. simpl in Hg.
              eapply runs_of_good; [|exact Hg].
              exists (S (S N)). intros F HF'. destruct F as [|[|F]]; try lia. cbn [snd].
              change (run o (iloop (S F) (next (S F) env) masks (Some (os, oe, S (length prel)))
                               (set_lpc (length prel) oe (prem ++ (s, m) :: rm))) = Some r).
              rewrite <- Hlen, set_lpc_app, Hlen.
              specialize (HN F (S F)). cbv beta in HN. rewrite <- app_assoc in HN. cbn [app] in HN.
              apply HN; lia.
      * simpl. apply (Hnoemit sl H1).
        -- simpl. rewrite Hcur, Nat.leb_refl, Hlp. simpl. rewrite Esel. apply efind_ge; lia.
        -- intros ssm' Hs. apply HK. cbn [emit]. rewrite Eem, Ec, Esel. cbn [fst].
           rewrite <- app_assoc in Hs. exact Hs.
    + simpl. apply (Hnoemit sl H1).
      * simpl. rewrite Hcur. apply efind_ge; lia.
      * intros ssm' Hs. apply HK. cbn [emit]. rewrite Eem, Ec. cbn [fst].
        rewrite <- app_assoc in Hs. exact Hs.
Qed.


(* ---- the advance phase and the loop *)

Definition loop_ok (masks : list bool) (f : nat) : Prop :=
  forall ssl out, inter_loop f (emit_sel masks) ssl = Some out ->
  forall ssm, Forall2 R1 ssm ssl ->
  exists r, ev2 (fun G F => iloop G (next F env) masks None ssm) r /\ good r out.

Lemma ipost_sim : forall masks f oe, loop_ok masks f ->
  forall ss1 K,
  (let '(ss2, adv) := adv_first (ends_at oe) (fun _ => true) 0 ss1 in
   let '(ss3, adv2) := if adv then (ss2, true) else adv_first (stalled oe) (emit_sel masks) 0 ss2 in
   if adv2 then inter_loop f (emit_sel masks) ss3 else Some []) = Some K ->
  forall ssm1, Forall2 R1 ssm1 ss1 ->
  exists r, ev2 (fun G F => ipost G (next F env) masks oe ssm1) r /\ good r K.
Proof.
  intros masks f oe IHf ss1 K HK ssm1 HR.
  destruct (padv_first_sim (ends_at oe) (fun _ => true) (R1_ends_at oe) ssm1 ss1 HR 0%nat)
    as [ssm2 [HR2 [N2 HN2]]].
  destruct (adv_first (ends_at oe) (fun _ => true) 0 ss1) as [ss2 adv]. simpl in HR2, HN2.
  assert (Hstep3 : exists ssm3 ss3 adv2,
            (if adv then (ss2, true) else adv_first (stalled oe) (emit_sel masks) 0 ss2) = (ss3, adv2) /\
            Forall2 R1 ssm3 ss3 /\
            ev (fun F => if adv then Ret (ssm2, adv)
                         else padv_first (next F env) (stalled oe) (emit_sel masks) 0 ssm2) (ssm3, adv2)).
  { destruct adv.
    - exists ssm2, ss2, true. repeat split; auto. exists O. intros; reflexivity.
    - destruct (padv_first_sim (stalled oe) (emit_sel masks) (R1_stalled oe) ssm2 ss2 HR2 0%nat)
        as [ssm3 [HR3 HN3]].
      destruct (adv_first (stalled oe) (emit_sel masks) 0 ss2) as [ss3 adv2]. simpl in *.
      exists ssm3, ss3, adv2. auto. }
  destruct Hstep3 as [ssm3 [ss3 [adv2 [E3 [HR3 [N3 HN3]]]]]]. rewrite E3 in HK.
  destruct adv2.
  - destruct (IHf ss3 K HK ssm3 HR3) as [r [[N HN] Hg]]. exists r. split; [|exact Hg].
    exists (Nat.max N (Nat.max N2 N3)). intros G F HG HF. unfold ipost.
    rewrite run_bind, HN2 by lia. cbn [snd fst]. rewrite run_bind, HN3 by lia. cbn [snd fst].
    apply HN; lia.
  - injection HK as <-. exists (None, MInter masks IDone ssm3). split; [|reflexivity].
    exists (Nat.max N2 N3). intros G F HG HF. unfold ipost.
    rewrite run_bind, HN2 by lia. cbn [snd fst]. rewrite run_bind, HN3 by lia. reflexivity.
Qed.

Lemma iloop_none : forall G nx masks ss act, all_cur (map fst ss) = Some act ->
  iloop (S G) nx masks None ss = iloop (S G) nx masks (Some (max_start act, min_end act, O)) ss.
Proof. intros G nx masks ss act H. cbn [iloop]. rewrite H. reflexivity. Qed.

Lemma iloop_none_done : forall G nx masks ss, all_cur (map fst ss) = None ->
  iloop (S G) nx masks None ss = Ret (None, MInter masks IDone ss).
Proof. intros G nx masks ss H. cbn [iloop]. rewrite H. reflexivity. Qed.

Lemma iloop_sim : forall masks f, loop_ok masks f.
Proof.
  intros masks. induction f as [|f IH]; intros ssl out Hout ssm HR; [discriminate|].
  cbn [inter_loop] in Hout. pose proof (all_cur_R1 ssm ssl HR) as Hall.
  destruct (all_cur ssl) as [act|] eqn:Eact.
  - set (os := max_start act) in *. set (oe := min_end act) in *.
    destruct (os <? oe) eqn:Elt.
    + destruct (emit os oe (emit_sel masks) 0 ssl) as [ss1 out1] eqn:Eem.
      assert (HK : exists K, out = out1 ++ K /\
                (let '(ss2, adv) := adv_first (ends_at oe) (fun _ => true) 0 ss1 in
                 let '(ss3, adv2) := if adv then (ss2, true) else adv_first (stalled oe) (emit_sel masks) 0 ss2 in
                 if adv2 then inter_loop f (emit_sel masks) ss3 else Some []) = Some K).
      { destruct (adv_first (ends_at oe) (fun _ => true) 0 ss1) as [ss2 adv].
        destruct (if adv then (ss2, true) else adv_first (stalled oe) (emit_sel masks) 0 ss2) as [ss3 adv2].
        destruct adv2.
        - destruct (inter_loop f (emit_sel masks) ss3) as [o3|]; [|discriminate].
          injection Hout as <-. eauto.
        - injection Hout as <-. exists []. rewrite app_nil_r. auto. }
      destruct HK as [K [-> HK]].
      destruct (emit_sim os oe masks K Elt ssm ssl HR [] [] (Forall2_nil _)) as [r [[N HN] Hg]].
      * intros ssm' Hs. cbn [length app] in Hs. rewrite Eem in Hs. cbn [fst] in Hs.
        exact (ipost_sim masks f oe IH ss1 K HK ssm' Hs).
      * cbn [length app] in Hg, HN. rewrite Eem in Hg. cbn [snd] in Hg. exists r. split; [|exact Hg].
        exists (S N). intros G F HG HF. destruct G as [|G]; [lia|].
        rewrite (iloop_none _ _ _ _ act Hall). fold os oe. apply HN; lia.
    + assert (HK : (let '(ss2, adv) := adv_first (ends_at oe) (fun _ => true) 0 ssl in
                    let '(ss3, adv2) := if adv then (ss2, true) else adv_first (stalled oe) (emit_sel masks) 0 ss2 in
                    if adv2 then inter_loop f (emit_sel masks) ss3 else Some []) = Some out).
      { destruct (adv_first (ends_at oe) (fun _ => true) 0 ssl) as [ss2 adv].
        destruct (if adv then (ss2, true) else adv_first (stalled oe) (emit_sel masks) 0 ss2) as [ss3 adv2].
        destruct adv2; [|exact Hout].
        destruct (inter_loop f (emit_sel masks) ss3); [exact Hout|discriminate]. }
      destruct (ipost_sim masks f oe IH ssl out HK ssm HR) as [r [[N HN] Hg]].
      exists r. split; [|exact Hg]. exists (S N). intros G F HG HF. destruct G as [|G]; [lia|].
      rewrite (iloop_none _ _ _ _ act Hall). fold os oe. rewrite iloop_entry, Elt. apply HN; lia.
  - injection Hout as <-. exists (None, MInter masks IDone ssm). split; [|reflexivity].
    exists 1%nat. intros G F HG HF. destruct G as [|G]; [lia|].
    rewrite (iloop_none_done _ _ _ _ Hall). reflexivity.
Qed.

Lemma forallb_R1 : forall ssm ssl, Forall2 R1 ssm ssl ->
  forallb (fun sm => exh (fst sm) && match cur (fst sm) with None => true | _ => false end) ssm =
  forallb (fun s => exh s && match cur s with None => true | _ => false end) ssl.
Proof.
  intros ssm ssl H. induction H as [|sm sl rm rl (Hc & He & _) HF IH]; [reflexivity|].
  simpl. rewrite Hc, He, IH. reflexivity.
Qed.

(* Intersection over k >= 2 operand machines = inter_sweep over their lists *)
Theorem runs_inter : forall masks ms Ls, Forall2 runs ms Ls -> (2 <= length Ls)%nat ->
  runs (MInter masks IInit (map (fun m => (s0, m)) ms)) (inter_sweep Ls (emit_sel masks)).
Proof.
  intros masks ms Ls H Hlen. destruct (iinit_sim ms Ls H) as [ssm [HR [N HN]]].
  pose proof (inter_sweep_some Ls (emit_sel masks)) as Hsome. unfold inter_sweep_opt in Hsome.
  pose proof (forallb_R1 ssm _ HR) as Hfa.
  destruct (forallb (fun s => exh s && match cur s with None => true | _ => false end)
                    (map init_state Ls)) eqn:Efa.
  - injection Hsome as <-. eapply runs_nil with (m' := MInter masks IDone ssm).
    exists (S N). intros F HF. destruct F as [|F]; [lia|]. cbn [next inext].
    rewrite run_bind, HN by lia. rewrite Hfa. reflexivity.
  - assert (Hloop : inter_loop (S (ss_measure (map init_state Ls))) (emit_sel masks) (map init_state Ls)
                    = Some (inter_sweep Ls (emit_sel masks))).
    { destruct Ls as [|l1 [|l2 Lr]]; simpl in Hlen; try lia. exact Hsome. }
    destruct (iloop_sim masks _ _ _ Hloop ssm HR) as [r [[N2 HN2] Hg]].
    eapply runs_of_good; [|exact Hg].
    exists (S (Nat.max N N2)). intros F HF. destruct F as [|F]; [lia|]. cbn [next inext].
    rewrite run_bind, HN by lia. rewrite Hfa. apply HN2; lia.
Qed.

End Inter.

(* ------------------------------------------------------------------------------------ *)
(* whole expressions: everything except Difference with subtractors *)

Fixpoint frag2 (e : pexpr) : bool :=
  match e with
  | PPer _ _ _ _ => true
  | PSto _ _ => true
  | PSolid => true
  | PUnion es => forallb frag2 es
  | PInter es => (2 <=? length es)%nat && forallb frag2 es
  | PDiff s subs => match subs with [] => frag2 s | _ => false end
  | PCompl s => frag2 s
  | PFilt s _ => frag2 s
  | PBuf s _ _ => frag2 s
  end.

Lemma runs_once : forall env o x, runs env o (MOnce (Some x)) [x].
Proof.
  intros env o x. eapply runs_cons with (m' := MOnce None).
  - exists 1%nat. intros F HF. destruct F as [|F]; [lia|]. reflexivity.
  - eapply runs_nil with (m' := MOnce None).
    exists 1%nat. intros F HF. destruct F as [|F]; [lia|]. reflexivity.
Qed.

Theorem pull_eq_list : forall env o e a b,
  frag2 e = true -> pos_periods e = true -> leaves_ok o e a (Some b) ->
  runs env o (compile e a (Some b)) (lfetch env e a b).
Proof.
  intros env o e. induction e using pexpr_ind2; intros a b Hf Hp Hl; simpl in *; try discriminate.
  - apply Z.ltb_lt in Hp.
    rewrite <- (enum_ext _ (o id) _ 0 Hl).
    apply runs_leaf. simpl. rewrite Hl. apply per_oracle_none. exact Hp.
  - set (L := fetch_static (sl_build evs) (Some a) (Some b) false) in *.
    assert (HL : enum (length L) (o id) 0 = L).
    { rewrite (enum_ext _ (o id) (nth_error L) 0 Hl). exact (enum_nth_error L []). }
    change (runs env o (MLeaf id 0) L). rewrite <- HL. apply runs_leaf. simpl. rewrite Hl.
    unfold sto_oracle. fold L. apply nth_error_None. lia.
  - apply runs_once.
  - rewrite <- (map_map (fun s => compile s a (Some b)) (fun m => (None, m))).
    apply runs_union.
    induction H as [|x es Hx HF IH]; simpl in *; [constructor|].
    apply andb_prop in Hf as [Hf1 Hf2]. apply andb_prop in Hp as [Hp1 Hp2]. destruct Hl as [Hl1 Hl2].
    constructor; [apply Hx; assumption|apply IH; assumption].
  - apply andb_prop in Hf as [Hlen Hf].
    assert (Hlen2 : (2 <= length es)%nat) by (destruct (length es) as [|[|n]]; try discriminate; lia).
    clear Hlen. rename Hlen2 into Hlen.
    rewrite <- (map_map (fun s => compile s a (Some b)) (fun m => (s0, m))).
    assert (HF2 : Forall2 (runs env o) (map (fun s => compile s a (Some b)) es)
                          (map (fun s => lfetch env s a b) es)).
    { clear Hlen. induction H as [|x es Hx HF IH]; simpl in *; [constructor|].
      apply andb_prop in Hf as [Hf1 Hf2]. apply andb_prop in Hp as [Hp1 Hp2]. destruct Hl as [Hl1 Hl2].
      constructor; [apply Hx; assumption|apply IH; assumption]. }
    destruct es as [|e1 es']; [simpl in Hlen; lia|].
    apply runs_inter; [exact HF2|]. rewrite map_length. exact Hlen.
  - destruct subs; [|discriminate]. apply andb_prop in Hp as [Hp _]. destruct Hl as [Hl _].
    apply IHe; assumption.
  - apply (runs_compl env o _ _ a (Some b)). apply IHe; assumption.
  - apply runs_filt. apply IHe; assumption.
  - apply runs_buf. apply (IHe (a - y) (b + x)); assumption.
Qed.

(* the slice tl[a:b] = (tl & solid).fetch(a, b) *)
Lemma all_app_leaves : forall o a b l1 l2,
  (fix all (l : list pexpr) : Prop := match l with [] => True | s :: r => leaves_ok o s a b /\ all r end) l1 ->
  (fix all (l : list pexpr) : Prop := match l with [] => True | s :: r => leaves_ok o s a b /\ all r end) l2 ->
  (fix all (l : list pexpr) : Prop := match l with [] => True | s :: r => leaves_ok o s a b /\ all r end) (l1 ++ l2).
Proof.
  intros o a b l1. induction l1 as [|x l1 IH]; intros l2 H1 H2; [exact H2|].
  destruct H1 as [Hx Hr]. split; [exact Hx|]. apply IH; assumption.
Qed.

Theorem pull_eq_list_slice : forall env o e a b,
  frag2 e = true -> pos_periods e = true -> leaves_ok o e a (Some b) ->
  runs env o (pslice e a (Some b)) (lslice env e a b).
Proof.
  intros env o e a b Hf Hp Hl. unfold pslice, lslice. apply pull_eq_list.
  - unfold pand. destruct e; simpl in *; rewrite ?Hf; try reflexivity.
    apply andb_prop in Hf as [Hlen Hf].
    assert (Hlen2 : (2 <= length es)%nat) by (destruct (length es) as [|[|n]]; try discriminate; lia).
    rewrite forallb_app, Hf. simpl. rewrite andb_true_r.
    rewrite app_length. simpl. destruct (length es) as [|[|n]]; try lia. reflexivity.
  - unfold pand. destruct e; simpl in *; rewrite ?Hp; try reflexivity.
    rewrite forallb_app, Hp. reflexivity.
  - unfold pand. destruct e; simpl in *; auto.
    apply (all_app_leaves o a (Some b) es [PSolid] Hl). simpl. auto.
Qed.

(* bounded queries terminate (for these operators): the machine of a finite window stops
   after finitely many items, every next() returning for all sufficiently large fuel *)
Corollary bounded_terminates : forall env o e a b,
  frag2 e = true -> pos_periods e = true -> leaves_ok o e a (Some b) ->
  exists l, runs env o (pslice e a (Some b)) l.
Proof. intros. eexists. apply pull_eq_list_slice; eassumption. Qed.

(* [lfetch] is Model/Expr.v [fetch] on expressions without recurring leaves *)
Lemma pis_mask_to_expr : forall e, no_per e = true -> is_mask (to_expr e) = pis_mask e.
Proof.
  induction e using pexpr_ind2; intro Hn; simpl in *; try reflexivity; try discriminate; auto.
  - induction H as [|x es Hx HF IH]; simpl in *; [reflexivity|].
    apply andb_prop in Hn as [H1 H2]. rewrite Hx, IH by assumption. reflexivity.
  - induction H as [|x es Hx HF IH]; simpl in *; [reflexivity|].
    apply andb_prop in Hn as [H1 H2]. rewrite Hx, IH by assumption. reflexivity.
  - apply andb_prop in Hn as [H1 H2]. auto.
Qed.

Lemma map_eq_Forall : forall A B (f g : A -> B) l, Forall (fun x => f x = g x) l -> map f l = map g l.
Proof. intros A B f g l H. induction H; simpl; congruence. Qed.

Theorem lfetch_fetch : forall env e a b, no_per e = true ->
  lfetch env e a b = fetch env (to_expr e) (Some a) (Some b) false.
Proof.
  intros env e. induction e using pexpr_ind2; intros a b Hn; simpl in *; try reflexivity; try discriminate.
  - f_equal. rewrite map_map. apply map_eq_Forall.
    induction H as [|x es Hx HF IH]; simpl in *; constructor.
    + apply Hx. apply andb_prop in Hn. tauto.
    + apply IH. apply andb_prop in Hn. tauto.
  - assert (Hm : map pis_mask es = map is_mask (map to_expr es)).
    { rewrite map_map. apply map_eq_Forall. clear H.
      induction es as [|x es IH]; simpl in *; constructor.
      - symmetry. apply pis_mask_to_expr. apply andb_prop in Hn. tauto.
      - apply IH. apply andb_prop in Hn. tauto. }
    assert (Hl : map (fun s => lfetch env s a b) es =
                 map (fun s => fetch env s (Some a) (Some b) false) (map to_expr es)).
    { rewrite map_map. apply map_eq_Forall.
      induction H as [|x es' Hx HF IH]; simpl in *; constructor.
      - apply Hx. apply andb_prop in Hn. tauto.
      - apply IH; [apply andb_prop in Hn; tauto|].
        simpl in Hm. injection Hm as _ Hm. exact Hm. }
    destruct es as [|e1 es']; [reflexivity|]. rewrite Hl, Hm. reflexivity.
  - apply andb_prop in Hn as [Hs Hsubs].
    assert (Hl : map (fun u => lfetch env u a b) subs =
                 map (fun u => fetch env u (Some a) (Some b) false) (map to_expr subs)).
    { rewrite map_map. apply map_eq_Forall.
      induction H as [|x es' Hx HF IH]; simpl in *; constructor.
      - apply Hx. apply andb_prop in Hsubs. tauto.
      - apply IH. apply andb_prop in Hsubs. tauto. }
    destruct subs as [|u subs']; [apply IHe; assumption|].
    rewrite Hl, (IHe a b Hs). reflexivity.
  - rewrite IHe by assumption. reflexivity.
  - rewrite IHe by assumption. reflexivity.
  - rewrite IHe by assumption. reflexivity.
Qed.
