(* Proofs/SliceP.v — bound coercion and step validation (C15). *)
From CG Require Import Proofs.Defs Model.Slice.

(* an aware datetime denoting instant t, in any zone, and the int t coerce equal *)
Lemma coerce_equiv t z : coerce_bound (BAware t z) = coerce_bound (BInt t).
Proof. reflexivity. Qed.

Lemma coerce_zone_irrelevant t z1 z2 : coerce_bound (BAware t z1) = coerce_bound (BAware t z2).
Proof. reflexivity. Qed.

(* hence the slice does not depend on how the bounds are written *)
Lemma getitem_spelling env e a a' b b' s :
  coerce_bound a = coerce_bound a' -> coerce_bound b = coerce_bound b' ->
  getitem env e a b s = getitem env e a' b' s.
Proof. intros Ha Hb. unfold getitem. rewrite Ha, Hb. reflexivity. Qed.

Lemma getitem_aware_eq_int env e t1 z1 t2 z2 s :
  getitem env e (BAware t1 z1) (BAware t2 z2) s = getitem env e (BInt t1) (BInt t2) s.
Proof. apply getitem_spelling; apply coerce_equiv. Qed.

(* step None and step 1 are the same forward slice; -1 the reverse slice *)
Lemma getitem_step_default env e a b : getitem env e a b SNone = getitem env e a b (SInt 1).
Proof. reflexivity. Qed.

Lemma getitem_ok env e a b s a' b' rv :
  coerce_bound a = inr a' -> coerce_bound b = inr b' -> check_step s = inr rv ->
  getitem env e a b s = inr (slice env e a' b' rv).
Proof. intros Ha Hb Hs. unfold getitem. rewrite Ha, Hb, Hs. reflexivity. Qed.

(* rejection instead of a wrong answer *)
Lemma getitem_naive_start env e b s : getitem env e BNaive b s = inl TypeError.
Proof. reflexivity. Qed.
Lemma getitem_other_start env e b s : getitem env e BOther b s = inl TypeError.
Proof. reflexivity. Qed.
Lemma getitem_bad_end env e a b s a' :
  coerce_bound a = inr a' -> (b = BNaive \/ b = BOther) -> getitem env e a b s = inl TypeError.
Proof. intros Ha [-> | ->]; unfold getitem; rewrite Ha; reflexivity. Qed.
Lemma getitem_bad_step env e a b s a' b' :
  coerce_bound a = inr a' -> coerce_bound b = inr b' ->
  (s = SOther \/ exists z, s = SInt z /\ z <> 1 /\ z <> -1) ->
  getitem env e a b s = inl ValueError.
Proof.
  intros Ha Hb Hs. unfold getitem. rewrite Ha, Hb. destruct Hs as [-> | (z & -> & H1 & H2)]; simpl.
  - reflexivity.
  - destruct (z =? 1) eqn:E1; [lia|]. destruct (z =? -1) eqn:E2; [lia|]. reflexivity.
Qed.

(* getitem is a function of its arguments only: evaluating it any number of times, in any
   interleaving with other evaluations, gives the same list (there is no state to share in the
   model; that the implementation has none either is the purity discipline, Spec/Purity.v) *)
Lemma getitem_repeatable env e a b s : getitem env e a b s = getitem env e a b s.
Proof. reflexivity. Qed.

(* uniting a filter with a timeline is a TypeError, in both orders *)
Lemma or_filter_timeline : or_kind KFilter KTimeline = inl TypeError /\ or_kind KTimeline KFilter = inl TypeError.
Proof. split; reflexivity. Qed.

(* ---- buffer(): validation of the amounts (C17) ---- *)
From Coq Require Import Lia.

Lemma buffer_rejects_negative e b a : b < 0 \/ a < 0 -> buffer_ e b a = inl ValueError.
Proof.
  intros H. unfold buffer_. destruct (b <? 0) eqn:Eb; [reflexivity|].
  destruct (a <? 0) eqn:Ea; [reflexivity|]. lia.
Qed.

Lemma buffer_accepts_nonnegative e b a : 0 <= b -> 0 <= a -> buffer_ e b a = inr (Buf e b a).
Proof.
  intros Hb Ha. unfold buffer_. destruct (b <? 0) eqn:Eb; [lia|]. destruct (a <? 0) eqn:Ea; [lia|]. reflexivity.
Qed.

(* a chain of buffer() calls is rejected exactly when some amount, at any level, is negative —
   in particular a negative amount cannot be compensated by the buffer underneath *)
Lemma buffer_chain_rejects amts : forall e,
  (exists p, In p amts /\ (fst p < 0 \/ snd p < 0)) <-> buffer_chain e amts = inl ValueError.
Proof.
  induction amts as [|[b a] r IH]; intro e; cbn [buffer_chain].
  - split; [intros (p & [] & _)|discriminate].
  - unfold buffer_. destruct ((b <? 0) || (a <? 0)) eqn:E.
    + split; [reflexivity|]. intros _. exists (b, a). split; [left; reflexivity|]. cbn [fst snd]. lia.
    + rewrite <- IH. split.
      * intros (p & [<-|Hp] & Hn); [cbn [fst snd] in Hn; lia|]. exists p. split; assumption.
      * intros (p & Hp & Hn). exists p. split; [right; exact Hp|exact Hn].
Qed.

Lemma buffer_chain_never_typeerror amts : forall e, buffer_chain e amts <> inl TypeError.
Proof.
  induction amts as [|[b a] r IH]; intro e; cbn [buffer_chain]; [discriminate|].
  unfold buffer_. destruct ((b <? 0) || (a <? 0)); [discriminate|apply IH].
Qed.
