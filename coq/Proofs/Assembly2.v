(* Proofs/Assembly2.v — per-event exactness (C02) and locality (C05) for whole expression trees
   inside the domain [good] of Proofs/Assembly.v.

   Key invariant ([clip_eq]): clipping what [fetch] returns for a window to that window gives,
   up to order, the clipped window-independent reference [ref]:
       Permutation (flat_map (clipW a b) (fetch env e a b false)) (expected env e a b).
   It is compositional: clipping commutes with every operator (for Difference because the
   maximal runs of "x minus holes" inside the window only depend on the holes' coverage inside
   the window; for Intersection because a choice of one event per operand that does not meet
   the window has an empty clipped region). *)
From CG Require Import Proofs.Defs Proofs.Stored Proofs.Merge Proofs.Compl Proofs.Canon
  Proofs.Diff Proofs.InterDisjoint Proofs.Clip Proofs.RefSpec Proofs.InterFuel Proofs.Assembly.

(* ------------------------------------------------------------------------------------ *)
(* clipping: identity on canonical events inside the window, skipping, separation *)

Lemma canon_enc x : canon_ivl x ->
  (st x = None <-> fstart x = NEG_INF) /\ (en x = None <-> fend x = POS_INF).
Proof.
  intros [C1 C2]. unfold fstart, fend. split; split; intro H.
  - rewrite H. reflexivity.
  - destruct (st x) as [z|]; [subst z; congruence|reflexivity].
  - rewrite H. reflexivity.
  - destruct (en x) as [z|]; [subst z; congruence|reflexivity].
Qed.

Lemma enc_canon x :
  (st x = None <-> fstart x = NEG_INF) -> (en x = None <-> fend x = POS_INF) -> canon_ivl x.
Proof.
  intros H1 H2. split; intro E.
  - assert (F : fstart x = NEG_INF) by (unfold fstart; rewrite E; reflexivity).
    apply H1 in F. congruence.
  - assert (F : fend x = POS_INF) by (unfold fend; rewrite E; reflexivity).
    apply H2 in F. congruence.
Qed.

Lemma unS_fstart x : canon_ivl x -> unS (fstart x) = st x.
Proof.
  intros [C1 _]. unfold unS, fstart. destruct (st x) as [z|]; [|reflexivity].
  destruct (z =? NEG_INF) eqn:E; [|reflexivity]. apply Z.eqb_eq in E. subst z. congruence.
Qed.

Lemma unE_fend x : canon_ivl x -> unE (fend x) = en x.
Proof.
  intros [_ C2]. unfold unE, fend. destruct (en x) as [z|]; [|reflexivity].
  destruct (z =? POS_INF) eqn:E; [|reflexivity]. apply Z.eqb_eq in E. subst z. congruence.
Qed.

Lemma clipW_id a b x :
  wf_ivl x -> canon_ivl x -> bnd_lo a <= fstart x -> fend x <= bnd_hi b -> clipW a b x = [x].
Proof.
  intros (W1 & W2 & W3 & W4 & W5) Hc B1 B2. unfold clipW.
  rewrite (Z.max_l (fstart x) (bnd_lo a)) by lia. rewrite (Z.min_l (fend x) (bnd_hi b)) by lia.
  destruct (fstart x <? fend x) eqn:E; [|lia].
  rewrite (unS_fstart x Hc), (unE_fend x Hc). destruct x; reflexivity.
Qed.

Lemma clip_id_all a b xs :
  Forall wf_ivl xs -> Forall canon_ivl xs -> in_win_all a b xs -> flat_map (clipW a b) xs = xs.
Proof.
  induction xs as [|x r IH]; intros Hw Hc Hin; [reflexivity|].
  inversion Hw as [|? ? Hwx Hwr]; inversion Hc as [|? ? Hcx Hcr]; subst. cbn [flat_map].
  destruct (Hin x (or_introl eq_refl)) as [B1 B2]. rewrite (clipW_id a b x Hwx Hcx B1 B2).
  cbn [app]. f_equal. apply IH; auto. intros y Hy. apply Hin. right; exact Hy.
Qed.

Lemma flat_map_filter_skip {A B} (g : A -> list B) (q : A -> bool) l :
  (forall x, In x l -> q x = false -> g x = []) -> flat_map g (filter q l) = flat_map g l.
Proof.
  induction l as [|x r IH]; intro H; [reflexivity|]. cbn [filter flat_map].
  assert (IH' : flat_map g (filter q r) = flat_map g r).
  { apply IH. intros y Hy. apply H. right; exact Hy. }
  destruct (q x) eqn:E.
  - cbn [flat_map]. rewrite IH'. reflexivity.
  - rewrite (H x (or_introl eq_refl) E), IH'. reflexivity.
Qed.

Lemma clip_out_of_range a b x : in_range a b x = false -> clipW a b x = [].
Proof.
  intro H. unfold clipW. destruct (_ <? _) eqn:E; [|reflexivity]. exfalso.
  unfold in_range in H. destruct a as [s|], b as [e|]; cbn [bnd_lo bnd_hi] in E; lia.
Qed.

Lemma clip_not_pos a b x : pos_len x = false -> clipW a b x = [].
Proof.
  intro H. unfold clipW. destruct (_ <? _) eqn:E; [|reflexivity]. exfalso. unfold pos_len in H. lia.
Qed.

Lemma Permutation_filter' {A} (p : A -> bool) l l' :
  Permutation l l' -> Permutation (filter p l) (filter p l').
Proof.
  induction 1 as [|x l l' _ IH|x y l|l l' l'' _ IH1 _ IH2]; cbn [filter].
  - constructor.
  - destruct (p x); [constructor|]; exact IH.
  - destruct (p x), (p y); try apply Permutation_refl. apply perm_swap.
  - eapply Permutation_trans; eauto.
Qed.

Lemma separatedP_clip a b l : separatedP l -> separatedP (flat_map (clipW a b) l).
Proof.
  intro H. apply flat_map_separated; [exact H| |].
  - intros f g Hgf. apply clipW_shape in Hgf as (_ & Gs & Ge & _). lia.
  - intro f. unfold clipW. destruct (_ <? _); cbn [separatedP]; [split; [intros y []|exact I]|exact I].
Qed.

Lemma clipW_out_ok a b x g :
  wf_ivl x -> In g (clipW a b x) ->
  wf_ivl g /\ canon_ivl g /\ pl g = pl x /\ bnd_lo a <= fstart g /\ fend g <= bnd_hi b /\
  fstart x <= fstart g /\ fend g <= fend x.
Proof.
  intros (W1 & W2 & W3 & W4 & W5) Hgx. apply clipW_shape in Hgx as (Gp & Gs & Ge & Glt & Geq).
  split; [unfold wf_ivl; lia|]. split; [|split; [exact Gp|lia]].
  rewrite Geq. split; cbn [st en]; [apply unS_canon|apply unE_canon].
Qed.

(* ------------------------------------------------------------------------------------ *)
(* the reference streams of the domain consist of well-formed, canonically encoded events *)

Lemma In_dedup p l : In p (dedup l) -> In p l.
Proof.
  induction l as [|q r IH]; [auto|]. cbn [dedup]. destruct (existsb (zz_eqb q) r).
  - intro H. right. exact (IH H).
  - intros [<-|H]; [left; reflexivity|right; exact (IH H)].
Qed.

Lemma inter_ref_in masks Rs y : In y (inter_ref masks Rs) ->
  exists l x os oe, In l Rs /\ In x l /\ fstart x <= os /\ os < oe /\ oe <= fend x /\
                    y = set_span x (unS os) (unE oe).
Proof.
  intro H. rewrite inter_ref_is_sel in H. unfold inter_ref_sel in H.
  apply in_flat_map in H as (i & Hi & H). apply in_seq in Hi.
  destruct (emit_sel masks i); [|destruct H].
  apply in_flat_map in H as (x & Hx & H). apply in_map_iff in H as (p & <- & Hp).
  unfold spans_for in Hp. apply In_dedup in Hp. apply in_flat_map in Hp as (c & _ & Hp).
  cbv zeta in Hp. destruct (max_start (x :: c) <? min_end (x :: c)) eqn:E; [|destruct Hp].
  destruct Hp as [<-|[]]. cbn [fst snd].
  exists (nth i Rs []), x, (max_start (x :: c)), (min_end (x :: c)).
  split; [apply nth_In; lia|]. split; [exact Hx|].
  pose proof (max_start_ge (x :: c) x (or_introl eq_refl)).
  pose proof (min_end_le (x :: c) x (or_introl eq_refl)).
  repeat split; lia.
Qed.

Lemma full_line_ok : wf_ivl full_line /\ canon_ivl full_line.
Proof.
  split; [unfold wf_ivl, full_line, fstart, fend; cbn [st en]; unfold NEG_INF, POS_INF; lia|].
  split; cbn [full_line st en]; discriminate.
Qed.

Lemma span_ok x os oe :
  wf_ivl x -> fstart x <= os -> os < oe -> oe <= fend x ->
  wf_ivl (set_span x (unS os) (unE oe)) /\ canon_ivl (set_span x (unS os) (unE oe)).
Proof.
  intros (W1 & W2 & W3 & W4 & W5) B1 B2 B3. split.
  - unfold wf_ivl. rewrite fstart_set_span, fend_set_span. lia.
  - split; cbn [set_span st en]; [apply unS_canon|apply unE_canon].
Qed.

Lemma minus_runs_ok x H f :
  wf_ivl x -> canon_ivl x -> In f (minus_runs x H) -> wf_ivl f /\ canon_ivl f.
Proof.
  intros Hw Hc Hf. destruct (minus_runs_spec x H Hw Hc) as (M1 & _ & _).
  eapply frag_of_wf; [exact Hw|exact (M1 f Hf)].
Qed.

Definition ref_ok (env : fenv) (e : expr) : Prop :=
  Forall wf_ivl (ref env e) /\ Forall canon_ivl (ref env e).

Lemma ref_ok_intro env e : (forall x, In x (ref env e) -> wf_ivl x /\ canon_ivl x) -> ref_ok env e.
Proof. intro H. split; apply Forall_forall; intros x Hx; apply (H x Hx). Qed.

Lemma ref_ok_in env e x : ref_ok env e -> In x (ref env e) -> wf_ivl x /\ canon_ivl x.
Proof. intros [H1 H2] Hx. rewrite Forall_forall in H1, H2. auto. Qed.

Theorem good_ref_ok env e : good env e -> ref_ok env e.
Proof.
  induction e as [evs| |es IH|es IH|s subs IHs IHsubs|s IHs|s f IHs|s x y IHs|s g IHs] using expr_ind';
    intros Hg; inv_good Hg; apply ref_ok_intro; cbn [ref].
  - intros x Hx. apply filter_In in Hx as [Hx _]. rewrite Forall_forall in Hwf, Hcn. auto.
  - intros x [<-|[]]. exact full_line_ok.
  - intros x Hx. apply in_flat_map in Hx as (s & Hs & Hx). rewrite Forall_forall in IH, Hgs.
    exact (ref_ok_in env s x (IH s Hs (Hgs s Hs)) Hx).
  - intros y Hy. apply inter_ref_in in Hy as (l & x & os & oe & Hl & Hx & B1 & B2 & B3 & ->).
    apply in_map_iff in Hl as (s & <- & Hs). rewrite Forall_forall in IH, Hgs.
    destruct (ref_ok_in env s x (IH s Hs (Hgs s Hs)) Hx) as [Wx _]. apply span_ok; assumption.
  - intros f Hf. apply in_flat_map in Hf as (x & Hx & Hf).
    destruct (ref_ok_in env s x (IHs Hgs) Hx) as [Wx Cx]. eapply minus_runs_ok; eauto.
  - intros f Hf. destruct full_line_ok as [Wl Cl]. eapply minus_runs_ok; eauto.
  - intros x Hx. apply filter_In in Hx as [Hx _]. apply filter_In in Hx as [Hx _].
    rewrite Forall_forall in Hwf, Hcn. auto.
Qed.

(* ------------------------------------------------------------------------------------ *)
(* Difference: clipping commutes with "minus the holes"; only the holes' coverage inside the
   event matters *)

Lemma minus_runs_ext_on x h1 h2 :
  wf_ivl x -> canon_ivl x ->
  (forall t, inside x t = true -> covers h1 t = covers h2 t) ->
  minus_runs x h1 = minus_runs x h2.
Proof.
  intros Hw Hc Hcov.
  destruct (minus_runs_spec x h1 Hw Hc) as (A1 & A2 & A3).
  destruct (minus_runs_spec x h2 Hw Hc) as (B1 & B2 & B3).
  apply (runs_unique (pl x)); auto.
  - intros f Hf. apply frag_of_run_ok. auto.
  - intros f Hf. apply frag_of_run_ok. auto.
  - intro t. rewrite A3, B3. destruct (inside x t) eqn:E; [|reflexivity]. rewrite (Hcov t E). reflexivity.
Qed.

Lemma clip_run_ok a b x f g :
  wf_ivl x -> canon_ivl x -> frag_of x f -> In g (clipW a b f) -> run_ok (pl x) g.
Proof.
  intros Hw Hc Hf Hgf. destruct (frag_of_wf x f Hw Hf) as [Wf Cf].
  destruct (clipW_out_ok a b f g Wf Hgf) as (Wg & Cg & Pg & _).
  destruct Hf as (Pf & _). destruct Wg as (_ & Wg & _).
  split; [congruence|]. split; [exact Wg|]. exact (canon_enc g Cg).
Qed.

Lemma clip_minus_comm a b x H :
  wf_ivl x -> canon_ivl x ->
  flat_map (clipW a b) (minus_runs x H) = flat_map (fun y => minus_runs y H) (clipW a b x).
Proof.
  intros Hw Hc. destruct (minus_runs_spec x H Hw Hc) as (A1 & A2 & A3).
  apply (runs_unique (pl x)).
  - intros g Hgp. apply in_flat_map in Hgp as (f & Hf & Hgf). eapply clip_run_ok; eauto.
  - intros g Hgp. apply in_flat_map in Hgp as (y & Hy & Hgy).
    destruct (clipW_out_ok a b x y Hw Hy) as (Wy & Cy & Py & _).
    destruct (minus_runs_spec y H Wy Cy) as (B1 & _ & _). rewrite <- Py.
    apply frag_of_run_ok. auto.
  - apply separatedP_clip. exact A2.
  - unfold clipW. destruct (_ <? _) eqn:E; [|exact I]. cbn [flat_map]. rewrite app_nil_r.
    assert (Hy : In (set_span x (unS (Z.max (fstart x) (bnd_lo a))) (unE (Z.min (fend x) (bnd_hi b))))
                    (clipW a b x)) by (unfold clipW; rewrite E; left; reflexivity).
    destruct (clipW_out_ok a b x _ Hw Hy) as (Wy & Cy & _).
    exact (proj1 (proj2 (minus_runs_spec _ H Wy Cy))).
  - intro t. rewrite clip_all_cover, A3.
    destruct (clipW a b x) as [|y r] eqn:Ey.
    + cbn [flat_map]. rewrite covers_nil.
      pose proof (clipW_cover a b x t) as Hcv. rewrite Ey, covers_nil in Hcv.
      destruct (inside x t), (inw a b t), (covers H t); cbn in *; congruence.
    + assert (r = []) by (unfold clipW in Ey; destruct (_ <? _); [injection Ey as _ <-; reflexivity|discriminate]).
      subst r. cbn [flat_map]. rewrite app_nil_r.
      assert (Hy : In y (clipW a b x)) by (rewrite Ey; left; reflexivity).
      destruct (clipW_out_ok a b x y Hw Hy) as (Wy & Cy & _).
      rewrite (proj2 (proj2 (minus_runs_spec y H Wy Cy))).
      pose proof (clipW_cover a b x t) as Hcv. rewrite Ey, covers_cons, covers_nil, orb_false_r in Hcv.
      rewrite Hcv. destruct (inside x t), (inw a b t), (covers H t); reflexivity.
Qed.

Lemma minus_runs_nil x : minus_runs x [] = [x].
Proof. reflexivity. Qed.

(* ------------------------------------------------------------------------------------ *)
(* Intersection, reference side: [inter_ref_perm] only needs pairwise disjointness, in any
   order (the reference streams [ref] are in insertion order, not sorted) *)

Definition pdisj (l : list ivl) : Prop :=
  NoDup l /\ forall a b t, In a l -> In b l -> inside a t = true -> inside b t = true -> a = b.

Lemma pdisj_of_disjoint l : Forall wf_ivl l -> disjoint_sorted l -> pdisj l.
Proof. intros Hw Hd. split; [apply disjoint_NoDup; assumption|apply disjoint_unique; assumption]. Qed.

Lemma pdisj_perm l l' : Permutation l l' -> pdisj l -> pdisj l'.
Proof.
  intros P [Hn Hu]. split; [eapply Permutation_NoDup; eauto|].
  intros x y t Hx Hy. apply Hu; eapply Permutation_in; try apply Permutation_sym; eauto.
Qed.

Lemma tuple_unique_p : forall L, Forall pdisj L ->
  forall c c' t, tuple_in c L -> tuple_in c' L ->
  (forall y, In y c -> inside y t = true) -> (forall y, In y c' -> inside y t = true) -> c = c'.
Proof.
  intros L Hd c c' t Hc. revert c' Hd.
  induction Hc as [|y l c L Hy Hc IH]; intros c' Hd Hc' Hi Hi';
    inversion Hc' as [|y' ? c'' ? Hy' Hc'']; subst.
  - reflexivity.
  - inversion Hd as [|? ? Hdl HdL]; subst. f_equal.
    + destruct Hdl as [_ Hu]. apply (Hu y y' t); auto; [apply Hi|apply Hi']; left; reflexivity.
    + apply IH; auto; intros z Hz; [apply Hi|apply Hi']; right; exact Hz.
Qed.

Lemma spans_for_pdisj x oth :
  Forall pdisj oth -> spans_for x oth = flat_map (gspan x) (choices oth).
Proof.
  intros Hd. unfold spans_for. fold (gspan x). apply dedup_NoDup.
  apply NoDup_flat_map_intro.
  - apply NoDup_choices. eapply Forall_impl; [|exact Hd]. intros l Hl. exact (proj1 Hl).
  - intros a _. unfold gspan. cbv zeta.
    destruct (_ <? _); [constructor; [intros []|constructor]|constructor].
  - intros a b z Ha Hb Hza Hzb. unfold gspan in Hza, Hzb. cbv zeta in Hza, Hzb.
    destruct (max_start (x :: a) <? min_end (x :: a)) eqn:Ea; [|destruct Hza].
    destruct (max_start (x :: b) <? min_end (x :: b)) eqn:Eb; [|destruct Hzb].
    destruct Hza as [<-|[]]. destruct Hzb as [Hzb|[]]. injection Hzb as E1 E2.
    change (max_start (x :: b) = max_start (x :: a)) in E1.
    change (min_end (x :: b) = min_end (x :: a)) in E2.
    apply (tuple_unique_p oth Hd a b (max_start (x :: a)));
      [apply choices_in; exact Ha|apply choices_in; exact Hb| |].
    + intros y Hy. pose proof (max_start_ge (x :: a) y (or_intror Hy)).
      pose proof (min_end_le (x :: a) y (or_intror Hy)). unfold inside. lia.
    + intros y Hy. pose proof (max_start_ge (x :: b) y (or_intror Hy)).
      pose proof (min_end_le (x :: b) y (or_intror Hy)). unfold inside. lia.
Qed.

Lemma operand_contrib_p L1 l L2 :
  Forall pdisj (L1 ++ L2) ->
  Permutation
    (G (contrib (length L1)) (L1 ++ l :: L2))
    (flat_map (fun x => map (fun p => set_span x (unS (fst p)) (unE (snd p))) (spans_for x (L1 ++ L2))) l).
Proof.
  intros Hd. eapply Permutation_trans; [apply G_pull|].
  apply flat_map_perm_pointwise. intros x _.
  rewrite (spans_for_pdisj x _ Hd), map_flat_map.
  fold (G (fun c => map (fun p => set_span x (unS (fst p)) (unE (snd p))) (gspan x c)) (L1 ++ L2)).
  rewrite (G_ext_in _ (fun c => map (fun p => set_span x (unS (fst p)) (unE (snd p))) (gspan x c)));
    [apply Permutation_refl|].
  intros c Hc. apply tuple_in_length in Hc. rewrite app_length in Hc.
  assert (HP : Permutation (firstn (length L1) c ++ x :: skipn (length L1) c) (x :: c)).
  { symmetry. rewrite <- (firstn_skipn (length L1) c) at 1. apply Permutation_middle. }
  unfold contrib, gspan. cbv zeta. rewrite (max_start_perm _ _ HP), (min_end_perm _ _ HP).
  destruct (max_start (x :: c) <? min_end (x :: c)); [|reflexivity]. cbn [map fst snd].
  assert (Hlen : length (firstn (length L1) c) = length L1) by (apply firstn_length_le; lia).
  rewrite <- Hlen at 1. rewrite nth_app_mid. reflexivity.
Qed.

Theorem inter_ref_perm_p sel ls :
  Forall pdisj ls -> Permutation (inter_ref' sel ls) (inter_ref_sel sel ls).
Proof.
  intros Hd. unfold inter_ref', inter_ref_sel.
  eapply Permutation_trans.
  { apply flat_map_perm_pointwise with
      (h := fun cs => flat_map (fun i => if sel i then contrib i cs else []) (seq 0 (length ls))).
    intros cs Hcs. rewrite ref_tuple_seq, (tuple_in_length cs ls (choices_in _ _ Hcs)).
    apply Permutation_refl. }
  eapply Permutation_trans; [apply flat_map_swap|].
  apply flat_map_perm_pointwise. intros i Hi. apply in_seq in Hi.
  destruct (sel i); [|rewrite flat_map_nil; [constructor|reflexivity]].
  destruct (nth_split ls [] (proj2 Hi)) as (L1 & L2 & Els & Hlen).
  revert Els. generalize (nth i ls []). intros l Els. subst ls i.
  rewrite others_app.
  apply Forall_app in Hd as [D1 D2]. inversion D2; subst.
  apply operand_contrib_p; apply Forall_app; split; assumption.
Qed.

(* ------------------------------------------------------------------------------------ *)
(* Intersection: the tuple reference respects per-operand permutations and commutes with
   clipping *)

Lemma G_perm {A} : forall L L' (f : list ivl -> list A),
  Forall2 (@Permutation ivl) L L' -> Permutation (G f L) (G f L').
Proof.
  intros L L' f H. revert f. induction H as [|l l' R R' Hl HR IH]; intro f.
  - apply Permutation_refl.
  - rewrite !G_cons. eapply Permutation_trans.
    + apply flat_map_perm_pointwise. intros x _. apply IH.
    + apply Permutation_flat_map. exact Hl.
Qed.

Lemma choices_flat_map (g : ivl -> list ivl) : forall L,
  Permutation (choices (map (flat_map g) L)) (flat_map (fun cs => choices (map g cs)) (choices L)).
Proof.
  induction L as [|l R IH].
  - cbn [map choices flat_map app]. apply Permutation_refl.
  - cbn [map choices]. rewrite !flat_map_flat_map.
    apply flat_map_perm_pointwise. intros x _.
    rewrite flat_map_comp. cbn [map choices].
    eapply Permutation_trans; [|apply flat_map_swap].
    apply flat_map_perm_pointwise. intros y _.
    rewrite <- map_flat_map. apply Permutation_map. exact IH.
Qed.

Lemma G_flat_map {A} (f : list ivl -> list A) (g : ivl -> list ivl) L :
  Permutation (G f (map (flat_map g) L)) (flat_map (fun cs => G f (map g cs)) (choices L)).
Proof.
  unfold G. rewrite <- flat_map_flat_map. apply Permutation_flat_map. apply choices_flat_map.
Qed.

Definition meets (a b : option Z) (c : ivl) : bool :=
  Z.max (fstart c) (bnd_lo a) <? Z.min (fend c) (bnd_hi b).
Definition clip1 (a b : option Z) (c : ivl) : ivl :=
  set_span c (unS (Z.max (fstart c) (bnd_lo a))) (unE (Z.min (fend c) (bnd_hi b))).

Lemma clipW_meets a b c : clipW a b c = if meets a b c then [clip1 a b c] else [].
Proof. reflexivity. Qed.

Lemma choices_clip a b : forall cs,
  choices (map (clipW a b) cs) = if forallb (meets a b) cs then [map (clip1 a b) cs] else [].
Proof.
  induction cs as [|c r IH]; [reflexivity|]. cbn [map choices forallb]. rewrite IH, clipW_meets.
  destruct (meets a b c); [|reflexivity]. cbn [flat_map andb]. rewrite app_nil_r.
  destruct (forallb (meets a b) r); reflexivity.
Qed.

Lemma fstart_clip1 a b c : fstart (clip1 a b c) = Z.max (fstart c) (bnd_lo a).
Proof. unfold clip1. apply fstart_set_span. Qed.

Lemma fend_clip1 a b c : fend (clip1 a b c) = Z.min (fend c) (bnd_hi b).
Proof. unfold clip1. apply fend_set_span. Qed.

Lemma max_start_clip a b cs : cs <> [] ->
  max_start (map (clip1 a b) cs) = Z.max (max_start cs) (bnd_lo a).
Proof.
  intro Hne. assert (Hne' : map (clip1 a b) cs <> []) by (destruct cs; [congruence|discriminate]).
  destruct (max_start_in _ Hne') as (c' & Hc' & E').
  apply in_map_iff in Hc' as (c & <- & Hc). rewrite fstart_clip1 in E'.
  pose proof (max_start_ge cs c Hc) as B1.
  destruct (max_start_in cs Hne) as (c0 & Hc0 & E0).
  pose proof (max_start_ge _ _ (in_map (clip1 a b) cs c0 Hc0)) as B2. rewrite fstart_clip1 in B2.
  lia.
Qed.

Lemma min_end_clip a b cs : cs <> [] ->
  min_end (map (clip1 a b) cs) = Z.min (min_end cs) (bnd_hi b).
Proof.
  intro Hne. assert (Hne' : map (clip1 a b) cs <> []) by (destruct cs; [congruence|discriminate]).
  destruct (min_end_in _ Hne') as (c' & Hc' & E').
  apply in_map_iff in Hc' as (c & <- & Hc). rewrite fend_clip1 in E'.
  pose proof (min_end_le cs c Hc) as B1.
  destruct (min_end_in cs Hne) as (c0 & Hc0 & E0).
  pose proof (min_end_le _ _ (in_map (clip1 a b) cs c0 Hc0)) as B2. rewrite fend_clip1 in B2.
  lia.
Qed.

Lemma tup_emit_clip a b os oe sel : forall cs i,
  flat_map (clipW a b) (tup_emit os oe sel i cs) =
  if Z.max os (bnd_lo a) <? Z.min oe (bnd_hi b)
  then tup_emit (Z.max os (bnd_lo a)) (Z.min oe (bnd_hi b)) sel i (map (clip1 a b) cs) else [].
Proof.
  induction cs as [|c r IH]; intro i.
  - cbn [tup_emit map flat_map]. destruct (_ <? _); reflexivity.
  - cbn [tup_emit map]. rewrite flat_map_app, IH.
    destruct (sel i).
    + cbn [flat_map]. rewrite app_nil_r. unfold clipW at 1.
      rewrite fstart_set_span, fend_set_span.
      destruct (Z.max os (bnd_lo a) <? Z.min oe (bnd_hi b)); reflexivity.
    + cbn [flat_map app]. destruct (Z.max os (bnd_lo a) <? Z.min oe (bnd_hi b)); reflexivity.
Qed.

Lemma forallb_false_ex {A} (p : A -> bool) l : forallb p l = false -> exists x, In x l /\ p x = false.
Proof.
  induction l as [|x r IH]; [discriminate|]. cbn [forallb]. destruct (p x) eqn:E.
  - intro H. destruct (IH H) as (y & Hy & Hp). exists y. split; [right; exact Hy|exact Hp].
  - intros _. exists x. split; [left; reflexivity|exact E].
Qed.

Lemma ref_tuple_clip a b sel cs :
  flat_map (clipW a b) (ref_tuple sel cs) = G (ref_tuple sel) (map (clipW a b) cs).
Proof.
  unfold G. rewrite choices_clip. destruct (forallb (meets a b) cs) eqn:Ef.
  - cbn [flat_map]. rewrite app_nil_r. destruct cs as [|c0 r]; [reflexivity|].
    assert (Hne : c0 :: r <> []) by discriminate. unfold ref_tuple.
    rewrite (max_start_clip a b _ Hne), (min_end_clip a b _ Hne).
    destruct (max_start (c0 :: r) <? min_end (c0 :: r)) eqn:E.
    + apply tup_emit_clip.
    + cbn [flat_map].
      destruct (Z.max (max_start (c0 :: r)) (bnd_lo a) <? Z.min (min_end (c0 :: r)) (bnd_hi b)) eqn:E2;
        [lia|reflexivity].
  - cbn [flat_map]. apply forallb_false_ex in Ef as (c & Hc & Hm). unfold meets in Hm.
    pose proof (max_start_ge cs c Hc). pose proof (min_end_le cs c Hc).
    unfold ref_tuple. destruct (max_start cs <? min_end cs) eqn:E; [|reflexivity].
    rewrite tup_emit_clip.
    destruct (Z.max (max_start cs) (bnd_lo a) <? Z.min (min_end cs) (bnd_hi b)) eqn:E2; [lia|reflexivity].
Qed.

Theorem clip_inter_ref' a b sel L :
  Permutation (flat_map (clipW a b) (inter_ref' sel L))
              (inter_ref' sel (map (flat_map (clipW a b)) L)).
Proof.
  unfold inter_ref'. fold (G (ref_tuple sel) (map (flat_map (clipW a b)) L)).
  eapply Permutation_trans; [|apply Permutation_sym, G_flat_map].
  rewrite flat_map_flat_map. apply flat_map_perm_pointwise. intros cs _.
  rewrite ref_tuple_clip. apply Permutation_refl.
Qed.

(* one operand: the sweep returns it unchanged, and so does the tuple reference *)
Lemma choices_one (xs : list ivl) : choices [xs] = map (fun x => [x]) xs.
Proof. cbn [choices]. induction xs as [|x r IH]; [reflexivity|]. cbn [flat_map]. rewrite IH. reflexivity. Qed.

Lemma inter_ref'_one sel xs :
  sel 0%nat = true -> Forall wf_ivl xs -> Forall canon_ivl xs -> inter_ref' sel [xs] = xs.
Proof.
  intros Hs Hw Hc. unfold inter_ref'. rewrite choices_one.
  induction xs as [|x r IH]; [reflexivity|].
  inversion Hw as [|? ? Hwx Hwr]; inversion Hc as [|? ? Hcx Hcr]; subst.
  cbn [flat_map map]. rewrite (IH Hwr Hcr).
  unfold ref_tuple. cbn [max_start min_end map fold_right tup_emit]. rewrite Hs.
  destruct Hwx as (_ & Hlt & _). destruct (fstart x <? fend x) eqn:E; [|lia].
  rewrite (unS_fstart x Hcx), (unE_fend x Hcx). destruct x; reflexivity.
Qed.

Lemma emit_sel_one m : emit_sel [m] 0%nat = true.
Proof. destruct m; reflexivity. Qed.

Lemma inter_sweep_exact1 masks streams :
  streams <> [] -> length masks = length streams ->
  Forall (Forall wf_ivl) streams -> Forall (Forall canon_ivl) streams ->
  Forall disjoint_sorted streams ->
  Permutation (inter_sweep streams (emit_sel masks)) (inter_ref' (emit_sel masks) streams).
Proof.
  intros Hne Hlen Hw Hc Hd. destruct streams as [|xs [|ys r]]; [congruence| |].
  - destruct masks as [|m [|m' ms]]; try discriminate Hlen.
    inversion Hw; inversion Hc; subst.
    rewrite inter_sweep_one, inter_ref'_one; auto using emit_sel_one. 
  - apply inter_sweep_exact; auto. cbn [length]. lia.
Qed.

(* ------------------------------------------------------------------------------------ *)
(* 4. the compositional invariant *)

Definition clip_eq (env : fenv) (e : expr) (a b : option Z) : Prop :=
  Permutation (flat_map (clipW a b) (fetch env e a b false)) (expected env e a b).

Lemma wf_win_open : wf_win None None.
Proof.
  unfold wf_win. split; [intros z E; discriminate E|]. split; [intros z E; discriminate E|].
  cbn [bnd_lo bnd_hi]. unfold NEG_INF, POS_INF. lia.
Qed.

Lemma in_win_open xs : Forall wf_ivl xs -> in_win_all None None xs.
Proof.
  intros H x Hx. destruct (proj1 (Forall_forall _ _) H x Hx) as (W1 & W2 & W3 & W4 & W5).
  cbn [bnd_lo bnd_hi]. lia.
Qed.

(* with the fully open window nothing is clipped: fetch returns the reference itself *)
Lemma full_perm env e :
  good env e -> clip_eq env e None None -> Permutation (fetch env e None None false) (ref env e).
Proof.
  intros Hg H. unfold clip_eq, expected in H.
  destruct (fetch_ok env e Hg None None wf_win_open) as (S1 & S2 & _).
  destruct (good_ref_ok env e Hg) as [R1 R2].
  rewrite !clip_id_all in H; auto using in_win_open.
Qed.

Lemma clip_eq_cover env e a b t :
  clip_eq env e a b -> inw a b t = true -> covers (fetch env e a b false) t = covers (ref env e) t.
Proof.
  intros H Ht. pose proof (covers_perm _ _ t H) as Hc. unfold expected in Hc.
  rewrite !clip_all_cover, Ht, !andb_true_r in Hc. exact Hc.
Qed.

Lemma clip_solid a b :
  NEG_INF <= bnd_lo a -> bnd_hi b <= POS_INF -> clipW a b (mkI a b Plain) = clipW a b full_line.
Proof.
  intros Ba Bb. unfold clipW.
  change (fstart (mkI a b Plain)) with (bnd_lo a). change (fend (mkI a b Plain)) with (bnd_hi b).
  change (fstart full_line) with NEG_INF. change (fend full_line) with POS_INF.
  rewrite Z.max_id, Z.min_id, (Z.max_r NEG_INF (bnd_lo a)) by lia.
  rewrite (Z.min_r POS_INF (bnd_hi b)) by lia. reflexivity.
Qed.

Lemma flat_concat_perm {A} (g : ivl -> list ivl) (f r : A -> list ivl) es :
  Forall (fun s => Permutation (flat_map g (f s)) (flat_map g (r s))) es ->
  Permutation (flat_map g (concat (map f es))) (flat_map g (flat_map r es)).
Proof.
  induction 1 as [|s es Hs _ IH]; [constructor|].
  cbn [map concat flat_map]. rewrite !flat_map_app. apply Permutation_app; assumption.
Qed.

Lemma Forall2_map_perm {A} (f g : A -> list ivl) es :
  Forall (fun s => Permutation (f s) (g s)) es -> Forall2 (@Permutation ivl) (map f es) (map g es).
Proof. induction 1; cbn [map]; constructor; assumption. Qed.

Lemma flat_map_single {A} (l : list A) : flat_map (fun x => [x]) l = l.
Proof. induction l as [|x r IH]; [reflexivity|]. cbn [flat_map app]. rewrite IH. reflexivity. Qed.

Lemma flat_map_filter_skip2 {A B} (g : A -> list B) (p q : A -> bool) l :
  (forall x, q x = false -> g x = []) ->
  flat_map g (filter p (filter q l)) = flat_map g (filter p l).
Proof.
  intro H. induction l as [|x r IH]; [reflexivity|]. cbn [filter].
  destruct (q x) eqn:Eq; cbn [filter]; destruct (p x) eqn:Ep; cbn [flat_map]; rewrite ?IH; try reflexivity.
  rewrite (H x Eq). reflexivity.
Qed.

Lemma clip_flat_minus a b l h :
  Forall wf_ivl l -> Forall canon_ivl l ->
  flat_map (clipW a b) (flat_map (fun x => minus_runs x h) l) =
  flat_map (fun y => minus_runs y h) (flat_map (clipW a b) l).
Proof.
  intros Hw Hc. rewrite !flat_map_flat_map. apply flat_map_ext_In. intros x Hx.
  rewrite Forall_forall in Hw, Hc. apply clip_minus_comm; auto.
Qed.

Lemma covers_flat_ref env (subs : list expr) t :
  covers (flat_map (ref env) subs) t = existsb (fun u => covers (ref env u) t) subs.
Proof.
  induction subs as [|u us IH]; [reflexivity|]. cbn [flat_map existsb]. rewrite covers_app, IH. reflexivity.
Qed.

Theorem fetch_clip_exact env e : good env e -> forall a b, wf_win a b -> clip_eq env e a b.
Proof.
  induction e as [evs| |es IH|es IH|s subs IHs IHsubs|s IHs|s f IHs|s x y IHs|s g IHs] using expr_ind';
    intros Hg a b Hw; inv_good Hg; unfold clip_eq, expected; cbn [ref].
  - (* Stored *)
    rewrite fetch_stored.
    rewrite (flat_map_filter_skip (clipW a b) (in_range a b))
      by (intros x _ Hr; apply clip_out_of_range; exact Hr).
    rewrite (flat_map_filter_skip (clipW a b) pos_len)
      by (intros x _ Hp; apply clip_not_pos; exact Hp).
    apply Permutation_flat_map, sl_build_perm.
  - (* Solid *)
    rewrite fetch_solid. cbn [flat_map]. pose proof (wf_win_bounds a b Hw) as [Ba Bb].
    rewrite (clip_solid a b Ba Bb). apply Permutation_refl.
  - (* Union *)
    rewrite fetch_union. eapply Permutation_trans; [apply Permutation_flat_map, merge_perm|].
    apply flat_concat_perm. eapply Forall_mp; [|exact Hgs]. eapply Forall_impl; [|exact IH].
    intros s Hs Hgs'. exact (Hs Hgs' a b Hw).
  - (* Inter *)
    destruct es as [|e0 es]; [congruence|]. rewrite fetch_inter.
    set (es' := e0 :: es) in *. set (sel := emit_sel (map is_mask es')).
    assert (Hall : Forall (fun s => stream_ok env s a b (fetch env s a b false)) es').
    { eapply Forall_impl; [|exact Hgs]. intros s Hs. exact (fetch_ok env s Hs a b Hw). }
    assert (Hce : Forall (fun s => clip_eq env s a b) es').
    { eapply Forall_mp; [|exact Hgs]. eapply Forall_impl; [|exact IH].
      intros s Hs Hgs'. exact (Hs Hgs' a b Hw). }
    assert (Hpd : Forall pdisj (map (ref env) es')).
    { apply Forall_map_intro. rewrite Forall_forall in IH, Hgs, Hdj. apply Forall_forall. intros s Hs.
      eapply pdisj_perm.
      - apply full_perm; [exact (Hgs s Hs)|]. exact (IH s Hs (Hgs s Hs) None None wf_win_open).
      - apply pdisj_of_disjoint.
        + exact (proj1 (fetch_ok env s (Hgs s Hs) None None wf_win_open)).
        + exact (Hdj s Hs None None wf_win_open). }
    eapply Permutation_trans.
    { apply Permutation_flat_map. apply inter_sweep_exact1.
      - unfold es'. discriminate.
      - rewrite !map_length. reflexivity.
      - apply Forall_map_intro. eapply Forall_impl; [|exact Hall]. intros s Hs; exact (proj1 Hs).
      - apply Forall_map_intro. eapply Forall_impl; [|exact Hall].
        intros s Hs; exact (proj1 (proj2 Hs)).
      - apply Forall_map_intro. eapply Forall_impl; [|exact Hdj]. intros s Hs; exact (Hs a b Hw). }
    fold sel. eapply Permutation_trans; [apply clip_inter_ref'|].
    eapply Permutation_trans.
    { apply (G_perm _ (map (flat_map (clipW a b)) (map (ref env) es')) (ref_tuple sel)).
      rewrite !map_map. apply Forall2_map_perm. exact Hce. }
    eapply Permutation_trans; [apply Permutation_sym, (clip_inter_ref' a b sel)|].
    rewrite inter_ref_is_sel. apply Permutation_flat_map. apply inter_ref_perm_p. exact Hpd.
  - (* Diff *)
    pose proof (IHs Hgs a b Hw) as Hs. unfold clip_eq, expected in Hs.
    destruct (fetch_ok env s Hgs a b Hw) as (S1 & S2 & S3 & S4).
    destruct (good_ref_ok env s Hgs) as [R1 R2].
    destruct subs as [|u us].
    + rewrite fetch_diff_nil.
      change (flat_map (fun x => minus_runs x (flat_map (ref env) [])) (ref env s))
        with (flat_map (fun x : ivl => [x]) (ref env s)).
      rewrite flat_map_single. exact Hs.
    + rewrite fetch_diff. set (us' := u :: us) in *.
      assert (Hall : Forall (fun v => stream_ok env v a b (fetch env v a b false)) us').
      { eapply Forall_impl; [|exact Hgsubs]. intros v Hv. exact (fetch_ok env v Hv a b Hw). }
      assert (Hce : Forall (fun v => clip_eq env v a b) us').
      { eapply Forall_mp; [|exact Hgsubs]. eapply Forall_impl; [|exact IHsubs].
        intros v Hv Hgv. exact (Hv Hgv a b Hw). }
      set (ss := map (fun v => fetch env v a b false) us').
      assert (Hm : merged_ok ss).
      { apply merged_ok_intro; unfold ss; apply Forall_map_intro;
          (eapply Forall_impl; [|exact Hall]); intros v Hv;
          [exact (proj1 Hv)|exact (proj1 (proj2 (proj2 Hv)))]. }
      rewrite (diff_sweep_minus_runs _ _ S1 S2 (Hdj a b Hw) Hm).
      rewrite (clip_flat_minus a b _ _ S1 S2), (clip_flat_minus a b _ _ R1 R2).
      eapply Permutation_trans; [apply Permutation_flat_map; exact Hs|].
      erewrite flat_map_ext_In; [apply Permutation_refl|].
      intros y Hy. apply in_flat_map in Hy as (x & Hx & Hy).
      destruct (clipW_out_ok a b x y (proj1 (Forall_forall _ _) R1 x Hx) Hy)
        as (Wy & Cy & _ & B1 & B2 & _).
      apply minus_runs_ext_on; [exact Wy|exact Cy|]. intros t Ht.
      assert (Hin : inw a b t = true) by (unfold inside in Ht; unfold inw; lia).
      rewrite Diff.covers_concat, covers_flat_ref. unfold ss. apply existsb_map_ext.
      eapply Forall_impl; [|exact Hce]. intros v Hv. exact (clip_eq_cover env v a b t Hv Hin).
  - (* Compl *)
    pose proof (IHs Hgs a b Hw) as Hs.
    destruct (fetch_ok env s Hgs a b Hw) as (S1 & S2 & S3 & S4).
    destruct (good_ref_ok env s Hgs) as [R1 R2]. rewrite fetch_compl.
    pose proof (wf_win_bounds a b Hw) as [Ba Bb].
    pose proof (compl_canonP _ a b Hw S1 S3) as Hc1.
    assert (Hid : flat_map (clipW a b) (compl_sweep (fetch env s a b false) a b) =
                  compl_sweep (fetch env s a b false) a b).
    { destruct Hc1 as [Hg1 _]. apply clip_id_all.
      - apply Forall_forall. intros g0 Hg0. exact (proj1 (good_gap_wf _ _ g0 Ba Bb (Hg1 g0 Hg0))).
      - apply Forall_forall. intros g0 Hg0. exact (proj2 (good_gap_wf _ _ g0 Ba Bb (Hg1 g0 Hg0))).
      - intros g0 Hg0. destruct (Hg1 g0 Hg0) as (_ & G2 & _ & G4 & _). split; assumption. }
    rewrite Hid. destruct full_line_ok as [Wl Cl].
    destruct (minus_runs_spec full_line (ref env s) Wl Cl) as (M1 & M2 & M3).
    assert (Hc2 : canonP (bnd_lo a) (bnd_hi b) (flat_map (clipW a b) (minus_runs full_line (ref env s)))).
    { split; [|apply separatedP_clip; exact M2].
      intros g0 Hg0. apply in_flat_map in Hg0 as (f0 & Hf0 & Hg0).
      destruct (frag_of_wf full_line f0 Wl (M1 f0 Hf0)) as [Wf _].
      destruct (clipW_out_ok a b f0 g0 Wf Hg0) as (Wg & Cg & Pg & B1 & B2 & _).
      destruct (M1 f0 Hf0) as (Pf & _). destruct Wg as (_ & Wg & _).
      destruct (canon_enc g0 Cg) as [E1 E2].
      split; [rewrite Pg, Pf; reflexivity|]. repeat split; try assumption; try apply E1; try apply E2. }
    rewrite (canonical_unique _ _ _ _ Hc1 Hc2); [apply Permutation_refl|].
    intros t Ht. destruct (compl_sweep_spec _ a b Hw S1 S3) as (_ & _ & C3).
    rewrite (C3 t Ht), clip_all_cover, M3.
    assert (Hin : inw a b t = true) by (apply inw_iff; exact Ht). rewrite Hin, andb_true_r.
    rewrite (clip_eq_cover env s a b t Hs Hin).
    assert (Hfl : inside full_line t = true).
    { unfold inside. change (fstart full_line) with NEG_INF. change (fend full_line) with POS_INF. lia. }
    rewrite Hfl. reflexivity.
  - (* Filt (Stored evs) *)
    rewrite fetch_filt, fetch_stored. cbn [ref].
    rewrite (flat_map_filter_skip2 (clipW a b) (feval env f) (in_range a b))
      by (intros x Hr; apply clip_out_of_range; exact Hr).
    rewrite (flat_map_filter_skip2 (clipW a b) (feval env f) pos_len)
      by (intros x Hp; apply clip_not_pos; exact Hp).
    apply Permutation_flat_map, Permutation_filter', sl_build_perm.
Qed.

(* ------------------------------------------------------------------------------------ *)
(* the window operand that [__getitem__] appends to an Intersection is neutral for the
   reference semantics *)

Lemma emit_sel_snoc masks : masks <> [] ->
  (forall i, (i < length masks)%nat -> emit_sel (masks ++ [true]) i = emit_sel masks i) /\
  emit_sel (masks ++ [true]) (length masks) = false.
Proof.
  intro Hne. assert (Hpos : (0 < length masks)%nat) by (destruct masks; [congruence|cbn [length]; lia]).
  unfold emit_sel. rewrite forallb_app, existsb_app. cbn [forallb existsb]. rewrite andb_true_r, orb_true_r.
  destruct (forallb (fun b => b) masks) eqn:Ea.
  - split; [reflexivity|]. destruct (length masks); [lia|reflexivity].
  - split.
    + intros i Hi. rewrite app_nth1 by exact Hi. destruct (existsb (fun b => b) masks) eqn:Ee; [reflexivity|].
      destruct (nth i masks false) eqn:En; [|reflexivity]. exfalso.
      assert (existsb (fun b => b) masks = true); [|congruence].
      apply existsb_exists. exists true. split; [|reflexivity]. rewrite <- En. apply nth_In. exact Hi.
    + rewrite app_nth2 by lia. rewrite Nat.sub_diag. reflexivity.
Qed.

Lemma choices_snoc (x : ivl) : forall L, choices (L ++ [[x]]) = map (fun cs => cs ++ [x]) (choices L).
Proof.
  induction L as [|l R IH]; [reflexivity|]. cbn [app choices]. rewrite IH.
  induction l as [|y r IHl]; [reflexivity|]. cbn [flat_map]. rewrite map_app, IHl, !map_map. reflexivity.
Qed.

Lemma tup_emit_snoc os oe sel sel' x : forall cs i,
  (forall j, (j < length cs)%nat -> sel' (i + j)%nat = sel (i + j)%nat) ->
  sel' (i + length cs)%nat = false ->
  tup_emit os oe sel' i (cs ++ [x]) = tup_emit os oe sel i cs.
Proof.
  induction cs as [|c r IH]; intros i Hs Hn.
  - cbn [app tup_emit length] in *. rewrite Nat.add_0_r in Hn. rewrite Hn. reflexivity.
  - cbn [app tup_emit length] in *.
    assert (H0 : sel' i = sel i) by (specialize (Hs O); rewrite Nat.add_0_r in Hs; apply Hs; lia).
    rewrite H0. f_equal. apply IH.
    + intros j Hj. specialize (Hs (S j)). rewrite Nat.add_succ_r in Hs. apply Hs. lia.
    + rewrite Nat.add_succ_r in Hn. exact Hn.
Qed.

Lemma max_start_snoc_full cs : cs <> [] -> Forall wf_ivl cs -> max_start (cs ++ [full_line]) = max_start cs.
Proof.
  intros Hne Hw. assert (Hne' : cs ++ [full_line] <> []) by (destruct cs; discriminate).
  destruct (max_start_in _ Hne') as (c' & Hc' & E'). destruct (max_start_in cs Hne) as (c0 & Hc0 & E0).
  pose proof (max_start_ge (cs ++ [full_line]) c0 (in_or_app _ _ _ (or_introl Hc0))) as B1.
  destruct (proj1 (Forall_forall _ _) Hw c0 Hc0) as (W0 & _).
  apply in_app_or in Hc' as [Hc'|[<-|[]]].
  - pose proof (max_start_ge cs c' Hc'). lia.
  - change (fstart full_line) with NEG_INF in E'. lia.
Qed.

Lemma min_end_snoc_full cs : cs <> [] -> Forall wf_ivl cs -> min_end (cs ++ [full_line]) = min_end cs.
Proof.
  intros Hne Hw. assert (Hne' : cs ++ [full_line] <> []) by (destruct cs; discriminate).
  destruct (min_end_in _ Hne') as (c' & Hc' & E'). destruct (min_end_in cs Hne) as (c0 & Hc0 & E0).
  pose proof (min_end_le (cs ++ [full_line]) c0 (in_or_app _ _ _ (or_introl Hc0))) as B1.
  destruct (proj1 (Forall_forall _ _) Hw c0 Hc0) as (_ & _ & W0 & _).
  apply in_app_or in Hc' as [Hc'|[<-|[]]].
  - pose proof (min_end_le cs c' Hc'). lia.
  - change (fend full_line) with POS_INF in E'. lia.
Qed.

Lemma pdisj_full : pdisj [full_line].
Proof.
  split; [constructor; [intros []|constructor]|].
  intros x y t [<-|[]] [<-|[]] _ _. reflexivity.
Qed.

Theorem inter_ref_solid_neutral masks Rs :
  Rs <> [] -> length masks = length Rs -> Forall (Forall wf_ivl) Rs -> Forall pdisj Rs ->
  Permutation (inter_ref (masks ++ [true]) (Rs ++ [[full_line]])) (inter_ref masks Rs).
Proof.
  intros Hne Hlen Hw Hp. rewrite !inter_ref_is_sel.
  assert (Hm : masks <> []) by (destruct masks, Rs; try congruence; discriminate).
  destruct (emit_sel_snoc masks Hm) as [Hs Hn].
  eapply Permutation_trans.
  { apply Permutation_sym, inter_ref_perm_p. apply Forall_app. split; [exact Hp|].
    constructor; [exact pdisj_full|constructor]. }
  eapply Permutation_trans; [|apply inter_ref_perm_p; exact Hp].
  unfold inter_ref'. rewrite choices_snoc, flat_map_comp.
  erewrite flat_map_ext_in; [apply Permutation_refl|].
  intros cs Hcs. apply choices_in in Hcs.
  assert (Hlc : length cs = length masks) by (rewrite Hlen; apply tuple_in_length; exact Hcs).
  assert (Hcne : cs <> []) by (destruct cs, masks; try congruence; discriminate).
  assert (Hcw : Forall wf_ivl cs).
  { clear - Hcs Hw. induction Hcs as [|c l cs L Hc _ IH]; [constructor|].
    inversion Hw as [|? ? Hwl HwL]; subst. constructor; [|exact (IH HwL)].
    exact (proj1 (Forall_forall _ _) Hwl c Hc). }
  unfold ref_tuple. rewrite (max_start_snoc_full cs Hcne Hcw), (min_end_snoc_full cs Hcne Hcw).
  destruct (max_start cs <? min_end cs); [|reflexivity].
  apply tup_emit_snoc.
  - intros j Hj. cbn [Nat.add]. apply Hs. lia.
  - cbn [Nat.add]. rewrite Hlc. exact Hn.
Qed.

(* ------------------------------------------------------------------------------------ *)
(* C02: a slice returns, up to order, exactly the events of the window-independent reference
   clipped to the window *)

Lemma good_operands_pdisj env es :
  Forall (good env) es -> Forall (dj env) es -> Forall pdisj (map (ref env) es).
Proof.
  intros Hgs Hdj. apply Forall_map_intro. rewrite Forall_forall in Hgs, Hdj. apply Forall_forall.
  intros s Hs. eapply pdisj_perm.
  - apply full_perm; [exact (Hgs s Hs)|]. exact (fetch_clip_exact env s (Hgs s Hs) None None wf_win_open).
  - apply pdisj_of_disjoint.
    + exact (proj1 (fetch_ok env s (Hgs s Hs) None None wf_win_open)).
    + exact (Hdj s Hs None None wf_win_open).
Qed.

Theorem slice_n_exact env e a b :
  good env e -> wf_win a b -> Permutation (slice_n env e a b) (expected env e a b).
Proof.
  intros Hg Hw.
  assert (Hcl : Permutation (fetch env (and_ e Solid) a b false) (expected env e a b)).
  { destruct (and_solid_cases e) as [(es & -> & E)| E].
    - pose proof (good_inter_solid env es Hg) as Hg'.
      destruct (fetch_ok env _ Hg' a b Hw) as (T1 & T2 & _).
      assert (Hin' : in_win_all a b (fetch env (Inter (es ++ [Solid])) a b false)).
      { intros x Hx. inv_good Hg. destruct es as [|e0 es]; [congruence|].
        cbn [app] in Hx. rewrite fetch_inter in Hx. apply inter_sweep_out in Hx as (_ & _ & Hxin).
        - destruct (Hxin [mkI a b Plain]) as (c & Hc & B1 & B2);
            [|destruct Hc as [<- | []]; exact (conj B1 B2)].
          change (e0 :: es ++ [Solid]) with ((e0 :: es) ++ [Solid]). rewrite map_app.
          apply in_or_app. right. left. reflexivity.
        - rewrite map_length. cbn [length]. rewrite app_length. cbn [length]. lia. }
      rewrite E. rewrite <- (clip_id_all a b _ T1 T2 Hin').
      eapply Permutation_trans; [exact (fetch_clip_exact env _ Hg' a b Hw)|].
      unfold expected. apply Permutation_flat_map. cbn [ref]. rewrite !map_app. cbn [map is_mask ref].
      inv_good Hg. apply inter_ref_solid_neutral.
      + destruct es; [congruence|discriminate].
      + rewrite !map_length. reflexivity.
      + apply Forall_map_intro. eapply Forall_impl; [|exact Hgs]. intros s Hs.
        exact (proj1 (good_ref_ok env s Hs)).
      + apply good_operands_pdisj; assumption.
    - rewrite E, fetch_clip. destruct (fetch_ok env e Hg a b Hw) as (_ & _ & T3 & _).
      rewrite (clip_sweep_masks _ _ a b T3). exact (fetch_clip_exact env e Hg a b Hw). }
  unfold slice_n. destruct a as [x|], b as [y|]; try exact Hcl.
  destruct (fetch_ok env e Hg None None Hw) as (S1 & S2 & _).
  rewrite <- (clip_id_all None None _ S1 S2 (in_win_open _ S1)).
  exact (fetch_clip_exact env e Hg None None Hw).
Qed.

Theorem C02_events_exact env e a b :
  good env e -> wf_win' a b ->
  Permutation (slice env e a b false)
              (expected env e (fst (norm_bounds a b)) (snd (norm_bounds a b))).
Proof. intros Hg Hw. rewrite slice_unfold. apply slice_n_exact; assumption. Qed.

(* the executable oracle of the harness accepts every slice of the domain *)
Corollary C02_oracle env e a b :
  good env e -> wf_win' a b ->
  mset_eqb (slice env e a b false)
           (expected env e (fst (norm_bounds a b)) (snd (norm_bounds a b))) = true.
Proof. intros Hg Hw. apply mset_eqb_iff, C02_events_exact; assumption. Qed.

(* with the fully open window the reference itself is returned *)
Corollary fetch_full_exact env e :
  good env e -> Permutation (fetch env e None None false) (ref env e).
Proof. intro Hg. apply full_perm; [exact Hg|]. exact (fetch_clip_exact env e Hg None None wf_win_open). Qed.

(* ------------------------------------------------------------------------------------ *)
(* C05: slicing a sub-window = clipping the slice of any enclosing window *)

Theorem C05_locality env e a1 b1 a2 b2 :
  good env e -> wf_win' a1 b1 -> wf_win' a2 b2 ->
  bnd_lo (fst (norm_bounds a1 b1)) <= bnd_lo (fst (norm_bounds a2 b2)) ->
  bnd_hi (snd (norm_bounds a2 b2)) <= bnd_hi (snd (norm_bounds a1 b1)) ->
  Permutation (slice env e a2 b2 false)
              (flat_map (clipW (fst (norm_bounds a2 b2)) (snd (norm_bounds a2 b2)))
                        (slice env e a1 b1 false)).
Proof.
  intros Hg Hw1 Hw2 Hlo Hhi.
  eapply Permutation_trans; [apply C02_events_exact; assumption|].
  rewrite (expected_local env e _ _ _ _ Hlo Hhi).
  apply Permutation_flat_map, Permutation_sym, C02_events_exact; assumption.
Qed.

(* ------------------------------------------------------------------------------------ *)
(* the one-operator instances over stored timelines *)

Definition stored_wf (A : list ivl) : Prop := Forall wf_ivl A /\ Forall canon_ivl A.

Lemma good_stored_list env As : Forall stored_wf As -> Forall (good env) (map Stored As).
Proof. intro H. apply Forall_map_intro. eapply Forall_impl; [|exact H]. intros A [Hw Hc]. apply g_stored; assumption. Qed.

Lemma dj_stored_list env As :
  Forall (fun A => disjoint_sorted (sl_build A)) As -> Forall (dj env) (map Stored As).
Proof. intro H. apply Forall_map_intro. eapply Forall_impl; [|exact H]. intros A Hd. apply dj_stored, Hd. Qed.

(* A1 | A2 | ... : no restriction on overlaps, nesting or duplicates *)
Corollary C02_union_stored env As a b :
  Forall stored_wf As -> wf_win' a b ->
  Permutation (slice env (Union (map Stored As)) a b false)
              (expected env (Union (map Stored As)) (fst (norm_bounds a b)) (snd (norm_bounds a b))).
Proof. intros H Hw. apply C02_events_exact; [|exact Hw]. apply g_union, good_stored_list, H. Qed.

Corollary C02_filt_stored env A f a b :
  stored_wf A -> wf_win' a b ->
  Permutation (slice env (Filt (Stored A) f) a b false)
              (expected env (Filt (Stored A) f) (fst (norm_bounds a b)) (snd (norm_bounds a b))).
Proof. intros [Hw Hc] Hwin. apply C02_events_exact; [|exact Hwin]. apply g_filt; assumption. Qed.

(* A - B1 - B2 ... with a non-overlapping source; the subtractors are arbitrary *)
Corollary C02_diff_stored env A Bs a b :
  stored_wf A -> disjoint_sorted (sl_build A) -> Forall stored_wf Bs -> wf_win' a b ->
  Permutation (slice env (Diff (Stored A) (map Stored Bs)) a b false)
              (expected env (Diff (Stored A) (map Stored Bs)) (fst (norm_bounds a b)) (snd (norm_bounds a b))).
Proof.
  intros [Hw Hc] Hd HB Hwin. apply C02_events_exact; [|exact Hwin].
  apply g_diff; [apply g_stored; assumption|apply good_stored_list, HB|apply dj_stored, Hd].
Qed.

(* A1 & A2 & ... with non-overlapping operands *)
Corollary C02_inter_stored env As a b :
  As <> [] -> Forall stored_wf As -> Forall (fun A => disjoint_sorted (sl_build A)) As -> wf_win' a b ->
  Permutation (slice env (Inter (map Stored As)) a b false)
              (expected env (Inter (map Stored As)) (fst (norm_bounds a b)) (snd (norm_bounds a b))).
Proof.
  intros Hne Hs Hd Hwin. apply C02_events_exact; [|exact Hwin].
  apply g_inter; [destruct As; [congruence|discriminate]|apply good_stored_list, Hs|apply dj_stored_list, Hd].
Qed.

(* ------------------------------------------------------------------------------------ *)
(* instances on the nested example of Proofs/Assembly.v *)

Module Examples2.
  Import Examples.

  Example e3_C02 :
    Permutation (slice env0 e3 (Some 40) (Some 1) false) (expected env0 e3 (Some 1) (Some 40)).
  Proof. exact (C02_events_exact env0 e3 (Some 40) (Some 1) e3_good win_ok). Qed.

  Example e3_C02_open : Permutation (slice env0 e3 None None false) (expected env0 e3 None None).
  Proof. exact (C02_events_exact env0 e3 None None e3_good win_open). Qed.

  (* top-level intersection: the window is flattened into the operand list *)
  Example e2_C02 :
    Permutation (slice env0 e2 (Some 1) (Some 17) false) (expected env0 e2 (Some 1) (Some 17)).
  Proof.
    apply (C02_events_exact env0 e2 (Some 1) (Some 17) e2_good).
    unfold wf_win', wf_win. cbn. unfold NEG_INF, POS_INF. repeat split; intros z E; injection E as <-; lia.
  Qed.

  Lemma win_small : wf_win' (Some 3) (Some 21).
  Proof. unfold wf_win', wf_win. cbn. unfold NEG_INF, POS_INF. repeat split; intros z E; injection E as <-; lia. Qed.

  Example e3_C05 :
    Permutation (slice env0 e3 (Some 3) (Some 21) false)
                (flat_map (clipW (Some 3) (Some 21)) (slice env0 e3 (Some 40) (Some 1) false)).
  Proof.
    apply (C05_locality env0 e3 (Some 40) (Some 1) (Some 3) (Some 21) e3_good win_ok win_small);
      cbn; lia.
  Qed.

  Example e3_C05_open :
    Permutation (slice env0 e3 (Some 3) (Some 21) false)
                (flat_map (clipW (Some 3) (Some 21)) (slice env0 e3 None None false)).
  Proof.
    apply (C05_locality env0 e3 None None (Some 3) (Some 21) e3_good win_open win_small);
      cbn; unfold NEG_INF, POS_INF; lia.
  Qed.
End Examples2.

Print Assumptions good_ref_ok.
Print Assumptions fetch_clip_exact.
Print Assumptions fetch_full_exact.
Print Assumptions inter_ref_perm_p.
Print Assumptions inter_ref_solid_neutral.
Print Assumptions slice_n_exact.
Print Assumptions C02_events_exact.
Print Assumptions C02_oracle.
Print Assumptions C05_locality.
Print Assumptions C02_union_stored.
Print Assumptions C02_filt_stored.
Print Assumptions C02_diff_stored.
Print Assumptions C02_inter_stored.
