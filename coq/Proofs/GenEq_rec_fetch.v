(* Proofs/GenEq_rec_fetch.v — tie C (third extension, tag rec): RecurringPattern.fetch, the public
   dispatcher, as generated from its source text (Gen/Source.v), composed with the generated
   _fetch_forward / _fetch_reverse / _get_safe_anchor (GenEq2.v), returns what the model's
   fetch_rec (Model/Recur.v) returns. *)
From CG Require Import Model.Loop Gen.Source Model.Recur.
From CG Require Import Proofs.GenEq2.
From Coq Require Import ZArith List Bool Lia.
Import ListNotations.
Local Open Scope Z_scope.

(* ------------------------------------------------------------------------------------------ *)
(* RecurringPattern.fetch: the dispatcher                                                      *)

Theorem g_recur_fetch_eq {R : Type} (fr ff : option Z -> option Z -> R) s e (rev : bool) :
  g_recur_fetch fr ff s e rev = if rev then fr s e else ff s e.
Proof. reflexivity. Qed.
Print Assumptions g_recur_fetch_eq.

(* the model's results as the generated functions give them *)
Definition res_of_fres (x : fres) : res (list ivl) :=
  match x with Ok l => RDone l | Raised => RRaise ValueError | OutOfFuel => RFuel end.

(* fetch() of the pattern [r] as the source has it: the translated dispatcher over the translated
   _fetch_reverse (which pages over the translated _fetch_forward) and the translated
   _fetch_forward (over the translated _get_safe_anchor and the model's rrule stream) *)
Definition g_fetch_of (r : rule) (a b : Z) (reverse : bool) : res (list ivl) :=
  g_recur_fetch
    (fun s e => g_recur_fetch_reverse (reverse_fuel r s b) (r_freq r) (gen_fwd r) s e)
    (fun s e => g_forward_of r (gen_anchor r) (model_rrule r b) s e)
    (Some a) (Some b) reverse.

(* HEADLINE: whenever the model's fetch (either direction) succeeds, the code's fetch returns the
   same list *)
Theorem g_recur_fetch_composed_eq (r : rule) (a b : Z) (reverse : bool) (l : list ivl) :
  fetch_rec r a b reverse = Ok l -> g_fetch_of r a b reverse = RDone l.
Proof.
  unfold fetch_rec, g_fetch_of. rewrite g_recur_fetch_eq. destruct reverse; intro H.
  - apply g_recur_fetch_reverse_composed_eq. exact H.
  - apply g_recur_fetch_forward_composed_eq. exact H.
Qed.
Print Assumptions g_recur_fetch_composed_eq.

(* bounds: a forward fetch without a start raises ValueError (through the dispatcher too) *)
Theorem g_recur_fetch_forward_needs_start (r : rule) (b : option Z) :
  g_recur_fetch (fun s e => g_recur_fetch_reverse O (r_freq r) (gen_fwd r) s e)
                (fun s e => g_forward_of r (gen_anchor r) (model_rrule r 0) s e) None b false
  = RRaise ValueError.
Proof. reflexivity. Qed.
Print Assumptions g_recur_fetch_forward_needs_start.

(* non-vacuity: the hypothesis holds on a concrete pattern, in both directions *)
Example g_recur_fetch_ex :
  exists l, fetch_rec ex_daily 1700000000 1700300000 false = Ok l /\ l <> [] /\
            fetch_rec ex_daily 1700000000 1700300000 true = Ok (rev l).
Proof. eexists. split; [vm_compute; reflexivity|]. split; [discriminate|vm_compute; reflexivity]. Qed.

