(* Proofs/PullP.v — C14: facts about the pull machines of Model/Pull.v.
   1. compose_no_pull          building a machine / creating the iterator reads nothing
   2. pull_noninterference     a run depends only on the prefix of each source it has read
   3. prefix_of_truncation     hence any truncation of the (infinite) sources that keeps the
                               read prefix gives the same first n results
   (refinement to the list model: Proofs/PullRefine.v) *)
From Coq Require Import Lia.
From CG Require Import Model.Pull.

(* ------------------------------------------------------------------------------------ *)
(* counters *)

Lemma cget_nil : forall id, cget [] id = O.
Proof. intros [|id]; reflexivity. Qed.

Lemma cget_craise : forall id c v j,
  cget (craise c id v) j = if Nat.eqb j id then Nat.max (cget c id) v else cget c j.
Proof.
  induction id as [|i IH]; intros c v j.
  - destruct c as [|x r]; destruct j as [|j]; simpl; try reflexivity.
    unfold cget; simpl. destruct j; reflexivity.
  - destruct c as [|x r]; destruct j as [|j]; simpl; try reflexivity.
    + change (cget (O :: craise [] i v) (S j)) with (cget (craise [] i v) j).
      rewrite IH, !cget_nil. reflexivity.
    + change (cget (x :: craise r i v) (S j)) with (cget (craise r i v) j).
      rewrite IH. reflexivity.
Qed.

Definition cle (c c' : cnts) : Prop := forall id, (cget c id <= cget c' id)%nat.

Lemma cle_refl : forall c, cle c c.
Proof. intros c id. lia. Qed.

Lemma cle_trans : forall a b c, cle a b -> cle b c -> cle a c.
Proof. intros a b c H1 H2 id. specialize (H1 id). specialize (H2 id). lia. Qed.

Lemma cle_craise : forall c id v, cle c (craise c id v).
Proof.
  intros c id v j. rewrite cget_craise. destruct (Nat.eqb j id) eqn:E; [|lia].
  apply Nat.eqb_eq in E. subst. lia.
Qed.

Lemma craise_reads : forall c id k, (k < cget (craise c id (S k)) id)%nat.
Proof. intros. rewrite cget_craise, Nat.eqb_refl. lia. Qed.

(* ------------------------------------------------------------------------------------ *)
(* generic facts about programs *)

Lemma exec_mono : forall A (p : prog A) o c a c', exec o c p = Some (a, c') -> cle c c'.
Proof.
  induction p as [a0| |id k cont IH]; simpl; intros o c a c' H.
  - inversion H; subst. apply cle_refl.
  - discriminate.
  - eapply cle_trans; [apply cle_craise|]. eapply IH; eauto.
Qed.

(* two oracle families that agree on the prefixes counted by c *)
Definition agree (c : cnts) (o1 o2 : oenv) : Prop :=
  forall id k, (k < cget c id)%nat -> o1 id k = o2 id k.

Lemma exec_agree : forall A (p : prog A) o1 o2 c a c',
  exec o1 c p = Some (a, c') -> agree c' o1 o2 -> exec o2 c p = Some (a, c').
Proof.
  induction p as [a0| |id k cont IH]; simpl; intros o1 o2 c a c' H Hag.
  - exact H.
  - discriminate.
  - assert (Hk : o1 id k = o2 id k).
    { apply Hag. pose proof (exec_mono _ _ _ _ _ _ H id) as Hm.
      pose proof (craise_reads c id k). lia. }
    rewrite <- Hk. eapply IH; eauto.
Qed.

Lemma exec_run : forall A (p : prog A) o c a c', exec o c p = Some (a, c') -> run o p = Some a.
Proof.
  induction p as [a0| |id k cont IH]; simpl; intros o c a c' H.
  - inversion H; reflexivity.
  - discriminate.
  - eapply IH; eauto.
Qed.

Lemma run_exec : forall A (p : prog A) o c a, run o p = Some a -> exists c', exec o c p = Some (a, c').
Proof.
  induction p as [a0| |id k cont IH]; simpl; intros o c a H.
  - inversion H; subst. eauto.
  - discriminate.
  - eapply IH; eauto.
Qed.

Lemma run_bind : forall A B (p : prog A) (f : A -> prog B) o,
  run o (bind p f) = match run o p with Some a => run o (f a) | None => None end.
Proof.
  induction p as [a0| |id k cont IH]; simpl; intros f o; try reflexivity. apply IH.
Qed.

(* ------------------------------------------------------------------------------------ *)
(* 1. composing performs no pull: [compile]/[pslice] are pure functions of the expression and
   the window (no oracle, no counters); the machine they return has not started (UInit,
   IInit, DInit, CRun with nothing read), and taking zero items leaves every counter as it
   was, for every oracle *)
Theorem compose_no_pull : forall fuel env o e a b c,
  take fuel env o 0 (pslice e a b) c = Some ([], false, pslice e a b, c).
Proof. reflexivity. Qed.

(* 2. the outputs, the final machine and the final counters of [take n] depend only on the
   prefix of each source that was read *)
Theorem pull_noninterference : forall fuel env o1 o2 n m c outs fin m' c',
  take fuel env o1 n m c = Some (outs, fin, m', c') ->
  agree c' o1 o2 ->
  take fuel env o2 n m c = Some (outs, fin, m', c').
Proof. unfold take. intros. eapply exec_agree; eauto. Qed.

(* and the counters only grow: what has been read stays read *)
Theorem take_counters_grow : forall fuel env o n m c r c',
  take fuel env o n m c = Some (r, c') -> cle c c'.
Proof. unfold take. intros. eapply exec_mono; eauto. Qed.

(* 3. truncating every source after the prefix that was read (an infinite recurring source
   becomes a finite one) changes nothing *)
Definition truncate (c : cnts) (o : oenv) : oenv :=
  fun id k => if (k <? cget c id)%nat then o id k else None.

Lemma agree_truncate : forall c c' o, cle c c' -> agree c o (truncate c' o).
Proof.
  intros c c' o Hle id k Hk. unfold truncate.
  destruct (k <? cget c' id)%nat eqn:E; [reflexivity|].
  apply Nat.ltb_ge in E. specialize (Hle id). lia.
Qed.

Theorem prefix_of_truncation : forall fuel env o n m c outs fin m' c' cb,
  take fuel env o n m c = Some (outs, fin, m', c') ->
  cle c' cb ->
  take fuel env (truncate cb o) n m c = Some (outs, fin, m', c').
Proof.
  intros. eapply pull_noninterference; eauto. apply agree_truncate; assumption.
Qed.
