(* Proofs/GenEq_small_tr.v — tie C, third extension (tag "small"), the part for C17: transform.py's
   _Buffered.__init__, _MergedWithin.__init__, _MergedWithin.fetch (the reverse branch around
   _fetch_forward), buffer() and merge_within(), as generated from their source text (Gen/Source.v),
   against Model/Expr.v (Buf, MergeW, fetch) and Model/Slice.v (buffer_, buffer_chain). *)
From CG Require Import Model.Slice Model.Cache Model.Loop Model.Small Gen.Source Proofs.GenEq.
From Coq Require Import Lia.

(* the error type of Model/Slice.v inside the result type of the generated definitions *)
Definition res_of_err {A : Type} (x : pyerr + A) : res A :=
  match x with
  | inl Slice.TypeError => RRaise Loop.TypeError
  | inl Slice.ValueError => RRaise Loop.ValueError
  | inr a => RDone a
  end.
Definition res_map {A B : Type} (f : A -> B) (r : res A) : res B := res_bind r (fun a => RDone (f a)).

(* ---- the constructors ---- *)
Theorem g_buffered_init_eq : forall (TL : Type) (s : TL) b a, g_buffered_init s b a = mkBuf s b a.
Proof. reflexivity. Qed.
Theorem g_merged_init_eq : forall (TL : Type) (s : TL) g, g_merged_init s g = mkMW s g.
Proof. reflexivity. Qed.

(* ---- buffer(): negative amounts are a ValueError, otherwise the node Buf e before after ---- *)
Theorem g_buffer_eq : forall e b a, res_map buf_expr (g_buffer e b a) = res_of_err (buffer_ e b a).
Proof.
  intros e b a. unfold g_buffer, buffer_.
  destruct (b <? 0); [reflexivity|]. destruct (a <? 0); reflexivity.
Qed.
Print Assumptions g_buffer_eq.

Theorem g_buffer_rejects_negative : forall (TL : Type) (e : TL) b a,
  b < 0 \/ a < 0 -> g_buffer e b a = RRaise ValueError.
Proof.
  intros TL e b a H. unfold g_buffer.
  destruct (b <? 0) eqn:Eb; [reflexivity|]. destruct (a <? 0) eqn:Ea; [reflexivity|lia].
Qed.
Print Assumptions g_buffer_rejects_negative.

Theorem g_buffer_accepts : forall (TL : Type) (e : TL) b a,
  0 <= b -> 0 <= a -> g_buffer e b a = RDone (mkBuf e b a).
Proof.
  intros TL e b a Hb Ha. unfold g_buffer.
  destruct (b <? 0) eqn:Eb; [lia|]. destruct (a <? 0) eqn:Ea; [lia|reflexivity].
Qed.
Print Assumptions g_buffer_accepts.

(* buffer(buffer(.. e ..)): the chain of Model/Slice.v, run with the generated buffer() at every level *)
Fixpoint g_buffer_chain (e : expr) (amts : list (Z * Z)) : res expr :=
  match amts with
  | [] => RDone e
  | (b, a) :: r => res_bind (g_buffer e b a) (fun o => g_buffer_chain (buf_expr o) r)
  end.
Theorem g_buffer_chain_eq : forall amts e, g_buffer_chain e amts = res_of_err (buffer_chain e amts).
Proof.
  induction amts as [|[b a] r IH]; intro e; cbn [g_buffer_chain buffer_chain]; [reflexivity|].
  unfold g_buffer, buffer_.
  destruct (b <? 0); [reflexivity|]. destruct (a <? 0); [reflexivity|].
  cbn [orb res_bind]. apply IH.
Qed.
Print Assumptions g_buffer_chain_eq.

(* ---- merge_within(): the node MergeW e gap (no validation of the gap) ---- *)
Theorem g_merge_within_eq : forall e g, mw_expr (g_merge_within e g) = MergeW e g.
Proof. reflexivity. Qed.
Print Assumptions g_merge_within_eq.

(* ---- _MergedWithin.fetch: forward = _fetch_forward, reverse = its reversed list ---- *)
Theorem g_merged_fetch_eq : forall src g a b rv,
  g_merged_fetch src g a b rv = if rv then rev (mw g (src a b false)) else mw g (src a b false).
Proof. intros. unfold g_merged_fetch. rewrite g_merged_fetch_forward_eq. reflexivity. Qed.
Print Assumptions g_merged_fetch_eq.

(* ---- the whole path: the object buffer() / merge_within() builds, fetched with the generated fetch of
   its class reading the object's own fields, is the model's fetch of the node ---- *)
Theorem g_merge_within_fetch_is_model : forall env e g a b rv,
  let o := g_merge_within e g in
  g_merged_fetch (fetch env (mw_source o)) (mw_gap o) a b rv = fetch env (MergeW e g) a b rv.
Proof. intros. cbv zeta. rewrite g_merged_fetch_eq. cbn [g_merge_within g_merged_init mw_source mw_gap fetch]. reflexivity. Qed.
Print Assumptions g_merge_within_fetch_is_model.

Theorem g_buffer_fetch_is_model : forall env e bf af o a b rv,
  g_buffer e bf af = RDone o ->
  g_buffered_fetch (fetch env (bf_source o)) (bf_before o) (bf_after o) a b rv = fetch env (Buf e bf af) a b rv.
Proof.
  intros env e bf af o a b rv H. unfold g_buffer in H.
  destruct (bf <? 0); [discriminate|]. destruct (af <? 0); [discriminate|].
  injection H as <-. rewrite g_buffered_fetch_eq. reflexivity.
Qed.
Print Assumptions g_buffer_fetch_is_model.

Example g_buffer_fetch_nonvacuous :
  g_buffer (Stored [mkI (Some 10) (Some 20) (Rich 1)]) 3 4 = RDone (mkBuf (Stored [mkI (Some 10) (Some 20) (Rich 1)]) 3 4) /\
  fetch [] (Buf (Stored [mkI (Some 10) (Some 20) (Rich 1)]) 3 4) (Some 0) (Some 100) false = [mkI (Some 7) (Some 24) (Rich 1)] /\
  g_buffer Solid (-1) 0 = RRaise ValueError /\ g_buffer Solid 0 (-1) = RRaise ValueError /\
  g_buffer_chain Solid [(1, 2); (0, -3); (4, 4)] = RRaise ValueError /\
  g_buffer_chain Solid [(1, 2); (0, 3)] = RDone (Buf (Buf Solid 1 2) 0 3).
Proof. vm_compute. repeat split. Qed.
