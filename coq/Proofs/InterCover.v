(* Proofs/InterCover.v — coverage completeness of the intersection sweep (Model/Sweeps.v,
   inter_loop) on k >= 2 operand streams that are merely sorted by start: the operands may be
   internally overlapping, nested, duplicated, adjacent or unbounded.

   Proofs/InterDisjoint.v proves the same equation under [disjoint_sorted]; here the hypothesis
   is weakened to [sorted_start].  The sweep keeps one current event per operand and may skip
   whole events of an operand, but it never loses a covered instant:

   Fix an instant t covered by every operand and call an operand "available" when its current
   event or one of its unread events contains t ([inT] of InterDisjoint.v).  While every operand
   is available, every current event starts at or before t (streams sorted by start), so the
   overlap region [os, oe) has os <= t.
     - If oe <= t, some operand attains the minimal end oe <= t.  It cannot be exhausted (an
       exhausted operand has nothing unread and its current event ends at oe <= t, so it would
       not be available); hence the ends-at rule fires on a non-exhausted operand whose current
       event ends at oe <= t; that event does not contain t, so the operand has an unread event
       containing t and stays available after moving on.  The stalled rule (the only one that
       can drop an event containing t) never fires here.  Cutoffs remembered in this iteration
       equal oe <= t.
     - If t < oe, the region contains t and is emitted right now by every selected operand not
       already processed at cutoff oe.  If every selected operand was already processed at oe,
       some selected operand remembers a cutoff > t; but every earlier iteration had a cutoff
       <= t (otherwise the argument would have stopped there), so no such remembered cutoff
       exists.
   The induction below carries exactly this: either the future output covers t, or some selected
   operand remembers a cutoff > t ([done_after]); the latter is false in the initial states. *)
From CG Require Import Proofs.Defs.
From CG Require Import Proofs.InterDisjoint.

(* ------------------------------------------------------------------------------------ *)
(* the per-operand invariant: sorted by start only — no disjointness, no well-formedness *)

Definition st_srt (s : sstate) : Prop :=
  exists c, cur s = Some c /\ sorted_start (c :: rest s) /\ (exh s = true -> rest s = []).

Lemma st_srt_emit oe s s1 : emit_rel oe s s1 -> st_srt s -> st_srt s1.
Proof. intros (E1 & E2 & E3 & _) H. unfold st_srt. rewrite E1, E2, E3. exact H. Qed.

Lemma st_srt_advance s : st_srt s -> st_srt (fst (advance s)).
Proof.
  intros (c & Hc & Hs & Hx). unfold advance. destruct (exh s) eqn:He; cbn [fst].
  - exists c. rewrite He. auto.
  - destruct (rest s) as [|x r] eqn:Er; cbn [fst]; unfold st_srt; cbn [cur rest exh].
    + exists c. split; [exact Hc|]. split; [exact Hs|reflexivity].
    + exists x. split; [reflexivity|]. split; [|discriminate]. destruct Hs as [_ Hs]. exact Hs.
Qed.

Lemma st_srt_init l : l <> [] -> sorted_start l -> st_srt (init_state l).
Proof.
  intros Hn Hs. destruct l as [|x r]; [congruence|].
  exists x. unfold init_state, advance. cbn [exh rest fst cur].
  split; [reflexivity|]. split; [exact Hs|discriminate].
Qed.

Lemma init_srt streams :
  Forall (fun l => l <> []) streams -> Forall sorted_start streams ->
  Forall st_srt (map init_state streams).
Proof.
  induction streams as [|l r IH]; intros Hn Hs; cbn [map]; [constructor|].
  inversion Hn; subst. inversion Hs; subst. constructor; [apply st_srt_init; assumption|auto].
Qed.

Lemma all_cur_srt : forall ss, Forall st_srt ss -> exists act, all_cur ss = Some act.
Proof.
  induction 1 as [|s r (c & Hc & _) _ [act IH]]; [exists []; reflexivity|].
  exists (c :: act). rewrite all_cur_cons, Hc, IH. reflexivity.
Qed.

(* ------------------------------------------------------------------------------------ *)
(* availability: consequences of [inT] on start-sorted operands *)

(* while every operand is available, the overlap region starts at or before t *)
Lemma inT_start ss act t :
  Forall st_srt ss -> all_cur ss = Some act -> act <> [] -> inT ss t = true -> max_start act <= t.
Proof.
  intros Hok Ha Hn HT. destruct (max_start_in act Hn) as (c & Hc & <-).
  destruct (all_cur_In_inv ss act c Ha Hc) as (s & Hs & Hcs).
  rewrite Forall_forall in Hok. destruct (Hok s Hs) as (c' & Hc' & Hso & _).
  rewrite Hcs in Hc'. injection Hc' as <-.
  pose proof (inT_In ss s t HT Hs) as Hcov. unfold remaining in Hcov. rewrite Hcs in Hcov.
  apply (covers_sorted_ge c (rest s) t Hso Hcov).
Qed.

(* an exhausted operand is available only strictly before the end of its current event *)
Lemma inT_exh ss m c t :
  Forall st_srt ss -> In m ss -> cur m = Some c -> exh m = true -> inT ss t = true -> t < fend c.
Proof.
  intros Hok Hm Hc He HT. rewrite Forall_forall in Hok.
  destruct (Hok m Hm) as (c' & _ & _ & Hex). pose proof (inT_In ss m t HT Hm) as Hcov.
  unfold remaining in Hcov. rewrite Hc, (Hex He), covers_cons, covers_nil, orb_false_r in Hcov.
  unfold inside in Hcov. lia.
Qed.

(* if the ends-at rule cannot fire, no instant at or after the cutoff is available everywhere *)
Lemma inT_no_ends ss act t :
  Forall st_srt ss -> all_cur ss = Some act -> act <> [] ->
  (forall s, In s ss -> ends_at (min_end act) s = false) -> inT ss t = true -> t < min_end act.
Proof.
  intros Hok Ha Hn Hno HT.
  destruct (exhausted_at_cutoff ss act Ha Hn Hno) as (m & c & Hm & Hcm & Hfe & Hex).
  rewrite <- Hfe. eapply inT_exh; eauto.
Qed.

(* the operand advanced by the ends-at rule at a cutoff <= t stays available *)
Lemma inT_advance_ends l1 s l2 oe t :
  exh s = false -> ends_at oe s = true -> oe <= t ->
  inT (l1 ++ s :: l2) t = true -> inT (l1 ++ fst (advance s) :: l2) t = true.
Proof.
  intros He Hends Hle HT. rewrite inT_app, inT_cons in *.
  apply andb_true_iff in HT as [T1 T2]. apply andb_true_iff in T2 as [Ts T2].
  rewrite T1, T2, andb_true_r. cbn [andb].
  unfold ends_at in Hends. destruct (cur s) as [c|] eqn:Ec; [|discriminate].
  unfold remaining in Ts. rewrite Ec, covers_cons in Ts.
  assert (Hi : inside c t = false) by (unfold inside; lia).
  rewrite Hi in Ts. cbn [orb] in Ts.
  unfold advance. rewrite He. destruct (rest s) as [|x r] eqn:Er; [rewrite covers_nil in Ts; discriminate|].
  cbn [fst]. unfold remaining. cbn [cur rest]. exact Ts.
Qed.

(* ------------------------------------------------------------------------------------ *)
(* remembered cutoffs after t *)

Definition done_after (sel : nat -> bool) (ss : list sstate) (t : Z) : Prop :=
  exists i s p, nth_error ss i = Some s /\ sel i = true /\ lpc s = Some p /\ t < p.

Lemma Forall2_nth_right {A B} (R : A -> B -> Prop) : forall la lb i b,
  Forall2 R la lb -> nth_error lb i = Some b -> exists a, nth_error la i = Some a /\ R a b.
Proof.
  intros la lb i b H. revert i. induction H as [|a0 b0 la lb Hab Hl IH]; intros i Hn.
  - destruct i; discriminate.
  - destruct i as [|i]; cbn [nth_error] in *.
    + injection Hn as <-. exists a0. auto.
    + apply IH; exact Hn.
Qed.

Lemma nth_error_mid {A} (l1 : list A) a l2 : nth_error (l1 ++ a :: l2) (length l1) = Some a.
Proof. rewrite nth_error_app2 by lia. rewrite Nat.sub_diag. reflexivity. Qed.

Lemma nth_error_replace_ne {A} (l1 : list A) a b l2 i :
  i <> length l1 -> nth_error (l1 ++ a :: l2) i = nth_error (l1 ++ b :: l2) i.
Proof.
  intro Hne. destruct (Nat.lt_ge_cases i (length l1)) as [Hlt|Hge].
  - rewrite !nth_error_app1 by exact Hlt. reflexivity.
  - rewrite !nth_error_app2 by exact Hge.
    destruct (i - length l1)%nat as [|k] eqn:Ek; [lia|]. reflexivity.
Qed.

(* a cutoff > t remembered after the emission phase at a cutoff oe <= t was remembered before *)
Lemma done_after_emit sel oe ss ss1 t :
  Forall2 (emit_rel oe) ss ss1 -> oe <= t -> done_after sel ss1 t -> done_after sel ss t.
Proof.
  intros E Hle (i & s1 & p & Hn & Hs & Hp & Hlt).
  destruct (Forall2_nth_right _ _ _ _ _ E Hn) as (s & Hns & (_ & _ & _ & Hl)).
  exists i, s, p. split; [exact Hns|]. split; [exact Hs|]. split; [|exact Hlt].
  destruct Hl as [Hl|Hl]; rewrite Hl in Hp; [exact Hp|]. injection Hp as <-. lia.
Qed.

(* ... and it is not the cutoff of the operand that moved to its next event *)
Lemma done_after_advance sel l1 s l2 t :
  lpc (fst (advance s)) = None \/ lpc (fst (advance s)) = lpc s ->
  done_after sel (l1 ++ fst (advance s) :: l2) t -> done_after sel (l1 ++ s :: l2) t.
Proof.
  intros Hl (i & s' & p & Hn & Hs & Hp & Hlt).
  destruct (Nat.eq_dec i (length l1)) as [->|Hne].
  - rewrite nth_error_mid in Hn. injection Hn as <-.
    destruct Hl as [Hl|Hl]; rewrite Hl in Hp; [discriminate|].
    exists (length l1), s, p. rewrite nth_error_mid. auto.
  - exists i, s', p. rewrite (nth_error_replace_ne l1 s (fst (advance s)) l2 i Hne). auto.
Qed.

Lemma advance_lpc s : lpc (fst (advance s)) = None \/ lpc (fst (advance s)) = lpc s.
Proof.
  unfold advance. destruct (exh s); [right; reflexivity|].
  destruct (rest s); cbn [fst lpc]; [right|left]; reflexivity.
Qed.

(* every selected operand already processed at oe > t: one of them remembers a cutoff > t *)
Lemma sel_done_after sel ss oe t :
  has_sel sel (length ss) -> sel_done oe sel 0 ss = true -> t < oe -> done_after sel ss t.
Proof.
  intros (i & Hi & Hs) Hd Hlt.
  destruct (nth_error ss i) as [s|] eqn:En; [|apply nth_error_None in En; lia].
  pose proof (sel_done_nth oe sel ss O i s Hd En Hs) as Hlp.
  unfold lpc_is in Hlp. destruct (lpc s) as [p|] eqn:Ep; [|discriminate].
  exists i, s, p. split; [exact En|]. split; [exact Hs|]. split; [exact Ep|]. lia.
Qed.

(* ------------------------------------------------------------------------------------ *)
(* the loop invariant *)

Lemma loop_cover_sorted sel t : forall f ss out,
  has_sel sel (length ss) -> Forall st_srt ss -> inT ss t = true ->
  inter_loop f sel ss = Some out ->
  covers out t = true \/ done_after sel ss t.
Proof.
  induction f as [|f IH]; intros ss out Hsel Hok HT H; [discriminate|].
  destruct (all_cur_srt ss Hok) as [act Ha].
  destruct (loop_step f sel ss act out Ha H) as (ss1 & out1 & E1 & Hcase). cbv zeta in *.
  set (os := max_start act) in *. set (oe := min_end act) in *.
  destruct (emit_phase_cover os oe sel ss act ss1 out1 Ha E1) as [Hc1 _].
  apply emit_phase in E1 as [E1 _].
  assert (Hn : act <> []).
  { intro Hnil. apply all_cur_length in Ha. rewrite Hnil in Ha. cbn [length] in Ha.
    destruct Hsel as (i & Hi & _). lia. }
  pose proof (inT_start ss act t Hok Ha Hn HT) as Hos. fold os in Hos.
  destruct (Z.lt_ge_cases t oe) as [Hlt|Hge].
  - (* the present region contains t *)
    destruct (sel_done oe sel 0 ss) eqn:Ed.
    + right. apply (sel_done_after sel ss oe t Hsel Ed Hlt).
    + left. assert (Ho1 : covers out1 t = true).
      { rewrite Hc1. rewrite ?Ed. cbn [negb]. rewrite andb_true_r. lia. }
      destruct Hcase as [[-> _]|(l1 & s & l2 & o & _ & _ & _ & -> & _)]; [exact Ho1|].
      rewrite covers_app, Ho1. reflexivity.
  - (* the present cutoff is at or before t: the ends-at rule must fire *)
    assert (Hok1 : Forall st_srt ss1).
    { eapply Forall_emit_rel; [|exact E1|exact Hok]. intros; eapply st_srt_emit; eauto. }
    assert (Ha1 : all_cur ss1 = Some act) by (rewrite (emit_rel_all_cur _ _ _ E1); exact Ha).
    assert (HT1 : inT ss1 t = true) by (rewrite (inT_emit oe ss ss1 t E1); exact HT).
    assert (Hlen1 : length ss1 = length ss) by (symmetry; eapply Forall2_len; exact E1).
    assert (Hstop : (forall s0, In s0 ss1 -> ends_at oe s0 = false) -> False).
    { intro Hno. pose proof (inT_no_ends ss1 act t Hok1 Ha1 Hn Hno HT1) as Hc. fold oe in Hc. lia. }
    destruct Hcase as [[_ Hno]|(l1 & s & l2 & o & -> & He & Hloop & -> & Hwhy)]; [destruct (Hstop Hno)|].
    destruct Hwhy as [Hends|[_ Hno]]; [|destruct (Hstop Hno)].
    assert (Hsel3 : has_sel sel (length (l1 ++ fst (advance s) :: l2))).
    { rewrite app_length in *. cbn [length] in *. rewrite <- Hlen1 in Hsel. exact Hsel. }
    assert (Hok3 : Forall st_srt (l1 ++ fst (advance s) :: l2)).
    { eapply Forall_replace; [exact Hok1|]. apply st_srt_advance.
      apply Forall_app in Hok1 as [_ Hok1]. inversion Hok1; subst; assumption. }
    pose proof (inT_advance_ends l1 s l2 oe t He Hends Hge HT1) as HT3.
    destruct (IH _ _ Hsel3 Hok3 HT3 Hloop) as [Ho|Hd].
    + left. rewrite covers_app, Ho. apply orb_true_r.
    + right. apply (done_after_emit sel oe ss (l1 ++ s :: l2) t E1 Hge).
      apply (done_after_advance sel l1 s l2 t (advance_lpc s) Hd).
Qed.

(* ------------------------------------------------------------------------------------ *)
(* the theorem *)

Lemma done_after_init sel streams t : ~ done_after sel (map init_state streams) t.
Proof.
  intros (i & s & p & Hn & _ & Hp & _). apply nth_error_In in Hn.
  apply in_map_iff in Hn as (l & <- & _). rewrite init_lpc in Hp. discriminate.
Qed.

(* completeness direction alone: every instant covered by all operands is emitted *)
Theorem inter_sweep_complete_sorted streams sel t :
  (2 <= length streams)%nat -> Forall sorted_start streams ->
  (exists i, (i < length streams)%nat /\ sel i = true) ->
  forallb (fun l => covers l t) streams = true -> covers (inter_sweep streams sel) t = true.
Proof.
  intros Hk Hso Hsel Eall.
  assert (Hne : Forall (fun l => l <> []) streams).
  { rewrite forallb_forall in Eall. apply Forall_forall. intros l Hl ->.
    specialize (Eall [] Hl). discriminate. }
  unfold inter_sweep. rewrite (inter_sweep_opt_nonempty streams sel Hk Hne).
  destruct (loop_total sel (S (ss_measure (map init_state streams))) (map init_state streams))
    as [o Ho]; [lia|].
  rewrite Ho.
  assert (Hsel' : has_sel sel (length (map init_state streams))) by (rewrite map_length; exact Hsel).
  assert (HT : inT (map init_state streams) t = true) by (rewrite inT_init; exact Eall).
  destruct (loop_cover_sorted sel t _ _ o Hsel' (init_srt streams Hne Hso) HT Ho) as [Hc|Hd];
    [exact Hc|].
  destruct (done_after_init sel streams t Hd).
Qed.

Theorem inter_sweep_cover_sorted streams sel :
  (2 <= length streams)%nat -> Forall (Forall wf_ivl) streams -> Forall sorted_start streams ->
  (exists i, (i < length streams)%nat /\ sel i = true) ->
  forall t, covers (inter_sweep streams sel) t = forallb (fun l => covers l t) streams.
Proof.
  intros Hk _ Hso Hsel t.
  destruct (forallb (fun l => covers l t) streams) eqn:Eall.
  - apply inter_sweep_complete_sorted; assumption.
  - destruct (covers (inter_sweep streams sel) t) eqn:Ec; [|reflexivity].
    apply covers_true_iff in Ec as (x & Hx & Hi).
    destruct (inter_sweep_sound_cover streams sel x Hk Hx) as (_ & _ & Hall).
    rewrite (Hall t Hi) in Eall. discriminate.
Qed.

Print Assumptions inter_sweep_complete_sorted.
Print Assumptions inter_sweep_cover_sorted.
