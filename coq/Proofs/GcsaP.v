(* Proofs/GcsaP.v — theorems about Model/Gcsa.v for C20. *)
From CG Require Import Model.Gcsa Spec.GuardDiscipline Proofs.CivilP.
From Coq Require Import Lia Sorting.Sorted Sorting.Permutation.

Local Open Scope list_scope.
Local Open Scope Z_scope.

(* ========================================================================================== *)
(* 1. the reverse pager, abstractly                                                            *)

Section PagerProof.
  Context {A : Type} (sA eA : A -> Z).

  Definition sortedA (l : list A) : Prop := StronglySorted (fun a b => sA a <= sA b) l.

  Lemma filter_none (g : A -> bool) (l : list A) : (forall x, In x l -> g x = false) -> filter g l = [].
  Proof.
    induction l as [|x r IH]; simpl; intro H; [reflexivity|].
    rewrite (H x (or_introl eq_refl)). apply IH. intros y Hy. apply H. right; exact Hy.
  Qed.

  Lemma filter_filter_and (f g : A -> bool) (l : list A) :
    filter f (filter g l) = filter (fun x => g x && f x) l.
  Proof.
    induction l as [|x r IH]; simpl; [reflexivity|].
    destruct (g x); simpl; [destruct (f x)|]; rewrite IH; reflexivity.
  Qed.

  Lemma filter_all_ext (g h : A -> bool) (l : list A) :
    (forall x, In x l -> g x = h x) -> filter g l = filter h l.
  Proof. apply filter_ext_in. Qed.

  (* a list sorted by start splits at any threshold *)
  Lemma sorted_split (g : A -> bool) (t : Z) (l : list A) :
    sortedA l ->
    filter g l = filter (fun x => g x && (sA x <? t)) l ++ filter (fun x => g x && (t <=? sA x)) l.
  Proof.
    induction l as [|x r IH]; intro S; [reflexivity|].
    inversion S as [|? ? Sr Hall]; subst.
    destruct (Z.ltb_spec (sA x) t) as [Hlt|Hge].
    - simpl. replace (sA x <? t) with true by (symmetry; apply Z.ltb_lt; exact Hlt).
      replace (t <=? sA x) with false by (symmetry; apply Z.leb_gt; exact Hlt).
      rewrite !andb_true_r, andb_false_r.
      destruct (g x); simpl; rewrite (IH Sr); reflexivity.
    - (* everything from x on is >= t *)
      assert (Hr : forall y, In y (x :: r) -> t <= sA y).
      { intros y [<-|Hy]; [exact Hge|]. rewrite Forall_forall in Hall. specialize (Hall y Hy). lia. }
      rewrite (filter_none (fun y => g y && (sA y <? t)) (x :: r)).
      + rewrite app_nil_l. apply filter_all_ext. intros y Hy.
        replace (t <=? sA y) with true by (symmetry; apply Z.leb_le; apply Hr; exact Hy).
        rewrite andb_true_r. reflexivity.
      + intros y Hy. replace (sA y <? t) with false by (symmetry; apply Z.ltb_ge; apply Hr; exact Hy).
        apply andb_false_r.
  Qed.

  Definition below (end_ cur : Z) (x : A) : bool := (sA x <? cur) || (cur =? end_).

  (* one page of the repaired pager = the events of the range that start in the page (the oldest
     page also takes the earlier ones); empty events included *)
  Lemma page_is_segment (start end_ ws cur : Z) (x : A) :
    start <= ws -> ws < cur -> cur <= end_ -> sA x <= eA x ->
    overlaps sA eA (if ws =? start then ws else ws - 1) cur x && keep_in_page start end_ ws cur (sA x) =
    overlaps sA eA start end_ x && below end_ cur x && ((ws <=? sA x) || (ws =? start)).
  Proof.
    intros H1 H2 H3 Hpos. unfold overlaps, keep_in_page, below.
    destruct (Z.eqb_spec ws start);
    [destruct (Z.ltb_spec ws (eA x)) | destruct (Z.ltb_spec (ws - 1) (eA x))];
      destruct (Z.ltb_spec (sA x) cur); destruct (Z.eqb_spec cur end_);
      destruct (Z.leb_spec ws (sA x));
      destruct (Z.ltb_spec start (eA x)); destruct (Z.ltb_spec (sA x) end_); simpl; try reflexivity; lia.
  Qed.

  Lemma pager_spec (W start end_ : Z) (evs : list A) :
    0 < W -> sortedA evs -> (forall x, In x evs -> sA x <= eA x) ->
    forall fuel cur, start < cur -> cur <= end_ -> cur - start <= Z.of_nat fuel * W ->
      pager sA eA fuel W evs start end_ cur =
      rev (filter (fun x => overlaps sA eA start end_ x && below end_ cur x) evs).
  Proof.
    intros HW Hs Hpos. induction fuel as [|f IH]; intros cur Hc1 Hc2 Hf.
    - simpl in Hf. lia.
    - simpl pager. replace (start <? cur) with true by (symmetry; apply Z.ltb_lt; exact Hc1).
      set (ws := Z.max start (cur - W)).
      assert (Hws1 : start <= ws) by (unfold ws; lia).
      assert (Hws2 : ws < cur) by (unfold ws; lia).
      (* the page *)
      rewrite filter_filter_and.
      rewrite (filter_all_ext _ (fun x => overlaps sA eA start end_ x && below end_ cur x &&
                                          ((ws <=? sA x) || (ws =? start))) evs).
      2:{ intros x Hx. apply page_is_segment; auto. }
      destruct (Z.eq_dec ws start) as [Heq|Hne].
      + (* oldest page: nothing is left below it *)
        assert (Hnil : pager sA eA f W evs start end_ ws = []).
        { destruct f; simpl; [reflexivity|].
          replace (start <? ws) with false by (symmetry; apply Z.ltb_ge; lia). reflexivity. }
        rewrite Hnil, app_nil_r. f_equal. apply filter_all_ext. intros x _.
        replace (ws =? start) with true by (symmetry; apply Z.eqb_eq; exact Heq).
        rewrite orb_true_r, andb_true_r. reflexivity.
      + assert (Hws : ws = cur - W) by (unfold ws in *; lia).
        rewrite IH; [| lia | lia | rewrite Nat2Z.inj_succ in Hf; nia].
        rewrite <- rev_app_distr. f_equal.
        rewrite (sorted_split (fun x => overlaps sA eA start end_ x && below end_ cur x) ws evs Hs).
        f_equal.
        * apply filter_all_ext. intros x _. unfold below.
          destruct (Z.ltb_spec (sA x) ws); destruct (Z.ltb_spec (sA x) cur); destruct (Z.eqb_spec ws end_);
            destruct (Z.eqb_spec cur end_); simpl; rewrite ?andb_true_r, ?andb_false_r; try reflexivity; lia.
        * apply filter_all_ext. intros x _.
          replace (ws =? start) with false by (symmetry; apply Z.eqb_neq; exact Hne).
          rewrite orb_false_r. reflexivity.
  Qed.

  (* the reverse pager returns the forward result reversed, whatever the page size *)
  Theorem pager_exactly_once (W start end_ : Z) (evs : list A) (fuel : nat) :
    0 < W -> start < end_ -> sortedA evs -> (forall x, In x evs -> sA x <= eA x) ->
    end_ - start <= Z.of_nat fuel * W ->
    pager sA eA fuel W evs start end_ end_ = rev (filter (overlaps sA eA start end_) evs).
  Proof.
    intros HW Hse Hs Hpos Hf.
    rewrite (pager_spec W start end_ evs HW Hs Hpos fuel end_ Hse (Z.le_refl _) Hf).
    f_equal. apply filter_all_ext. intros x _. unfold below. rewrite Z.eqb_refl, orb_true_r, andb_true_r. reflexivity.
  Qed.

  (* ... hence each event overlapping the range is yielded exactly once *)
  Corollary pager_permutation (W start end_ : Z) (evs : list A) (fuel : nat) :
    0 < W -> start < end_ -> sortedA evs -> (forall x, In x evs -> sA x <= eA x) ->
    end_ - start <= Z.of_nat fuel * W ->
    Permutation (pager sA eA fuel W evs start end_ end_) (filter (overlaps sA eA start end_) evs).
  Proof.
    intros. rewrite pager_exactly_once by assumption. apply Permutation_sym, Permutation_rev.
  Qed.
End PagerProof.

(* ========================================================================================== *)
(* 2. fault containment                                                                        *)

Lemma existsb_none {B} (f : B -> bool) (l : list B) : (forall x, In x l -> f x = false) -> existsb f l = false.
Proof.
  induction l as [|x r IH]; simpl; intro H; [reflexivity|].
  rewrite (H x (or_introl eq_refl)). apply IH. intros y Hy. apply H. right; exact Hy.
Qed.

(* structural: a contained method lets no backend failure escape, whatever the schedule *)
Lemma contained_no_escape (ms : list gmethod) (sch : schedule) :
  forall fuel n, contained fuel ms n = true -> escapes fuel true ms sch n = false.
Proof.
  induction fuel as [|f IH]; intros n H; simpl in *; [discriminate|].
  destruct (find_gm n ms) as [m|]; [|discriminate].
  destruct (gm_decorated m); simpl in *; [reflexivity|].
  apply andb_true_iff in H. destruct H as [Hb Hs].
  rewrite forallb_forall in Hb, Hs.
  apply orb_false_iff. split.
  - apply existsb_none. intros [k c] Hin. simpl.
    rewrite (Hb c (in_combine_r _ _ _ _ Hin)). reflexivity.
  - apply existsb_none. intros c Hin. specialize (Hs c Hin).
    apply orb_true_iff in Hs. destruct Hs as [Hg|Hc].
    + rewrite Hg. reflexivity.
    + rewrite (IH _ Hc). apply andb_false_r.
Qed.

Theorem fault_containment (g : gfacts) :
  guard_discipline g = true ->
  forall (sch : schedule) (m : gmethod), In m (gf_methods g) -> gm_entry m = true ->
    escapes (S (length (gf_methods g))) (gf_decorator_catches g) (gf_methods g) sch (gm_name m) = false.
Proof.
  unfold guard_discipline. intros H sch m Hin He.
  apply andb_true_iff in H. destruct H as [H _].
  apply andb_true_iff in H. destruct H as [Hd Hc].
  rewrite Hd. rewrite forallb_forall in Hc. specialize (Hc m Hin). rewrite He in Hc. simpl in Hc.
  apply contained_no_escape. exact Hc.
Qed.

(* the model of the (repaired) write path: for every adapter state — in particular for every
   failure schedule of the backend — a write returns WriteResults, one per event, and never raises *)
Lemma add_interval_one a w : exists r, snd (add_interval a w) = [r].
Proof.
  unfold add_interval. destruct (cal_tz a) as [a1 [ctz|]]; [|eexists; reflexivity].
  destruct (tick (a_b a1)) as [b2 [|]]; [|eexists; reflexivity].
  destruct (b_store b2 (prepare ctz w)) as [b3 [id|]]; eexists; reflexivity.
Qed.

Lemma add_recurring_one a p : exists r, snd (add_recurring a p) = [r].
Proof.
  unfold add_recurring.
  destruct (if p_dur p =? DAY then cal_tz a else (a, Some None)) as [a1 [ctz|]]; [|eexists; reflexivity].
  destruct (tick (a_b a1)) as [b2 [|]]; [|eexists; reflexivity].
  match goal with |- context [b_store b2 ?q] => destruct (b_store b2 q) as [b3 [id|]] end; eexists; reflexivity.
Qed.

Lemma delete_by_one a n : exists r, snd (delete_by a n) = [r].
Proof.
  unfold delete_by. destruct (tick (a_b a)) as [b1 [|]]; simpl negb; cbv iota; [|eexists; reflexivity].
  destruct n as [k|]; [|eexists; reflexivity].
  destruct (find_ev k (bs_store b1)); eexists; reflexivity.
Qed.

Lemma remove_interval_one a ev : exists r, snd (remove_interval a ev) = [r].
Proof.
  unfold remove_interval. destruct (e_rid ev) as [m|]; [|apply delete_by_one].
  unfold remove_instance. destruct (tick (a_b a)) as [b1 [|]]; simpl negb; cbv iota; [|eexists; reflexivity].
  destruct (find_ev m (bs_store b1)) as [st|]; [|eexists; reflexivity].
  destruct (s_rec st) as [r|]; [|eexists; reflexivity].
  destruct (parse_exdates (r_line r)) as [base existing].
  destruct (in_exd (format_exdate (e_s ev)) existing); [eexists; reflexivity|].
  destruct (tick b1) as [b2 [|]]; simpl negb; cbv iota; eexists; reflexivity.
Qed.

Lemma remove_series_one a ev : exists r, snd (remove_series a ev) = [r].
Proof. unfold remove_series. apply delete_by_one. Qed.

Lemma exec_batch_len : forall l b, length (snd (exec_batch b l)) = length l.
Proof.
  induction l as [|[w q] r IH]; intro b; [reflexivity|].
  cbn [exec_batch]. destruct (tick b) as [b1 ok].
  match goal with |- context [let '(b2, res) := ?X in _] => destruct X as [b2 res] end.
  specialize (IH b2). destruct (exec_batch b2 r) as [b3 rest]. cbn in *. f_equal. exact IH.
Qed.

Lemma build_batch_len : forall l a acc a' reqs,
  build_batch a l acc = (a', Some reqs) -> length reqs = (length l + length acc)%nat.
Proof.
  induction l as [|w r IH]; intros a acc a' reqs H; cbn [build_batch] in H.
  - injection H as _ Hr. subst reqs. rewrite rev_length. reflexivity.
  - destruct (cal_tz a) as [a1 [ctz|]]; [|discriminate].
    destruct (tick (a_b a1)) as [b2 [|]]; cbn [negb] in H; cbv iota in H; [|discriminate].
    destruct (tick b2) as [b3 [|]]; cbn [negb] in H; cbv iota in H; [|discriminate].
    destruct (tick b3) as [b4 [|]]; cbn [negb] in H; cbv iota in H; [|discriminate].
    rewrite (IH _ _ _ _ H). simpl. lia.
Qed.

Lemma add_many_len a l : length (snd (add_many a l)) = length l.
Proof.
  unfold add_many. destruct l as [|w0 r0]; [reflexivity|]. cbv iota.
  remember (w0 :: r0) as l eqn:El. clear El.
  destruct (tick (a_b a)) as [b1 ok1]. destruct ok1; cbn [negb]; cbv iota.
  2:{ cbn [snd]. apply map_length. }
  destruct (build_batch (with_b a b1) l []) as [a2 [reqs|]] eqn:E.
  2:{ cbn [snd]. apply map_length. }
  destruct (tick (a_b a2)) as [b3 ok3]. destruct ok3; cbn [negb]; cbv iota.
  2:{ cbn [snd]. apply map_length. }
  pose proof (exec_batch_len reqs b3) as HL. destruct (exec_batch b3 reqs) as [b4 res]. cbn [snd] in *.
  rewrite HL, (build_batch_len _ _ _ _ _ E). cbn [length]. lia.
Qed.

Definition is_write (o : op) : bool := match o with OFetch _ _ _ | OSlice _ _ _ => false | _ => true end.
Definition expected_results (o : op) : nat := match o with OAddMany l => length l | _ => 1%nat end.

Theorem model_writes_never_raise (a : astate) (outs : list out) (o : op) :
  is_write o = true ->
  match snd (step a outs o) with
  | OWrite (Some rs) => length rs = expected_results o
  | OSkip => True
  | _ => False
  end.
Proof.
  destruct o; simpl; intro H; try discriminate.
  - destruct (add_interval_one a w) as [r Hr]. destruct (add_interval a w); simpl in *. rewrite Hr. reflexivity.
  - pose proof (add_many_len a l) as Hl. destruct (add_many a l); simpl in *. exact Hl.
  - destruct (add_recurring_one a p) as [r Hr]. destruct (add_recurring a p); simpl in *. rewrite Hr. reflexivity.
  - destruct (lookup outs ref k) as [ev|]; simpl; [|exact I].
    destruct (remove_interval_one a ev) as [r Hr]. destruct (remove_interval a ev); simpl in *. rewrite Hr. reflexivity.
  - destruct (lookup outs ref k) as [ev|]; simpl; [|exact I].
    destruct (remove_series_one a ev) as [r Hr]. destruct (remove_series a ev); simpl in *. rewrite Hr. reflexivity.
Qed.
(* ========================================================================================== *)
(* 3. read conversion is exact                                                                 *)

(* zone hypothesis: converting an instant to the wall clock (with its fold) and back is the identity *)
Definition zone_rt (z : zone) : Prop := forall t, wall_to_utc z (utc_to_wall z t) (fold_of z t) = t.

Lemma utc_zone_rt : zone_rt utc_zone.
Proof. intro t. unfold wall_to_utc, utc_to_wall, wall_offset, offset_at, utc_zone; simpl. lia. Qed.

(* a row agrees with the backend's truth: an all-day row's instants are the local midnights of
   its dates in the calendar's zone, a timed row presents its instants *)
Definition row_wf (b : bstate) (w : row) : Prop :=
  if s_allday (w_ev w)
  then w_s w = midnight (bs_zone b) (w_k0 w) /\ w_e w = option_map (midnight (bs_zone b)) (w_k1 w)
  else w_s w = w_k0 w /\ w_e w = w_k1 w.

Definition pres_ok (b : bstate) (st : sev) : Prop :=
  match s_pres st with
  | KFixed => True
  | KZone => zone_rt (ev_zone b st)
  | KNaive => zone_rt (tz_or_utc (s_tz st))
  end.

Lemma present_t_ts b st t zf :
  pres_ok b st -> (s_pres st = KNaive -> zf = tz_or_utc (s_tz st)) ->
  pres_ts (present_t b st t) zf = t.
Proof.
  unfold pres_ok, present_t. destruct (s_pres st); intros Hz Hn; simpl.
  - apply Hz.
  - lia.
  - rewrite (Hn eq_refl). apply Hz.
Qed.

Theorem read_span_exact (a a' : astate) (w : row) (ev : aev) :
  a_tz a = Some (Some (bs_zone (a_b a))) ->
  row_wf (a_b a) w ->
  (s_allday (w_ev w) = false -> pres_ok (a_b a) (w_ev w)) ->
  (s_allday (w_ev w) = false -> s_pres (w_ev w) = KNaive -> is_all_day_event (present (a_b a) w) = false) ->
  convert a (present (a_b a) w) = (a', Some (Some ev)) ->
  e_s ev = w_s w /\ Some (e_e ev) = w_e w /\ Some (e_id ev) = w_id w /\ Some (e_sum ev) = s_sum (w_ev w) /\
  e_rid ev = w_rid w /\ e_desc ev = s_desc (w_ev w) /\
  (s_allday (w_ev w) = true -> e_allday ev = true).
Proof.
  intros Htz Hwf Hp Hn H.
  set (b := a_b a) in *. set (e := present b w) in *.
  assert (Eid : b_id e = w_id w) by reflexivity.
  assert (Esum : b_sum e = s_sum (w_ev w)) by reflexivity.
  assert (Etz : b_tz e = s_tz (w_ev w)) by reflexivity.
  assert (Erid : b_rid e = w_rid w) by reflexivity.
  assert (Edesc : b_desc e = s_desc (w_ev w)) by reflexivity.
  assert (Etime : b_time e = if s_allday (w_ev w) then BDate (w_k0 w) (w_k1 w)
                             else BTimed (present_t b (w_ev w) (w_k0 w)) (option_map (present_t b (w_ev w)) (w_k1 w)))
    by reflexivity.
  unfold convert in H. rewrite Eid, Esum in H.
  destruct (w_id w) as [id|]; [|discriminate].
  destruct (s_sum (w_ev w)) as [sm|]; [|discriminate].
  destruct (has_end e) eqn:Hend; [|discriminate].
  unfold row_wf in Hwf. fold b in Hwf.
  destruct (s_allday (w_ev w)) eqn:Had.
  - (* all-day *)
    assert (Had' : is_all_day_event e = true).
    { unfold is_all_day_event. rewrite Etime. unfold has_end in Hend. rewrite Etime in Hend.
      destruct (w_k1 w); [reflexivity|discriminate]. }
    rewrite Had' in H. unfold cal_tz in H. rewrite Htz in H. fold b in H. rewrite Etime in H.
    unfold has_end in Hend. rewrite Etime in Hend.
    destruct (w_k1 w) as [k1|]; [|discriminate].
    injection H as _ Hev. subst ev. cbn. destruct Hwf as [Hs He]. rewrite Hs, He.
    repeat split; reflexivity.
  - (* timed *)
    specialize (Hp eq_refl). specialize (Hn eq_refl).
    unfold has_end in Hend. rewrite Etime in Hend.
    destruct (w_k1 w) as [k1|] eqn:Hk1; [|discriminate].
    destruct Hwf as [Hs He].
    destruct (is_all_day_event e) eqn:Hade.
    + unfold cal_tz in H. rewrite Htz in H. fold b in H. rewrite Etime in H. cbn [option_map] in H.
      injection H as _ Hev. subst ev. cbn.
      assert (Hz : s_pres (w_ev w) = KNaive -> bs_zone b = tz_or_utc (s_tz (w_ev w))).
      { intro Hk. specialize (Hn Hk). rewrite Hn in Hade. discriminate. }
      rewrite !(present_t_ts b (w_ev w) _ (bs_zone b) Hp Hz).
      rewrite Hs, He. repeat split; try reflexivity; try (intro; discriminate).
    + rewrite Etime in H. cbn [option_map] in H.
      injection H as _ Hev. subst ev. cbn.
      assert (Hz : s_pres (w_ev w) = KNaive -> tz_or_utc (b_tz e) = tz_or_utc (s_tz (w_ev w))).
      { intros _. rewrite Etz. reflexivity. }
      rewrite !(present_t_ts b (w_ev w) _ (tz_or_utc (b_tz e)) Hp Hz).
      rewrite Hs, He. repeat split; try reflexivity; try (intro; discriminate).
Qed.

(* ========================================================================================== *)
(* 4. an event added through the adapter reads back with the same span                         *)

(* t is not the repeated half of an ambiguous wall-clock time of the zone (fold = 0) *)
Definition unfolded (z : zone) (t : Z) : Prop := wall_to_utc z (utc_to_wall z t) false = t.

Lemma midnight_local_date z t :
  utc_to_wall z t mod DAY = 0 -> unfolded z t -> midnight z (local_date (Some z) t) = t.
Proof.
  unfold midnight, local_date, tz_or_utc, unfolded. intros Hm Hu.
  replace (utc_to_wall z t / DAY * DAY) with (utc_to_wall z t); [exact Hu|].
  pose proof (Z_div_mod_eq_full (utc_to_wall z t) DAY) as Hd. unfold DAY in *. lia.
Qed.

Theorem add_then_read (a a1 : astate) (w : wev) (id : N) (ad : bool) (s e : Z) :
  a_tz a = Some (Some (bs_zone (a_b a))) ->
  add_interval a w = (a1, [(true, Some (EId id, s, e, ad))]) ->
  (ad = true ->
   let z := bs_zone (a_b a) in
   utc_to_wall z (v_s w) mod DAY = 0 /\ utc_to_wall z (v_e w) mod DAY = 0 /\
   unfolded z (v_s w) /\ unfolded z (v_e w)) ->
  s = v_s w /\ e = v_e w /\
  exists st r,
    In st (bs_store (a_b a1)) /\ rows_of_ev (a_b a1) None None st = [r] /\
    w_id r = Some (EId id) /\ w_s r = v_s w /\ w_e r = Some (v_e w) /\
    forall a2 ev, convert a1 (present (a_b a1) r) = (a2, Some (Some ev)) ->
                  e_s ev = v_s w /\ e_e ev = v_e w /\ e_id ev = EId id.
Proof.
  intros Htz H Hall. unfold add_interval, cal_tz in H. rewrite Htz in H.
  set (z := bs_zone (a_b a)) in *.
  set (q := prepare (Some z) w) in *.
  destruct (tick (a_b a)) as [b2 ok] eqn:Htick. destruct ok; [|discriminate].
  assert (Hz2 : bs_zone b2 = z) by (unfold tick in Htick; injection Htick as <- _; reflexivity).
  unfold b_store in H.
  destruct (if q_allday q then q_e q <=? q_s q else q_e q <? q_s q); [discriminate|].
  injection H as <- <- <- <- <-.
  split; [reflexivity|]. split; [reflexivity|].
  set (st := mkSev (Some (bs_next b2)) (q_sum q) (q_desc q) (q_tz q) (q_rem q) false (q_allday q) (q_s q)
                   (Some (q_e q)) KZone (q_rec q)).
  set (b3 := mkBS (bs_zone b2) (bs_store b2 ++ [st]) (N.succ (bs_next b2)) (bs_calls b2) (bs_fail b2)).
  assert (Hrec : q_rec q = None) by (unfold q, prepare; destruct (match v_allday w with Some x => x | None => _ end); reflexivity).
  assert (Hspan : span_of b3 st = (v_s w, Some (v_e w))).
  { unfold span_of. cbn [s_allday s_s s_e st bs_zone b3 option_map]. rewrite Hz2.
    unfold q, prepare in *.
    destruct (match v_allday w with Some x => x | None => infer_all_day (v_s w) (v_e w) (Some z) end) eqn:Had;
      cbn [q_allday q_s q_e] in *.
    - destruct (Hall eq_refl) as (M1 & M2 & U1 & U2).
      rewrite (midnight_local_date z _ M1 U1), (midnight_local_date z _ M2 U2). reflexivity.
    - reflexivity. }
  set (r := mkRow st (Some (EId (bs_next b2))) None (v_s w) (Some (v_e w)) (s_s st) (s_e st)).
  exists st, r. cbn [a_b with_b].
  assert (Hrows : rows_of_ev b3 None None st = [r]).
  { unfold rows_of_ev. cbn [s_rec st]. rewrite Hrec, Hspan. reflexivity. }
  split; [cbn; apply in_or_app; right; left; reflexivity|].
  split; [exact Hrows|]. split; [reflexivity|]. split; [reflexivity|]. split; [reflexivity|].
  intros a2 ev Hc.
  assert (Hwf : row_wf b3 r).
  { unfold row_wf. cbn [w_ev r w_s w_e w_k0 w_k1].
    unfold span_of in Hspan. destruct (s_allday st); injection Hspan as <- <-; split; reflexivity. }
  pose proof (read_span_exact (with_b a b3) a2 r ev) as R. cbn [a_b with_b a_tz] in R.
  destruct R as (R1 & R2 & R3 & _).
  - rewrite Htz. cbn. rewrite Hz2. reflexivity.
  - exact Hwf.
  - intro Hf. unfold pres_ok. cbn [w_ev r s_pres st].
    (* a timed event is written with timezone "UTC" *)
    assert (Htzq : q_tz q = Some utc_zone).
    { cbn [s_allday st w_ev r] in Hf. unfold q, prepare in *.
      destruct (match v_allday w with Some x => x | None => _ end); [discriminate Hf|reflexivity]. }
    unfold ev_zone. cbn [s_tz st]. rewrite Htzq. apply utc_zone_rt.
  - intros _ Hk. discriminate Hk.
  - exact Hc.
  - cbn [w_s w_e w_id r] in *. injection R2 as R2. injection R3 as R3. auto.
Qed.

Corollary read_all_day_midnights (a a' : astate) (w : row) (ev : aev) (d1 : Z) :
  a_tz a = Some (Some (bs_zone (a_b a))) -> row_wf (a_b a) w ->
  s_allday (w_ev w) = true -> w_k1 w = Some d1 ->
  convert a (present (a_b a) w) = (a', Some (Some ev)) ->
  e_s ev = wall_to_utc (bs_zone (a_b a)) (w_k0 w * DAY) false /\
  e_e ev = wall_to_utc (bs_zone (a_b a)) (d1 * DAY) false.
Proof.
  intros Htz Hwf Had Hk H.
  destruct (read_span_exact a a' w ev Htz Hwf) as (R1 & R2 & _); try (rewrite Had; intros; discriminate); [exact H|].
  unfold row_wf in Hwf. rewrite Had in Hwf. destruct Hwf as [Hs He]. rewrite Hk in He. cbn in He.
  rewrite He in R2. injection R2 as R2. rewrite R1, R2, Hs. split; reflexivity.
Qed.

(* ========================================================================================== *)
(* 5. removing one instance excludes exactly that occurrence, whatever bounds the rule carries  *)

(* the parts of an RRULE line that are not EXDATE parts: FREQ, INTERVAL, BYDAY, UNTIL, COUNT *)
Definition rule_toks (l : list tok) : list tok := filter (fun t => negb (is_ex t)) l.
Definition ex_of_line (l : list tok) : list exd :=
  flat_map (fun t => match t with TEx e => e | _ => [] end) l.
(* at most one EXDATE part in the line (the adapter itself never writes more than one) *)
Definition single_ex (l : list tok) : bool := (length (filter is_ex l) <=? 1)%nat.
Definition with_line (r : srec) (l : list tok) : srec :=
  mkR (r_weekly r) (r_interval r) (r_byday r) l (r_extra r).

Lemma filter_idem {A} (p : A -> bool) (l : list A) : filter p (filter p l) = filter p l.
Proof.
  induction l as [|x r IH]; simpl; [reflexivity|].
  destruct (p x) eqn:E; simpl; rewrite ?E, IH; reflexivity.
Qed.

(* _add_exdate_to_rrule leaves every other part of the line alone, in order: UNTIL and COUNT survive *)
Lemma add_exdate_rule_toks l x : rule_toks (add_exdate l x) = rule_toks l.
Proof.
  unfold add_exdate, parse_exdates, rule_toks.
  destruct (has_ex l); rewrite filter_app; simpl; rewrite app_nil_r; [|reflexivity].
  destruct l as [|t r]; [reflexivity|]. simpl.
  rewrite filter_idem. reflexivity.
Qed.

Lemma find_tok_rule_toks {A} (f : tok -> option A) (l : list tok) :
  (forall e, f (TEx e) = None) -> find_tok f l = find_tok f (rule_toks l).
Proof.
  intro Hf. induction l as [|t r IH]; [reflexivity|].
  unfold rule_toks in *. simpl. destruct t; simpl; rewrite ?Hf, IH; reflexivity.
Qed.

Lemma add_exdate_find_tok {A} (f : tok -> option A) l x :
  (forall e, f (TEx e) = None) -> find_tok f (add_exdate l x) = find_tok f l.
Proof.
  intro Hf. rewrite (find_tok_rule_toks f (add_exdate l x) Hf), (find_tok_rule_toks f l Hf), add_exdate_rule_toks.
  reflexivity.
Qed.

Lemma bounds_kept r x :
  rec_count (with_line r (add_exdate (r_line r) x)) = rec_count r /\
  rec_until_t (with_line r (add_exdate (r_line r) x)) = rec_until_t r /\
  rec_until_d (with_line r (add_exdate (r_line r) x)) = rec_until_d r.
Proof.
  unfold rec_count, rec_until_t, rec_until_d, with_line. cbn [r_line].
  repeat split; apply add_exdate_find_tok; reflexivity.
Qed.

(* the EXDATEs *)
Lemma single_ex_first l : single_ex l = true -> ex_of_line l = first_ex l.
Proof.
  unfold single_ex, ex_of_line. induction l as [|t r IH]; intro H; [reflexivity|].
  destruct t; simpl in *; try (apply IH; exact H).
  assert (Hn : filter is_ex r = []).
  { destruct (filter is_ex r); [reflexivity|]. simpl in H. discriminate. }
  assert (Hr : flat_map (fun t => match t with TEx e => e | _ => [] end) r = []).
  { clear -Hn. induction r as [|t r IH]; [reflexivity|].
    destruct t; simpl in *; try (apply IH; exact Hn); discriminate. }
  rewrite Hr, app_nil_r. reflexivity.
Qed.

Lemma ex_of_line_app a b : ex_of_line (a ++ b) = ex_of_line a ++ ex_of_line b.
Proof. unfold ex_of_line. apply flat_map_app. Qed.

Lemma ex_of_rule_toks l : ex_of_line (rule_toks l) = [].
Proof.
  unfold ex_of_line, rule_toks. induction l as [|t r IH]; [reflexivity|].
  destruct t; simpl; exact IH.
Qed.

Lemma ex_of_strip l : single_ex l = true -> is_ex (hd TRule l) = false -> ex_of_line (strip_ex l) = [].
Proof.
  intros _ Hh. destruct l as [|t r]; [reflexivity|]. simpl in *.
  change (ex_of_line (t :: rule_toks r) = []).
  unfold ex_of_line. simpl. fold (ex_of_line (rule_toks r)). rewrite ex_of_rule_toks.
  destruct t; try reflexivity. discriminate.
Qed.

Lemma inZ_app s a b : inZ s (a ++ b) = inZ s a || inZ s b.
Proof. unfold inZ. apply existsb_app. Qed.

Lemma exd_eqb_eq a b : exd_eqb a b = true -> a = b.
Proof.
  destruct a as [[[[[y m] d] hh] mm] ss]. destruct b as [[[[[y' m'] d'] hh'] mm'] ss']. unfold exd_eqb.
  intro H. repeat (apply andb_true_iff in H; destruct H as [H ?]).
  repeat match goal with E : (_ =? _) = true |- _ => apply Z.eqb_eq in E end. subst. reflexivity.
Qed.

Lemma in_exd_inZ x l : in_exd x l = true -> inZ (parse_exd x) (map parse_exd l) = true.
Proof.
  unfold in_exd, inZ. induction l as [|y r IH]; simpl; intro H; [discriminate|].
  apply orb_true_iff in H. apply orb_true_iff. destruct H as [H|H].
  - left. apply exd_eqb_eq in H. subst. apply Z.eqb_refl.
  - right. apply IH. exact H.
Qed.

(* what the rewritten line excludes: what the line excluded before, and the new instant *)
Lemma add_exdate_excludes l x s :
  single_ex l = true -> is_ex (hd TRule l) = false ->
  inZ s (map parse_exd (ex_of_line (add_exdate l x))) =
  inZ s (map parse_exd (ex_of_line l)) || (s =? parse_exd x).
Proof.
  intros H1 Hh. unfold add_exdate, parse_exdates.
  destruct (has_ex l) eqn:Hex.
  - rewrite ex_of_line_app, (ex_of_strip l H1 Hh), app_nil_l, (single_ex_first l H1).
    unfold ex_of_line at 1. simpl. rewrite app_nil_r.
    destruct (in_exd x (first_ex l)) eqn:Hin.
    + destruct (Z.eqb_spec s (parse_exd x)) as [->|_]; [|rewrite orb_false_r; reflexivity].
      rewrite (in_exd_inZ _ _ Hin). reflexivity.
    + rewrite map_app, inZ_app. simpl. unfold inZ at 2. simpl. rewrite orb_false_r. reflexivity.
  - rewrite ex_of_line_app, map_app, inZ_app. unfold ex_of_line at 2. simpl.
    unfold inZ at 2. simpl. rewrite orb_false_r. reflexivity.
Qed.

Lemma rec_ex_with_line r x s :
  single_ex (r_line r) = true -> is_ex (hd TRule (r_line r)) = false ->
  inZ s (rec_ex (with_line r (add_exdate (r_line r) x))) = inZ s (rec_ex r) || (s =? parse_exd x).
Proof.
  intros H1 Hh. unfold rec_ex, with_line. cbn [r_line r_extra].
  fold (ex_of_line (add_exdate (r_line r) x)). fold (ex_of_line (r_line r)).
  rewrite !map_app, !inZ_app, (add_exdate_excludes _ _ _ H1 Hh).
  destruct (inZ s (map parse_exd (ex_of_line (r_line r)))); destruct (inZ s (map parse_exd (r_extra r)));
    destruct (s =? parse_exd x); reflexivity.
Qed.

Lemma filter_flat_map {A B} (p : B -> bool) (f : A -> list B) (l : list A) :
  filter p (flat_map f l) = flat_map (fun a => filter p (f a)) l.
Proof.
  induction l as [|a r IH]; simpl; [reflexivity|]. rewrite filter_app, IH. reflexivity.
Qed.

(* The series after the rewrite of its RRULE line = the series before, minus the occurrence that
   starts at the excluded instant — for every window, for daily and weekly rules, with or without
   UNTIL (instant or date) or COUNT, wherever those parts sit in the line. *)
Theorem instance_removal_exact (b : bstate) (st : sev) (r : srec) (x : exd) (lo hi : option Z) :
  single_ex (r_line r) = true -> is_ex (hd TRule (r_line r)) = false ->
  instances b st (with_line r (add_exdate (r_line r) x)) lo hi =
  filter (fun w => negb (w_s w =? parse_exd x)) (instances b st r lo hi).
Proof.
  intros H1 Hh. unfold instances.
  destruct (bounds_kept r x) as (Hc & Ht & Hd). rewrite Hc, Ht, Hd.
  cbn [with_line r_weekly r_interval r_byday].
  cbv zeta. rewrite filter_flat_map. apply flat_map_ext. intros [d k]. cbn [fst snd].
  rewrite (rec_ex_with_line r x _ H1 Hh).
  match goal with |- (if ?c then _ else _) = _ => destruct c end; [|reflexivity].
  match goal with |- context [inZ ?s (rec_ex r)] => destruct (inZ s (rec_ex r)) end; [reflexivity|].
  cbn [orb].
  match goal with |- context [in_window ?a ?b ?c ?e] => destruct (in_window a b c e) end.
  - cbn [filter w_s]. match goal with |- context [?s =? parse_exd x] => destruct (s =? parse_exd x) end; reflexivity.
  - match goal with |- context [?s =? parse_exd x] => destruct (s =? parse_exd x) end; reflexivity.
Qed.

(* non-vacuity: FREQ=WEEKLY;UNTIL=20250127T100000Z;EXDATE:20250113T100000Z satisfies the hypotheses;
   and the restriction to one EXDATE part is needed: with two parts the rewrite keeps the first
   part only (re.search finds one part, re.sub deletes them all), so the exclusions of the
   second part come back *)
Example instance_removal_hyps :
  let l := [TRule; TUntil (2025, 1, 27, 10, 0, 0); TEx [(2025, 1, 13, 10, 0, 0)]] in
  single_ex l = true /\ is_ex (hd TRule l) = false.
Proof. split; reflexivity. Qed.
Example two_exdate_parts_refuted :
  let l := [TRule; TEx [(2025, 1, 13, 10, 0, 0)]; TEx [(2025, 1, 20, 10, 0, 0)]] in
  ex_of_line (add_exdate l (2025, 1, 27, 10, 0, 0)) = [(2025, 1, 13, 10, 0, 0); (2025, 1, 27, 10, 0, 0)].
Proof. vm_compute. reflexivity. Qed.

(* _format_exdate then parsing the text back gives the instant, for every instant *)
Lemma parse_format_exdate t : parse_exd (format_exdate t) = t.
Proof.
  unfold format_exdate, parse_exd.
  pose proof (civil_roundtrip (t / DAY)) as H.
  destruct (civil_from_days (t / DAY)) as [[y m] d]. destruct H as [H _]. rewrite H.
  unfold DAY, HOUR in *. lia.
Qed.

(* what a reader can see of a row *)
Definition row_obs (w : row) := (w_id w, w_rid w, w_s w, w_e w, w_k0 w, w_k1 w).
Definition set_rec (st : sev) (rc : option srec) : sev :=
  mkSev (s_id st) (s_sum st) (s_desc st) (s_tz st) (s_rem st) (s_defrem st) (s_allday st) (s_s st) (s_e st)
        (s_pres st) rc.

Lemma map_flat_map {A B C} (g : B -> C) (f : A -> list B) (l : list A) :
  map g (flat_map f l) = flat_map (fun a => map g (f a)) l.
Proof. induction l as [|a r IH]; simpl; [reflexivity|]. rewrite map_app, IH. reflexivity. Qed.

Lemma instances_cong b b' st rc r lo hi :
  bs_zone b' = bs_zone b ->
  map row_obs (instances b' (set_rec st rc) r lo hi) = map row_obs (instances b st r lo hi).
Proof.
  intro Hz. unfold instances, ev_zone, set_rec. cbn [s_tz s_e s_s s_allday s_id]. rewrite Hz.
  cbv zeta. rewrite !map_flat_map. apply flat_map_ext. intros [d k]. cbn [fst snd].
  match goal with |- map _ (if ?c then _ else _) = _ => destruct c end; [|reflexivity].
  match goal with |- context [inZ ?s (rec_ex r)] => destruct (inZ s (rec_ex r)) end; [reflexivity|].
  match goal with |- context [in_window ?a ?b ?c ?e] => destruct (in_window a b c e) end; reflexivity.
Qed.

Lemma instances_not_excluded b st r lo hi w :
  In w (instances b st r lo hi) -> inZ (w_s w) (rec_ex r) = false.
Proof.
  unfold instances. cbv zeta. intro H. apply in_flat_map in H. destruct H as [[d k] [_ H]]. cbn [fst snd] in H.
  match type of H with In _ (if ?c then _ else _) => destruct c end; [|contradiction].
  match type of H with context [inZ ?s (rec_ex r)] => destruct (inZ s (rec_ex r)) eqn:E end; [contradiction|].
  match type of H with context [in_window ?a ?b ?c ?e] => destruct (in_window a b c e) end; [|contradiction].
  destruct H as [<-|[]]. exact E.
Qed.

Lemma filter_all {A} (p : A -> bool) (l : list A) : (forall x, In x l -> p x = true) -> filter p l = l.
Proof.
  induction l as [|x r IH]; simpl; intro H; [reflexivity|].
  rewrite (H x (or_introl eq_refl)), IH; [reflexivity|]. intros y Hy. apply H. right; exact Hy.
Qed.

Lemma find_upd_rec m rc : forall l st, find_ev m l = Some st -> find_ev m (upd_rec m rc l) = Some (set_rec st rc).
Proof.
  induction l as [|y r IH]; intros st H; [discriminate|]. cbn [find_ev upd_rec] in *.
  destruct (match s_id y with Some k => N.eqb k m | None => false end) eqn:E.
  - injection H as <-. cbn [find_ev s_id]. rewrite E. reflexivity.
  - cbn [find_ev]. rewrite E. apply IH. exact H.
Qed.

Lemma tick_keeps b : bs_zone (fst (tick b)) = bs_zone b /\ bs_store (fst (tick b)) = bs_store b.
Proof. split; reflexivity. Qed.

(* Calendar.remove(<one instance of series m>) that reports success: afterwards the backend holds
   the series of m as before minus exactly the occurrence starting where the instance starts — in
   every window, bounded rules included (the last occurrence of a series ending with UNTIL=<its
   start> too), and also when the occurrence was excluded already (nothing is written then). *)
Theorem remove_instance_exact (a a' : astate) (ev : aev) (m : N) (st : sev) (r : srec) :
  find_ev m (bs_store (a_b a)) = Some st -> s_rec st = Some r ->
  single_ex (r_line r) = true -> is_ex (hd TRule (r_line r)) = false ->
  remove_instance a ev m = (a', [(true, None)]) ->
  exists st' r',
    find_ev m (bs_store (a_b a')) = Some st' /\ s_rec st' = Some r' /\
    rule_toks (r_line r') = rule_toks (r_line r) /\
    forall lo hi, map row_obs (instances (a_b a') st' r' lo hi) =
                  map row_obs (filter (fun w => negb (w_s w =? e_s ev)) (instances (a_b a) st r lo hi)).
Proof.
  intros Hf Hr H1 Hh H. unfold remove_instance in H.
  destruct (tick (a_b a)) as [b1 ok1] eqn:T1.
  assert (Hb1 : bs_zone b1 = bs_zone (a_b a) /\ bs_store b1 = bs_store (a_b a)).
  { pose proof (tick_keeps (a_b a)) as K. rewrite T1 in K. exact K. }
  destruct Hb1 as [Z1 S1].
  destruct ok1; cbn [negb] in H; cbv iota in H; [|discriminate].
  rewrite S1, Hf, Hr in H.
  destruct (parse_exdates (r_line r)) as [base existing] eqn:Hp.
  destruct (in_exd (format_exdate (e_s ev)) existing) eqn:Hin.
  - (* excluded already: nothing is written *)
    injection H as <-. cbn [a_b with_b]. exists st, r. rewrite S1.
    split; [exact Hf|]. split; [exact Hr|]. split; [reflexivity|]. intros lo hi.
    assert (Hex : inZ (e_s ev) (rec_ex r) = true).
    { assert (He : existing = ex_of_line (r_line r)).
      { unfold parse_exdates in Hp. destruct (has_ex (r_line r)) eqn:Hx.
        - injection Hp as _ <-. symmetry. apply single_ex_first. exact H1.
        - injection Hp as _ <-. symmetry. rewrite single_ex_first by exact H1.
          clear -Hx. unfold has_ex in Hx. induction (r_line r) as [|t l IH]; [reflexivity|].
          destruct t; simpl in *; try (apply IH; exact Hx); discriminate. }
      apply in_exd_inZ in Hin. rewrite parse_format_exdate in Hin. subst existing.
      unfold rec_ex. fold (ex_of_line (r_line r)). rewrite map_app, inZ_app, Hin. reflexivity. }
    rewrite filter_all.
    + pose proof (instances_cong (a_b a) b1 st (s_rec st) r lo hi Z1) as C.
      replace (set_rec st (s_rec st)) with st in C by (destruct st; reflexivity). exact C.
    + intros w Hw. apply instances_not_excluded in Hw.
      destruct (Z.eqb_spec (w_s w) (e_s ev)) as [E|_]; [|reflexivity].
      rewrite E, Hex in Hw. discriminate.
  - destruct (tick b1) as [b2 ok2] eqn:T2.
    assert (Hb2 : bs_zone b2 = bs_zone b1 /\ bs_store b2 = bs_store b1).
    { pose proof (tick_keeps b1) as K. rewrite T2 in K. exact K. }
    destruct Hb2 as [Z2 S2].
    destruct ok2; cbn [negb] in H; cbv iota in H; [|discriminate].
    injection H as <-. cbn [a_b with_b set_store bs_store bs_zone].
    set (r' := mkR (r_weekly r) (r_interval r) (r_byday r) (add_exdate (r_line r) (format_exdate (e_s ev))) (r_extra r)).
    exists (set_rec st (Some r')), r'.
    split; [rewrite S2, S1; apply find_upd_rec; exact Hf|]. split; [reflexivity|].
    split; [apply add_exdate_rule_toks|]. intros lo hi.
    rewrite (instances_cong (a_b a) _ st (Some r') r' lo hi) by (simpl; congruence).
    change r' with (with_line r (add_exdate (r_line r) (format_exdate (e_s ev)))).
    rewrite (instance_removal_exact _ _ _ _ _ _ H1 Hh), parse_format_exdate. reflexivity.
Qed.

(* the scenario itself, computed: FREQ=WEEKLY;UNTIL=20250127T100000Z from Monday 2025-01-06 10:00Z has
   four occurrences, the last one starting AT the UNTIL instant; removing that one takes the two
   backend calls (get_event, update_event), succeeds, and leaves the other three *)
Example until_last_occurrence_removed :
  let mon := 1736157600 in
  let r := mkR true 1 [] [TRule; TUntil (2025, 1, 27, 10, 0, 0)] [] in
  let st := mkSev (Some 1%N) (Some 1%N) None (Some utc_zone) [] false false mon (Some (mon + HOUR)) KZone (Some r) in
  let a := init utc_zone [st] 2%N [] in
  let last := mon + 21 * DAY in
  let ev := mkE (EInst 1%N last) 1%N None (Some 1%N) false None last (last + HOUR) in
  let res := remove_instance a ev 1%N in
  map w_s (rows_of (a_b a) None (Some (mon + 60 * DAY))) = [mon; mon + 7 * DAY; mon + 14 * DAY; last] /\
  snd res = [(true, None)] /\ bs_calls (a_b (fst res)) = 2%nat /\
  map w_s (rows_of (a_b (fst res)) None (Some (mon + 60 * DAY))) = [mon; mon + 7 * DAY; mon + 14 * DAY] /\
  single_ex (r_line r) = true /\ is_ex (hd TRule (r_line r)) = false.
Proof. vm_compute. repeat split; reflexivity. Qed.
