(* Proofs/GcsaP.v — theorems about Model/Gcsa.v for C20. *)
From CG Require Import Model.Gcsa Spec.GuardDiscipline.
From Coq Require Import Lia Sorting.Sorted Sorting.Permutation.

Local Open Scope list_scope.
Local Open Scope Z_scope.

(* ========================================================================================== *)
(* 1. the reverse pager, abstractly                                                            *)

Section PagerProof.
  Context {A : Type} (sA eA : A -> Z).

  Definition sortedA (l : list A) : Prop := StronglySorted (fun a b => sA a <= sA b) l.

  Lemma filter_none (g : A -> bool) (l : list A) : (forall x, In x l -> g x = false) -> filter g l = [].
  Proof.
    induction l as [|x r IH]; simpl; intro H; [reflexivity|].
    rewrite (H x (or_introl eq_refl)). apply IH. intros y Hy. apply H. right; exact Hy.
  Qed.

  Lemma filter_filter_and (f g : A -> bool) (l : list A) :
    filter f (filter g l) = filter (fun x => g x && f x) l.
  Proof.
    induction l as [|x r IH]; simpl; [reflexivity|].
    destruct (g x); simpl; [destruct (f x)|]; rewrite IH; reflexivity.
  Qed.

  Lemma filter_all_ext (g h : A -> bool) (l : list A) :
    (forall x, In x l -> g x = h x) -> filter g l = filter h l.
  Proof. apply filter_ext_in. Qed.

  (* a list sorted by start splits at any threshold *)
  Lemma sorted_split (g : A -> bool) (t : Z) (l : list A) :
    sortedA l ->
    filter g l = filter (fun x => g x && (sA x <? t)) l ++ filter (fun x => g x && (t <=? sA x)) l.
  Proof.
    induction l as [|x r IH]; intro S; [reflexivity|].
    inversion S as [|? ? Sr Hall]; subst.
    destruct (Z.ltb_spec (sA x) t) as [Hlt|Hge].
    - simpl. replace (sA x <? t) with true by (symmetry; apply Z.ltb_lt; exact Hlt).
      replace (t <=? sA x) with false by (symmetry; apply Z.leb_gt; exact Hlt).
      rewrite !andb_true_r, andb_false_r.
      destruct (g x); simpl; rewrite (IH Sr); reflexivity.
    - (* everything from x on is >= t *)
      assert (Hr : forall y, In y (x :: r) -> t <= sA y).
      { intros y [<-|Hy]; [exact Hge|]. rewrite Forall_forall in Hall. specialize (Hall y Hy). lia. }
      rewrite (filter_none (fun y => g y && (sA y <? t)) (x :: r)).
      + rewrite app_nil_l. apply filter_all_ext. intros y Hy.
        replace (t <=? sA y) with true by (symmetry; apply Z.leb_le; apply Hr; exact Hy).
        rewrite andb_true_r. reflexivity.
      + intros y Hy. replace (sA y <? t) with false by (symmetry; apply Z.ltb_ge; apply Hr; exact Hy).
        apply andb_false_r.
  Qed.

  Definition below (end_ cur : Z) (x : A) : bool := (sA x <? cur) || (cur =? end_).

  (* one page of the repaired pager = the events of the range that start in the page (the oldest
     page also takes the earlier ones); empty events included *)
  Lemma page_is_segment (start end_ ws cur : Z) (x : A) :
    start <= ws -> ws < cur -> cur <= end_ -> sA x <= eA x ->
    overlaps sA eA (if ws =? start then ws else ws - 1) cur x && keep_in_page start end_ ws cur (sA x) =
    overlaps sA eA start end_ x && below end_ cur x && ((ws <=? sA x) || (ws =? start)).
  Proof.
    intros H1 H2 H3 Hpos. unfold overlaps, keep_in_page, below.
    destruct (Z.eqb_spec ws start);
    [destruct (Z.ltb_spec ws (eA x)) | destruct (Z.ltb_spec (ws - 1) (eA x))];
      destruct (Z.ltb_spec (sA x) cur); destruct (Z.eqb_spec cur end_);
      destruct (Z.leb_spec ws (sA x));
      destruct (Z.ltb_spec start (eA x)); destruct (Z.ltb_spec (sA x) end_); simpl; try reflexivity; lia.
  Qed.

  Lemma pager_spec (W start end_ : Z) (evs : list A) :
    0 < W -> sortedA evs -> (forall x, In x evs -> sA x <= eA x) ->
    forall fuel cur, start < cur -> cur <= end_ -> cur - start <= Z.of_nat fuel * W ->
      pager sA eA fuel W evs start end_ cur =
      rev (filter (fun x => overlaps sA eA start end_ x && below end_ cur x) evs).
  Proof.
    intros HW Hs Hpos. induction fuel as [|f IH]; intros cur Hc1 Hc2 Hf.
    - simpl in Hf. lia.
    - simpl pager. replace (start <? cur) with true by (symmetry; apply Z.ltb_lt; exact Hc1).
      set (ws := Z.max start (cur - W)).
      assert (Hws1 : start <= ws) by (unfold ws; lia).
      assert (Hws2 : ws < cur) by (unfold ws; lia).
      (* the page *)
      rewrite filter_filter_and.
      rewrite (filter_all_ext _ (fun x => overlaps sA eA start end_ x && below end_ cur x &&
                                          ((ws <=? sA x) || (ws =? start))) evs).
      2:{ intros x Hx. apply page_is_segment; auto. }
      destruct (Z.eq_dec ws start) as [Heq|Hne].
      + (* oldest page: nothing is left below it *)
        assert (Hnil : pager sA eA f W evs start end_ ws = []).
        { destruct f; simpl; [reflexivity|].
          replace (start <? ws) with false by (symmetry; apply Z.ltb_ge; lia). reflexivity. }
        rewrite Hnil, app_nil_r. f_equal. apply filter_all_ext. intros x _.
        replace (ws =? start) with true by (symmetry; apply Z.eqb_eq; exact Heq).
        rewrite orb_true_r, andb_true_r. reflexivity.
      + assert (Hws : ws = cur - W) by (unfold ws in *; lia).
        rewrite IH; [| lia | lia | rewrite Nat2Z.inj_succ in Hf; nia].
        rewrite <- rev_app_distr. f_equal.
        rewrite (sorted_split (fun x => overlaps sA eA start end_ x && below end_ cur x) ws evs Hs).
        f_equal.
        * apply filter_all_ext. intros x _. unfold below.
          destruct (Z.ltb_spec (sA x) ws); destruct (Z.ltb_spec (sA x) cur); destruct (Z.eqb_spec ws end_);
            destruct (Z.eqb_spec cur end_); simpl; rewrite ?andb_true_r, ?andb_false_r; try reflexivity; lia.
        * apply filter_all_ext. intros x _.
          replace (ws =? start) with false by (symmetry; apply Z.eqb_neq; exact Hne).
          rewrite orb_false_r. reflexivity.
  Qed.

  (* the reverse pager returns the forward result reversed, whatever the page size *)
  Theorem pager_exactly_once (W start end_ : Z) (evs : list A) (fuel : nat) :
    0 < W -> start < end_ -> sortedA evs -> (forall x, In x evs -> sA x <= eA x) ->
    end_ - start <= Z.of_nat fuel * W ->
    pager sA eA fuel W evs start end_ end_ = rev (filter (overlaps sA eA start end_) evs).
  Proof.
    intros HW Hse Hs Hpos Hf.
    rewrite (pager_spec W start end_ evs HW Hs Hpos fuel end_ Hse (Z.le_refl _) Hf).
    f_equal. apply filter_all_ext. intros x _. unfold below. rewrite Z.eqb_refl, orb_true_r, andb_true_r. reflexivity.
  Qed.

  (* ... hence each event overlapping the range is yielded exactly once *)
  Corollary pager_permutation (W start end_ : Z) (evs : list A) (fuel : nat) :
    0 < W -> start < end_ -> sortedA evs -> (forall x, In x evs -> sA x <= eA x) ->
    end_ - start <= Z.of_nat fuel * W ->
    Permutation (pager sA eA fuel W evs start end_ end_) (filter (overlaps sA eA start end_) evs).
  Proof.
    intros. rewrite pager_exactly_once by assumption. apply Permutation_sym, Permutation_rev.
  Qed.
End PagerProof.

(* ========================================================================================== *)
(* 2. fault containment                                                                        *)

Lemma existsb_none {B} (f : B -> bool) (l : list B) : (forall x, In x l -> f x = false) -> existsb f l = false.
Proof.
  induction l as [|x r IH]; simpl; intro H; [reflexivity|].
  rewrite (H x (or_introl eq_refl)). apply IH. intros y Hy. apply H. right; exact Hy.
Qed.

(* structural: a contained method lets no backend failure escape, whatever the schedule *)
Lemma contained_no_escape (ms : list gmethod) (sch : schedule) :
  forall fuel n, contained fuel ms n = true -> escapes fuel true ms sch n = false.
Proof.
  induction fuel as [|f IH]; intros n H; simpl in *; [discriminate|].
  destruct (find_gm n ms) as [m|]; [|discriminate].
  destruct (gm_decorated m); simpl in *; [reflexivity|].
  apply andb_true_iff in H. destruct H as [Hb Hs].
  rewrite forallb_forall in Hb, Hs.
  apply orb_false_iff. split.
  - apply existsb_none. intros [k c] Hin. simpl.
    rewrite (Hb c (in_combine_r _ _ _ _ Hin)). reflexivity.
  - apply existsb_none. intros c Hin. specialize (Hs c Hin).
    apply orb_true_iff in Hs. destruct Hs as [Hg|Hc].
    + rewrite Hg. reflexivity.
    + rewrite (IH _ Hc). apply andb_false_r.
Qed.

Theorem fault_containment (g : gfacts) :
  guard_discipline g = true ->
  forall (sch : schedule) (m : gmethod), In m (gf_methods g) -> gm_entry m = true ->
    escapes (S (length (gf_methods g))) (gf_decorator_catches g) (gf_methods g) sch (gm_name m) = false.
Proof.
  unfold guard_discipline. intros H sch m Hin He.
  apply andb_true_iff in H. destruct H as [H _].
  apply andb_true_iff in H. destruct H as [Hd Hc].
  rewrite Hd. rewrite forallb_forall in Hc. specialize (Hc m Hin). rewrite He in Hc. simpl in Hc.
  apply contained_no_escape. exact Hc.
Qed.

(* the model of the (repaired) write path: for every adapter state — in particular for every
   failure schedule of the backend — a write returns WriteResults, one per event, and never raises *)
Lemma add_interval_one a w : exists r, snd (add_interval a w) = [r].
Proof.
  unfold add_interval. destruct (cal_tz a) as [a1 [ctz|]]; [|eexists; reflexivity].
  destruct (tick (a_b a1)) as [b2 [|]]; [|eexists; reflexivity].
  destruct (b_store b2 (prepare ctz w)) as [b3 [id|]]; eexists; reflexivity.
Qed.

Lemma add_recurring_one a p : exists r, snd (add_recurring a p) = [r].
Proof.
  unfold add_recurring.
  destruct (if p_dur p =? DAY then cal_tz a else (a, Some None)) as [a1 [ctz|]]; [|eexists; reflexivity].
  destruct (tick (a_b a1)) as [b2 [|]]; [|eexists; reflexivity].
  match goal with |- context [b_store b2 ?q] => destruct (b_store b2 q) as [b3 [id|]] end; eexists; reflexivity.
Qed.

Lemma delete_by_one a n : exists r, snd (delete_by a n) = [r].
Proof.
  unfold delete_by. destruct (tick (a_b a)) as [b1 [|]]; simpl negb; cbv iota; [|eexists; reflexivity].
  destruct n as [k|]; [|eexists; reflexivity].
  destruct (find_ev k (bs_store b1)); eexists; reflexivity.
Qed.

Lemma remove_interval_one a ev : exists r, snd (remove_interval a ev) = [r].
Proof.
  unfold remove_interval. destruct (e_rid ev) as [m|]; [|apply delete_by_one].
  unfold remove_instance. destruct (tick (a_b a)) as [b1 [|]]; simpl negb; cbv iota; [|eexists; reflexivity].
  destruct (find_ev m (bs_store b1)) as [st|]; [|eexists; reflexivity].
  destruct (s_rec st) as [r|]; [|eexists; reflexivity].
  destruct (parse_exdates (r_line r)) as [base existing].
  destruct (in_exd (format_exdate (e_s ev)) existing); [eexists; reflexivity|].
  destruct (tick b1) as [b2 [|]]; simpl negb; cbv iota; eexists; reflexivity.
Qed.

Lemma remove_series_one a ev : exists r, snd (remove_series a ev) = [r].
Proof. unfold remove_series. apply delete_by_one. Qed.

Lemma exec_batch_len : forall l b, length (snd (exec_batch b l)) = length l.
Proof.
  induction l as [|[w q] r IH]; intro b; [reflexivity|].
  cbn [exec_batch]. destruct (tick b) as [b1 ok].
  match goal with |- context [let '(b2, res) := ?X in _] => destruct X as [b2 res] end.
  specialize (IH b2). destruct (exec_batch b2 r) as [b3 rest]. cbn in *. f_equal. exact IH.
Qed.

Lemma build_batch_len : forall l a acc a' reqs,
  build_batch a l acc = (a', Some reqs) -> length reqs = (length l + length acc)%nat.
Proof.
  induction l as [|w r IH]; intros a acc a' reqs H; cbn [build_batch] in H.
  - injection H as _ Hr. subst reqs. rewrite rev_length. reflexivity.
  - destruct (cal_tz a) as [a1 [ctz|]]; [|discriminate].
    destruct (tick (a_b a1)) as [b2 [|]]; cbn [negb] in H; cbv iota in H; [|discriminate].
    destruct (tick b2) as [b3 [|]]; cbn [negb] in H; cbv iota in H; [|discriminate].
    destruct (tick b3) as [b4 [|]]; cbn [negb] in H; cbv iota in H; [|discriminate].
    rewrite (IH _ _ _ _ H). simpl. lia.
Qed.

Lemma add_many_len a l : length (snd (add_many a l)) = length l.
Proof.
  unfold add_many. destruct l as [|w0 r0]; [reflexivity|]. cbv iota.
  remember (w0 :: r0) as l eqn:El. clear El.
  destruct (tick (a_b a)) as [b1 ok1]. destruct ok1; cbn [negb]; cbv iota.
  2:{ cbn [snd]. apply map_length. }
  destruct (build_batch (with_b a b1) l []) as [a2 [reqs|]] eqn:E.
  2:{ cbn [snd]. apply map_length. }
  destruct (tick (a_b a2)) as [b3 ok3]. destruct ok3; cbn [negb]; cbv iota.
  2:{ cbn [snd]. apply map_length. }
  pose proof (exec_batch_len reqs b3) as HL. destruct (exec_batch b3 reqs) as [b4 res]. cbn [snd] in *.
  rewrite HL, (build_batch_len _ _ _ _ _ E). cbn [length]. lia.
Qed.

Definition is_write (o : op) : bool := match o with OFetch _ _ _ | OSlice _ _ _ => false | _ => true end.
Definition expected_results (o : op) : nat := match o with OAddMany l => length l | _ => 1%nat end.

Theorem model_writes_never_raise (a : astate) (outs : list out) (o : op) :
  is_write o = true ->
  match snd (step a outs o) with
  | OWrite (Some rs) => length rs = expected_results o
  | OSkip => True
  | _ => False
  end.
Proof.
  destruct o; simpl; intro H; try discriminate.
  - destruct (add_interval_one a w) as [r Hr]. destruct (add_interval a w); simpl in *. rewrite Hr. reflexivity.
  - pose proof (add_many_len a l) as Hl. destruct (add_many a l); simpl in *. exact Hl.
  - destruct (add_recurring_one a p) as [r Hr]. destruct (add_recurring a p); simpl in *. rewrite Hr. reflexivity.
  - destruct (lookup outs ref k) as [ev|]; simpl; [|exact I].
    destruct (remove_interval_one a ev) as [r Hr]. destruct (remove_interval a ev); simpl in *. rewrite Hr. reflexivity.
  - destruct (lookup outs ref k) as [ev|]; simpl; [|exact I].
    destruct (remove_series_one a ev) as [r Hr]. destruct (remove_series a ev); simpl in *. rewrite Hr. reflexivity.
Qed.
(* ========================================================================================== *)
(* 3. read conversion is exact                                                                 *)

(* zone hypothesis: converting an instant to the wall clock (with its fold) and back is the identity *)
Definition zone_rt (z : zone) : Prop := forall t, wall_to_utc z (utc_to_wall z t) (fold_of z t) = t.

Lemma utc_zone_rt : zone_rt utc_zone.
Proof. intro t. unfold wall_to_utc, utc_to_wall, wall_offset, offset_at, utc_zone; simpl. lia. Qed.

(* a row agrees with the backend's truth: an all-day row's instants are the local midnights of
   its dates in the calendar's zone, a timed row presents its instants *)
Definition row_wf (b : bstate) (w : row) : Prop :=
  if s_allday (w_ev w)
  then w_s w = midnight (bs_zone b) (w_k0 w) /\ w_e w = option_map (midnight (bs_zone b)) (w_k1 w)
  else w_s w = w_k0 w /\ w_e w = w_k1 w.

Definition pres_ok (b : bstate) (st : sev) : Prop :=
  match s_pres st with
  | KFixed => True
  | KZone => zone_rt (ev_zone b st)
  | KNaive => zone_rt (tz_or_utc (s_tz st))
  end.

Lemma present_t_ts b st t zf :
  pres_ok b st -> (s_pres st = KNaive -> zf = tz_or_utc (s_tz st)) ->
  pres_ts (present_t b st t) zf = t.
Proof.
  unfold pres_ok, present_t. destruct (s_pres st); intros Hz Hn; simpl.
  - apply Hz.
  - lia.
  - rewrite (Hn eq_refl). apply Hz.
Qed.

Theorem read_span_exact (a a' : astate) (w : row) (ev : aev) :
  a_tz a = Some (Some (bs_zone (a_b a))) ->
  row_wf (a_b a) w ->
  (s_allday (w_ev w) = false -> pres_ok (a_b a) (w_ev w)) ->
  (s_allday (w_ev w) = false -> s_pres (w_ev w) = KNaive -> is_all_day_event (present (a_b a) w) = false) ->
  convert a (present (a_b a) w) = (a', Some (Some ev)) ->
  e_s ev = w_s w /\ Some (e_e ev) = w_e w /\ Some (e_id ev) = w_id w /\ Some (e_sum ev) = s_sum (w_ev w) /\
  e_rid ev = w_rid w /\ e_desc ev = s_desc (w_ev w) /\
  (s_allday (w_ev w) = true -> e_allday ev = true).
Proof.
  intros Htz Hwf Hp Hn H.
  set (b := a_b a) in *. set (e := present b w) in *.
  assert (Eid : b_id e = w_id w) by reflexivity.
  assert (Esum : b_sum e = s_sum (w_ev w)) by reflexivity.
  assert (Etz : b_tz e = s_tz (w_ev w)) by reflexivity.
  assert (Erid : b_rid e = w_rid w) by reflexivity.
  assert (Edesc : b_desc e = s_desc (w_ev w)) by reflexivity.
  assert (Etime : b_time e = if s_allday (w_ev w) then BDate (w_k0 w) (w_k1 w)
                             else BTimed (present_t b (w_ev w) (w_k0 w)) (option_map (present_t b (w_ev w)) (w_k1 w)))
    by reflexivity.
  unfold convert in H. rewrite Eid, Esum in H.
  destruct (w_id w) as [id|]; [|discriminate].
  destruct (s_sum (w_ev w)) as [sm|]; [|discriminate].
  destruct (has_end e) eqn:Hend; [|discriminate].
  unfold row_wf in Hwf. fold b in Hwf.
  destruct (s_allday (w_ev w)) eqn:Had.
  - (* all-day *)
    assert (Had' : is_all_day_event e = true).
    { unfold is_all_day_event. rewrite Etime. unfold has_end in Hend. rewrite Etime in Hend.
      destruct (w_k1 w); [reflexivity|discriminate]. }
    rewrite Had' in H. unfold cal_tz in H. rewrite Htz in H. fold b in H. rewrite Etime in H.
    unfold has_end in Hend. rewrite Etime in Hend.
    destruct (w_k1 w) as [k1|]; [|discriminate].
    injection H as _ Hev. subst ev. cbn. destruct Hwf as [Hs He]. rewrite Hs, He.
    repeat split; reflexivity.
  - (* timed *)
    specialize (Hp eq_refl). specialize (Hn eq_refl).
    unfold has_end in Hend. rewrite Etime in Hend.
    destruct (w_k1 w) as [k1|] eqn:Hk1; [|discriminate].
    destruct Hwf as [Hs He].
    destruct (is_all_day_event e) eqn:Hade.
    + unfold cal_tz in H. rewrite Htz in H. fold b in H. rewrite Etime in H. cbn [option_map] in H.
      injection H as _ Hev. subst ev. cbn.
      assert (Hz : s_pres (w_ev w) = KNaive -> bs_zone b = tz_or_utc (s_tz (w_ev w))).
      { intro Hk. specialize (Hn Hk). rewrite Hn in Hade. discriminate. }
      rewrite !(present_t_ts b (w_ev w) _ (bs_zone b) Hp Hz).
      rewrite Hs, He. repeat split; try reflexivity; try (intro; discriminate).
    + rewrite Etime in H. cbn [option_map] in H.
      injection H as _ Hev. subst ev. cbn.
      assert (Hz : s_pres (w_ev w) = KNaive -> tz_or_utc (b_tz e) = tz_or_utc (s_tz (w_ev w))).
      { intros _. rewrite Etz. reflexivity. }
      rewrite !(present_t_ts b (w_ev w) _ (tz_or_utc (b_tz e)) Hp Hz).
      rewrite Hs, He. repeat split; try reflexivity; try (intro; discriminate).
Qed.

(* ========================================================================================== *)
(* 4. an event added through the adapter reads back with the same span                         *)

(* t is not the repeated half of an ambiguous wall-clock time of the zone (fold = 0) *)
Definition unfolded (z : zone) (t : Z) : Prop := wall_to_utc z (utc_to_wall z t) false = t.

Lemma midnight_local_date z t :
  utc_to_wall z t mod DAY = 0 -> unfolded z t -> midnight z (local_date (Some z) t) = t.
Proof.
  unfold midnight, local_date, tz_or_utc, unfolded. intros Hm Hu.
  replace (utc_to_wall z t / DAY * DAY) with (utc_to_wall z t); [exact Hu|].
  pose proof (Z_div_mod_eq_full (utc_to_wall z t) DAY) as Hd. unfold DAY in *. lia.
Qed.

Theorem add_then_read (a a1 : astate) (w : wev) (id : N) (ad : bool) (s e : Z) :
  a_tz a = Some (Some (bs_zone (a_b a))) ->
  add_interval a w = (a1, [(true, Some (EId id, s, e, ad))]) ->
  (ad = true ->
   let z := bs_zone (a_b a) in
   utc_to_wall z (v_s w) mod DAY = 0 /\ utc_to_wall z (v_e w) mod DAY = 0 /\
   unfolded z (v_s w) /\ unfolded z (v_e w)) ->
  s = v_s w /\ e = v_e w /\
  exists st r,
    In st (bs_store (a_b a1)) /\ rows_of_ev (a_b a1) None None st = [r] /\
    w_id r = Some (EId id) /\ w_s r = v_s w /\ w_e r = Some (v_e w) /\
    forall a2 ev, convert a1 (present (a_b a1) r) = (a2, Some (Some ev)) ->
                  e_s ev = v_s w /\ e_e ev = v_e w /\ e_id ev = EId id.
Proof.
  intros Htz H Hall. unfold add_interval, cal_tz in H. rewrite Htz in H.
  set (z := bs_zone (a_b a)) in *.
  set (q := prepare (Some z) w) in *.
  destruct (tick (a_b a)) as [b2 ok] eqn:Htick. destruct ok; [|discriminate].
  assert (Hz2 : bs_zone b2 = z) by (unfold tick in Htick; injection Htick as <- _; reflexivity).
  unfold b_store in H.
  destruct (if q_allday q then q_e q <=? q_s q else q_e q <? q_s q); [discriminate|].
  injection H as <- <- <- <- <-.
  split; [reflexivity|]. split; [reflexivity|].
  set (st := mkSev (Some (bs_next b2)) (q_sum q) (q_desc q) (q_tz q) (q_rem q) false (q_allday q) (q_s q)
                   (Some (q_e q)) KZone (q_rec q)).
  set (b3 := mkBS (bs_zone b2) (bs_store b2 ++ [st]) (N.succ (bs_next b2)) (bs_calls b2) (bs_fail b2)).
  assert (Hrec : q_rec q = None) by (unfold q, prepare; destruct (match v_allday w with Some x => x | None => _ end); reflexivity).
  assert (Hspan : span_of b3 st = (v_s w, Some (v_e w))).
  { unfold span_of. cbn [s_allday s_s s_e st bs_zone b3 option_map]. rewrite Hz2.
    unfold q, prepare in *.
    destruct (match v_allday w with Some x => x | None => infer_all_day (v_s w) (v_e w) (Some z) end) eqn:Had;
      cbn [q_allday q_s q_e] in *.
    - destruct (Hall eq_refl) as (M1 & M2 & U1 & U2).
      rewrite (midnight_local_date z _ M1 U1), (midnight_local_date z _ M2 U2). reflexivity.
    - reflexivity. }
  set (r := mkRow st (Some (EId (bs_next b2))) None (v_s w) (Some (v_e w)) (s_s st) (s_e st)).
  exists st, r. cbn [a_b with_b].
  assert (Hrows : rows_of_ev b3 None None st = [r]).
  { unfold rows_of_ev. cbn [s_rec st]. rewrite Hrec, Hspan. reflexivity. }
  split; [cbn; apply in_or_app; right; left; reflexivity|].
  split; [exact Hrows|]. split; [reflexivity|]. split; [reflexivity|]. split; [reflexivity|].
  intros a2 ev Hc.
  assert (Hwf : row_wf b3 r).
  { unfold row_wf. cbn [w_ev r w_s w_e w_k0 w_k1].
    unfold span_of in Hspan. destruct (s_allday st); injection Hspan as <- <-; split; reflexivity. }
  pose proof (read_span_exact (with_b a b3) a2 r ev) as R. cbn [a_b with_b a_tz] in R.
  destruct R as (R1 & R2 & R3 & _).
  - rewrite Htz. cbn. rewrite Hz2. reflexivity.
  - exact Hwf.
  - intro Hf. unfold pres_ok. cbn [w_ev r s_pres st].
    (* a timed event is written with timezone "UTC" *)
    assert (Htzq : q_tz q = Some utc_zone).
    { cbn [s_allday st w_ev r] in Hf. unfold q, prepare in *.
      destruct (match v_allday w with Some x => x | None => _ end); [discriminate Hf|reflexivity]. }
    unfold ev_zone. cbn [s_tz st]. rewrite Htzq. apply utc_zone_rt.
  - intros _ Hk. discriminate Hk.
  - exact Hc.
  - cbn [w_s w_e w_id r] in *. injection R2 as R2. injection R3 as R3. auto.
Qed.

Corollary read_all_day_midnights (a a' : astate) (w : row) (ev : aev) (d1 : Z) :
  a_tz a = Some (Some (bs_zone (a_b a))) -> row_wf (a_b a) w ->
  s_allday (w_ev w) = true -> w_k1 w = Some d1 ->
  convert a (present (a_b a) w) = (a', Some (Some ev)) ->
  e_s ev = wall_to_utc (bs_zone (a_b a)) (w_k0 w * DAY) false /\
  e_e ev = wall_to_utc (bs_zone (a_b a)) (d1 * DAY) false.
Proof.
  intros Htz Hwf Had Hk H.
  destruct (read_span_exact a a' w ev Htz Hwf) as (R1 & R2 & _); try (rewrite Had; intros; discriminate); [exact H|].
  unfold row_wf in Hwf. rewrite Had in Hwf. destruct Hwf as [Hs He]. rewrite Hk in He. cbn in He.
  rewrite He in R2. injection R2 as R2. rewrite R1, R2, Hs. split; reflexivity.
Qed.
