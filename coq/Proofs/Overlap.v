(* Proofs/Overlap.v — property C16: overlapping(p) returns the members of the unbounded
   evaluation ([ref], Spec/Sets.v) whose span contains p, unclipped ([ov_expected],
   Spec/TransformSpec.v).  Models: Timeline.overlapping, Difference.overlapping and
   Complement.overlapping of calgebra/core.py ([overlapping] in Model/Expr.v).

   (a) stored timeline: exactly the stored events containing p, whole, in store order;
   (b) union / filter / buffer over stored leaves: the same up to the order of the list;
   (c) difference of a stored timeline by stored subtractors: the surviving fragment around p of
       every source event containing p, carved by ALL subtractors however far they reach (the
       code fetches them over the source event's own span, which is enough); nothing when p is
       removed.  The source events may overlap each other here, because overlapping() sweeps
       one source event at a time;
   (d) complement of a stored timeline whose store is sorted and non-overlapping (partial: the
       left edge comes from a reverse sweep that is only right when the ends are monotone):
       nothing when p is covered, otherwise the single maximal gap around p.  The refuting
       witness for nested events is kept ([compl_overlapping_nested_refuted]). *)
From CG Require Import Proofs.Defs.
From CG Require Import Spec.TransformSpec Proofs.Stored Proofs.RefSpec Proofs.Merge Proofs.Diff
     Proofs.Negate Proofs.Compl Proofs.Transform.

(* ------------------------------------------------------------------------------------ *)
(* generic list facts *)

Lemma Permutation_filter {A} (f : A -> bool) l1 l2 :
  Permutation l1 l2 -> Permutation (filter f l1) (filter f l2).
Proof.
  induction 1 as [|x l l' P IH|x y l|l l' l'' P1 IH1 P2 IH2]; cbn [filter].
  - constructor.
  - destruct (f x); [constructor|]; exact IH.
  - destruct (f x), (f y); try reflexivity. apply perm_swap.
  - eapply Permutation_trans; eassumption.
Qed.

Lemma filter_flat_map {A B} (f : B -> bool) (g : A -> list B) l :
  filter f (flat_map g l) = flat_map (fun x => filter f (g x)) l.
Proof.
  induction l as [|x r IH]; [reflexivity|]. cbn [flat_map]. rewrite filter_app, IH. reflexivity.
Qed.

Lemma filter_map_comm {A B} (f : B -> bool) (g : A -> B) l :
  filter f (map g l) = map g (filter (fun x => f (g x)) l).
Proof.
  induction l as [|x r IH]; [reflexivity|]. cbn [map filter]. destruct (f (g x)); cbn [map]; rewrite IH; reflexivity.
Qed.

Lemma filter_comm {A} (f g : A -> bool) l : filter f (filter g l) = filter g (filter f l).
Proof. rewrite !filter_filter. apply filter_ext. intro a. apply andb_comm. Qed.

(* a test that implies the filter's test does not see the filter *)
Lemma filter_filter_keep {A} (f q : A -> bool) l :
  (forall x, In x l -> f x = true -> q x = true) -> filter f (filter q l) = filter f l.
Proof.
  intro H. rewrite filter_filter. apply filter_ext_in. intros a Ha.
  destruct (f a) eqn:E; [rewrite (H a Ha E); reflexivity|apply andb_false_r].
Qed.

Lemma existsb_filter_keep {A} (f q : A -> bool) l :
  (forall x, In x l -> f x = true -> q x = true) -> existsb f (filter q l) = existsb f l.
Proof.
  induction l as [|x r IH]; intro H; [reflexivity|]. cbn [filter existsb].
  assert (IH' : existsb f (filter q r) = existsb f r) by (apply IH; intros z Hz; apply H; right; exact Hz).
  destruct (q x) eqn:E; cbn [existsb]; rewrite IH'; [reflexivity|].
  destruct (f x) eqn:F; [|reflexivity]. rewrite (H x (or_introl eq_refl) F) in E. discriminate.
Qed.

Lemma covers_filter_keep (q : ivl -> bool) l t :
  (forall x, In x l -> inside x t = true -> q x = true) -> covers (filter q l) t = covers l t.
Proof. intro H. unfold covers. apply existsb_filter_keep. exact H. Qed.

Lemma first_some_filter_keep {A} (f q : ivl -> bool) (g : ivl -> A) l :
  (forall x, In x l -> f x = true -> q x = true) -> first_some f g (filter q l) = first_some f g l.
Proof.
  induction l as [|x r IH]; intro H; [reflexivity|]. cbn [filter first_some].
  assert (IH' : first_some f g (filter q r) = first_some f g r) by (apply IH; intros z Hz; apply H; right; exact Hz).
  destruct (q x) eqn:E; cbn [first_some]; rewrite IH'; [reflexivity|].
  destruct (f x) eqn:F; [|reflexivity]. rewrite (H x (or_introl eq_refl) F) in E. discriminate.
Qed.

Lemma first_some_map {A} (f : ivl -> bool) (g : ivl -> A) (h : ivl -> ivl) l :
  first_some f g (map h l) = first_some (fun x => f (h x)) (fun x => g (h x)) l.
Proof.
  induction l as [|x r IH]; [reflexivity|]. cbn [map first_some]. rewrite IH. reflexivity.
Qed.

Lemma first_some_spec {A} (f : ivl -> bool) (g : ivl -> A) l :
  match first_some f g l with
  | Some v => exists l1 x l2, l = l1 ++ x :: l2 /\ f x = true /\ v = g x /\
                              forall z, In z l1 -> f z = false
  | None => forall x, In x l -> f x = false
  end.
Proof.
  induction l as [|x r IH]; cbn [first_some]; [intros ? []|].
  destruct (f x) eqn:F.
  - exists [], x, r. repeat split; auto. intros z [].
  - destruct (first_some f g r) as [v|].
    + destruct IH as (l1 & y & l2 & E & Fy & V & B). exists (x :: l1), y, l2.
      rewrite E. repeat split; auto. intros z [<-|Hz]; auto.
    + intros z [<-|Hz]; auto.
Qed.

Lemma flat_map_singleton {A} (l : list A) : flat_map (fun x => [x]) l = l.
Proof. induction l as [|x r IH]; [reflexivity|]. cbn [flat_map app]. rewrite IH. reflexivity. Qed.

(* containing p forces a positive length *)
Lemma contains_pos_len p x : contains p x = true -> pos_len x = true.
Proof. unfold contains, pos_len. lia. Qed.

Lemma contains_inside p x : contains p x = inside x p.
Proof. reflexivity. Qed.

(* ------------------------------------------------------------------------------------ *)
(* (a) stored timelines *)

(* an event containing p passes the window test of fetch(p, p+1) *)
Lemma contains_in_range p x : contains p x = true -> in_range (Some p) (Some (p + 1)) x = true.
Proof. unfold contains, in_range. lia. Qed.

(* every stored event containing p is returned whole, and nothing else; in store order *)
Theorem overlapping_stored env evs p :
  overlapping env (Stored evs) p = filter (contains p) (sl_build evs).
Proof.
  change (overlapping env (Stored evs) p)
    with (filter (contains p) (fetch_static (sl_build evs) (Some p) (Some (p + 1)) false)).
  rewrite (proj1 (fetch_static_spec (sl_build evs) _ _ (sl_build_sorted evs))).
  apply filter_filter_keep. intros x _. apply contains_in_range.
Qed.

Corollary overlapping_stored_in env evs p x :
  In x (overlapping env (Stored evs) p) <-> In x evs /\ fstart x <= p < fend x.
Proof.
  rewrite overlapping_stored, filter_In, sl_build_in. unfold contains. split; intros [A B]; split; auto; lia.
Qed.

Lemma ov_expected_stored env evs p : ov_expected env (Stored evs) p = filter (contains p) evs.
Proof.
  unfold ov_expected. cbn [ref]. apply filter_filter_keep.
  intros x _. apply contains_pos_len.
Qed.

Theorem overlapping_stored_spec env evs p :
  Permutation (overlapping env (Stored evs) p) (ov_expected env (Stored evs) p).
Proof.
  rewrite overlapping_stored, ov_expected_stored. apply Permutation_filter, sl_build_perm.
Qed.

(* ------------------------------------------------------------------------------------ *)
(* (b) union, filter, buffer over stored leaves *)

(* the base implementation: filter of fetch(p, p+1) *)
Definition fetch_ov (env : fenv) (e : expr) (p : Z) : list ivl :=
  filter (contains p) (fetch env e (Some p) (Some (p + 1)) false).

Definition ov_exact (env : fenv) (e : expr) (p : Z) : Prop :=
  Permutation (fetch_ov env e p) (ov_expected env e p).

Lemma ov_exact_stored env evs p : ov_exact env (Stored evs) p.
Proof. apply overlapping_stored_spec. Qed.

(* filter: keeps the property of its source *)
Theorem ov_exact_filt env s f p : ov_exact env s p -> ov_exact env (Filt s f) p.
Proof.
  unfold ov_exact, fetch_ov, ov_expected. cbn [fetch ref]. intro H.
  rewrite (filter_comm (contains p) (feval env f) (fetch env s _ _ false)).
  rewrite (filter_comm (contains p) (feval env f) (ref env s)).
  apply Permutation_filter. exact H.
Qed.

(* union: keeps the property of its operands (heapq.merge only reorders) *)
Theorem ov_exact_union env es p : Forall (fun s => ov_exact env s p) es -> ov_exact env (Union es) p.
Proof.
  unfold ov_exact, fetch_ov, ov_expected. cbn [fetch ref]. intro H.
  eapply Permutation_trans; [apply Permutation_filter, merge_perm|].
  induction H as [|s r Hs Hr IH]; [constructor|].
  cbn [map concat flat_map]. rewrite !filter_app. apply Permutation_app; assumption.
Qed.

(* buffer of a stored timeline *)
Lemma contains_widened before after p x :
  0 <= before -> 0 <= after -> contains p (buf_shift before after x) = true ->
  in_range (addO (Some p) (- after)) (addO (Some (p + 1)) before) x = true.
Proof.
  intros Hb Ha Hc. destruct (in_range _ _ x) eqn:E; [reflexivity|].
  pose proof (widened_range_complete before after (Some p) (Some (p + 1)) x Hb Ha E) as H.
  cbn [bnd_lo bnd_hi] in H. unfold contains in Hc. lia.
Qed.

(* the extended events containing p, in store order: an event lying before or after p that
   reaches p only after extension is returned *)
Theorem overlapping_buf_stored env evs before after p :
  0 <= before -> 0 <= after ->
  overlapping env (Buf (Stored evs) before after) p =
  filter (contains p) (map (buf_shift before after) (sl_build evs)).
Proof.
  intros Hb Ha.
  change (overlapping env (Buf (Stored evs) before after) p)
    with (filter (contains p) (fetch env (Buf (Stored evs) before after) (Some p) (Some (p + 1)) false)).
  rewrite fetch_buf_stored_filter, !filter_map_comm. f_equal.
  apply filter_filter_keep. intros x _. apply contains_widened; assumption.
Qed.

Theorem ov_exact_buf_stored env evs before after p :
  0 <= before -> 0 <= after -> (forall x, In x evs -> pos_len x = true) ->
  ov_exact env (Buf (Stored evs) before after) p.
Proof.
  intros Hb Ha Hp. unfold ov_exact.
  change (fetch_ov env (Buf (Stored evs) before after) p)
    with (overlapping env (Buf (Stored evs) before after) p).
  rewrite overlapping_buf_stored by assumption.
  unfold ov_expected. cbn [ref]. rewrite (filter_pos_len_all evs Hp).
  apply Permutation_filter, Permutation_map, sl_build_perm.
Qed.

(* the class of expressions covered by (a) and (b), closed under union and filter *)
Fixpoint ov_leaf (e : expr) : bool :=
  match e with
  | Stored _ => true
  | Union es => forallb ov_leaf es
  | Filt s _ => ov_leaf s
  | Buf s before after =>
    match s with
    | Stored evs => (0 <=? before) && (0 <=? after) && forallb pos_len evs
    | _ => false
    end
  | _ => false
  end.

Theorem ov_leaf_exact env p : forall e, ov_leaf e = true ->
  overlapping env e p = fetch_ov env e p /\ ov_exact env e p.
Proof.
  fix IH 1. intros e He. destruct e as [evs| |es|es|s subs|s|s f|s before after|s g]; try discriminate.
  - split; [reflexivity|apply ov_exact_stored].
  - split; [reflexivity|]. apply ov_exact_union. cbn [ov_leaf] in He.
    induction es as [|s r IHes]; [constructor|].
    cbn [forallb] in He. apply andb_true_iff in He as [H1 H2].
    constructor; [exact (proj2 (IH s H1))|exact (IHes H2)].
  - split; [reflexivity|]. apply ov_exact_filt. cbn [ov_leaf] in He. exact (proj2 (IH s He)).
  - destruct s as [evs| | | | | | | |]; try discriminate. cbn [ov_leaf] in He.
    rewrite !andb_true_iff in He. destruct He as [[Hb Ha] Hp]. rewrite forallb_forall in Hp.
    split; [reflexivity|]. apply ov_exact_buf_stored; [lia|lia|exact Hp].
Qed.

(* overlapping(p) on leaves = members of the unbounded evaluation containing p, unclipped *)
Corollary overlapping_leaf_spec env e p : ov_leaf e = true ->
  Permutation (overlapping env e p) (ov_expected env e p).
Proof. intro H. destruct (ov_leaf_exact env p e H) as [E P]. rewrite E. exact P. Qed.

(* ------------------------------------------------------------------------------------ *)
(* (c) difference *)

Lemma overlapping_diff_cons env s u us p :
  overlapping env (Diff s (u :: us)) p =
  flat_map (fun src =>
              filter (contains p)
                     (diff_sweep [src] (map (fun v => fetch env v (st src) (en src) false) (u :: us))))
           (overlapping env s p).
Proof. reflexivity. Qed.

(* one source event at a time: the sweep gives its maximal runs outside all subtractor events.
   A one-element source is trivially non-overlapping, so overlapping sources are fine here. *)
Theorem diff_sweep_single x sub_streams :
  wf_ivl x -> canon_ivl x -> merged_ok sub_streams ->
  diff_sweep [x] sub_streams = minus_runs x (concat sub_streams).
Proof.
  intros Hw Hc Hm. rewrite diff_sweep_minus_runs; auto.
  - cbn [flat_map]. apply app_nil_r.
  - simpl. split; [intros ? []|exact I].
Qed.

Corollary diff_sweep_single_contains x sub_streams p :
  wf_ivl x -> canon_ivl x -> merged_ok sub_streams ->
  filter (contains p) (diff_sweep [x] sub_streams) =
  filter (contains p) (minus_runs x (concat sub_streams)).
Proof. intros. rewrite diff_sweep_single by assumption. reflexivity. Qed.

(* it does not matter that the subtractors are fetched over x's span only: two hole lists that
   cover the same instants INSIDE x give the same runs *)
Theorem minus_runs_ext_local x h1 h2 :
  wf_ivl x -> canon_ivl x -> (forall t, inside x t = true -> covers h1 t = covers h2 t) ->
  minus_runs x h1 = minus_runs x h2.
Proof.
  intros Hw Hc Hcov.
  destruct (minus_runs_spec x h1 Hw Hc) as (A1 & A2 & A3).
  destruct (minus_runs_spec x h2 Hw Hc) as (B1 & B2 & B3).
  apply (runs_unique (pl x)); auto.
  - intros f Hf. apply frag_of_run_ok; auto.
  - intros f Hf. apply frag_of_run_ok; auto.
  - intro t. rewrite A3, B3. destruct (inside x t) eqn:E; [|reflexivity].
    rewrite (Hcov t E). reflexivity.
Qed.

(* a fragment of x contains p only if x does *)
Lemma minus_runs_contains x holes p f :
  In f (minus_runs x holes) -> contains p f = true -> contains p x = true.
Proof.
  intros Hf Hc. destruct (proj1 (minus_runs_shape x holes) f Hf) as (_ & A & B & _).
  unfold contains in *. lia.
Qed.

(* stored subtractors fetched over a window: sorted, well formed, merged correctly *)
Lemma sortedP_sorted_le l : sortedP l -> sorted_le key_le l.
Proof. induction l as [|x r IH]; simpl; [tauto|]. intros [H1 H2]. split; auto. Qed.

Lemma merged_ok_stored env subss a b :
  Forall (Forall wf_ivl) subss ->
  merged_ok (map (fun v => fetch env v a b false) (map Stored subss)).
Proof.
  intro Hwf. rewrite map_map. cbn [fetch]. unfold merged_ok. split; [|split].
  - apply Forall_forall. intros x Hx. apply merge_in in Hx as (s & Hs & Hx).
    apply in_map_iff in Hs as (sub & <- & Hsub).
    apply fetch_static_in in Hx as [Hx _]; [|apply sl_build_sorted]. apply (proj1 (sl_build_in _ _)) in Hx.
    rewrite Forall_forall in Hwf. specialize (Hwf sub Hsub). rewrite Forall_forall in Hwf. auto.
  - apply merge_fwd_sorted_start. apply Forall_forall. intros s Hs.
    apply in_map_iff in Hs as (sub & <- & _).
    apply sortedP_sorted_le, sorted_key_P, fetch_static_sorted, sl_build_sorted.
  - intro t. apply covers_merge.
Qed.

(* inside x, the subtractor events fetched over x's span cover what all subtractor events cover *)
Lemma covers_fetch_span sub x t :
  inside x t = true ->
  covers (fetch_static (sl_build sub) (st x) (en x) false) t = covers (filter pos_len sub) t.
Proof.
  intro Hi. rewrite (proj1 (fetch_static_spec (sl_build sub) _ _ (sl_build_sorted sub))).
  rewrite covers_filter_keep.
  - rewrite sl_build_covers. symmetry. apply covers_filter_keep.
    intros y _ Hy. unfold inside, pos_len in *. lia.
  - intros y _ Hy. unfold in_range. unfold inside in *.
    destruct (en x) as [e|] eqn:Ee; destruct (st x) as [s|] eqn:Es;
      rewrite ?(fend_some x _ Ee), ?(fstart_some x _ Es) in Hi; lia.
Qed.

Lemma covers_fetch_span_all env subss x t :
  inside x t = true ->
  covers (concat (map (fun v => fetch env v (st x) (en x) false) (map Stored subss))) t =
  covers (flat_map (ref env) (map Stored subss)) t.
Proof.
  intro Hi. induction subss as [|sub r IH]; [reflexivity|].
  cbn [map concat flat_map]. rewrite !covers_app, IH. cbn [fetch ref].
  rewrite (covers_fetch_span sub x t Hi). reflexivity.
Qed.

(* per source event: what Difference.overlapping computes for it *)
Theorem diff_overlapping_event env subss x p :
  wf_ivl x -> canon_ivl x -> Forall (Forall wf_ivl) subss ->
  filter (contains p)
         (diff_sweep [x] (map (fun v => fetch env v (st x) (en x) false) (map Stored subss))) =
  filter (contains p) (minus_runs x (flat_map (ref env) (map Stored subss))).
Proof.
  intros Hw Hc Hs. rewrite diff_sweep_single; auto using merged_ok_stored.
  f_equal. apply minus_runs_ext_local; auto. intros t Ht. apply covers_fetch_span_all; exact Ht.
Qed.

(* Difference.overlapping over stored operands: the surviving fragment around p of every source
   event containing p, carved by all subtractors however far they reach; nothing when p is
   removed.  The source events may overlap each other. *)
Theorem diff_overlapping_spec_gen env evs subss p :
  Forall wf_ivl evs -> Forall canon_ivl evs -> Forall (Forall wf_ivl) subss ->
  Permutation (overlapping env (Diff (Stored evs) (map Stored subss)) p)
              (ov_expected env (Diff (Stored evs) (map Stored subss)) p).
Proof.
  intros Hwf Hcan Hs. unfold ov_expected. cbn [ref].
  assert (Hpos : filter pos_len evs = evs).
  { apply filter_pos_len_all. intros x Hx. rewrite Forall_forall in Hwf.
    destruct (Hwf x Hx) as (_ & W & _). unfold pos_len. lia. }
  rewrite Hpos. set (H := flat_map (ref env) (map Stored subss)).
  rewrite filter_flat_map.
  assert (E : overlapping env (Diff (Stored evs) (map Stored subss)) p =
              flat_map (fun x => filter (contains p) (minus_runs x H)) (sl_build evs)).
  { destruct subss as [|sub r].
    - change (overlapping env (Diff (Stored evs) (map Stored [])) p) with (overlapping env (Stored evs) p).
      rewrite overlapping_stored. unfold H. cbn [map flat_map].
      change (fun x => filter (contains p) (minus_runs x [])) with (fun x : ivl => filter (contains p) [x]).
      rewrite <- filter_flat_map, flat_map_singleton. reflexivity.
    - change (map Stored (sub :: r)) with (Stored sub :: map Stored r) in *.
      rewrite overlapping_diff_cons, overlapping_stored.
      change (Stored sub :: map Stored r) with (map Stored (sub :: r)) in *.
      rewrite (flat_map_ext_In
                 (fun src => filter (contains p)
                    (diff_sweep [src] (map (fun v => fetch env v (st src) (en src) false) (map Stored (sub :: r)))))
                 (fun x => filter (contains p) (minus_runs x H))).
      + apply flat_map_filter_skip. intros x _ Hx. apply filter_nil. intros f Hf.
        destruct (contains p f) eqn:Ef; [|reflexivity].
        rewrite (minus_runs_contains x H p f Hf Ef) in Hx. discriminate.
      + intros x Hx. apply filter_In in Hx as [Hx _]. apply (proj1 (sl_build_in _ _)) in Hx.
        rewrite Forall_forall in Hwf, Hcan. apply diff_overlapping_event; auto. }
  rewrite E. apply Permutation_flat_map, sl_build_perm.
Qed.

(* the single-subtractor instance *)
Corollary diff_overlapping_spec env evs subs p :
  Forall wf_ivl evs -> Forall canon_ivl evs -> Forall wf_ivl subs ->
  Permutation (overlapping env (Diff (Stored evs) [Stored subs]) p)
              (filter (contains p) (ref env (Diff (Stored evs) [Stored subs]))).
Proof.
  intros Hwf Hcan Hs. apply (diff_overlapping_spec_gen env evs [subs] p); auto.
Qed.

(* membership reading: a returned fragment is a maximal run around p of a source event
   containing p, outside every subtractor event *)
Corollary diff_overlapping_in env evs subs p f :
  Forall wf_ivl evs -> Forall canon_ivl evs -> Forall wf_ivl subs ->
  (In f (overlapping env (Diff (Stored evs) [Stored subs]) p) <->
   exists x, In x evs /\ contains p x = true /\ In f (minus_runs x subs) /\ contains p f = true).
Proof.
  intros Hwf Hcan Hs.
  assert (Hpos : forall l, Forall wf_ivl l -> filter pos_len l = l).
  { intros l Hl. apply filter_pos_len_all. intros x Hx. rewrite Forall_forall in Hl.
    destruct (Hl x Hx) as (_ & W & _). unfold pos_len. lia. }
  pose proof (diff_overlapping_spec env evs subs p Hwf Hcan Hs) as P.
  cbn [ref flat_map] in P. rewrite app_nil_r, (Hpos evs Hwf), (Hpos subs Hs) in P.
  split.
  - intro Hf. apply (Permutation_in _ P) in Hf. apply filter_In in Hf as [Hf Hc].
    apply in_flat_map in Hf as (x & Hx & Hf). exists x. repeat split; auto.
    eapply minus_runs_contains; eauto.
  - intros (x & Hx & _ & Hf & Hc). apply (Permutation_in _ (Permutation_sym P)).
    apply filter_In. split; [|exact Hc]. apply in_flat_map. exists x. auto.
Qed.

(* ------------------------------------------------------------------------------------ *)
(* (d) complement (partial) *)

Lemma overlapping_compl_stored env evs p :
  overlapping env (Compl (Stored evs)) p =
  if existsb (contains p) (fetch_static (sl_build evs) (Some p) (Some (p + 1)) false) then []
  else [mkI (join (first_some (contains p) st
                     (neg_stream (compl_sweep
                                    (neg_stream (fetch_static (sl_build evs) None (Some (p + 1)) true))
                                    (Some (- (p + 1))) None))))
            (join (first_some (fun i => fstart i >? p) st
                              (fetch_static (sl_build evs) (Some p) None false)))
            Plain].
Proof. reflexivity. Qed.

(* the containment test: p is covered by a stored event *)
Lemma compl_ov_test evs p :
  existsb (contains p) (fetch_static (sl_build evs) (Some p) (Some (p + 1)) false) = covers evs p.
Proof.
  rewrite (proj1 (fetch_static_spec (sl_build evs) _ _ (sl_build_sorted evs))).
  rewrite existsb_filter_keep by (intros x _; apply contains_in_range).
  rewrite <- sl_build_covers. reflexivity.
Qed.

(* covered case: the complement has nothing at p.  No hypothesis on the events. *)
Theorem compl_overlapping_covered env evs p :
  covers evs p = true -> overlapping env (Compl (Stored evs)) p = [].
Proof. intro H. rewrite overlapping_compl_stored, compl_ov_test, H. reflexivity. Qed.

(* right edge: the smallest event start after p, None if there is none.  Needs only that the
   store is sorted by start (it is) and the events well formed. *)
Theorem compl_ov_right evs p :
  Forall wf_ivl evs -> NEG_INF <= p ->
  let right := join (first_some (fun i => fstart i >? p) st
                                (fetch_static (sl_build evs) (Some p) None false)) in
  (right = None /\ forall y, In y evs -> fstart y <= p) \/
  (exists y, In y evs /\ right = Some (fstart y) /\ p < fstart y /\
             forall z, In z evs -> p < fstart z -> fstart y <= fstart z).
Proof.
  intros Hwf Hp. cbv zeta. rewrite Forall_forall in Hwf.
  rewrite (proj1 (fetch_static_spec (sl_build evs) _ _ (sl_build_sorted evs))).
  rewrite first_some_filter_keep.
  2:{ intros x Hx Hf. apply (proj1 (sl_build_in _ _)) in Hx. destruct (Hwf x Hx) as (_ & W & _).
      unfold in_range. lia. }
  pose proof (first_some_spec (fun i => fstart i >? p) st (sl_build evs)) as S.
  pose proof (sorted_key_sorted_start _ (sl_build_sorted evs)) as Hs.
  destruct (first_some (fun i => fstart i >? p) st (sl_build evs)) as [v|].
  - right. destruct S as (l1 & y & l2 & E & Fy & V & B). exists y.
    assert (Hy : In y evs) by (apply sl_build_in; rewrite E; apply in_elt).
    split; [exact Hy|]. split; [|split; [lia|]].
    + cbn [join]. rewrite V. destruct (st y) as [z|] eqn:Es.
      * rewrite (fstart_some y z Es). reflexivity.
      * rewrite (fstart_none y Es) in Fy. lia.
    + intros z Hz Hpz. apply (proj2 (sl_build_in _ _)) in Hz. rewrite E in Hz, Hs.
      apply in_app_or in Hz as [Hz|[<-|Hz]].
      * specialize (B z Hz). lia.
      * lia.
      * apply sorted_start_app_r' in Hs. destruct Hs as [Hs _]. apply Hs; exact Hz.
  - left. split; [reflexivity|]. intros y Hy. apply (proj2 (sl_build_in _ _)) in Hy.
    specialize (S y Hy). lia.
Qed.

(* --- left edge --- *)
Lemma filter_disjoint_sorted f l : disjoint_sorted l -> disjoint_sorted (filter f l).
Proof.
  induction l as [|x r IH]; simpl; [tauto|]. intros [H1 H2]. destruct (f x); [|auto].
  simpl. split; [|auto]. intros y Hy. apply filter_In in Hy as [Hy _]. apply H1; exact Hy.
Qed.

Lemma separatedP_cases l a b :
  separatedP l -> In a l -> In b l -> a = b \/ fend a < fstart b \/ fend b < fstart a.
Proof.
  induction l as [|x r IH]; [intros _ []|]. intros [Hx Hr] [<-|Ha] [<-|Hb]; auto.
Qed.

(* what the reverse complement fetch over (-inf, p+1) covers, in negated time: for every instant
   s <= p, its mirror image is in a gap iff no stored event covers s *)
Lemma compl_rev_gaps evs p :
  Forall wf_ivl evs -> disjoint_sorted (sl_build evs) -> NEG_INF <= p -> p + 1 < POS_INF ->
  let G := compl_sweep (neg_stream (fetch_static (sl_build evs) None (Some (p + 1)) true))
                       (Some (- (p + 1))) None in
  (forall k, In k G -> good_gap (- p - 1) POS_INF k) /\ separatedP G /\
  (forall s, NEG_INF <= s <= p -> covers G (- s - 1) = negb (covers evs s)).
Proof.
  intros Hwf Hd Hp1 Hp2. cbv zeta.
  pose proof sentinels_opp as Hopp.
  destruct (fetch_static_spec (sl_build evs) None (Some (p + 1)) (sl_build_sorted evs)) as [E1 E2].
  rewrite E2, E1. set (D := filter (in_range None (Some (p + 1))) (sl_build evs)).
  assert (HwfD : Forall wf_ivl D).
  { apply Forall_forall. intros x Hx. apply filter_In in Hx as [Hx _].
    apply (proj1 (sl_build_in _ _)) in Hx. rewrite Forall_forall in Hwf. auto. }
  assert (HdD : disjoint_sorted D) by (apply filter_disjoint_sorted; exact Hd).
  destruct (neg_rev_disjoint_sorted (rev D) D eq_refl HwfD HdD) as (_ & WN & SN).
  assert (Hwin : wf_win (Some (- (p + 1))) None).
  { unfold wf_win. split; [|split].
    - intros z Hz. injection Hz as <-. lia.
    - intros z Hz. discriminate.
    - cbn [bnd_lo bnd_hi]. lia. }
  destruct (compl_sweep_spec (neg_stream (rev D)) (Some (- (p + 1))) None Hwin WN SN) as (GG & GS & GC).
  cbn [bnd_lo bnd_hi] in GG, GC.
  replace (- (p + 1)) with (- p - 1) in * by lia.
  split; [exact GG|]. split; [exact GS|].
  intros s Hs. rewrite GC by lia. f_equal.
  rewrite covers_neg_stream. replace (- (- s - 1) - 1) with s by lia.
  rewrite (covers_perm (rev D) D s) by (apply Permutation_sym, Permutation_rev).
  unfold D. rewrite covers_filter_keep.
  - apply sl_build_covers.
  - intros y _ Hy. unfold in_range, inside in *. lia.
Qed.

(* left edge: the largest event end at or before p, None if there is none *)
Theorem compl_ov_left evs p :
  Forall wf_ivl evs -> disjoint_sorted (sl_build evs) -> NEG_INF <= p -> p + 1 < POS_INF ->
  covers evs p = false ->
  let left := join (first_some (contains p) st
                      (neg_stream (compl_sweep
                                     (neg_stream (fetch_static (sl_build evs) None (Some (p + 1)) true))
                                     (Some (- (p + 1))) None))) in
  (left = None /\ forall y, In y evs -> p < fend y) \/
  (exists y, In y evs /\ left = Some (fend y) /\ fend y <= p /\
             forall z, In z evs -> fend z <= p -> fend z <= fend y).
Proof.
  intros Hwf Hd Hp1 Hp2 Hunc. cbv zeta.
  destruct (compl_rev_gaps evs p Hwf Hd Hp1 Hp2) as (GG & GS & HC).
  set (G := compl_sweep _ _ _) in *.
  pose proof sentinels_opp as Hopp. rewrite Forall_forall in Hwf.
  unfold neg_stream. rewrite !first_some_map.
  pose proof (first_some_spec (fun x => contains p (neg_ivl x)) (fun x => st (neg_ivl x)) G) as S.
  destruct (first_some (fun x => contains p (neg_ivl x)) (fun x => st (neg_ivl x)) G) as [v|].
  2:{ exfalso. assert (C : covers G (- p - 1) = false).
      { apply covers_false_iff. intros k Hk. specialize (S k Hk). cbv beta in S.
        rewrite contains_inside, inside_neg_reflect in S. exact S. }
      rewrite HC, Hunc in C by lia. discriminate. }
  destruct S as (l1 & k0 & l2 & EG & Fk & V & _). cbv beta in Fk.
  rewrite contains_inside, inside_neg_reflect in Fk.
  assert (Hk0 : In k0 G) by (rewrite EG; apply in_elt).
  destruct (GG k0 Hk0) as (_ & K1 & K2 & K3 & _ & [K4 K5]).
  assert (Ks : fstart k0 = - p - 1) by (unfold inside in Fk; lia).
  (* an instant of a stored event, at or before p, is not in the gap k0 *)
  assert (Hout : forall z, In z evs -> fend z <= p -> inside k0 (- fend z) = false).
  { intros z Hz Hzp. destruct (Hwf z Hz) as (W1 & W2 & W3 & W4 & W5).
    assert (C : covers G (- (fend z - 1) - 1) = false).
    { rewrite HC by lia. apply negb_false_iff. apply covers_true_iff.
      exists z. split; [exact Hz|]. unfold inside. lia. }
    replace (- (fend z - 1) - 1) with (- fend z) in C by lia.
    apply (proj1 (covers_false_iff G (- fend z)) C k0 Hk0). }
  cbn [join]. rewrite V. change (st (neg_ivl k0)) with (negO (en k0)).
  destruct (en k0) as [E|] eqn:Ee.
  - (* bounded gap: its far end (in negated time) is the mirror of an event end *)
    right. pose proof (fend_some k0 E Ee) as Fe.
    assert (HE : E < POS_INF).
    { destruct (Z.eq_dec E POS_INF) as [->|Hne]; [|lia].
      rewrite Fe in K5. specialize (K5 eq_refl). discriminate. }
    assert (C1 : covers G E = false).
    { apply covers_false_iff. intros k1 Hk1.
      destruct (separatedP_cases G k1 k0 GS Hk1 Hk0) as [->|[H|H]]; unfold inside; lia. }
    assert (C2 : covers G (E - 1) = true).
    { apply covers_true_iff. exists k0. split; [exact Hk0|]. unfold inside. lia. }
    pose proof (HC (- E - 1)) as A1. replace (- (- E - 1) - 1) with E in A1 by lia.
    rewrite C1 in A1. specialize (A1 ltac:(lia)). symmetry in A1. apply negb_false_iff in A1.
    pose proof (HC (- E)) as A2. replace (- (- E) - 1) with (E - 1) in A2 by lia.
    rewrite C2 in A2. specialize (A2 ltac:(lia)). symmetry in A2. apply negb_true_iff in A2.
    apply covers_true_iff in A1 as (y & Hy & Iy).
    pose proof (proj1 (covers_false_iff evs (- E)) A2 y Hy) as Iy2.
    assert (Fy : fend y = - E) by (unfold inside in *; lia).
    exists y. split; [exact Hy|]. split; [cbn [negO]; rewrite Fy; reflexivity|]. split; [lia|].
    intros z Hz Hzp. specialize (Hout z Hz Hzp). unfold inside in Hout. lia.
  - (* unbounded gap: no event ends at or before p *)
    left. split; [reflexivity|]. intros y Hy.
    destruct (Z_lt_ge_dec p (fend y)) as [H|H]; [exact H|]. exfalso.
    pose proof (fend_none k0 Ee) as Fe. destruct (Hwf y Hy) as (W1 & W2 & W3 & W4 & W5).
    specialize (Hout y Hy ltac:(lia)). unfold inside in Hout. lia.
Qed.

(* Complement.overlapping on a stored timeline whose store is non-overlapping: nothing when p is
   covered, otherwise the single maximal gap around p *)
Theorem compl_overlapping_spec_partial env evs p :
  Forall wf_ivl evs -> disjoint_sorted (sl_build evs) -> NEG_INF <= p -> p + 1 < POS_INF ->
  (covers evs p = true -> overlapping env (Compl (Stored evs)) p = []) /\
  (covers evs p = false ->
   exists left right,
     overlapping env (Compl (Stored evs)) p = [mkI left right Plain] /\
     ((right = None /\ forall y, In y evs -> fstart y <= p) \/
      (exists y, In y evs /\ right = Some (fstart y) /\ p < fstart y /\
                 forall z, In z evs -> p < fstart z -> fstart y <= fstart z)) /\
     ((left = None /\ forall y, In y evs -> p < fend y) \/
      (exists y, In y evs /\ left = Some (fend y) /\ fend y <= p /\
                 forall z, In z evs -> fend z <= p -> fend z <= fend y))).
Proof.
  intros Hwf Hd Hp1 Hp2. split; [apply compl_overlapping_covered|].
  intro Hunc. rewrite overlapping_compl_stored, compl_ov_test, Hunc.
  eexists. eexists. split; [reflexivity|]. split.
  - apply compl_ov_right; assumption.
  - apply compl_ov_left; assumption.
Qed.

(* --- the same result against the reference semantics: on this domain Complement.overlapping
   is [ov_expected] (the member of minus_runs full_line evs containing p), as a list --- *)

(* the two edges of the maximal uncovered stretch around an uncovered p *)
Definition left_edge (evs : list ivl) (p L : Z) : Prop :=
  NEG_INF <= L <= p /\ (forall t, L <= t <= p -> covers evs t = false) /\
  (L = NEG_INF \/ covers evs (L - 1) = true).
Definition right_edge (evs : list ivl) (p R : Z) : Prop :=
  p < R <= POS_INF /\ (forall t, p <= t < R -> covers evs t = false) /\
  (R = POS_INF \/ covers evs R = true).

Lemma left_edge_unique evs p L1 L2 : left_edge evs p L1 -> left_edge evs p L2 -> L1 = L2.
Proof.
  intros (A1 & A2 & A3) (B1 & B2 & B3).
  destruct (Z.lt_trichotomy L1 L2) as [H|[H|H]]; [exfalso|exact H|exfalso].
  - destruct B3 as [B3|B3]; [lia|]. rewrite (A2 (L2 - 1)) in B3 by lia. discriminate.
  - destruct A3 as [A3|A3]; [lia|]. rewrite (B2 (L1 - 1)) in A3 by lia. discriminate.
Qed.

Lemma right_edge_unique evs p R1 R2 : right_edge evs p R1 -> right_edge evs p R2 -> R1 = R2.
Proof.
  intros (A1 & A2 & A3) (B1 & B2 & B3).
  destruct (Z.lt_trichotomy R1 R2) as [H|[H|H]]; [exfalso|exact H|exfalso].
  - destruct A3 as [A3|A3]; [lia|]. rewrite (B2 R1) in A3 by lia. discriminate.
  - destruct B3 as [B3|B3]; [lia|]. rewrite (A2 R2) in B3 by lia. discriminate.
Qed.

(* the edges described by compl_overlapping_spec_partial are these edges *)
Lemma spec_left_edge evs p left right :
  Forall wf_ivl evs -> NEG_INF <= p -> covers evs p = false ->
  ((left = None /\ forall y, In y evs -> p < fend y) \/
   (exists y, In y evs /\ left = Some (fend y) /\ fend y <= p /\
              forall z, In z evs -> fend z <= p -> fend z <= fend y)) ->
  left_edge evs p (fstart (mkI left right Plain)) /\
  (left = None <-> fstart (mkI left right Plain) = NEG_INF).
Proof.
  intros Hwf Hp Hunc H. rewrite Forall_forall in Hwf.
  pose proof (proj1 (covers_false_iff evs p) Hunc) as U.
  destruct H as [[-> H]|(y & Hy & -> & Hyp & M)].
  - change (fstart (mkI None right Plain)) with NEG_INF. split; [|tauto].
    split; [lia|]. split; [|left; reflexivity].
    intros t Ht. apply covers_false_iff. intros z Hz. specialize (U z Hz). specialize (H z Hz).
    unfold inside in *. lia.
  - change (fstart (mkI (Some (fend y)) right Plain)) with (fend y).
    destruct (Hwf y Hy) as (W1 & W2 & W3 & W4 & W5). split.
    + split; [lia|]. split.
      * intros t Ht. apply covers_false_iff. intros z Hz. specialize (U z Hz). specialize (M z Hz).
        unfold inside in *. lia.
      * right. apply covers_true_iff. exists y. split; [exact Hy|]. unfold inside. lia.
    + split; [discriminate|lia].
Qed.

Lemma spec_right_edge evs p left right :
  Forall wf_ivl evs -> p < POS_INF -> covers evs p = false ->
  ((right = None /\ forall y, In y evs -> fstart y <= p) \/
   (exists y, In y evs /\ right = Some (fstart y) /\ p < fstart y /\
              forall z, In z evs -> p < fstart z -> fstart y <= fstart z)) ->
  right_edge evs p (fend (mkI left right Plain)) /\
  (right = None <-> fend (mkI left right Plain) = POS_INF).
Proof.
  intros Hwf Hp Hunc H. rewrite Forall_forall in Hwf.
  pose proof (proj1 (covers_false_iff evs p) Hunc) as U.
  destruct H as [[-> H]|(y & Hy & -> & Hyp & M)].
  - change (fend (mkI left None Plain)) with POS_INF. split; [|tauto].
    split; [lia|]. split; [|left; reflexivity].
    intros t Ht. apply covers_false_iff. intros z Hz. specialize (U z Hz). specialize (H z Hz).
    unfold inside in *. lia.
  - change (fend (mkI left (Some (fstart y)) Plain)) with (fstart y).
    destruct (Hwf y Hy) as (W1 & W2 & W3 & W4 & W5). split.
    + split; [lia|]. split.
      * intros t Ht. apply covers_false_iff. intros z Hz. specialize (U z Hz). specialize (M z Hz).
        unfold inside in *. lia.
      * right. apply covers_true_iff. exists y. split; [exact Hy|]. unfold inside. lia.
    + split; [discriminate|lia].
Qed.

Lemma inside_full_line t : inside full_line t = (NEG_INF <=? t) && (t <? POS_INF).
Proof. reflexivity. Qed.

Lemma wf_full_line : wf_ivl full_line.
Proof.
  unfold wf_ivl. change (fstart full_line) with NEG_INF. change (fend full_line) with POS_INF.
  pose proof sentinels_opp. unfold POS_INF in *. lia.
Qed.

Lemma canon_full_line : canon_ivl full_line.
Proof. split; discriminate. Qed.

(* among strictly separated intervals at most one contains p *)
Lemma filter_contains_separated l p f :
  separatedP l -> In f l -> contains p f = true -> filter (contains p) l = [f].
Proof.
  induction l as [|x r IH]; [intros _ []|]. intros [Hx Hr] [<-|Hf] Hc; cbn [filter].
  - rewrite Hc. f_equal. apply filter_nil. intros y Hy. specialize (Hx y Hy).
    unfold contains in *. lia.
  - assert (E : contains p x = false) by (specialize (Hx f Hf); unfold contains in *; lia).
    rewrite E. apply IH; assumption.
Qed.

(* a run of the reference complement containing p has these edges too *)
Lemma run_edges evs p f :
  In f (minus_runs full_line evs) -> contains p f = true ->
  left_edge evs p (fstart f) /\ right_edge evs p (fend f).
Proof.
  intros Hf Hc.
  destruct (minus_runs_spec full_line evs wf_full_line canon_full_line) as (RF & RS & RC).
  destruct (RF f Hf) as (_ & (B1 & B2 & B3) & _).
  change (fstart full_line) with NEG_INF in B1. change (fend full_line) with POS_INF in B3.
  unfold contains in Hc.
  assert (In_f : forall t, fstart f <= t < fend f -> covers evs t = false).
  { intros t Ht. assert (C : covers (minus_runs full_line evs) t = true).
    { apply covers_true_iff. exists f. split; [exact Hf|]. unfold inside. lia. }
    rewrite RC, inside_full_line in C. destruct (covers evs t); [|reflexivity].
    rewrite andb_false_r in C. discriminate. }
  assert (Out_f : forall t, NEG_INF <= t < POS_INF -> t = fstart f - 1 \/ t = fend f ->
                            covers evs t = true).
  { intros t Ht Hor. assert (C : covers (minus_runs full_line evs) t = false).
    { apply covers_false_iff. intros k Hk.
      destruct (separatedP_cases _ k f RS Hk Hf) as [->|[H|H]]; unfold inside; lia. }
    rewrite RC, inside_full_line in C. destruct (covers evs t); [reflexivity|].
    rewrite andb_true_r in C. lia. }
  split.
  - split; [lia|]. split; [intros t Ht; apply In_f; lia|].
    destruct (Z.eq_dec (fstart f) NEG_INF) as [E|E]; [left; exact E|right].
    apply Out_f; [lia|left; reflexivity].
  - split; [lia|]. split; [intros t Ht; apply In_f; lia|].
    destruct (Z.eq_dec (fend f) POS_INF) as [E|E]; [left; exact E|right].
    apply Out_f; [lia|right; reflexivity].
Qed.

(* C16 for the complement of a non-overlapping stored timeline *)
Theorem compl_overlapping_expected env evs p :
  Forall wf_ivl evs -> disjoint_sorted (sl_build evs) -> NEG_INF <= p -> p + 1 < POS_INF ->
  overlapping env (Compl (Stored evs)) p = ov_expected env (Compl (Stored evs)) p.
Proof.
  intros Hwf Hd Hp1 Hp2.
  destruct (compl_overlapping_spec_partial env evs p Hwf Hd Hp1 Hp2) as [Hcov Hunc].
  unfold ov_expected. cbn [ref].
  assert (Hpos : filter pos_len evs = evs).
  { apply filter_pos_len_all. intros x Hx. rewrite Forall_forall in Hwf.
    destruct (Hwf x Hx) as (_ & W & _). unfold pos_len. lia. }
  rewrite Hpos.
  destruct (minus_runs_spec full_line evs wf_full_line canon_full_line) as (RF & RS & RC).
  destruct (covers evs p) eqn:Ec.
  - rewrite (Hcov eq_refl). symmetry. apply filter_nil. intros f Hf.
    destruct (contains p f) eqn:Ef; [|reflexivity].
    assert (C : covers (minus_runs full_line evs) p = true)
      by (apply covers_true_iff; exists f; split; [exact Hf|exact Ef]).
    rewrite RC, Ec, andb_false_r in C. discriminate.
  - destruct (Hunc eq_refl) as (left & right & E & HR & HL). rewrite E.
    assert (C : covers (minus_runs full_line evs) p = true).
    { rewrite RC, Ec, inside_full_line. lia. }
    apply covers_true_iff in C as (f & Hf & If). rewrite <- contains_inside in If.
    rewrite (filter_contains_separated _ p f RS Hf If). f_equal.
    destruct (run_edges evs p f Hf If) as [FL FR].
    destruct (spec_left_edge evs p left right Hwf Hp1 Ec HL) as [SL SLn].
    destruct (spec_right_edge evs p left right Hwf ltac:(lia) Ec HR) as [SR SRn].
    destruct (RF f Hf) as (Pf & _ & Ef1 & Ef2).
    apply ivl_ext.
    + split; [exact SLn|exact SRn].
    + split; [exact Ef1|exact Ef2].
    + rewrite Pf. reflexivity.
    + eapply left_edge_unique; eassumption.
    + eapply right_edge_unique; eassumption.
Qed.

(* The domain restriction is necessary (known defect): with a nested event the reverse sweep
   sees the inner event's end last and reports the gap from 4; the correct left edge is 5. *)
Example compl_overlapping_nested_refuted :
  overlapping [] (Compl (Stored [mkI (Some 2) (Some 5) (Rich 2); mkI (Some 3) (Some 4) (Rich 3)])) 7
  = [mkI (Some 4) None Plain].
Proof. vm_compute. reflexivity. Qed.

Print Assumptions overlapping_stored.
Print Assumptions overlapping_stored_spec.
Print Assumptions ov_exact_filt.
Print Assumptions ov_exact_union.
Print Assumptions overlapping_buf_stored.
Print Assumptions ov_exact_buf_stored.
Print Assumptions ov_leaf_exact.
Print Assumptions overlapping_leaf_spec.
Print Assumptions diff_sweep_single.
Print Assumptions minus_runs_ext_local.
Print Assumptions diff_overlapping_event.
Print Assumptions diff_overlapping_spec_gen.
Print Assumptions diff_overlapping_spec.
Print Assumptions diff_overlapping_in.
Print Assumptions compl_overlapping_covered.
Print Assumptions compl_ov_right.
Print Assumptions compl_ov_left.
Print Assumptions compl_overlapping_spec_partial.
Print Assumptions compl_overlapping_expected.
Print Assumptions compl_overlapping_nested_refuted.
