(* Proofs/Compl.v — the complement sweep: for every stream sorted by start with positive-length
   well-formed elements (overlapping, nested, adjacent, duplicated, unbounded), every window and
   every cursor position, the gaps are plain, inside the window, sentinel-free with None exactly
   on an unbounded side, strictly separated (never touching), and cover exactly the instants of
   the window the source does not cover. *)
From CG Require Import Proofs.Defs.

Definition wf_end (eb : Z) (e : option Z) : Prop :=
  (e = None /\ eb = POS_INF) \/ (e = Some eb /\ eb < POS_INF).

(* canonical: plain, inside [lo,hi], strictly separated, sentinel-free *)
Definition good_gap (lo hi : Z) (g : ivl) : Prop :=
  pl g = Plain /\ lo <= fstart g /\ fstart g < fend g /\ fend g <= hi /\
  (st g = None <-> fstart g = NEG_INF) /\ (en g = None <-> fend g = POS_INF).

Lemma fstart_gap a b : fstart (gap (unS a) b) = a.
Proof. unfold fstart, gap, unS; simpl. destruct (a =? NEG_INF) eqn:E; simpl; lia. Qed.
Lemma st_gap_none a b : st (gap (unS a) b) = None <-> a = NEG_INF.
Proof. unfold gap, unS; simpl. destruct (a =? NEG_INF) eqn:E; split; intro H; try discriminate; try lia; reflexivity. Qed.


Lemma good_gap_mid lo hi cursor ss :
  lo <= cursor -> cursor < ss -> ss <= hi -> NEG_INF <= cursor -> ss < POS_INF ->
  good_gap lo hi (gap (unS cursor) (unS ss)) /\ fend (gap (unS cursor) (unS ss)) = ss.
Proof.
  intros. assert (Hfe : fend (gap (unS cursor) (unS ss)) = ss).
  { unfold fend, gap, unS; simpl. destruct (ss =? NEG_INF) eqn:E5; [lia|reflexivity]. }
  split; [|exact Hfe]. unfold good_gap. rewrite Hfe, fstart_gap.
  split; [reflexivity|]. split; [lia|]. split; [lia|]. split; [lia|]. split.
  - apply st_gap_none.
  - unfold gap, unS; simpl. destruct (ss =? NEG_INF) eqn:E5; [lia|]. split; [discriminate|lia].
Qed.

Lemma final_gap_spec cursor eb e sb :
  wf_end eb e -> sb <= cursor -> NEG_INF <= cursor ->
  (forall g, In g (final_gap cursor eb e) -> good_gap cursor eb g /\ fstart g = cursor /\ fend g = eb) /\
  (forall t, cursor <= t < eb -> covers (final_gap cursor eb e) t = true) /\
  (cursor >= eb -> final_gap cursor eb e = []).
Proof.
  intros We Hs Hn. unfold final_gap. destruct (cursor <? eb) eqn:E.
  - split; [|split].
    + intros g [<-|[]]. 
      assert (Hfe : fend (gap (unS cursor) (if eb =? POS_INF then None else e)) = eb).
      { unfold fend, gap; simpl. destruct We as [[-> ->]|[-> Hlt]]; simpl.
        - reflexivity.
        - destruct (eb =? POS_INF) eqn:E2; [lia|reflexivity]. }
      rewrite Hfe. rewrite fstart_gap. split; [|split; reflexivity].
      unfold good_gap. rewrite Hfe, fstart_gap. repeat split; try lia.
      * apply st_gap_none. * intro H; apply st_gap_none; exact H.
      * unfold gap; simpl. destruct We as [[-> ->]|[-> Hlt]]; simpl; [reflexivity|].
        destruct (eb =? POS_INF) eqn:E2; [lia|discriminate].
      * unfold gap; simpl. destruct We as [[-> ->]|[-> Hlt]]; simpl; [reflexivity|].
        intro; lia.
    + intros t Ht. unfold covers; simpl. unfold inside. rewrite fstart_gap.
      assert (Hfe : fend (gap (unS cursor) (if eb =? POS_INF then None else e)) = eb).
      { unfold fend, gap; simpl. destruct We as [[-> ->]|[-> Hlt]]; simpl.
        - reflexivity.
        - destruct (eb =? POS_INF) eqn:E2; [lia|reflexivity]. }
      rewrite Hfe. rewrite orb_false_r. lia.
    + intro; lia.
  - split; [|split]; [intros g []| intros; lia | reflexivity].
Qed.


Lemma sorted_tail_gt x r eb :
  sorted_start (x :: r) -> fstart x > eb -> forall t, t < eb -> covers (x :: r) t = false.
Proof.
  intros [Hx _] Hgt t Ht. unfold covers. apply not_true_is_false. intro H.
  apply existsb_exists in H as [y [Hy Hin]]. unfold inside in Hin.
  destruct Hy as [<-|Hy]; [lia|]. specialize (Hx y Hy). lia.
Qed.

Theorem csweep_spec : forall xs sb eb e cursor,
  sb < eb -> NEG_INF <= sb -> eb <= POS_INF -> wf_end eb e ->
  sb <= cursor <= eb ->
  Forall wf_ivl xs -> sorted_start xs ->
  let out := csweep xs sb eb e cursor in
  (forall g, In g out -> good_gap cursor eb g) /\
  separatedP out /\
  (forall t, cursor <= t < eb -> covers out t = negb (covers xs t)).
Proof.
  induction xs as [|x r IH]; intros sb eb e cursor Hw Hsb Heb We Hc Hwf Hso; cbn [csweep].
  - destruct (final_gap_spec cursor eb e sb We) as (G1 & G2 & G3); try lia.
    split; [|split].
    + intros g Hg. apply G1 in Hg. tauto.
    + unfold final_gap. destruct (cursor <? eb); simpl; [split; [intros y []|exact I]|exact I].
    + intros t Ht. rewrite G2 by lia. reflexivity.
  - inversion Hwf as [|? ? Hx Hr]; subst. destruct Hso as [Hsx Hsr].
    destruct Hx as (X1 & X2 & X3 & X4 & X5).
    destruct (fend x <? sb) eqn:E1.
    { (* event ends before the window: skipped *)
      specialize (IH sb eb e cursor Hw Hsb Heb We Hc Hr Hsr). cbv zeta in IH.
      destruct IH as (I1 & I2 & I3). split; [exact I1|split; [exact I2|]].
      intros t Ht. rewrite I3 by lia. unfold covers at 2; simpl. unfold inside at 1.
      replace ((fstart x <=? t) && (t <? fend x)) with false by lia. reflexivity. }
    destruct (fstart x >? eb) eqn:E2.
    { destruct (final_gap_spec cursor eb e sb We) as (G1 & G2 & G3); try lia.
      split; [|split].
      + intros g Hg. apply G1 in Hg. tauto.
      + unfold final_gap. destruct (cursor <? eb); simpl; [split; [intros y []|exact I]|exact I].
      + intros t Ht. rewrite G2 by lia.
        rewrite (sorted_tail_gt x r eb); [reflexivity|split; assumption|lia|lia]. }
    cbv zeta.
    destruct (Z.min (fend x) eb <=? cursor) eqn:E3.
    { specialize (IH sb eb e cursor Hw Hsb Heb We Hc Hr Hsr). cbv zeta in IH.
      destruct IH as (I1 & I2 & I3). split; [exact I1|split; [exact I2|]].
      intros t Ht. rewrite I3 by lia. unfold covers at 2; simpl. unfold inside at 1.
      replace ((fstart x <=? t) && (t <? fend x)) with false by lia. reflexivity. }
    set (ss := Z.max (fstart x) sb) in *. set (se := Z.min (fend x) eb) in *.
    set (c := Z.max cursor se).
    assert (Hc' : sb <= c <= eb) by lia.
    replace (c >? eb) with false by lia.
    specialize (IH sb eb e c Hw Hsb Heb We Hc' Hr Hsr). cbv zeta in IH.
    destruct IH as (I1 & I2 & I3).
    assert (Hgg : forall g, In g (csweep r sb eb e c) -> c <= fstart g /\ fstart g < eb /\ good_gap cursor eb g).
    { intros g Hg. specialize (I1 g Hg). unfold good_gap in *. repeat split; try tauto; lia. }
    destruct (ss >? cursor) eqn:E4.
    + (* a gap (cursor, ss) is emitted *)
      destruct (good_gap_mid cursor eb cursor ss) as [Hgood Hfe]; try lia.
      split; [|split].
      * intros g [<-|Hg]; [exact Hgood|apply Hgg; exact Hg].
      * simpl. split; [|exact I2]. intros y Hy. rewrite Hfe.
        destruct (Hgg y Hy) as (Y1 & Y2 & _). lia.
      * intros t Ht. simpl app. unfold covers at 1; simpl. fold (covers (csweep r sb eb e c) t).
        unfold inside at 1. rewrite Hfe, fstart_gap.
        unfold covers at 2; simpl. fold (covers r t). unfold inside at 1.
        destruct (Z_lt_ge_dec t c) as [Htc|Htc].
        -- (* t before the new cursor: decided here; later gaps start at >= c *)
           assert (Hno : covers (csweep r sb eb e c) t = false).
           { apply not_true_is_false. intro H. apply existsb_exists in H as [y [Hy Hin]].
             destruct (Hgg y Hy) as (Y1 & _). unfold inside in Hin. lia. }
           rewrite Hno.
           destruct (Z_lt_ge_dec t ss) as [Hts|Hts].
           ++ (* inside the gap: no event covers t (sortedness) *)
              assert (Hnr : covers r t = false).
              { apply not_true_is_false. intro H. apply existsb_exists in H as [y [Hy Hin]].
                specialize (Hsx y Hy). unfold inside in Hin. lia. }
              rewrite Hnr. lia.
           ++ (* ss <= t < c = max cursor se, and cursor < ss so t < se: x covers t *)
              replace ((fstart x <=? t) && (t <? fend x)) with true by lia.
              simpl. lia.
        -- rewrite I3 by lia.
           replace ((cursor <=? t) && (t <? ss)) with false by lia.
           replace ((fstart x <=? t) && (t <? fend x)) with false by lia. reflexivity.
    + (* no gap: x starts at or before the cursor *)
      split; [|split].
      * intros g Hg. apply Hgg; exact Hg.
      * exact I2.
      * intros t Ht. simpl app.
        unfold covers at 2; simpl. fold (covers r t). unfold inside at 1.
        destruct (Z_lt_ge_dec t c) as [Htc|Htc].
        -- assert (Hno : covers (csweep r sb eb e c) t = false).
           { apply not_true_is_false. intro H. apply existsb_exists in H as [y [Hy Hin]].
             destruct (Hgg y Hy) as (Y1 & _). unfold inside in Hin. lia. }
           rewrite Hno. replace ((fstart x <=? t) && (t <? fend x)) with true by lia. reflexivity.
        -- rewrite I3 by lia.
           replace ((fstart x <=? t) && (t <? fend x)) with false by lia. reflexivity.
Qed.


(* ---- the window-level statement ---- *)
Definition wf_win (a b : option Z) : Prop :=
  (forall z, a = Some z -> NEG_INF < z) /\ (forall z, b = Some z -> z < POS_INF) /\
  bnd_lo a < bnd_hi b.

Lemma wf_win_end a b : wf_win a b -> wf_end (bnd_hi b) b.
Proof.
  intros (_ & Hb & _). unfold wf_end. destruct b as [z|]; simpl.
  - right. split; [reflexivity|]. apply Hb; reflexivity.
  - left. split; reflexivity.
Qed.

Lemma wf_win_bounds a b : wf_win a b -> NEG_INF <= bnd_lo a /\ bnd_hi b <= POS_INF.
Proof.
  intros (Ha & Hb & _). split.
  - destruct a as [z|]; simpl; [specialize (Ha z eq_refl)|]; lia.
  - destruct b as [z|]; simpl; [specialize (Hb z eq_refl)|]; lia.
Qed.

Theorem compl_sweep_spec xs a b :
  wf_win a b -> Forall wf_ivl xs -> sorted_start xs ->
  let out := compl_sweep xs a b in
  (forall g, In g out -> good_gap (bnd_lo a) (bnd_hi b) g) /\
  separatedP out /\
  (forall t, bnd_lo a <= t < bnd_hi b -> covers out t = negb (covers xs t)).
Proof.
  intros Hw Hwf Hs. unfold compl_sweep.
  pose proof (wf_win_bounds a b Hw) as [B1 B2]. pose proof (wf_win_end a b Hw) as We.
  destruct Hw as (_ & _ & Hlt).
  apply (csweep_spec xs (bnd_lo a) (bnd_hi b) b (bnd_lo a)); auto; lia.
Qed.

(* from the Prop-level description to the executable oracle of Spec/Sets.v *)
Lemma separatedP_separated l : separatedP l -> separated l = true.
Proof.
  induction l as [|x r IH]; simpl; [reflexivity|]. intros [Hx Hr].
  destruct r as [|y r']; [reflexivity|]. rewrite (IH Hr). specialize (Hx y (or_introl eq_refl)).
  rewrite andb_true_r. lia.
Qed.

Lemma good_gap_oracle a b g :
  good_gap (bnd_lo a) (bnd_hi b) g -> NEG_INF <= bnd_lo a -> bnd_hi b <= POS_INF ->
  is_plain g && pos_len g && in_window a b g && no_sentinel g = true.
Proof.
  intros (Hp & H1 & H2 & H3 & [Hs1 Hs2] & [He1 He2]) B1 B2.
  unfold is_plain, pos_len, in_window, no_sentinel. rewrite Hp.
  assert (E1 : oZ_eqb (st g) (Some NEG_INF) = false).
  { destruct (st g) as [z|] eqn:E; simpl; [|reflexivity].
    destruct (z =? NEG_INF) eqn:Ez; [|reflexivity]. exfalso.
    assert (fstart g = NEG_INF) by (unfold fstart; rewrite E; lia).
    specialize (Hs2 H). discriminate. }
  assert (E2 : oZ_eqb (en g) (Some POS_INF) = false).
  { destruct (en g) as [z|] eqn:E; simpl; [|reflexivity].
    destruct (z =? POS_INF) eqn:Ez; [|reflexivity]. exfalso.
    assert (fend g = POS_INF) by (unfold fend; rewrite E; lia).
    specialize (He2 H). discriminate. }
  assert (E3 : oZ_eqb (st g) (Some POS_INF) = false).
  { destruct (st g) as [z|] eqn:E; simpl; [|reflexivity].
    assert (fstart g = z) by (unfold fstart; rewrite E; reflexivity).
    destruct (z =? POS_INF) eqn:Ez; [|reflexivity]. lia. }
  assert (E4 : oZ_eqb (en g) (Some NEG_INF) = false).
  { destruct (en g) as [z|] eqn:E; simpl; [|reflexivity].
    assert (fend g = z) by (unfold fend; rewrite E; reflexivity).
    destruct (z =? NEG_INF) eqn:Ez; [|reflexivity]. lia. }
  rewrite E1, E2, E3, E4. simpl. lia.
Qed.

Theorem compl_sweep_canonical xs a b :
  wf_win a b -> Forall wf_ivl xs -> sorted_start xs ->
  canonical a b (compl_sweep xs a b) = true.
Proof.
  intros Hw Hwf Hs. destruct (compl_sweep_spec xs a b Hw Hwf Hs) as (G & S & _).
  pose proof (wf_win_bounds a b Hw) as [B1 B2].
  unfold canonical. rewrite (separatedP_separated _ S), andb_true_r.
  apply forallb_forall. intros g Hg. apply good_gap_oracle; auto.
Qed.
