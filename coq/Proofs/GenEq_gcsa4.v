(* Proofs/GenEq_gcsa4.v — tie C for calgebra/gcsa.py (tag gcsa), part 4:
     J. g_gcsa_add_recurring    Calendar._add_recurring = Model/Gcsa.v add_recurring
   The generated definition is parametric in the backend call (add_event) and in the pattern / metadata
   objects.  Instantiation (TRUSTED reading R11 of srcspecs_gcsa.py): the pattern is the model's wpat
   (daily / weekly, anchored), `metadata` carries the summary only, the RRULE text is (the structured fields
   of the rule, its token line), add_event returns the id the backend hands out (None = no id). *)
From CG Require Import Model.Loop Gen.Source Model.Gcsa.
From CG Require Proofs.GcsaP Proofs.GenEq_gcsa Proofs.GenEq_gcsa2 Proofs.GenEq_gcsa3.
From Coq Require Import ZArith List Bool Lia ZifyBool.
Import ListNotations.
Local Open Scope Z_scope.
Ltac Zify.zify_post_hook ::= Z.to_euclidean_division_equations.
Import GenEq_gcsa GenEq_gcsa2 GenEq_gcsa3.

Notation zone_rt := GcsaP.zone_rt.

(* x + timedelta(seconds=s) of an aware datetime: wall-clock addition, fold = 0 *)
Definition dv_add (v : dv) (s : Z) : dv :=
  match v with DDt (PZone z w _) => DDt (PZone z (w + s) false) | _ => v end.
Definition dvs_strftime (v : dv) : exd :=
  gz_strftime_exdate (match v with DDt p => (p_wall p, p_fold p) | _ => (0, false) end).

(* the RRULE text: the structured fields the line stands for, and its token line *)
Definition rrs := (bool * Z * list Z * list tok)%type.
Definition rrs_parse (r : rrs) : rrs * list exd :=
  let '(w, i, b, l) := r in let '(base, ex) := parse_exdates l in ((w, i, b, base), ex).
Definition rrs_snoc (r : rrs) (part : tok) : rrs := let '(w, i, b, l) := r in (w, i, b, l ++ [part]).
Definition init_line (p : wpat) : list tok :=
  TRule :: (if p_interval p =? 1 then [] else [TRule]) ++ (match p_byday p with [] => [] | _ => [TRule] end).
Definition pat_rrule_line (p : wpat) : rrs := (p_weekly p, p_interval p, p_byday p, init_line p).

Definition mk_gcsa_rec_event (sm : N) (sdt edt : dv) (tz : option zone) (desc : option N) (rems : option unit)
           (rr : rrs) : wreq :=
  let '(w, i, b, l) := rr in
  mkQ (Some sm) desc tz [] (dv_is_plain_date sdt) (dv_val sdt) (dv_val edt) (Some (mkR w i b l [])).

Definition rec_result (oid : option N) (_ _ : unit) (sm : N) (desc : option N) (rid : option N) (ad : bool)
           (rems : option unit) (s e : Z) : eid * Z * Z * bool :=
  (EId (match oid with Some n => n | None => 0%N end), s, e, ad).

Section AddRecurring.
  (* datetime.now / replace(hour=0, ..) are reached only for a pattern without an anchor: any functions *)
  Variable dv_now : zone -> dv.
  Variable dv_midnight : dv -> dv.
  Variable add_event : wreq -> option N.

  Definition src_add_recurring (ctz : option zone) (p : wpat) : list wres :=
    g_gcsa_add_recurring (RID := N) (REMV := unit) (GREMS := unit)
      utc_zone dv_fromtimestamp dv_time 0 gz_neb (fun s => s) gz_of_days gz_of_hours gz_td_days Z.sub Z.gtb
      dv_date dv_now dv_midnight dv_add dv_timestamp dvs_strftime
      rrs_parse exd_eqb TEx rrs_snoc
      (fun _ m => m) pat_rrule_line sort_uniq (fun _ => false) (fun _ => 0) zone_eqb (fun z => z)
      (fun m => m) (fun _ => None) (fun _ => tt) (fun _ => false) (fun _ => true) (fun _ => tt)
      [failed] [failed] (fun ev => [(true, Some ev)])
      mk_gcsa_rec_event add_event (fun c => c) rec_result
      p_ex (fun p => Some (p_anchor p)) p_zone (fun _ => 0) p_dur
      tt tt ctz p (p_sum p).

  (* the model's request and result, as functions of the calendar zone and the pattern *)
  Definition rec_line (p : wpat) : list tok :=
    fold_left (fun l t => add_exdate l (format_exdate t)) (sort_uniq (p_ex p)) (init_line p).
  Definition rec_end (p : wpat) : Z :=
    wall_to_utc (p_zone p) (utc_to_wall (p_zone p) (p_anchor p) + p_dur p) false.
  Definition rec_all_day (ctz : option zone) (p : wpat) : bool :=
    (p_dur p =? DAY) && zone_eqb (p_zone p) (tz_or_utc ctz) && infer_all_day (p_anchor p) (rec_end p) ctz.
  Definition rec_request (ctz : option zone) (p : wpat) : wreq :=
    let rc := mkR (p_weekly p) (p_interval p) (p_byday p) (rec_line p) [] in
    if rec_all_day ctz p
    then mkQ (Some (p_sum p)) None None [] true (local_date ctz (p_anchor p)) (local_date ctz (rec_end p)) (Some rc)
    else mkQ (Some (p_sum p)) None (Some (p_zone p)) [] false (p_anchor p) (rec_end p) (Some rc).

  Lemma iter_for_fold {S A R} (f : S -> A -> S) (post : S -> R) : forall (l : list A) (s : S),
    iter_for (fun s x => SCont (f s x)) post s l = post (fold_left f l s).
  Proof. induction l as [|x r IH]; intros s; cbn [iter_for fold_left]; [reflexivity|apply IH]. Qed.

  Lemma add_exdate_rrs w i b l x :
    g_gcsa_add_exdate_to_rrule rrs_parse exd_eqb TEx rrs_snoc (w, i, b, l) x = (w, i, b, add_exdate l x).
  Proof.
    unfold g_gcsa_add_exdate_to_rrule, rrs_parse, rrs_snoc, add_exdate, in_exd.
    destruct (parse_exdates l) as [base ex]. cbv zeta. destruct (existsb (exd_eqb x) ex); reflexivity.
  Qed.

  Lemma format_dv t : g_gcsa_format_exdate utc_zone dv_fromtimestamp dvs_strftime t = format_exdate t.
  Proof.
    unfold g_gcsa_format_exdate, g_gcsa_ts_to_dt, dv_fromtimestamp, dvs_strftime, gz_strftime_exdate, format_exdate.
    cbv zeta. cbn [p_wall p_fold fst]. rewrite utc_wall. reflexivity.
  Qed.

  Lemma fold_rrs w i b : forall (l : list Z) (toks : list tok),
    fold_left (fun s x => g_gcsa_add_exdate_to_rrule rrs_parse exd_eqb TEx rrs_snoc s
                            (g_gcsa_format_exdate utc_zone dv_fromtimestamp dvs_strftime x)) l (w, i, b, toks)
    = (w, i, b, fold_left (fun l t => add_exdate l (format_exdate t)) l toks).
  Proof.
    induction l as [|x r IH]; intros toks; cbn [fold_left]; [reflexivity|].
    rewrite format_dv, add_exdate_rrs. apply IH.
  Qed.

  (* _infer_is_all_day with datetimes as dv values *)
  Lemma infer_dv (s e : Z) (tz : option zone) :
    g_gcsa_infer_is_all_day utc_zone dv_fromtimestamp dv_time 0 gz_neb (fun s => s) gz_of_days gz_of_hours
      gz_td_days Z.sub Z.gtb s e tz = infer_all_day s e tz.
  Proof.
    rewrite <- g_gcsa_infer_is_all_day_eq. reflexivity.
  Qed.

  (* the part after the EXDATE loop, for any line *)
  Theorem g_gcsa_add_recurring_eq (ctz : option zone) (p : wpat) :
    zone_rt (p_zone p) ->
    src_add_recurring ctz p =
    match add_event (rec_request ctz p) with
    | Some id => [(true, Some (EId id, p_anchor p, rec_end p, rec_all_day ctz p))]
    | None => [failed]
    end.
  Proof.
    intros Hrt.
    assert (Hend : dv_timestamp (dv_add (dv_fromtimestamp (p_anchor p) (p_zone p)) (p_dur p)) = rec_end p).
    { unfold dv_fromtimestamp, dv_add, dv_timestamp, p_instant, pres_ts, rec_end. reflexivity. }
    assert (Hline : forall l, l = sort_uniq (p_ex p) \/ (l = [] /\ p_ex p = []) ->
              fold_left (fun s x => g_gcsa_add_exdate_to_rrule rrs_parse exd_eqb TEx rrs_snoc s
                            (g_gcsa_format_exdate utc_zone dv_fromtimestamp dvs_strftime x)) l (pat_rrule_line p)
              = (p_weekly p, p_interval p, p_byday p, rec_line p)).
    { intros l [->|[-> He]]; unfold pat_rrule_line; rewrite fold_rrs; unfold rec_line; [reflexivity|].
      rewrite He. reflexivity. }
    (* both arms of `if pattern.exdates:` run the same tail on the line they end with *)
    unfold src_add_recurring, g_gcsa_add_recurring. cbv zeta.
    rewrite !iter_for_fold. rewrite (Hline _ (or_introl eq_refl)).
    assert (Hnil : p_ex p = [] -> pat_rrule_line p = (p_weekly p, p_interval p, p_byday p, rec_line p)).
    { intros He. exact (Hline [] (or_intror (conj eq_refl He))). }
    destruct (nonempty (p_ex p)) eqn:Ene;
      [|assert (He : p_ex p = []) by (destruct (p_ex p); [reflexivity|discriminate]); rewrite (Hnil He)].
    all: cbn [is_none negb ozd]; rewrite Hend; rewrite infer_dv;
      change 86400 with DAY;
      change (match ctz with Some v_ => v_ | None => utc_zone end) with (tz_or_utc ctz);
      fold (rec_all_day ctz p); unfold rec_request;
      destruct (rec_all_day ctz p) eqn:Ead; cbn [negb];
      [ fold (src_convert_timestamps (p_anchor p) (rec_end p) true ctz); rewrite g_gcsa_convert_timestamps_eq;
        unfold mk_gcsa_rec_event; cbn [dv_is_plain_date dv_val]
      | unfold mk_gcsa_rec_event, dv_fromtimestamp; cbn [dv_is_plain_date dv_val p_instant pres_ts];
        rewrite !Hrt ];
      (match goal with |- context [add_event ?q] => destruct (add_event q) as [id|] end);
      reflexivity.
  Qed.
End AddRecurring.
Print Assumptions g_gcsa_add_recurring_eq.

(* HEADLINE J: in every adapter state whose calendar zone has been fetched, the model's
   Calendar._add_recurring is the generated one, the backend call being add_event *)
Theorem src_add_recurring_is_model (dv_now : zone -> dv) (dv_midnight : dv -> dv)
        (a : astate) (ctz : option zone) (p : wpat) :
  a_tz a = Some ctz -> zone_rt (p_zone p) ->
  let b2 := fst (tick (a_b a)) in
  snd (tick (a_b a)) = true ->
  add_recurring a p =
  (match b_store b2 (rec_request ctz p) with (b3, Some _) => with_b a b3 | (_, None) => with_b a b2 end,
   src_add_recurring dv_now dv_midnight (fun q => snd (b_store b2 q)) ctz p).
Proof.
  intros Htz Hrt b2 Hok. rewrite (g_gcsa_add_recurring_eq dv_now dv_midnight _ ctz p Hrt).
  unfold add_recurring, cal_tz. rewrite Htz. cbv zeta.
  fold (init_line p). fold (rec_line p). fold (rec_end p).
  unfold rec_request, rec_all_day.
  destruct (p_dur p =? DAY) eqn:Ed; cbn [andb]; cbv beta iota;
    destruct (tick (a_b a)) as [b2' ok] eqn:Et; subst b2; cbn [fst snd] in *; subst ok.
  - destruct (zone_eqb (p_zone p) (tz_or_utc ctz) && infer_all_day (p_anchor p) (rec_end p) ctz);
      match goal with |- context [b_store b2' ?q] => destruct (b_store b2' q) as [b3 [id|]] end; reflexivity.
  - match goal with |- context [b_store b2' ?q] => destruct (b_store b2' q) as [b3 [id|]] end; reflexivity.
Qed.
Print Assumptions src_add_recurring_is_model.

(* the hypotheses are satisfiable: a daily 24-hour pattern at Los Angeles midnight with one excluded
   day, on a Los Angeles calendar (all-day, local dates), and the same pattern on a UTC calendar (timed) *)
Example add_recurring_example :
  let la := mkZone (-28800) [(1710064800, -25200); (1730624400, -28800)] in
  let p := mkP false 1 [] 1718002800 86400 la 5%N [1718089200] in
  let now := fun z => DNone in
  let a := init la [] 1%N [] in
  let a1 := fst (cal_tz a) in
  a_tz a1 = Some (Some la) /\ snd (tick (a_b a1)) = true /\
  src_add_recurring now (fun v => v) (fun q => snd (b_store (fst (tick (a_b a1))) q)) (Some la) p
  = [(true, Some (EId 1%N, 1718002800, 1718089200, true))] /\
  snd (add_recurring a1 p) = [(true, Some (EId 1%N, 1718002800, 1718089200, true))] /\
  rec_request (Some la) p
  = mkQ (Some 5%N) None None [] true 19884 19885
        (Some (mkR false 1 [] [TRule; TEx [(2024, 6, 11, 7, 0, 0)]] [])) /\
  q_allday (rec_request (Some utc_zone) p) = false.
Proof. vm_compute. repeat split; reflexivity. Qed.
