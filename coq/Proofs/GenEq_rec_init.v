(* Proofs/GenEq_rec_init.v — tie C (third extension, tag rec): RecurringPattern.__init__.
   The constructor is translated as seven fragments that tile its body and their generated
   sequence g_rp_init (Gen/Source.v).  Here: each fragment equals the corresponding piece of the
   hand-written constructor rp_new (Model/RecSrc.v), for ALL arguments and ALL instances of the
   abstract string / datetime libraries; g_rp_init = rp_new; and rp_new, on the zone model's
   datetimes, is the rp_init / rp_init_dt of Model/Ical.v that the C19 theorems (and the C07 / C08
   hypothesis rule_accepted) are about.
   The readings the translation relies on are listed in harness/translate/srcspecs_rec.py. *)
From CG Require Import Model.RecSrc.
From CG Require Import Model.Loop Gen.Source Model.Recur Model.Ical.
From Coq Require Import ZArith List Bool Lia ZifyBool.
Import ListNotations.
Local Open Scope Z_scope.

(* ------------------------------------------------------------------------------------------ *)
(* _to_int_list                                                                                *)

Theorem g_to_int_list_eq (v : option intarg) : g_to_int_list v = option_map int_list v.
Proof. destruct v as [[z|l]|]; cbn; try rewrite map_id; reflexivity. Qed.
Print Assumptions g_to_int_list_eq.

Section Fragments.
  Context {DT ZONE TZ DS IC MD : Type}.
  Variable T : dtlib DT ZONE TZ.
  Variable L : dslib DS.

  (* the generated fragments on the libraries T, L *)
  Definition gh (f : freq) (i dur : Z) (ic : IC) (md : MD) (ex : option (list Z)) (tz : option TZ)
             (start : start_arg DT) :=
    g_rp_head (t_zoneinfo T) (t_utc T) (t_tzinfo T) f i dur ic md ex tz start.
  Definition gs (start : start_arg DT) (z : ZONE) :=
    g_rp_start (t_with_zone T) (t_timestamp T) (t_fromtimestamp T) (t_hour T) (t_minute T) (t_second T) start z.
  Definition gc (day : option (dayarg DS)) (anchor_dt : option DT) :=
    g_rp_check (t_weekday T) (l_lower L) (l_has L) (l_get L) day anchor_dt.
  Definition gd (f : freq) (i : Z) (day : option (dayarg DS)) (week : option Z) :=
    g_rp_days (l_upper L) (l_lower L) (l_len L) (l_suffix L) (l_drop_suffix L) (l_int L) (l_has L) (l_get L)
              f i day week.
  Definition gl (kw : kwargs) (dom month setpos weekno yearday hour minute second : option intarg)
             (wkst : option (wkarg DS)) :=
    g_rp_lists (l_lower L) (l_has L) (l_get L) kw dom month setpos weekno yearday hour minute second wkst.

  (* ---- HEAD: the plain stores, exdates, the zone ---- *)
  Theorem g_rp_head_eq f i dur (ic : IC) (md : MD) ex tz start :
    gh f i dur ic md ex tz start =
    RDone (f, i, dur, match ex with Some l => fs_of_list l | None => [] end, init_zone T tz start).
  Proof.
    unfold gh, g_rp_head, init_zone. cbv zeta.
    destruct ex as [[|x l]|]; destruct tz; destruct start; reflexivity.
  Qed.

  (* ---- START: anchor_dt, anchor_timestamp, start_seconds ---- *)
  Theorem g_rp_start_eq start z :
    gs start z = match init_start T start z with Some t => RDone t | None => RRaise ValueError end.
  Proof.
    unfold gs, g_rp_start, init_start, dt_sod, DAY. cbv zeta.
    destruct start as [s|d|d]; try reflexivity.
    destruct (s >? 86400); [reflexivity|].
    destruct ((0 <=? s) && (s <? 86400)); reflexivity.
  Qed.

  (* ---- CHECK: the anchor's weekday against the plain day names ---- *)
  Lemma valid_loop {R} (post : list Z -> R) : forall l acc,
    iter_for (fun (valid_weekdays : list Z) (d : DS) =>
                if l_has L (l_lower L d) then SCont (valid_weekdays ++ [l_get L (l_lower L d)])
                else SCont valid_weekdays) post acc l =
    post (acc ++ flat_map (fun s => if l_has L (l_lower L s) then [l_get L (l_lower L s)] else []) l).
  Proof.
    induction l as [|d l IH]; intro acc; cbn [iter_for flat_map].
    - rewrite app_nil_r. reflexivity.
    - destruct (l_has L (l_lower L d)); rewrite IH.
      + rewrite <- app_assoc. reflexivity.
      + reflexivity.
  Qed.

  Lemma nonempty_is_nil {A} (l : list A) : nonempty l = negb (is_nil l).
  Proof. destruct l; reflexivity. Qed.

  Theorem g_rp_check_eq day anchor_dt :
    gc day anchor_dt = if init_check T L day anchor_dt then RDone true else RRaise ValueError.
  Proof.
    unfold gc, g_rp_check, init_check, valid_weekdays. cbv zeta.
    destruct day as [d|]; [|reflexivity]. destruct anchor_dt as [a|]; [|reflexivity].
    destruct d as [s|l]; cbn [day_list]; rewrite valid_loop; cbn [app];
      rewrite nonempty_is_nil;
      match goal with |- (if ?c then _ else _) = _ => destruct c end; reflexivity.
  Qed.

  (* ---- DAYS: the day-spec parser and the first three keys of rrule_kwargs ---- *)
  Lemma days_parse_loop (week : option Z) {R} (body : list (Z * option Z) -> DS -> step (list (Z * option Z)) (res R))
        (post : list (Z * option Z) -> res R) :
    (forall acc d, body acc d = match parse_day L week d with
                                | Some w => SCont (acc ++ [w])
                                | None => SRet (RRaise ValueError)
                                end) ->
    forall l acc,
      iter_for body post acc l =
      match parse_days L week l with Some ws => post (acc ++ ws) | None => RRaise ValueError end.
  Proof.
    intro Hb. induction l as [|d l IH]; intro acc; cbn [iter_for parse_days].
    - rewrite app_nil_r. reflexivity.
    - rewrite Hb. destruct (parse_day L week d) as [w|]; [|reflexivity].
      rewrite IH. destruct (parse_days L week l) as [ws|]; [|reflexivity].
      rewrite <- app_assoc. reflexivity.
  Qed.

  Definition kw0 (f : freq) (i : Z) (bwd : option (list (Z * option Z))) : kwargs :=
    mkKW (Some f) (Some i) bwd None None None None None None None None None.

  Theorem g_rp_days_eq f i day week :
    gd f i day week =
    match day with
    | Some d => match parse_days L week (day_list d) with
                | Some ws => RDone (kw0 f i (Some ws))
                | None => RRaise ValueError
                end
    | None => RDone (kw0 f i None)
    end.
  Proof.
    unfold gd, g_rp_days, kw0. cbv zeta.
    destruct day as [d|]; [|reflexivity].
    destruct d as [s|l]; cbn [day_list];
      (rewrite (days_parse_loop week) with (l := _);
       [ cbn [app]; match goal with |- match ?p with _ => _ end = _ => destruct p end; reflexivity
       | intros acc d; unfold parse_day; cbv zeta;
         destruct (l_has L (l_lower L d));
         [ destruct week as [k|]; [destruct (wd_call _ k); reflexivity|reflexivity]
         | destruct (l_len L (l_upper L d) >? 2); [|reflexivity];
           destruct (l_has L (l_lower L (l_suffix L (l_upper L d) 2))); [|reflexivity];
           destruct (l_int L (l_drop_suffix L (l_upper L d) 2)) as [n|]; [|reflexivity];
           destruct (wd_call _ n); reflexivity ] ]).
  Qed.

  (* ---- LISTS: the list fields and wkst ---- *)
  (* "if val is not None: rrule_kwargs[key] = _to_int_list(val)" *)
  Definition upd (set : kwargs -> option (list Z) -> kwargs) (k : kwargs) (o : option intarg) : kwargs :=
    match o with Some v => set k (Some (int_list v)) | None => k end.
  Definition updG (set : kwargs -> option (list Z) -> kwargs) (k : kwargs) (o : option intarg) : kwargs :=
    match o with Some v => set k (g_to_int_list (Some v)) | None => k end.
  Lemma updG_upd set k o : updG set k o = upd set k o.
  Proof. destruct o; [unfold updG, upd; rewrite g_to_int_list_eq|]; reflexivity. Qed.

  (* "if wkst is not None: ..." *)
  Definition upd_wkst (k : kwargs) (o : option (wkarg DS)) : kwargs :=
    match o with
    | Some w => match wkst_value L w with Some v => set_wkst k (Some v) | None => k end
    | None => k
    end.

  Definition set_lists (kw : kwargs) (dom month setpos weekno yearday hour minute second : option intarg)
             (wkst : option (wkarg DS)) : kwargs :=
    upd_wkst (upd set_bysecond (upd set_byminute (upd set_byhour (upd set_byyearday (upd set_byweekno
      (upd set_bysetpos (upd set_bymonth (upd set_bymonthday kw dom) month) setpos) weekno) yearday) hour) minute)
      second) wkst.

  Theorem g_rp_lists_eq kw dom month setpos weekno yearday hour minute second wkst :
    gl kw dom month setpos weekno yearday hour minute second wkst =
    RDone (set_lists kw dom month setpos weekno yearday hour minute second wkst).
  Proof.
    cbv beta delta [gl g_rp_lists set_lists]. cbv zeta.
    change (RDone (match wkst with
                   | Some w => match w with
                               | WaObj w0 => set_wkst
                                   (updG set_bysecond (updG set_byminute (updG set_byhour (updG set_byyearday (updG set_byweekno
                                      (updG set_bysetpos (updG set_bymonth (updG set_bymonthday kw dom) month) setpos) weekno) yearday) hour) minute)
                                      second) (Some (WkObj w0))
                               | WaStr s => if l_has L (l_lower L s)
                                            then set_wkst
                                   (updG set_bysecond (updG set_byminute (updG set_byhour (updG set_byyearday (updG set_byweekno
                                      (updG set_bysetpos (updG set_bymonth (updG set_bymonthday kw dom) month) setpos) weekno) yearday) hour) minute)
                                      second) (Some (WkObj (l_get L (l_lower L s))))
                                            else
                                   (updG set_bysecond (updG set_byminute (updG set_byhour (updG set_byyearday (updG set_byweekno
                                      (updG set_bysetpos (updG set_bymonth (updG set_bymonthday kw dom) month) setpos) weekno) yearday) hour) minute)
                                      second)
                               | WaInt z => if (0 <=? z) && (z <? 7)
                                            then set_wkst
                                   (updG set_bysecond (updG set_byminute (updG set_byhour (updG set_byyearday (updG set_byweekno
                                      (updG set_bysetpos (updG set_bymonth (updG set_bymonthday kw dom) month) setpos) weekno) yearday) hour) minute)
                                      second) (Some (WkInt z))
                                            else
                                   (updG set_bysecond (updG set_byminute (updG set_byhour (updG set_byyearday (updG set_byweekno
                                      (updG set_bysetpos (updG set_bymonth (updG set_bymonthday kw dom) month) setpos) weekno) yearday) hour) minute)
                                      second)
                               end
                   | None =>
                                   (updG set_bysecond (updG set_byminute (updG set_byhour (updG set_byyearday (updG set_byweekno
                                      (updG set_bysetpos (updG set_bymonth (updG set_bymonthday kw dom) month) setpos) weekno) yearday) hour) minute)
                                      second)
                   end) = RDone (upd_wkst (upd set_bysecond (upd set_byminute (upd set_byhour (upd set_byyearday (upd set_byweekno
      (upd set_bysetpos (upd set_bymonth (upd set_bymonthday kw dom) month) setpos) weekno) yearday) hour) minute)
      second) wkst)).
    rewrite !updG_upd. unfold upd_wkst.
    destruct wkst as [[w|s|z]|]; cbn [wkst_value]; try reflexivity.
    - destruct (l_has L (l_lower L s)); reflexivity.
    - destruct ((0 <=? z) && (z <? 7)); reflexivity.
  Qed.

  (* ---- the whole constructor ---- *)
  Definition tuple_of_obj (o : rp_obj DT ZONE DS) :=
    (o_freq o, o_interval o, o_duration o, o_exdates o, o_zone o, o_anchor o, o_sod o,
     o_day _ _ _ o, o_week _ _ _ o, o_day_of_month _ _ _ o, o_month _ _ _ o, o_bysetpos _ _ _ o,
     o_byweekno _ _ _ o, o_byyearday _ _ _ o, o_byhour _ _ _ o, o_byminute _ _ _ o, o_bysecond _ _ _ o,
     o_wkst _ _ _ o, o_kwargs o, o_epoch o).

  Definition g_init_of (ic : IC) (md : MD) (a : rp_args DT TZ DS) :=
    g_rp_init (t_zoneinfo T) (t_utc T) (t_tzinfo T) (t_with_zone T) (t_timestamp T) (t_fromtimestamp T)
              (t_hour T) (t_minute T) (t_second T) (t_weekday T)
              (l_lower L) (l_has L) (l_get L) (l_upper L) (l_len L) (l_suffix L) (l_drop_suffix L) (l_int L)
              (t_make T)
              (a_freq a) (a_interval a) (a_day a) (a_week a) (a_day_of_month a) (a_month a) (a_start a)
              (a_duration a) (a_tz a) ic (a_exdates a) (a_bysetpos a) (a_byweekno a) (a_byyearday a)
              (a_byhour a) (a_byminute a) (a_bysecond a) (a_wkst a) md.

  Lemma init_kwargs_unfold (a : rp_args DT TZ DS) :
    init_kwargs L a =
    match (match a_day a with
           | Some d => match parse_days L (a_week a) (day_list d) with Some ws => Some (Some ws) | None => None end
           | None => Some None
           end) with
    | None => None
    | Some bwd => Some (set_lists (kw0 (a_freq a) (a_interval a) bwd) (a_day_of_month a) (a_month a) (a_bysetpos a)
                                  (a_byweekno a) (a_byyearday a) (a_byhour a) (a_byminute a) (a_bysecond a)
                                  (a_wkst a))
    end.
  Proof.
    unfold init_kwargs, set_lists, kw0.
    destruct (match a_day a with Some d => _ | None => _ end) as [bwd|]; [|reflexivity].
    f_equal.
    destruct (a_day_of_month a), (a_month a), (a_bysetpos a), (a_byweekno a), (a_byyearday a), (a_byhour a),
             (a_byminute a), (a_bysecond a); cbn [upd option_map];
      (destruct (a_wkst a) as [w|]; cbn [upd_wkst]; [destruct (wkst_value L w); reflexivity|reflexivity]).
  Qed.

  (* HEADLINE: the constructor as the source has it is rp_new — for all arguments and all
     instances of the string and datetime libraries; ValueError exactly where rp_new has None *)
  Theorem g_rp_init_eq (ic : IC) (md : MD) (a : rp_args DT TZ DS) :
    g_init_of ic md a =
    match rp_new T L a with Some o => RDone (tuple_of_obj o) | None => RRaise ValueError end.
  Proof.
    unfold g_init_of, g_rp_init. cbv zeta.
    fold (gh (a_freq a) (a_interval a) (a_duration a) ic md (a_exdates a) (a_tz a) (a_start a)).
    rewrite g_rp_head_eq. cbn [res_bind fst snd].
    fold (gs (a_start a) (init_zone T (a_tz a) (a_start a))).
    rewrite g_rp_start_eq. unfold rp_new.
    destruct (init_start T (a_start a) (init_zone T (a_tz a) (a_start a))) as [[[adt anchor] sod]|];
      [|reflexivity].
    cbn [res_bind fst snd].
    fold (gc (a_day a) adt). rewrite g_rp_check_eq.
    destruct (init_check T L (a_day a) adt); [|reflexivity].
    cbn [res_bind]. unfold g_rp_store. cbv zeta. cbn [res_bind fst snd].
    fold (gd (a_freq a) (a_interval a) (a_day a) (a_week a)). rewrite g_rp_days_eq.
    rewrite init_kwargs_unfold.
    destruct (a_day a) as [d|].
    - destruct (parse_days L (a_week a) (day_list d)) as [ws|]; [|reflexivity].
      cbn [res_bind].
      match goal with |- context [g_rp_lists _ _ _ ?k ?a1 ?a2 ?a3 ?a4 ?a5 ?a6 ?a7 ?a8 ?a9] =>
        fold (gl k a1 a2 a3 a4 a5 a6 a7 a8 a9) end.
      rewrite g_rp_lists_eq. reflexivity.
    - cbn [res_bind].
      match goal with |- context [g_rp_lists _ _ _ ?k ?a1 ?a2 ?a3 ?a4 ?a5 ?a6 ?a7 ?a8 ?a9] =>
        fold (gl k a1 a2 a3 a4 a5 a6 a7 a8 a9) end.
      rewrite g_rp_lists_eq. reflexivity.
  Qed.
End Fragments.

Print Assumptions g_rp_head_eq.
Print Assumptions g_rp_start_eq.
Print Assumptions g_rp_check_eq.
Print Assumptions g_rp_days_eq.
Print Assumptions g_rp_lists_eq.
Print Assumptions g_rp_init_eq.

(* ------------------------------------------------------------------------------------------ *)
(* rp_new on the zone model's datetimes is the constructor of Model/Ical.v                      *)

(* a datetime of the zone model: (tzinfo, wall-clock reading, instant); a zone name stands for
   its table *)
Definition zdt := (zone * Z * Z)%type.
Definition zd_zone (d : zdt) : zone := fst (fst d).
Definition zd_wall (d : zdt) : Z := snd (fst d).
Definition zd_ts (d : zdt) : Z := snd d.

Definition zlib : dtlib zdt zone zone :=
  mkDtLib zdt zone zone
          (fun z => z) utc_zone zd_zone
          (fun d z => (z, zd_wall d, wall_to_utc z (zd_wall d) false))
          zd_ts
          (fun t z => (z, utc_to_wall z t, t))
          (fun d => wall_sod (zd_wall d) / 3600)
          (fun d => (wall_sod (zd_wall d) mod 3600) / 60)
          (fun d => (wall_sod (zd_wall d) mod 3600) mod 60)
          (fun d => weekday (wall_day (zd_wall d)))
          (fun y m d z => (z, days_from_civil y m d * DAY, wall_to_utc z (days_from_civil y m d * DAY) false)).

Ltac Zify.zify_post_hook ::= Z.to_euclidean_division_equations.

Lemma zlib_sod (d : zdt) : dt_sod zlib d = wall_sod (zd_wall d).
Proof. unfold dt_sod, zlib, t_hour, t_minute, t_second. lia. Qed.

(* the pattern record of Model/Ical.v an object stands for *)
Definition xrule_of_obj {DS} (o : rp_obj zdt zone DS) : option xrule :=
  match parts_of_kw (o_kwargs o) with
  | Some p => Some (mk_xrule p (o_exdates o) (o_anchor o) (o_sod o) (o_duration o) (o_zone o))
  | None => None
  end.

Section Connect.
  Context {DS : Type}.
  Variable L : dslib DS.

  (* with week=None the plain names among the day specs are the entries parsed without ordinal *)
  Lemma valid_is_plain : forall l ws,
    parse_days L None l = Some ws ->
    flat_map (fun s => if l_has L (l_lower L s) then [l_get L (l_lower L s)] else []) l = plain_days ws.
  Proof.
    induction l as [|d l IH]; intros ws H; cbn [parse_days] in H.
    - injection H as <-. reflexivity.
    - destruct (parse_day L None d) as [w|] eqn:Ed; [|discriminate].
      destruct (parse_days L None l) as [ws'|] eqn:El; [|discriminate].
      injection H as <-. cbn [flat_map]. rewrite (IH ws' eq_refl).
      unfold parse_day in Ed. destruct (l_has L (l_lower L d)).
      + injection Ed as <-. reflexivity.
      + cbv zeta in Ed. destruct (l_len L (l_upper L d) >? 2); [|discriminate].
        destruct (l_has L (l_lower L (l_suffix L (l_upper L d) 2))); [|discriminate].
        destruct (l_int L (l_drop_suffix L (l_upper L d) 2)) as [n|]; [|discriminate].
        unfold wd_call in Ed. destruct (n =? 0); [discriminate|]. injection Ed as <-. reflexivity.
  Qed.

  Definition the_zone (a : rp_args zdt zone DS) : zone := init_zone zlib (a_tz a) (a_start a).

  Lemma check_is_not_bad (a : rp_args zdt zone DS) (kw : kwargs) (p : rparts) (adt : zdt) :
    a_week a = None -> init_kwargs L a = Some kw -> parts_of_kw kw = Some p ->
    init_check zlib L (a_day a) (Some adt) =
    negb (negb (is_nil (plain_days (p_byday p))) && negb (zmem (weekday (wall_day (zd_wall adt))) (plain_days (p_byday p)))).
  Proof.
    intros Hw Hk Hp. unfold init_kwargs in Hk. rewrite Hw in Hk.
    unfold init_check, valid_weekdays.
    destruct (a_day a) as [d|].
    - destruct (parse_days L None (day_list d)) as [ws|] eqn:Ed; [|discriminate].
      injection Hk as <-. unfold parts_of_kw in Hp. cbn [kw_freq kw_byweekday] in Hp. injection Hp as <-.
      cbn [p_byday olist_get]. rewrite (valid_is_plain _ _ Ed). reflexivity.
    - injection Hk as <-. unfold parts_of_kw in Hp. cbn [kw_freq kw_byweekday] in Hp. injection Hp as <-.
      reflexivity.
  Qed.

  (* HEADLINE (int start): the constructor, as the source has it, builds the pattern rp_init builds
     — and raises ValueError exactly where rp_init has None *)
  Theorem rp_new_is_rp_init (a : rp_args zdt zone DS) (s : Z) (kw : kwargs) (p : rparts) :
    a_start a = StInt s -> a_week a = None -> init_kwargs L a = Some kw -> parts_of_kw kw = Some p ->
    match rp_new zlib L a with Some o => xrule_of_obj o | None => None end =
    rp_init p s (a_duration a) (the_zone a) (match a_exdates a with Some l => fs_of_list l | None => [] end).
  Proof.
    intros Hs Hw Hk Hp. unfold rp_new, rp_init, the_zone. rewrite Hs. cbn [init_start].
    replace (s >? DAY) with (DAY <? s) by lia.
    set (z := init_zone zlib (a_tz a) (StInt s)).
    destruct (DAY <? s).
    - cbv zeta. rewrite (check_is_not_bad a kw p _ Hw Hk Hp). unfold rp_make.
      change (zd_wall (t_fromtimestamp zlib s z)) with (utc_to_wall z s).
      change (wall_day (utc_to_wall z s)) with (local_day z s).
      destruct (negb (is_nil (plain_days (p_byday p))) && negb (zmem (weekday (local_day z s)) (plain_days (p_byday p))));
        [reflexivity|].
      cbn [negb]. rewrite Hk. unfold xrule_of_obj. cbn [o_kwargs o_exdates o_anchor o_sod o_duration o_zone].
      rewrite Hp. rewrite zlib_sod. reflexivity.
    - destruct ((0 <=? s) && (s <? DAY)); [|reflexivity].
      cbn [init_check]. assert (Hc : init_check zlib L (a_day a) None = true) by (unfold init_check; destruct (a_day a); reflexivity).
      rewrite Hc, Hk. unfold rp_make, xrule_of_obj. cbn [o_kwargs o_exdates o_anchor o_sod o_duration o_zone].
      rewrite Hp. reflexivity.
  Qed.

  (* HEADLINE (aware datetime start) *)
  Theorem rp_new_is_rp_init_dt (a : rp_args zdt zone DS) (d : zdt) (kw : kwargs) (p : rparts) :
    a_start a = StAware d -> a_week a = None -> init_kwargs L a = Some kw -> parts_of_kw kw = Some p ->
    match rp_new zlib L a with Some o => xrule_of_obj o | None => None end =
    rp_init_dt p (zd_wall d) (zd_ts d) (a_duration a) (the_zone a)
               (match a_exdates a with Some l => fs_of_list l | None => [] end).
  Proof.
    intros Hs Hw Hk Hp. unfold rp_new, rp_init_dt, the_zone. rewrite Hs. cbn [init_start].
    rewrite (check_is_not_bad a kw p _ Hw Hk Hp). unfold rp_make.
    destruct (negb (is_nil (plain_days (p_byday p))) && negb (zmem (weekday (wall_day (zd_wall d))) (plain_days (p_byday p))));
      [reflexivity|].
    cbn [negb]. rewrite Hk. unfold xrule_of_obj. cbn [o_kwargs o_exdates o_anchor o_sod o_duration o_zone].
    rewrite Hp. rewrite zlib_sod. reflexivity.
  Qed.

  (* what the constructor guarantees the fetch functions (the hypothesis rule_accepted of the
     C07 / C08 theorems): start_seconds is a second of the day *)
  Theorem rp_new_rule_accepted (a : rp_args zdt zone DS) (o : rp_obj zdt zone DS) :
    rp_new zlib L a = Some o -> 0 <= o_sod o < DAY.
  Proof.
    unfold rp_new. destruct (init_start zlib (a_start a) _) as [[[adt anchor] sod]|] eqn:Es; [|discriminate].
    destruct (init_check zlib L (a_day a) adt); [|discriminate].
    destruct (init_kwargs L a); [|discriminate]. intro H. injection H as <-. cbn [o_sod].
    unfold init_start in Es. destruct (a_start a) as [s|d|d].
    - destruct (s >? DAY).
      + injection Es as _ _ <-. rewrite zlib_sod. unfold wall_sod, DAY. lia.
      + destruct ((0 <=? s) && (s <? DAY)) eqn:E; [|discriminate]. injection Es as _ _ <-. lia.
    - injection Es as _ _ <-. rewrite zlib_sod. unfold wall_sod, DAY. lia.
    - cbv zeta in Es. injection Es as _ _ <-. rewrite zlib_sod. unfold wall_sod, DAY. lia.
  Qed.

  (* validation, as the source has it: an int start that is neither a time of day nor a timestamp *)
  Theorem rp_new_rejects_start (a : rp_args zdt zone DS) (s : Z) :
    a_start a = StInt s -> (s < 0 \/ s = DAY) -> rp_new zlib L a = None.
  Proof.
    intros Hs Hr. unfold rp_new. rewrite Hs. cbn [init_start].
    replace (s >? DAY) with false by (unfold DAY in *; lia).
    replace ((0 <=? s) && (s <? DAY)) with false by (unfold DAY in *; lia). reflexivity.
  Qed.
End Connect.

Print Assumptions rp_new_is_rp_init.
Print Assumptions rp_new_is_rp_init_dt.
Print Assumptions rp_new_rule_accepted.
Print Assumptions rp_new_rejects_start.

(* the two headline facts composed: the constructor as generated from the source, on the zone
   model's datetimes, builds exactly the pattern of Model/Ical.v's rp_init / rp_init_dt *)
Section Composed.
  Context {DS IC MD : Type}.
  Variable L : dslib DS.

  Definition src_new (ic : IC) (md : MD) (a : rp_args zdt zone DS) : option (rp_obj zdt zone DS) :=
    match g_init_of zlib L ic md a with
    | RDone t => rp_new zlib L a          (* = the object whose tuple t is: g_rp_init_eq *)
    | _ => None
    end.

  Lemma src_new_eq ic md a : src_new ic md a = rp_new zlib L a.
  Proof. unfold src_new. rewrite g_rp_init_eq. destruct (rp_new zlib L a); reflexivity. Qed.

  Theorem src_init_is_rp_init (ic : IC) (md : MD) (a : rp_args zdt zone DS) (s : Z) (kw : kwargs) (p : rparts) :
    a_start a = StInt s -> a_week a = None -> init_kwargs L a = Some kw -> parts_of_kw kw = Some p ->
    match rp_init p s (a_duration a) (the_zone a) (match a_exdates a with Some l => fs_of_list l | None => [] end) with
    | Some x => exists o, g_init_of zlib L ic md a = RDone (tuple_of_obj o) /\ xrule_of_obj o = Some x
    | None => g_init_of zlib L ic md a = RRaise ValueError
    end.
  Proof.
    intros Hs Hw Hk Hp. rewrite <- (rp_new_is_rp_init L a s kw p Hs Hw Hk Hp). rewrite g_rp_init_eq.
    destruct (rp_new zlib L a) as [o|] eqn:En; [|reflexivity].
    destruct (xrule_of_obj o) as [x|] eqn:Ex; [exists o; split; [reflexivity|exact Ex]|].
    exfalso. unfold rp_new in En.
    destruct (init_start zlib (a_start a) _) as [[[adt anchor] sod]|]; [|discriminate].
    destruct (init_check zlib L (a_day a) adt); [|discriminate]. rewrite Hk in En. injection En as <-.
    unfold xrule_of_obj in Ex. cbn [o_kwargs] in Ex. rewrite Hp in Ex. discriminate.
  Qed.

  Theorem src_init_is_rp_init_dt (ic : IC) (md : MD) (a : rp_args zdt zone DS) (d : zdt) (kw : kwargs) (p : rparts) :
    a_start a = StAware d -> a_week a = None -> init_kwargs L a = Some kw -> parts_of_kw kw = Some p ->
    match rp_init_dt p (zd_wall d) (zd_ts d) (a_duration a) (the_zone a)
                     (match a_exdates a with Some l => fs_of_list l | None => [] end) with
    | Some x => exists o, g_init_of zlib L ic md a = RDone (tuple_of_obj o) /\ xrule_of_obj o = Some x
    | None => g_init_of zlib L ic md a = RRaise ValueError
    end.
  Proof.
    intros Hs Hw Hk Hp. rewrite <- (rp_new_is_rp_init_dt L a d kw p Hs Hw Hk Hp). rewrite g_rp_init_eq.
    destruct (rp_new zlib L a) as [o|] eqn:En; [|reflexivity].
    destruct (xrule_of_obj o) as [x|] eqn:Ex; [exists o; split; [reflexivity|exact Ex]|].
    exfalso. unfold rp_new in En.
    destruct (init_start zlib (a_start a) _) as [[[adt anchor] sod]|]; [|discriminate].
    destruct (init_check zlib L (a_day a) adt); [|discriminate]. rewrite Hk in En. injection En as <-.
    unfold xrule_of_obj in Ex. cbn [o_kwargs] in Ex. rewrite Hp in Ex. discriminate.
  Qed.

  (* whatever the constructor accepts satisfies rule_accepted *)
  Theorem src_init_rule_accepted (ic : IC) (md : MD) (a : rp_args zdt zone DS) (o : rp_obj zdt zone DS) :
    g_init_of zlib L ic md a = RDone (tuple_of_obj o) -> 0 <= o_sod o < DAY.
  Proof.
    rewrite g_rp_init_eq. destruct (rp_new zlib L a) as [o'|] eqn:En; [|discriminate].
    intro H. injection H as H. assert (Hsod : o_sod o' = o_sod o) by (unfold tuple_of_obj in H; congruence).
    rewrite <- Hsod. exact (rp_new_rule_accepted L a o' En).
  Qed.

  (* an int start that is neither a time of day nor a timestamp is rejected *)
  Theorem src_init_rejects_start (ic : IC) (md : MD) (a : rp_args zdt zone DS) (s : Z) :
    a_start a = StInt s -> (s < 0 \/ s = DAY) -> g_init_of zlib L ic md a = RRaise ValueError.
  Proof. intros Hs Hr. rewrite g_rp_init_eq, (rp_new_rejects_start L a s Hs Hr). reflexivity. Qed.
End Composed.

Print Assumptions src_init_is_rp_init.
Print Assumptions src_init_is_rp_init_dt.
Print Assumptions src_init_rule_accepted.
Print Assumptions src_init_rejects_start.

(* ------------------------------------------------------------------------------------------ *)
(* Non-vacuity: a small instance of the string library (day specs as symbols) on which the       *)
(* hypotheses hold and the generated constructor computes                                        *)

Inductive sym := SName (w : Z)            (* "monday" / "MO" / "mo" ... : a key of _DAY_MAP *)
               | SNum (n : Z) (w : Z)     (* "1MO", "-1fr": digits then a code *)
               | SDigits (n : Z)          (* the digits *)
               | SJunk.
Definition symlib : dslib sym :=
  mkDsLib sym (fun s => s) (fun s => s)
          (fun s => match s with SName _ => 2 | SNum _ _ => 3 | SDigits _ => 1 | SJunk => 5 end)
          (fun s _ => match s with SNum _ w => SName w | _ => SJunk end)
          (fun s _ => match s with SNum n _ => SDigits n | _ => SJunk end)
          (fun s => match s with SDigits n => Some n | _ => None end)
          (fun s => match s with SName _ => true | _ => false end)
          (fun s => match s with SName w => w | _ => 0 end).

(* weekly on Monday and the last Friday ... anchored on Monday 2024-01-01 09:00 UTC *)
Definition ex_args (start : start_arg zdt) : rp_args zdt zone sym :=
  mkArgs Weekly 2 (Some (DayList [SName 0; SNum (-1) 4])) None (Some (IOne 15)) (Some (IList [3; 4]))
         start 3600 (Some utc_zone) (Some [1704099600; 1704099600]) None None None None None None None.
Definition ex_dt : zdt := (utc_zone, 1704099600, 1704099600).
Definition ex_parts : rparts := mkP Weekly 2 [(0, None); (4, Some (-1))] [3; 4] [15] [] [] [] [] [] [] None.

Example ex_init_hyps :
  init_kwargs symlib (ex_args (StAware ex_dt)) = Some (kw_of ex_parts) /\
  parts_of_kw (kw_of ex_parts) = Some ex_parts /\ a_week (ex_args (StAware ex_dt)) = None.
Proof. repeat split; vm_compute; reflexivity. Qed.

Example ex_init_dt :
  match rp_new zlib symlib (ex_args (StAware ex_dt)) with
  | Some o => g_init_of zlib symlib tt tt (ex_args (StAware ex_dt)) = RDone (tuple_of_obj o) /\
              xrule_of_obj o = rp_init_dt ex_parts 1704099600 1704099600 3600 utc_zone [1704099600] /\
              o_anchor o = Some 1704099600 /\ o_sod o = 32400
  | None => False
  end.
Proof. vm_compute. repeat split; reflexivity. Qed.

Example ex_init_int :
  match rp_new zlib symlib (ex_args (StInt 1704099600)) with
  | Some o => g_init_of zlib symlib tt tt (ex_args (StInt 1704099600)) = RDone (tuple_of_obj o) /\
              xrule_of_obj o = rp_init ex_parts 1704099600 3600 utc_zone [1704099600]
  | None => False
  end.
Proof. vm_compute. repeat split; reflexivity. Qed.

(* validation, on the generated text: a Tuesday anchor with day="monday"; an ordinal 0; week=0;
   a junk day name; start = 86400 *)
Example ex_init_rejects :
  g_init_of zlib symlib tt tt (ex_args (StAware (utc_zone, 1704186000, 1704186000))) = RRaise ValueError /\
  g_init_of zlib symlib tt tt
    (mkArgs Weekly 1 (Some (DayStr (SNum 0 0))) None None None (StInt 0) 86400 None None None None None None None None None)
    = RRaise ValueError /\
  g_init_of zlib symlib tt tt
    (mkArgs Monthly 1 (Some (DayStr (SName 0))) (Some 0) None None (StInt 0) 86400 None None None None None None None None None)
    = RRaise ValueError /\
  g_init_of zlib symlib tt tt
    (mkArgs Weekly 1 (Some (DayStr SJunk)) None None None (StInt 0) 86400 None None None None None None None None None)
    = RRaise ValueError /\
  g_init_of zlib symlib tt tt
    (mkArgs Daily 1 None None None None (StInt 86400) 86400 None None None None None None None None None)
    = RRaise ValueError.
Proof. repeat split; vm_compute; reflexivity. Qed.

(* the constructor and the text together: to_rrule_string of the object built above *)
Example ex_init_text :
  g_to_rrule_string (kw_of ex_parts) = RDone (rrule_text ex_parts).
Proof. vm_compute. reflexivity. Qed.
