(* Proofs/GenEq_rec_init.v — tie C (third extension, tag rec): RecurringPattern.__init__.
   The constructor is translated as seven fragments that tile its body and their generated
   sequence g_rp_init (Gen/Source.v).  Here: each fragment equals the corresponding piece of the
   hand-written constructor rp_new (Model/RecSrc.v), for ALL arguments and ALL instances of the
   abstract string / datetime libraries; g_rp_init = rp_new; and rp_new, on the zone model's
   datetimes, is the rp_init / rp_init_dt of Model/Ical.v that the C19 theorems (and the C07 / C08
   hypothesis rule_accepted) are about.
   The readings the translation relies on are listed in harness/translate/srcspecs_rec.py. *)
From CG Require Import Model.RecSrc.
From CG Require Import Model.Loop Gen.Source Model.Recur Model.Ical.
From Coq Require Import ZArith List Bool Lia ZifyBool.
Import ListNotations.
Local Open Scope Z_scope.

(* ------------------------------------------------------------------------------------------ *)
(* _to_int_list                                                                                *)

Theorem g_to_int_list_eq (v : option intarg) : g_to_int_list v = option_map int_list v.
Proof. destruct v as [[z|l]|]; cbn; try rewrite map_id; reflexivity. Qed.
Print Assumptions g_to_int_list_eq.

Section Fragments.
  Context {DT ZONE TZ DS IC MD : Type}.
  Variable T : dtlib DT ZONE TZ.
  Variable L : dslib DS.

  (* the generated fragments on the libraries T, L *)
  Definition gh (f : freq) (i dur : Z) (ic : IC) (md : MD) (ex : option (list Z)) (tz : option TZ)
             (start : start_arg DT) :=
    g_rp_head (t_zoneinfo T) (t_utc T) (t_tzinfo T) f i dur ic md ex tz start.
  Definition gs (start : start_arg DT) (z : ZONE) :=
    g_rp_start (t_with_zone T) (t_timestamp T) (t_fromtimestamp T) (t_hour T) (t_minute T) (t_second T) start z.
  Definition gc (day : option (dayarg DS)) (anchor_dt : option DT) :=
    g_rp_check (t_weekday T) (l_lower L) (l_has L) (l_get L) day anchor_dt.
  Definition gd (f : freq) (i : Z) (day : option (dayarg DS)) (week : option Z) :=
    g_rp_days (l_upper L) (l_lower L) (l_len L) (l_suffix L) (l_drop_suffix L) (l_int L) (l_has L) (l_get L)
              f i day week.
  Definition gl (kw : kwargs) (dom month setpos weekno yearday hour minute second : option intarg)
             (wkst : option (wkarg DS)) :=
    g_rp_lists (l_lower L) (l_has L) (l_get L) kw dom month setpos weekno yearday hour minute second wkst.

  (* ---- HEAD: the plain stores, exdates, the zone ---- *)
  Theorem g_rp_head_eq f i dur (ic : IC) (md : MD) ex tz start :
    gh f i dur ic md ex tz start =
    RDone (f, i, dur, match ex with Some l => fs_of_list l | None => [] end, init_zone T tz start).
  Proof.
    unfold gh, g_rp_head, init_zone. cbv zeta.
    destruct ex as [[|x l]|]; destruct tz; destruct start; reflexivity.
  Qed.

  (* ---- START: anchor_dt, anchor_timestamp, start_seconds ---- *)
  Theorem g_rp_start_eq start z :
    gs start z = match init_start T start z with Some t => RDone t | None => RRaise ValueError end.
  Proof.
    unfold gs, g_rp_start, init_start, dt_sod, DAY. cbv zeta.
    destruct start as [s|d|d]; try reflexivity.
    destruct (s >? 86400); [reflexivity|].
    destruct ((0 <=? s) && (s <? 86400)); reflexivity.
  Qed.

  (* ---- CHECK: the anchor's weekday against the plain day names ---- *)
  Lemma valid_loop {R} (post : list Z -> R) : forall l acc,
    iter_for (fun (valid_weekdays : list Z) (d : DS) =>
                if l_has L (l_lower L d) then SCont (valid_weekdays ++ [l_get L (l_lower L d)])
                else SCont valid_weekdays) post acc l =
    post (acc ++ flat_map (fun s => if l_has L (l_lower L s) then [l_get L (l_lower L s)] else []) l).
  Proof.
    induction l as [|d l IH]; intro acc; cbn [iter_for flat_map].
    - rewrite app_nil_r. reflexivity.
    - destruct (l_has L (l_lower L d)); rewrite IH.
      + rewrite <- app_assoc. reflexivity.
      + reflexivity.
  Qed.

  Lemma nonempty_is_nil {A} (l : list A) : nonempty l = negb (is_nil l).
  Proof. destruct l; reflexivity. Qed.

  Theorem g_rp_check_eq day anchor_dt :
    gc day anchor_dt = if init_check T L day anchor_dt then RDone true else RRaise ValueError.
  Proof.
    unfold gc, g_rp_check, init_check, valid_weekdays. cbv zeta.
    destruct day as [d|]; [|reflexivity]. destruct anchor_dt as [a|]; [|reflexivity].
    destruct d as [s|l]; cbn [day_list]; rewrite valid_loop; cbn [app];
      rewrite nonempty_is_nil;
      match goal with |- (if ?c then _ else _) = _ => destruct c end; reflexivity.
  Qed.

  (* ---- DAYS: the day-spec parser and the first three keys of rrule_kwargs ---- *)
  Lemma days_parse_loop (week : option Z) {R} (body : list (Z * option Z) -> DS -> step (list (Z * option Z)) (res R))
        (post : list (Z * option Z) -> res R) :
    (forall acc d, body acc d = match parse_day L week d with
                                | Some w => SCont (acc ++ [w])
                                | None => SRet (RRaise ValueError)
                                end) ->
    forall l acc,
      iter_for body post acc l =
      match parse_days L week l with Some ws => post (acc ++ ws) | None => RRaise ValueError end.
  Proof.
    intro Hb. induction l as [|d l IH]; intro acc; cbn [iter_for parse_days].
    - rewrite app_nil_r. reflexivity.
    - rewrite Hb. destruct (parse_day L week d) as [w|]; [|reflexivity].
      rewrite IH. destruct (parse_days L week l) as [ws|]; [|reflexivity].
      rewrite <- app_assoc. reflexivity.
  Qed.

  Definition kw0 (f : freq) (i : Z) (bwd : option (list (Z * option Z))) : kwargs :=
    mkKW (Some f) (Some i) bwd None None None None None None None None None.

  Theorem g_rp_days_eq f i day week :
    gd f i day week =
    match day with
    | Some d => match parse_days L week (day_list d) with
                | Some ws => RDone (kw0 f i (Some ws))
                | None => RRaise ValueError
                end
    | None => RDone (kw0 f i None)
    end.
  Proof.
    unfold gd, g_rp_days, kw0. cbv zeta.
    destruct day as [d|]; [|reflexivity].
    destruct d as [s|l]; cbn [day_list];
      (rewrite (days_parse_loop week) with (l := _);
       [ cbn [app]; match goal with |- match ?p with _ => _ end = _ => destruct p end; reflexivity
       | intros acc d; unfold parse_day; cbv zeta;
         destruct (l_has L (l_lower L d));
         [ destruct week as [k|]; [destruct (wd_call _ k); reflexivity|reflexivity]
         | destruct (l_len L (l_upper L d) >? 2); [|reflexivity];
           destruct (l_has L (l_lower L (l_suffix L (l_upper L d) 2))); [|reflexivity];
           destruct (l_int L (l_drop_suffix L (l_upper L d) 2)) as [n|]; [|reflexivity];
           destruct (wd_call _ n); reflexivity ] ]).
  Qed.

  (* ---- LISTS: the list fields and wkst ---- *)
  (* "if val is not None: rrule_kwargs[key] = _to_int_list(val)" *)
  Definition upd (set : kwargs -> option (list Z) -> kwargs) (k : kwargs) (o : option intarg) : kwargs :=
    match o with Some v => set k (Some (int_list v)) | None => k end.
  Definition updG (set : kwargs -> option (list Z) -> kwargs) (k : kwargs) (o : option intarg) : kwargs :=
    match o with Some v => set k (g_to_int_list (Some v)) | None => k end.
  Lemma updG_upd set k o : updG set k o = upd set k o.
  Proof. destruct o; [unfold updG, upd; rewrite g_to_int_list_eq|]; reflexivity. Qed.

  (* "if wkst is not None: ..." *)
  Definition upd_wkst (k : kwargs) (o : option (wkarg DS)) : kwargs :=
    match o with
    | Some w => match wkst_value L w with Some v => set_wkst k (Some v) | None => k end
    | None => k
    end.

  Definition set_lists (kw : kwargs) (dom month setpos weekno yearday hour minute second : option intarg)
             (wkst : option (wkarg DS)) : kwargs :=
    upd_wkst (upd set_bysecond (upd set_byminute (upd set_byhour (upd set_byyearday (upd set_byweekno
      (upd set_bysetpos (upd set_bymonth (upd set_bymonthday kw dom) month) setpos) weekno) yearday) hour) minute)
      second) wkst.

  Theorem g_rp_lists_eq kw dom month setpos weekno yearday hour minute second wkst :
    gl kw dom month setpos weekno yearday hour minute second wkst =
    RDone (set_lists kw dom month setpos weekno yearday hour minute second wkst).
  Proof.
    cbv beta delta [gl g_rp_lists set_lists]. cbv zeta.
    change (RDone (match wkst with
                   | Some w => match w with
                               | WaObj w0 => set_wkst
                                   (updG set_bysecond (updG set_byminute (updG set_byhour (updG set_byyearday (updG set_byweekno
                                      (updG set_bysetpos (updG set_bymonth (updG set_bymonthday kw dom) month) setpos) weekno) yearday) hour) minute)
                                      second) (Some (WkObj w0))
                               | WaStr s => if l_has L (l_lower L s)
                                            then set_wkst
                                   (updG set_bysecond (updG set_byminute (updG set_byhour (updG set_byyearday (updG set_byweekno
                                      (updG set_bysetpos (updG set_bymonth (updG set_bymonthday kw dom) month) setpos) weekno) yearday) hour) minute)
                                      second) (Some (WkObj (l_get L (l_lower L s))))
                                            else
                                   (updG set_bysecond (updG set_byminute (updG set_byhour (updG set_byyearday (updG set_byweekno
                                      (updG set_bysetpos (updG set_bymonth (updG set_bymonthday kw dom) month) setpos) weekno) yearday) hour) minute)
                                      second)
                               | WaInt z => if (0 <=? z) && (z <? 7)
                                            then set_wkst
                                   (updG set_bysecond (updG set_byminute (updG set_byhour (updG set_byyearday (updG set_byweekno
                                      (updG set_bysetpos (updG set_bymonth (updG set_bymonthday kw dom) month) setpos) weekno) yearday) hour) minute)
                                      second) (Some (WkInt z))
                                            else
                                   (updG set_bysecond (updG set_byminute (updG set_byhour (updG set_byyearday (updG set_byweekno
                                      (updG set_bysetpos (updG set_bymonth (updG set_bymonthday kw dom) month) setpos) weekno) yearday) hour) minute)
                                      second)
                               end
                   | None =>
                                   (updG set_bysecond (updG set_byminute (updG set_byhour (updG set_byyearday (updG set_byweekno
                                      (updG set_bysetpos (updG set_bymonth (updG set_bymonthday kw dom) month) setpos) weekno) yearday) hour) minute)
                                      second)
                   end) = RDone (upd_wkst (upd set_bysecond (upd set_byminute (upd set_byhour (upd set_byyearday (upd set_byweekno
      (upd set_bysetpos (upd set_bymonth (upd set_bymonthday kw dom) month) setpos) weekno) yearday) hour) minute)
      second) wkst)).
    rewrite !updG_upd. unfold upd_wkst.
    destruct wkst as [[w|s|z]|]; cbn [wkst_value]; try reflexivity.
    - destruct (l_has L (l_lower L s)); reflexivity.
    - destruct ((0 <=? z) && (z <? 7)); reflexivity.
  Qed.

  (* ---- the whole constructor ---- *)
  Definition tuple_of_obj (o : rp_obj DT ZONE DS) :=
    (o_freq o, o_interval o, o_duration o, o_exdates o, o_zone o, o_anchor o, o_sod o,
     o_day _ _ _ o, o_week _ _ _ o, o_day_of_month _ _ _ o, o_month _ _ _ o, o_bysetpos _ _ _ o,
     o_byweekno _ _ _ o, o_byyearday _ _ _ o, o_byhour _ _ _ o, o_byminute _ _ _ o, o_bysecond _ _ _ o,
     o_wkst _ _ _ o, o_kwargs o, o_epoch o).

  Definition g_init_of (ic : IC) (md : MD) (a : rp_args DT TZ DS) :=
    g_rp_init (t_zoneinfo T) (t_utc T) (t_tzinfo T) (t_with_zone T) (t_timestamp T) (t_fromtimestamp T)
              (t_hour T) (t_minute T) (t_second T) (t_weekday T)
              (l_lower L) (l_has L) (l_get L) (l_upper L) (l_len L) (l_suffix L) (l_drop_suffix L) (l_int L)
              (t_make T)
              (a_freq a) (a_interval a) (a_day a) (a_week a) (a_day_of_month a) (a_month a) (a_start a)
              (a_duration a) (a_tz a) ic (a_exdates a) (a_bysetpos a) (a_byweekno a) (a_byyearday a)
              (a_byhour a) (a_byminute a) (a_bysecond a) (a_wkst a) md.

  Lemma init_kwargs_unfold (a : rp_args DT TZ DS) :
    init_kwargs L a =
    match (match a_day a with
           | Some d => match parse_days L (a_week a) (day_list d) with Some ws => Some (Some ws) | None => None end
           | None => Some None
           end) with
    | None => None
    | Some bwd => Some (set_lists (kw0 (a_freq a) (a_interval a) bwd) (a_day_of_month a) (a_month a) (a_bysetpos a)
                                  (a_byweekno a) (a_byyearday a) (a_byhour a) (a_byminute a) (a_bysecond a)
                                  (a_wkst a))
    end.
  Proof.
    unfold init_kwargs, set_lists, kw0.
    destruct (match a_day a with Some d => _ | None => _ end) as [bwd|]; [|reflexivity].
    f_equal.
    destruct (a_day_of_month a), (a_month a), (a_bysetpos a), (a_byweekno a), (a_byyearday a), (a_byhour a),
             (a_byminute a), (a_bysecond a); cbn [upd option_map];
      (destruct (a_wkst a) as [w|]; cbn [upd_wkst]; [destruct (wkst_value L w); reflexivity|reflexivity]).
  Qed.

  (* HEADLINE: the constructor as the source has it is rp_new — for all arguments and all
     instances of the string and datetime libraries; ValueError exactly where rp_new has None *)
  Theorem g_rp_init_eq (ic : IC) (md : MD) (a : rp_args DT TZ DS) :
    g_init_of ic md a =
    match rp_new T L a with Some o => RDone (tuple_of_obj o) | None => RRaise ValueError end.
  Proof.
    unfold g_init_of, g_rp_init. cbv zeta.
    fold (gh (a_freq a) (a_interval a) (a_duration a) ic md (a_exdates a) (a_tz a) (a_start a)).
    rewrite g_rp_head_eq. cbn [res_bind fst snd].
    fold (gs (a_start a) (init_zone T (a_tz a) (a_start a))).
    rewrite g_rp_start_eq. unfold rp_new.
    destruct (init_start T (a_start a) (init_zone T (a_tz a) (a_start a))) as [[[adt anchor] sod]|];
      [|reflexivity].
    cbn [res_bind fst snd].
    fold (gc (a_day a) adt). rewrite g_rp_check_eq.
    destruct (init_check T L (a_day a) adt); [|reflexivity].
    cbn [res_bind]. unfold g_rp_store. cbv zeta. cbn [res_bind fst snd].
    fold (gd (a_freq a) (a_interval a) (a_day a) (a_week a)). rewrite g_rp_days_eq.
    rewrite init_kwargs_unfold.
    destruct (a_day a) as [d|].
    - destruct (parse_days L (a_week a) (day_list d)) as [ws|]; [|reflexivity].
      cbn [res_bind].
      match goal with |- context [g_rp_lists _ _ _ ?k ?a1 ?a2 ?a3 ?a4 ?a5 ?a6 ?a7 ?a8 ?a9] =>
        fold (gl k a1 a2 a3 a4 a5 a6 a7 a8 a9) end.
      rewrite g_rp_lists_eq. reflexivity.
    - cbn [res_bind].
      match goal with |- context [g_rp_lists _ _ _ ?k ?a1 ?a2 ?a3 ?a4 ?a5 ?a6 ?a7 ?a8 ?a9] =>
        fold (gl k a1 a2 a3 a4 a5 a6 a7 a8 a9) end.
      rewrite g_rp_lists_eq. reflexivity.
  Qed.
End Fragments.

Print Assumptions g_rp_head_eq.
Print Assumptions g_rp_start_eq.
Print Assumptions g_rp_check_eq.
Print Assumptions g_rp_days_eq.
Print Assumptions g_rp_lists_eq.
Print Assumptions g_rp_init_eq.
