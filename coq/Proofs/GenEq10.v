(* Proofs/GenEq10.v — tie C, two more generated definitions (Gen/Source.v) against their models:
     A. g_recur_occurrence_to_interval   calgebra/recurrence.py RecurringPattern._occurrence_to_interval
        = Model/Recur.v occurrence_to_interval                       g_recur_occurrence_to_interval_eq
     B. g_period_windows_dt              calgebra/metrics.py _period_windows_with_dt
        = Model/Metrics.v period_windows_dt                          g_period_windows_dt_eq
   The generated definitions are parametric in abstract types DT (datetime) and TD (timedelta) and
   in the library calls on them; they are instantiated here with the zone model of Model/Zone.v. *)
From CG Require Import Model.Metrics.
From CG Require Import Model.Loop Gen.Source Model.Recur.
From CG Require Spec.RecurSpec Proofs.RecurExact2 Proofs.GcsaP Proofs.RecurP Proofs.RecurExact3 Proofs.MetricsP Proofs.MetricsP2.

(* tzdata excerpts used by the examples (the tables of Props/C13.v, copied so that the property files
   can quote this file) *)
Definition g10_la : zone := mkZone (-28800)
  [(1583661600, -25200); (1604221200, -28800); (1615716000, -25200); (1636275600, -28800);
   (1647165600, -25200); (1667725200, -28800); (1678615200, -25200); (1699174800, -28800);
   (1710064800, -25200); (1730624400, -28800); (1741514400, -25200); (1762074000, -28800)].
Definition g10_havana : zone := mkZone (-18000)
  [(1583643600, -14400); (1604206800, -18000); (1615698000, -14400); (1636261200, -18000);
   (1647147600, -14400); (1667710800, -18000); (1678597200, -14400); (1699160400, -18000);
   (1710046800, -14400); (1730610000, -18000); (1741496400, -14400); (1762059600, -18000)].
Definition g10_chatham : zone := mkZone 49500
  [(1586008800, 45900); (1601128800, 49500); (1617458400, 45900); (1632578400, 49500);
   (1648908000, 45900); (1664028000, 49500); (1680357600, 45900); (1695477600, 49500);
   (1712412000, 45900); (1727532000, 49500); (1743861600, 45900); (1758981600, 49500)].
Definition g10_troll : zone := mkZone 0
  [(1585443600, 7200); (1603587600, 0); (1616893200, 7200); (1635642000, 0);
   (1648342800, 7200); (1667091600, 0); (1679792400, 7200); (1698541200, 0);
   (1711846800, 7200); (1729990800, 0); (1743296400, 7200); (1761440400, 0)].
From Coq Require Import ZArith List Bool Lia ZifyBool.
Import ListNotations.
Local Open Scope Z_scope.
Ltac Zify.zify_post_hook ::= Z.to_euclidean_division_equations.

(* ========================================================================================== *)
(* A. _occurrence_to_interval                                                                  *)

Notation zone_rt := GcsaP.zone_rt.

(* h:m:s as the generated text computes them from start_seconds recombine to start_seconds *)
Lemma hms_recombine sod :
  (sod / 3600) * 3600 + ((sod mod 3600) / 60) * 60 + (sod mod 3600) mod 60 = sod.
Proof. lia. Qed.

(* the round trip of one instant through the wall clock; zone_rt z is: at every instant *)
Definition rt_at (z : zone) (t : Z) : Prop := wall_to_utc z (utc_to_wall z t) (fold_of z t) = t.

Lemma wall_day_mk d sod : 0 <= sod < DAY -> wall_day (mk_wall d sod) = d.
Proof. unfold wall_day, mk_wall, DAY. lia. Qed.

(* ---- the operations kept abstract: any datetime type observed through (wall clock, fold) ---- *)
Section AbstractOps.
  Context {DT TD : Type}.
  Variable z : zone.
  Variable wallof : DT -> Z.
  Variable foldof : DT -> bool.
  Variable secs : TD -> Z.
  Variable dt_replace_hms : DT -> Z -> Z -> Z -> DT.
  Variable dt_timestamp : DT -> Z.
  Variable dt_fromtimestamp : Z -> DT.
  Variable td_of_seconds : Z -> TD.
  Variable dt_add : DT -> TD -> DT.
  Variable interval_class : Z -> Z -> ivl.
  (* occurrence.replace(hour=h, minute=m, second=s): same date, same fold *)
  Hypothesis replace_wall : forall x h m s,
    wallof (dt_replace_hms x h m s) = mk_wall (wall_day (wallof x)) (h * 3600 + m * 60 + s).
  Hypothesis replace_fold : forall x h m s, foldof (dt_replace_hms x h m s) = foldof x.
  (* dt.timestamp() *)
  Hypothesis timestamp_spec : forall x, dt_timestamp x = wall_to_utc z (wallof x) (foldof x).
  (* datetime.fromtimestamp(t, tz=zone) *)
  Hypothesis from_wall : forall t, wallof (dt_fromtimestamp t) = utc_to_wall z t.
  Hypothesis from_fold : forall t, foldof (dt_fromtimestamp t) = fold_of z t.
  (* timedelta(seconds=s) and dt + td (the sum has fold = 0) *)
  Hypothesis secs_spec : forall s, secs (td_of_seconds s) = s.
  Hypothesis add_wall : forall x d, wallof (dt_add x d) = wallof x + secs d.
  Hypothesis add_fold : forall x d, foldof (dt_add x d) = false.
  Hypothesis interval_spec : forall s e, interval_class s e = mkI (Some s) (Some e) Plain.

  Theorem g_recur_occurrence_to_interval_abs (r : rule) (d : Z) (occ : DT) :
    r_zone r = z -> rule_accepted r -> rt_at z (wall_to_utc z (mk_wall d (r_sod r)) false) ->
    wallof occ = mk_wall d 0 -> foldof occ = false ->
    occurrence_to_interval r d =
    Some (g_recur_occurrence_to_interval (r_sod r) (r_dur r) dt_replace_hms dt_timestamp
            dt_fromtimestamp td_of_seconds dt_add interval_class occ).
  Proof.
    intros Hz Hacc Hrt Hw Hf. unfold rule_accepted in Hacc.
    unfold occurrence_to_interval, g_recur_occurrence_to_interval. cbv zeta. rewrite Hz.
    replace ((r_sod r <? 0) || (DAY <=? r_sod r)) with false by lia.
    rewrite interval_spec. f_equal.
    set (x := dt_replace_hms occ _ _ _).
    assert (Hx : dt_timestamp x = wall_to_utc z (mk_wall d (r_sod r)) false).
    { rewrite timestamp_spec. unfold x. rewrite replace_wall, replace_fold, Hw, Hf.
      rewrite hms_recombine. rewrite wall_day_mk by (unfold DAY; lia). reflexivity. }
    rewrite Hx.
    set (ts := wall_to_utc z (mk_wall d (r_sod r)) false).
    assert (Hy : dt_timestamp (dt_fromtimestamp ts) = ts).
    { rewrite timestamp_spec, from_wall, from_fold. apply Hrt. }
    rewrite Hy.
    rewrite (timestamp_spec (dt_add _ _)), add_wall, add_fold, secs_spec, from_wall.
    reflexivity.
  Qed.
End AbstractOps.
Print Assumptions g_recur_occurrence_to_interval_abs.

(* ---- the zone model: a datetime is (wall clock seconds, fold) ---- *)
Definition zdt := (Z * bool)%type.
Definition z_replace_hms (x : zdt) (h m s : Z) : zdt :=
  let '(w, f) := x in (mk_wall (wall_day w) (h * 3600 + m * 60 + s), f).
Definition z_timestamp (z : zone) (x : zdt) : Z := let '(w, f) := x in wall_to_utc z w f.
Definition z_fromtimestamp (z : zone) (t : Z) : zdt := (utc_to_wall z t, fold_of z t).
Definition z_add (x : zdt) (s : Z) : zdt := let '(w, f) := x in (w + s, false).
Definition z_interval (s e : Z) : ivl := mkI (Some s) (Some e) Plain.

(* the rrule occurrence of local day d: local midnight, fold = 0 *)
Definition occ_dt (d : Z) : zdt := (mk_wall d 0, false).

(* the generated _occurrence_to_interval of the pattern [r] *)
Definition g_occ_of (r : rule) (occ : zdt) : ivl :=
  g_recur_occurrence_to_interval (DT := zdt) (TD := Z) (r_sod r) (r_dur r)
    z_replace_hms (z_timestamp (r_zone r)) (z_fromtimestamp (r_zone r)) (fun s => s) z_add z_interval occ.

(* sanity: 09:00 for one hour, Los Angeles, on a plain day, on the day of the spring gap
   (2024-03-10 = day 19792) and with a start inside the gap (02:30) *)
Definition ex_rule (sod dur : Z) (z : zone) : rule := mkRule Daily 1 [] [] [] [] [] None sod dur z.
Example occ_ex1 :
  occurrence_to_interval (ex_rule 32400 3600 g10_la) 19800
  = Some (g_occ_of (ex_rule 32400 3600 g10_la) (occ_dt 19800)).
Proof. vm_compute. reflexivity. Qed.
Example occ_ex2 :
  occurrence_to_interval (ex_rule 9000 7200 g10_la) 19792
  = Some (g_occ_of (ex_rule 9000 7200 g10_la) (occ_dt 19792))
  /\ g_occ_of (ex_rule 9000 7200 g10_la) (occ_dt 19792)
     = mkI (Some 1710066600) (Some 1710073800) Plain.
Proof. vm_compute. split; reflexivity. Qed.
(* in the autumn fold (2024-11-03 = day 20030, 01:30 for 30 minutes) *)
Example occ_ex3 :
  occurrence_to_interval (ex_rule 5400 1800 g10_la) 20030
  = Some (g_occ_of (ex_rule 5400 1800 g10_la) (occ_dt 20030)).
Proof. vm_compute. reflexivity. Qed.

(* the sharp form: the two agree exactly when the start instant survives the round trip
   fromtimestamp / timestamp (the model writes the start as ts, the source text takes
   window_start.timestamp() again after the normalisation) *)
Theorem g_recur_occurrence_to_interval_eq_iff (r : rule) (d : Z) :
  rule_accepted r ->
  (occurrence_to_interval r d = Some (g_occ_of r (occ_dt d))
   <-> rt_at (r_zone r) (wall_to_utc (r_zone r) (mk_wall d (r_sod r)) false)).
Proof.
  intros Hacc. split.
  - intros H. pose proof Hacc as Hacc'. unfold rule_accepted in Hacc'.
    unfold occurrence_to_interval in H.
    replace ((r_sod r <? 0) || (DAY <=? r_sod r)) with false in H by lia. cbv zeta in H.
    apply (f_equal (fun o => match o with Some i => st i | None => None end)) in H.
    cbv beta iota zeta delta [g_occ_of g_recur_occurrence_to_interval z_interval st z_timestamp
                               z_fromtimestamp z_replace_hms occ_dt] in H.
    injection H as H. rewrite hms_recombine in H. rewrite wall_day_mk in H by (unfold DAY; lia).
    unfold rt_at. symmetry. exact H.
  - intros Hrt.
    apply (g_recur_occurrence_to_interval_abs (r_zone r) fst snd (fun s : Z => s)); try assumption;
      try reflexivity; try (intros [w f]; intros; reflexivity).
Qed.
Print Assumptions g_recur_occurrence_to_interval_eq_iff.

(* HEADLINE A *)
Theorem g_recur_occurrence_to_interval_eq (r : rule) (d : Z) :
  rule_accepted r -> zone_rt (r_zone r) ->
  occurrence_to_interval r d =
  Some (g_recur_occurrence_to_interval (DT := zdt) (TD := Z) (r_sod r) (r_dur r)
          z_replace_hms (z_timestamp (r_zone r)) (z_fromtimestamp (r_zone r)) (fun s => s) z_add
          z_interval (mk_wall d 0, false)).
Proof.
  intros Hacc Hrt. apply (g_recur_occurrence_to_interval_eq_iff r d Hacc). apply Hrt.
Qed.
Print Assumptions g_recur_occurrence_to_interval_eq.

(* outside the accepted patterns the model is None (replace raises ValueError) while the generated
   text, whose datetime operations are total functions here, still returns an interval: the
   hypothesis rule_accepted cannot be dropped *)
Example occurrence_eq_needs_accepted :
  occurrence_to_interval (ex_rule 86400 3600 utc_zone) 0 = None.
Proof. reflexivity. Qed.

(* ---- zone_rt is satisfiable ---- *)
Example zone_rt_utc : zone_rt utc_zone.
Proof. exact GcsaP.utc_zone_rt. Qed.

(* every fixed-offset zone *)
Lemma zone_rt_fixed o : zone_rt (mkZone o []).
Proof.
  intro t. unfold wall_to_utc, utc_to_wall, wall_offset, offset_at. cbn [off0 trans wall_offset_go offset_at_go]. lia.
Qed.

(* every zone with a single transition, forward (gap) or backward (fold), of any size *)
Lemma zone_rt_one o0 T o1 : zone_rt (mkZone o0 [(T, o1)]).
Proof.
  intro t. unfold fold_of, wall_to_utc, utc_to_wall, wall_offset, offset_at.
  cbn [off0 trans wall_offset_go offset_at_go].
  destruct (T <=? t) eqn:E1.
  - destruct (T + Z.max o0 o1 <=? t + o1) eqn:E2.
    + replace (t + o1 - o1 =? t) with true by lia. cbn [negb]. rewrite E2. lia.
    + replace (t + o1 - o0 =? t) with false by lia. cbn [negb].
      replace (T + Z.min o0 o1 <=? t + o1) with true by lia. lia.
  - destruct (T + Z.max o0 o1 <=? t + o0) eqn:E2.
    + exfalso. lia.
    + replace (t + o0 - o0 =? t) with true by lia. cbn [negb]. rewrite E2. lia.
Qed.

Example zone_rt_gap : zone_rt (mkZone (-28800) [(1710064800, -25200)]).
Proof. apply zone_rt_one. Qed.
Example zone_rt_fold : zone_rt (mkZone (-25200) [(1730624400, -28800)]).
Proof. apply zone_rt_one. Qed.

(* a checkable condition on a transition table: the wall-clock thresholds ascend — the later
   threshold of a transition (T + max of the two offsets) is not after the earlier threshold of the
   next one (T' + min): consecutive gaps / folds do not overlap on the wall clock *)
Fixpoint rt_wf_go (cur : Z) (tr : list (Z * Z)) : bool :=
  match tr with
  | [] => true
  | (T, o) :: rest =>
    match rest with
    | [] => true
    | (T', o') :: _ => T + Z.max cur o <=? T' + Z.min o o'
    end && rt_wf_go o rest
  end.
Definition rt_wf (z : zone) : bool := rt_wf_go (off0 z) (trans z).

Lemma rt_low : forall tr cur T o t,
  rt_wf_go cur ((T, o) :: tr) = true -> T <= t -> T + Z.min cur o <= t + offset_at_go o tr t.
Proof.
  induction tr as [|[T' o'] rest IH]; intros cur T o t Hwf Ht.
  - cbn [offset_at_go]. lia.
  - cbn [rt_wf_go] in Hwf. apply andb_true_iff in Hwf. destruct Hwf as [H1 H2].
    cbn [offset_at_go]. destruct (T' <=? t) eqn:E; [|lia].
    pose proof (IH o T' o' t H2 ltac:(lia)). lia.
Qed.

Lemma rt_go : forall tr cur t, rt_wf_go cur tr = true ->
  t + offset_at_go cur tr t
  - wall_offset_go cur tr (t + offset_at_go cur tr t)
      (negb (t + offset_at_go cur tr t - wall_offset_go cur tr (t + offset_at_go cur tr t) false =? t)) = t.
Proof.
  induction tr as [|[T o] rest IH]; intros cur t Hwf.
  - cbn [offset_at_go wall_offset_go]. lia.
  - pose proof Hwf as Hwf0.
    cbn [rt_wf_go] in Hwf. apply andb_true_iff in Hwf. destruct Hwf as [H1 H2].
    cbn [offset_at_go]. destruct (T <=? t) eqn:E1.
    + specialize (IH o t H2).
      pose proof (rt_low rest cur T o t Hwf0 ltac:(lia)) as Hlow.
      set (w := t + offset_at_go o rest t) in *.
      cbn [wall_offset_go]. destruct (T + Z.max cur o <=? w) eqn:E2.
      * destruct (negb (w - wall_offset_go o rest w false =? t)) eqn:Ef.
        -- replace (T + Z.min cur o <=? w) with true by lia. exact IH.
        -- rewrite E2. exact IH.
      * (* w shows a time of the fold of this transition, second pass *)
        assert (Hrest : offset_at_go o rest t = o /\ wall_offset_go o rest w true = o).
        { destruct rest as [|[T' o'] rest']; [split; reflexivity|].
          unfold w in *. cbn [offset_at_go] in *. destruct (T' <=? t) eqn:E3.
          - exfalso. pose proof (rt_low rest' o T' o' t H2 ltac:(lia)). lia.
          - split; [reflexivity|]. cbn [wall_offset_go].
            replace (T' + Z.min o o' <=? t + o) with false by lia. reflexivity. }
        destruct Hrest as [Ho Hw]. unfold w in *. rewrite Ho in *.
        replace (t + o - cur =? t) with false by lia. cbn [negb].
        replace (T + Z.min cur o <=? t + o) with true by lia. rewrite Hw. lia.
    + cbn [wall_offset_go]. replace (T + Z.max cur o <=? t + cur) with false by lia.
      replace (t + cur - cur =? t) with true by lia. cbn [negb].
      replace (T + Z.max cur o <=? t + cur) with false by lia. lia.
Qed.

Theorem zone_rt_wf z : rt_wf z = true -> zone_rt z.
Proof.
  intros H t. unfold fold_of, wall_to_utc, utc_to_wall, wall_offset, offset_at.
  exact (rt_go (trans z) (off0 z) t H).
Qed.
Print Assumptions zone_rt_wf.

Example zone_rt_la : zone_rt g10_la.
Proof. apply zone_rt_wf. vm_compute. reflexivity. Qed.
Example zone_rt_others :
  zone_rt g10_havana /\ zone_rt g10_chatham /\ zone_rt g10_troll.
Proof. repeat split; apply zone_rt_wf; vm_compute; reflexivity. Qed.

(* the condition matters: two backward jumps whose folds overlap on the wall clock — the local
   reading 5000 of instant 1400 denotes no instant under either fold *)
Example zone_rt_overlap_refuted : ~ zone_rt (mkZone 7200 [(1000, 3600); (1500, 0)]).
Proof. intros H. specialize (H 1400). vm_compute in H. discriminate. Qed.

(* and the zone hypothesis of the headline cannot be dropped: a forward jump of 3 s followed one
   second later by a backward jump of 6 s; start_seconds = 1 on 1970-01-01.  The model's interval
   starts at ts = 1, the source text re-reads the normalised window_start (local -2, which denotes
   no instant in this table) and starts at -2. *)
Example occurrence_eq_needs_zone_rt :
  let r := ex_rule 1 10 (mkZone 0 [(0, 3); (1, -3)]) in
  rule_accepted r /\
  occurrence_to_interval r 0 = Some (mkI (Some 1) (Some 11) Plain) /\
  g_occ_of r (occ_dt 0) = mkI (Some (-2)) (Some 11) Plain.
Proof. cbv zeta. split; [unfold rule_accepted, DAY; cbn; lia|]. vm_compute. split; reflexivity. Qed.

(* the headline applies to the Los Angeles table *)
Example g_recur_occurrence_to_interval_eq_la : forall d,
  let r := ex_rule 32400 3600 g10_la in
  occurrence_to_interval r d = Some (g_occ_of r (occ_dt d)).
Proof.
  intros d r. apply g_recur_occurrence_to_interval_eq.
  - unfold rule_accepted, DAY. cbn. lia.
  - apply zone_rt_la.
Qed.

(* non-vacuity of the headline: an accepted pattern in a zone with a transition *)
Example g_recur_occurrence_to_interval_eq_inst : forall d,
  let r := ex_rule 5400 1800 (mkZone (-25200) [(1730624400, -28800)]) in
  occurrence_to_interval r d = Some (g_occ_of r (occ_dt d)).
Proof.
  intros d r. apply g_recur_occurrence_to_interval_eq.
  - unfold rule_accepted, DAY. cbn. lia.
  - apply zone_rt_one.
Qed.

(* ---- consequences used by the property files, on the generated definition ---- *)

(* the generated function computes the interval the specification calls occurrence r d *)
Lemma g_occ_is_occurrence r d :
  rule_accepted r -> zone_rt (r_zone r) -> g_occ_of r (occ_dt d) = RecurSpec.occurrence r d.
Proof.
  intros Hacc Hrt. pose proof (g_recur_occurrence_to_interval_eq r d Hacc Hrt) as H.
  rewrite (RecurExact2.occ_accepted r d Hacc) in H.
  apply (f_equal (fun o => match o with Some i => i | None => g_occ_of r (occ_dt d) end)) in H.
  symmetry. exact H.
Qed.

(* RecurP.anchor_before_checked_zone (C07/C08: nothing the window can see lies before the rrule
   dtstart), on the generated definition *)
Theorem src_occurrence_anchor_before (r : rule) (A a d : Z) :
  0 < r_interval r ->
  rule_accepted r -> zone_rt (r_zone r) ->
  zone_spread_ok (r_zone r) = true ->
  safe_anchor r (local_day (r_zone r) (A - lookback_buffer r)) = Some a ->
  d < a ->
  fend (g_occ_of r (occ_dt d)) <= A.
Proof.
  intros Hk Hacc Hrt Hz Ha Hd.
  apply (RecurP.anchor_before_checked_zone r A a d _ Hk Hacc Hz Ha Hd).
  apply g_recur_occurrence_to_interval_eq; assumption.
Qed.
Print Assumptions src_occurrence_anchor_before.

(* RecurExact3.occ_positive_wf: a positive duration gives an interval of positive length *)
Theorem src_occurrence_positive (r : rule) (d : Z) :
  rule_accepted r -> zone_rt (r_zone r) ->
  RecurExact3.zone_wf (r_zone r) = true -> 0 < r_dur r ->
  fstart (g_occ_of r (occ_dt d)) < fend (g_occ_of r (occ_dt d)).
Proof.
  intros Hacc Hrt Hwf Hd. rewrite (g_occ_is_occurrence r d Hacc Hrt).
  exact (RecurExact3.occ_positive_wf r Hwf Hd d).
Qed.
Print Assumptions src_occurrence_positive.

Example src_occurrence_positive_inst : forall d,
  let r := ex_rule 5400 1800 (mkZone (-25200) [(1730624400, -28800)]) in
  fstart (g_occ_of r (occ_dt d)) < fend (g_occ_of r (occ_dt d)).
Proof.
  intros d r. apply src_occurrence_positive.
  - unfold rule_accepted, DAY. cbn. lia.
  - apply zone_rt_one.
  - reflexivity.
  - cbn. lia.
Qed.

(* ========================================================================================== *)
(* B. _period_windows_with_dt                                                                  *)

(* the generated _period_windows_with_dt under the zone model of Model/Metrics.v: an aware
   datetime in the query zone is its wall clock, a timedelta is a number of seconds *)
Definition g_windows_of (fuel : nat) (z : zone) (a b : Z) (p : period) : res (list win) :=
  g_period_windows_dt (DT := Z) (TD := Z) fuel
    (utc_to_wall z) dt_ymd dt_ymdh
    (fun h => h * 3600) (fun d => d * DAY) (fun w => w * 7 * DAY)
    Z.add Z.sub Z.ltb (ts0 z) (fun w => weekday (wall_day w))
    w_year w_month w_day w_hour a b p.

(* a fuelled model result as a result of the generated text *)
Definition lift_res {A} (acc : list A) (o : option (list A)) : res (list A) :=
  match o with Some l => RDone (acc ++ l) | None => RFuel end.

Definition g_res_opt {A} (r : res A) : option A := match r with RDone a => Some a | _ => None end.

(* sanity *)
Eval vm_compute in (g_windows_of 10 utc_zone 0 10000 Metrics.PHour, period_windows_dt utc_zone 0 10000 Metrics.PHour).
Eval vm_compute in (g_windows_of 2 utc_zone 0 10000 Metrics.PHour).
Eval vm_compute in (g_windows_of 10 g10_la 1710000000 1710300000 Metrics.PDay,
                    period_windows_dt g10_la 1710000000 1710300000 Metrics.PDay).

(* the loop: iter_while over (windows, current) with an appending body is win_loop, for every
   fuel, accumulator and start — both test the condition before looking at the fuel *)
Lemma iter_win_loop (z : zone) (next : Z -> Z) (ew : Z)
      (cond : list win * Z -> bool) (body : list win * Z -> step (list win * Z) (res (list win)))
      (post : list win * Z -> res (list win)) :
  (forall w c, cond (w, c) = (c <? ew)) ->
  (forall w c, body (w, c) = SCont (w ++ [(c, ts0 z c, ts0 z (next c))], next c)) ->
  (forall w c, post (w, c) = RDone w) ->
  forall fuel acc c,
    iter_while fuel cond body post (acc, c) = lift_res acc (win_loop fuel z next c ew).
Proof.
  intros Hc Hb Hp. induction fuel as [|f IH]; intros acc c; cbn [iter_while win_loop]; rewrite Hc.
  - destruct (c <? ew); cbn [lift_res]; [reflexivity|]. rewrite Hp, app_nil_r. reflexivity.
  - destruct (c <? ew); cbn [lift_res]; [|rewrite Hp, app_nil_r; reflexivity].
    rewrite Hb, IH. destruct (win_loop f z next (next c) ew) as [l|]; cbn [lift_res]; [|reflexivity].
    rewrite <- app_assoc. reflexivity.
Qed.

(* (1) EXACT relation, every fuel, every period *)
Theorem g_period_windows_dt_loop (fuel : nat) (z : zone) (a b : Z) (p : period) :
  g_windows_of fuel z a b p =
  if a >=? b then RDone [] else
  let start_dt := utc_to_wall z a in
  let end_dt := utc_to_wall z b in
  match p with
  | Metrics.PFull => RDone [(start_dt, a, b)]
  | Metrics.PHour =>
    lift_res [] (win_loop fuel z next_hour
                   (dt_ymdh (w_year start_dt) (w_month start_dt) (w_day start_dt) (w_hour start_dt)) end_dt)
  | Metrics.PDay =>
    lift_res [] (win_loop fuel z next_day
                   (dt_ymd (w_year start_dt) (w_month start_dt) (w_day start_dt)) end_dt)
  | Metrics.PWeek =>
    lift_res [] (win_loop fuel z next_week
                   (dt_ymd (w_year start_dt) (w_month start_dt) (w_day start_dt)
                    - weekday (wall_day start_dt) * DAY) end_dt)
  | Metrics.PMonth =>
    lift_res [] (win_loop fuel z next_month (dt_ymd (w_year start_dt) (w_month start_dt) 1) end_dt)
  | Metrics.PYear =>
    lift_res [] (win_loop fuel z next_year (dt_ymd (w_year start_dt) 1 1) end_dt)
  end.
Proof.
  unfold g_windows_of, g_period_windows_dt. destruct (a >=? b); [reflexivity|]. cbv zeta.
  destruct p; [| | | | |reflexivity];
    (apply iter_win_loop; intros;
     unfold next_hour, next_day, next_week, next_month, next_year; reflexivity).
Qed.
Print Assumptions g_period_windows_dt_loop.

(* the same in the vocabulary of Proofs/MetricsP2.v (snap: first boundary; step: next boundary) *)
Lemma g_windows_loop_compact fuel z a b p : a < b -> p <> Metrics.PFull ->
  g_windows_of fuel z a b p =
  lift_res [] (win_loop fuel z (MetricsP2.step p) (MetricsP2.snap p (utc_to_wall z a)) (utc_to_wall z b)).
Proof.
  intros Hab Hp. rewrite g_period_windows_dt_loop. replace (a >=? b) with false by lia. cbv zeta.
  destruct p; cbn [MetricsP2.step MetricsP2.snap]; [reflexivity..|exfalso; apply Hp; reflexivity].
Qed.

(* more fuel, same windows *)
Lemma win_loop_mono z next ew : forall f c l,
  win_loop f z next c ew = Some l -> forall f', (f <= f')%nat -> win_loop f' z next c ew = Some l.
Proof.
  induction f as [|f IH]; intros c l H f' Hle.
  - cbn [win_loop] in H. destruct (c <? ew) eqn:E; [discriminate|].
    destruct f'; cbn [win_loop]; rewrite E; exact H.
  - destruct f' as [|f']; [lia|]. cbn [win_loop] in H |- *.
    destruct (c <? ew); [|exact H].
    destruct (win_loop f z next (next c) ew) as [r|] eqn:Er; [|discriminate].
    rewrite (IH _ _ Er f') by lia. exact H.
Qed.

Lemma win_loop_det z next ew f f' c l l' :
  win_loop f z next c ew = Some l -> win_loop f' z next c ew = Some l' -> l = l'.
Proof.
  intros H H'.
  pose proof (win_loop_mono z next ew f c l H (Nat.max f f') (Nat.le_max_l _ _)) as E.
  pose proof (win_loop_mono z next ew f' c l' H' (Nat.max f f') (Nat.le_max_r _ _)) as E'.
  congruence.
Qed.

(* the fuel the model gives its loop *)
Definition windows_fuel (z : zone) (a b : Z) (p : period) : nat :=
  match p with
  | Metrics.PFull => O
  | _ => loop_fuel (MetricsP2.fuel_unit p) (MetricsP2.snap p (utc_to_wall z a)) (utc_to_wall z b)
  end.

Eval vm_compute in (windows_fuel utc_zone 0 10000 Metrics.PHour,
                    windows_fuel g10_la 1700000000 1710000000 Metrics.PMonth).

(* (2) HEADLINE B: with at least the model's fuel the generated function returns the model's
   windows (start_ts >= end_ts and PFull need no fuel: windows_fuel is then irrelevant / 0) *)
Theorem g_period_windows_dt_eq (z : zone) (a b : Z) (p : period) (l : list win) (fuel : nat) :
  period_windows_dt z a b p = Some l ->
  (windows_fuel z a b p <= fuel)%nat ->
  g_period_windows_dt (DT := Z) (TD := Z) fuel
    (utc_to_wall z) dt_ymd dt_ymdh
    (fun h => h * 3600) (fun d => d * DAY) (fun w => w * 7 * DAY)
    Z.add Z.sub Z.ltb (ts0 z) (fun w => weekday (wall_day w))
    w_year w_month w_day w_hour a b p = RDone l.
Proof.
  intros H Hf. change (g_windows_of fuel z a b p = RDone l).
  destruct (a >=? b) eqn:E.
  - rewrite g_period_windows_dt_loop, E. unfold period_windows_dt in H. rewrite E in H.
    injection H as <-. reflexivity.
  - assert (Hab : a < b) by lia.
    assert (Hp : {p = Metrics.PFull} + {p <> Metrics.PFull}) by (destruct p; (left; reflexivity) || (right; discriminate)).
    destruct Hp as [->|Hp].
    + rewrite g_period_windows_dt_loop, E. unfold period_windows_dt in H. rewrite E in H.
      injection H as <-. reflexivity.
    + rewrite (g_windows_loop_compact fuel z a b p Hab Hp).
      rewrite (MetricsP2.pwd_unfold z a b p Hab Hp) in H.
      assert (Hf' : (loop_fuel (MetricsP2.fuel_unit p) (MetricsP2.snap p (utc_to_wall z a)) (utc_to_wall z b) <= fuel)%nat)
        by (destruct p; try exact Hf; exfalso; apply Hp; reflexivity).
      rewrite (win_loop_mono _ _ _ _ _ _ H fuel Hf'). reflexivity.
Qed.
Print Assumptions g_period_windows_dt_eq.

(* the model never runs out of fuel (MetricsP2.period_windows_total), so: *)
Corollary g_period_windows_dt_total (z : zone) (a b : Z) (p : period) (fuel : nat) :
  (windows_fuel z a b p <= fuel)%nat ->
  exists l, period_windows_dt z a b p = Some l /\ g_windows_of fuel z a b p = RDone l.
Proof.
  intros Hf. destruct (MetricsP2.period_windows_total z a b p) as [l Hl].
  exists l. split; [exact Hl|]. exact (g_period_windows_dt_eq z a b p l fuel Hl Hf).
Qed.
Print Assumptions g_period_windows_dt_total.

(* conversely, with ANY fuel: a normal return of the generated function is the model's answer,
   and the only other outcome is RFuel *)
Theorem g_period_windows_dt_done (z : zone) (a b : Z) (p : period) (l : list win) (fuel : nat) :
  g_windows_of fuel z a b p = RDone l -> period_windows_dt z a b p = Some l.
Proof.
  intros H. destruct (MetricsP2.period_windows_total z a b p) as [l' Hl']. rewrite Hl'. f_equal.
  destruct (a >=? b) eqn:E.
  - rewrite g_period_windows_dt_loop, E in H. unfold period_windows_dt in Hl'. rewrite E in Hl'. congruence.
  - assert (Hab : a < b) by lia.
    assert (Hp : {p = Metrics.PFull} + {p <> Metrics.PFull}) by (destruct p; (left; reflexivity) || (right; discriminate)).
    destruct Hp as [->|Hp].
    + rewrite g_period_windows_dt_loop, E in H. unfold period_windows_dt in Hl'. rewrite E in Hl'. congruence.
    + rewrite (g_windows_loop_compact fuel z a b p Hab Hp) in H.
      rewrite (MetricsP2.pwd_unfold z a b p Hab Hp) in Hl'.
      destruct (win_loop fuel z (MetricsP2.step p) (MetricsP2.snap p (utc_to_wall z a)) (utc_to_wall z b))
        as [l0|] eqn:E0; cbn [lift_res app] in H; [|discriminate].
      injection H as <-. symmetry. exact (win_loop_det _ _ _ _ _ _ _ _ E0 Hl').
Qed.
Print Assumptions g_period_windows_dt_done.

Theorem g_period_windows_dt_outcomes (z : zone) (a b : Z) (p : period) (fuel : nat) :
  g_windows_of fuel z a b p = RFuel \/ exists l, g_windows_of fuel z a b p = RDone l.
Proof.
  rewrite g_period_windows_dt_loop. destruct (a >=? b); [right; eexists; reflexivity|]. cbv zeta.
  destruct p;
    match goal with
    | |- context [win_loop ?f ?z ?n ?c ?e] => destruct (win_loop f z n c e); cbn [lift_res]
    | _ => idtac
    end; (left; reflexivity) || (right; eexists; reflexivity).
Qed.

(* (3) examples *)
Example windows_ex_hour :
  g_windows_of 10 utc_zone 0 10000 Metrics.PHour
  = RDone [(0, 0, 3600); (3600, 3600, 7200); (7200, 7200, 10800)]
  /\ period_windows_dt utc_zone 0 10000 Metrics.PHour
     = Some [(0, 0, 3600); (3600, 3600, 7200); (7200, 7200, 10800)].
Proof. vm_compute. split; reflexivity. Qed.
Example windows_ex_fuel0 : g_windows_of 0 utc_zone 0 10000 Metrics.PHour = RFuel.
Proof. vm_compute. reflexivity. Qed.
Example windows_ex_fuel2 : g_windows_of 2 utc_zone 0 10000 Metrics.PHour = RFuel.
Proof. vm_compute. reflexivity. Qed.
(* exactly as many passes as windows are enough: the loop test comes before the fuel test *)
Example windows_ex_fuel3 :
  g_windows_of 3 utc_zone 0 10000 Metrics.PHour = RDone [(0, 0, 3600); (3600, 3600, 7200); (7200, 7200, 10800)].
Proof. vm_compute. reflexivity. Qed.
Example windows_ex_empty : g_windows_of 0 utc_zone 5 5 Metrics.PDay = RDone [].
Proof. vm_compute. reflexivity. Qed.
Example windows_ex_full : g_windows_of 0 utc_zone 5 50 Metrics.PFull = RDone [(5, 5, 50)].
Proof. vm_compute. reflexivity. Qed.
Example windows_ex_day :
  g_windows_of 5 utc_zone 100000 200000 Metrics.PDay
  = RDone [(86400, 86400, 172800); (172800, 172800, 259200)].
Proof. vm_compute. reflexivity. Qed.
(* 1970-01-01 is a Thursday: the week starts on Monday 1969-12-29 *)
Example windows_ex_week :
  g_windows_of 5 utc_zone 0 700000 Metrics.PWeek
  = RDone [(-259200, -259200, 345600); (345600, 345600, 950400)].
Proof. vm_compute. reflexivity. Qed.
Example windows_ex_month :
  g_windows_of 5 utc_zone 2600000 5200000 Metrics.PMonth
  = RDone [(0, 0, 2678400); (2678400, 2678400, 5097600); (5097600, 5097600, 7776000)].
Proof. vm_compute. reflexivity. Qed.
Example windows_ex_year :
  g_windows_of 5 utc_zone 31000000 32000000 Metrics.PYear
  = RDone [(0, 0, 31536000); (31536000, 31536000, 63072000)].
Proof. vm_compute. reflexivity. Qed.
(* Los Angeles over the 2024 spring transition: the day of the gap lasts 23 hours *)
Example windows_ex_la :
  g_windows_of 10 g10_la 1710000000 1710300000 Metrics.PDay
  = RDone [(1709942400, 1709971200, 1710057600); (1710028800, 1710057600, 1710140400);
           (1710115200, 1710140400, 1710226800); (1710201600, 1710226800, 1710313200)]
  /\ period_windows_dt g10_la 1710000000 1710300000 Metrics.PDay
     = g_res_opt (g_windows_of 10 g10_la 1710000000 1710300000 Metrics.PDay).
Proof. vm_compute. split; reflexivity. Qed.
(* non-vacuity of the headline's hypotheses *)
Example g_period_windows_dt_eq_inst :
  exists l, period_windows_dt g10_la 1700000000 1710000000 Metrics.PMonth = Some l
            /\ (windows_fuel g10_la 1700000000 1710000000 Metrics.PMonth <= 10)%nat
            /\ g_windows_of 10 g10_la 1700000000 1710000000 Metrics.PMonth = RDone l
            /\ length l = 5%nat.
Proof.
  eexists. split; [vm_compute; reflexivity|]. split; [vm_compute; lia|].
  split; vm_compute; reflexivity.
Qed.

(* (4) headline lemmas of Proofs/MetricsP.v / MetricsP2.v, on the generated definition; they hold of
   every normal return, whatever the fuel (g_period_windows_dt_done) *)

(* MetricsP.windows_contiguous: each window ends where the next begins — no zone hypothesis *)
Theorem src_period_windows_contiguous fuel z a b p ws :
  g_windows_of fuel z a b p = RDone ws -> MetricsP.contigP ws.
Proof. intros H. exact (MetricsP.windows_contiguous z a b p ws (g_period_windows_dt_done _ _ _ _ _ _ H)). Qed.
Print Assumptions src_period_windows_contiguous.

(* MetricsP.C13_additivity_windows: the per-window totals add up to the measure of the range *)
Theorem src_period_windows_additivity fuel z a b p ws evs :
  MetricsP.zone_wf (MetricsP.unit_of_period p) z = true -> a < b ->
  (utc_to_wall z b mod MetricsP.unit_of_period p = 0 -> fold_of z b = false) ->
  g_windows_of fuel z a b p = RDone ws ->
  MetricsSpec.sumZ (map (MetricsSpec.spec_total evs a b) ws) = MetricsSpec.measure evs a b.
Proof.
  intros Hz Hab Hend H.
  exact (MetricsP.C13_additivity_windows z a b p ws evs Hz Hab Hend (g_period_windows_dt_done _ _ _ _ _ _ H)).
Qed.
Print Assumptions src_period_windows_additivity.

(* MetricsP2.windows_calendar_aligned: every window begins when the local clock reaches its label,
   a period boundary, and ends when it reaches the next boundary; labels are consecutive *)
Theorem src_period_windows_calendar_aligned fuel z a b p ws :
  MetricsP.zone_wf (MetricsP.unit_of_period p) z = true -> p <> Metrics.PFull ->
  g_windows_of fuel z a b p = RDone ws ->
  forallb (MetricsSpec.window_ok z p) ws = true /\ MetricsSpec.contiguous p ws = true.
Proof.
  intros Hz Hp H.
  exact (MetricsP2.windows_calendar_aligned z a b p ws Hz Hp (g_period_windows_dt_done _ _ _ _ _ _ H)).
Qed.
Print Assumptions src_period_windows_calendar_aligned.

(* non-vacuity: Los Angeles passes the zone check, and the run above is a normal return *)
Example src_period_windows_inst :
  MetricsP.zone_wf (MetricsP.unit_of_period Metrics.PDay) g10_la = true
  /\ g_res_opt (g_windows_of 10 g10_la 1710000000 1710300000 Metrics.PDay) <> None
  /\ (utc_to_wall g10_la 1710300000 mod MetricsP.unit_of_period Metrics.PDay = 0 ->
      fold_of g10_la 1710300000 = false).
Proof. split; [vm_compute; reflexivity|]. split; [vm_compute; discriminate|]. intros _. vm_compute. reflexivity. Qed.
