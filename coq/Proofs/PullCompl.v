(* Proofs/PullCompl.v — C14, the open-ended prefix theorem for expressions WITH a Complement.
   Proofs/PullDiff.v proves "islice(e[a:], n) = first n results of every long bounded query" for
   complement-free e (nsc e) by a machine-level simulation.  A Complement machine carries the window
   end in its state, and its last gap differs (end None in the open query, end b in the bounded
   one), so here the argument is run at the LIST level:
     noninterference   moves the open-ended run onto the leaves cut at b (agree_eventually),
     refinement        identifies what the open-ended CHAIN yields over those finite leaves with
                       the list sweeps taken with an open window (runs_compl, runs_inter, ptake_runs),
     csweep_same / csweep_ssim / ssim_clip   compare the open-window and the b-window sweeps.
   1. csweep_sim, csweep_same   the complement sweep over ONE source list, open window against
                                window [a,b]: same gaps up to the clip below b (no sortedness needed)
   2. open_via_sim              the skeleton: any class for which [runs] + [sim] are shown
      open_compl_slice_is_list_prefix_partial   e = ~s, s complement-free
   3. csweep_ssim, ssim_clip    a Complement propagates the relation; through the clip
      open_compl_tower_is_list_prefix_partial   e = ~s, ~~s (= flatten s), ~~~s, ...
      open_compl_tower_exact_partial            exact equality when no result is unbounded
   Not proved: Union / Intersection / Difference / filter / buffer ABOVE a Complement.
   csweep_nn_needed: the hypothesis "no source element ends before it starts" is used (list level). *)
From Coq Require Import Lia ZifyBool.
From CG Require Import Model.Pull Proofs.PullP Proofs.PullRefine Proofs.PullInter Proofs.PullDiff.
From CG Require Import Proofs.Defs Proofs.Clip.

(* ==================================================================================== *)
(* 0. the relation: equal, or the open result is unbounded and the bounded one ends at b *)

Definition eq_up_to_clip (b : Z) (x y : ivl) : Prop :=
  x = y \/ (en x = None /\ y = mkI (st x) (Some b) (pl x)).

(* an item that lies below the window end b: it starts before b and, if its end is finite, ends
   at or before b *)
Definition low (b : Z) (g : ivl) : Prop :=
  fstart g < b /\ forall z, en g = Some z -> z <= b.

(* two result lists that agree up to the clip as long as the open one stays below b *)
Inductive sim (b : Z) : list ivl -> list ivl -> Prop :=
| sim_cons : forall x y Lo Lb, eq_up_to_clip b x y -> sim b Lo Lb -> sim b (x :: Lo) (y :: Lb)
| sim_end : forall Lb, Lb = [] -> sim b [] Lb
| sim_stop : forall x Lo Lb, ~ low b x -> sim b (x :: Lo) Lb.

Lemma sim_firstn : forall b Lo Lb, sim b Lo Lb -> forall n, (n <= length Lo)%nat ->
  (forall g, In g (firstn n Lo) -> low b g) ->
  Forall2 (eq_up_to_clip b) (firstn n Lo) (firstn n Lb).
Proof.
  intros b Lo Lb H. induction H as [x y Lo Lb Hxy Hs IH|Lb ->|x Lo Lb Hx]; intros n Hn Hlow.
  - destruct n as [|n]; [constructor|]. cbn [firstn] in *. constructor; [exact Hxy|].
    apply IH; [simpl in Hn; lia|]. intros g Hg. apply Hlow. right. exact Hg.
  - destruct n; [constructor|simpl in Hn; lia].
  - destruct n as [|n]; [constructor|]. exfalso. apply Hx. apply Hlow. left. reflexivity.
Qed.

Lemma sim_high : forall b L, (forall g, In g L -> b <= fstart g) -> sim b L [].
Proof.
  intros b [|x L] H; [apply sim_end; reflexivity|].
  apply sim_stop. intros [Hl _]. specialize (H x (or_introl eq_refl)). lia.
Qed.

(* ==================================================================================== *)
(* 1. the complement sweep, open window against bounded window, over the SAME source list *)

Definition nn (x : ivl) : Prop := fstart x <= fend x.

Lemma final_gap_start : forall c eb e g, In g (final_gap c eb e) -> fstart g = c.
Proof.
  intros c eb e g H. unfold final_gap in H. destruct (c <? eb); [|destruct H].
  destruct H as [<-|[]]. unfold gap. apply fstart_unS.
Qed.

(* every gap starts at or after the cursor: no hypothesis on the source *)
Lemma csweep_starts : forall xs sb eb e c g, In g (csweep xs sb eb e c) -> c <= fstart g.
Proof.
  induction xs as [|x r IH]; intros sb eb e c g H; cbn [csweep] in H.
  - rewrite (final_gap_start _ _ _ _ H). lia.
  - destruct (fend x <? sb); [exact (IH _ _ _ _ _ H)|].
    destruct (fstart x >? eb); [rewrite (final_gap_start _ _ _ _ H); lia|].
    cbv zeta in H. destruct (Z.min (fend x) eb <=? c); [exact (IH _ _ _ _ _ H)|].
    apply in_app_or in H as [H|H].
    + destruct (Z.max (fstart x) sb >? c); [|destruct H]. destruct H as [<-|[]].
      unfold gap. rewrite fstart_unS. lia.
    + destruct (Z.max c (Z.min (fend x) eb) >? eb); [destruct H|].
      pose proof (IH _ _ _ _ _ H). lia.
Qed.

Lemma csweep_sorted : forall xs sb eb e c, sorted_start (csweep xs sb eb e c).
Proof.
  induction xs as [|x r IH]; intros sb eb e c; cbn [csweep].
  - unfold final_gap. destruct (c <? eb); simpl; [split; [intros y []|exact I]|exact I].
  - destruct (fend x <? sb); [apply IH|].
    destruct (fstart x >? eb).
    { unfold final_gap. destruct (c <? eb); simpl; [split; [intros y []|exact I]|exact I]. }
    cbv zeta. destruct (Z.min (fend x) eb <=? c); [apply IH|].
    assert (Hrest : sorted_start (if Z.max c (Z.min (fend x) eb) >? eb then []
                                  else csweep r sb eb e (Z.max c (Z.min (fend x) eb)))).
    { destruct (Z.max c (Z.min (fend x) eb) >? eb); [exact I|apply IH]. }
    destruct (Z.max (fstart x) sb >? c); cbn [app]; [|exact Hrest].
    split; [|exact Hrest]. intros y Hy. unfold gap. rewrite fstart_unS.
    destruct (Z.max c (Z.min (fend x) eb) >? eb); [destruct Hy|].
    pose proof (csweep_starts _ _ _ _ _ _ Hy). lia.
Qed.

(* with the cursor at the window end nothing more is emitted *)
Lemma csweep_top : forall xs sb eb e, csweep xs sb eb e eb = [].
Proof.
  induction xs as [|x r IH]; intros sb eb e; cbn [csweep].
  - unfold final_gap. rewrite Z.ltb_irrefl. reflexivity.
  - destruct (fend x <? sb); [apply IH|].
    destruct (fstart x >? eb); [unfold final_gap; rewrite Z.ltb_irrefl; reflexivity|].
    cbv zeta. replace (Z.min (fend x) eb <=? eb) with true by lia. apply IH.
Qed.

Lemma clip_starts : forall a bo c L g, (forall g', In g' L -> c <= fstart g') ->
  In g (flat_map (clipW (Some a) bo) L) -> c <= fstart g.
Proof.
  intros a bo c L g HL H. apply in_flat_map in H as [g' [Hg' H]]. specialize (HL g' Hg').
  unfold clipW in H. cbv zeta in H.
  destruct (Z.max (fstart g') (bnd_lo (Some a)) <? Z.min (fend g') (bnd_hi bo)); [|destruct H].
  destruct H as [<-|[]]. unfold set_span. rewrite fstart_unS. lia.
Qed.

Section OpenBounded.
Variables a b : Z.
Hypothesis Ha : NEG_INF <= a.
Hypothesis Hab : a <= b.
Hypothesis Hb : b < POS_INF.

Notation CO := (clipW (Some a) None).
Notation CB := (clipW (Some a) (Some b)).

Lemma clip_gap : forall bo c ss, a <= c -> c < ss ->
  clipW (Some a) bo (gap (unS c) (unS ss)) =
  if c <? Z.min ss (bnd_hi bo) then [mkI (unS c) (unE (Z.min ss (bnd_hi bo))) Plain] else [].
Proof.
  intros bo c ss H1 H2. unfold clipW. cbv zeta. unfold gap. rewrite fstart_unS.
  assert (Hfe : fend (mkI (unS c) (unS ss) Plain) = ss).
  { unfold fend, unS. cbn [en]. destruct (ss =? NEG_INF) eqn:E; [lia|reflexivity]. }
  rewrite Hfe. cbn [bnd_lo]. replace (Z.max c a) with c by lia. reflexivity.
Qed.

Lemma clip_final_o : forall c, a <= c -> c < POS_INF ->
  flat_map CO (final_gap c POS_INF None) = [mkI (unS c) None Plain].
Proof.
  intros c H1 H2. unfold final_gap. replace (c <? POS_INF) with true by lia.
  rewrite Z.eqb_refl. cbn [flat_map app]. rewrite app_nil_r.
  unfold clipW. cbv zeta. unfold gap. rewrite fstart_unS. cbn [bnd_lo bnd_hi].
  unfold fend at 1 2. cbn [en]. rewrite Z.min_id. replace (Z.max c a) with c by lia.
  replace (c <? POS_INF) with true by lia. unfold set_span. cbn [pl]. unfold unE.
  rewrite Z.eqb_refl. reflexivity.
Qed.

Lemma clip_final_b : forall c, a <= c ->
  flat_map CB (final_gap c b (Some b)) = if c <? b then [mkI (unS c) (Some b) Plain] else [].
Proof.
  intros c H1. unfold final_gap. destruct (c <? b) eqn:E; [|reflexivity].
  replace (b =? POS_INF) with false by lia. cbn [flat_map app]. rewrite app_nil_r.
  unfold clipW. cbv zeta. unfold gap. rewrite fstart_unS. cbn [bnd_lo bnd_hi].
  unfold fend at 1 2. cbn [en]. rewrite Z.min_id. replace (Z.max c a) with c by lia.
  rewrite E. unfold set_span. cbn [pl]. unfold unE.
  replace (b =? POS_INF) with false by lia. reflexivity.
Qed.

Lemma sim_final : forall c, a <= c <= b ->
  sim b (flat_map CO (final_gap c POS_INF None)) (flat_map CB (final_gap c b (Some b))).
Proof.
  intros c Hc. rewrite clip_final_o, clip_final_b by lia. destruct (c <? b) eqn:E.
  - apply sim_cons; [|apply sim_end; reflexivity]. right. split; reflexivity.
  - apply sim_stop. intros [Hl _]. rewrite fstart_unS in Hl. lia.
Qed.

Lemma open_rest_high : forall xs c, b <= c -> forall g,
  In g (flat_map CO (if c >? POS_INF then [] else csweep xs a POS_INF None c)) -> b <= fstart g.
Proof.
  intros xs c Hc g H. destruct (c >? POS_INF); [destruct H|].
  eapply clip_starts; [|exact H].
  intros g' Hg'. pose proof (csweep_starts _ _ _ _ _ _ Hg'). lia.
Qed.

(* the core: the clipped open-window gaps and the clipped bounded-window gaps of the same source
   list agree up to the clip for as long as the open ones stay below b *)
Lemma csweep_sim : forall xs c, a <= c <= b -> Forall nn xs ->
  sim b (flat_map CO (csweep xs a POS_INF None c)) (flat_map CB (csweep xs a b (Some b) c)).
Proof.
  induction xs as [|x r IH]; intros c Hc Hnn; cbn [csweep].
  - apply sim_final. exact Hc.
  - inversion Hnn as [|? ? Hx Hr]; subst. unfold nn in Hx.
    destruct (fend x <? a) eqn:E1; [apply IH; assumption|].
    destruct (fstart x >? POS_INF) eqn:E2o.
    { replace (fstart x >? b) with true by lia. apply sim_final. exact Hc. }
    cbv zeta.
    destruct (fstart x >? b) eqn:E2b.
    { (* the bounded sweep stops here; the open one emits a gap that reaches past b *)
      replace (Z.min (fend x) POS_INF <=? c) with false by lia.
      replace (Z.max (fstart x) a >? c) with true by lia.
      cbn [app flat_map]. rewrite clip_gap by lia. cbn [bnd_hi].
      replace (c <? Z.min (Z.max (fstart x) a) POS_INF) with true by lia.
      cbn [app]. rewrite clip_final_b by lia.
      destruct (Z.min (Z.max (fstart x) a) POS_INF =? POS_INF) eqn:E6.
      - destruct (c <? b) eqn:E7.
        + apply sim_cons.
          * right. unfold unE. rewrite E6. split; reflexivity.
          * apply sim_high. apply open_rest_high. lia.
        + apply sim_stop. intros [Hl _]. rewrite fstart_unS in Hl. lia.
      - apply sim_stop. intros [_ Hl]. unfold unE in Hl. rewrite E6 in Hl. cbn [en] in Hl.
        specialize (Hl _ eq_refl). lia. }
    destruct (fend x <=? b) eqn:E5.
    { (* the item lies inside [a, b]: both sweeps take the same branch *)
      replace (Z.min (fend x) POS_INF) with (fend x) by lia.
      replace (Z.min (fend x) b) with (fend x) by lia.
      destruct (fend x <=? c) eqn:E3; [apply IH; assumption|].
      replace (Z.max c (fend x) >? POS_INF) with false by lia.
      replace (Z.max c (fend x) >? b) with false by lia.
      destruct (Z.max (fstart x) a >? c) eqn:E4; cbn [app]; [|apply IH; [lia|assumption]].
      cbn [flat_map]. rewrite !clip_gap by lia. cbn [bnd_hi].
      replace (Z.min (Z.max (fstart x) a) POS_INF) with (Z.max (fstart x) a) by lia.
      replace (Z.min (Z.max (fstart x) a) b) with (Z.max (fstart x) a) by lia.
      replace (c <? Z.max (fstart x) a) with true by lia. cbn [app].
      apply sim_cons; [left; reflexivity|]. apply IH; [lia|assumption]. }
    (* the item straddles b *)
    replace (Z.min (fend x) b) with b by lia.
    replace (Z.min (fend x) POS_INF <=? c) with false by lia.
    destruct (b <=? c) eqn:E3.
    { assert (c = b) by lia. subst c. rewrite csweep_top. cbn [flat_map].
      replace (Z.max (fstart x) a >? b) with false by lia. cbn [app].
      apply sim_high. apply open_rest_high. lia. }
    replace (Z.max c b) with b by lia. replace (b >? b) with false by lia. rewrite csweep_top.
    destruct (Z.max (fstart x) a >? c) eqn:E4; cbn [app].
    + cbn [flat_map]. rewrite !clip_gap by lia. cbn [bnd_hi].
      replace (Z.min (Z.max (fstart x) a) POS_INF) with (Z.max (fstart x) a) by lia.
      replace (Z.min (Z.max (fstart x) a) b) with (Z.max (fstart x) a) by lia.
      replace (c <? Z.max (fstart x) a) with true by lia. cbn [app].
      apply sim_cons; [left; reflexivity|]. apply sim_high. apply open_rest_high. lia.
    + apply sim_high. apply open_rest_high. lia.
Qed.
End OpenBounded.

(* ==================================================================================== *)
(* 2. through the clip "& solid" of Timeline.__getitem__, and to the pull machines *)

(* a bound past every start and every finite end of the delivered items *)
Definition hi_of (outs : list ivl) : Z :=
  fold_right (fun g acc => Z.max acc (Z.max (fstart g + 1) (match en g with Some z => z | None => 0 end)))
             0 outs.

Lemma hi_of_low : forall outs b, hi_of outs <= b -> forall g, In g outs -> low b g.
Proof.
  induction outs as [|x r IH]; intros b Hb g Hg; [destruct Hg|].
  cbn [hi_of fold_right] in Hb. fold (hi_of r) in Hb. destruct Hg as [<-|Hg].
  - split; [lia|]. intros z Hz. rewrite Hz in Hb. lia.
  - apply IH; [lia|exact Hg].
Qed.

Lemma Forall2_clip_exact : forall b l1 l2, Forall2 (eq_up_to_clip b) l1 l2 ->
  (forall g, In g l1 -> en g <> None) -> l1 = l2.
Proof.
  intros b l1 l2 H. induction H as [|x y l1 l2 Hxy HF IH]; intro Hfin; [reflexivity|].
  destruct Hxy as [<-|[Hn _]].
  - f_equal. apply IH. intros g Hg. apply Hfin. right. exact Hg.
  - exfalso. exact (Hfin x (or_introl eq_refl) Hn).
Qed.

Lemma pslice_compl_runs : forall env o s a bo S, runs env o (compile s a bo) S ->
  runs env o (pslice (PCompl s) a bo)
       (flat_map (clipW (Some a) bo) (compl_sweep S (Some a) bo)).
Proof.
  intros env o s a bo S Hs.
  rewrite <- (clip_sweep_masks true) by (unfold compl_sweep; apply csweep_sorted).
  change (pslice (PCompl s) a bo) with
    (MInter [true; true] IInit
       (map (fun m => (s0, m)) [MCompl a (bnd_hi bo) bo CRun a (compile s a bo);
                                MOnce (Some (mkI (Some a) bo Plain))])).
  apply runs_inter; [|simpl; lia].
  constructor; [apply (runs_compl env o _ _ a bo Hs)|].
  constructor; [apply runs_once|constructor].
Qed.

Lemma lslice_compl : forall env s a b,
  lslice env (PCompl s) a b =
  flat_map (clipW (Some a) (Some b)) (compl_sweep (lfetch env s a b) (Some a) (Some b)).
Proof.
  intros env s a b.
  rewrite <- (clip_sweep_masks true) by (unfold compl_sweep; apply csweep_sorted).
  reflexivity.
Qed.

(* the skeleton shared by every class of expressions: it suffices to exhibit, for every long
   window [a, b], what the OPEN-ended machine yields when its leaves are cut at b, and to relate
   that list to the bounded list model by [sim].  (Noninterference moves the open-ended run onto
   the finite leaves; refinement and determinism identify its results with a list prefix.) *)
Lemma open_via_sim : forall F env e a n c outs m' c' (Lo : Z -> list ivl) B0,
  take F env (oenv_of (pand e PSolid) a None) n (pslice e a None) c = Some (outs, false, m', c') ->
  (forall b, B0 <= b -> b < POS_INF ->
     runs env (oenv_of (pand e PSolid) a (Some b)) (pslice e a None) (Lo b) /\
     sim b (Lo b) (lslice env e a b)) ->
  exists B, forall b, B <= b -> b < POS_INF ->
    Forall2 (eq_up_to_clip b) outs (firstn n (lslice env e a b)).
Proof.
  intros F env e a n c outs m' c' Lo B0 H HLo.
  destruct (agree_eventually (pand e PSolid) a c') as [B1 HB1].
  exists (Z.max (Z.max B1 B0) (hi_of outs)). intros b Hb Hbp.
  destruct (HLo b ltac:(lia) Hbp) as [Hr Hsim].
  assert (Ht : take F env (oenv_of (pand e PSolid) a (Some b)) n (pslice e a None) c
               = Some (outs, false, m', c')).
  { eapply pull_noninterference; [exact H|]. apply HB1. lia. }
  unfold take in Ht. apply exec_run in Ht.
  destruct (ptake_runs _ env n F _ _ _ Hr Ht) as [H1 [_ H3]]. cbn [fst snd] in H1, H3.
  specialize (H3 eq_refl).
  assert (Hlow : forall g, In g (firstn n (Lo b)) -> low b g).
  { rewrite <- H1. apply hi_of_low. lia. }
  rewrite H1. apply sim_firstn; [exact Hsim| |exact Hlow].
  rewrite H1, firstn_length in H3. lia.
Qed.

(* C14 for the complement of a complement-free expression, e = ~s:
   the n results islice((~s)[a:], n) delivers are the first n results of the list model of
   (~s)[a:b] for every sufficiently long finite window, up to the end of a result that reaches
   the window end (the unbounded last gap of the open query is cut at b in the bounded one).
   Extra hypotheses with respect to open_slice_is_list_prefix:
   - [nsc s]: the complement is applied to a complement-free expression (and is outermost);
   - [NEG_INF <= a]: the window start is not below the -infinity sentinel;
   - no element of the source list has its end before its start (calgebra's Interval refuses
     such values; the model's [ivl] does not).
   No horizon side condition is needed: the bound B is computed from the results themselves. *)
(* FULL STATEMENT (not proved): the same for every e with wfx e = true (complements anywhere).
   Missing: how Union / Intersection / Difference / a second Complement propagate [sim] (results
   that agree up to the clip below b) from their operands to their results. *)
Theorem open_compl_slice_is_list_prefix_partial : forall F env s a n c outs m' c',
  nsc s = true -> wfx s = true -> pos_periods s = true -> NEG_INF <= a ->
  (forall b, leaves_ok (oenv_of (pand (PCompl s) PSolid) a (Some b)) (PCompl s) a (Some b)) ->
  (forall b, Forall nn (lfetch env s a b)) ->
  take F env (oenv_of (pand (PCompl s) PSolid) a None) n (pslice (PCompl s) a None) c
    = Some (outs, false, m', c') ->
  exists B, forall b, B <= b -> b < POS_INF ->
    Forall2 (eq_up_to_clip b) outs (firstn n (lslice env (PCompl s) a b)).
Proof.
  intros F env s a n c outs m' c' Hn Hw Hp Ha Hleaves Hnn H.
  apply (open_via_sim F env (PCompl s) a n c outs m' c'
           (fun b => flat_map (clipW (Some a) None)
                       (compl_sweep (lfetch env s a b) (Some a) None)) a H).
  intros b Hab Hb. split.
  - apply pslice_compl_runs. rewrite (compile_nsc s Hn a None a (Some b)).
    apply pull_eq_list_diff; [exact Hw|exact Hp|exact (Hleaves b)].
  - rewrite lslice_compl. unfold compl_sweep. cbn [bnd_lo bnd_hi].
    apply csweep_sim; [exact Ha|exact Hab|exact Hb|lia|apply Hnn].
Qed.
Print Assumptions open_compl_slice_is_list_prefix_partial.

(* ... and exactly, when none of the n results is unbounded *)
Corollary open_compl_slice_exact_partial : forall F env s a n c outs m' c',
  nsc s = true -> wfx s = true -> pos_periods s = true -> NEG_INF <= a ->
  (forall b, leaves_ok (oenv_of (pand (PCompl s) PSolid) a (Some b)) (PCompl s) a (Some b)) ->
  (forall b, Forall nn (lfetch env s a b)) ->
  take F env (oenv_of (pand (PCompl s) PSolid) a None) n (pslice (PCompl s) a None) c
    = Some (outs, false, m', c') ->
  (forall g, In g outs -> en g <> None) ->
  exists B, forall b, B <= b -> b < POS_INF ->
    outs = firstn n (lslice env (PCompl s) a b) /\ length outs = n.
Proof.
  intros F env s a n c outs m' c' Hn Hw Hp Ha Hleaves Hnn H Hfin.
  destruct (open_compl_slice_is_list_prefix_partial F env s a n c outs m' c' Hn Hw Hp Ha Hleaves Hnn H)
    as [B HB].
  exists B. intros b Hb Hbp. specialize (HB b Hb Hbp).
  pose proof (Forall2_clip_exact b _ _ HB Hfin) as Heq. split; [exact Heq|].
  unfold take in H. apply exec_run in H. clear -H.
  revert outs m' H. generalize (pslice (PCompl s) a None) as m.
  generalize (oenv_of (pand (PCompl s) PSolid) a None) as o.
  induction n as [|n IH]; intros o m outs m' H.
  - cbn in H. injection H as <- _. reflexivity.
  - cbn [ptake] in H. rewrite run_bind in H.
    destruct (run o (next F env m)) as [[[x|] m1]|]; [| |discriminate]; cbn [fst snd] in H.
    + rewrite run_bind in H. destruct (run o (ptake F env n m1)) as [[[l fin] m2]|] eqn:E; [|discriminate].
      cbn in H. injection H as <- -> _. cbn [length]. f_equal. exact (IH o m1 l m2 E).
    + discriminate.
Qed.
Print Assumptions open_compl_slice_exact_partial.

(* ---- a static sufficient condition for the hypothesis "no source element ends before it
   starts": leaves with non-negative durations, their unions and filters *)
From CG Require Import Proofs.Merge Proofs.Reverse.

Fixpoint nn_src (e : pexpr) : bool :=
  match e with
  | PPer _ _ _ dur => 0 <=? dur
  | PSto _ evs => forallb (fun x => fstart x <=? fend x) evs
  | PUnion es => forallb nn_src es
  | PFilt s _ => nn_src s
  | _ => false
  end.

Lemma enum_Forall : forall (P : ivl -> Prop) (f : nat -> option ivl),
  (forall k x, f k = Some x -> P x) -> forall n k, Forall P (enum n f k).
Proof.
  intros P f Hf. induction n as [|n IH]; intro k; cbn [enum]; [constructor|].
  destruct (f k) as [x|] eqn:E; [|constructor]. constructor; [exact (Hf k x E)|apply IH].
Qed.

Lemma take_le_start_Forall : forall (P : ivl -> Prop) e l, Forall P l -> Forall P (take_le_start e l).
Proof.
  intros P e l H. induction H as [|x l Hx HF IH]; cbn [take_le_start]; [constructor|].
  destruct (fstart x <=? e); [constructor; assumption|constructor].
Qed.

Lemma filter_Forall : forall (P : ivl -> Prop) f l, Forall P l -> Forall P (filter f l).
Proof.
  intros P f l H. induction H as [|x l Hx HF IH]; cbn [filter]; [constructor|].
  destruct (f x); [constructor; assumption|exact IH].
Qed.

Lemma nn_src_ok : forall e, nn_src e = true -> forall env a b, Forall nn (lfetch env e a b).
Proof.
  induction e using pexpr_ind2; intros Hs env a b; cbn [nn_src] in Hs; try discriminate.
  - cbn [lfetch]. apply enum_Forall. intros k x Hk. unfold per_oracle in Hk. cbv zeta in Hk.
    match type of Hk with (if ?cnd then _ else _) = _ => destruct cnd end; [discriminate|].
    injection Hk as <-. unfold nn, fstart, fend. cbn [st en]. lia.
  - cbn [lfetch]. unfold fetch_static. apply filter_Forall, take_le_start_Forall, Forall_sl_build.
    apply Forall_forall. intros x Hx. rewrite forallb_forall in Hs. specialize (Hs x Hx). unfold nn. lia.
  - cbn [lfetch]. apply Forall_forall. intros x Hx. apply merge_in in Hx as [l [Hl Hx]].
    apply in_map_iff in Hl as [s [<- Hsin]].
    rewrite Forall_forall in H. rewrite forallb_forall in Hs.
    specialize (H s Hsin (Hs s Hsin) env a b). rewrite Forall_forall in H. exact (H x Hx).
  - cbn [lfetch]. apply filter_Forall. apply IHe. exact Hs.
Qed.

(* non-vacuity: ~(working hours | two stored events), open end.  All hypotheses hold; four gaps
   are delivered after reading 4 items of the recurring leaf and 2 of the stored one; they are
   the first four results of the bounded list model (here for b = 1400000) *)
Definition ex_compl_src : pexpr :=
  por (PPer 0 32400 86400 28800)
      (PSto 1 [mkI (Some 1100000) (Some 1130000) (Rich 7); mkI (Some 1200000) (Some 1300000) Plain]).

Example open_compl_slice_ex :
  let s := ex_compl_src in
  nsc s = true /\ wfx s = true /\ pos_periods s = true /\ NEG_INF <= 1000000 /\
  (forall b, leaves_ok (oenv_of (pand (PCompl s) PSolid) 1000000 (Some b)) (PCompl s) 1000000 (Some b)) /\
  (forall b, Forall nn (lfetch [] s 1000000 b)) /\
  exists outs m',
    take 60 [] (oenv_of (pand (PCompl s) PSolid) 1000000 None) 4 (pslice (PCompl s) 1000000 None) []
      = Some (outs, false, m', [4; 2]%nat) /\
    outs = [mkI (Some 1011600) (Some 1069200) Plain; mkI (Some 1098000) (Some 1100000) Plain;
            mkI (Some 1130000) (Some 1155600) Plain; mkI (Some 1184400) (Some 1200000) Plain] /\
    outs = firstn 4 (lslice [] (PCompl s) 1000000 1400000).
Proof.
  cbv zeta. split; [reflexivity|]. split; [reflexivity|]. split; [reflexivity|].
  split; [unfold NEG_INF; lia|].
  split; [intro b; simpl; repeat split; intro k; reflexivity|].
  split; [intro b; apply nn_src_ok; reflexivity|].
  eexists. eexists. split; [vm_compute; reflexivity|]. split; [reflexivity|vm_compute; reflexivity].
Qed.

(* the "up to the clip" case really occurs: over a stored source the last gap of the open query
   is unbounded, the bounded query ends it at b *)
Example open_compl_slice_clip_ex :
  let e := PCompl (PSto 1 [mkI (Some 1100000) (Some 1130000) (Rich 7)]) in
  exists outs m' c',
    take 60 [] (oenv_of (pand e PSolid) 1000000 None) 2 (pslice e 1000000 None) []
      = Some (outs, false, m', c') /\
    outs = [mkI (Some 1000000) (Some 1100000) Plain; mkI (Some 1130000) None Plain] /\
    firstn 2 (lslice [] e 1000000 1250000)
      = [mkI (Some 1000000) (Some 1100000) Plain; mkI (Some 1130000) (Some 1250000) Plain] /\
    Forall2 (eq_up_to_clip 1250000) outs (firstn 2 (lslice [] e 1000000 1250000)).
Proof.
  cbv zeta. eexists. eexists. eexists. split; [vm_compute; reflexivity|].
  split; [reflexivity|]. split; [vm_compute; reflexivity|].
  vm_compute firstn. constructor; [left; reflexivity|].
  constructor; [right; split; reflexivity|constructor].
Qed.

(* ==================================================================================== *)
(* 3. towers of complements (flatten = ~~s, ~~~s, ...) over a complement-free expression.
   [ssim]: the structured form of "agree below b" that a Complement propagates: a common prefix
   of items ending at or before b, then at most one item straddling b (cut at b in the bounded
   list), then only items starting at or after b (absent from the bounded list). *)

Definition hi (b : Z) (x : ivl) : Prop := b <= fstart x /\ fstart x <= fend x.

Inductive ssim (b : Z) : list ivl -> list ivl -> Prop :=
| ss_same : forall x Lo Lb, fstart x <= fend x -> fend x <= b -> ssim b Lo Lb -> ssim b (x :: Lo) (x :: Lb)
| ss_cut : forall x R, fstart x < b -> b < fend x -> Forall (hi b) R ->
    ssim b (x :: R) [mkI (st x) (Some b) (pl x)]
| ss_hi : forall R, Forall (hi b) R -> ssim b R [].

Section Tower.
Variables a b : Z.
Hypothesis Ha : NEG_INF <= a.
Hypothesis Hab : a <= b.
Hypothesis Hb : b < POS_INF.

Notation CO := (clipW (Some a) None).
Notation CB := (clipW (Some a) (Some b)).

Lemma gap_se : forall c ss, a <= c -> c < ss ->
  fstart (gap (unS c) (unS ss)) = c /\ fend (gap (unS c) (unS ss)) = ss.
Proof.
  intros c ss H1 H2. unfold gap. rewrite fstart_unS. split; [reflexivity|].
  unfold fend, unS. cbn [en]. destruct (ss =? NEG_INF) eqn:E; [lia|reflexivity].
Qed.

Lemma csweep_open_nn : forall xs c g, a <= c ->
  In g (csweep xs a POS_INF None c) -> fstart g <= fend g.
Proof.
  induction xs as [|x r IH]; intros c g Hc H; cbn [csweep] in H.
  - unfold final_gap in H. destruct (c <? POS_INF) eqn:E; [|destruct H]. destruct H as [<-|[]].
    rewrite Z.eqb_refl. unfold gap. rewrite fstart_unS. unfold fend. cbn [en]. lia.
  - destruct (fend x <? a); [exact (IH _ _ Hc H)|].
    destruct (fstart x >? POS_INF).
    { unfold final_gap in H. destruct (c <? POS_INF) eqn:E; [|destruct H]. destruct H as [<-|[]].
      rewrite Z.eqb_refl. unfold gap. rewrite fstart_unS. unfold fend. cbn [en]. lia. }
    cbv zeta in H. destruct (Z.min (fend x) POS_INF <=? c); [exact (IH _ _ Hc H)|].
    apply in_app_or in H as [H|H].
    + destruct (Z.max (fstart x) a >? c) eqn:E; [|destruct H]. destruct H as [<-|[]].
      destruct (gap_se c (Z.max (fstart x) a) Hc ltac:(lia)) as [-> ->]. lia.
    + destruct (Z.max c (Z.min (fend x) POS_INF) >? POS_INF); [destruct H|].
      apply (IH (Z.max c (Z.min (fend x) POS_INF)) g); [lia|exact H].
Qed.

Lemma open_rest_hi : forall xs c, a <= c -> b <= c ->
  Forall (hi b) (if c >? POS_INF then [] else csweep xs a POS_INF None c).
Proof.
  intros xs c H1 H2. destruct (c >? POS_INF); [constructor|]. apply Forall_forall. intros g Hg.
  split; [pose proof (csweep_starts _ _ _ _ _ _ Hg); lia|exact (csweep_open_nn _ _ _ H1 Hg)].
Qed.

Lemma fin_same : forall c, a <= c <= b ->
  ssim b (final_gap c POS_INF None) (final_gap c b (Some b)).
Proof.
  intros c Hc. unfold final_gap. replace (c <? POS_INF) with true by lia. rewrite Z.eqb_refl.
  replace (b =? POS_INF) with false by lia.
  assert (Hs : fstart (gap (unS c) None) = c) by (unfold gap; apply fstart_unS).
  assert (He : fend (gap (unS c) None) = POS_INF) by reflexivity.
  destruct (c <? b) eqn:E.
  - apply (ss_cut b (gap (unS c) None) []); [lia|lia|constructor].
  - apply ss_hi. constructor; [|constructor]. split; lia.
Qed.

(* the innermost complement: the same (arbitrary, unsorted) source list under both windows *)
Lemma csweep_same : forall xs c, a <= c <= b -> Forall nn xs ->
  ssim b (csweep xs a POS_INF None c) (csweep xs a b (Some b) c).
Proof.
  induction xs as [|x r IH]; intros c Hc Hnn; cbn [csweep].
  - apply fin_same. exact Hc.
  - inversion Hnn as [|? ? Hx Hr]; subst. unfold nn in Hx.
    destruct (fend x <? a) eqn:E1; [apply IH; assumption|].
    destruct (fstart x >? POS_INF) eqn:E2o.
    { replace (fstart x >? b) with true by lia. apply fin_same. exact Hc. }
    cbv zeta.
    destruct (fstart x >? b) eqn:E2b.
    { replace (Z.min (fend x) POS_INF <=? c) with false by lia.
      replace (Z.max (fstart x) a >? c) with true by lia. cbn [app].
      destruct (gap_se c (Z.max (fstart x) a) ltac:(lia) ltac:(lia)) as [Gs Ge].
      unfold final_gap. replace (b =? POS_INF) with false by lia.
      destruct (c <? b) eqn:E7.
      - apply (ss_cut b (gap (unS c) (unS (Z.max (fstart x) a)))); [lia|lia|].
        apply open_rest_hi; lia.
      - apply ss_hi. constructor; [split; lia|]. apply open_rest_hi; lia. }
    destruct (fend x <=? b) eqn:E5.
    { replace (Z.min (fend x) POS_INF) with (fend x) by lia.
      replace (Z.min (fend x) b) with (fend x) by lia.
      destruct (fend x <=? c) eqn:E3; [apply IH; assumption|].
      replace (Z.max c (fend x) >? POS_INF) with false by lia.
      replace (Z.max c (fend x) >? b) with false by lia.
      destruct (Z.max (fstart x) a >? c) eqn:E4; cbn [app]; [|apply IH; [lia|assumption]].
      destruct (gap_se c (Z.max (fstart x) a) ltac:(lia) ltac:(lia)) as [Gs Ge].
      apply ss_same; [lia|lia|]. apply IH; [lia|assumption]. }
    replace (Z.min (fend x) b) with b by lia.
    replace (Z.min (fend x) POS_INF <=? c) with false by lia.
    destruct (b <=? c) eqn:E3.
    { assert (c = b) by lia. subst c. rewrite csweep_top.
      replace (Z.max (fstart x) a >? b) with false by lia. cbn [app].
      apply ss_hi. apply open_rest_hi; lia. }
    replace (Z.max c b) with b by lia. replace (b >? b) with false by lia. rewrite csweep_top.
    destruct (Z.max (fstart x) a >? c) eqn:E4; cbn [app].
    + destruct (gap_se c (Z.max (fstart x) a) ltac:(lia) ltac:(lia)) as [Gs Ge].
      apply ss_same; [lia|lia|]. apply ss_hi. apply open_rest_hi; lia.
    + apply ss_hi. apply open_rest_hi; lia.
Qed.

(* a complement over a source that has only items at or past b left *)
Lemma hi_open : forall R, Forall (hi b) R -> forall k, a <= k <= b ->
  ssim b (csweep R a POS_INF None k) (final_gap k b (Some b)).
Proof.
  induction R as [|x R IH]; intros HR k Hk; cbn [csweep].
  - apply fin_same. exact Hk.
  - inversion HR as [|? ? [Hx1 Hx2] HR']; subst.
    replace (fend x <? a) with false by lia.
    destruct (fstart x >? POS_INF) eqn:E2; [apply fin_same; exact Hk|]. cbv zeta.
    destruct (Z.min (fend x) POS_INF <=? k) eqn:E3; [apply IH; assumption|].
    replace (Z.max (fstart x) a) with (fstart x) by lia.
    destruct (fstart x >? k) eqn:E4; cbn [app].
    + destruct (gap_se k (fstart x) ltac:(lia) ltac:(lia)) as [Gs Ge].
      unfold final_gap. replace (b =? POS_INF) with false by lia.
      destruct (fstart x =? b) eqn:E5.
      * replace (k <? b) with true by lia.
        replace (gap (unS k) (Some b)) with (gap (unS k) (unS (fstart x))).
        2:{ unfold unS at 2. replace (fstart x =? NEG_INF) with false by lia.
            f_equal. f_equal. lia. }
        apply ss_same; [lia|lia|]. apply ss_hi. apply open_rest_hi; lia.
      * destruct (k <? b) eqn:E7.
        -- apply (ss_cut b (gap (unS k) (unS (fstart x)))); [lia|lia|]. apply open_rest_hi; lia.
        -- apply ss_hi. constructor; [split; lia|]. apply open_rest_hi; lia.
    + unfold final_gap. replace (k <? b) with false by lia. apply ss_hi. apply open_rest_hi; lia.
Qed.

(* a Complement propagates [ssim] from its source to its result *)
Lemma csweep_ssim : forall Xo Xb, ssim b Xo Xb -> forall k, a <= k <= b ->
  ssim b (csweep Xo a POS_INF None k) (csweep Xb a b (Some b) k).
Proof.
  intros Xo Xb H. induction H as [x Lo Lb Hx1 Hx2 Hs IH|x R Hx1 Hx2 HR|R HR]; intros k Hk.
  - cbn [csweep].
    destruct (fend x <? a) eqn:E1; [apply IH; exact Hk|].
    replace (fstart x >? POS_INF) with false by lia. replace (fstart x >? b) with false by lia.
    cbv zeta.
    replace (Z.min (fend x) POS_INF) with (fend x) by lia.
    replace (Z.min (fend x) b) with (fend x) by lia.
    destruct (fend x <=? k) eqn:E3; [apply IH; exact Hk|].
    replace (Z.max k (fend x) >? POS_INF) with false by lia.
    replace (Z.max k (fend x) >? b) with false by lia.
    destruct (Z.max (fstart x) a >? k) eqn:E4; cbn [app]; [|apply IH; lia].
    destruct (gap_se k (Z.max (fstart x) a) ltac:(lia) ltac:(lia)) as [Gs Ge].
    apply ss_same; [lia|lia|]. apply IH; lia.
  - set (x' := mkI (st x) (Some b) (pl x)).
    assert (Hs' : fstart x' = fstart x) by reflexivity.
    assert (He' : fend x' = b) by reflexivity.
    cbn [csweep]. rewrite Hs', He'.
    replace (fend x <? a) with false by lia. replace (b <? a) with false by lia.
    replace (fstart x >? POS_INF) with false by lia. replace (fstart x >? b) with false by lia.
    cbv zeta. rewrite Z.min_id.
    replace (Z.min (fend x) POS_INF <=? k) with false by lia.
    destruct (b <=? k) eqn:E3.
    { assert (k = b) by lia. subst k. unfold final_gap. rewrite Z.ltb_irrefl.
      replace (Z.max (fstart x) a >? b) with false by lia. cbn [app].
      apply ss_hi. apply open_rest_hi; lia. }
    replace (Z.max k b) with b by lia. replace (b >? b) with false by lia.
    unfold final_gap at 1. rewrite Z.ltb_irrefl.
    destruct (Z.max (fstart x) a >? k) eqn:E4; cbn [app].
    + destruct (gap_se k (Z.max (fstart x) a) ltac:(lia) ltac:(lia)) as [Gs Ge].
      apply ss_same; [lia|lia|]. apply ss_hi. apply open_rest_hi; lia.
    + apply ss_hi. apply open_rest_hi; lia.
  - cbn [csweep]. apply hi_open; assumption.
Qed.

Lemma sim_app_same : forall l A B, sim b A B -> sim b (l ++ A) (l ++ B).
Proof.
  induction l as [|x l IH]; intros A B H; [exact H|]. cbn [app].
  apply sim_cons; [left; reflexivity|apply IH; exact H].
Qed.

Lemma hi_clip_high : forall R, Forall (hi b) R -> forall g, In g (flat_map CO R) -> b <= fstart g.
Proof.
  intros R HR g Hg. eapply clip_starts; [|exact Hg]. intros g' Hg'.
  rewrite Forall_forall in HR. destruct (HR g' Hg'). lia.
Qed.

(* and through the clip: [ssim] gives [sim] *)
Lemma ssim_clip : forall Lo Lb, ssim b Lo Lb -> sim b (flat_map CO Lo) (flat_map CB Lb).
Proof.
  intros Lo Lb H. induction H as [x Lo Lb Hx1 Hx2 Hs IH|x R Hx1 Hx2 HR|R HR].
  - cbn [flat_map].
    replace (CB x) with (CO x); [apply sim_app_same; exact IH|].
    unfold clipW. cbv zeta. cbn [bnd_lo bnd_hi].
    replace (Z.min (fend x) POS_INF) with (fend x) by lia.
    replace (Z.min (fend x) b) with (fend x) by lia. reflexivity.
  - cbn [flat_map]. rewrite app_nil_r. unfold clipW at 1 3. cbv zeta. cbn [bnd_lo bnd_hi].
    change (fstart (mkI (st x) (Some b) (pl x))) with (fstart x).
    change (fend (mkI (st x) (Some b) (pl x))) with b. rewrite Z.min_id.
    replace (Z.max (fstart x) a <? Z.min (fend x) POS_INF) with true by lia.
    destruct (Z.max (fstart x) a <? b) eqn:Elt.
    2:{ cbn [app]. apply sim_stop. intros [Hl _]. unfold set_span in Hl. rewrite fstart_unS in Hl. lia. }
    cbn [app]. unfold set_span. cbn [pl].
    destruct (Z.min (fend x) POS_INF =? POS_INF) eqn:E.
    + apply sim_cons.
      * right. unfold unE. rewrite E. replace (b =? POS_INF) with false by lia. split; reflexivity.
      * apply sim_high. apply hi_clip_high. exact HR.
    + apply sim_stop. intros [_ Hl]. unfold unE in Hl. rewrite E in Hl. cbn [en] in Hl.
      specialize (Hl _ eq_refl). lia.
  - cbn [flat_map]. apply sim_high. apply hi_clip_high. exact HR.
Qed.
End Tower.

(* the class: one or more complements applied to a complement-free expression *)
Fixpoint ctow (e : pexpr) : bool :=
  match e with PCompl s => nsc s || ctow s | _ => false end.
(* its complement-free core *)
Fixpoint cbase (e : pexpr) : pexpr :=
  match e with PCompl s => if nsc s then s else cbase s | _ => e end.
(* what the OPEN-ended chain of a tower yields over leaves cut at b *)
Fixpoint olist (env : fenv) (e : pexpr) (a b : Z) : list ivl :=
  match e with
  | PCompl s => compl_sweep (if nsc s then lfetch env s a b else olist env s a b) (Some a) None
  | _ => []
  end.

Lemma tower_ok : forall env o a b, NEG_INF <= a -> a <= b -> b < POS_INF ->
  forall e, ctow e = true -> wfx e = true -> pos_periods e = true ->
  leaves_ok o e a (Some b) -> Forall nn (lfetch env (cbase e) a b) ->
  runs env o (compile e a None) (olist env e a b) /\
  ssim b (olist env e a b) (lfetch env e a b).
Proof.
  intros env o a b Ha Hab Hb. induction e; intros Hc Hw Hp Hl Hnn; try discriminate.
  cbn [ctow cbase olist wfx pos_periods leaves_ok] in *.
  change (compile (PCompl e) a None) with (MCompl a (bnd_hi None) None CRun a (compile e a None)).
  change (lfetch env (PCompl e) a b) with (compl_sweep (lfetch env e a b) (Some a) (Some b)).
  destruct (nsc e) eqn:En.
  - split.
    + apply (runs_compl env o _ _ a None). rewrite (compile_nsc e En a None a (Some b)).
      apply pull_eq_list_diff; assumption.
    + unfold compl_sweep. cbn [bnd_lo bnd_hi]. apply csweep_same; try assumption. lia.
  - cbn [orb] in Hc. destruct (IHe Hc Hw Hp Hl Hnn) as [Hr Hs]. split.
    + apply (runs_compl env o _ _ a None). exact Hr.
    + unfold compl_sweep. cbn [bnd_lo bnd_hi]. apply csweep_ssim; try assumption. lia.
Qed.

Lemma pslice_compl_runs' : forall env o s a bo G, runs env o (compile (PCompl s) a bo) G ->
  sorted_start G ->
  runs env o (pslice (PCompl s) a bo) (flat_map (clipW (Some a) bo) G).
Proof.
  intros env o s a bo G Hg Hso.
  rewrite <- (clip_sweep_masks true) by exact Hso.
  change (pslice (PCompl s) a bo) with
    (MInter [true; true] IInit
       (map (fun m => (s0, m)) [compile (PCompl s) a bo; MOnce (Some (mkI (Some a) bo Plain))])).
  apply runs_inter; [|simpl; lia].
  constructor; [exact Hg|]. constructor; [apply runs_once|constructor].
Qed.

(* C14 for towers of complements over a complement-free expression: ~s, flatten(s) = ~~s, ~~~s, ...
   Same statement and hypotheses as open_compl_slice_is_list_prefix_partial ([cbase e] is the
   complement-free core whose list model must contain no element ending before its start). *)
(* FULL STATEMENT (not proved): for every e with wfx e = true.  Missing: Union / Intersection /
   Difference / filter / buffer ABOVE a Complement (how they propagate [ssim]). *)
Theorem open_compl_tower_is_list_prefix_partial : forall F env e a n c outs m' c',
  ctow e = true -> wfx e = true -> pos_periods e = true -> NEG_INF <= a ->
  (forall b, leaves_ok (oenv_of (pand e PSolid) a (Some b)) e a (Some b)) ->
  (forall b, Forall nn (lfetch env (cbase e) a b)) ->
  take F env (oenv_of (pand e PSolid) a None) n (pslice e a None) c = Some (outs, false, m', c') ->
  exists B, forall b, B <= b -> b < POS_INF ->
    Forall2 (eq_up_to_clip b) outs (firstn n (lslice env e a b)).
Proof.
  intros F env e a n c outs m' c' Hc Hw Hp Ha Hleaves Hnn H.
  destruct e; try discriminate.
  apply (open_via_sim F env (PCompl e) a n c outs m' c'
           (fun b => flat_map (clipW (Some a) None) (olist env (PCompl e) a b)) a H).
  intros b Hab Hb.
  destruct (tower_ok env (oenv_of (pand (PCompl e) PSolid) a (Some b)) a b Ha Hab Hb
              (PCompl e) Hc Hw Hp (Hleaves b) (Hnn b)) as [Hr Hs].
  split.
  - apply pslice_compl_runs'; [exact Hr|]. cbn [olist]. unfold compl_sweep. apply csweep_sorted.
  - rewrite lslice_compl. apply ssim_clip; try assumption.
Qed.
Print Assumptions open_compl_tower_is_list_prefix_partial.

(* ... and exactly, when none of the n results is unbounded *)
Corollary open_compl_tower_exact_partial : forall F env e a n c outs m' c',
  ctow e = true -> wfx e = true -> pos_periods e = true -> NEG_INF <= a ->
  (forall b, leaves_ok (oenv_of (pand e PSolid) a (Some b)) e a (Some b)) ->
  (forall b, Forall nn (lfetch env (cbase e) a b)) ->
  take F env (oenv_of (pand e PSolid) a None) n (pslice e a None) c = Some (outs, false, m', c') ->
  (forall g, In g outs -> en g <> None) ->
  exists B, forall b, B <= b -> b < POS_INF -> outs = firstn n (lslice env e a b).
Proof.
  intros F env e a n c outs m' c' Hc Hw Hp Ha Hleaves Hnn H Hfin.
  destruct (open_compl_tower_is_list_prefix_partial F env e a n c outs m' c' Hc Hw Hp Ha Hleaves Hnn H)
    as [B HB].
  exists B. intros b Hb Hbp. exact (Forall2_clip_exact b _ _ (HB b Hb Hbp) Hfin).
Qed.
Print Assumptions open_compl_tower_exact_partial.

(* non-vacuity: flatten(working hours | two stored events), open end: all hypotheses hold, three
   merged spans are delivered after reading 3 recurring and 2 stored items *)
Example open_compl_tower_ex :
  let e := pflatten ex_compl_src in
  ctow e = true /\ wfx e = true /\ pos_periods e = true /\ NEG_INF <= 1000000 /\
  (forall b, leaves_ok (oenv_of (pand e PSolid) 1000000 (Some b)) e 1000000 (Some b)) /\
  (forall b, Forall nn (lfetch [] (cbase e) 1000000 b)) /\
  exists outs m',
    take 80 [] (oenv_of (pand e PSolid) 1000000 None) 3 (pslice e 1000000 None) []
      = Some (outs, false, m', [3; 2]%nat) /\
    outs = [mkI (Some 1000000) (Some 1011600) Plain; mkI (Some 1069200) (Some 1098000) Plain;
            mkI (Some 1100000) (Some 1130000) Plain] /\
    outs = firstn 3 (lslice [] e 1000000 1400000).
Proof.
  cbv zeta. split; [reflexivity|]. split; [reflexivity|]. split; [reflexivity|].
  split; [unfold NEG_INF; lia|].
  split; [intro b; simpl; repeat split; intro k; reflexivity|].
  split; [intro b; apply nn_src_ok; reflexivity|].
  eexists. eexists. split; [vm_compute; reflexivity|]. split; [reflexivity|vm_compute; reflexivity].
Qed.

Print Assumptions open_via_sim.
Print Assumptions csweep_same.
Print Assumptions csweep_sim.
Print Assumptions csweep_ssim.
Print Assumptions ssim_clip.

(* why [nn] is assumed: on a source list with an element that ends before it starts AND starts
   past b, followed by an earlier element (an unsorted, malformed list), the two sweeps differ
   below b.  No such list is known to be reachable as [lfetch] of a complement-free expression
   (leaves cut at b deliver no item starting after b), and calgebra's Interval rejects
   start > end; the hypothesis is what the list-level proof needs, not a defect. *)
Example csweep_nn_needed :
  let xs := [mkI (Some 50) (Some 0) Plain; mkI (Some 20) (Some 30) Plain] in
  csweep xs 0 POS_INF None 0 = [mkI (Some 0) (Some 20) Plain; mkI (Some 30) None Plain] /\
  csweep xs 0 40 (Some 40) 0 = [mkI (Some 0) (Some 40) Plain].
Proof. split; vm_compute; reflexivity. Qed.
