(* Proofs/Diff.v — the difference sweep (Difference._sweep, model dsweep/dcarve/dskip).
   Domain: the SOURCE stream is sorted and pairwise non-overlapping (touching allowed); the
   SUBTRACTOR stream is only sorted by start (overlapping, nested, duplicated, unbounded
   subtractors allowed).  Results: the set-algebra law (coverage), every output is a non-empty
   sentinel-free fragment of one source event, the output is sorted and non-overlapping, and the
   output is exactly the per-event reference semantics
   [flat_map (fun x => minus_runs x subs) src] as a list. *)
From CG Require Import Proofs.Defs.

(* ------------------------------------------------------------------------------------ *)
(* generic list facts *)

Lemma separatedP_app l1 l2 :
  separatedP l1 -> separatedP l2 ->
  (forall a b, In a l1 -> In b l2 -> fend a < fstart b) -> separatedP (l1 ++ l2).
Proof.
  induction l1 as [|x r IH]; simpl; intros H1 H2 H; [exact H2|].
  destruct H1 as [Hx Hr]. split.
  - intros y Hy. apply in_app_or in Hy as [Hy|Hy]; [apply Hx; exact Hy|apply H; auto].
  - apply IH; auto.
Qed.

Lemma disjoint_sorted_app l1 l2 :
  disjoint_sorted l1 -> disjoint_sorted l2 ->
  (forall a b, In a l1 -> In b l2 -> fend a <= fstart b) -> disjoint_sorted (l1 ++ l2).
Proof.
  induction l1 as [|x r IH]; simpl; intros H1 H2 H; [exact H2|].
  destruct H1 as [Hx Hr]. split.
  - intros y Hy. apply in_app_or in Hy as [Hy|Hy]; [apply Hx; exact Hy|apply H; auto].
  - apply IH; auto.
Qed.

Lemma separatedP_disjoint l :
  (forall f, In f l -> fstart f < fend f) -> separatedP l -> disjoint_sorted l.
Proof.
  induction l as [|x r IH]; simpl; [tauto|]. intros Hp [Hx Hr]. split.
  - intros y Hy. specialize (Hx y Hy). lia.
  - apply IH; auto.
Qed.

Lemma sorted_start_app_r l1 l2 : sorted_start (l1 ++ l2) -> sorted_start l2.
Proof. induction l1 as [|x r IH]; simpl; [tauto|]. intros [_ H]. auto. Qed.

Lemma Forall_app_r {A} (P : A -> Prop) l1 l2 : Forall P (l1 ++ l2) -> Forall P l2.
Proof. intro H. apply Forall_app in H. tauto. Qed.

(* all subtractors of a sorted stream start at or after the head *)
Lemma sorted_not_before s r t :
  sorted_start (s :: r) -> t < fstart s -> covers (s :: r) t = false.
Proof.
  intros [Hs _] Ht. apply covers_false_iff. intros y [<-|Hy]; unfold inside.
  - lia.
  - specialize (Hs y Hy). lia.
Qed.

(* ------------------------------------------------------------------------------------ *)
(* fragments *)

(* f is a non-empty, sentinel-free piece of [lo,hi) carrying the payload of ev *)
Definition good (ev : ivl) (lo hi : Z) (f : ivl) : Prop :=
  pl f = pl ev /\ lo <= fstart f /\ fstart f < fend f /\ fend f <= hi /\
  (st f = None <-> fstart f = NEG_INF) /\ (en f = None <-> fend f = POS_INF).

Lemma good_weaken ev lo hi lo' hi' f :
  good ev lo hi f -> lo' <= lo -> hi <= hi' -> good ev lo' hi' f.
Proof. unfold good. intros (A & B & C & D & E) H1 H2. repeat split; try tauto; lia. Qed.

Lemma span_mid ev a b :
  NEG_INF <= a -> a < b -> b < POS_INF ->
  good ev a b (set_span ev (unS a) (unS b)) /\
  fstart (set_span ev (unS a) (unS b)) = a /\ fend (set_span ev (unS a) (unS b)) = b.
Proof.
  intros Ha Hab Hb. unfold set_span.
  assert (Hs : fstart (mkI (unS a) (unS b) (pl ev)) = a) by apply fstart_unS.
  assert (He : fend (mkI (unS a) (unS b) (pl ev)) = b).
  { unfold fend, unS; simpl. destruct (b =? NEG_INF) eqn:E; [lia|reflexivity]. }
  split; [|split; assumption]. unfold good. rewrite Hs, He. simpl.
  split; [reflexivity|]. split; [lia|]. split; [lia|]. split; [lia|]. split.
  - unfold unS. destruct (a =? NEG_INF) eqn:E; split; intro; try discriminate; try lia; reflexivity.
  - unfold unS. destruct (b =? NEG_INF) eqn:E; [lia|]. split; [discriminate|lia].
Qed.

Lemma span_fin ev a b :
  NEG_INF <= a -> a < b -> b <= POS_INF ->
  good ev a b (set_span ev (unS a) (unE b)) /\
  fstart (set_span ev (unS a) (unE b)) = a /\ fend (set_span ev (unS a) (unE b)) = b.
Proof.
  intros Ha Hab Hb. unfold set_span.
  assert (Hs : fstart (mkI (unS a) (unE b) (pl ev)) = a) by apply fstart_unS.
  assert (He : fend (mkI (unS a) (unE b) (pl ev)) = b) by apply fend_unE.
  split; [|split; assumption]. unfold good. rewrite Hs, He. simpl.
  split; [reflexivity|]. split; [lia|]. split; [lia|]. split; [lia|]. split.
  - unfold unS. destruct (a =? NEG_INF) eqn:E; split; intro; try discriminate; try lia; reflexivity.
  - unfold unE. destruct (b =? POS_INF) eqn:E; split; intro; try discriminate; try lia; reflexivity.
Qed.

(* the fragment before a hole *)
Definition dpre (ev : ivl) (cursor os : Z) : list ivl :=
  if cursor <? os then [set_span ev (unS cursor) (unS os)] else [].

Lemma dpre_spec ev cursor os :
  NEG_INF <= cursor -> cursor <= os -> os < POS_INF ->
  (forall f, In f (dpre ev cursor os) -> good ev cursor os f /\ fend f = os) /\
  separatedP (dpre ev cursor os) /\
  (forall t, covers (dpre ev cursor os) t = (cursor <=? t) && (t <? os)).
Proof.
  intros Hc Ho Hp. unfold dpre. destruct (cursor <? os) eqn:E.
  - destruct (span_mid ev cursor os) as (G & S & F); try lia.
    split; [|split].
    + intros f [<-|[]]. split; assumption.
    + simpl. split; [intros y []|exact I].
    + intro t. rewrite covers_cons, covers_nil. unfold inside. rewrite S, F. lia.
  - split; [|split].
    + intros f [].
    + exact I.
    + intro t. rewrite covers_nil. lia.
Qed.

Lemma dfinal_spec ev cursor ee :
  NEG_INF <= cursor -> ee <= POS_INF ->
  (forall f, In f (dfinal ev cursor ee) -> good ev cursor ee f) /\
  separatedP (dfinal ev cursor ee) /\
  (forall t, covers (dfinal ev cursor ee) t = (cursor <=? t) && (t <? ee)).
Proof.
  intros Hc He. unfold dfinal. destruct (cursor <? ee) eqn:E.
  - destruct (span_fin ev cursor ee) as (G & S & F); try lia.
    split; [|split].
    + intros f [<-|[]]. assumption.
    + simpl. split; [intros y []|exact I].
    + intro t. rewrite covers_cons, covers_nil. unfold inside. rewrite S, F. lia.
  - split; [|split].
    + intros f [].
    + exact I.
    + intro t. rewrite covers_nil. lia.
Qed.

(* ------------------------------------------------------------------------------------ *)
(* one source event: the carving loop *)

Lemma dcarve_spec : forall subs ev cursor ee o s2,
  NEG_INF <= cursor -> cursor <= ee -> ee <= POS_INF ->
  Forall wf_ivl subs -> sorted_start subs ->
  dcarve ev cursor ee subs = (o, s2) ->
  (forall f, In f o -> good ev cursor ee f) /\
  separatedP o /\
  (forall t, covers o t = (cursor <=? t) && (t <? ee) && negb (covers subs t)) /\
  (exists pre, subs = pre ++ s2 /\ forall s, In s pre -> fend s <= ee).
Proof.
  induction subs as [|s r IH]; intros ev cursor ee o s2 Hc Hce He Hwf Hso Heq; cbn [dcarve] in Heq.
  - inversion Heq; subst. destruct (dfinal_spec ev cursor ee Hc He) as (G & S & C).
    split; [exact G|]. split; [exact S|]. split.
    + intro t. rewrite C, covers_nil. lia.
    + exists []. split; [reflexivity|intros s []].
  - inversion Hwf as [|? ? Hs Hr]; subst. destruct Hs as (S1 & S2 & S3 & S4 & S5).
    pose proof (sorted_not_before s r) as Hnb.
    assert (Hsr : sorted_start r) by (eapply sorted_start_tail; eauto).
    destruct (fstart s <=? ee) eqn:E1.
    2:{ (* the subtractor starts after the event: loop ends *)
      inversion Heq; subst. destruct (dfinal_spec ev cursor ee Hc He) as (G & S & C).
      split; [exact G|]. split; [exact S|]. split.
      + intro t. rewrite C. specialize (Hnb t Hso).
        destruct (Z_lt_ge_dec t (fstart s)) as [Hlt|Hge]; [rewrite (Hnb Hlt)|]; lia.
      + exists []. split; [reflexivity|intros x []]. }
    cbv zeta in Heq.
    set (os := Z.max cursor (fstart s)) in *. set (oe := Z.min ee (fend s)) in *.
    destruct (os <? oe) eqn:E2.
    + fold (dpre ev cursor os) in Heq.
      destruct (dpre_spec ev cursor os) as (PG & PS & PC); try lia.
      destruct (oe >=? ee) eqn:E3.
      { (* the hole reaches the end of the event: break *)
        inversion Heq; subst o s2. clear Heq.
        assert (Hc' : NEG_INF <= oe) by lia.
        destruct (dfinal_spec ev oe ee Hc' He) as (G & S & C).
        split; [|split; [|split]].
        - intros f Hf. apply in_app_or in Hf as [Hf|Hf].
          + destruct (PG f Hf) as [Hg _]. eapply good_weaken; eauto; lia.
          + eapply good_weaken; [apply G; exact Hf| |]; lia.
        - apply separatedP_app; auto. intros a b Ha Hb.
          destruct (PG a Ha) as [_ Hfa]. specialize (G b Hb). unfold good in G. lia.
        - intro t. rewrite covers_app, PC, C. specialize (Hnb t Hso).
          destruct (Z_lt_ge_dec t (fstart s)) as [Hlt|Hge]; [rewrite (Hnb Hlt); lia|].
          rewrite covers_cons. unfold inside. lia.
        - exists []. split; [reflexivity|intros x []]. }
      destruct (fend s <=? ee) eqn:E4.
      { (* the subtractor ends inside the event: advance *)
        destruct (dcarve ev oe ee r) as [o' l] eqn:Er. inversion Heq; subst o s2. clear Heq.
        assert (Hc' : NEG_INF <= oe) by lia. assert (Hoe : oe <= ee) by lia.
        destruct (IH ev oe ee o' l Hc' Hoe He Hr Hsr Er) as (G & S & C & (pre & Hp & Hpe)).
        split; [|split; [|split]].
        - intros f Hf. apply in_app_or in Hf as [Hf|Hf].
          + destruct (PG f Hf) as [Hg _]. eapply good_weaken; eauto; lia.
          + eapply good_weaken; [apply G; exact Hf| |]; lia.
        - apply separatedP_app; auto. intros a b Ha Hb.
          destruct (PG a Ha) as [_ Hfa]. specialize (G b Hb). unfold good in G. lia.
        - intro t. rewrite covers_app, PC, C. specialize (Hnb t Hso).
          rewrite covers_cons in *. unfold inside in *. lia.
        - exists (s :: pre). split; [simpl; rewrite Hp; reflexivity|].
          intros x [<-|Hx]; [lia|auto]. }
      (* dead branch: oe < ee forces fend s <= ee *)
      lia.
    + destruct (fend s <=? ee) eqn:E4.
      { (* no overlap with the rest of the event, subtractor ends inside: advance *)
        destruct (IH ev cursor ee o s2 Hc Hce He Hr Hsr Heq) as (G & S & C & (pre & Hp & Hpe)).
        split; [exact G|]. split; [exact S|]. split.
        - intro t. rewrite C. rewrite covers_cons. unfold inside. lia.
        - exists (s :: pre). split; [simpl; rewrite Hp; reflexivity|].
          intros x [<-|Hx]; [lia|auto]. }
      (* break *)
      inversion Heq; subst. destruct (dfinal_spec ev cursor ee Hc He) as (G & S & C).
      split; [exact G|]. split; [exact S|]. split.
      * intro t. rewrite C. specialize (Hnb t Hso).
        destruct (Z_lt_ge_dec t (fstart s)) as [Hlt|Hge]; [rewrite (Hnb Hlt)|]; lia.
      * exists []. split; [reflexivity|intros x []].
Qed.

(* ------------------------------------------------------------------------------------ *)
(* one source event: skip, then carve.  [devent] is the body of the for loop. *)

Lemma dskip_spec cursor subs :
  exists pre, subs = pre ++ dskip cursor subs /\ forall s, In s pre -> fend s < cursor.
Proof.
  induction subs as [|s r IH]; cbn [dskip].
  - exists []. split; [reflexivity|intros s []].
  - destruct (fend s <? cursor) eqn:E.
    + destruct IH as (pre & Hp & Hpe). exists (s :: pre). split.
      * simpl. rewrite <- Hp. reflexivity.
      * intros x [<-|Hx]; [lia|auto].
    + exists []. split; [reflexivity|intros x []].
Qed.

Lemma covers_ended pre b t :
  (forall s, In s pre -> fend s <= b) -> b <= t -> covers pre t = false.
Proof.
  intros H Ht. apply covers_false_iff. intros x Hx. specialize (H x Hx). unfold inside. lia.
Qed.

Definition devent (ev : ivl) (subs : list ivl) : list ivl * list ivl :=
  match subs with
  | [] => ([ev], [])
  | _ => match dskip (fstart ev) subs with
         | [] => ([ev], [])
         | s :: r => dcarve ev (fstart ev) (fend ev) (s :: r)
         end
  end.

Lemma dsweep_cons ev r subs :
  dsweep (ev :: r) subs = fst (devent ev subs) ++ dsweep r (snd (devent ev subs)).
Proof.
  cbn [dsweep]. unfold devent. destruct subs as [|s0 r0]; [reflexivity|].
  destruct (dskip (fstart ev) (s0 :: r0)) as [|s1 r1]; [reflexivity|].
  destruct (dcarve ev (fstart ev) (fend ev) (s1 :: r1)); reflexivity.
Qed.

Lemma devent_spec ev subs o s2 :
  wf_ivl ev -> Forall wf_ivl subs -> sorted_start subs ->
  devent ev subs = (o, s2) ->
  (forall f, In f o -> f = ev \/ good ev (fstart ev) (fend ev) f) /\
  separatedP o /\
  (forall t, covers o t = inside ev t && negb (covers subs t)) /\
  (exists pre, subs = pre ++ s2 /\ forall s, In s pre -> fend s <= fend ev).
Proof.
  intros (W1 & W2 & W3 & W4 & W5) Hwf Hso Heq.
  assert (Hsingle : forall t, covers subs t && inside ev t = false ->
            (forall f, In f [ev] -> f = ev \/ good ev (fstart ev) (fend ev) f) /\
            separatedP [ev] /\
            (covers [ev] t = inside ev t && negb (covers subs t))).
  { intros t Ht. split; [|split].
    - intros f [<-|[]]. left; reflexivity.
    - simpl. split; [intros y []|exact I].
    - rewrite covers_cons, covers_nil. destruct (covers subs t), (inside ev t); simpl in *; congruence. }
  unfold devent in Heq. destruct subs as [|s0 r0].
  { inversion Heq; subst. split; [|split; [|split]].
    - intros f [<-|[]]. left; reflexivity.
    - simpl. split; [intros y []|exact I].
    - intro t. rewrite covers_cons, !covers_nil. destruct (inside ev t); reflexivity.
    - exists []. split; [reflexivity|intros x []]. }
  destruct (dskip_spec (fstart ev) (s0 :: r0)) as (pre & Hp & Hpe).
  destruct (dskip (fstart ev) (s0 :: r0)) as [|s1 r1] eqn:Ek.
  { (* every subtractor ends before the event *)
    inversion Heq; subst o s2. rewrite app_nil_r in Hp.
    assert (Hcov : forall t, covers (s0 :: r0) t && inside ev t = false).
    { intro t. destruct (inside ev t) eqn:Ei; [|apply andb_false_r].
      rewrite Hp, (covers_ended pre (fstart ev) t); [reflexivity| |unfold inside in Ei; lia].
      intros x Hx. specialize (Hpe x Hx). lia. }
    split; [|split; [|split]].
    - intros f [<-|[]]. left; reflexivity.
    - simpl. split; [intros y []|exact I].
    - intro t. apply (Hsingle t (Hcov t)).
    - exists (s0 :: r0). split; [rewrite app_nil_r; reflexivity|].
      intros x Hx. rewrite Hp in Hx. specialize (Hpe x Hx). lia. }
  assert (Hwf1 : Forall wf_ivl (s1 :: r1)) by (rewrite Hp in Hwf; eapply Forall_app_r; eauto).
  assert (Hso1 : sorted_start (s1 :: r1)) by (rewrite Hp in Hso; eapply sorted_start_app_r; eauto).
  destruct (dcarve_spec (s1 :: r1) ev (fstart ev) (fend ev) o s2) as (G & S & C & (pre2 & Hp2 & Hpe2));
    auto; try lia.
  split; [|split; [|split]].
  - intros f Hf. right. apply G; exact Hf.
  - exact S.
  - intro t. rewrite C. unfold inside. destruct (Z_lt_ge_dec t (fstart ev)) as [Hlt|Hge].
    + lia.
    + rewrite Hp, covers_app, (covers_ended pre (fstart ev) t); [reflexivity| |lia].
      intros x Hx. specialize (Hpe x Hx). lia.
  - exists (pre ++ pre2). split.
    + rewrite Hp, Hp2, app_assoc. reflexivity.
    + intros x Hx. apply in_app_or in Hx as [Hx|Hx]; [specialize (Hpe x Hx); lia|auto].
Qed.

(* a fragment stays within its event *)
Definition frag_bounds (x f : ivl) : Prop :=
  fstart x <= fstart f /\ fstart f < fend f /\ fend f <= fend x.

(* Property 2: a non-empty piece of source event x, same payload, no sentinel inside an option *)
Definition frag_of (x f : ivl) : Prop :=
  pl f = pl x /\ frag_bounds x f /\
  (st f = None <-> fstart f = NEG_INF) /\ (en f = None <-> fend f = POS_INF).

Lemma good_frag_of x f : good x (fstart x) (fend x) f -> frag_of x f.
Proof. unfold good, frag_of, frag_bounds. tauto. Qed.

Lemma self_frag_of x : wf_ivl x -> canon_ivl x -> frag_of x x.
Proof.
  intros (W1 & W2 & W3 & W4 & W5) [C1 C2]. unfold frag_of, frag_bounds.
  split; [reflexivity|]. split; [lia|]. unfold fstart, fend in *. split.
  - destruct (st x) as [z|]; [|tauto]. split; [discriminate|]. intro; subst. exfalso. apply C1; reflexivity.
  - destruct (en x) as [z|]; [|tauto]. split; [discriminate|]. intro; subst. exfalso. apply C2; reflexivity.
Qed.

Lemma devent_state ev subs :
  wf_ivl ev -> Forall wf_ivl subs -> sorted_start subs ->
  Forall wf_ivl (snd (devent ev subs)) /\ sorted_start (snd (devent ev subs)) /\
  (forall t, fend ev <= t -> covers (snd (devent ev subs)) t = covers subs t).
Proof.
  intros Hw Hwf Hso. destruct (devent ev subs) as [o s2] eqn:E.
  destruct (devent_spec ev subs o s2 Hw Hwf Hso E) as (_ & _ & _ & (pre & Hp & Hpe)).
  simpl. split; [|split].
  - rewrite Hp in Hwf. eapply Forall_app_r; eauto.
  - rewrite Hp in Hso. eapply sorted_start_app_r; eauto.
  - intros t Ht. rewrite Hp at 1. rewrite covers_app, (covers_ended pre (fend ev) t); auto.
Qed.

(* ------------------------------------------------------------------------------------ *)
(* the whole sweep *)

(* 1. the set-algebra law *)
Theorem dsweep_cover : forall src subs,
  Forall wf_ivl src -> disjoint_sorted src -> Forall wf_ivl subs -> sorted_start subs ->
  forall t, covers (dsweep src subs) t = covers src t && negb (covers subs t).
Proof.
  induction src as [|ev r IH]; intros subs Hwf Hd Hwfs Hso t.
  - reflexivity.
  - inversion Hwf as [|? ? Hev Hr]; subst. destruct Hd as [Hd1 Hd2].
    rewrite dsweep_cons. destruct (devent_state ev subs Hev Hwfs Hso) as (A & B & C).
    destruct (devent ev subs) as [o s2] eqn:E. cbn [fst snd] in *.
    destruct (devent_spec ev subs o s2 Hev Hwfs Hso E) as (_ & _ & Hc & _).
    rewrite covers_app, Hc, (IH s2 Hr Hd2 A B t), covers_cons.
    destruct (covers r t) eqn:Er.
    + apply covers_true_iff in Er as (y & Hy & Hi). specialize (Hd1 y Hy).
      rewrite C by (unfold inside in Hi; lia).
      destruct (inside ev t), (covers subs t); reflexivity.
    + destruct (inside ev t), (covers subs t); reflexivity.
Qed.

Lemma dsweep_origin : forall src subs,
  Forall wf_ivl src -> Forall wf_ivl subs -> sorted_start subs ->
  forall f, In f (dsweep src subs) ->
  exists x, In x src /\ (f = x \/ good x (fstart x) (fend x) f).
Proof.
  induction src as [|ev r IH]; intros subs Hwf Hwfs Hso f Hf.
  - destruct Hf.
  - inversion Hwf as [|? ? Hev Hr]; subst.
    rewrite dsweep_cons in Hf. destruct (devent_state ev subs Hev Hwfs Hso) as (A & B & _).
    destruct (devent ev subs) as [o s2] eqn:E. cbn [fst snd] in *.
    destruct (devent_spec ev subs o s2 Hev Hwfs Hso E) as (G & _).
    apply in_app_or in Hf as [Hf|Hf].
    + exists ev. split; [left; reflexivity|apply G; exact Hf].
    + destruct (IH s2 Hr A B f Hf) as (x & Hx & Hg). exists x. split; [right; exact Hx|exact Hg].
Qed.

Lemma dsweep_bounds src subs :
  Forall wf_ivl src -> Forall wf_ivl subs -> sorted_start subs ->
  forall f, In f (dsweep src subs) -> exists x, In x src /\ pl f = pl x /\ frag_bounds x f.
Proof.
  intros Hwf Hwfs Hso f Hf. destruct (dsweep_origin src subs Hwf Hwfs Hso f Hf) as (x & Hx & [->|Hg]).
  - exists x. split; [exact Hx|]. split; [reflexivity|].
    rewrite Forall_forall in Hwf. destruct (Hwf x Hx) as (W1 & W2 & _). unfold frag_bounds. lia.
  - exists x. split; [exact Hx|]. apply good_frag_of in Hg. unfold frag_of in Hg. tauto.
Qed.

(* 2. every output is a fragment of one source event *)
Theorem dsweep_fragments src subs :
  Forall wf_ivl src -> Forall canon_ivl src -> Forall wf_ivl subs -> sorted_start subs ->
  forall f, In f (dsweep src subs) -> exists x, In x src /\ frag_of x f.
Proof.
  intros Hwf Hcan Hwfs Hso f Hf.
  destruct (dsweep_origin src subs Hwf Hwfs Hso f Hf) as (x & Hx & [->|Hg]).
  - exists x. split; [exact Hx|]. rewrite Forall_forall in Hwf, Hcan. apply self_frag_of; auto.
  - exists x. split; [exact Hx|]. apply good_frag_of; exact Hg.
Qed.

(* 3. the output is sorted by start and pairwise non-overlapping *)
Theorem dsweep_disjoint_sorted : forall src subs,
  Forall wf_ivl src -> disjoint_sorted src -> Forall wf_ivl subs -> sorted_start subs ->
  disjoint_sorted (dsweep src subs).
Proof.
  induction src as [|ev r IH]; intros subs Hwf Hd Hwfs Hso.
  - exact I.
  - inversion Hwf as [|? ? Hev Hr]; subst. destruct Hd as [Hd1 Hd2].
    rewrite dsweep_cons. destruct (devent_state ev subs Hev Hwfs Hso) as (A & B & _).
    destruct (devent ev subs) as [o s2] eqn:E. cbn [fst snd] in *.
    destruct (devent_spec ev subs o s2 Hev Hwfs Hso E) as (G & S & _).
    assert (Hb : forall f, In f o -> frag_bounds ev f).
    { intros f Hf. destruct (G f Hf) as [->|Hg].
      - destruct Hev as (W1 & W2 & _). unfold frag_bounds. lia.
      - apply good_frag_of in Hg. unfold frag_of in Hg. tauto. }
    apply disjoint_sorted_app.
    + apply separatedP_disjoint; [|exact S]. intros f Hf. specialize (Hb f Hf). unfold frag_bounds in Hb. lia.
    + apply IH; auto.
    + intros a b Ha Hb'. specialize (Hb a Ha).
      destruct (dsweep_bounds r s2 Hr A B b Hb') as (x & Hx & _ & Hfb).
      specialize (Hd1 x Hx). unfold frag_bounds in *. lia.
Qed.

Corollary dsweep_sorted src subs :
  Forall wf_ivl src -> disjoint_sorted src -> Forall wf_ivl subs -> sorted_start subs ->
  sorted_start (dsweep src subs).
Proof.
  intros Hwf Hd Hwfs Hso. apply disjoint_sorted_sorted; [|apply dsweep_disjoint_sorted; auto].
  apply Forall_forall. intros f Hf.
  destruct (dsweep_bounds src subs Hwf Hwfs Hso f Hf) as (x & Hx & _ & Hb).
  rewrite Forall_forall in Hwf. destruct (Hwf x Hx) as (W1 & W2 & W3 & W4 & W5).
  unfold frag_bounds in Hb. unfold wf_ivl. lia.
Qed.

(* ------------------------------------------------------------------------------------ *)
(* 4. per-event exactness: the sweep is the reference semantics, as a list *)

(* maximal runs are unique: two strictly separated lists of non-empty, canonically encoded
   intervals with one payload and the same covered instants are equal *)
Definition enc_ok (f : ivl) : Prop :=
  (st f = None <-> fstart f = NEG_INF) /\ (en f = None <-> fend f = POS_INF).

Lemma ivl_ext f g :
  enc_ok f -> enc_ok g -> pl f = pl g -> fstart f = fstart g -> fend f = fend g -> f = g.
Proof.
  destruct f as [sf ef pf], g as [sg eg pg]. unfold enc_ok, fstart, fend; simpl.
  intros [F1 F2] [G1 G2] -> Hs He.
  assert (sf = sg).
  { destruct sf as [a|], sg as [b|]; subst; try reflexivity.
    - destruct F1 as [_ F1]. specialize (F1 eq_refl). discriminate.
    - destruct G1 as [_ G1]. specialize (G1 eq_refl). discriminate. }
  assert (ef = eg).
  { destruct ef as [a|], eg as [b|]; subst; try reflexivity.
    - destruct F2 as [_ F2]. specialize (F2 eq_refl). discriminate.
    - destruct G2 as [_ G2]. specialize (G2 eq_refl). discriminate. }
  subst. reflexivity.
Qed.

Definition run_ok (p : payload) (f : ivl) : Prop := pl f = p /\ fstart f < fend f /\ enc_ok f.

Lemma sep_head_min x r t :
  fstart x < fend x -> separatedP (x :: r) -> covers (x :: r) t = true -> fstart x <= t.
Proof.
  intros Hp [Hx _] Hc. apply covers_true_iff in Hc as (y & [<-|Hy] & Hi); unfold inside in Hi.
  - lia.
  - specialize (Hx y Hy). lia.
Qed.

Lemma sep_tail_after x r t :
  separatedP (x :: r) -> t <= fend x -> covers r t = false.
Proof.
  intros [Hx _] Ht. apply covers_false_iff. intros y Hy. specialize (Hx y Hy). unfold inside. lia.
Qed.

Lemma runs_unique p : forall l1 l2,
  (forall f, In f l1 -> run_ok p f) -> (forall f, In f l2 -> run_ok p f) ->
  separatedP l1 -> separatedP l2 ->
  (forall t, covers l1 t = covers l2 t) -> l1 = l2.
Proof.
  induction l1 as [|x r1 IH]; intros [|y r2] H1 H2 S1 S2 Hc.
  - reflexivity.
  - exfalso. destruct (H2 y (or_introl eq_refl)) as (_ & Hp & _).
    specialize (Hc (fstart y)). rewrite covers_nil, covers_cons in Hc. unfold inside in Hc. lia.
  - exfalso. destruct (H1 x (or_introl eq_refl)) as (_ & Hp & _).
    specialize (Hc (fstart x)). rewrite covers_nil, covers_cons in Hc. unfold inside in Hc. lia.
  - destruct (H1 x (or_introl eq_refl)) as (Px & Hpx & Ex).
    destruct (H2 y (or_introl eq_refl)) as (Py & Hpy & Ey).
    assert (Hs : fstart x = fstart y).
    { assert (fstart y <= fstart x).
      { apply (sep_head_min y r2); auto. rewrite <- Hc, covers_cons. unfold inside. lia. }
      assert (fstart x <= fstart y).
      { apply (sep_head_min x r1); auto. rewrite Hc, covers_cons. unfold inside. lia. }
      lia. }
    assert (He : fend x = fend y).
    { pose proof (sep_tail_after x r1 (fend x) S1 (Z.le_refl _)) as T1.
      pose proof (sep_tail_after y r2 (fend y) S2 (Z.le_refl _)) as T2.
      pose proof (Hc (fend x)) as C1. pose proof (Hc (fend y)) as C2.
      rewrite !covers_cons in C1, C2. unfold inside in C1, C2.
      destruct (Z_lt_ge_dec (fend x) (fend y)) as [Hlt|Hge].
      - rewrite T1 in C1. lia.
      - destruct (Z_lt_ge_dec (fend y) (fend x)) as [Hlt2|Hge2]; [|lia].
        rewrite T2 in C2. lia. }
    assert (x = y) by (apply ivl_ext; auto; congruence). subst y.
    f_equal. apply IH.
    + intros f Hf. apply H1. right; exact Hf.
    + intros f Hf. apply H2. right; exact Hf.
    + destruct S1; assumption.
    + destruct S2; assumption.
    + intro t. specialize (Hc t). rewrite !covers_cons in Hc.
      destruct (inside x t) eqn:Ei.
      * unfold inside in Ei.
        rewrite (sep_tail_after x r1 t S1), (sep_tail_after x r2 t S2) by lia. reflexivity.
      * exact Hc.
Qed.

(* the reference semantics [minus_runs]: one hole applied to one fragment *)
Lemma sub1_spec x lo hi f h :
  NEG_INF <= lo -> hi <= POS_INF -> good x lo hi f ->
  (forall g, In g (sub1 f h) -> good x (fstart f) (fend f) g) /\
  separatedP (sub1 f h) /\
  (forall t, covers (sub1 f h) t = inside f t && negb (inside h t)).
Proof.
  intros Hlo Hhi (Gp & G1 & G2 & G3 & Gs & Ge). unfold sub1, pos_len.
  destruct ((fend h <=? fstart f) || (fend f <=? fstart h) || negb (fstart h <? fend h)) eqn:E.
  - split; [|split].
    + intros g [<-|[]]. unfold good. repeat split; try tauto; lia.
    + simpl. split; [intros y []|exact I].
    + intro t. rewrite covers_cons, covers_nil. unfold inside. lia.
  - set (L := set_span f (st f) (Some (fstart h))). set (R := set_span f (Some (fend h)) (en f)).
    assert (HLs : fstart L = fstart f) by reflexivity.
    assert (HLe : fend L = fstart h) by reflexivity.
    assert (HRs : fstart R = fend h) by reflexivity.
    assert (HRe : fend R = fend f) by reflexivity.
    assert (GL : fstart f < fstart h -> good x (fstart f) (fend f) L).
    { intro Hlt. unfold good. rewrite HLs, HLe. split; [exact Gp|].
      split; [lia|]. split; [lia|]. split; [lia|]. split; [exact Gs|].
      simpl. split; [discriminate|lia]. }
    assert (GR : fend h < fend f -> good x (fstart f) (fend f) R).
    { intro Hlt. unfold good. rewrite HRs, HRe. split; [exact Gp|].
      split; [lia|]. split; [lia|]. split; [lia|]. split; [|exact Ge].
      simpl. split; [discriminate|lia]. }
    split; [|split].
    + intros g Hg. apply in_app_or in Hg as [Hg|Hg].
      * destruct (fstart f <? fstart h) eqn:E1; [|destruct Hg]. destruct Hg as [<-|[]]. apply GL; lia.
      * destruct (fend h <? fend f) eqn:E2; [|destruct Hg]. destruct Hg as [<-|[]]. apply GR; lia.
    + destruct (fstart f <? fstart h) eqn:E1, (fend h <? fend f) eqn:E2; cbn [app separatedP].
      * split; [|split; [intros z []|exact I]]. intros z [<-|[]]. rewrite HLe, HRs. lia.
      * split; [intros z []|exact I].
      * split; [intros z []|exact I].
      * exact I.
    + intro t. rewrite covers_app.
      destruct (fstart f <? fstart h) eqn:E1, (fend h <? fend f) eqn:E2;
        rewrite ?covers_cons, ?covers_nil; unfold inside; rewrite ?HLs, ?HLe, ?HRs, ?HRe; lia.
Qed.

Lemma flat_sub1_spec x lo hi h : forall frs,
  NEG_INF <= lo -> hi <= POS_INF ->
  (forall f, In f frs -> good x lo hi f) -> separatedP frs ->
  (forall g, In g (flat_map (fun f => sub1 f h) frs) ->
     good x lo hi g /\ exists f, In f frs /\ fstart f <= fstart g /\ fend g <= fend f) /\
  separatedP (flat_map (fun f => sub1 f h) frs) /\
  (forall t, covers (flat_map (fun f => sub1 f h) frs) t = covers frs t && negb (inside h t)).
Proof.
  induction frs as [|f r IH]; intros Hlo Hhi HG HS.
  - split; [|split]; [intros g []|exact I|reflexivity].
  - cbn [flat_map]. destruct HS as [Sf Sr].
    assert (Gf : good x lo hi f) by (apply HG; left; reflexivity).
    destruct (sub1_spec x lo hi f h Hlo Hhi Gf) as (A1 & A2 & A3).
    destruct (IH Hlo Hhi (fun g Hg => HG g (or_intror Hg)) Sr) as (B1 & B2 & B3).
    assert (Gf' := Gf). destruct Gf' as (_ & F1 & F2 & F3 & _).
    split; [|split].
    + intros g Hg. apply in_app_or in Hg as [Hg|Hg].
      * specialize (A1 g Hg). split; [eapply good_weaken; eauto|].
        exists f. split; [left; reflexivity|]. unfold good in A1. lia.
      * destruct (B1 g Hg) as (Gg & f' & Hf' & Hb). split; [exact Gg|].
        exists f'. split; [right; exact Hf'|exact Hb].
    + apply separatedP_app; auto. intros a b Ha Hb.
      specialize (A1 a Ha). destruct (B1 b Hb) as (_ & f' & Hf' & Hb1 & Hb2).
      specialize (Sf f' Hf'). unfold good in A1. lia.
    + intro t. rewrite covers_app, A3, B3, covers_cons.
      destruct (inside f t), (covers r t), (inside h t); reflexivity.
Qed.

Lemma fold_sub1_spec x lo hi : forall holes frs,
  NEG_INF <= lo -> hi <= POS_INF ->
  (forall f, In f frs -> good x lo hi f) -> separatedP frs ->
  let out := fold_left (fun frs h => flat_map (fun f => sub1 f h) frs) holes frs in
  (forall g, In g out -> good x lo hi g) /\ separatedP out /\
  (forall t, covers out t = covers frs t && negb (covers holes t)).
Proof.
  induction holes as [|h r IH]; intros frs Hlo Hhi HG HS; cbn [fold_left].
  - split; [exact HG|]. split; [exact HS|]. intro t. rewrite covers_nil. apply eq_sym, andb_true_r.
  - destruct (flat_sub1_spec x lo hi h frs Hlo Hhi HG HS) as (A1 & A2 & A3).
    destruct (IH (flat_map (fun f => sub1 f h) frs) Hlo Hhi (fun g Hg => proj1 (A1 g Hg)) A2)
      as (B1 & B2 & B3).
    split; [exact B1|]. split; [exact B2|].
    intro t. rewrite B3, A3, covers_cons.
    destruct (covers frs t), (inside h t), (covers r t); reflexivity.
Qed.

Lemma frag_of_good x f : frag_of x f -> good x (fstart x) (fend x) f.
Proof. unfold good, frag_of, frag_bounds. tauto. Qed.

(* what [minus_runs] computes: the maximal runs of x minus the union of the holes.  The holes
   are arbitrary (unsorted, overlapping, empty, ill-formed). *)
Theorem minus_runs_spec x holes :
  wf_ivl x -> canon_ivl x ->
  (forall f, In f (minus_runs x holes) -> frag_of x f) /\
  separatedP (minus_runs x holes) /\
  (forall t, covers (minus_runs x holes) t = inside x t && negb (covers holes t)).
Proof.
  intros Hw Hc. pose proof (self_frag_of x Hw Hc) as Hself.
  destruct Hw as (W1 & W2 & W3 & W4 & W5). unfold minus_runs.
  destruct (fold_sub1_spec x (fstart x) (fend x) holes [x]) as (A & B & C); auto.
  - intros f [<-|[]]. apply frag_of_good; exact Hself.
  - simpl. split; [intros y []|exact I].
  - split; [|split; [exact B|]].
    + intros f Hf. apply good_frag_of. apply A; exact Hf.
    + intro t. rewrite C, covers_cons, covers_nil, orb_false_r. reflexivity.
Qed.

Lemma frag_of_run_ok x f : frag_of x f -> run_ok (pl x) f.
Proof. unfold frag_of, frag_bounds, run_ok, enc_ok. tauto. Qed.

(* [minus_runs] only depends on the instants the holes cover *)
Lemma minus_runs_ext x h1 h2 :
  wf_ivl x -> canon_ivl x -> (forall t, covers h1 t = covers h2 t) ->
  minus_runs x h1 = minus_runs x h2.
Proof.
  intros Hw Hc Hcov.
  destruct (minus_runs_spec x h1 Hw Hc) as (A1 & A2 & A3).
  destruct (minus_runs_spec x h2 Hw Hc) as (B1 & B2 & B3).
  apply (runs_unique (pl x)); auto.
  - intros f Hf. apply frag_of_run_ok; auto.
  - intros f Hf. apply frag_of_run_ok; auto.
  - intro t. rewrite A3, B3, Hcov. reflexivity.
Qed.

(* the fragments emitted while processing one source event are its maximal runs *)
Lemma devent_runs ev subs subs0 :
  wf_ivl ev -> canon_ivl ev -> Forall wf_ivl subs -> sorted_start subs ->
  (forall t, fstart ev <= t -> covers subs t = covers subs0 t) ->
  fst (devent ev subs) = minus_runs ev subs0.
Proof.
  intros Hw Hc Hwfs Hso Hag. destruct (devent ev subs) as [o s2] eqn:E. cbn [fst].
  destruct (devent_spec ev subs o s2 Hw Hwfs Hso E) as (G & S & C & _).
  destruct (minus_runs_spec ev subs0 Hw Hc) as (B1 & B2 & B3).
  apply (runs_unique (pl ev)); auto.
  - intros f Hf. apply frag_of_run_ok. destruct (G f Hf) as [->|Hg].
    + apply self_frag_of; auto.
    + apply good_frag_of; exact Hg.
  - intros f Hf. apply frag_of_run_ok; auto.
  - intro t. rewrite C, B3. destruct (inside ev t) eqn:Ei; [|reflexivity].
    rewrite Hag by (unfold inside in Ei; lia). reflexivity.
Qed.

Lemma dsweep_runs_gen : forall src subs subs0,
  Forall wf_ivl src -> Forall canon_ivl src -> disjoint_sorted src ->
  Forall wf_ivl subs -> sorted_start subs ->
  (forall x t, In x src -> fstart x <= t -> covers subs t = covers subs0 t) ->
  dsweep src subs = flat_map (fun x => minus_runs x subs0) src.
Proof.
  induction src as [|ev r IH]; intros subs subs0 Hwf Hcan Hd Hwfs Hso Hag.
  - reflexivity.
  - inversion Hwf as [|? ? Hev Hr]; subst. inversion Hcan as [|? ? Cev Cr]; subst.
    destruct Hd as [Hd1 Hd2].
    rewrite dsweep_cons. cbn [flat_map].
    destruct (devent_state ev subs Hev Hwfs Hso) as (A & B & C).
    f_equal.
    + apply devent_runs; auto. intros t Ht. apply (Hag ev t); [left; reflexivity|exact Ht].
    + apply IH; auto. intros x t Hx Ht. specialize (Hd1 x Hx).
      destruct Hev as (W1 & W2 & _).
      rewrite C by lia. apply (Hag ev t); [left; reflexivity|lia].
Qed.

(* 4. list equality with the per-event reference semantics *)
Theorem dsweep_minus_runs src subs :
  Forall wf_ivl src -> Forall canon_ivl src -> disjoint_sorted src ->
  Forall wf_ivl subs -> sorted_start subs ->
  dsweep src subs = flat_map (fun x => minus_runs x subs) src.
Proof. intros. apply dsweep_runs_gen; auto. Qed.

(* ------------------------------------------------------------------------------------ *)
(* 5. the operator: several subtractor streams merged by heapq.merge.  The three facts about the
   merged stream are hypotheses here (they are proved about merge_by in Proofs/Merge.v). *)

Lemma covers_concat ss t : covers (concat ss) t = existsb (fun s => covers s t) ss.
Proof.
  induction ss as [|s r IH]; [reflexivity|]. cbn [concat existsb]. rewrite covers_app, IH. reflexivity.
Qed.

Lemma flat_map_ext_In {A B} (f g : A -> list B) l :
  (forall a, In a l -> f a = g a) -> flat_map f l = flat_map g l.
Proof.
  induction l as [|a r IH]; intro H; [reflexivity|]. cbn [flat_map].
  rewrite (H a (or_introl eq_refl)), IH; [reflexivity|]. intros b Hb. apply H. right; exact Hb.
Qed.

(* the facts assumed about the merged subtractor stream *)
Definition merged_ok (sub_streams : list (list ivl)) : Prop :=
  Forall wf_ivl (merge_by lt_fwd sub_streams) /\
  sorted_start (merge_by lt_fwd sub_streams) /\
  (forall t, covers (merge_by lt_fwd sub_streams) t = existsb (fun s => covers s t) sub_streams).

Theorem diff_sweep_cover src sub_streams :
  Forall wf_ivl src -> disjoint_sorted src -> merged_ok sub_streams ->
  forall t, covers (diff_sweep src sub_streams) t =
            covers src t && negb (existsb (fun s => covers s t) sub_streams).
Proof.
  intros Hwf Hd (M1 & M2 & M3) t. unfold diff_sweep. rewrite dsweep_cover, M3; auto.
Qed.

Theorem diff_sweep_disjoint_sorted src sub_streams :
  Forall wf_ivl src -> disjoint_sorted src -> merged_ok sub_streams ->
  disjoint_sorted (diff_sweep src sub_streams).
Proof. intros Hwf Hd (M1 & M2 & M3). unfold diff_sweep. apply dsweep_disjoint_sorted; auto. Qed.

Theorem diff_sweep_sorted src sub_streams :
  Forall wf_ivl src -> disjoint_sorted src -> merged_ok sub_streams ->
  sorted_start (diff_sweep src sub_streams).
Proof. intros Hwf Hd (M1 & M2 & M3). unfold diff_sweep. apply dsweep_sorted; auto. Qed.

Theorem diff_sweep_fragments src sub_streams :
  Forall wf_ivl src -> Forall canon_ivl src -> merged_ok sub_streams ->
  forall f, In f (diff_sweep src sub_streams) -> exists x, In x src /\ frag_of x f.
Proof.
  intros Hwf Hc (M1 & M2 & M3) f Hf. unfold diff_sweep in Hf. eapply dsweep_fragments; eauto.
Qed.

(* the reference semantics of Spec/Sets.v ([ref] of a Diff node): the holes are all the
   subtractor events, in any order *)
Theorem diff_sweep_minus_runs src sub_streams :
  Forall wf_ivl src -> Forall canon_ivl src -> disjoint_sorted src -> merged_ok sub_streams ->
  diff_sweep src sub_streams = flat_map (fun x => minus_runs x (concat sub_streams)) src.
Proof.
  intros Hwf Hc Hd (M1 & M2 & M3). unfold diff_sweep. rewrite dsweep_minus_runs by auto.
  apply flat_map_ext_In. intros x Hx. rewrite Forall_forall in Hwf, Hc.
  apply minus_runs_ext; auto. intro t. rewrite M3, covers_concat. reflexivity.
Qed.

(* The domain restriction on the source is necessary (known defect): with two overlapping source
   events the subtractor consumed by the first is lost for the second. *)
Example overlapping_source_defect :
  let src := [mkI (Some 0) (Some 10) Plain; mkI (Some 1) (Some 5) Plain] in
  let subs := [mkI (Some 2) (Some 3) Plain] in
  covers (dsweep src subs) 2 = true /\ covers src 2 && negb (covers subs 2) = false.
Proof. vm_compute. split; reflexivity. Qed.


Print Assumptions dsweep_cover.
Print Assumptions dsweep_fragments.
Print Assumptions dsweep_disjoint_sorted.
Print Assumptions dsweep_sorted.
Print Assumptions minus_runs_spec.
Print Assumptions dsweep_minus_runs.
Print Assumptions diff_sweep_cover.
Print Assumptions diff_sweep_disjoint_sorted.
Print Assumptions diff_sweep_sorted.
Print Assumptions diff_sweep_fragments.
Print Assumptions diff_sweep_minus_runs.
