(* Proofs/MetricsCivil.v — the calendar facts the metrics proofs need about Model/Civil.v:
   civil_from_days / days_from_civil round trip, field ranges, and that the first day of the next
   month / year lies after every day of the month / year.  One 400-year era (146097 days) is checked by
   computation (vm_compute inside the kernel), the rest follows from periodicity. *)
From Coq Require Import ZArith List Bool Lia ZifyBool.
From CG Require Import Model.Civil.
Import ListNotations.
Open Scope Z_scope.
Ltac Zify.zify_post_hook ::= Z.to_euclidean_division_equations.   (* lia: division and modulo by constants *)

Definition next_month_start (y m : Z) : Z :=
  if m =? 12 then days_from_civil (y + 1) 1 1 else days_from_civil y (m + 1) 1.

Definition civil_chk (d : Z) : bool :=
  let '(y, m, dd) := civil_from_days d in
  (days_from_civil y m dd =? d) && (1 <=? m) && (m <=? 12) && (1 <=? dd) && (dd <=? 31) &&
  (d <? next_month_start y m) && (d <? days_from_civil (y + 1) 1 1) &&
  (days_from_civil y m 1 <=? d) && (days_from_civil y 1 1 <=? d).

Definition ERA0 : Z := -719468.      (* 0000-03-01 *)
Definition ERA : Z := 146097.

(* The enumeration, generic in the check: inside the section the check is a variable, so no
   conversion can ever start evaluating it on symbolic days. *)
Definition blocks : list Z := map Z.of_nat (seq 0 147).

Section Range.
  Variable chk : Z -> bool.
  (* days lo .. lo + n - 1 *)
  Fixpoint check_range (lo : Z) (n : nat) : bool :=
    match n with O => true | S k => chk lo && check_range (lo + 1) k end.

  Lemma check_range_ok n : forall lo d N, check_range lo n = true -> N = Z.of_nat n -> lo <= d < lo + N -> chk d = true.
  Proof.
    induction n as [|n IH]; intros lo d N H -> Hd; [lia|].
    cbn [check_range] in H. apply andb_prop in H as [H1 H2].
    destruct (Z.eq_dec d lo) as [->|Hne]; [exact H1|].
    apply (IH (lo + 1) d _ H2 eq_refl). lia.
  Qed.

  (* the era in 147 blocks of 1000 days (the last one runs 903 days into the next era, which is fine) *)
  Definition era_check_for : bool := forallb (fun blk => check_range (ERA0 + 1000 * blk) 1000) blocks.

  Lemma in_blocks blk : 0 <= blk < 147 -> In blk blocks.
  Proof.
    intros Hb. unfold blocks. apply in_map_iff. exists (Z.to_nat blk). split; [lia|]. apply in_seq. lia.
  Qed.

  Lemma era_day_ok_for d : era_check_for = true -> ERA0 <= d < ERA0 + ERA -> chk d = true.
  Proof.
    intros E H. unfold era_check_for in E. rewrite forallb_forall in E.
    assert (Hin : In ((d - ERA0) / 1000) blocks) by (apply in_blocks; unfold ERA, ERA0 in *; lia).
    apply (check_range_ok 1000 _ d 1000 (E _ Hin) eq_refl).
    unfold ERA, ERA0 in *. lia.
  Qed.
End Range.

Lemma era_checked : era_check_for civil_chk = true.
Proof. vm_compute. reflexivity. Qed.

Definition era_day_ok d : ERA0 <= d < ERA0 + ERA -> civil_chk d = true :=
  era_day_ok_for civil_chk d era_checked.

Lemma dfc_shift y m d k : days_from_civil (y + 400 * k) m d = days_from_civil y m d + 146097 * k.
Proof. unfold days_from_civil. destruct (m <=? 2); destruct (m >? 2); lia. Qed.

Lemma cfd_shift z k :
  civil_from_days (z + 146097 * k) = let '(y, m, d) := civil_from_days z in (y + 400 * k, m, d).
Proof.
  unfold civil_from_days.
  replace ((z + 146097 * k + 719468) / 146097) with ((z + 719468) / 146097 + k) by lia.
  set (era := (z + 719468) / 146097).
  replace (z + 146097 * k + 719468 - (era + k) * 146097) with (z + 719468 - era * 146097) by lia.
  set (doe := z + 719468 - era * 146097).
  cbv zeta.
  set (yoe := (doe - doe / 1460 + doe / 36524 - doe / 146096) / 365).
  set (doy := doe - (365 * yoe + yoe / 4 - yoe / 100)).
  set (mp := (5 * doy + 2) / 153).
  destruct (mp <? 10); cbv zeta;
  match goal with |- context [if ?c then _ else _] => destruct c end; f_equal; f_equal; lia.
Qed.

(* all days *)
Theorem civil_facts d :
  let '(y, m, dd) := civil_from_days d in
  days_from_civil y m dd = d /\ 1 <= m <= 12 /\ 1 <= dd <= 31 /\
  d < next_month_start y m /\ d < days_from_civil (y + 1) 1 1 /\
  days_from_civil y m 1 <= d /\ days_from_civil y 1 1 <= d.
Proof.
  set (k := (d - ERA0) / ERA). set (d0 := d - 146097 * k).
  assert (Hr : ERA0 <= d0 < ERA0 + ERA) by (unfold d0, k, ERA, ERA0; lia).
  pose proof (era_day_ok d0 Hr) as C. unfold civil_chk in C.
  replace d with (d0 + 146097 * k) by (unfold d0; lia).
  rewrite cfd_shift. destruct (civil_from_days d0) as [[y0 m0] dd0].
  unfold next_month_start in *.
  replace (y0 + 400 * k + 1) with (y0 + 1 + 400 * k) by lia.
  rewrite !dfc_shift.
  destruct (m0 =? 12); rewrite ?dfc_shift; lia.
Qed.

Corollary civil_roundtrip d :
  days_from_civil (year_of d) (month_of d) (day_of d) = d.
Proof.
  pose proof (civil_facts d) as H. unfold year_of, month_of, day_of.
  destruct (civil_from_days d) as [[y m] dd]. cbn [fst snd]. tauto.
Qed.

Print Assumptions civil_facts.
