(* Proofs/GenEq_mem.v — tie C for calgebra/mutable/memory.py (MemoryTimeline) and the dispatch of
   calgebra/mutable/__init__.py (MutableTimeline): the definitions generated from the source text
   (Gen/Source.v) equal the model functions of Model/Mem.v / Model/MemSrc.v, for all inputs.  A stored
   RecurringPattern, its id and its exdates are abstract in the generated definitions; here they are
   the model's (pat, N, list Z), the operations on them the model's (Model/MemSrc.v: m_rid, m_pfetch,
   m_exs_add, m_set_exdates), and self._recurring_patterns is [ents (m_pats s)]. *)
From CG Require Import Model.Loop Model.LoopMem Model.Cache Gen.Source Model.Expr Model.Mem Model.MemSrc Proofs.Defs Proofs.GenEq4.
From Coq Require Import Lia ZifyBool.

(* ------------------------------------------------------------------------------------------ *)
(* _interval_sort_key is the key Model/Expr.v's sl_add (SortedList.add) and heapq.merge sort by *)
Theorem g_interval_sort_key_eq i : g_interval_sort_key i = (fstart i, fend i).
Proof. reflexivity. Qed.
Print Assumptions g_interval_sort_key_eq.

Definition pair_le (a b : Z * Z) : bool := (fst a <? fst b) || ((fst a =? fst b) && (snd a <=? snd b)).
Definition pair_lt (a b : Z * Z) : bool := (fst a <? fst b) || ((fst a =? fst b) && (snd a <? snd b)).

Theorem g_interval_sort_key_orders a b :
  key_le a b = pair_le (g_interval_sort_key a) (g_interval_sort_key b) /\
  key_lt a b = pair_lt (g_interval_sort_key a) (g_interval_sort_key b).
Proof. split; reflexivity. Qed.
Print Assumptions g_interval_sort_key_orders.

(* ------------------------------------------------------------------------------------------ *)
(* loops *)
Lemma iter_for_collect {S A B R : Type} (body : S -> A -> step S R) (post : S -> R)
      (get : S -> list B) (put : S -> list B -> S) (f : A -> B) :
  (forall s x, body s x = SCont (put s (get s ++ [f x]))) ->
  (forall s l, get (put s l) = l) -> (forall s l l', put (put s l) l' = put s l') ->
  (forall s, put s (get s) = s) ->
  forall xs s, iter_for body post s xs = post (put s (get s ++ map f xs)).
Proof.
  intros Hb Hg Hp Hi. induction xs as [|x r IH]; intro s; cbn [iter_for map].
  - rewrite app_nil_r, Hi. reflexivity.
  - rewrite Hb, IH, Hg, Hp, <- app_assoc. reflexivity.
Qed.

(* ------------------------------------------------------------------------------------------ *)
(* MemoryTimeline.fetch *)
Theorem g_mem_fetch_eq s a b rv :
  sorted_start (m_static s) ->
  g_mem_fetch m_pfetch (m_static s) (ents (m_pats s)) (Some a) (Some b) rv = mfetch s a b rv.
Proof.
  intro Hs. unfold g_mem_fetch, mfetch. cbv zeta.
  match goal with |- iter_for ?body ?post _ _ = _ =>
    rewrite (iter_for_collect body post (fun x => x) (fun _ l => l)
                              (fun e : N * pat => m_pfetch (snd e) (Some a) (Some b) rv))
  end; [| intros s0 [i p]; reflexivity | reflexivity | reflexivity | reflexivity ].
  cbn [app]. unfold ents. rewrite map_map. cbn [snd].
  assert (E : map (fun x : pat => m_pfetch x (Some a) (Some b) rv) (m_pats s) =
              map (fun p => let l := pat_fetch p a b in if rv then rev l else l) (m_pats s)) by reflexivity.
  rewrite E. rewrite g_mem_fetch_static_eq by exact Hs.
  destruct (m_static s) as [|x0 r]; cbn [nonempty]; [rewrite app_nil_r|]; destruct rv; reflexivity.
Qed.
Print Assumptions g_mem_fetch_eq.

(* ------------------------------------------------------------------------------------------ *)
(* positions in self._recurring_patterns *)
Lemma py_enumerate_eq {A : Type} (l : list A) :
  py_enumerate l = combine (map Z.of_nat (seq 0 (length l))) l.
Proof. unfold py_enumerate, zrange. rewrite Nat2Z.id. reflexivity. Qed.

Lemma list_set_nat_beyond {A : Type} (x : A) : forall l n, (length l <= n)%nat -> list_set_nat l n x = l.
Proof.
  induction l as [|y r IH]; intros n H; [reflexivity|]. destruct n as [|n]; [cbn in H; lia|].
  cbn [list_set_nat]. f_equal. apply IH. cbn in H. lia.
Qed.
Lemma list_del_nat_beyond {A : Type} : forall (l : list A) n, (length l <= n)%nat -> list_del_nat l n = l.
Proof.
  induction l as [|y r IH]; intros n H; [reflexivity|]. destruct n as [|n]; [cbn in H; lia|].
  cbn [list_del_nat]. f_equal. apply IH. cbn in H. lia.
Qed.

Lemma py_set_index_nat {A : Type} (l : list A) (n : nat) x : py_set_index l (Z.of_nat n) x = list_set_nat l n x.
Proof.
  unfold py_set_index. replace (Z.of_nat n <? 0) with false by (symmetry; apply Z.ltb_ge; lia).
  replace (0 <=? Z.of_nat n) with true by (symmetry; apply Z.leb_le; lia). cbn [andb].
  destruct (Z.of_nat n <? Z.of_nat (length l)) eqn:E.
  - rewrite Nat2Z.id. reflexivity.
  - apply Z.ltb_ge in E. symmetry. apply list_set_nat_beyond. lia.
Qed.
Lemma py_pop_nat {A : Type} (l : list A) (n : nat) : py_pop l (Z.of_nat n) = list_del_nat l n.
Proof.
  unfold py_pop. replace (Z.of_nat n <? 0) with false by (symmetry; apply Z.ltb_ge; lia).
  replace (0 <=? Z.of_nat n) with true by (symmetry; apply Z.leb_le; lia). cbn [andb].
  destruct (Z.of_nat n <? Z.of_nat (length l)) eqn:E.
  - rewrite Nat2Z.id. reflexivity.
  - apply Z.ltb_ge in E. symmetry. apply list_del_nat_beyond. lia.
Qed.

Lemma list_set_nat_map {A B : Type} (f : A -> B) x : forall l n, list_set_nat (map f l) n (f x) = map f (list_set_nat l n x).
Proof. induction l as [|y r IH]; intros [|n]; cbn [map list_set_nat]; try reflexivity. f_equal. apply IH. Qed.
Lemma list_del_nat_map {A B : Type} (f : A -> B) : forall l n, list_del_nat (map f l) n = map f (list_del_nat l n).
Proof. induction l as [|y r IH]; intros [|n]; cbn [map list_del_nat]; try reflexivity. f_equal. apply IH. Qed.

(* the position of the first stored pattern with id k (the length of the list when there is none) *)
Fixpoint pat_idx (k : N) (l : list pat) : nat :=
  match l with [] => O | p :: r => if N.eqb (p_ser p) k then O else S (pat_idx k r) end.

Lemma upd_pat_idx q l : upd_pat q l = list_set_nat l (pat_idx (p_ser q) l) q.
Proof.
  induction l as [|p r IH]; [reflexivity|]. cbn [upd_pat pat_idx].
  destruct (N.eqb (p_ser p) (p_ser q)); cbn [list_set_nat]; [reflexivity|f_equal; exact IH].
Qed.
Lemma del_pat_idx k l : del_pat k l = list_del_nat l (pat_idx k l).
Proof.
  induction l as [|p r IH]; [reflexivity|]. cbn [del_pat pat_idx].
  destruct (N.eqb (p_ser p) k); cbn [list_del_nat]; [reflexivity|f_equal; exact IH].
Qed.
Lemma find_pat_ser k l p : find_pat k l = Some p -> p_ser p = k.
Proof.
  induction l as [|q r IH]; [discriminate|]. cbn [find_pat]. destruct (N.eqb (p_ser q) k) eqn:E.
  - intro H. injection H as <-. apply N.eqb_eq. exact E.
  - exact IH.
Qed.

(* `for [i,] (id, pattern) in [enumerate(]self._recurring_patterns[)]: if id == k: <leave>`: the first stored
   pattern with that id, at its position *)
Lemma iter_for_first_pat {R : Type} (L : list (N * pat)) (body : list (N * pat) -> Z * (N * pat) -> step (list (N * pat)) R)
      (post : list (N * pat) -> R) (k : N) (hit : Z -> N -> pat -> R) :
  (forall i id p, body L (i, (id, p)) = if N.eqb id k then SRet (hit i id p) else SCont L) ->
  forall pats off,
    iter_for body post L (combine (map Z.of_nat (seq off (length pats))) (ents pats)) =
    match find_pat k pats with
    | Some p => hit (Z.of_nat (off + pat_idx k pats)) (p_ser p) p
    | None => post L
    end.
Proof.
  intro Hb. induction pats as [|p r IH]; intro off; [reflexivity|].
  cbn [length seq map ents combine iter_for find_pat pat_idx]. fold (ents r). rewrite Hb.
  destruct (N.eqb (p_ser p) k).
  - rewrite Nat.add_0_r. reflexivity.
  - rewrite IH. destruct (find_pat k r); [|reflexivity]. rewrite Nat.add_succ_r. reflexivity.
Qed.

(* ------------------------------------------------------------------------------------------ *)
(* _remove_recurring_instance *)
Lemma occ_from_starts p : forall c n o, In o (occ_from p n c) -> exists s, st o = Some s.
Proof.
  induction c as [|c IH]; intros n o Ho; [destruct Ho|].
  cbn [occ_from] in Ho. destruct Ho as [<-|Ho]; [eexists; reflexivity|exact (IH _ _ Ho)].
Qed.
Lemma pat_fetch_starts p a b : Forall (fun o => exists s, st o = Some s) (pat_fetch p a b).
Proof.
  unfold pat_fetch. apply Forall_forall. intros o Ho. apply filter_In in Ho. destruct Ho as [Ho _].
  exact (occ_from_starts _ _ _ _ Ho).
Qed.

Lemma instance_test_src p t (rv : bool) :
  existsb (fun occ => oZ_eqb (st occ) (Some t)) (m_pfetch p (Some t) (Some (t + 1)) false) =
  existsb (fun o => fstart o =? t) (pat_fetch p t (t + 1)).
Proof.
  unfold m_pfetch, ozd. pose proof (pat_fetch_starts p t (t + 1)) as H.
  induction (pat_fetch p t (t + 1)) as [|o r IH]; [reflexivity|].
  cbn [existsb]. inversion H as [|? ? [s Hs] Hr]; subst. rewrite (IH Hr). f_equal.
  unfold fstart. rewrite Hs. reflexivity.
Qed.

Theorem g_mem_remove_recurring_instance_eq st0 pats sq ev :
  series_of ev <> 0%N ->
  g_mem_remove_recurring_instance m_rid m_truthy N.eqb m_pfetch m_exdates m_exs_add m_set_exdates (ents pats) ev =
  let r := remove_instance (mkM st0 pats sq) ev in (ents (m_pats (fst r)), [wr_rm ev (snd r)]).
Proof.
  intro Hk. unfold g_mem_remove_recurring_instance, remove_instance. cbv zeta. cbn [m_pats m_static m_seq].
  unfold m_rid. destruct (N.eqb (series_of ev) 0) eqn:E0; [apply N.eqb_eq in E0; contradiction|].
  cbn [is_none]. rewrite py_enumerate_eq. unfold ents at 2. rewrite map_length. fold (ents pats).
  set (k := series_of ev).
  rewrite (iter_for_first_pat (ents pats) _ _ k
             (fun i id p => match st ev with
                            | None => (ents pats, [wr_rm ev false])
                            | Some t => if existsb (fun o => fstart o =? t) (pat_fetch p t (t + 1))
                                        then (py_set_index (ents pats) i (id, m_set_exdates p (t :: p_ex p)), [wr_rm ev true])
                                        else (ents pats, [wr_rm ev false])
                            end)).
  - destruct (find_pat k pats) as [p|] eqn:Ef; [|reflexivity].
    destruct (st ev) as [t|]; [|reflexivity].
    destruct (existsb (fun o => fstart o =? t) (pat_fetch p t (t + 1))); [|reflexivity].
    cbn [fst snd m_pats]. f_equal. cbn [Nat.add]. rewrite py_set_index_nat.
    rewrite upd_pat_idx. cbn [p_ser]. rewrite <- (find_pat_ser _ _ _ Ef).
    exact (list_set_nat_map (fun q => (p_ser q, q)) (m_set_exdates p (t :: p_ex p)) pats (pat_idx (p_ser p) pats)).
  - intros i id p. cbv beta iota. unfold eq_opt. destruct (N.eqb id k); [|reflexivity].
    destruct (st ev) as [t|] eqn:Est; cbn [is_none]; [|reflexivity].
    cbn [ozd]. rewrite (instance_test_src p t false).
    destruct (existsb (fun o => fstart o =? t) (pat_fetch p t (t + 1))); reflexivity.
Qed.
Print Assumptions g_mem_remove_recurring_instance_eq.

(* ------------------------------------------------------------------------------------------ *)
(* _remove_interval = remove(interval) of Model/Mem.v (mstep .. (MRemove ev)), with its WriteResult *)
Lemma sl_remove_eq x l : sl_remove x l = sl_remove1 x l.
Proof. induction l as [|y r IH]; [reflexivity|]. cbn [sl_remove sl_remove1]. rewrite IH. reflexivity. Qed.

Lemma remove_instance_static s ev : m_static (fst (remove_instance s ev)) = m_static s.
Proof.
  unfold remove_instance. destruct (find_pat (series_of ev) (m_pats s)); [|reflexivity].
  destruct (st ev); [|reflexivity]. destruct (existsb _ _); reflexivity.
Qed.

Notation G_REMOVE_INTERVAL :=
  (g_mem_remove_interval m_rid m_truthy N.eqb m_pfetch m_exdates m_exs_add m_set_exdates).
Notation G_REMOVE_SERIES :=
  (g_mem_remove_series m_rid m_truthy N.eqb m_pfetch m_exdates m_exs_add m_set_exdates).

Theorem g_mem_remove_interval_eq s ev :
  G_REMOVE_INTERVAL (m_static s) (ents (m_pats s)) ev =
  let r := mremove s ev in (m_static (fst r), ents (m_pats (fst r)), snd r).
Proof.
  unfold g_mem_remove_interval, mremove, flag_of, mstep, remove_static, in_list. cbv zeta.
  destruct (existsb (ivl_eqb ev) (m_static s)) eqn:Ein.
  - cbn [fst snd hd m_static m_pats]. rewrite sl_remove_eq. reflexivity.
  - unfold m_rid at 1. destruct (N.eqb (series_of ev) 0) eqn:E0; cbn [truthy_opt m_truthy].
    + reflexivity.
    + assert (Hk : series_of ev <> 0%N) by (intro H; rewrite H in E0; discriminate).
      rewrite (g_mem_remove_recurring_instance_eq (m_static s) (m_pats s) (m_seq s) ev Hk). cbv zeta.
      pose proof (remove_instance_static s ev) as Hst. destruct s as [st0 pats sq].
      cbn [m_static m_pats m_seq] in *. destruct (remove_instance (mkM st0 pats sq) ev) as [s' ok].
      cbn [fst snd hd] in *. rewrite Hst. reflexivity.
Qed.
Print Assumptions g_mem_remove_interval_eq.

(* ------------------------------------------------------------------------------------------ *)
(* _remove_series = remove_series(interval) of Model/Mem.v (mstep .. (MRemoveSeries ev)) *)
Theorem g_mem_remove_series_eq s ev :
  G_REMOVE_SERIES (m_static s) (ents (m_pats s)) ev =
  let r := mremove_series s ev in (m_static (fst r), ents (m_pats (fst r)), snd r).
Proof.
  unfold g_mem_remove_series. cbv zeta. unfold m_rid at 1.
  destruct (N.eqb (series_of ev) 0) eqn:E0; cbn [is_none].
  - rewrite g_mem_remove_interval_eq. cbv zeta.
    unfold mremove_series, mremove, flag_of, mstep, remove_static, in_list. cbv beta iota zeta.
    destruct (existsb (ivl_eqb ev) (m_static s)); cbv beta iota zeta; rewrite ?E0; reflexivity.
  - rewrite py_enumerate_eq. unfold ents at 2. rewrite map_length. fold (ents (m_pats s)).
    set (k := series_of ev) in *.
    rewrite (iter_for_first_pat (ents (m_pats s)) _ _ k
               (fun i _ _ => (m_static s, py_pop (ents (m_pats s)) i, [wr_noev true]))).
    + unfold mremove_series, flag_of, mstep. cbv beta iota zeta. fold k. rewrite ?E0.
      destruct (find_pat k (m_pats s)) as [p|]; cbn [fst snd hd m_static m_pats]; [|reflexivity].
      cbn [Nat.add]. rewrite py_pop_nat, del_pat_idx. unfold ents. rewrite list_del_nat_map. reflexivity.
    + intros i id p. cbv beta iota. unfold eq_opt, m_rid. fold k. rewrite E0. destruct (N.eqb id k); reflexivity.
Qed.
Print Assumptions g_mem_remove_series_eq.

(* ------------------------------------------------------------------------------------------ *)
(* _remove_many / _remove_many_series: one item after the other, results concatenated *)
Lemma iter_for_mfold (f : mstate -> ivl -> mstate * list wres)
      (g : list ivl -> list (N * pat) -> ivl -> list ivl * list (N * pat) * list wres)
      (body : list wres * list ivl * list (N * pat) -> ivl ->
              step (list wres * list ivl * list (N * pat)) (list ivl * list (N * pat) * list wres)) post :
  (forall s ev, g (m_static s) (ents (m_pats s)) ev =
                (m_static (fst (f s ev)), ents (m_pats (fst (f s ev))), snd (f s ev))) ->
  (forall acc a b ev, body (acc, a, b) ev = let '(a', b', w) := g a b ev in SCont (acc ++ w, a', b')) ->
  (forall acc a b, post (acc, a, b) = (a, b, acc)) ->
  forall evs s acc,
    iter_for body post (acc, m_static s, ents (m_pats s)) evs =
    (m_static (fst (mfold f s evs)), ents (m_pats (fst (mfold f s evs))), acc ++ snd (mfold f s evs)).
Proof.
  intros Hg Hb Hp. induction evs as [|ev r IH]; intros s acc; cbn [iter_for mfold].
  - rewrite Hp, app_nil_r. reflexivity.
  - rewrite Hb, Hg. cbv zeta beta iota. rewrite IH. destruct (f s ev) as [s1 w1]. cbn [fst snd].
    destruct (mfold f s1 r) as [s2 w2]. cbn [fst snd]. rewrite app_assoc. reflexivity.
Qed.

Theorem g_mem_remove_many_eq s evs :
  g_mem_remove_many m_rid m_truthy N.eqb m_pfetch m_exdates m_exs_add m_set_exdates (m_static s) (ents (m_pats s)) evs =
  let r := mremove_many s evs in (m_static (fst r), ents (m_pats (fst r)), snd r).
Proof.
  unfold g_mem_remove_many, mremove_many. cbv zeta.
  match goal with |- iter_for ?body ?post _ _ = _ =>
    rewrite (iter_for_mfold mremove G_REMOVE_INTERVAL body post)
  end; [reflexivity | intros s0 ev; apply g_mem_remove_interval_eq | reflexivity | reflexivity].
Qed.
Print Assumptions g_mem_remove_many_eq.

Theorem g_mem_remove_many_series_eq s evs :
  g_mem_remove_many_series m_rid m_truthy N.eqb m_pfetch m_exdates m_exs_add m_set_exdates (m_static s) (ents (m_pats s)) evs =
  let r := mremove_many_series s evs in (m_static (fst r), ents (m_pats (fst r)), snd r).
Proof.
  unfold g_mem_remove_many_series, mremove_many_series. cbv zeta.
  match goal with |- iter_for ?body ?post _ _ = _ =>
    rewrite (iter_for_mfold mremove_series G_REMOVE_SERIES body post)
  end; [reflexivity | intros s0 ev; apply g_mem_remove_series_eq | reflexivity | reflexivity].
Qed.
Print Assumptions g_mem_remove_many_series_eq.

(* the batch operations of the model are runs of the single ones (Model/Mem.v's mrun) *)
Lemma mremove_many_run s evs :
  fst (mremove_many s evs) = fold_left (fun m o => fst (mstep m o)) (map MRemove evs) s /\
  map wr_ok (snd (mremove_many s evs)) = concat (map fst (mrun s (map MRemove evs))).
Proof.
  revert s. induction evs as [|ev r IH]; intro s; [split; reflexivity|].
  unfold mremove_many in *. cbn [mfold map fold_left mrun].
  unfold mremove at 1 3. cbv zeta. specialize (IH (fst (mstep s (MRemove ev)))).
  destruct (mfold mremove (fst (mstep s (MRemove ev))) r) as [s2 w2]. cbn [fst snd] in *.
  destruct IH as [IH1 IH2]. split; [exact IH1|].
  destruct (mstep s (MRemove ev)) as [s1 [fl sl]] eqn:Em. cbn [fst snd map concat wr_ok wr_rm app] in *.
  rewrite IH2. f_equal.
  unfold mstep in Em. destruct (remove_static s ev) as [s1' ok1].
  destruct ok1; [injection Em as _ <- _; reflexivity|].
  destruct (N.eqb (series_of ev) 0); [injection Em as _ <- _; reflexivity|].
  destruct (remove_instance s ev); injection Em as _ <- _; reflexivity.
Qed.

Lemma mremove_many_series_run s evs :
  fst (mremove_many_series s evs) = fold_left (fun m o => fst (mstep m o)) (map MRemoveSeries evs) s /\
  map wr_ok (snd (mremove_many_series s evs)) = concat (map fst (mrun s (map MRemoveSeries evs))).
Proof.
  revert s. induction evs as [|ev r IH]; intro s; [split; reflexivity|].
  unfold mremove_many_series in *. cbn [mfold map fold_left mrun].
  unfold mremove_series at 1 3. cbv zeta. specialize (IH (fst (mstep s (MRemoveSeries ev)))).
  destruct (mfold mremove_series (fst (mstep s (MRemoveSeries ev))) r) as [s2 w2]. cbn [fst snd] in *.
  destruct IH as [IH1 IH2]. split; [exact IH1|].
  destruct (mstep s (MRemoveSeries ev)) as [s1 [fl sl]] eqn:Em. cbn [fst snd map concat app] in *.
  rewrite IH2. f_equal.
  unfold mstep in Em. unfold flag_of. cbn [fst snd].
  destruct (N.eqb (series_of ev) 0).
  - destruct (remove_static s ev) as [s1' ok1]. injection Em as _ <- _. reflexivity.
  - destruct (find_pat (series_of ev) (m_pats s)); injection Em as _ <- _; reflexivity.
Qed.

(* ------------------------------------------------------------------------------------------ *)
(* MutableTimeline: the default batches over any backend, and the dispatch on the kind of argument *)
Lemma iter_for_mfold_gen {ST A : Type} (f : ST -> A -> ST * list wres)
      (body : list wres * ST -> A -> step (list wres * ST) (ST * list wres)) post :
  (forall acc st0 x, body (acc, st0) x = let '(st1, w) := f st0 x in SCont (acc ++ w, st1)) ->
  (forall acc st0, post (acc, st0) = (st0, acc)) ->
  forall xs st0 acc,
    iter_for body post (acc, st0) xs = (fst (mfold f st0 xs), acc ++ snd (mfold f st0 xs)).
Proof.
  intros Hb Hp. induction xs as [|x r IH]; intros st0 acc; cbn [iter_for mfold].
  - rewrite Hp, app_nil_r. reflexivity.
  - rewrite Hb. destruct (f st0 x) as [s1 w1]. rewrite IH.
    destruct (mfold f s1 r) as [s2 w2]. cbn [fst snd]. rewrite app_assoc. reflexivity.
Qed.

Theorem g_mt_remove_many_eq {ST : Type} (f : ST -> ivl -> ST * list wres) st0 evs :
  g_mt_remove_many f st0 evs = mfold f st0 evs.
Proof.
  unfold g_mt_remove_many. cbv zeta.
  match goal with |- iter_for ?body ?post _ _ = _ => rewrite (iter_for_mfold_gen f body post) end;
    [destruct (mfold f st0 evs); reflexivity | reflexivity | reflexivity].
Qed.
Print Assumptions g_mt_remove_many_eq.

Theorem g_mt_remove_many_series_eq {ST : Type} (f : ST -> ivl -> ST * list wres) st0 evs :
  g_mt_remove_many_series f st0 evs = mfold f st0 evs.
Proof.
  unfold g_mt_remove_many_series. cbv zeta.
  match goal with |- iter_for ?body ?post _ _ = _ => rewrite (iter_for_mfold_gen f body post) end;
    [destruct (mfold f st0 evs); reflexivity | reflexivity | reflexivity].
Qed.
Print Assumptions g_mt_remove_many_series_eq.

Theorem g_mt_add_many_eq {ST K V : Type} (eqb : K -> K -> bool) vars_of
        (add_interval : ST -> ivl -> list (K * option V) -> ST * list wres) st0 evs kw :
  g_mt_add_many eqb vars_of add_interval st0 evs kw = madd_many eqb vars_of add_interval st0 evs kw.
Proof.
  unfold g_mt_add_many, madd_many. cbv zeta.
  match goal with |- iter_for ?body ?post _ _ = mfold ?f _ _ => rewrite (iter_for_mfold_gen f body post) end;
    [destruct (mfold _ st0 evs); reflexivity | reflexivity | reflexivity].
Qed.
Print Assumptions g_mt_add_many_eq.

Theorem g_mt_add_eq {ST PAT K V : Type} (eqb : K -> K -> bool) vars_of
        (addi : ST -> ivl -> list (K * option V) -> ST * list wres)
        (addr : ST -> PAT -> list (K * option V) -> ST * list wres)
        (addm : ST -> list ivl -> list (K * option V) -> ST * list wres) st0 item kw :
  g_mt_add eqb vars_of addi addr addm st0 item kw = madd_dispatch eqb vars_of addi addr addm st0 item kw.
Proof.
  unfold g_mt_add, madd_dispatch. destruct item as [i|p| |l]; try reflexivity.
  - destruct (addi st0 i _); reflexivity.
  - destruct (addr st0 p kw); reflexivity.
  - destruct (addm st0 l kw); reflexivity.
Qed.
Print Assumptions g_mt_add_eq.

(* remove / remove_series of a MemoryTimeline: the dispatch of the base class over the translated methods of
   MemoryTimeline is the model's operation on an interval, or its run over a collection *)
Definition mem_state := (list ivl * list (N * pat))%type.
Definition view2 (s : mstate) : mem_state := (m_static s, ents (m_pats s)).
Definition uncurry3 (g : list ivl -> list (N * pat) -> ivl -> list ivl * list (N * pat) * list wres)
  : mem_state -> ivl -> mem_state * list wres :=
  fun v ev => let '(a, b, w) := g (fst v) (snd v) ev in ((a, b), w).
Definition uncurry3l (g : list ivl -> list (N * pat) -> list ivl -> list ivl * list (N * pat) * list wres)
  : mem_state -> list ivl -> mem_state * list wres :=
  fun v evs => let '(a, b, w) := g (fst v) (snd v) evs in ((a, b), w).

Theorem g_mt_remove_mem_eq s x :
  g_mt_remove (uncurry3 G_REMOVE_INTERVAL)
              (uncurry3l (g_mem_remove_many m_rid m_truthy N.eqb m_pfetch m_exdates m_exs_add m_set_exdates))
              (view2 s) x =
  let r := mremove_any s x in (view2 (fst r), snd r).
Proof.
  unfold g_mt_remove, uncurry3, uncurry3l, view2, mremove_any. cbn [fst snd].
  destruct x as [i|l].
  - rewrite g_mem_remove_interval_eq. reflexivity.
  - rewrite g_mem_remove_many_eq. reflexivity.
Qed.
Print Assumptions g_mt_remove_mem_eq.

Theorem g_mt_remove_series_mem_eq s x :
  g_mt_remove_series (uncurry3 G_REMOVE_SERIES)
              (uncurry3l (g_mem_remove_many_series m_rid m_truthy N.eqb m_pfetch m_exdates m_exs_add m_set_exdates))
              (view2 s) x =
  let r := mremove_series_any s x in (view2 (fst r), snd r).
Proof.
  unfold g_mt_remove_series, uncurry3, uncurry3l, view2, mremove_series_any. cbn [fst snd].
  destruct x as [i|l].
  - rewrite g_mem_remove_series_eq. reflexivity.
  - rewrite g_mem_remove_many_series_eq. reflexivity.
Qed.
Print Assumptions g_mt_remove_series_mem_eq.

(* the override of MemoryTimeline is the default of the base class *)
Theorem g_mem_remove_many_is_default a b evs :
  uncurry3l (g_mem_remove_many m_rid m_truthy N.eqb m_pfetch m_exdates m_exs_add m_set_exdates) (a, b) evs =
  g_mt_remove_many (uncurry3 G_REMOVE_INTERVAL) (a, b) evs.
Proof.
  unfold uncurry3l, g_mem_remove_many, g_mt_remove_many. cbv zeta. cbn [fst snd].
  generalize (@nil wres). revert a b. induction evs as [|ev r IH]; intros a b acc; [reflexivity|].
  cbn [iter_for]. unfold uncurry3 at 1. cbn [fst snd].
  destruct (G_REMOVE_INTERVAL a b ev) as [[a' b'] w]. apply IH.
Qed.
Print Assumptions g_mem_remove_many_is_default.

(* ------------------------------------------------------------------------------------------ *)
(* _add_interval *)
Lemma iter_for_fill {K V R : Type} (eqb : K -> K -> bool)
      (body : list (K * option V) -> K * option V -> step (list (K * option V)) R) post :
  (forall m k v, body m (k, v) = SCont (if is_none (dict_get_opt eqb k m) then dict_set eqb k v m else m)) ->
  forall container d, iter_for body post d container = post (fill_defaults eqb container d).
Proof.
  intro Hb. induction container as [|[k v] r IH]; intro d; [reflexivity|].
  cbn [iter_for]. rewrite Hb. unfold fill_defaults. cbn [fold_left fst snd]. apply IH.
Qed.

Theorem g_mem_add_interval_eq {K V : Type} (eqb : K -> K -> bool) rf (container : list (K * option V)) static i md :
  g_mem_add_interval eqb rf container static i md = madd_interval eqb rf container static i md.
Proof.
  unfold g_mem_add_interval, madd_interval, stored_event. cbv zeta.
  match goal with |- iter_for ?body ?post _ _ = _ => rewrite (iter_for_fill eqb body post) end; [reflexivity|].
  intros m k v. cbv beta iota. destruct (is_none (dict_get_opt eqb k m)); reflexivity.
Qed.
Print Assumptions g_mem_add_interval_eq.

(* it is add(Interval) of Model/Mem.v on the event that is stored *)
Theorem g_mem_add_interval_model {K V : Type} (eqb : K -> K -> bool) rf (container : list (K * option V)) s i md :
  let ev := stored_event eqb rf container i md in
  let r := mstep s (MAdd ev) in
  g_mem_add_interval eqb rf container (m_static s) i md = (m_static (fst r), [mkWR (flag_of r) (Some ev) None]) /\
  m_pats (fst r) = m_pats s /\ m_seq (fst r) = m_seq s.
Proof. cbv zeta. rewrite g_mem_add_interval_eq. repeat split. Qed.
Print Assumptions g_mem_add_interval_model.

(* ---- what the merged metadata says, field by field (field names as numbers: Leibniz equality) ---- *)
Lemma dget_set_same {V : Type} (d : list (N * option V)) k v : dict_get_opt N.eqb k (dict_set N.eqb k v d) = v.
Proof.
  unfold dict_get_opt. induction d as [|[k' v'] r IH]; cbn [dict_set dict_get].
  - rewrite N.eqb_refl. reflexivity.
  - destruct (N.eqb k k') eqn:E; cbn [dict_get]; rewrite E; [reflexivity|exact IH].
Qed.
Lemma dget_set_other {V : Type} (d : list (N * option V)) k k' v :
  k <> k' -> dict_get_opt N.eqb k (dict_set N.eqb k' v d) = dict_get_opt N.eqb k d.
Proof.
  intro Hne. unfold dict_get_opt. induction d as [|[k2 v2] r IH]; cbn [dict_set dict_get].
  - replace (N.eqb k k') with false by (symmetry; apply N.eqb_neq; exact Hne). reflexivity.
  - destruct (N.eqb k' k2) eqn:E; cbn [dict_get].
    + apply N.eqb_eq in E. subst k2. replace (N.eqb k k') with false by (symmetry; apply N.eqb_neq; exact Hne). reflexivity.
    + destruct (N.eqb k k2); [reflexivity|exact IH].
Qed.
Lemma dhas_set {V : Type} (d : list (N * option V)) k k' v :
  dict_has N.eqb k (dict_set N.eqb k' v d) = N.eqb k k' || dict_has N.eqb k d.
Proof.
  unfold dict_has. induction d as [|[k2 v2] r IH]; cbn [dict_set existsb fst].
  - rewrite orb_false_r. reflexivity.
  - destruct (N.eqb k' k2) eqn:E; cbn [existsb fst].
    + apply N.eqb_eq in E. subst k2. destruct (N.eqb k k'); reflexivity.
    + rewrite IH. destruct (N.eqb k k2), (N.eqb k k'); reflexivity.
Qed.
Lemma dget_absent {V : Type} (d : list (N * option V)) k : ~ In k (map fst d) -> dict_get_opt N.eqb k d = None.
Proof.
  unfold dict_get_opt. induction d as [|[k2 v2] r IH]; intro H; [reflexivity|]. cbn [dict_get].
  destruct (N.eqb k k2) eqn:E; [apply N.eqb_eq in E; subst; exfalso; apply H; left; reflexivity|].
  apply IH. intro Hin. apply H. right. exact Hin.
Qed.

Lemma dget_nohas {V : Type} (d : list (N * option V)) k : dict_has N.eqb k d = false -> dict_get_opt N.eqb k d = None.
Proof.
  unfold dict_has, dict_get_opt. induction d as [|[k2 v2] r IH]; intro H; [reflexivity|]. cbn [existsb fst dict_get] in *.
  destruct (N.eqb k k2); [discriminate|exact (IH H)].
Qed.
Lemma dhas_absent {V : Type} (d : list (N * option V)) k : ~ In k (map fst d) -> dict_has N.eqb k d = false.
Proof.
  unfold dict_has. induction d as [|[k2 v2] r IH]; intro H; [reflexivity|]. cbn [existsb fst].
  destruct (N.eqb k k2) eqn:E; [apply N.eqb_eq in E; subst; exfalso; apply H; left; reflexivity|].
  apply IH. intro Hin. apply H. right. exact Hin.
Qed.

Lemma dget_cons {V : Type} (r : list (N * option V)) k k0 v0 :
  dict_get_opt N.eqb k ((k0, v0) :: r) = if N.eqb k k0 then v0 else dict_get_opt N.eqb k r.
Proof. reflexivity. Qed.

(* {**a, **b}: the value of b where b has the key, otherwise the value of a *)
Lemma dget_update {V : Type} (b a : list (N * option V)) k :
  NoDup (map fst b) ->
  dict_get_opt N.eqb k (dict_update N.eqb a b) =
  if dict_has N.eqb k b then dict_get_opt N.eqb k b else dict_get_opt N.eqb k a.
Proof.
  unfold dict_update. revert a. induction b as [|[k2 v2] r IH]; intros a Hnd; [reflexivity|].
  cbn [map fst] in Hnd. inversion Hnd as [|? ? Hk2 Hr]; subst.
  cbn [fold_left fst snd]. rewrite (IH _ Hr). rewrite (dget_cons r k k2 v2).
  change (dict_has N.eqb k ((k2, v2) :: r)) with (N.eqb k k2 || dict_has N.eqb k r).
  destruct (N.eqb k k2) eqn:E.
  - apply N.eqb_eq in E. subst k2. rewrite (dhas_absent r k Hk2). cbn [orb]. apply dget_set_same.
  - cbn [orb]. destruct (dict_has N.eqb k r); [reflexivity|].
    apply dget_set_other. intro H. subst. rewrite N.eqb_refl in E. discriminate.
Qed.

(* container defaults: the value the dict already has unless that is missing or None *)
Lemma fill_defaults_get {V : Type} (container d : list (N * option V)) k :
  NoDup (map fst container) ->
  dict_get_opt N.eqb k (fill_defaults N.eqb container d) =
  match dict_get_opt N.eqb k d with Some v => Some v | None => dict_get_opt N.eqb k container end.
Proof.
  unfold fill_defaults. revert d. induction container as [|[k0 v0] r IH]; intros d Hnd.
  - cbn [fold_left]. destruct (dict_get_opt N.eqb k d); reflexivity.
  - cbn [map fst] in Hnd. inversion Hnd as [|? ? Hk0 Hr]; subst. cbn [fold_left fst snd]. rewrite (IH _ Hr).
    rewrite (dget_cons r k k0 v0).
    destruct (N.eqb k k0) eqn:E.
    + apply N.eqb_eq in E. subst k0.
      destruct (dict_get_opt N.eqb k d) as [v|] eqn:Ed; cbn [is_none].
      * rewrite Ed. reflexivity.
      * rewrite dget_set_same, (dget_absent r k Hk0). destruct v0; reflexivity.
    + assert (Hne : k <> k0) by (intro H; subst; rewrite N.eqb_refl in E; discriminate).
      destruct (is_none (dict_get_opt N.eqb k0 d)); [rewrite (dget_set_other d k k0 v0 Hne)|]; reflexivity.
Qed.

(* the field k of the event that add(item, **kw) stores on a timeline with container metadata is the
   meta_merge of Model/Mem.v (the model the C12 checks compare with the implementation) *)
Theorem add_metadata_is_meta_merge (item_fields kw container : list (N * option N)) k :
  NoDup (map fst kw) -> NoDup (map fst container) ->
  dict_get_opt N.eqb k (fill_defaults N.eqb container (dict_update N.eqb item_fields kw)) =
  meta_merge (dict_get_opt N.eqb k item_fields)
             (if dict_has N.eqb k kw then Some (dict_get_opt N.eqb k kw) else None)
             (if dict_has N.eqb k container then Some (dict_get_opt N.eqb k container) else None).
Proof.
  intros Hkw Hc. rewrite (fill_defaults_get _ _ _ Hc), (dget_update _ _ _ Hkw). unfold meta_merge.
  destruct (dict_has N.eqb k kw);
    [destruct (dict_get_opt N.eqb k kw)|destruct (dict_get_opt N.eqb k item_fields)]; try reflexivity;
    (destruct (dict_has N.eqb k container) eqn:Eh; [reflexivity|apply dget_nohas; exact Eh]).
Qed.
Print Assumptions add_metadata_is_meta_merge.

Example add_metadata_nonvacuous :
  NoDup (map fst [(1%N, Some 7%N); (2%N, @None N)]) /\ NoDup (map fst [(2%N, Some 9%N)]) /\
  dict_get_opt N.eqb 2%N (fill_defaults N.eqb [(2%N, Some 9%N)] (dict_update N.eqb [(2%N, Some 5%N)] [(1%N, Some 7%N); (2%N, None)]))
  = Some 9%N.
Proof. repeat split; repeat constructor; cbn; intuition discriminate. Qed.

(* ------------------------------------------------------------------------------------------ *)
(* _add_recurring *)
Lemma N_plus_Z_succ n : N_plus_Z n 1 = N.succ n.
Proof. unfold N_plus_Z. lia. Qed.

Theorem g_mem_add_recurring_eq {ID PAT K V START TZ : Type} (eqb : K -> K -> bool) (make_id : PAT -> N -> ID)
        pmeta chas cann krid (vid : ID -> V) (astart : PAT -> START) (atz : PAT -> TZ) mk
        (container : list (K * option V)) pats sq p kw :
  g_mem_add_recurring eqb make_id pmeta chas cann krid vid astart atz mk container pats sq p kw =
  madd_recurring eqb make_id pmeta chas cann krid vid astart atz mk container pats sq p kw.
Proof.
  unfold g_mem_add_recurring, madd_recurring, recurring_metadata. cbv zeta. rewrite N_plus_Z_succ.
  match goal with |- iter_for ?body ?post _ _ = _ => rewrite (iter_for_fill eqb body post) end.
  - destruct (chas p); cbn [andb existsb]; [destruct (existsb (eqb krid) (cann p))|]; reflexivity.
  - intros m k v. cbv beta iota. destruct (is_none (dict_get_opt eqb k m)); reflexivity.
Qed.
Print Assumptions g_mem_add_recurring_eq.

(* at the model's representation it is add(RecurringPattern) of Model/Mem.v, provided the event class of the
   pattern has a recurring_event_id field (otherwise the occurrences would not name their series) *)
Theorem g_mem_add_recurring_model krid pmeta chas cann (container kw : list (N * option N)) s period phase dur tag :
  let p0 := mkP 0 period phase dur [] tag in
  chas p0 = true -> existsb (N.eqb krid) (cann p0) = true ->
  let r := mstep s (MAddPat period phase dur tag) in
  g_mem_add_recurring N.eqb m_make_id pmeta chas cann krid (fun id : N => id) (fun _ => tt) (fun _ => tt)
                      (m_make_pattern krid) container (ents (m_pats s)) (m_seq s) p0 kw =
  (ents (m_pats (fst r)), m_seq (fst r), [wr_noev (flag_of r)]) /\ m_static (fst r) = m_static s.
Proof.
  intros p0 Hc Ha. cbv zeta. rewrite g_mem_add_recurring_eq. unfold madd_recurring, recurring_metadata. cbv zeta.
  rewrite Hc, Ha. cbn [andb mstep fst snd m_pats m_seq m_static flag_of hd]. split; [|reflexivity].
  unfold ents. rewrite map_app. cbn [map]. unfold m_make_pattern. rewrite dget_set_same.
  unfold m_make_id. reflexivity.
Qed.
Print Assumptions g_mem_add_recurring_model.

Example g_mem_add_recurring_model_nonvacuous :
  (fun _ : pat => true) (mkP 0 86400 0 3600 [] 1) = true /\
  existsb (N.eqb 5%N) ((fun _ : pat => [4%N; 5%N]) (mkP 0 86400 0 3600 [] 1)) = true.
Proof. split; reflexivity. Qed.

(* ------------------------------------------------------------------------------------------ *)
(* the hypotheses of the theorems above are satisfiable *)
Example g_mem_fetch_nonvacuous :
  sorted_start (m_static (mkM [mkI (Some 1) (Some 5) Plain; mkI (Some 3) (Some 4) Plain] [] 0)).
Proof. exact g_mem_fetch_static_nonvacuous. Qed.
Example g_mem_remove_recurring_instance_nonvacuous : series_of (mkI (Some 0) (Some 10) (Rich 301)) <> 0%N.
Proof. vm_compute. discriminate. Qed.

(* and the translated code does what the model says on a concrete history: a daily series, one occurrence
   cancelled through remove(), a second removal of the same occurrence refused *)
Example g_mem_remove_interval_demo :
  let s := fst (mstep minit (MAddPat 86400 0 3600 3)) in
  let ev := mkI (Some 86400) (Some 90000) (Rich 301) in
  let '(a, b, w) := G_REMOVE_INTERVAL (m_static s) (ents (m_pats s)) ev in
  map wr_ok w = [true] /\ map (fun e => p_ex (snd e)) b = [[86400]] /\
  map wr_ok (snd (G_REMOVE_INTERVAL a b ev)) = [false].
Proof. vm_compute. repeat split. Qed.
