(* Proofs/GenEq.v — tie C: the definitions generated from the Python source text on every run
   (Gen/Source.v, by harness/translate/pysrc.py) are equal, for ALL inputs, to the hand-written
   model functions the property theorems are stated about.  When the source changes, Gen/Source.v
   changes and these proofs are re-checked against it; a change of behaviour makes one fail. *)
From CG Require Import Model.Loop Gen.Source Model.Sweeps Model.Expr.
From Coq Require Import Lia.

(* ---- interval.py ---- *)
Lemma g_finite_start_eq i : g_finite_start i = fstart i.
Proof. unfold g_finite_start, fstart, is_none, ozd. destruct (st i); reflexivity. Qed.

Lemma g_finite_end_eq i : g_finite_end i = fend i.
Proof. unfold g_finite_end, fend, is_none, ozd. destruct (en i); reflexivity. Qed.

(* ---- core.py: time negation ---- *)
Lemma g_neg_eq v : g_neg v = negO v.
Proof. destruct v; reflexivity. Qed.

Lemma g_negate_interval_eq i : g_negate_interval i = neg_ivl i.
Proof. unfold g_negate_interval, neg_ivl, set_span. rewrite !g_neg_eq. reflexivity. Qed.

Lemma g_negate_stream_eq l : g_negate_stream l = neg_stream l.
Proof. unfold g_negate_stream, neg_stream. apply map_ext. intro i. apply g_negate_interval_eq. Qed.

(* ---- core.py: _SolidTimeline.fetch ---- *)
Lemma g_solid_fetch_eq a b rv : g_solid_fetch a b rv = [mkI a b Plain].
Proof. reflexivity. Qed.

(* ---- core.py: Complement._sweep ---- *)
Lemma unS_if z : (if negb (z =? NEG_INF) then Some z else None) = unS z.
Proof. unfold unS. destruct (z =? NEG_INF); reflexivity. Qed.

Lemma g_compl_sweep_eq xs a b : g_compl_sweep xs a b = compl_sweep xs a b.
Proof.
  unfold g_compl_sweep, compl_sweep. cbv zeta.
  change (match a with Some start => start | None => NEG_INF end) with (bnd_lo a).
  change (match b with Some end_ => end_ | None => POS_INF end) with (bnd_hi b).
  set (sb := bnd_lo a). set (eb := bnd_hi b).
  match goal with
  | |- run_for ?body ?post _ _ = _ =>
    assert (H : forall cursor, run_for body post cursor xs = csweep xs sb eb b cursor); [|apply H]
  end.
  induction xs as [|x r IH]; intro cursor.
  - cbn [run_for csweep]. unfold final_gap, gap. rewrite unS_if.
    destruct (cursor <? eb); [|reflexivity].
    cbn [app]. destruct (eb =? POS_INF); reflexivity.
  - cbn [run_for csweep].
    destruct (fend x <? sb) eqn:E1.
    { cbn [app]. apply IH. }
    destruct (fstart x >? eb) eqn:E2.
    { cbn [app]. unfold final_gap, gap. rewrite unS_if.
      destruct (cursor <? eb); [|reflexivity].
      cbn [app]. destruct (eb =? POS_INF); reflexivity. }
    destruct (Z.min (fend x) eb <=? cursor) eqn:E3.
    { cbn [app]. apply IH. }
    destruct (Z.max (fstart x) sb >? cursor) eqn:E4.
    + rewrite !unS_if. destruct (Z.max cursor (Z.min (fend x) eb) >? eb) eqn:E5.
      * unfold gap. cbn [app]. reflexivity.
      * unfold gap. cbn [app]. f_equal. apply IH.
    + destruct (Z.max cursor (Z.min (fend x) eb) >? eb) eqn:E5.
      * reflexivity.
      * cbn [app]. apply IH.
Qed.

(* ---- core.py: Complement.fetch (the time-negation wrapper), over any source ---- *)
Lemma g_compl_fetch_eq src a b rv :
  g_compl_fetch src a b rv =
  if rv then neg_stream (compl_sweep (neg_stream (src a b true)) (negO b) (negO a))
  else compl_sweep (src a b false) a b.
Proof.
  unfold g_compl_fetch. destruct rv.
  - rewrite !g_negate_stream_eq, g_compl_sweep_eq, !g_neg_eq. reflexivity.
  - apply g_compl_sweep_eq.
Qed.

(* ---- core.py: Filtered.fetch ---- *)
Lemma g_filtered_fetch_eq src f a b rv :
  g_filtered_fetch src f a b rv = filter f (src a b rv).
Proof. unfold g_filtered_fetch. apply filter_ext. reflexivity. Qed.

(* ---- transform.py: _Buffered.fetch ---- *)
Lemma g_buffered_fetch_eq src before after a b rv :
  g_buffered_fetch src before after a b rv =
  map (buf_shift before after) (src (addO a (- after)) (addO b before) rv).
Proof.
  unfold g_buffered_fetch. cbv zeta.
  replace (match a with Some start => Some (start - after) | None => None end) with (addO a (- after))
    by (destruct a; reflexivity).
  replace (match b with Some end_ => Some (end_ + before) | None => None end) with (addO b before)
    by (destruct b; reflexivity).
  set (l := src (addO a (- after)) (addO b before) rv). clearbody l.
  induction l as [|x r IH]; cbn [run_for map]; [reflexivity|].
  cbn [app]. f_equal.
  - unfold buf_shift, addO, is_none, ozd. destruct (st x), (en x); reflexivity.
  - exact IH.
Qed.

(* ---- transform.py: _MergedWithin._fetch_forward ---- *)
Lemma mw_go_run g c l :
  run_for
    (fun (current : option ivl) (x : ivl) =>
       match current with
       | Some cur =>
         let can := match en cur, st x with Some ce, Some xs => xs - ce <=? g | _, _ => true end in
         if can then
           let ne := match en cur, en x with Some ce, Some xe => Some (Z.max ce xe) | _, _ => None end in
           (@nil ivl, Some (set_span cur (st cur) ne), Cont)
         else ([cur], Some x, Cont)
       | None => (@nil ivl, Some x, Cont)
       end)
    (fun current => match current with Some cur => [cur] | None => [] end)
    (Some c) l = mw_go g c l.
Proof.
  revert c. induction l as [|x r IH]; intro c; cbn [run_for mw_go]; [reflexivity|].
  destruct (match en c, st x with Some ce, Some xs => xs - ce <=? g | _, _ => true end).
  - cbn [app]. apply IH.
  - cbn [app]. f_equal. apply IH.
Qed.

Lemma g_merged_fetch_forward_eq src g a b :
  g_merged_fetch_forward src g a b = mw g (src a b false).
Proof.
  unfold g_merged_fetch_forward, mw.
  set (l := src a b false). clearbody l.
  destruct l as [|x0 l]; [reflexivity|].
  cbn [run_for]. cbn [app].
  rewrite <- mw_go_run.
  (* both sides: run_for over l from state (Some x0); the bodies agree pointwise *)
  generalize (Some x0) as s. induction l as [|x r IH]; intro s; cbn [run_for].
  - destruct s; reflexivity.
  - destruct s as [c|]; [|cbn [app]; apply IH].
    unfold is_none, ozd.
    destruct (en c) as [ce|] eqn:Ec; destruct (st x) as [xs|] eqn:Ex;
      destruct (en x) as [xe|] eqn:Exe; cbn [orb];
      repeat match goal with
             | |- context [if ?c then _ else _] => destruct c eqn:?
             end;
      cbn [app]; rewrite ?IH; try reflexivity;
      try (f_equal; f_equal; f_equal; f_equal; lia);
      try (f_equal; reflexivity).
Qed.

Print Assumptions g_compl_sweep_eq.
Print Assumptions g_compl_fetch_eq.
Print Assumptions g_merged_fetch_forward_eq.
Print Assumptions g_buffered_fetch_eq.
