(* Proofs/GenEq_gcsa.v — tie C for calgebra/gcsa.py (third extension, tag gcsa), part 1:
     A. g_gcsa_infer_is_all_day     _infer_is_all_day             = Model/Gcsa.v infer_all_day
     B. g_gcsa_fetch_reverse        Calendar._fetch_reverse       = Model/Gcsa.v pager (pure) / fetch_reverse
     C. g_gcsa_format_exdate        _format_exdate (+ _timestamp_to_datetime) = format_exdate
     D. g_gcsa_add_exdate_to_rrule  _add_exdate_to_rrule          = add_exdate
   The generated definitions (Gen/Source.v) are parametric in the datetime / string objects; each theorem
   shows the instantiation it is about.  *)
From CG Require Import Model.Loop Gen.Source Model.Gcsa.
From CG Require Proofs.GcsaP.
From Coq Require Import ZArith List Bool Lia ZifyBool.
From Coq Require Import Sorting.Sorted Sorting.Permutation.
Import ListNotations.
Local Open Scope Z_scope.
Ltac Zify.zify_post_hook ::= Z.to_euclidean_division_equations.

(* ========================================================================================== *)
(* The datetime library in the zone model (TRUSTED reading R1 of srcspecs_gcsa.py): an aware datetime
   is (wall-clock seconds since the local epoch, fold); a time of day is its second of day; a
   timedelta is a number of seconds.                                                            *)
Definition gdt := (Z * bool)%type.
Definition gz_fromtimestamp (t : Z) (z : zone) : gdt := (utc_to_wall z t, fold_of z t).
Definition gz_time (x : gdt) : Z := fst x mod DAY.
Definition gz_neb (a b : Z) : bool := negb (a =? b).
Definition gz_td_days (s : Z) : Z := s / DAY.              (* timedelta(seconds=s).days *)
Definition gz_of_days (d : Z) : Z := d * DAY.
Definition gz_of_hours (h : Z) : Z := h * HOUR.

(* ========================================================================================== *)
(* A. _infer_is_all_day                                                                         *)

Definition src_infer_is_all_day (s e : Z) (tz : option zone) : bool :=
  g_gcsa_infer_is_all_day utc_zone gz_fromtimestamp gz_time 0 gz_neb (fun s => s) gz_of_days gz_of_hours
    gz_td_days Z.sub Z.gtb s e tz.

Theorem g_gcsa_infer_is_all_day_eq (s e : Z) (tz : option zone) :
  src_infer_is_all_day s e tz = infer_all_day s e tz.
Proof.
  unfold src_infer_is_all_day, g_gcsa_infer_is_all_day, infer_all_day, tz_or_utc, gz_fromtimestamp, gz_time,
    gz_neb, gz_td_days, gz_of_days, gz_of_hours.
  cbv zeta. cbn [fst].
  set (z := match tz with Some z => z | None => utc_zone end).
  destruct (utc_to_wall z s mod DAY =? 0) eqn:E1; cbn [negb orb andb];
    [destruct (utc_to_wall z e mod DAY =? 0) eqn:E2; cbn [negb orb andb]|]; try reflexivity.
  unfold HOUR, DAY.
  destruct (_ >? _) eqn:E3; lia.
Qed.
Print Assumptions g_gcsa_infer_is_all_day_eq.

(* sanity: a local day in Los Angeles across the spring gap (23 h: NOT taken for all-day, the remainder
   of 23 h over 0 whole days exceeds the hour), the 25-hour day of the autumn fold, and 26 hours *)
Example infer_examples :
  let la := mkZone (-28800) [(1710064800, -25200); (1730624400, -28800)] in
  src_infer_is_all_day 1710057600 (1710057600 + 23 * 3600) (Some la) = false /\
  src_infer_is_all_day 1730617200 (1730617200 + 25 * 3600) (Some la) = true /\
  src_infer_is_all_day 0 (26 * 3600) None = false /\
  src_infer_is_all_day 0 86400 None = true /\ src_infer_is_all_day 1 86401 None = false.
Proof. vm_compute. repeat split; reflexivity. Qed.

(* ========================================================================================== *)
(* B. Calendar._fetch_reverse                                                                   *)

(* the window loop over ANY pure forward fetch [ff] (the reading R4): newest page first, each page
   reversed and filtered by "the page that contains the start" *)
Section Pages.
  Context {A : Type} (ff : option Z -> option Z -> list A) (sA : A -> Z).
  Fixpoint gpages (fuel : nat) (start end_ cur : Z) : list A :=
    match fuel with
    | O => []
    | S f =>
      if start <? cur then
        let ws := Z.max start (cur - WINDOW) in
        let from := if ws =? start then ws else ws - 1 in
        rev (filter (fun x => keep_in_page start end_ ws cur (sA x)) (ff (Some from) (Some cur)))
        ++ gpages f start end_ ws
      else []
    end.

  Lemma gpages_enough : forall fuel start end_ cur, cur <= start -> gpages fuel start end_ cur = [].
  Proof. intros [|f] start end_ cur H; cbn [gpages]; [reflexivity|]. replace (start <? cur) with false by lia. reflexivity. Qed.

  Theorem g_gcsa_fetch_reverse_pages (fuel : nat) (lo : option Z) (hi : Z) :
    let start := match lo with Some s => s | None => hi - 365 * DAY end in
    hi - start <= Z.of_nat fuel * WINDOW ->
    g_gcsa_fetch_reverse fuel ff sA lo (Some hi) = RDone (gpages fuel start hi hi).
  Proof.
    intros start Hfuel. unfold g_gcsa_fetch_reverse. cbv zeta.
    change (match lo with Some start0 => start0 | None => hi - 365 * 86400 end) with start.
    change (30 * 86400) with WINDOW.
    match goal with
    | |- run_while _ ?cond ?body ?post _ = _ =>
      assert (HH : forall fuel cur, cur - start <= Z.of_nat fuel * WINDOW ->
                                    run_while fuel cond body post cur = RDone (gpages fuel start hi cur));
        [|apply HH; exact Hfuel]
    end.
    clear fuel Hfuel. unfold WINDOW, DAY.
    induction fuel as [|f IH]; intros cur H; cbn [run_while gpages]; rewrite Z.gtb_ltb.
    - replace (start <? cur) with false by lia. reflexivity.
    - destruct (start <? cur) eqn:E; [|reflexivity].
      cbv zeta. rewrite IH by lia. cbn [app]. f_equal. f_equal. f_equal.
      apply filter_ext. intro x. unfold keep_in_page. rewrite Z.geb_leb. reflexivity.
  Qed.

  Theorem g_gcsa_fetch_reverse_unbounded fuel lo : g_gcsa_fetch_reverse fuel ff sA lo None = RRaise ValueError.
  Proof. reflexivity. Qed.
End Pages.
Print Assumptions g_gcsa_fetch_reverse_pages.

(* with the forward fetch of the simulated API over a fixed list of events — what a page request
   returns is the events overlapping it — the loop is the model's pager *)
Lemma gpages_pager {A} (sA eA : A -> Z) (evs : list A) : forall fuel start end_ cur,
  gpages (fun a b => filter (overlaps sA eA (ozd a) (ozd b)) evs) sA fuel start end_ cur
  = pager sA eA fuel WINDOW evs start end_ cur.
Proof.
  induction fuel as [|f IH]; intros start end_ cur; cbn [gpages pager]; [reflexivity|].
  destruct (start <? cur); [|reflexivity]. cbv zeta. rewrite IH. reflexivity.
Qed.

Theorem g_gcsa_fetch_reverse_eq {A} (sA eA : A -> Z) (evs : list A) (fuel : nat) (lo : option Z) (hi : Z) :
  let start := match lo with Some s => s | None => hi - 365 * DAY end in
  hi - start <= Z.of_nat fuel * WINDOW ->
  g_gcsa_fetch_reverse fuel (fun a b => filter (overlaps sA eA (ozd a) (ozd b)) evs) sA lo (Some hi)
  = RDone (pager sA eA fuel WINDOW evs start hi hi).
Proof.
  intros start H. rewrite (g_gcsa_fetch_reverse_pages _ sA fuel lo hi H). rewrite gpages_pager. reflexivity.
Qed.
Print Assumptions g_gcsa_fetch_reverse_eq.

(* HEADLINE: the source text of _fetch_reverse yields each event of the range exactly once, newest
   first, whatever the number of pages *)
Theorem src_fetch_reverse_exactly_once {A} (sA eA : A -> Z) (evs : list A) (fuel : nat) (lo : option Z) (hi : Z) :
  let start := match lo with Some s => s | None => hi - 365 * DAY end in
  start < hi ->
  StronglySorted (fun a b => sA a <= sA b) evs ->
  (forall x, In x evs -> sA x <= eA x) ->
  hi - start <= Z.of_nat fuel * WINDOW ->
  g_gcsa_fetch_reverse fuel (fun a b => filter (overlaps sA eA (ozd a) (ozd b)) evs) sA lo (Some hi)
  = RDone (rev (filter (overlaps sA eA start hi) evs)).
Proof.
  intros start Hlt Hs Hse Hf. rewrite (g_gcsa_fetch_reverse_eq sA eA evs fuel lo hi Hf). f_equal.
  apply GcsaP.pager_exactly_once; try assumption. unfold WINDOW, DAY. lia.
Qed.
Print Assumptions src_fetch_reverse_exactly_once.

(* the stateful model (Model/Gcsa.v fetch_reverse threads the adapter state through the page
   requests and stops at the first one that raises): whenever every page request from a state
   satisfying an invariant succeeds with what the pure fetch [ff] says and keeps the invariant, the
   model's result is the generated one *)
Theorem g_gcsa_fetch_reverse_model (inv : astate -> Prop) (ff : option Z -> option Z -> list aev) :
  (forall a lo hi, inv a -> exists a', fetch_forward a lo hi = (a', Some (ff lo hi)) /\ inv a') ->
  forall (a : astate) (lo : option Z) (hi : Z), inv a ->
    let start := match lo with Some s => s | None => hi - 365 * DAY end in
    match g_gcsa_fetch_reverse (Z.to_nat ((hi - start) / WINDOW + 2)) ff e_s lo (Some hi) with
    | RDone l => snd (fetch_reverse a lo (Some hi)) = Some l
    | _ => False
    end.
Proof.
  intros Hff a lo hi Ha start.
  assert (Hfuel : hi - start <= Z.of_nat (Z.to_nat ((hi - start) / WINDOW + 2)) * WINDOW).
  { unfold WINDOW, DAY. destruct (Z_lt_le_dec (hi - start) 0) as [Hn|Hp].
    - pose proof (Zle_0_nat (Z.to_nat ((hi - start) / (30 * 86400) + 2))). nia.
    - rewrite Z2Nat.id by lia. lia. }
  rewrite (g_gcsa_fetch_reverse_pages ff e_s _ lo hi Hfuel).
  unfold fetch_reverse. fold start.
  generalize (Z.to_nat ((hi - start) / WINDOW + 2)) as fuel. intro fuel.
  assert (HH : forall fuel a cur acc, inv a ->
             snd (rev_pages fuel a start hi cur acc) = Some (acc ++ gpages ff e_s fuel start hi cur)).
  { clear fuel a Ha Hfuel. induction fuel as [|f IH]; intros a cur acc Ha; cbn [rev_pages gpages].
    - rewrite app_nil_r. reflexivity.
    - destruct (start <? cur); [|rewrite app_nil_r; reflexivity].
      cbv zeta. destruct (Hff a (Some (if Z.max start (cur - WINDOW) =? start then Z.max start (cur - WINDOW)
                                          else Z.max start (cur - WINDOW) - 1)) (Some cur) Ha) as [a' [E Ha']].
      rewrite E. rewrite (IH a' _ _ Ha'). rewrite app_assoc. reflexivity. }
  destruct lo as [s|]; rewrite (HH fuel a hi [] Ha); reflexivity.
Qed.
Print Assumptions g_gcsa_fetch_reverse_model.

(* ========================================================================================== *)
(* C. _format_exdate: datetime.fromtimestamp(t, tz=timezone.utc).strftime("%Y%m%dT%H%M%SZ") *)

(* strftime of a UTC datetime with that format = its six civil fields (reading R5) *)
Definition gz_strftime_exdate (x : gdt) : exd :=
  let w := fst x in
  let '(y, m, d) := civil_from_days (w / DAY) in
  let sod := w mod DAY in
  (y, m, d, sod / HOUR, (sod mod HOUR) / 60, sod mod 60).

Definition src_format_exdate (t : Z) : exd :=
  g_gcsa_format_exdate utc_zone gz_fromtimestamp gz_strftime_exdate t.

Theorem g_gcsa_format_exdate_eq (t : Z) : src_format_exdate t = format_exdate t.
Proof.
  unfold src_format_exdate, g_gcsa_format_exdate, g_gcsa_ts_to_dt, gz_fromtimestamp, gz_strftime_exdate,
    format_exdate. cbv zeta. cbn [fst].
  replace (utc_to_wall utc_zone t) with t by (unfold utc_to_wall, offset_at, utc_zone; cbn; lia).
  reflexivity.
Qed.
Print Assumptions g_gcsa_format_exdate_eq.

(* so the EXDATE the source writes denotes the instant it was asked to exclude *)
Corollary src_format_exdate_parses (t : Z) : parse_exd (src_format_exdate t) = t.
Proof. rewrite g_gcsa_format_exdate_eq. apply GcsaP.parse_format_exdate. Qed.

(* ========================================================================================== *)
(* D. _add_exdate_to_rrule on token lines (reading R6): a line is the list of its ';'-separated
   parts, 'EXDATE:' + ','.join(l) is the part TEx l, f"{base};{part}" appends it *)
Definition src_add_exdate (l : list tok) (x : exd) : list tok :=
  g_gcsa_add_exdate_to_rrule parse_exdates exd_eqb TEx (fun base part => base ++ [part]) l x.

Theorem g_gcsa_add_exdate_to_rrule_eq (l : list tok) (x : exd) : src_add_exdate l x = add_exdate l x.
Proof.
  unfold src_add_exdate, g_gcsa_add_exdate_to_rrule, add_exdate, in_exd.
  destruct (parse_exdates l) as [base ex]. cbv zeta.
  destruct (existsb (exd_eqb x) ex); reflexivity.
Qed.
Print Assumptions g_gcsa_add_exdate_to_rrule_eq.
