(* Proofs/GenEq_gcsa2.v — tie C for calgebra/gcsa.py (tag gcsa), part 2: the read path
     E. g_gcsa_to_timestamp (+ g_gcsa_normalize_datetime)   _to_timestamp / _normalize_datetime
          = Model/Gcsa.v pres_ts / date_ts
     F. g_gcsa_is_all_day_event                              _is_all_day_event = is_all_day_event
     G. g_gcsa_fetch_forward                                 Calendar._fetch_forward
          = fetch_forward (convert / convert_all) in every adapter state whose calendar zone is fetched
   and the non-vacuity of the hypothesis of Proofs/GenEq_gcsa.v g_gcsa_fetch_reverse_model.
   The instantiation of the library parameters (what a date / datetime / gcsa Event is taken to be) is
   spelled out below: it is the TRUSTED reading R7-R9 of harness/translate/srcspecs_gcsa.py. *)
From CG Require Import Model.Loop Gen.Source Model.Gcsa.
From CG Require Proofs.GcsaP Proofs.GenEq_gcsa.
From Coq Require Import ZArith List Bool Lia ZifyBool.
Import ListNotations.
Local Open Scope Z_scope.
Ltac Zify.zify_post_hook ::= Z.to_euclidean_division_equations.

Import GenEq_gcsa.

(* ========================================================================================== *)
(* What `e.start` / `e.end` of a gcsa Event can be: None, a date (day number), or a datetime in one
   of the three presentations of Model/Gcsa.v (fixed offset, zoneinfo zone, naive).               *)
Inductive dv := DNone | DDate (d : Z) | DDt (p : pres).

Definition dv_is_none (v : dv) : bool := match v with DNone => true | _ => false end.
(* isinstance(v, date): datetime is a subclass of date *)
Definition dv_is_date (v : dv) : bool := match v with DNone => false | _ => true end.
Definition dv_is_datetime (v : dv) : bool := match v with DDt _ => true | _ => false end.

(* the attribute `date` of such a value: a date has none, a datetime has the bound method date() *)
Inductive pyattr := AttrNone | AttrMethod.
Definition dv_has_date_attr (v : dv) : bool := dv_is_datetime v.
Definition dv_date_attr (v : dv) : pyattr := if dv_is_datetime v then AttrMethod else AttrNone.
Definition attr_is_none (a : pyattr) : bool := match a with AttrNone => true | _ => false end.
Definition attr_callable (a : pyattr) : bool := match a with AttrMethod => true | _ => false end.

Definition p_wall (p : pres) : Z := match p with PFixed w _ => w | PZone _ w _ => w | PNaive w _ => w end.
Definition p_fold (p : pres) : bool := match p with PFixed _ _ => false | PZone _ _ f => f | PNaive _ f => f end.
Definition p_tzinfo (p : pres) : option zone :=
  match p with PFixed _ off => Some (mkZone off []) | PZone z _ _ => Some z | PNaive _ _ => None end.
(* the instant of an aware datetime (for a naive one Python would take the system's zone: never used) *)
Definition p_instant (p : pres) : Z := pres_ts p utc_zone.

Definition dv_tzinfo (v : dv) : option zone := match v with DDt p => p_tzinfo p | _ => None end.
(* x.astimezone(z): the same instant shown in z *)
Definition dv_astimezone (v : dv) (z : zone) : dv :=
  match v with
  | DDt p => let t := p_instant p in DDt (PZone z (utc_to_wall z t) (fold_of z t))
  | _ => v
  end.
(* x.replace(tzinfo=z): same wall clock, same fold *)
Definition dv_replace_tzinfo (v : dv) (z : zone) : dv :=
  match v with DDt p => DDt (PZone z (p_wall p) (p_fold p)) | _ => v end.
(* datetime.combine(d, t, tzinfo=z) *)
Definition dv_combine (v : dv) (t : Z) (z : zone) : dv :=
  match v with DDate d => DDt (PZone z (d * DAY + t) false) | _ => v end.
Definition dv_time (v : dv) : Z := match v with DDt p => p_wall p mod DAY | _ => 0 end.
Definition dv_timestamp (v : dv) : Z := match v with DDt p => p_instant p | _ => 0 end.
(* whole-second datetimes: replace(microsecond=0) changes nothing *)
Definition dv_replace_us (v : dv) (_ : Z) : dv := v.
(* a - b of two datetimes: with the same tzinfo (or both naive) the difference of the wall clocks
   (PEP 495: arithmetic inside one zone ignores offsets and fold), otherwise of the instants *)
Definition dv_sub (a b : dv) : Z :=
  match a, b with
  | DDt pa, DDt pb =>
    match p_tzinfo pa, p_tzinfo pb with
    | Some za, Some zb => if zone_eqb za zb then p_wall pa - p_wall pb else p_instant pa - p_instant pb
    | None, None => p_wall pa - p_wall pb
    | _, _ => 0
    end
  | _, _ => 0
  end.

Lemma zone_eqb_refl z : zone_eqb z z = true.
Proof.
  unfold zone_eqb. rewrite Z.eqb_refl. cbn [andb].
  induction (trans z) as [|[t o] r IH]; [reflexivity|]. rewrite !Z.eqb_refl. exact IH.
Qed.

Lemma utc_wall t : utc_to_wall utc_zone t = t.
Proof. unfold utc_to_wall, offset_at, utc_zone. cbn. lia. Qed.
Lemma utc_back w f : wall_to_utc utc_zone w f = w.
Proof. unfold wall_to_utc, wall_offset, utc_zone. cbn. lia. Qed.

(* ========================================================================================== *)
(* E. _normalize_datetime / _to_timestamp                                                       *)

Definition src_to_timestamp (v : dv) (zone_for : option zone) : Z :=
  g_gcsa_to_timestamp utc_zone 0 dv_is_datetime dv_tzinfo dv_combine dv_replace_tzinfo dv_astimezone
    dv_replace_us dv_timestamp v zone_for.

Theorem g_gcsa_to_timestamp_datetime (p : pres) (zf : option zone) :
  src_to_timestamp (DDt p) zf = pres_ts p (tz_or_utc zf).
Proof.
  unfold src_to_timestamp, g_gcsa_to_timestamp, g_gcsa_normalize_datetime, tz_or_utc. cbv zeta.
  set (z := match zf with Some z => z | None => utc_zone end).
  destruct p as [w off|z' w f|w f];
    cbn [dv_is_datetime negb dv_tzinfo p_tzinfo is_none dv_replace_tzinfo dv_astimezone dv_replace_us
         dv_timestamp p_instant pres_ts p_wall p_fold];
    rewrite utc_back, utc_wall; reflexivity.
Qed.
Print Assumptions g_gcsa_to_timestamp_datetime.

Theorem g_gcsa_to_timestamp_date (d : Z) (zf : option zone) :
  src_to_timestamp (DDate d) zf = date_ts (tz_or_utc zf) d.
Proof.
  unfold src_to_timestamp, g_gcsa_to_timestamp, g_gcsa_normalize_datetime, tz_or_utc, date_ts. cbv zeta.
  set (z := match zf with Some z => z | None => utc_zone end).
  cbn [dv_is_datetime negb dv_combine dv_astimezone dv_replace_us dv_timestamp p_instant pres_ts].
  rewrite utc_back, utc_wall. f_equal. lia.
Qed.
Print Assumptions g_gcsa_to_timestamp_date.

(* ========================================================================================== *)
(* F. _is_all_day_event                                                                         *)

(* a gcsa Event = the model's bev *)
Definition gev_start (e : bev) : dv :=
  match b_time e with BTimed ps _ => DDt ps | BDate d0 _ => DDate d0 end.
Definition gev_end (e : bev) : dv :=
  match b_time e with BTimed _ (Some pe) => DDt pe | BDate _ (Some d1) => DDate d1 | _ => DNone end.

Definition src_is_all_day_event (e : bev) : bool :=
  g_gcsa_is_all_day_event (TZNAME := zone) utc_zone (fun z => z) gev_start gev_end b_tz (fun v => v)
    dv_is_date dv_is_datetime dv_has_date_attr dv_date_attr attr_is_none attr_callable
    dv_tzinfo dv_astimezone dv_replace_tzinfo dv_time 0 gz_neb dv_sub gz_td_days gz_of_days gz_of_hours
    Z.sub Z.leb e.

(* wall clock in the event's zone, as the source computes it *)
Lemma local_wall (p : pres) (etz : zone) :
  match dv_tzinfo (DDt p) with
  | Some _ => dv_astimezone (DDt p) etz
  | None => dv_replace_tzinfo (DDt p) etz
  end = DDt (PZone etz (pres_local p etz)
                   (match p with PNaive _ f => f | _ => fold_of etz (p_instant p) end)).
Proof. destruct p; reflexivity. Qed.

Theorem g_gcsa_is_all_day_event_eq (e : bev) : src_is_all_day_event e = is_all_day_event e.
Proof.
  unfold src_is_all_day_event, g_gcsa_is_all_day_event, is_all_day_event, gev_start, gev_end. cbv zeta.
  destruct (b_time e) as [ps [pe|]|d0 [d1|]];
    cbn [dv_is_date dv_is_datetime dv_has_date_attr dv_date_attr attr_is_none attr_callable negb andb]; try reflexivity.
  rewrite !local_wall. unfold tz_or_utc.
  set (etz := match b_tz e with Some z => z | None => utc_zone end).
  cbn [dv_time dv_sub p_tzinfo p_wall]. rewrite zone_eqb_refl.
  unfold gz_neb, gz_td_days, gz_of_days, gz_of_hours.
  destruct (pres_local ps etz mod DAY =? 0); cbn [negb]; [|reflexivity].
  rewrite Z.geb_leb.
  destruct (1 <=? (pres_local pe etz - pres_local ps etz) / DAY); cbn [andb]; [|reflexivity].
  rewrite Z.mul_1_l. destruct (_ <=? HOUR); reflexivity.
Qed.
Print Assumptions g_gcsa_is_all_day_event_eq.

(* ========================================================================================== *)
(* G. Calendar._fetch_forward                                                                   *)

Definition mk_aev (oid : option eid) (_ _ : unit) (osm : option N) (desc : option N) (rid : option N)
           (ad : bool) (rems : option (list reminder)) (s e : Z) : aev :=
  mkE (match oid with Some i => i | None => EId 0 end) (match osm with Some n => n | None => 0%N end)
      desc rid ad rems s e.

(* the generated _fetch_forward against the simulated backend [b], with the calendar zone [ctz]
   (what self._calendar_timezone returns once fetched) *)
Definition src_fetch_forward (b : bstate) (ctz : option zone) (lo hi : option Z) : list aev :=
  g_gcsa_fetch_forward (TZNAME := zone) (DT := gdt)
    utc_zone (fun z => z) gev_start gev_end b_tz (fun v => v)
    dv_is_date dv_is_datetime dv_has_date_attr dv_date_attr attr_is_none attr_callable
    dv_tzinfo dv_astimezone dv_replace_tzinfo dv_time 0 gz_neb dv_sub gz_td_days gz_of_days gz_of_hours
    Z.sub Z.leb
    dv_combine dv_replace_us dv_timestamp dv_is_none utc_zone gz_fromtimestamp
    (fun lo' hi' => get_events b (option_map fst lo') (option_map fst hi'))
    b_id b_sum b_desc b_rid extract_reminders mk_aev tt tt ctz lo hi.

(* the pure conversion of one event when the calendar zone is known *)
Definition conv1 (ctz : option zone) (e : bev) : option aev :=
  match b_id e, b_sum e, has_end e with
  | Some id, Some sm, true =>
    let etz := tz_or_utc (b_tz e) in
    let ad := is_all_day_event e in
    let zf := if ad then (match ctz with Some z => z | None => etz end) else etz in
    let '(s, en) := match b_time e with
                    | BTimed ps (Some pe) => (pres_ts ps zf, pres_ts pe zf)
                    | BDate d0 (Some d1) => (date_ts zf d0, date_ts zf d1)
                    | _ => (0, 0)
                    end in
    Some (mkE id sm (b_desc e) (b_rid e) ad (extract_reminders e) s en)
  | _, _, _ => None
  end.

Lemma convert_fetched (a : astate) (ctz : option zone) (e : bev) :
  a_tz a = Some ctz -> convert a e = (a, Some (conv1 ctz e)).
Proof.
  intros Htz. unfold convert, conv1, cal_tz. rewrite Htz.
  destruct (b_id e) as [id|]; [|reflexivity].
  destruct (b_sum e) as [sm|]; [|reflexivity].
  destruct (has_end e); [|reflexivity].
  destruct (is_all_day_event e); cbv zeta; cbn [tz_or_utc].
  - destruct (b_time e) as [ps [pe|]|d0 [d1|]]; reflexivity.
  - destruct (b_time e) as [ps [pe|]|d0 [d1|]]; reflexivity.
Qed.

Definition olist {A} (o : option A) : list A := match o with Some x => [x] | None => [] end.

Lemma convert_all_fetched (a : astate) (ctz : option zone) : a_tz a = Some ctz ->
  forall l acc, convert_all a l acc = (a, Some (rev acc ++ flat_map (fun e => olist (conv1 ctz e)) l)).
Proof.
  intros Htz. induction l as [|e r IH]; intros acc; cbn [convert_all flat_map].
  - rewrite app_nil_r. reflexivity.
  - rewrite (convert_fetched a ctz e Htz). destruct (conv1 ctz e) as [x|]; rewrite IH; cbn [olist rev app].
    + rewrite <- app_assoc. reflexivity.
    + reflexivity.
Qed.

Lemma run_for_flat {A B} (f : A -> list B) (body : unit -> A -> list B * unit * ctl) :
  (forall x, body tt x = (f x, tt, Cont)) ->
  forall l, run_for body (fun _ => []) tt l = flat_map f l.
Proof.
  intros H. induction l as [|x r IH]; cbn [run_for flat_map]; [reflexivity|].
  rewrite H. rewrite IH. reflexivity.
Qed.

(* one iteration of the generated loop body = the pure conversion *)
Lemma has_end_gev e : has_end e = negb (dv_is_none (gev_end e)).
Proof. unfold has_end, gev_end. destruct (b_time e) as [ps [pe|]|d0 [d1|]]; reflexivity. Qed.

Theorem g_gcsa_fetch_forward_list (b : bstate) (ctz : option zone) (lo hi : option Z) :
  src_fetch_forward b ctz lo hi = flat_map (fun e => olist (conv1 ctz e)) (get_events b lo hi).
Proof.
  unfold src_fetch_forward, g_gcsa_fetch_forward. cbv zeta.
  assert (Hb : forall o : option Z,
             option_map fst (match o with Some s => Some (g_gcsa_ts_to_dt utc_zone gz_fromtimestamp s) | None => None end) = o).
  { intros [s|]; [|reflexivity]. unfold g_gcsa_ts_to_dt, gz_fromtimestamp. cbn [option_map fst]. rewrite utc_wall. reflexivity. }
  rewrite !Hb.
  apply run_for_flat. intros e.
  fold (src_is_all_day_event e). rewrite g_gcsa_is_all_day_event_eq.
  fold (src_to_timestamp (gev_start e)). fold (src_to_timestamp (gev_end e)).
  unfold conv1. rewrite has_end_gev.
  destruct (b_id e) as [id|]; cbn [is_none orb]; [|reflexivity].
  destruct (b_sum e) as [sm|]; cbn [is_none orb]; [|reflexivity].
  destruct (dv_is_none (gev_end e)) eqn:En; cbn [negb]; [reflexivity|].
  cbn [app olist]. f_equal. f_equal.
  unfold mk_aev. unfold tz_or_utc.
  set (etz := match b_tz e with Some z => z | None => utc_zone end).
  assert (Hz : (if is_all_day_event e
                then match ctz with
                     | Some p => p
                     | None => match b_tz e with Some _ => etz | None => utc_zone end
                     end
                else etz)
               = (if is_all_day_event e then match ctz with Some z => z | None => etz end else etz)).
  { destruct (is_all_day_event e); [|reflexivity]. destruct ctz; [reflexivity|].
    unfold etz. destruct (b_tz e); reflexivity. }
  rewrite Hz. set (zf := if is_all_day_event e then _ else etz).
  unfold gev_start, gev_end in *.
  destruct (b_time e) as [ps [pe|]|d0 [d1|]]; cbn [dv_is_none] in En; try discriminate.
  - rewrite !g_gcsa_to_timestamp_datetime. reflexivity.
  - rewrite !g_gcsa_to_timestamp_date. reflexivity.
Qed.
Print Assumptions g_gcsa_fetch_forward_list.

(* HEADLINE G: in every adapter state whose calendar zone has been fetched, the model's
   _fetch_forward is the generated one (one backend call; an exception iff that call fails) *)
Theorem g_gcsa_fetch_forward_eq (a : astate) (ctz : option zone) (lo hi : option Z) :
  a_tz a = Some ctz ->
  let b' := fst (tick (a_b a)) in
  fetch_forward a lo hi =
  (mkA b' (a_tz a), if snd (tick (a_b a)) then Some (src_fetch_forward b' ctz lo hi) else None).
Proof.
  intros Htz b'. unfold fetch_forward. destruct (tick (a_b a)) as [b1 ok] eqn:Et. subst b'. cbn [fst snd].
  destruct ok; [|reflexivity].
  rewrite (convert_all_fetched (mkA b1 (a_tz a)) ctz Htz). cbn [rev app].
  rewrite g_gcsa_fetch_forward_list. reflexivity.
Qed.
Print Assumptions g_gcsa_fetch_forward_eq.

(* the hypothesis is satisfiable, and the generated loop converts a timed and an all-day event of a
   Los Angeles calendar (and skips the one without a summary) *)
Example fetch_forward_example :
  let la := mkZone (-28800) [(1710064800, -25200); (1730624400, -28800)] in
  let timed := mkSev (Some 1%N) (Some 7%N) None (Some utc_zone) [] true false 1718000000 (Some 1718003600) KFixed None in
  let allday := mkSev (Some 2%N) (Some 8%N) None None [] true true 19889 (Some 19890) KZone None in
  let nosum := mkSev (Some 3%N) None None None [] true false 1718000000 (Some 1718003600) KZone None in
  let a := mkA (mkBS la [timed; allday; nosum] 4%N 0 []) (Some (Some la)) in
  a_tz a = Some (Some la) /\
  snd (fetch_forward a None None)
  = Some (src_fetch_forward (fst (tick (a_b a))) (Some la) None None) /\
  map (fun x => (e_id x, e_s x, e_e x, e_allday x)) (src_fetch_forward (fst (tick (a_b a))) (Some la) None None)
  = [(EId 1%N, 1718000000, 1718003600, false); (EId 2%N, 19889 * 86400 + 25200, 19890 * 86400 + 25200, true)].
Proof. vm_compute. repeat split; reflexivity. Qed.

(* ========================================================================================== *)
(* The hypothesis of GenEq_gcsa.g_gcsa_fetch_reverse_model is satisfiable: with the calendar zone
   fetched and no failure scheduled, every page request succeeds with what the generated
   _fetch_forward says, whatever the number of calls made so far.                              *)
Definition quiet (z : zone) (st : list sev) (ctz : option zone) (a : astate) : Prop :=
  a_tz a = Some ctz /\ bs_fail (a_b a) = [] /\ bs_zone (a_b a) = z /\ bs_store (a_b a) = st.

Lemma get_events_indep (b1 b2 : bstate) lo hi :
  bs_zone b1 = bs_zone b2 -> bs_store b1 = bs_store b2 -> get_events b1 lo hi = get_events b2 lo hi.
Proof.
  destruct b1 as [z1 s1 n1 c1 f1], b2 as [z2 s2 n2 c2 f2]. cbn [bs_zone bs_store]. intros -> ->. reflexivity.
Qed.

Theorem quiet_pages (z : zone) (st : list sev) (ctz : option zone) :
  forall a lo hi, quiet z st ctz a ->
    exists a', fetch_forward a lo hi = (a', Some (src_fetch_forward (mkBS z st 0 0 []) ctz lo hi)) /\ quiet z st ctz a'.
Proof.
  intros a lo hi (Htz & Hf & Hz & Hs).
  eexists. split.
  - rewrite (g_gcsa_fetch_forward_eq a ctz lo hi Htz). unfold tick. rewrite Hf. cbn [existsb negb fst snd].
    f_equal. f_equal. rewrite !g_gcsa_fetch_forward_list.
    rewrite (get_events_indep _ (mkBS z st 0 0 []) lo hi); [reflexivity| |]; cbn [bs_zone bs_store]; assumption.
  - unfold quiet, tick. cbn [fst a_tz a_b bs_fail bs_zone bs_store]. repeat split; assumption.
Qed.

(* so: on such a state the model's reverse fetch is the generated reverse loop over the generated
   forward fetch — Calendar._fetch_reverse and Calendar._fetch_forward as the source text has them *)
Corollary src_fetch_reverse_is_model (z : zone) (st : list sev) (ctz : option zone) (a : astate) (lo : option Z) (hi : Z) :
  quiet z st ctz a ->
  let start := match lo with Some s => s | None => hi - 365 * DAY end in
  match g_gcsa_fetch_reverse (Z.to_nat ((hi - start) / WINDOW + 2))
          (src_fetch_forward (mkBS z st 0 0 []) ctz) e_s lo (Some hi) with
  | RDone l => snd (fetch_reverse a lo (Some hi)) = Some l
  | _ => False
  end.
Proof.
  intros Hq. exact (g_gcsa_fetch_reverse_model (quiet z st ctz) _ (quiet_pages z st ctz) a lo hi Hq).
Qed.
Print Assumptions src_fetch_reverse_is_model.

Example quiet_example :
  let la := mkZone (-28800) [(1710064800, -25200); (1730624400, -28800)] in
  let ev := mkSev (Some 1%N) (Some 7%N) None (Some utc_zone) [] true false 1718000000 (Some 1718003600) KFixed None in
  let a := mkA (mkBS la [ev] 2%N 5 []) (Some (Some la)) in
  quiet la [ev] (Some la) a /\
  g_gcsa_fetch_reverse 5 (src_fetch_forward (mkBS la [ev] 0 0 []) (Some la)) e_s (Some 1717000000) (Some 1719000000)
  = RDone [mkE (EId 1%N) 7%N None None false None 1718000000 1718003600] /\
  snd (fetch_reverse a (Some 1717000000) (Some 1719000000))
  = Some [mkE (EId 1%N) 7%N None None false None 1718000000 1718003600].
Proof. cbv zeta. split; [repeat split|]. vm_compute. split; reflexivity. Qed.
