(* Proofs/GenEq8.v — tie C for calgebra/cache.py, second part: the definitions generated from the
   source text of CachedTimeline._stitch_at, _fill_gap (whole), _fetch_sink and fetch (Gen/Source.v)
   equal the model functions of Model/Cache.v (stitch_at, fill_gap, fetch_static, cquery) the
   C09 / C10 theorems are stated about.  KEY := N, self._get_key := key_of, `==` on keys := N.eqb;
   the model's [masked] is `self._key_fields is None`. *)
From CG Require Import Model.Loop Gen.Source Model.Cache Proofs.Defs Proofs.CacheInv Proofs.CacheInv2 Proofs.GenEq3.
From Coq Require Import Lia Permutation.

(* ------------------------------------------------------------------------------------------ *)
(* dictionaries of Model/Loop.v against by_key / lookup_key of Model/Cache.v *)

Notation keq := (opt_eqb N.eqb).
Notation dflt_ivl := (mkI None None Plain).

Lemma keq_okey k k' : keq k k' = okey_eqb k k'.
Proof. reflexivity. Qed.

Lemma keq_true_iff k k' : keq k k' = true <-> k = k'.
Proof.
  destruct k as [x|], k' as [y|]; cbn [opt_eqb]; split; intro H; try discriminate; try reflexivity.
  - apply N.eqb_eq in H. subst. reflexivity.
  - inversion H. apply N.eqb_refl.
Qed.

(* the local `upd` of by_key is dict_set *)
Lemma by_key_dict_set i r acc :
  by_key (i :: r) acc = by_key r (dict_set keq (key_of i) i acc).
Proof.
  cbn [by_key]. f_equal.
  induction acc as [|[k' j] a IH]; [reflexivity|].
  cbn [dict_set]. unfold opt_eqb at 1. rewrite <- IH. reflexivity.
Qed.

Lemma dict_of_by_key_acc l : forall acc,
  fold_left (fun d x => dict_set keq (key_of x) x d) l acc = by_key l acc.
Proof.
  induction l as [|i r IH]; intro acc; [reflexivity|].
  rewrite by_key_dict_set. cbn [fold_left]. apply IH.
Qed.

Lemma dict_of_by_key l : dict_of keq (fun i => key_of i) (fun i => i) l = by_key l [].
Proof. unfold dict_of. apply dict_of_by_key_acc. Qed.

(* d.get / `in` against lookup_key *)
Lemma lookup_key_dict k d :
  lookup_key k d = if dict_has keq k d then Some (dict_get keq dflt_ivl k d) else None.
Proof.
  induction d as [|[k' j] r IH]; [reflexivity|].
  cbn [lookup_key dict_has existsb dict_get fst]. rewrite <- keq_okey.
  destruct (keq k k'); [reflexivity|]. cbn [orb]. exact IH.
Qed.

(* the keys of a dict built by assignments from {} are pairwise different *)
Lemma dict_set_keys_in k (v : ivl) d k0 :
  In k0 (map fst (dict_set keq k v d)) -> k0 = k \/ In k0 (map fst d).
Proof.
  induction d as [|[k' j] r IH]; cbn [dict_set map fst In].
  - intros [H|[]]. left. symmetry. exact H.
  - destruct (keq k k'); cbn [map fst In]; [intros [H|H]; right; [left|right]; assumption|].
    intros [H|H]; [right; left; exact H|].
    destruct (IH H) as [E|E]; [left; exact E|right; right; exact E].
Qed.

Lemma dict_set_nodup k (v : ivl) d :
  NoDup (map fst d) -> NoDup (map fst (dict_set keq k v d)).
Proof.
  induction d as [|[k' j] r IH]; cbn [dict_set map fst]; intro H.
  - constructor; [intros []|constructor].
  - destruct (keq k k') eqn:E; cbn [map fst]; [exact H|].
    inversion H as [|? ? Hn Hr]; subst. constructor; [|apply IH; exact Hr].
    intro Hin. apply dict_set_keys_in in Hin as [Hk|Hk]; [|exact (Hn Hk)].
    subst k'. assert (keq k k = true) by (apply keq_true_iff; reflexivity). congruence.
Qed.

Lemma by_key_keys_nodup l : forall acc, NoDup (map fst acc) -> NoDup (map fst (by_key l acc)).
Proof.
  induction l as [|i r IH]; intros acc H; [exact H|].
  rewrite by_key_dict_set. apply IH, dict_set_nodup, H.
Qed.

(* in a dict with pairwise different keys, d[k] is the value stored with k *)
Lemma dict_get_in d : NoDup (map fst d) ->
  forall k (l : ivl), In (k, l) d -> dict_get keq dflt_ivl k d = l.
Proof.
  induction d as [|[k' j] r IH]; intros Hn k l Hin; [destruct Hin|].
  cbn [map fst] in Hn. inversion Hn as [|? ? Hk Hr]; subst.
  cbn [dict_get]. destruct Hin as [E|Hin].
  - inversion E; subst. replace (keq k k) with true; [reflexivity|].
    symmetry. apply keq_true_iff. reflexivity.
  - destruct (keq k k') eqn:E; [|apply IH; assumption].
    apply keq_true_iff in E. subst k'. exfalso. apply Hk.
    change k with (fst (k, l)). apply in_map. exact Hin.
Qed.

(* `for key in left_by_key.keys() & right_by_key.keys(): if key is None: continue ...` against the
   model's fold over the items of left_by_key *)
Lemma stitch_fold (H : ivl -> ivl -> list ivl -> list ivl) lk rk :
  forall d sk,
  (forall k l, In (k, l) d -> dict_get keq dflt_ivl k lk = l) ->
  fold_left (fun sk0 (k : option N) =>
               if is_none k then sk0
               else H (dict_get keq dflt_ivl k lk) (dict_get keq dflt_ivl k rk) sk0)
            (filter (fun k => dict_has keq k rk) (map fst d)) sk =
  fold_left (fun sk0 (kl : option N * ivl) =>
               let '(k, l) := kl in
               match k with
               | None => sk0
               | Some _ => match lookup_key k rk with None => sk0 | Some r => H l r sk0 end
               end) d sk.
Proof.
  induction d as [|[k l] r IH]; intros sk Hd; [reflexivity|].
  cbn [map fst filter fold_left]. rewrite lookup_key_dict.
  assert (Hr : forall k0 l0, In (k0, l0) r -> dict_get keq dflt_ivl k0 lk = l0).
  { intros k0 l0 Hin. apply Hd. right. exact Hin. }
  destruct (dict_has keq k rk).
  - cbn [fold_left]. rewrite (Hd k l (or_introl eq_refl)).
    destruct k; cbn [is_none]; apply IH; exact Hr.
  - destruct k; apply IH; exact Hr.
Qed.

(* ------------------------------------------------------------------------------------------ *)
(* 1. _stitch_at *)
Theorem g_cache_stitch_at_eq {KEYS : Type} (kf : option KEYS) fl sk p :
  g_cache_stitch_at kf key_of N.eqb fl sk p = stitch_at (is_none kf) p fl sk.
Proof.
  unfold g_cache_stitch_at, stitch_at. cbv zeta.
  destruct (is_none kf); [reflexivity|].
  set (left_ := filter _ (sink_overlapping sk (p - 1))).
  set (right_ := filter _ (sink_overlapping sk p)).
  rewrite !dict_of_by_key.
  destruct left_ as [|l0 lr] eqn:El; [reflexivity|].
  destruct right_ as [|r0 rr] eqn:Er; [reflexivity|].
  cbn [nonempty negb orb]. rewrite <- El, <- Er.
  set (H := fun l r sk0 =>
              sl_add (mkI (st l) (en r) (pl (if fl then l else r))) (sl_remove r (sl_remove l sk0))).
  rewrite iter_for_fold with
      (f := fun sk0 (k : option N) =>
              if is_none k then sk0
              else H (dict_get keq dflt_ivl k (by_key left_ [])) (dict_get keq dflt_ivl k (by_key right_ [])) sk0).
  2:{ intros sk0 k. destruct (is_none k); reflexivity. }
  unfold keys_inter. rewrite stitch_fold.
  - reflexivity.
  - apply dict_get_in. apply by_key_keys_nodup. constructor.
Qed.
Print Assumptions g_cache_stitch_at_eq.

(* ------------------------------------------------------------------------------------------ *)
(* a loop whose body always falls through simulates a fold of a model step along a relation *)
Lemma iter_for_sim {S A R T : Type} (body : S -> A -> step S R) (post : S -> R)
      (mf : T -> A -> T) (Rel : S -> T -> Prop) (P : A -> Prop) :
  (forall s t x, Rel s t -> P x -> exists s', body s x = SCont s' /\ Rel s' (mf t x)) ->
  forall xs s t, Forall P xs -> Rel s t ->
  exists s', iter_for body post s xs = post s' /\ Rel s' (fold_left mf xs t).
Proof.
  intros Hb. induction xs as [|x r IH]; intros s t HP HR; cbn [iter_for fold_left].
  - exists s. split; [reflexivity|exact HR].
  - inversion HP as [|? ? Px Pr]; subst.
    destruct (Hb s t x HR Px) as (s' & -> & HR'). apply IH; assumption.
Qed.

(* ------------------------------------------------------------------------------------------ *)
(* 2. _fill_gap *)
Lemma N_plus_Z_1 n : N_plus_Z n 1 = N.succ n.
Proof. unfold N_plus_Z. lia. Qed.

(* self._key_validated after _fill_gap has looked at the fetched events *)
Definition kv_after {KEYS : Type} (kf : option KEYS) (kv : bool) (evs : list ivl) : bool :=
  kv || (negb (is_none kf) && nonempty evs).

Theorem g_cache_fill_gap_eq {KEYS : Type} (kf : option KEYS) src ttl tick s kv gs ge :
  g_cache_fill_gap kf key_of N.eqb src ttl (now s) (sink s) kv (cover s) (hseq s) (heap s) gs ge =
  let evs := src (Some gs) (Some ge) false in
  let s' := fill_gap (is_none kf) ttl tick evs gs ge s in
  (sink s', kv_after kf kv evs, cover s', hseq s', heap s').
Proof.
  unfold g_cache_fill_gap. cbv zeta.
  match goal with |- iter_for ?body ?post _ _ = _ =>
    destruct (iter_for_sim body post
                (fun (t : list ivl * bool) i =>
                   (match clip_to_gap gs ge i with Some j => sl_add j (fst t) | None => fst t end,
                    kv_after kf (snd t) [i]))
                (fun s t => s = t) (fun _ => True)) with (xs := src (Some gs) (Some ge) false)
                (s := (sink s, kv)) (t := (sink s, kv)) as (s' & -> & ->)
  end.
  - intros [sk0 kv0] t [s0 e0 p0] <- _. cbv zeta. unfold clip_to_gap, set_span, kv_after.
    cbn [st en pl fst snd nonempty andb].
    assert (Hkv : (if negb kv0 && negb (is_none kf) then true else kv0) = kv0 || (negb (is_none kf) && true)).
    { destruct kv0, (is_none kf); reflexivity. }
    rewrite Hkv. clear Hkv.
    destruct s0 as [x|], e0 as [y|]; cbn [is_none ozd negb orb andb];
      repeat match goal with
             | |- context [?x <? gs] => destruct (x <? gs) eqn:?
             | |- context [?y >? ge] => destruct (y >? ge) eqn:?
             end; cbn [is_none ozd negb orb andb];
      match goal with
      | |- context [?a >=? ?b] => destruct (a >=? b) eqn:?
      end; cbn [oZ_eqb]; rewrite ?Z.eqb_refl; cbn [negb orb];
      repeat match goal with
             | |- context [if negb (?a =? ?b) then _ else _] => destruct (a =? b) eqn:?; cbn [negb orb]
             | |- context [if negb (?a =? ?b) || _ then _ else _] => destruct (a =? b) eqn:?; cbn [negb orb]
             end;
      repeat match goal with
             | H : (_ =? _) = true |- _ => apply Z.eqb_eq in H; subst
             end;
      eexists; split; reflexivity.
  - apply Forall_forall. intros; exact I.
  - reflexivity.
  - set (evs := src (Some gs) (Some ge) false).
    assert (Hf : forall l sk0 kv0,
               fold_left (fun (t : list ivl * bool) i =>
                            (match clip_to_gap gs ge i with Some j => sl_add j (fst t) | None => fst t end,
                             kv_after kf (snd t) [i])) l (sk0, kv0) =
               (fold_left (fun sk i => match clip_to_gap gs ge i with Some j => sl_add j sk | None => sk end) l sk0,
                kv_after kf kv0 l)).
    { induction l as [|i r IH]; intros sk0 kv0; cbn [fold_left fst snd].
      - unfold kv_after. cbn [nonempty]. rewrite andb_false_r, orb_false_r. reflexivity.
      - rewrite IH. f_equal. unfold kv_after. cbn [nonempty].
        destruct kv0, (is_none kf), r; reflexivity. }
    rewrite Hf. cbv beta iota.
    rewrite N_plus_Z_1, !g_cache_stitch_at_eq. reflexivity.
Qed.
Print Assumptions g_cache_fill_gap_eq.

(* the form asked of a caller: the four state components, and the clock the caller advances *)
Corollary g_cache_fill_gap_state {KEYS : Type} (kf : option KEYS) src ttl tick s kv gs ge :
  let '(sk', kv', cv', sq', hp') :=
      g_cache_fill_gap kf key_of N.eqb src ttl (now s) (sink s) kv (cover s) (hseq s) (heap s) gs ge in
  let s' := fill_gap (is_none kf) ttl tick (src (Some gs) (Some ge) false) gs ge s in
  sk' = sink s' /\ cv' = cover s' /\ sq' = hseq s' /\ hp' = heap s' /\ now s + tick = now s'.
Proof. rewrite (g_cache_fill_gap_eq kf src ttl tick). cbv zeta. repeat split. Qed.

(* ------------------------------------------------------------------------------------------ *)
(* 3. _fetch_sink *)
Theorem g_cache_fetch_sink_eq sk a b rv : g_cache_fetch_sink sk a b rv = fetch_static sk (Some a) (Some b) rv.
Proof. reflexivity. Qed.

(* ------------------------------------------------------------------------------------------ *)
(* 4. fetch *)

(* the generated text reads gap.start / gap.end (cast(int, ..)) where the model uses finite_start /
   finite_end: they agree on a gap with both bounds present *)
Definition gap_bounded (g : ivl) : Prop := st g <> None /\ en g <> None.

Lemma gap_bounded_bounds g : gap_bounded g -> ozd (st g) = fstart g /\ ozd (en g) = fend g.
Proof. unfold gap_bounded, fstart, fend. destruct (st g), (en g); intros [? ?]; try tauto; split; reflexivity. Qed.

Lemma unS_some z : NEG_INF < z -> unS z = Some z.
Proof. intro H. unfold unS. destruct (z =? NEG_INF) eqn:E; [lia|reflexivity]. Qed.
Lemma unE_some z : z <> POS_INF -> unE z = Some z.
Proof. intro H. unfold unE. destruct (z =? POS_INF) eqn:E; [lia|reflexivity]. Qed.

Lemma dfinal_ok ev c ee : NEG_INF < c -> ee <> POS_INF -> forall g, In g (dfinal ev c ee) -> gap_bounded g.
Proof.
  intros Hc He g. unfold dfinal. destruct (c <? ee); [|intros []].
  intros [<-|[]]. unfold gap_bounded, set_span. cbn [st en]. rewrite unS_some, unE_some by assumption.
  split; discriminate.
Qed.

Lemma dpre_ok ev c os : NEG_INF < c ->
  forall g, In g (if c <? os then [set_span ev (unS c) (unS os)] else []) -> gap_bounded g.
Proof.
  intros Hc g. destruct (c <? os) eqn:E; [|intros []].
  intros [<-|[]]. unfold gap_bounded, set_span. cbn [st en]. rewrite !unS_some by lia. split; discriminate.
Qed.

Lemma dcarve_ok ev ee : ee <> POS_INF ->
  forall subs c, NEG_INF < c -> forall g, In g (fst (dcarve ev c ee subs)) -> gap_bounded g.
Proof.
  intros He. induction subs as [|s r IH]; intros c Hc g; cbn [dcarve fst].
  - apply dfinal_ok; assumption.
  - cbv zeta. destruct (fstart s <=? ee); [|apply dfinal_ok; assumption].
    destruct (Z.max c (fstart s) <? Z.min ee (fend s)) eqn:Eo.
    + assert (Hoe : NEG_INF < Z.min ee (fend s)) by lia.
      destruct (Z.min ee (fend s) >=? ee).
      * cbn [fst]. intro Hin. apply in_app_or in Hin as [Hin|Hin];
          [eapply dpre_ok; [exact Hc|exact Hin]|eapply dfinal_ok; [exact Hoe|exact He|exact Hin]].
      * destruct (fend s <=? ee).
        -- specialize (IH _ Hoe g). destruct (dcarve ev (Z.min ee (fend s)) ee r) as [o l].
           cbn [fst] in *. intro Hin. apply in_app_or in Hin as [Hin|Hin];
             [eapply dpre_ok; [exact Hc|exact Hin]|exact (IH Hin)].
        -- cbn [fst]. intro Hin. apply in_app_or in Hin as [Hin|Hin];
             [eapply dpre_ok; [exact Hc|exact Hin]|eapply dfinal_ok; [exact Hoe|exact He|exact Hin]].
    + destruct (fend s <=? ee); [apply IH; assumption|apply dfinal_ok; assumption].
Qed.

Lemma gaps_of_bounded cv a b : NEG_INF < a -> b <> POS_INF -> Forall gap_bounded (gaps_of cv a b).
Proof.
  intros Ha Hb. apply Forall_forall. intro g. unfold gaps_of, diff_sweep.
  generalize (merge_by lt_fwd [fetch_static (map cov_ivl cv) (Some a) (Some b) false]). intro subs.
  assert (Hw : gap_bounded (mkI (Some a) (Some b) Plain)) by (split; discriminate).
  cbn [dsweep]. destruct subs as [|s0 sr]; [intros [<-|[]]; exact Hw|].
  destruct (dskip _ (s0 :: sr)) as [|s1 r1]; [intros [<-|[]]; exact Hw|].
  pose proof (dcarve_ok (mkI (Some a) (Some b) Plain) b Hb (s1 :: r1) a Ha g) as H.
  change (fstart (mkI (Some a) (Some b) Plain)) with a.
  change (fend (mkI (Some a) (Some b) Plain)) with b.
  destruct (dcarve _ a b (s1 :: r1)) as [o l]. cbn [fst] in H. rewrite app_nil_r. exact H.
Qed.

(* unbounded queries raise *)
Lemma g_cache_fetch_unbounded {KEYS KEY : Type} fuel (kf : option KEYS) (gk : ivl -> option KEY) keqb src ttl tick
      t sk kv cv sq hp a b rv :
  a = None \/ b = None ->
  g_cache_fetch fuel kf gk keqb src ttl tick t sk kv cv sq hp a b rv = RRaise ValueError.
Proof. intros [->| ->]; unfold g_cache_fetch; [reflexivity|]. destruct a; reflexivity. Qed.

(* self._key_validated after the query: set by the first non-empty answer of the source *)
Definition kv_after_log {KEYS : Type} (kf : option KEYS) (src : Z -> Z -> list ivl) (kv : bool)
           (log : list (Z * Z * Z)) : bool :=
  kv || (negb (is_none kf) && existsb (fun e => nonempty (src (snd (fst e)) (snd e))) log).

(* CachedTimeline.fetch(a, b, reverse=rv), generated from the source text, on the state s computes
   the model's cquery: same clock, sink, cover, sequence number, heap and result.  Weakest form of
   the condition on the window: every gap of the query (after eviction) carries both bounds. *)
Theorem g_cache_fetch_eq_gaps {KEYS : Type} (kf : option KEYS) src ttl tick s kv a b rv fuel :
  Forall gap_bounded (gaps_of (snd (fst (evict_go (now s) (heap s) (cover s) (sink s)))) a b) ->
  (length (heap s) <= fuel)%nat ->
  Permutation (map h_cov (heap s)) (cover s) ->
  g_cache_fetch fuel kf key_of N.eqb (fun x y _ => src (ozd x) (ozd y)) ttl tick
                (now s) (sink s) kv (cover s) (hseq s) (heap s) (Some a) (Some b) rv =
  let '(s', out, log) := cquery (is_none kf) ttl tick src s a b rv in
  RDone (now s', sink s', kv_after_log kf src kv log, cover s', hseq s', heap s', out).
Proof.
  intros Hgaps Hfuel Hperm. unfold g_cache_fetch, cquery. cbv zeta. cbn [is_none orb].
  rewrite g_cache_evict_expired_eq by assumption. revert Hgaps.
  destruct (evict_go (now s) (heap s) (cover s) (sink s)) as [[h1 cv1] sk1].
  cbn [res_bind ozd fst snd]. intro Hgaps.
  match goal with |- iter_for ?body ?post _ _ = _ =>
    destruct (iter_for_sim body post
      (fun (acc : cstate * list (Z * Z * Z)) g =>
         let '(s0, lg) := acc in
         (fill_gap (is_none kf) ttl tick (src (fstart g) (fend g)) (fstart g) (fend g) s0,
          lg ++ [(now s0, fstart g, fend g)]))
      (fun st6 acc => st6 = (sink (fst acc), kv_after_log kf src kv (snd acc), cover (fst acc),
                             hseq (fst acc), heap (fst acc), now (fst acc)))
      gap_bounded) with (xs := gaps_of cv1 a b) (s := (sk1, kv, cv1, hseq s, h1, now s + tick))
                   (t := (mkC sk1 cv1 h1 (hseq s) (now s + tick), @nil (Z * Z * Z)))
      as (s6 & -> & ->)
  end.
  - intros s6 [s0 lg] g -> Hg. cbn [fst snd].
    destruct (gap_bounded_bounds g Hg) as [-> ->].
    rewrite (g_cache_fill_gap_eq kf (fun x y _ => src (ozd x) (ozd y)) ttl tick). cbv zeta. cbn [ozd].
    eexists. split; [reflexivity|]. cbn [fst snd].
    repeat f_equal.
    unfold kv_after_log, kv_after. rewrite existsb_app. cbn [existsb fst snd].
    destruct kv, (is_none kf), (existsb _ lg), (nonempty _); reflexivity.
  - exact Hgaps.
  - cbn [fst snd sink cover hseq heap now]. unfold kv_after_log. cbn [existsb].
    rewrite andb_false_r, orb_false_r. reflexivity.
  - destruct (fold_left _ (gaps_of cv1 a b) _) as [s2 lg]. cbn [fst snd app].
    rewrite g_cache_fetch_sink_eq. reflexivity.
Qed.
Print Assumptions g_cache_fetch_eq_gaps.

(* HEADLINE: the same for a window (a, b) with NEG_INF < a and b <> POS_INF, which makes every gap
   carry both bounds (the text reads gap.start / gap.end, the model finite_start / finite_end).
   The other conditions: the heap entries are the covers (hi_bij of heap_inv), as
   g_cache_evict_expired_eq needs; fuel for every heap entry. *)
Theorem g_cache_fetch_eq {KEYS : Type} (kf : option KEYS) src ttl tick s kv a b rv fuel :
  NEG_INF < a -> b <> POS_INF ->
  (length (heap s) <= fuel)%nat ->
  Permutation (map h_cov (heap s)) (cover s) ->
  g_cache_fetch fuel kf key_of N.eqb (fun x y _ => src (ozd x) (ozd y)) ttl tick
                (now s) (sink s) kv (cover s) (hseq s) (heap s) (Some a) (Some b) rv =
  let '(s', out, log) := cquery (is_none kf) ttl tick src s a b rv in
  RDone (now s', sink s', kv_after_log kf src kv log, cover s', hseq s', heap s', out).
Proof.
  intros Ha Hb Hfuel Hperm. apply g_cache_fetch_eq_gaps; [|assumption|assumption].
  apply gaps_of_bounded; assumption.
Qed.
Print Assumptions g_cache_fetch_eq.

(* the same under the cache invariant of Proofs/CacheInv.v *)
Corollary g_cache_fetch_eq_inv {KEYS : Type} (kf : option KEYS) src ttl tick s kv a b rv :
  NEG_INF < a -> b < POS_INF -> heap_inv ttl s ->
  g_cache_fetch (length (heap s)) kf key_of N.eqb (fun x y _ => src (ozd x) (ozd y)) ttl tick
                (now s) (sink s) kv (cover s) (hseq s) (heap s) (Some a) (Some b) rv =
  let '(s', out, log) := cquery (is_none kf) ttl tick src s a b rv in
  RDone (now s', sink s', kv_after_log kf src kv log, cover s', hseq s', heap s', out).
Proof.
  intros Ha Hb Hi. apply g_cache_fetch_eq; [exact Ha|lia|apply le_n|exact (hi_bij _ _ Hi)].
Qed.

(* ------------------------------------------------------------------------------------------ *)
(* 5. the premises are satisfiable, and both sides computed on a small history *)
Definition ex8_evs : list ivl := [mkI (Some 0) (Some 10) (Rich 1000); mkI (Some 5) (Some 30) (Rich 2000)].
Definition ex8_src (gs ge : Z) : list ivl := src_of ex8_evs 0 gs ge.
(* the state after cached.fetch(0, 8) on a new cache whose clock reads 0 *)
Definition ex8_s1 : cstate := fst (fst (cquery false 100 1 ex8_src (cinit 0) 0 8 false)).

Example g_cache_fetch_hyps_ok :
  NEG_INF < 4 /\ 20 <> POS_INF /\ (length (heap ex8_s1) <= 1)%nat /\
  Permutation (map h_cov (heap ex8_s1)) (cover ex8_s1).
Proof. repeat split; try (vm_compute; congruence). apply le_n. vm_compute. apply Permutation_refl. Qed.

(* a second, overlapping query: one gap (8, 20), both stored fragments stitched at 8 *)
Example g_cache_fetch_example :
  g_cache_fetch 1 (Some tt) key_of N.eqb (fun x y _ => ex8_src (ozd x) (ozd y)) 100 1
                (now ex8_s1) (sink ex8_s1) true (cover ex8_s1) (hseq ex8_s1) (heap ex8_s1) (Some 4) (Some 20) true
  = RDone (4, [mkI (Some 0) (Some 10) (Rich 1000); mkI (Some 5) (Some 20) (Rich 2000)], true,
           [mkCov 0 8 1; mkCov 8 20 3], 2%N, [(101, 1%N, mkCov 0 8 1); (103, 2%N, mkCov 8 20 3)],
           [mkI (Some 5) (Some 20) (Rich 2000); mkI (Some 0) (Some 10) (Rich 1000)]) /\
  cquery false 100 1 ex8_src ex8_s1 4 20 true
  = (mkC [mkI (Some 0) (Some 10) (Rich 1000); mkI (Some 5) (Some 20) (Rich 2000)]
         [mkCov 0 8 1; mkCov 8 20 3] [(101, 1%N, mkCov 0 8 1); (103, 2%N, mkCov 8 20 3)] 2%N 4,
     [mkI (Some 5) (Some 20) (Rich 2000); mkI (Some 0) (Some 10) (Rich 1000)], [(3, 8, 20)]).
Proof. split; vm_compute; reflexivity. Qed.

(* the same query on a mask cache (self._key_fields is None): no stitching, four fragments;
   and after the first cover has expired (clock 150): it is evicted and the window refetched *)
Example g_cache_fetch_example_masked :
  g_cache_fetch 1 (@None unit) key_of N.eqb (fun x y _ => ex8_src (ozd x) (ozd y)) 100 1
                (now ex8_s1) (sink ex8_s1) false (cover ex8_s1) (hseq ex8_s1) (heap ex8_s1) (Some 4) (Some 20) false
  = (let '(s', out, log) := cquery true 100 1 ex8_src ex8_s1 4 20 false in
     RDone (now s', sink s', false, cover s', hseq s', heap s', out)) /\
  length (sink (fst (fst (cquery true 100 1 ex8_src ex8_s1 4 20 false)))) = 4%nat.
Proof. split; vm_compute; reflexivity. Qed.

Example g_cache_fetch_example_evict :
  g_cache_fetch 1 (Some tt) key_of N.eqb (fun x y _ => ex8_src (ozd x) (ozd y)) 100 1
                150 (sink ex8_s1) true (cover ex8_s1) (hseq ex8_s1) (heap ex8_s1) (Some 4) (Some 20) false
  = (let '(s', out, log) :=
         cquery false 100 1 ex8_src (mkC (sink ex8_s1) (cover ex8_s1) (heap ex8_s1) (hseq ex8_s1) 150) 4 20 false in
     RDone (now s', sink s', true, cover s', hseq s', heap s', out)) /\
  cover (fst (fst (cquery false 100 1 ex8_src
                          (mkC (sink ex8_s1) (cover ex8_s1) (heap ex8_s1) (hseq ex8_s1) 150) 4 20 false)))
  = [mkCov 4 20 151].
Proof. split; vm_compute; reflexivity. Qed.

(* the condition on the window is needed: with a cover (20, 30) stored, a query starting exactly at
   NEG_INF has the gap (None, 20) (Difference writes `x if x != NEG_INF else None`); the generated
   text passes cast(int, gap.start) on, the model passes finite_start *)
Definition ex8_s2 : cstate := fst (fst (cquery false 100 1 ex8_src (cinit 0) 20 30 false)).
Example g_cache_fetch_neg_inf_differs :
  exists t sk kv sq hp out,
    g_cache_fetch 1 (Some tt) key_of N.eqb (fun x y _ => ex8_src (ozd x) (ozd y)) 100 1
                  (now ex8_s2) (sink ex8_s2) true (cover ex8_s2) (hseq ex8_s2) (heap ex8_s2)
                  (Some NEG_INF) (Some 25) false
    = RDone (t, sk, kv, [mkCov 0 20 3; mkCov 20 30 1], sq, hp, out) /\
    cover (fst (fst (cquery false 100 1 ex8_src ex8_s2 NEG_INF 25 false))) = [mkCov NEG_INF 20 3; mkCov 20 30 1].
Proof. do 6 eexists. split; vm_compute; reflexivity. Qed.

(* ------------------------------------------------------------------------------------------ *)
(* 6. headline theorems of the property files restated on the GENERATED fetch *)

(* C09 (Proofs/CacheInv2.v, cquery_c09 / C09_observational): from a state satisfying the cache
   invariants, CachedTimeline.fetch as generated from the source text terminates normally, keeps the
   invariants and returns the source's events on the window *)
Theorem src_cache_fetch_c09 {KEYS : Type} (kfs : KEYS) evs ttl tick s kv a b rv :
  src_ok evs -> ttl > 0 -> tick >= 0 -> NEG_INF < a -> a < b -> b < POS_INF ->
  heap_inv ttl s -> sink_inv evs s ->
  exists t' sk' kv' cv' sq' hp' out,
    g_cache_fetch (length (heap s)) (Some kfs) key_of N.eqb (fun x y _ => src_of evs 0 (ozd x) (ozd y)) ttl tick
                  (now s) (sink s) kv (cover s) (hseq s) (heap s) (Some a) (Some b) rv
    = RDone (t', sk', kv', cv', sq', hp', out) /\
    heap_inv ttl (mkC sk' cv' hp' sq' t') /\ sink_inv evs (mkC sk' cv' hp' sq' t') /\
    c09_result evs (a, b, rv) out.
Proof.
  intros Hsrc Httl Htick Ha Hab Hb Hi Hsi.
  rewrite (g_cache_fetch_eq_inv (Some kfs) (src_of evs 0) ttl tick s kv a b rv Ha Hb Hi).
  cbn [is_none].
  destruct (cquery false ttl tick (src_of evs 0) s a b rv) as [[s' out] lg] eqn:Hq.
  destruct (cquery_c09 evs ttl tick s a b rv s' out lg Hsrc Httl Htick Ha Hab Hb Hi Hsi Hq) as (H1 & H2 & H3).
  do 7 eexists. split; [reflexivity|]. destruct s' as [sk2 cv2 hp2 sq2 t2]; cbn [now sink cover hseq heap]. auto.
Qed.
Print Assumptions src_cache_fetch_c09.

(* histories run on the generated fetch: the cache object is (state, _key_validated), the source
   serves version [ver]; the fuel of a query is the number of heap entries *)
Definition g_cstep {KEYS : Type} (kf : option KEYS) (ttl tick : Z) (evs : list ivl)
           (r : res (cstate * bool * N * list (list ivl))) (o : cop) : res (cstate * bool * N * list (list ivl)) :=
  res_bind r (fun '(s, kv, ver, outs) =>
    match o with
    | CQuery a b rv =>
      res_bind (g_cache_fetch (length (heap s)) kf key_of N.eqb (fun x y _ => src_of evs ver (ozd x) (ozd y))
                              ttl tick (now s) (sink s) kv (cover s) (hseq s) (heap s) (Some a) (Some b) rv)
               (fun '(t', sk', kv', cv', sq', hp', out) => RDone (mkC sk' cv' hp' sq' t', kv', ver, outs ++ [out]))
    | CAdvance d => RDone (mkC (sink s) (cover s) (heap s) (hseq s) (now s + d), kv, ver, outs)
    | CMutate => RDone (s, kv, N.succ ver, outs)
    end).

Lemma g_crun_from {KEYS : Type} (kf : option KEYS) ttl tick evs : ttl > 0 -> tick >= 0 -> forall ops r kv,
  Forall op_ok ops -> heap_inv ttl (r_state r) ->
  exists kv',
    fold_left (g_cstep kf ttl tick evs) ops (RDone (r_state r, kv, r_ver r, r_outs r)) =
    let r' := fold_left (cstep (is_none kf) ttl tick evs) ops r in
    RDone (r_state r', kv', r_ver r', r_outs r').
Proof.
  intros Httl Htick. induction ops as [|o ops IH]; intros r kv Hops Hi; cbn [fold_left].
  - exists kv. reflexivity.
  - inversion Hops as [|? ? Ho Hops']; subst.
    pose proof (cstep_inv (is_none kf) ttl tick evs r o Httl Htick Ho Hi) as Hi'.
    destruct o as [a b rv|d|]; cbn [g_cstep res_bind].
    + destruct Ho as (Ha & Hab & Hb).
      rewrite (g_cache_fetch_eq_inv kf (src_of evs (r_ver r)) ttl tick (r_state r) kv a b rv Ha Hb Hi).
      cbn [cstep] in *.
      destruct (cquery (is_none kf) ttl tick (src_of evs (r_ver r)) (r_state r) a b rv) as [[s' out] lg].
      cbn [res_bind]. destruct s' as [sk2 cv2 hp2 sq2 t2]; cbn [now sink cover hseq heap].
      match goal with |- context [RDone (?s1, ?kv1, ?v1, ?o1)] =>
        apply (IH (mkR s1 v1 o1 _ _ _) kv1 Hops' Hi') end.
    + apply (IH (cstep (is_none kf) ttl tick evs r (CAdvance d)) kv Hops' Hi').
    + apply (IH (cstep (is_none kf) ttl tick evs r CMutate) kv Hops' Hi').
Qed.

(* every history of queries, clock advances and source mutations, run on the generated fetch from a
   new cache, goes through the states and returns the results of the model's run *)
Theorem g_crun_all_eq {KEYS : Type} (kf : option KEYS) ttl tick t0 evs ops :
  ttl > 0 -> tick >= 0 -> Forall op_ok ops ->
  exists kv',
    fold_left (g_cstep kf ttl tick evs) ops (RDone (cinit t0, false, 0%N, [])) =
    let r := crun_all (is_none kf) ttl tick t0 evs ops in
    RDone (r_state r, kv', r_ver r, r_outs r).
Proof.
  intros Httl Htick Hops. unfold crun_all.
  apply (g_crun_from kf ttl tick evs Httl Htick ops (mkR (cinit t0) 0%N [] [] [] []) false Hops).
  apply heap_inv_init.
Qed.
Print Assumptions g_crun_all_eq.

(* C09_all_outputs on the generated fetch: along a history without source mutations every result
   the source text returns is the source's events on its window *)
Theorem src_C09_all_outputs {KEYS : Type} (kfs : KEYS) evs ttl tick t0 ops :
  src_ok evs -> ttl > 0 -> tick >= 0 -> Forall static_op ops ->
  exists s kv ver outs,
    fold_left (g_cstep (Some kfs) ttl tick evs) ops (RDone (cinit t0, false, 0%N, [])) = RDone (s, kv, ver, outs) /\
    Forall2 (c09_result evs) (queries ops) outs /\ heap_inv ttl s /\ sink_inv evs s.
Proof.
  intros Hsrc Httl Htick Hops.
  assert (Hok : Forall op_ok ops).
  { eapply Forall_impl; [|exact Hops]. intros o [Ho _]. exact Ho. }
  destruct (g_crun_all_eq (Some kfs) ttl tick t0 evs ops Httl Htick Hok) as [kv' E].
  cbn [is_none] in E. cbv zeta in E. do 4 eexists. split; [exact E|]. split; [|split].
  - apply C09_all_outputs; assumption.
  - apply heap_inv_reachable; assumption.
  - apply sink_inv_reachable; assumption.
Qed.
Print Assumptions src_C09_all_outputs.

Example src_C09_hyps_ok :
  src_ok ex8_evs /\ Forall static_op [CQuery 0 8 false; CAdvance 3; CQuery 4 20 true].
Proof.
  split.
  - split.
    + intros e He. simpl in He.
      destruct He as [<-|[<-|[]]];
        (split; [unfold wf_ivl, fstart, fend, NEG_INF, POS_INF; simpl; lia|]);
        (split; [unfold canon_ivl, NEG_INF, POS_INF; simpl; split; intro H; discriminate H|]).
      * exists 1%N; reflexivity.
      * exists 2%N; reflexivity.
    + assert (E : map key_of ex8_evs = [Some 1%N; Some 2%N]) by (vm_compute; reflexivity).
      rewrite E. repeat constructor; simpl; intuition discriminate.
  - repeat constructor; try discriminate; unfold NEG_INF, POS_INF; lia.
Qed.

Example g_crun_example :
  fold_left (g_cstep (Some tt) 100 1 ex8_evs) [CQuery 0 8 false; CAdvance 3; CQuery 4 20 true]
            (RDone (cinit 0, false, 0%N, []))
  = (let r := crun_all false 100 1 0 ex8_evs [CQuery 0 8 false; CAdvance 3; CQuery 4 20 true] in
     RDone (r_state r, true, r_ver r, r_outs r)).
Proof. vm_compute. reflexivity. Qed.

Print Assumptions g_cache_fetch_sink_eq.
Print Assumptions g_cache_fetch_unbounded.
Print Assumptions g_cache_fetch_eq_inv.
