(* Proofs/CivilP.v — facts about Model/Civil.v (proleptic Gregorian calendar).
   Method: the tight day-of-era bounds are beyond lia, so the round trip is checked by exhaustive
   vm_compute over one 400-year era (146097 days, via Pos.iter) and lifted to all of Z by two
   periodicity lemmas proved with lia + Z.to_euclidean_division_equations. *)
From CG Require Import Model.Civil.
From Coq Require Import Lia ZifyBool.
Ltac Zify.zify_post_hook ::= Z.to_euclidean_division_equations.

(* ---- one era, exhaustively ---- *)
Definition rt_ok (z : Z) : bool :=
  let '(y, m, d) := civil_from_days z in
  (days_from_civil y m d =? z) && valid_date y m d.

(* P on every z0 <= x < z0 + p, by binary splitting of p (no unary numbers involved) *)
Fixpoint check_range (P : Z -> bool) (p : positive) (z0 : Z) : bool :=
  match p with
  | xH => P z0
  | xO q => check_range P q z0 && check_range P q (z0 + Z.pos q)
  | xI q => P z0 && check_range P q (z0 + 1) && check_range P q (z0 + 1 + Z.pos q)
  end.

Lemma check_range_spec P p : forall z0, check_range P p z0 = true ->
  forall x, z0 <= x < z0 + Z.pos p -> P x = true.
Proof.
  induction p as [q IH|q IH|]; intros z0 H x Hx; cbn [check_range] in H.
  - apply andb_true_iff in H. destruct H as [H H3]. apply andb_true_iff in H. destruct H as [H1 H2].
    destruct (Z.eq_dec x z0) as [->|Hne]; [exact H1|].
    destruct (Z_lt_ge_dec x (z0 + 1 + Z.pos q)).
    + apply (IH _ H2). lia.
    + apply (IH _ H3). lia.
  - apply andb_true_iff in H. destruct H as [H1 H2].
    destruct (Z_lt_ge_dec x (z0 + Z.pos q)).
    + apply (IH _ H1). lia.
    + apply (IH _ H2). lia.
  - replace x with z0 by lia. exact H.
Qed.

(* all 146097 days of the era starting 0000-03-01 (z = -719468) *)
Lemma era_ok : check_range rt_ok 146097 (-719468) = true.
Proof. vm_compute. reflexivity. Qed.

Lemma era_each z : -719468 <= z < -719468 + 146097 -> rt_ok z = true.
Proof. intros Hz. apply (check_range_spec _ _ _ era_ok). lia. Qed.

(* ---- periodicity: 400 years = 146097 days ---- *)
Lemma dfc_shift y m d k : days_from_civil (y + 400 * k) m d = days_from_civil y m d + 146097 * k.
Proof. unfold days_from_civil. destruct (m <=? 2); destruct (m >? 2); lia. Qed.

Lemma cfd_shift z k :
  civil_from_days (z + 146097 * k) = let '(y, m, d) := civil_from_days z in (y + 400 * k, m, d).
Proof.
  unfold civil_from_days.
  replace ((z + 146097 * k + 719468) / 146097) with ((z + 719468) / 146097 + k) by lia.
  set (era := (z + 719468) / 146097).
  replace (z + 146097 * k + 719468 - (era + k) * 146097) with (z + 719468 - era * 146097) by lia.
  set (doe := z + 719468 - era * 146097).
  cbv zeta.
  set (yoe := (doe - doe / 1460 + doe / 36524 - doe / 146096) / 365).
  set (doy := doe - (365 * yoe + yoe / 4 - yoe / 100)).
  set (mp := (5 * doy + 2) / 153).
  destruct (mp <? 10); cbv zeta;
  match goal with |- context [if ?c then _ else _] => destruct c end; f_equal; f_equal; lia.
Qed.

Lemma is_leap_shift y k : is_leap (y + 400 * k) = is_leap y.
Proof.
  unfold is_leap.
  replace ((y + 400 * k) mod 4) with (y mod 4) by lia.
  replace ((y + 400 * k) mod 100) with (y mod 100) by lia.
  replace ((y + 400 * k) mod 400) with (y mod 400) by lia. reflexivity.
Qed.

Lemma dim_shift y m k : dim (y + 400 * k) m = dim y m.
Proof. unfold dim. rewrite is_leap_shift. reflexivity. Qed.

(* ---- the round trip and validity, for every day number ---- *)
Theorem civil_roundtrip z :
  let '(y, m, d) := civil_from_days z in days_from_civil y m d = z /\ valid_date y m d = true.
Proof.
  set (k := (z + 719468) / 146097).
  set (z0 := z - 146097 * k).
  assert (Hz0 : -719468 <= z0 < -719468 + 146097) by (unfold z0, k; lia).
  pose proof (era_each z0 Hz0) as H. unfold rt_ok in H.
  replace z with (z0 + 146097 * k) by (unfold z0; lia).
  rewrite cfd_shift. destruct (civil_from_days z0) as [[y m] d].
  apply andb_true_iff in H. destruct H as [H1 H2].
  rewrite dfc_shift. split; [lia|].
  unfold valid_date in *. rewrite dim_shift. exact H2.
Qed.

Corollary days_from_civil_from_days z :
  days_from_civil (year_of z) (month_of z) (day_of z) = z.
Proof.
  unfold year_of, month_of, day_of. pose proof (civil_roundtrip z) as H.
  destruct (civil_from_days z) as [[y m] d]. simpl. tauto.
Qed.

Corollary civil_from_days_valid z : valid_date (year_of z) (month_of z) (day_of z) = true.
Proof.
  unfold year_of, month_of, day_of. pose proof (civil_roundtrip z) as H.
  destruct (civil_from_days z) as [[y m] d]. simpl. tauto.
Qed.

(* ---- weekday ---- *)
Lemma weekday_range d : 0 <= weekday d < 7.
Proof. unfold weekday. lia. Qed.

Lemma weekday_periodic d k : weekday (d + 7 * k) = weekday d.
Proof. unfold weekday. lia. Qed.

Lemma weekday_succ d : weekday (d + 1) = (weekday d + 1) mod 7.
Proof. unfold weekday. lia. Qed.

(* the Monday on or before d *)
Lemma monday_of_week d : weekday (d - weekday d) = 0 /\ d - 6 <= d - weekday d <= d.
Proof. unfold weekday. lia. Qed.

(* ---- lengths of months and years ---- *)
Lemma dim_bounds y m : 28 <= dim y m <= 31.
Proof.
  unfold dim. destruct (m =? 2); [destruct (is_leap y); lia|].
  destruct ((m =? 4) || (m =? 6) || (m =? 9) || (m =? 11)); lia.
Qed.

Lemma diy_bounds y : 365 <= diy y <= 366.
Proof. unfold diy. destruct (is_leap y); lia. Qed.

(* days_from_civil is linear in the day of the month *)
Lemma dfc_day_linear y m d k : days_from_civil y m (d + k) = days_from_civil y m d + k.
Proof. unfold days_from_civil. lia. Qed.


(* ---- the other direction: a valid date survives the trip through its day number ---- *)
(* index i = y*372 + (m-1)*31 + (d-1) over the 400 years 0..399 *)
Definition rt2_ok (i : Z) : bool :=
  let y := i / 372 in let m := (i mod 372) / 31 + 1 in let d := i mod 31 + 1 in
  negb (valid_date y m d) ||
  (let '(y', m', d') := civil_from_days (days_from_civil y m d) in (y' =? y) && (m' =? m) && (d' =? d)).

Lemma era2_ok : check_range rt2_ok 148800 0 = true.
Proof. vm_compute. reflexivity. Qed.

Theorem civil_from_days_from_civil y m d :
  valid_date y m d = true -> civil_from_days (days_from_civil y m d) = (y, m, d).
Proof.
  intros Hv.
  set (k := y / 400). set (y0 := y - 400 * k).
  assert (Hy0 : 0 <= y0 < 400) by (unfold y0, k; lia).
  assert (Hv0 : valid_date y0 m d = true).
  { unfold valid_date in *. replace y with (y0 + 400 * k) in Hv by (unfold y0; lia).
    rewrite dim_shift in Hv. exact Hv. }
  assert (Hb : 1 <= m <= 12 /\ 1 <= d <= 31).
  { unfold valid_date in Hv0. pose proof (dim_bounds y0 m) as Hd.
    repeat (apply andb_true_iff in Hv0; destruct Hv0 as [Hv0 ?]).
    repeat match goal with H : (_ <=? _) = true |- _ => apply Z.leb_le in H end.
    generalize dependent (dim y0 m). intros. lia. }
  set (i := y0 * 372 + (m - 1) * 31 + (d - 1)).
  assert (Hi : 0 <= i < 0 + 148800) by (unfold i; lia).
  pose proof (check_range_spec _ _ _ era2_ok i Hi) as H.
  unfold rt2_ok in H.
  replace (i / 372) with y0 in H by (unfold i; lia).
  replace (i mod 372 / 31 + 1) with m in H by (unfold i; lia).
  replace (i mod 31 + 1) with d in H by (unfold i; lia).
  rewrite Hv0 in H. cbn [negb orb] in H.
  replace y with (y0 + 400 * k) by (unfold y0; lia).
  rewrite dfc_shift, cfd_shift.
  destruct (civil_from_days (days_from_civil y0 m d)) as [[y' m'] d'].
  apply andb_true_iff in H. destruct H as [H H3]. apply andb_true_iff in H. destruct H as [H1 H2].
  apply Z.eqb_eq in H1, H2, H3. subst. reflexivity.
Qed.

Corollary days_from_civil_inj y m d y' m' d' :
  valid_date y m d = true -> valid_date y' m' d' = true ->
  days_from_civil y m d = days_from_civil y' m' d' -> (y, m, d) = (y', m', d').
Proof.
  intros H1 H2 E. rewrite <- (civil_from_days_from_civil _ _ _ H1), E.
  apply civil_from_days_from_civil. exact H2.
Qed.
