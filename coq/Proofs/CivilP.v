(* Proofs/CivilP.v — facts about Model/Civil.v (proleptic Gregorian calendar).
   Method: the tight day-of-era bounds are beyond lia, so the round trip is checked by exhaustive
   vm_compute over one 400-year era (146097 days, via Pos.iter) and lifted to all of Z by two
   periodicity lemmas proved with lia + Z.to_euclidean_division_equations. *)
From CG Require Import Model.Civil.
From Coq Require Import Lia ZifyBool.
Ltac Zify.zify_post_hook ::= Z.to_euclidean_division_equations.

(* ---- one era, exhaustively ---- *)
Definition rt_ok (z : Z) : bool :=
  let '(y, m, d) := civil_from_days z in
  (days_from_civil y m d =? z) && valid_date y m d.

(* all 146097 days of the era starting 0000-03-01 (z = -719468) *)
Definition era_check : bool :=
  snd (Pos.iter (fun '(z, ok) => (z + 1, ok && rt_ok z)) (-719468, true) 146097%positive).

Lemma era_ok : era_check = true.
Proof. vm_compute. reflexivity. Qed.

(* Pos.iter of a counting loop: the accumulated conjunction covers every step *)
Lemma nat_iter_count (P : Z -> bool) (k : nat) (z0 : Z) (b0 : bool) :
  Nat.iter k (fun '(z, ok) => (z + 1, ok && P z)) (z0, b0) =
  (z0 + Z.of_nat k, b0 && forallb P (map (fun i => z0 + Z.of_nat i) (seq 0 k))).
Proof.
  set (F := fun '(z, ok) => (z + 1, ok && P z)).
  induction k as [|k IH].
  - simpl. rewrite Z.add_0_r, andb_true_r. reflexivity.
  - change (Nat.iter (S k) F (z0, b0)) with (F (Nat.iter k F (z0, b0))).
    rewrite IH, seq_S, map_app, forallb_app. unfold F. cbn [map forallb plus].
    rewrite andb_true_r, andb_assoc. f_equal. lia.
Qed.

Lemma iter_count_spec (P : Z -> bool) (n : positive) (z0 : Z) (b0 : bool) :
  Pos.iter (fun '(z, ok) => (z + 1, ok && P z)) (z0, b0) n =
  (z0 + Z.pos n, b0 && forallb P (map (fun k => z0 + Z.of_nat k) (seq 0 (Pos.to_nat n)))).
Proof.
  rewrite Pos2Nat.inj_iter, <- (positive_nat_Z n). apply nat_iter_count.
Qed.

Lemma era_each z : -719468 <= z < -719468 + 146097 -> rt_ok z = true.
Proof.
  intros Hz. pose proof era_ok as H. unfold era_check in H.
  rewrite iter_count_spec in H. simpl snd in H.
  rewrite forallb_forall in H. apply H.
  apply in_map_iff. exists (Z.to_nat (z + 719468)). split; [lia|].
  apply in_seq. lia.
Qed.

(* ---- periodicity: 400 years = 146097 days ---- *)
Lemma dfc_shift y m d k : days_from_civil (y + 400 * k) m d = days_from_civil y m d + 146097 * k.
Proof. unfold days_from_civil. destruct (m <=? 2); destruct (m >? 2); lia. Qed.

Lemma cfd_shift z k :
  civil_from_days (z + 146097 * k) = let '(y, m, d) := civil_from_days z in (y + 400 * k, m, d).
Proof.
  unfold civil_from_days.
  replace ((z + 146097 * k + 719468) / 146097) with ((z + 719468) / 146097 + k) by lia.
  set (era := (z + 719468) / 146097).
  replace (z + 146097 * k + 719468 - (era + k) * 146097) with (z + 719468 - era * 146097) by lia.
  set (doe := z + 719468 - era * 146097).
  cbv zeta.
  set (yoe := (doe - doe / 1460 + doe / 36524 - doe / 146096) / 365).
  set (doy := doe - (365 * yoe + yoe / 4 - yoe / 100)).
  set (mp := (5 * doy + 2) / 153).
  destruct (mp <? 10); cbv zeta;
  match goal with |- context [if ?c then _ else _] => destruct c end; f_equal; f_equal; lia.
Qed.

Lemma is_leap_shift y k : is_leap (y + 400 * k) = is_leap y.
Proof.
  unfold is_leap.
  replace ((y + 400 * k) mod 4) with (y mod 4) by lia.
  replace ((y + 400 * k) mod 100) with (y mod 100) by lia.
  replace ((y + 400 * k) mod 400) with (y mod 400) by lia. reflexivity.
Qed.

Lemma dim_shift y m k : dim (y + 400 * k) m = dim y m.
Proof. unfold dim. rewrite is_leap_shift. reflexivity. Qed.

(* ---- the round trip and validity, for every day number ---- *)
Theorem civil_roundtrip z :
  let '(y, m, d) := civil_from_days z in days_from_civil y m d = z /\ valid_date y m d = true.
Proof.
  set (k := (z + 719468) / 146097).
  set (z0 := z - 146097 * k).
  assert (Hz0 : -719468 <= z0 < -719468 + 146097) by (unfold z0, k; lia).
  pose proof (era_each z0 Hz0) as H. unfold rt_ok in H.
  replace z with (z0 + 146097 * k) by (unfold z0; lia).
  rewrite cfd_shift. destruct (civil_from_days z0) as [[y m] d].
  apply andb_true_iff in H. destruct H as [H1 H2].
  rewrite dfc_shift. split; [lia|].
  unfold valid_date in *. rewrite dim_shift. exact H2.
Qed.

Corollary days_from_civil_from_days z :
  days_from_civil (year_of z) (month_of z) (day_of z) = z.
Proof.
  unfold year_of, month_of, day_of. pose proof (civil_roundtrip z) as H.
  destruct (civil_from_days z) as [[y m] d]. simpl. tauto.
Qed.

Corollary civil_from_days_valid z : valid_date (year_of z) (month_of z) (day_of z) = true.
Proof.
  unfold year_of, month_of, day_of. pose proof (civil_roundtrip z) as H.
  destruct (civil_from_days z) as [[y m] d]. simpl. tauto.
Qed.

(* ---- weekday ---- *)
Lemma weekday_range d : 0 <= weekday d < 7.
Proof. unfold weekday. lia. Qed.

Lemma weekday_periodic d k : weekday (d + 7 * k) = weekday d.
Proof. unfold weekday. lia. Qed.

Lemma weekday_succ d : weekday (d + 1) = (weekday d + 1) mod 7.
Proof. unfold weekday. lia. Qed.

(* the Monday on or before d *)
Lemma monday_of_week d : weekday (d - weekday d) = 0 /\ d - 6 <= d - weekday d <= d.
Proof. unfold weekday. lia. Qed.

(* ---- lengths of months and years ---- *)
Lemma dim_bounds y m : 28 <= dim y m <= 31.
Proof.
  unfold dim. destruct (m =? 2); [destruct (is_leap y); lia|].
  destruct ((m =? 4) || (m =? 6) || (m =? 9) || (m =? 11)); lia.
Qed.

Lemma diy_bounds y : 365 <= diy y <= 366.
Proof. unfold diy. destruct (is_leap y); lia. Qed.

(* days_from_civil is linear in the day of the month *)
Lemma dfc_day_linear y m d k : days_from_civil y m (d + k) = days_from_civil y m d + k.
Proof. unfold days_from_civil. lia. Qed.
