(* Proofs/GenEq2.v — tie C for calgebra/recurrence.py: the definitions generated from the source
   text of RecurringPattern._fetch_forward / _fetch_reverse / _get_safe_anchor (Gen/Source.v)
   equal the model functions of Model/Recur.v the C07 / C08 / C04 / C16 theorems are stated about.

   The generated definitions are parametric in an abstract type DT of datetime values and in the
   library calls (datetime.fromtimestamp, rrule, ...).  They are instantiated here the way
   Model/Recur.v views them: a datetime that is only used through its date is its day number. *)
From CG Require Import Model.Loop Gen.Source Model.Recur.
From Coq Require Import Lia.

(* ------------------------------------------------------------------------------------------ *)
(* _fetch_forward                                                                              *)

(* the abstracted callees, read off the model; outside the model's success cases they take a
   default that no theorem below depends on *)
Definition occ_ivl (r : rule) (d : Z) : ivl :=
  match occurrence_to_interval r d with Some i => i | None => mkI None None Plain end.
Definition anchor_or (r : rule) (sd : Z) : Z :=
  match safe_anchor r sd with Some d => d | None => 0 end.

(* the generated _fetch_forward of the pattern [r], over a given rrule stream *)
Definition g_forward_of (r : rule) (anchor : Z -> Z) (rrule_of : Z -> list Z) (a b : option Z)
  : res (list ivl) :=
  g_recur_fetch_forward (DT := Z) (r_freq r) (r_interval r) (r_dur r) (r_exdates r)
                        (local_day (r_zone r)) anchor (fun d => d) rrule_of (occ_ivl r) a b.

(* an implementation of self._get_safe_anchor that agrees with the model where the model succeeds *)
Definition anchor_ok (r : rule) (anchor : Z -> Z) : Prop :=
  forall sd d, safe_anchor r sd = Some d -> anchor sd = d.
Lemma anchor_or_ok r : anchor_ok r (anchor_or r).
Proof. intros sd d H. unfold anchor_or. rewrite H. reflexivity. Qed.

(* one pass of the body of "for occurrence in rules", on the interval of the occurrence *)
Definition fwd_step (r : rule) (a b : Z) (i : ivl) : list ivl * unit * ctl :=
  if zmem (fstart i) (r_exdates r) then ([], tt, Cont)
  else if fend i <=? a then ([], tt, Cont)
  else if b <? fstart i then ([], tt, Brk)
  else ([i], tt, Cont).

Lemma oti_shape r d i :
  occurrence_to_interval r d = Some i -> exists ts te, i = mkI (Some ts) (Some te) Plain.
Proof.
  unfold occurrence_to_interval. destruct ((r_sod r <? 0) || (DAY <=? r_sod r)); [discriminate|].
  intro H. injection H as <-. eauto.
Qed.

Lemma stream_period_run r a b (body : unit -> Z -> list ivl * unit * ctl) post :
  (forall d i, occurrence_to_interval r d = Some i -> body tt d = fwd_step r a b i) ->
  forall occ rest l stop,
    stream_period r a b occ = Some (l, stop) ->
    run_for body post tt (occ ++ rest) = l ++ (if stop then post tt else run_for body post tt rest).
Proof.
  intros Hb. induction occ as [|d occ IH]; intros rest l stop H; cbn [stream_period] in H.
  - injection H as <- <-. reflexivity.
  - destruct (occurrence_to_interval r d) as [i|] eqn:Ei; [|discriminate].
    cbn [app run_for]. rewrite (Hb d i Ei). unfold fwd_step.
    destruct (zmem (fstart i) (r_exdates r)); [cbn [app]; apply IH; exact H|].
    destruct (fend i <=? a); [cbn [app]; apply IH; exact H|].
    destruct (b <? fstart i).
    + injection H as <- <-. reflexivity.
    + destruct (stream_period r a b occ) as [[l' stop']|] eqn:E; [|discriminate].
      injection H as <- <-. cbn [app]. f_equal. apply IH. reflexivity.
Qed.

Lemma stream_go_run r q a b (body : unit -> Z -> list ivl * unit * ctl) post :
  (forall d i, occurrence_to_interval r d = Some i -> body tt d = fwd_step r a b i) ->
  forall fuel st l,
    stream_go fuel r q a b st = Ok l ->
    run_for body post tt (rrule_periods q st fuel) = l ++ post tt.
Proof.
  intros Hb. induction fuel as [|f IH]; intros st l H; cbn [stream_go] in H; [discriminate|].
  cbn [rrule_periods].
  destruct (stream_period r a b (period_occ q st)) as [[l1 [|]]|] eqn:E; [| |discriminate].
  - injection H as <-. rewrite (stream_period_run r a b body post Hb _ _ _ _ E). reflexivity.
  - destruct (stream_go f r q a b (next_state q st)) as [l'| |] eqn:E2; try discriminate.
    injection H as <-. rewrite (stream_period_run r a b body post Hb _ _ _ _ E).
    rewrite (IH _ _ E2). rewrite app_assoc. reflexivity.
Qed.

(* the look-back ladder *)
Lemma lookback_ladder f k dur :
  (let lookback_buffer := dur in
   if freq_eqb f Daily then lookback_buffer + k * 86400
   else if freq_eqb f Weekly then lookback_buffer + k * 604800
   else if freq_eqb f Monthly then lookback_buffer + k * 32 * 86400
   else if freq_eqb f Yearly then lookback_buffer + k * 366 * 86400
   else lookback_buffer) = dur + k * period_secs f.
Proof. destruct f; cbn; unfold DAY; lia. Qed.

(* The rrule stream of the model: the occurrences of the first [fuel_for] periods from the
   dtstart (rrule itself is endless; the model's fuel is enough to reach the `break`). *)
Definition model_rrule (r : rule) (b : Z) (dtstart : Z) : list Z :=
  let q := rr_of r dtstart in rrule_periods q (init_state q) (fuel_for r dtstart b).

(* HEADLINE: whenever the model's forward fetch succeeds, the code's _fetch_forward (as
   translated from its source text), run on the model's rrule stream, returns the same list *)
Theorem g_recur_fetch_forward_eq (r : rule) (anchor : Z -> Z) (a b : Z) (l : list ivl) :
  anchor_ok r anchor ->
  fetch_forward r a b = Ok l ->
  g_forward_of r anchor (model_rrule r b) (Some a) (Some b) = RDone l.
Proof.
  unfold fetch_forward, g_forward_of, g_recur_fetch_forward. cbv zeta.
  intros Ha H.
  match goal with
  | |- context [local_day (r_zone r) (a - ?lb)] =>
    replace lb with (lookback_buffer r)
      by (first [ unfold lookback_buffer; symmetry; apply (lookback_ladder (r_freq r) (r_interval r) (r_dur r))
                | unfold lookback_buffer, period_secs, DAY; destruct (r_freq r); cbn [freq_eqb]; lia ])
  end.
  destruct (safe_anchor r (local_day (r_zone r) (a - lookback_buffer r))) as [dtstart|] eqn:Ea; [|discriminate].
  rewrite (Ha _ _ Ea).
  f_equal. unfold model_rrule. cbv zeta.
  rewrite (stream_go_run r (rr_of r dtstart) a b _ _ ) with (l := l); [apply app_nil_r| |exact H].
  intros d i Ei. unfold occ_ivl. rewrite Ei.
  destruct (oti_shape r d i Ei) as (ts & te & ->).
  unfold fwd_step, fstart, fend, is_none, ozd. cbn [st en negb andb].
  destruct (zmem ts (r_exdates r)); [reflexivity|].
  destruct (te <=? a); [reflexivity|].
  rewrite Z.gtb_ltb. destruct (b <? ts); reflexivity.
Qed.

(* start=None raises ValueError, whatever the rest *)
Theorem g_recur_fetch_forward_unbounded (r : rule) anchor rr b :
  g_forward_of r anchor rr None b = RRaise ValueError.
Proof. reflexivity. Qed.

(* ------------------------------------------------------------------------------------------ *)
(* _fetch_reverse                                                                              *)

(* everything the forward fetch returns has an integer start (the translation of the chunk
   filter `ivl.start < current_end` assumes it: see "assume_not_none" in srcspecs.py) *)
Lemma stream_period_starts r a b : forall occ l stop,
  stream_period r a b occ = Some (l, stop) -> Forall (fun i => st i = Some (fstart i)) l.
Proof.
  induction occ as [|d occ IH]; intros l stop H; cbn [stream_period] in H.
  - injection H as <- <-. constructor.
  - destruct (occurrence_to_interval r d) as [i|] eqn:Ei; [|discriminate].
    destruct (zmem (fstart i) (r_exdates r)); [eapply IH; exact H|].
    destruct (fend i <=? a); [eapply IH; exact H|].
    destruct (b <? fstart i); [injection H as <- <-; constructor|].
    destruct (stream_period r a b occ) as [[l' stop']|] eqn:E; [|discriminate].
    injection H as <- <-. constructor; [|eapply IH; reflexivity].
    destruct (oti_shape r d i Ei) as (ts & te & ->). reflexivity.
Qed.

Lemma stream_go_starts r q a b : forall fuel st l,
  stream_go fuel r q a b st = Ok l -> Forall (fun i => Base.st i = Some (fstart i)) l.
Proof.
  induction fuel as [|f IH]; intros st l H; cbn [stream_go] in H; [discriminate|].
  destruct (stream_period r a b (period_occ q st)) as [[l1 [|]]|] eqn:E; [| |discriminate].
  - injection H as <-. eapply stream_period_starts; exact E.
  - destruct (stream_go f r q a b (next_state q st)) as [l'| |] eqn:E2; try discriminate.
    injection H as <-. apply Forall_app. split; [eapply stream_period_starts; exact E|eapply IH; exact E2].
Qed.

Lemma fetch_forward_starts r a b l :
  fetch_forward r a b = Ok l -> Forall (fun i => st i = Some (fstart i)) l.
Proof.
  unfold fetch_forward. destruct (safe_anchor r _); [|discriminate]. apply stream_go_starts.
Qed.

(* the abstracted forward fetch of a chunk, read off the model *)
Definition fwd_or (r : rule) (cs ce : Z) : list ivl :=
  match fetch_forward r cs ce with Ok l => l | _ => [] end.

(* the number of chunks the model allows itself *)
Definition reverse_fuel (r : rule) (start : option Z) (e : Z) : nat :=
  let effective_start := match start with Some s => s | None => e - 10 * 365 * DAY end in
  Z.to_nat (Z.max 0 (e - effective_start) / chunk_size (r_freq r) + 2).

Lemma chunk_ladder f :
  (if freq_eqb f Daily then 30 * 86400
   else if freq_eqb f Weekly then 12 * 604800
   else if freq_eqb f Monthly then 365 * 86400
   else 5 * 365 * 86400) = chunk_size f.
Proof. destruct f; reflexivity. Qed.

(* HEADLINE: whenever the model's reverse fetch succeeds, the code's _fetch_reverse (as translated
   from its source text: the `while` pager, the two-condition chunk filter, `reversed`), with
   the same fuel, returns the same list *)
Definition fwd_ok (r : rule) (fwd : Z -> Z -> list ivl) : Prop :=
  forall cs ce l, fetch_forward r cs ce = Ok l -> fwd cs ce = l.
Lemma fwd_or_ok r : fwd_ok r (fwd_or r).
Proof. intros cs ce l H. unfold fwd_or. rewrite H. reflexivity. Qed.

Theorem g_recur_fetch_reverse_eq (r : rule) (fwd : Z -> Z -> list ivl) (start : option Z) (e : Z)
        (l : list ivl) :
  fwd_ok r fwd ->
  fetch_reverse_opt r start e = Ok l ->
  g_recur_fetch_reverse (reverse_fuel r start e) (r_freq r) fwd start (Some e) = RDone l.
Proof.
  intro Hfwd.
  unfold fetch_reverse_opt, g_recur_fetch_reverse, reverse_fuel. cbv zeta.
  rewrite chunk_ladder.
  change (10 * 365 * 86400) with (10 * 365 * DAY).
  set (eff := match start with Some s => s | None => e - 10 * 365 * DAY end).
  generalize (Z.to_nat (Z.max 0 (e - eff) / chunk_size (r_freq r) + 2)) as fuel.
  intro fuel.
  match goal with
  | |- reverse_go _ _ _ _ _ _ = _ -> run_while _ ?cond ?body ?post _ = _ =>
    assert (HH : forall fuel cur l, reverse_go fuel r eff start e cur = Ok l ->
                                    run_while fuel cond body post cur = RDone l); [|apply HH]
  end.
  clear fuel l.
  induction fuel as [|f IH]; intros cur l H; cbn [reverse_go run_while] in *;
    rewrite Z.gtb_ltb; rewrite (Z.leb_antisym eff cur) in H;
    destruct (eff <? cur); cbn [negb] in H; try discriminate;
    try (injection H as <-; reflexivity).
  set (cs := Z.max eff (cur - chunk_size (r_freq r))) in *.
  destruct (fetch_forward r cs cur) as [l0| |] eqn:Ef; try discriminate.
  assert (Hfw : fwd cs cur = l0) by (apply Hfwd; exact Ef).
  rewrite Hfw.
  pose proof (fetch_forward_starts r cs cur l0 Ef) as Hst.
  match goal with
  | H : context [filter ?p l0] |- context [filter ?p' l0] =>
    assert (Hfl : filter p' l0 = filter p l0)
  end.
  { apply filter_ext_in. intros i Hi. rewrite Forall_forall in Hst. rewrite (Hst i Hi).
    cbn [ozd]. rewrite Z.geb_leb. reflexivity. }
  rewrite Hfl. clear Hfl.
  set (chunk := filter _ l0) in *.
  destruct start as [s|]; cbn [is_none negb andb ozd] in *.
  - destruct (cs <=? s).
    + injection H as <-. cbn [app]. rewrite app_nil_r. reflexivity.
    + destruct (reverse_go f r eff (Some s) e cs) as [l'| |] eqn:E2; try discriminate.
      injection H as <-. rewrite (IH cs l' E2). reflexivity.
  - destruct (reverse_go f r eff None e cs) as [l'| |] eqn:E2; try discriminate.
    injection H as <-. rewrite (IH cs l' E2). reflexivity.
Qed.

(* end=None raises ValueError *)
Theorem g_recur_fetch_reverse_unbounded fuel f fwd a :
  g_recur_fetch_reverse fuel f fwd a None = RRaise ValueError.
Proof. reflexivity. Qed.

Print Assumptions g_recur_fetch_forward_eq.
Print Assumptions g_recur_fetch_forward_unbounded.
Print Assumptions g_recur_fetch_reverse_eq.
Print Assumptions g_recur_fetch_reverse_unbounded.

(* ------------------------------------------------------------------------------------------ *)
(* _get_safe_anchor                                                                            *)

(* Model/Recur.v's view of the datetime values this function handles: the anchor is used through
   its date only (and then set to midnight by the caller), so DT = DATE = a day number, a
   timedelta = a number of days.  1969-12-29 is day -3, the epoch day 0.
   datetime.replace(year=y[, month=m]) keeps the day of the month and raises ValueError (None
   here) when that day does not exist in the target month or the year is below 1. *)
Definition day_year (d : Z) : Z := let '(y, _, _) := civil_from_days d in y.
Definition day_month (d : Z) : Z := let '(_, m, _) := civil_from_days d in m.
Definition day_replace_ym (base y m : Z) : option Z :=
  let '(_, _, bd) := civil_from_days base in
  if (1 <=? y) && (bd <=? dim y m) then Some (days_from_civil y m bd) else None.
Definition day_replace_y (base y : Z) : option Z :=
  let '(_, bm, bd) := civil_from_days base in
  if (1 <=? y) && (bd <=? dim y bm) then Some (days_from_civil y bm bd) else None.

Definition g_safe_anchor_of (fuel : nat) (r : rule) (sd : Z) : res Z :=
  g_recur_safe_anchor (DT := Z) (DATE := Z) (TD := Z) fuel
    (r_freq r) (r_interval r) (r_anchor r) 0
    (local_day (r_zone r)) days_from_civil (fun d => d) Z.sub (fun t => t) (fun d => d) (fun w => 7 * w) Z.add
    day_year day_month day_replace_ym day_replace_y sd.

Lemma base_anchor_sel r :
  (if negb (is_none (r_anchor r)) then local_day (r_zone r) (ozd (r_anchor r))
   else if freq_eqb (r_freq r) Weekly then days_from_civil 1969 12 29 else 0) = base_day r.
Proof.
  unfold base_day. destruct (r_anchor r); cbn [is_none negb ozd]; [reflexivity|].
  destruct (r_freq r); reflexivity.
Qed.

(* the `while True: try: return base_anchor.replace(year=, month=) except ValueError:` loop *)
Lemma month_back_run k bd cond (body : Z * Z * Z -> step (Z * Z * Z) (res Z)) post :
  (forall s, cond s = true) ->
  (forall abs,
      body (abs, abs / 12, abs mod 12 + 1) =
      if (1 <=? abs / 12) && (bd <=? dim (abs / 12) (abs mod 12 + 1))
      then SRet (RDone (days_from_civil (abs / 12) (abs mod 12 + 1) bd))
      else if abs / 12 <? 1 then SRet (RRaise ValueError)
           else SCont (abs - k, (abs - k) / 12, (abs - k) mod 12 + 1)) ->
  forall fuel abs d,
    month_back fuel k bd abs = Some d ->
    iter_while (S fuel) cond body post (abs, abs / 12, abs mod 12 + 1) = RDone d.
Proof.
  intros Hc Hb. induction fuel as [|f IH]; intros abs d H; cbn [month_back] in H;
    cbn [iter_while]; rewrite Hc, Hb;
    destruct ((1 <=? abs / 12) && (bd <=? dim (abs / 12) (abs mod 12 + 1)));
    try (injection H as <-; reflexivity);
    destruct (abs / 12 <? 1); try discriminate.
  apply IH. exact H.
Qed.

(* the `while True: try: return base_anchor.replace(year=) except ValueError:` loop *)
Lemma year_back_run k bm bd cond (body : Z -> step Z (res Z)) post :
  (forall s, cond s = true) ->
  (forall y,
      body y =
      if (1 <=? y) && (bd <=? dim y bm) then SRet (RDone (days_from_civil y bm bd))
      else if y <? 1 then SRet (RRaise ValueError) else SCont (y - k)) ->
  forall fuel y d,
    year_back fuel k bm bd y = Some d ->
    iter_while (S fuel) cond body post y = RDone d.
Proof.
  intros Hc Hb. induction fuel as [|f IH]; intros y d H; cbn [year_back] in H;
    cbn [iter_while]; rewrite Hc, Hb;
    destruct ((1 <=? y) && (bd <=? dim y bm));
    try (injection H as <-; reflexivity);
    destruct (y <? 1); try discriminate.
  apply IH. exact H.
Qed.

(* HEADLINE: whenever the model's safe_anchor succeeds, the translated _get_safe_anchor (all four
   frequencies, including the two step-back loops) returns the same day, with the model's fuel *)
Theorem g_recur_safe_anchor_eq (r : rule) (sd d : Z) :
  safe_anchor r sd = Some d -> g_safe_anchor_of (S BACK_FUEL) r sd = RDone d.
Proof.
  unfold g_safe_anchor_of, g_recur_safe_anchor, safe_anchor. cbv zeta.
  rewrite base_anchor_sel. generalize BACK_FUEL as fuel. intro fuel.
  destruct (r_freq r); cbn [freq_eqb].
  - intro H. injection H as <-. reflexivity.
  - intro H. injection H as <-. reflexivity.
  - unfold day_year, day_month.
    destruct (civil_from_days (base_day r)) as [[by_ bm] bd] eqn:Eb.
    destruct (civil_from_days sd) as [[sy sm] sdd] eqn:Es.
    intro H. apply (month_back_run (r_interval r) bd); [intros [[? ?] ?]; reflexivity| |exact H].
    intro abs. unfold day_replace_ym. rewrite Eb.
    destruct ((1 <=? abs / 12) && (bd <=? dim (abs / 12) (abs mod 12 + 1))); reflexivity.
  - unfold day_year.
    destruct (civil_from_days (base_day r)) as [[by_ bm] bd] eqn:Eb.
    destruct (civil_from_days sd) as [[sy sm] sdd] eqn:Es.
    intro H. apply (year_back_run (r_interval r) bm bd); [reflexivity| |exact H].
    intro y. unfold day_replace_y. rewrite Eb.
    destruct ((1 <=? y) && (bd <=? dim y bm)); reflexivity.
Qed.

Print Assumptions g_recur_safe_anchor_eq.

(* the two translated functions composed: _fetch_forward calling the translated _get_safe_anchor *)
Definition gen_anchor (r : rule) (sd : Z) : Z :=
  match g_safe_anchor_of (S BACK_FUEL) r sd with RDone d => d | _ => 0 end.

Corollary g_recur_fetch_forward_composed_eq (r : rule) (a b : Z) (l : list ivl) :
  fetch_forward r a b = Ok l ->
  g_forward_of r (gen_anchor r) (model_rrule r b) (Some a) (Some b) = RDone l.
Proof.
  apply g_recur_fetch_forward_eq. intros sd d H. unfold gen_anchor.
  rewrite (g_recur_safe_anchor_eq r sd d H). reflexivity.
Qed.

Print Assumptions g_recur_fetch_forward_composed_eq.

(* all three composed: _fetch_reverse paging over the translated _fetch_forward, which calls the
   translated _get_safe_anchor *)
Definition gen_fwd (r : rule) (cs ce : Z) : list ivl :=
  match g_forward_of r (gen_anchor r) (model_rrule r ce) (Some cs) (Some ce) with RDone l => l | _ => [] end.

Corollary g_recur_fetch_reverse_composed_eq (r : rule) (start : option Z) (e : Z) (l : list ivl) :
  fetch_reverse_opt r start e = Ok l ->
  g_recur_fetch_reverse (reverse_fuel r start e) (r_freq r) (gen_fwd r) start (Some e) = RDone l.
Proof.
  apply g_recur_fetch_reverse_eq. intros cs ce l' H. unfold gen_fwd.
  rewrite (g_recur_fetch_forward_composed_eq r cs ce l' H). reflexivity.
Qed.

Print Assumptions g_recur_fetch_reverse_composed_eq.

(* ------------------------------------------------------------------------------------------ *)
(* Non-vacuity: the hypotheses "the model's fetch succeeds" hold on concrete patterns, and the  *)
(* generated definitions compute the expected lists there.                                      *)

(* every 2nd day at 09:00 UTC for one hour, one exdate *)
Definition ex_daily : rule :=
  mkRule Daily 2 [] [] [] [] [1704272400] None 32400 3600 utc_zone.
(* monthly on the 31st (anchored 2024-01-31 00:00 UTC): the step-back loop runs *)
Definition ex_monthly31 : rule :=
  mkRule Monthly 1 [] [] [] [] [] (Some 1706659200) 0 3600 utc_zone.

Example ex_forward_hyp :
  exists l, fetch_forward ex_daily 1704067200 1704672000 = Ok l /\ length l = 3%nat /\
            g_forward_of ex_daily (gen_anchor ex_daily) (model_rrule ex_daily 1704672000)
                         (Some 1704067200) (Some 1704672000) = RDone l.
Proof. eexists. split; [vm_compute; reflexivity|]. split; vm_compute; reflexivity. Qed.

Example ex_reverse_hyp :
  exists l, fetch_reverse_opt ex_daily (Some 1704067200) 1704672000 = Ok l /\ length l = 3%nat /\
            g_recur_fetch_reverse (reverse_fuel ex_daily (Some 1704067200) 1704672000) Daily
                                  (gen_fwd ex_daily) (Some 1704067200) (Some 1704672000) = RDone l.
Proof. eexists. split; [vm_compute; reflexivity|]. split; vm_compute; reflexivity. Qed.

(* 2024-02-10 looked at from a 31st-of-month anchor: February has no 31st, the loop steps back *)
Example ex_anchor_stepback :
  safe_anchor ex_monthly31 19763 = Some 19753 /\
  g_safe_anchor_of (S BACK_FUEL) ex_monthly31 19763 = RDone 19753.
Proof. split; vm_compute; reflexivity. Qed.

(* ------------------------------------------------------------------------------------------ *)
(* headline theorems of the property files restated on the GENERATED definitions              *)
From CG Require Import Spec.RecurSpec Proofs.RecurP Proofs.RecurExact Proofs.RecurExact2.
From Coq Require Import Sorting.Sorted.

Theorem src_forward_exact : forall r a b l,
  lists_ok r -> 0 < r_interval r -> rule_accepted r -> zone_spread_ok (r_zone r) = true ->
  fetch_forward r a b = Ok l ->
  g_forward_of r (gen_anchor r) (model_rrule r b) (Some a) (Some b) = RDone (spec_occurrences r a b).
Proof.
  intros r a b l H1 H2 H3 H4 H.
  rewrite (g_recur_fetch_forward_composed_eq r a b l H).
  f_equal. eapply C07_forward_exact; eassumption.
Qed.
Print Assumptions src_forward_exact.

Theorem src_reverse_is_rev_forward : forall (r : rule) (occs : list ivl),
  (forall a b, fetch_forward r a b =
               Ok (filter (fun i => (a <? fend i) && (fstart i <=? b)) occs)) ->
  StronglySorted (fun x y => fstart x <= fstart y) occs ->
  Forall (fun i => fstart i < fend i) occs ->
  forall a b, a < b ->
    g_recur_fetch_reverse (reverse_fuel r (Some a) b) (r_freq r) (gen_fwd r) (Some a) (Some b)
    = RDone (rev (filter (fun i => (a <? fend i) && (fstart i <=? b)) occs)).
Proof.
  intros r occs Hf Hs Hp a b Hab.
  apply g_recur_fetch_reverse_composed_eq.
  exact (fetch_reverse_is_rev_forward r occs Hf Hs Hp a b Hab).
Qed.
Print Assumptions src_reverse_is_rev_forward.
