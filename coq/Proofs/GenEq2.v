(* Proofs/GenEq2.v — tie C for calgebra/recurrence.py: the definitions generated from the source
   text of RecurringPattern._fetch_forward / _fetch_reverse / _get_safe_anchor (Gen/Source.v)
   equal the model functions of Model/Recur.v the C07 / C08 / C04 / C16 theorems are stated about.

   The generated definitions are parametric in an abstract type DT of datetime values and in the
   library calls (datetime.fromtimestamp, rrule, ...).  They are instantiated here the way
   Model/Recur.v views them: a datetime that is only used through its date is its day number. *)
From CG Require Import Model.Loop Gen.Source Model.Recur.
From Coq Require Import Lia.

(* ------------------------------------------------------------------------------------------ *)
(* _fetch_forward                                                                              *)

(* the abstracted callees, read off the model; outside the model's success cases they take a
   default that no theorem below depends on *)
Definition occ_ivl (r : rule) (d : Z) : ivl :=
  match occurrence_to_interval r d with Some i => i | None => mkI None None Plain end.
Definition anchor_or (r : rule) (sd : Z) : Z :=
  match safe_anchor r sd with Some d => d | None => 0 end.

(* the generated _fetch_forward of the pattern [r], over a given rrule stream *)
Definition g_forward_of (r : rule) (rrule_of : Z -> list Z) (a b : option Z) : res (list ivl) :=
  g_recur_fetch_forward (DT := Z) (r_freq r) (r_interval r) (r_dur r) (r_exdates r)
                        (local_day (r_zone r)) (anchor_or r) (fun d => d) rrule_of (occ_ivl r) a b.

(* one pass of the body of "for occurrence in rules", on the interval of the occurrence *)
Definition fwd_step (r : rule) (a b : Z) (i : ivl) : list ivl * unit * ctl :=
  if zmem (fstart i) (r_exdates r) then ([], tt, Cont)
  else if fend i <=? a then ([], tt, Cont)
  else if b <? fstart i then ([], tt, Brk)
  else ([i], tt, Cont).

Lemma oti_shape r d i :
  occurrence_to_interval r d = Some i -> exists ts te, i = mkI (Some ts) (Some te) Plain.
Proof.
  unfold occurrence_to_interval. destruct ((r_sod r <? 0) || (DAY <=? r_sod r)); [discriminate|].
  intro H. injection H as <-. eauto.
Qed.

Lemma stream_period_run r a b (body : unit -> Z -> list ivl * unit * ctl) post :
  (forall d i, occurrence_to_interval r d = Some i -> body tt d = fwd_step r a b i) ->
  forall occ rest l stop,
    stream_period r a b occ = Some (l, stop) ->
    run_for body post tt (occ ++ rest) = l ++ (if stop then post tt else run_for body post tt rest).
Proof.
  intros Hb. induction occ as [|d occ IH]; intros rest l stop H; cbn [stream_period] in H.
  - injection H as <- <-. reflexivity.
  - destruct (occurrence_to_interval r d) as [i|] eqn:Ei; [|discriminate].
    cbn [app run_for]. rewrite (Hb d i Ei). unfold fwd_step.
    destruct (zmem (fstart i) (r_exdates r)); [cbn [app]; apply IH; exact H|].
    destruct (fend i <=? a); [cbn [app]; apply IH; exact H|].
    destruct (b <? fstart i).
    + injection H as <- <-. reflexivity.
    + destruct (stream_period r a b occ) as [[l' stop']|] eqn:E; [|discriminate].
      injection H as <- <-. cbn [app]. f_equal. apply IH. reflexivity.
Qed.

Lemma stream_go_run r q a b (body : unit -> Z -> list ivl * unit * ctl) post :
  (forall d i, occurrence_to_interval r d = Some i -> body tt d = fwd_step r a b i) ->
  forall fuel st l,
    stream_go fuel r q a b st = Ok l ->
    run_for body post tt (rrule_periods q st fuel) = l ++ post tt.
Proof.
  intros Hb. induction fuel as [|f IH]; intros st l H; cbn [stream_go] in H; [discriminate|].
  cbn [rrule_periods].
  destruct (stream_period r a b (period_occ q st)) as [[l1 [|]]|] eqn:E; [| |discriminate].
  - injection H as <-. rewrite (stream_period_run r a b body post Hb _ _ _ _ E). reflexivity.
  - destruct (stream_go f r q a b (next_state q st)) as [l'| |] eqn:E2; try discriminate.
    injection H as <-. rewrite (stream_period_run r a b body post Hb _ _ _ _ E).
    rewrite (IH _ _ E2). rewrite app_assoc. reflexivity.
Qed.

(* the look-back ladder *)
Lemma lookback_ladder f k dur :
  (let lookback_buffer := dur in
   if freq_eqb f Daily then lookback_buffer + k * 86400
   else if freq_eqb f Weekly then lookback_buffer + k * 604800
   else if freq_eqb f Monthly then lookback_buffer + k * 32 * 86400
   else if freq_eqb f Yearly then lookback_buffer + k * 366 * 86400
   else lookback_buffer) = dur + k * period_secs f.
Proof. destruct f; cbn; unfold DAY; lia. Qed.

(* The rrule stream of the model: the occurrences of the first [fuel_for] periods from the
   dtstart (rrule itself is endless; the model's fuel is enough to reach the `break`). *)
Definition model_rrule (r : rule) (b : Z) (dtstart : Z) : list Z :=
  let q := rr_of r dtstart in rrule_periods q (init_state q) (fuel_for r dtstart b).

(* HEADLINE: whenever the model's forward fetch succeeds, the code's _fetch_forward (as
   translated from its source text), run on the model's rrule stream, returns the same list *)
Theorem g_recur_fetch_forward_eq (r : rule) (a b : Z) (l : list ivl) :
  fetch_forward r a b = Ok l ->
  g_forward_of r (model_rrule r b) (Some a) (Some b) = RDone l.
Proof.
  unfold fetch_forward, g_forward_of, g_recur_fetch_forward. cbv zeta.
  intro H.
  match goal with
  | |- context [local_day (r_zone r) (a - ?lb)] =>
    replace lb with (lookback_buffer r)
      by (unfold lookback_buffer; symmetry; apply (lookback_ladder (r_freq r) (r_interval r) (r_dur r)))
  end.
  unfold anchor_or.
  destruct (safe_anchor r (local_day (r_zone r) (a - lookback_buffer r))) as [dtstart|]; [|discriminate].
  f_equal. unfold model_rrule. cbv zeta.
  rewrite (stream_go_run r (rr_of r dtstart) a b _ _ ) with (l := l); [apply app_nil_r| |exact H].
  intros d i Ei. unfold occ_ivl. rewrite Ei.
  destruct (oti_shape r d i Ei) as (ts & te & ->).
  unfold fwd_step, fstart, fend, is_none, ozd. cbn [st en negb andb].
  destruct (zmem ts (r_exdates r)); [reflexivity|].
  destruct (te <=? a); [reflexivity|].
  rewrite Z.gtb_ltb. destruct (b <? ts); reflexivity.
Qed.

(* start=None raises ValueError, whatever the rest *)
Theorem g_recur_fetch_forward_unbounded (r : rule) rr b :
  g_forward_of r rr None b = RRaise ValueError.
Proof. reflexivity. Qed.

Print Assumptions g_recur_fetch_forward_eq.
Print Assumptions g_recur_fetch_forward_unbounded.
