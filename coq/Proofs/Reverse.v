(* Proofs/Reverse.v — property C04: reverse iteration (step -1).
   The code never sweeps backwards: Union merges the reversed operand streams with the key
   (-start, -end); Intersection, Difference and Complement fetch their operands reversed, negate
   time (_negate_stream), run the forward sweep and negate the result back.
   Results (operator by operator, each on the domain where the device is exact):
   - the two slice bounds may be written in either order;
   - Stored: the reverse fetch is the [rev] of the forward fetch;
   - Union: the reverse merge is a permutation of the forward merge, sorted descending by key; when
     events with equal keys are equal it is the [rev] of the forward merge;
   - Complement: negate / sweep / negate back is the [rev] of the forward sweep whenever the source
     is sorted by start AND its ends are monotone (in particular: disjoint_sorted);
   - Difference: the same, for a disjoint source and subtractors sorted by start with monotone ends;
   - Filter, Buffer, MergeWithin, Solid: reversal commutes;
   - hence "first n of the reverse slice = last n of the forward slice";
   - the nested-event defect is kept as a closed witness (C04_nested_refuted).
   Intersection (k-way) is not treated here. *)
From CG Require Import Proofs.Defs Proofs.Negate Proofs.Compl Proofs.Canon.
From CG Require Proofs.Diff Proofs.Merge Proofs.Stored.

(* ------------------------------------------------------------------------------------ *)
(* 1. the bounds of a slice may be written in either order *)

Lemma norm_bounds_swap x y : norm_bounds (Some x) (Some y) = norm_bounds (Some y) (Some x).
Proof.
  unfold norm_bounds. destruct (x >? y) eqn:E1; destruct (y >? x) eqn:E2; try reflexivity; try lia.
  assert (x = y) by lia. subst. reflexivity.
Qed.

Theorem bounds_swap env e x y rv :
  slice env e (Some x) (Some y) rv = slice env e (Some y) (Some x) rv.
Proof. unfold slice. rewrite (norm_bounds_swap x y). reflexivity. Qed.

Theorem norm_bounds_idem a b :
  norm_bounds (fst (norm_bounds a b)) (snd (norm_bounds a b)) = norm_bounds a b.
Proof.
  unfold norm_bounds. destruct a as [x|], b as [y|]; try reflexivity.
  destruct (x >? y) eqn:E1; cbn [fst snd]; [|rewrite E1; reflexivity].
  destruct (y >? x) eqn:E2; [lia|reflexivity].
Qed.

(* the normalised bounds are ordered, and they are the two given bounds *)
Lemma norm_bounds_ordered x y :
  norm_bounds (Some x) (Some y) = (Some (Z.min x y), Some (Z.max x y)).
Proof.
  unfold norm_bounds. destruct (x >? y) eqn:E.
  - rewrite Z.min_r, Z.max_l by lia. reflexivity.
  - rewrite Z.min_l, Z.max_r by lia. reflexivity.
Qed.

(* slicing an already normalised window changes nothing *)
Corollary slice_norm env e a b rv :
  slice env e (fst (norm_bounds a b)) (snd (norm_bounds a b)) rv = slice env e a b rv.
Proof.
  unfold slice at 1. rewrite norm_bounds_idem. unfold slice.
  destruct (norm_bounds a b) as [a' b']. reflexivity.
Qed.

(* ------------------------------------------------------------------------------------ *)
(* 7. reversed lists: same multiset, first n = last n *)

Definition is_reverse (r f : list ivl) : Prop := r = rev f.

Lemma is_reverse_perm r f : is_reverse r f -> Permutation r f.
Proof. intros ->. apply Permutation_sym, Permutation_rev. Qed.

Theorem last_n (r f : list ivl) n :
  r = rev f -> firstn n r = rev (skipn (length f - n) f).
Proof. intros ->. apply firstn_rev. Qed.

(* the n newest events, newest first, are the last n of the forward list *)
Corollary last_n_rev (r f : list ivl) n :
  r = rev f -> rev (firstn n r) = skipn (length f - n) f.
Proof. intro H. rewrite (last_n r f n H). apply rev_involutive. Qed.

(* ------------------------------------------------------------------------------------ *)
(* 2. Stored *)

Theorem stored_reverse env evs a b :
  fetch env (Stored evs) a b true = rev (fetch env (Stored evs) a b false).
Proof.
  cbn [fetch]. exact (proj2 (Stored.fetch_static_spec (sl_build evs) a b (Stored.sl_build_sorted evs))).
Qed.

(* ------------------------------------------------------------------------------------ *)
(* the easy operators: reversal commutes *)

Theorem solid_reverse env a b : fetch env Solid a b true = rev (fetch env Solid a b false).
Proof. reflexivity. Qed.

Lemma filter_rev {A} (f : A -> bool) l : filter f (rev l) = rev (filter f l).
Proof.
  induction l as [|x r IH]; [reflexivity|]. simpl. rewrite filter_app, IH. simpl.
  destruct (f x); simpl; [reflexivity|apply app_nil_r].
Qed.

Theorem filt_reverse env s f a b :
  fetch env s a b true = rev (fetch env s a b false) ->
  fetch env (Filt s f) a b true = rev (fetch env (Filt s f) a b false).
Proof. intro H. cbn [fetch]. rewrite H. apply filter_rev. Qed.

Theorem buf_reverse env s before after a b :
  fetch env s (addO a (- after)) (addO b before) true =
    rev (fetch env s (addO a (- after)) (addO b before) false) ->
  fetch env (Buf s before after) a b true = rev (fetch env (Buf s before after) a b false).
Proof. intro H. cbn [fetch]. rewrite H. apply map_rev. Qed.

Theorem mergew_reverse env s g a b :
  fetch env (MergeW s g) a b true = rev (fetch env (MergeW s g) a b false).
Proof. reflexivity. Qed.

(* ------------------------------------------------------------------------------------ *)
(* 3. Union: heapq.merge of the reversed streams with the key (-start, -end) *)

Import Merge.

Lemma sorted_le_app le l1 l2 :
  sorted_le le (l1 ++ l2) <->
  sorted_le le l1 /\ sorted_le le l2 /\ (forall x y, In x l1 -> In y l2 -> le x y = true).
Proof.
  induction l1 as [|a l1 IH]; simpl.
  - split; [intro H; repeat split; auto; intros ? ? []|tauto].
  - rewrite IH. split.
    + intros (H1 & H2 & H3 & H4). repeat split; auto.
      * intros y Hy. apply H1, in_or_app. auto.
      * intros x y [<-|Hx] Hy; [apply H1, in_or_app; auto|apply H4; auto].
    + intros ((H1 & H2) & H3 & H4). repeat split; auto.
      intros y Hy. apply in_app_or in Hy as [Hy|Hy]; [apply H1|apply H4]; auto.
Qed.

(* reversing a sorted list sorts it for the opposite order *)
Lemma sorted_le_rev le l : sorted_le le l -> sorted_le (fun a b => le b a) (rev l).
Proof.
  induction l as [|x r IH]; simpl; [tauto|]. intros [Hx Hr]. apply sorted_le_app.
  split; [apply IH, Hr|]. split; [simpl; split; [intros ? []|exact I]|].
  intros a b Ha [<-|[]]. apply Hx, in_rev, Ha.
Qed.

Lemma sorted_key_le_rev l : sorted_le key_le l -> sorted_le key_ge (rev l).
Proof. intro H. exact (sorted_le_rev key_le l H). Qed.

Lemma sorted_key_ge_rev l : sorted_le key_ge l -> sorted_le key_le (rev l).
Proof. intro H. exact (sorted_le_rev key_ge l H). Qed.

Lemma concat_map_rev_perm (fs : list (list ivl)) :
  Permutation (concat (map (@rev ivl) fs)) (concat fs).
Proof.
  induction fs as [|f r IH]; [constructor|]. cbn [map concat].
  apply Permutation_app; [apply Permutation_sym, Permutation_rev|exact IH].
Qed.

(* the reverse merge returns the same multiset as the forward merge, newest first *)
Theorem union_reverse_perm fs :
  Forall (sorted_le key_le) fs ->
  Permutation (merge_by lt_rev (map (@rev ivl) fs)) (merge_by lt_fwd fs) /\
  sorted_le key_ge (merge_by lt_rev (map (@rev ivl) fs)).
Proof.
  intro Hs. split.
  - eapply Permutation_trans; [apply merge_perm|].
    eapply Permutation_trans; [apply concat_map_rev_perm|]. apply Permutation_sym, merge_perm.
  - apply merge_rev_sorted. apply Forall_forall. intros l Hl.
    apply in_map_iff in Hl as [f [<- Hf]]. apply sorted_key_le_rev.
    exact (proj1 (Forall_forall _ _) Hs f Hf).
Qed.

(* a sorted list is determined by its multiset as soon as the order is antisymmetric on its
   elements (elements that compare equal are equal) *)
Lemma sorted_perm_unique (le : ivl -> ivl -> bool) : forall l1 l2,
  (forall a b, In a l1 -> In b l1 -> le a b = true -> le b a = true -> a = b) ->
  sorted_le le l1 -> sorted_le le l2 -> Permutation l1 l2 -> l1 = l2.
Proof.
  induction l1 as [|x r1 IH]; intros l2 Hanti S1 S2 P.
  - apply Permutation_nil in P. subst. reflexivity.
  - destruct l2 as [|y r2]; [apply Permutation_sym, Permutation_nil in P; discriminate P|].
    destruct S1 as [S1h S1t]. destruct S2 as [S2h S2t].
    assert (Hxy : x = y).
    { assert (Hx : In x (y :: r2)) by (eapply Permutation_in; [exact P|left; reflexivity]).
      assert (Hy : In y (x :: r1)) by (eapply Permutation_in; [apply Permutation_sym; exact P|left; reflexivity]).
      destruct Hx as [Hx|Hx]; [symmetry; exact Hx|]. destruct Hy as [Hy|Hy]; [exact Hy|].
      apply Hanti; [left; reflexivity|right; exact Hy|apply S1h; exact Hy|apply S2h; exact Hx]. }
    subst y. f_equal. apply IH; auto.
    + intros a b Ha Hb. apply Hanti; right; assumption.
    + eapply Permutation_cons_inv; exact P.
Qed.

(* events are identified by their key: no two different events share (finite_start, finite_end) *)
Definition key_inj (l : list ivl) : Prop :=
  forall a b, In a l -> In b l -> fstart a = fstart b -> fend a = fend b -> a = b.

Definition keys (l : list ivl) : list (Z * Z) := map (fun i => (fstart i, fend i)) l.

(* in particular when all keys occurring are pairwise distinct *)
Lemma NoDup_keys_inj l : NoDup (keys l) -> key_inj l.
Proof.
  unfold key_inj. induction l as [|x r IH]; intros Hn a b Ha Hb Hs He; [destruct Ha|].
  cbn [keys map] in Hn. inversion Hn as [|? ? Hnot Hn']; subst.
  assert (Hk : forall c, In c r -> fstart c = fstart x -> fend c = fend x -> False).
  { intros c Hc E1 E2. apply Hnot. unfold keys. apply in_map_iff. exists c.
    split; [rewrite E1, E2; reflexivity|exact Hc]. }
  destruct Ha as [<-|Ha], Hb as [<-|Hb].
  - reflexivity.
  - exfalso. apply (Hk b Hb); congruence.
  - exfalso. apply (Hk a Ha); congruence.
  - apply IH; auto.
Qed.

Lemma key_le_antisym a b :
  key_le a b = true -> key_le b a = true -> fstart a = fstart b /\ fend a = fend b.
Proof. unfold key_le. lia. Qed.

(* sorted lists whose events are identified by their key are determined by their multiset *)
Corollary sorted_key_perm_unique l1 l2 :
  key_inj l1 -> sorted_le key_le l1 -> sorted_le key_le l2 -> Permutation l1 l2 -> l1 = l2.
Proof.
  intros Hk. apply sorted_perm_unique. intros a b Ha Hb H1 H2.
  destruct (key_le_antisym a b H1 H2). apply Hk; auto.
Qed.

(* then the reverse merge IS the forward merge reversed *)
Theorem union_reverse fs :
  Forall (sorted_le key_le) fs -> key_inj (concat fs) ->
  merge_by lt_rev (map (@rev ivl) fs) = rev (merge_by lt_fwd fs).
Proof.
  intros Hs Hk. destruct (union_reverse_perm fs Hs) as [P S].
  apply (sorted_perm_unique key_ge).
  - intros a b Ha Hb H1 H2. unfold key_ge in H1, H2.
    destruct (key_le_antisym b a H1 H2) as [E1 E2].
    assert (In' : forall c, In c (merge_by lt_rev (map (@rev ivl) fs)) -> In c (concat fs)).
    { intros c Hc. eapply Permutation_in; [apply merge_perm|].
      eapply Permutation_in; [exact P|exact Hc]. }
    apply Hk; auto.
  - exact S.
  - apply sorted_key_le_rev, merge_fwd_sorted, Hs.
  - eapply Permutation_trans; [exact P|apply Permutation_rev].
Qed.

Corollary union_reverse_nodup fs :
  Forall (sorted_le key_le) fs -> NoDup (keys (concat fs)) ->
  merge_by lt_rev (map (@rev ivl) fs) = rev (merge_by lt_fwd fs).
Proof. intros Hs Hn. apply union_reverse; [exact Hs|apply NoDup_keys_inj, Hn]. Qed.

Lemma map_fetch_rev env es a b :
  (forall s, In s es -> fetch env s a b true = rev (fetch env s a b false)) ->
  map (fun s => fetch env s a b true) es = map (@rev ivl) (map (fun s => fetch env s a b false) es).
Proof. intro H. rewrite map_map. apply map_ext_in. exact H. Qed.

(* the Union node of [fetch] *)
Theorem union_fetch_reverse_perm env es a b :
  (forall s, In s es -> fetch env s a b true = rev (fetch env s a b false)) ->
  (forall s, In s es -> sorted_le key_le (fetch env s a b false)) ->
  Permutation (fetch env (Union es) a b true) (fetch env (Union es) a b false) /\
  sorted_le key_ge (fetch env (Union es) a b true).
Proof.
  intros Hr Hs. cbn [fetch]. rewrite (map_fetch_rev env es a b Hr). apply union_reverse_perm.
  apply Forall_forall. intros l Hl. apply in_map_iff in Hl as [s [<- Hin]]. apply Hs, Hin.
Qed.

Theorem union_fetch_reverse env es a b :
  (forall s, In s es -> fetch env s a b true = rev (fetch env s a b false)) ->
  (forall s, In s es -> sorted_le key_le (fetch env s a b false)) ->
  key_inj (concat (map (fun s => fetch env s a b false) es)) ->
  fetch env (Union es) a b true = rev (fetch env (Union es) a b false).
Proof.
  intros Hr Hs Hk. cbn [fetch]. rewrite (map_fetch_rev env es a b Hr). apply union_reverse; [|exact Hk].
  apply Forall_forall. intros l Hl. apply in_map_iff in Hl as [s [<- Hin]]. apply Hs, Hin.
Qed.

(* the identification hypothesis is needed: two different events with one key come out in stream
   order in both directions, so the reverse merge is not the reversed forward merge *)
Example union_tie_not_reversed :
  let x := mkI (Some 0) (Some 5) (Rich 1) in
  let y := mkI (Some 0) (Some 5) (Rich 2) in
  merge_by lt_fwd [[x]; [y]] = [x; y] /\
  merge_by lt_rev (map (@rev ivl) [[x]; [y]]) = [x; y] /\
  merge_by lt_rev (map (@rev ivl) [[x]; [y]]) <> rev (merge_by lt_fwd [[x]; [y]]).
Proof. vm_compute. repeat split; try reflexivity. intro H. discriminate H. Qed.

(* ------------------------------------------------------------------------------------ *)
(* 4. Complement: negate, sweep forward over the mirrored window, negate back *)

Lemma separatedP_pw l : separatedP l <-> pairwiseP (fun x y => fend x < fstart y) l.
Proof. induction l as [|x r IH]; simpl; [tauto|]. rewrite IH. tauto. Qed.

(* mirroring and reversing keeps strict separation *)
Lemma separatedP_neg_rev l : separatedP l -> separatedP (rev (neg_stream l)).
Proof.
  intro H. rewrite separatedP_pw, pairwiseP_rev. unfold neg_stream. rewrite pairwiseP_map.
  apply separatedP_pw in H. revert H. apply pairwiseP_impl.
  intros x y _ _ H. rewrite fstart_neg, fend_neg. lia.
Qed.

Lemma bnd_lo_negO b : bnd_lo (negO b) = - bnd_hi b.
Proof. destruct b; reflexivity. Qed.

Lemma bnd_hi_negO a : bnd_hi (negO a) = - bnd_lo a.
Proof. destruct a; reflexivity. Qed.

(* the mirrored window [-b,-a) is a window *)
Lemma wf_win_neg a b : wf_win a b -> wf_win (negO b) (negO a).
Proof.
  intros (Ha & Hb & Hlt). unfold wf_win. rewrite bnd_lo_negO, bnd_hi_negO. split; [|split].
  - intros z Hz. destruct b as [y|]; [|discriminate Hz]. injection Hz as <-.
    specialize (Hb y eq_refl). rewrite sentinels_opp. lia.
  - intros z Hz. destruct a as [x|]; [|discriminate Hz]. injection Hz as <-.
    specialize (Ha x eq_refl). rewrite sentinels_opp'. lia.
  - lia.
Qed.

(* the mirror image of a canonical gap of [-hi,-lo) is a canonical gap of [lo,hi) *)
Lemma good_gap_neg lo hi g : good_gap (- hi) (- lo) g -> good_gap lo hi (neg_ivl g).
Proof.
  intros (Hp & H1 & H2 & H3 & [Hs1 Hs2] & [He1 He2]). unfold good_gap.
  rewrite fstart_neg, fend_neg. split; [exact Hp|]. split; [lia|]. split; [lia|]. split; [lia|].
  unfold neg_ivl; cbn [st en]. split; split.
  - intro E. destruct (en g) as [z|]; [discriminate E|]. rewrite (He1 eq_refl). reflexivity.
  - intro E. assert (E' : fend g = POS_INF) by (rewrite sentinels_opp in E; lia).
    rewrite (He2 E'). reflexivity.
  - intro E. destruct (st g) as [z|]; [discriminate E|]. rewrite (Hs1 eq_refl). reflexivity.
  - intro E. assert (E' : fstart g = NEG_INF) by (rewrite sentinels_opp' in E; lia).
    rewrite (Hs2 E'). reflexivity.
Qed.

Lemma canonP_neg_rev lo hi l : canonP (- hi) (- lo) l -> canonP lo hi (rev (neg_stream l)).
Proof.
  intros [G S]. split; [|apply separatedP_neg_rev, S].
  intros g Hg. apply in_rev in Hg. apply in_map_iff in Hg as [g0 [<- Hg0]].
  apply good_gap_neg, G, Hg0.
Qed.

Lemma covers_rev l t : covers (rev l) t = covers l t.
Proof. apply covers_perm, Permutation_sym, Permutation_rev. Qed.

(* Domain: the source is sorted by start and so is the negation of its reversal, i.e. (by
   negate_sorted_iff_monotone_ends_gen) the ends of the reversed source never increase.  Overlapping
   events are allowed as long as none is nested in (or outlasted by) an earlier-starting one. *)
Theorem compl_reverse_mono xs a b :
  wf_win a b -> Forall wf_ivl xs -> sorted_start xs -> sorted_start (neg_stream (rev xs)) ->
  neg_stream (compl_sweep (neg_stream (rev xs)) (negO b) (negO a)) = rev (compl_sweep xs a b).
Proof.
  intros Hw Hwf Hs Hs'.
  set (L := compl_sweep (neg_stream (rev xs)) (negO b) (negO a)).
  assert (Hw' := wf_win_neg a b Hw).
  assert (Hwf' : Forall wf_ivl (neg_stream (rev xs))).
  { apply neg_stream_wf. apply Forall_forall. intros x Hx. apply in_rev in Hx.
    exact (proj1 (Forall_forall _ _) Hwf x Hx). }
  assert (E : rev (neg_stream L) = compl_sweep xs a b).
  { apply (canonical_unique (bnd_lo a) (bnd_hi b)).
    - apply canonP_neg_rev. rewrite <- bnd_lo_negO, <- bnd_hi_negO.
      apply compl_canonP; assumption.
    - apply compl_canonP; assumption.
    - intros t Ht. rewrite covers_rev, covers_neg_stream. unfold L.
      rewrite compl_cover; auto.
      + rewrite covers_neg_stream, covers_rev. rewrite compl_cover; auto.
        do 2 f_equal. lia.
      + rewrite bnd_lo_negO, bnd_hi_negO. lia. }
  rewrite <- E. rewrite rev_involutive. reflexivity.
Qed.

(* the same domain, said with the predicate of Negate.v *)
Corollary compl_reverse_mono_ends xs a b :
  wf_win a b -> Forall wf_ivl xs -> sorted_start xs -> mono_ends_desc (rev xs) ->
  neg_stream (compl_sweep (neg_stream (rev xs)) (negO b) (negO a)) = rev (compl_sweep xs a b).
Proof.
  intros Hw Hwf Hs Hm. apply compl_reverse_mono; auto.
  apply negate_sorted_iff_monotone_ends_gen, Hm.
Qed.

(* as asked: pairwise non-overlapping sources *)
Theorem compl_reverse xs a b :
  wf_win a b -> Forall wf_ivl xs -> disjoint_sorted xs ->
  neg_stream (compl_sweep (neg_stream (rev xs)) (negO b) (negO a)) = rev (compl_sweep xs a b).
Proof.
  intros Hw Hwf Hd. apply compl_reverse_mono; auto.
  - apply disjoint_sorted_sorted; assumption.
  - exact (proj2 (proj2 (neg_rev_disjoint_sorted (rev xs) xs eq_refl Hwf Hd))).
Qed.

(* the Compl node of [fetch] *)
Theorem compl_fetch_reverse env s a b :
  wf_win a b ->
  fetch env s a b true = rev (fetch env s a b false) ->
  Forall wf_ivl (fetch env s a b false) -> sorted_start (fetch env s a b false) ->
  mono_ends_desc (rev (fetch env s a b false)) ->
  fetch env (Compl s) a b true = rev (fetch env (Compl s) a b false).
Proof. intros Hw Hr Hwf Hs Hm. cbn [fetch]. rewrite Hr. apply compl_reverse_mono_ends; assumption. Qed.

(* the reverse result is again a reverse-ordered canonical mask: its reversal is canonical *)
Corollary compl_reverse_canonical xs a b :
  wf_win a b -> Forall wf_ivl xs -> disjoint_sorted xs ->
  canonical a b (rev (neg_stream (compl_sweep (neg_stream (rev xs)) (negO b) (negO a)))) = true.
Proof.
  intros Hw Hwf Hd. rewrite compl_reverse by assumption. rewrite rev_involutive.
  apply compl_sweep_canonical; auto. apply disjoint_sorted_sorted; assumption.
Qed.

(* ------------------------------------------------------------------------------------ *)
(* 5. Difference: negate source and subtractors, sweep forward, negate back *)

Lemma run_ok_neg p f : Diff.run_ok p f -> Diff.run_ok p (neg_ivl f).
Proof.
  intros (Hp & Hl & [Hs1 Hs2] & [He1 He2]). unfold Diff.run_ok, Diff.enc_ok.
  rewrite fstart_neg, fend_neg. split; [exact Hp|]. split; [lia|].
  unfold neg_ivl; cbn [st en]. split; split.
  - intro E. destruct (en f) as [z|]; [discriminate E|]. rewrite (He1 eq_refl). reflexivity.
  - intro E. assert (E' : fend f = POS_INF) by (rewrite sentinels_opp in E; lia).
    rewrite (He2 E'). reflexivity.
  - intro E. destruct (st f) as [z|]; [discriminate E|]. rewrite (Hs1 eq_refl). reflexivity.
  - intro E. assert (E' : fstart f = NEG_INF) by (rewrite sentinels_opp' in E; lia).
    rewrite (Hs2 E'). reflexivity.
Qed.

(* the maximal runs of the mirrored event minus the mirrored holes are the mirrored runs, in the
   opposite order.  Only the instants covered by the holes matter. *)
Lemma minus_runs_mirror x holes holes' :
  wf_ivl x -> canon_ivl x ->
  (forall t, covers holes' t = covers holes (- t - 1)) ->
  minus_runs (neg_ivl x) holes' = neg_stream (rev (minus_runs x holes)).
Proof.
  intros Hw Hc Hcov.
  destruct (Diff.minus_runs_spec x holes Hw Hc) as (A1 & A2 & A3).
  destruct (Diff.minus_runs_spec (neg_ivl x) holes' (wf_ivl_neg x Hw) (canon_ivl_neg x Hc))
    as (B1 & B2 & B3).
  apply (Diff.runs_unique (pl x)).
  - intros f Hf. exact (Diff.frag_of_run_ok (neg_ivl x) f (B1 f Hf)).
  - intros f Hf. apply in_map_iff in Hf as [f0 [<- Hf0]]. apply in_rev in Hf0.
    apply run_ok_neg, Diff.frag_of_run_ok, A1, Hf0.
  - exact B2.
  - rewrite neg_stream_rev. apply separatedP_neg_rev, A2.
  - intro t. rewrite B3, covers_neg_stream, covers_rev, A3, inside_neg_reflect, Hcov. reflexivity.
Qed.

Lemma mirror_flat_map (F G : ivl -> list ivl) l :
  (forall x, In x l -> neg_stream (F (neg_ivl x)) = rev (G x)) ->
  neg_stream (flat_map F (neg_stream (rev l))) = rev (flat_map G l).
Proof.
  induction l as [|x r IH]; intro H; [reflexivity|].
  cbn [rev flat_map]. rewrite neg_stream_app, flat_map_app, neg_stream_app, rev_app_distr.
  rewrite IH by (intros y Hy; apply H; right; exact Hy). f_equal.
  cbn [neg_stream map flat_map]. rewrite app_nil_r. apply H. left; reflexivity.
Qed.

Lemma neg_rev_src_ok src :
  Forall wf_ivl src -> Forall canon_ivl src -> disjoint_sorted src ->
  Forall wf_ivl (neg_stream (rev src)) /\ Forall canon_ivl (neg_stream (rev src)) /\
  disjoint_sorted (neg_stream (rev src)).
Proof.
  intros Hwf Hcan Hd.
  destruct (neg_rev_disjoint_sorted (rev src) src eq_refl Hwf Hd) as (D & W & _).
  split; [exact W|]. split; [|exact D].
  apply Forall_forall. intros y Hy. apply in_map_iff in Hy as [x [<- Hx]]. apply in_rev in Hx.
  apply canon_ivl_neg. exact (proj1 (Forall_forall _ _) Hcan x Hx).
Qed.

(* general form: any sorted subtractor stream in negated space that covers the mirror image *)
Theorem dsweep_reverse_gen src subs subs' :
  Forall wf_ivl src -> Forall canon_ivl src -> disjoint_sorted src ->
  Forall wf_ivl subs -> sorted_start subs ->
  Forall wf_ivl subs' -> sorted_start subs' ->
  (forall t, covers subs' t = covers subs (- t - 1)) ->
  neg_stream (dsweep (neg_stream (rev src)) subs') = rev (dsweep src subs).
Proof.
  intros Hwf Hcan Hd Hws Hss Hws' Hss' Hcov.
  destruct (neg_rev_src_ok src Hwf Hcan Hd) as (W' & C' & D').
  rewrite (Diff.dsweep_minus_runs src subs) by assumption.
  rewrite (Diff.dsweep_minus_runs (neg_stream (rev src)) subs') by assumption.
  apply mirror_flat_map. intros x Hx.
  rewrite (minus_runs_mirror x subs subs').
  - apply neg_stream_involutive.
  - exact (proj1 (Forall_forall _ _) Hwf x Hx).
  - exact (proj1 (Forall_forall _ _) Hcan x Hx).
  - exact Hcov.
Qed.

Lemma covers_neg_rev l t : covers (neg_stream (rev l)) t = covers l (- t - 1).
Proof. rewrite covers_neg_stream. apply covers_rev. Qed.

Lemma neg_rev_wf l : Forall wf_ivl l -> Forall wf_ivl (neg_stream (rev l)).
Proof.
  intro H. apply neg_stream_wf. apply Forall_forall. intros x Hx. apply in_rev in Hx.
  exact (proj1 (Forall_forall _ _) H x Hx).
Qed.

(* Domain: source pairwise non-overlapping; merged subtractors sorted by start whose negated
   reversal is sorted by start too (monotone ends): overlapping subtractors are allowed, nested
   ones are not. *)
Theorem dsweep_reverse_mono src subs :
  Forall wf_ivl src -> Forall canon_ivl src -> disjoint_sorted src ->
  Forall wf_ivl subs -> sorted_start subs -> sorted_start (neg_stream (rev subs)) ->
  neg_stream (dsweep (neg_stream (rev src)) (neg_stream (rev subs))) = rev (dsweep src subs).
Proof.
  intros Hwf Hcan Hd Hws Hss Hss'. apply dsweep_reverse_gen; auto.
  - apply neg_rev_wf, Hws.
  - intro t. apply covers_neg_rev.
Qed.

Corollary dsweep_reverse_mono_ends src subs :
  Forall wf_ivl src -> Forall canon_ivl src -> disjoint_sorted src ->
  Forall wf_ivl subs -> sorted_start subs -> mono_ends_desc (rev subs) ->
  neg_stream (dsweep (neg_stream (rev src)) (neg_stream (rev subs))) = rev (dsweep src subs).
Proof.
  intros Hwf Hcan Hd Hws Hss Hm. apply dsweep_reverse_mono; auto.
  apply negate_sorted_iff_monotone_ends_gen, Hm.
Qed.

(* as asked: pairwise non-overlapping subtractors *)
Theorem dsweep_reverse src subs :
  Forall wf_ivl src -> Forall canon_ivl src -> disjoint_sorted src ->
  Forall wf_ivl subs -> disjoint_sorted subs ->
  neg_stream (dsweep (neg_stream (rev src)) (neg_stream (rev subs))) = rev (dsweep src subs).
Proof.
  intros Hwf Hcan Hd Hws Hds. apply dsweep_reverse_mono; auto.
  - apply disjoint_sorted_sorted; assumption.
  - exact (proj2 (proj2 (neg_rev_disjoint_sorted (rev subs) subs eq_refl Hws Hds))).
Qed.

(* the result of the reverse sweep, described directly: same multiset, newest first *)
Corollary dsweep_reverse_perm src subs :
  Forall wf_ivl src -> Forall canon_ivl src -> disjoint_sorted src ->
  Forall wf_ivl subs -> sorted_start subs -> mono_ends_desc (rev subs) ->
  let r := neg_stream (dsweep (neg_stream (rev src)) (neg_stream (rev subs))) in
  Permutation r (dsweep src subs) /\ pairwiseP (fun x y => fend y <= fstart x) r.
Proof.
  intros Hwf Hcan Hd Hws Hss Hm r. unfold r.
  rewrite dsweep_reverse_mono_ends by assumption. split.
  - apply Permutation_sym, Permutation_rev.
  - rewrite pairwiseP_rev. apply disjoint_sorted_pw. apply Diff.dsweep_disjoint_sorted; assumption.
Qed.

(* ---- the operator: several subtractor streams, merged in negated space ---- *)

Lemma sorted_le_pw le l : sorted_le le l <-> pairwiseP (fun x y => le x y = true) l.
Proof. induction l as [|x r IH]; simpl; [tauto|]. rewrite IH. tauto. Qed.

(* what each subtractor stream must satisfy for the negated merge to be a sorted stream *)
Definition rev_ready (s : list ivl) : Prop :=
  Forall wf_ivl s /\ sorted_le key_le s /\ mono_ends_desc (rev s).

Lemma rev_ready_neg s : rev_ready s -> sorted_le key_le (neg_stream (rev s)).
Proof.
  intros (_ & Hs & Hm). apply sorted_le_pw. apply negate_desc_key; [|exact Hm].
  unfold desc_key. rewrite pairwiseP_rev. apply sorted_le_pw in Hs. exact Hs.
Qed.

Lemma existsb_map {A B} (f : B -> bool) (g : A -> B) l :
  existsb f (map g l) = existsb (fun a => f (g a)) l.
Proof. induction l as [|a r IH]; [reflexivity|]. simpl. rewrite IH. reflexivity. Qed.

Lemma existsb_ext {A} (f g : A -> bool) l : (forall a, f a = g a) -> existsb f l = existsb g l.
Proof. intro H. induction l as [|a r IH]; [reflexivity|]. simpl. rewrite H, IH. reflexivity. Qed.

Lemma merged_wf ss : Forall (Forall wf_ivl) ss -> Forall wf_ivl (merge_by lt_fwd ss).
Proof.
  intro H. apply Forall_forall. intros x Hx. apply merge_in in Hx as [s [Hs Hxs]].
  exact (proj1 (Forall_forall _ _) (proj1 (Forall_forall _ _) H s Hs) x Hxs).
Qed.

Theorem diff_sweep_reverse src ss :
  Forall wf_ivl src -> Forall canon_ivl src -> disjoint_sorted src ->
  Forall rev_ready ss ->
  neg_stream (diff_sweep (neg_stream (rev src)) (map (fun s => neg_stream (rev s)) ss)) =
  rev (diff_sweep src ss).
Proof.
  intros Hwf Hcan Hd Hr. unfold diff_sweep. rewrite Forall_forall in Hr.
  apply dsweep_reverse_gen; auto.
  - apply merged_wf. apply Forall_forall. intros s Hs. exact (proj1 (Hr s Hs)).
  - apply merge_fwd_sorted_start. apply Forall_forall. intros s Hs.
    exact (proj1 (proj2 (Hr s Hs))).
  - apply merged_wf. apply Forall_forall. intros s' Hs'. apply in_map_iff in Hs' as [s [<- Hs]].
    apply neg_rev_wf. exact (proj1 (Hr s Hs)).
  - apply merge_fwd_sorted_start. apply Forall_forall. intros s' Hs'.
    apply in_map_iff in Hs' as [s [<- Hs]]. apply rev_ready_neg, Hr, Hs.
  - intro t. rewrite !covers_merge, existsb_map. apply existsb_ext.
    intro s. apply covers_neg_rev.
Qed.

(* the Diff node of [fetch] *)
Theorem diff_fetch_reverse env s subs a b :
  fetch env s a b true = rev (fetch env s a b false) ->
  (forall u, In u subs -> fetch env u a b true = rev (fetch env u a b false)) ->
  Forall wf_ivl (fetch env s a b false) -> Forall canon_ivl (fetch env s a b false) ->
  disjoint_sorted (fetch env s a b false) ->
  (forall u, In u subs -> rev_ready (fetch env u a b false)) ->
  fetch env (Diff s subs) a b true = rev (fetch env (Diff s subs) a b false).
Proof.
  intros Hs Hu Hwf Hcan Hd Hr. cbn [fetch]. destruct subs as [|u0 us]; [exact Hs|].
  set (subs := u0 :: us) in *. rewrite Hs.
  replace (map (fun u => neg_stream (fetch env u a b true)) subs)
    with (map (fun l => neg_stream (rev l)) (map (fun u => fetch env u a b false) subs)).
  - apply diff_sweep_reverse; auto. apply Forall_forall. intros l Hl.
    apply in_map_iff in Hl as [u [<- Hin]]. apply Hr, Hin.
  - rewrite map_map. apply map_ext_in. intros u Hin. rewrite (Hu u Hin). reflexivity.
Qed.

(* ------------------------------------------------------------------------------------ *)
(* end to end on stored timelines whose events do not overlap *)

Lemma disjoint_sorted_filter (f : ivl -> bool) l : disjoint_sorted l -> disjoint_sorted (filter f l).
Proof.
  induction l as [|x r IH]; simpl; [tauto|]. intros [Hx Hr]. destruct (f x); [|auto].
  simpl. split; [|auto]. intros y Hy. apply filter_In in Hy as [Hy _]. apply Hx, Hy.
Qed.

Lemma Forall_filter {A} (P : A -> Prop) (f : A -> bool) l : Forall P l -> Forall P (filter f l).
Proof.
  rewrite !Forall_forall. intros H x Hx. apply filter_In in Hx as [Hx _]. apply H, Hx.
Qed.

Lemma Forall_sl_build (P : ivl -> Prop) evs : Forall P evs -> Forall P (sl_build evs).
Proof.
  rewrite !Forall_forall. intros H x Hx. apply H. apply (Stored.sl_build_in evs x), Hx.
Qed.

Lemma sortedP_sorted_le l : Stored.sortedP l <-> sorted_le key_le l.
Proof. induction l as [|x r IH]; simpl; [tauto|]. rewrite IH. tauto. Qed.

(* the forward fetch of a stored timeline with non-overlapping events is ready for every
   negated sweep *)
Lemma stored_fetch_ok env evs a b :
  Forall wf_ivl evs -> disjoint_sorted (sl_build evs) ->
  let f := fetch env (Stored evs) a b false in
  Forall wf_ivl f /\ disjoint_sorted f /\ sorted_start f /\ rev_ready f.
Proof.
  intros Hwf Hd f. unfold f. rewrite (proj1 (Stored.fetch_stored_spec env evs a b)).
  assert (W : Forall wf_ivl (filter (Stored.in_range a b) (sl_build evs)))
    by (apply Forall_filter, Forall_sl_build, Hwf).
  assert (D : disjoint_sorted (filter (Stored.in_range a b) (sl_build evs)))
    by (apply disjoint_sorted_filter, Hd).
  split; [exact W|]. split; [exact D|]. split; [apply disjoint_sorted_sorted; assumption|].
  split; [exact W|]. split.
  - apply sortedP_sorted_le, Stored.sortedP_filter, Stored.sorted_key_P, Stored.sl_build_sorted.
  - apply rev_disjoint_mono_ends; assumption.
Qed.

Theorem compl_stored_reverse env evs a b :
  wf_win a b -> Forall wf_ivl evs -> disjoint_sorted (sl_build evs) ->
  fetch env (Compl (Stored evs)) a b true = rev (fetch env (Compl (Stored evs)) a b false).
Proof.
  intros Hw Hwf Hd. destruct (stored_fetch_ok env evs a b Hwf Hd) as (W & D & S & (_ & _ & M)).
  apply compl_fetch_reverse; [exact Hw|apply stored_reverse|exact W|exact S|exact M].
Qed.

Theorem diff_stored_reverse env evs subs a b :
  Forall wf_ivl evs -> Forall canon_ivl evs -> disjoint_sorted (sl_build evs) ->
  Forall (fun s => Forall wf_ivl s /\ disjoint_sorted (sl_build s)) subs ->
  fetch env (Diff (Stored evs) (map Stored subs)) a b true =
  rev (fetch env (Diff (Stored evs) (map Stored subs)) a b false).
Proof.
  intros Hwf Hcan Hd Hsubs. destruct (stored_fetch_ok env evs a b Hwf Hd) as (W & D & S & _).
  apply diff_fetch_reverse; [| |exact W| |exact D|].
  - apply stored_reverse.
  - intros u Hu. apply in_map_iff in Hu as [s [<- _]]. apply stored_reverse.
  - rewrite (proj1 (Stored.fetch_stored_spec env evs a b)). apply Forall_filter, Forall_sl_build, Hcan.
  - intros u Hu. apply in_map_iff in Hu as [s [<- Hs]].
    destruct (proj1 (Forall_forall _ _) Hsubs s Hs) as [Ws Ds].
    exact (proj2 (proj2 (proj2 (stored_fetch_ok env s a b Ws Ds)))).
Qed.

(* ------------------------------------------------------------------------------------ *)
(* 6. the refuted general claim, kept as a closed witness: a nested event (ends not monotone)
   makes the negated stream unsorted and the reverse complement loses the outer event *)

Example C04_nested_refuted :
  let e := Compl (Stored [mkI (Some 0) (Some 10) (Rich 1); mkI (Some 2) (Some 4) (Rich 2)]) in
  slice [] e (Some 0) (Some 20) false = [mkI (Some 10) (Some 20) Plain] /\
  slice [] e (Some 0) (Some 20) true = [mkI (Some 4) (Some 20) Plain].
Proof. vm_compute. split; reflexivity. Qed.

(* the same at the level of the sweep: the hypothesis of compl_reverse_mono that fails *)
Example C04_nested_sweep :
  let xs := [mkI (Some 0) (Some 10) (Rich 1); mkI (Some 2) (Some 4) (Rich 2)] in
  sorted_start xs /\ ~ sorted_start (neg_stream (rev xs)) /\
  neg_stream (compl_sweep (neg_stream (rev xs)) (negO (Some 20)) (negO (Some 0))) <>
  rev (compl_sweep xs (Some 0) (Some 20)).
Proof.
  cbv zeta. split; [|split].
  - simpl. split; [|split; [intros ? []|exact I]]. intros y [<-|[]]. unfold fstart; simpl. lia.
  - intros [H _]. specialize (H _ (or_introl eq_refl)). unfold fstart in H. simpl in H. lia.
  - vm_compute. intro H. discriminate H.
Qed.

(* the same for the difference: a nested subtractor *)
Example C04_nested_diff_refuted :
  let src := [mkI (Some 0) (Some 20) (Rich 1)] in
  let subs := [mkI (Some 0) (Some 10) Plain; mkI (Some 2) (Some 4) Plain] in
  dsweep src subs = [mkI (Some 10) (Some 20) (Rich 1)] /\
  neg_stream (dsweep (neg_stream (rev src)) (neg_stream (rev subs))) =
    [mkI (Some 4) (Some 20) (Rich 1)].
Proof. vm_compute. split; reflexivity. Qed.

(* ------------------------------------------------------------------------------------ *)
(* C04 at the level of [slice] where no intersection with the window mask is involved (both
   bounds None), and its "last n" reading *)

Lemma slice_unbounded env e rv : slice env e None None rv = fetch env e None None rv.
Proof. reflexivity. Qed.

Theorem C04_stored_unbounded env evs n :
  let r := slice env (Stored evs) None None true in
  let f := slice env (Stored evs) None None false in
  r = rev f /\ Permutation r f /\ firstn n r = rev (skipn (length f - n) f).
Proof.
  cbv zeta. rewrite !slice_unbounded.
  assert (E := stored_reverse env evs None None). split; [exact E|]. split.
  - apply is_reverse_perm, E.
  - apply last_n, E.
Qed.

Theorem C04_compl_stored_unbounded env evs n :
  Forall wf_ivl evs -> disjoint_sorted (sl_build evs) ->
  let r := slice env (Compl (Stored evs)) None None true in
  let f := slice env (Compl (Stored evs)) None None false in
  r = rev f /\ Permutation r f /\ firstn n r = rev (skipn (length f - n) f).
Proof.
  intros Hwf Hd. cbv zeta. rewrite !slice_unbounded.
  assert (Hw : wf_win None None).
  { unfold wf_win. split; [intros z Hz; discriminate Hz|]. split; [intros z Hz; discriminate Hz|].
    simpl. unfold NEG_INF, POS_INF. lia. }
  assert (E := compl_stored_reverse env evs None None Hw Hwf Hd). split; [exact E|]. split.
  - apply is_reverse_perm, E.
  - apply last_n, E.
Qed.

Print Assumptions C04_stored_unbounded.
Print Assumptions C04_compl_stored_unbounded.
Print Assumptions bounds_swap.
Print Assumptions norm_bounds_idem.
Print Assumptions slice_norm.
Print Assumptions last_n.
Print Assumptions stored_reverse.
Print Assumptions filt_reverse.
Print Assumptions buf_reverse.
Print Assumptions mergew_reverse.
Print Assumptions sorted_perm_unique.
Print Assumptions sorted_key_perm_unique.
Print Assumptions union_reverse_perm.
Print Assumptions union_reverse.
Print Assumptions union_reverse_nodup.
Print Assumptions union_fetch_reverse_perm.
Print Assumptions union_fetch_reverse.
Print Assumptions union_tie_not_reversed.
Print Assumptions compl_reverse_mono.
Print Assumptions compl_reverse_mono_ends.
Print Assumptions compl_reverse.
Print Assumptions compl_fetch_reverse.
Print Assumptions compl_reverse_canonical.
Print Assumptions minus_runs_mirror.
Print Assumptions dsweep_reverse_gen.
Print Assumptions dsweep_reverse_mono.
Print Assumptions dsweep_reverse_mono_ends.
Print Assumptions dsweep_reverse.
Print Assumptions dsweep_reverse_perm.
Print Assumptions diff_sweep_reverse.
Print Assumptions diff_fetch_reverse.
Print Assumptions compl_stored_reverse.
Print Assumptions diff_stored_reverse.
Print Assumptions C04_nested_refuted.
Print Assumptions C04_nested_sweep.
Print Assumptions C04_nested_diff_refuted.
