(* Proofs/RecurP.v — facts about Model/Recur.v (RecurringPattern):
     anchor_phase         the rrule dtstart computed by _get_safe_anchor lies in a period whose
                          index is congruent to the base anchor's modulo the interval, for any
                          look-back date (windows arbitrarily far before or after the anchor)
     anchor_template      it has the base anchor's day of month (and month, for yearly rules) /
                          weekday, so the defaults rrule derives from dtstart are the series'
     anchor_not_late      it is not after the look-back date (daily, weekly), not after the end of
                          the look-back date's month / year (monthly, yearly)
     pager_exactly_once   the chunk loop of _fetch_reverse, over any ascending list of occurrences
                          of positive duration and any chunk size > 0, yields exactly the forward
                          answer reversed: every occurrence once, newest first
     reverse_go_pager     Model/Recur.v reverse_go is that loop, given what fetch_forward returns *)
From CG Require Import Model.Recur Spec.RecurSpec Proofs.CivilP.
From Coq Require Import Lia ZifyBool Sorting.Sorted.
Ltac Zify.zify_post_hook ::= Z.to_euclidean_division_equations.

(* ------------------------------------------------------------------------------------------ *)
(* arithmetic helpers                                                                          *)

Lemma aligned_mod x k j : k <> 0 -> (x - x mod k - j * k) mod k = 0.
Proof.
  intros Hk. rewrite (Z.mod_eq x k) by exact Hk.
  replace (x - (x - k * (x / k)) - j * k) with ((x / k - j) * k) by ring.
  apply Z_mod_mult.
Qed.

Lemma aligned_mod0 x k : k <> 0 -> (x - x mod k) mod k = 0.
Proof. intros Hk. pose proof (aligned_mod x k 0 Hk) as H. rewrite Z.mul_0_l, Z.sub_0_r in H. exact H. Qed.

Lemma cdate_of_dfc y m d :
  valid_date y m d = true -> cdate_of (days_from_civil y m d) = (days_from_civil y m d, y, m, d).
Proof. intros H. unfold cdate_of. rewrite (civil_from_days_from_civil _ _ _ H). reflexivity. Qed.

Lemma period_of_daily d : period_of Daily (cdate_of d) = d.
Proof. unfold cdate_of. destruct (civil_from_days d) as [[y m] dd]. reflexivity. Qed.

Lemma period_of_weekly d : period_of Weekly (cdate_of d) = (d + 3) / 7.
Proof. unfold cdate_of. destruct (civil_from_days d) as [[y m] dd]. reflexivity. Qed.

Lemma valid_date_intro y m d :
  1 <= m <= 12 -> 1 <= d <= dim y m -> valid_date y m d = true.
Proof.
  intros Hm Hd. unfold valid_date.
  repeat (apply andb_true_iff; split); apply Z.leb_le; lia.
Qed.

Lemma valid_date_elim y m d :
  valid_date y m d = true -> 1 <= m <= 12 /\ 1 <= d <= dim y m.
Proof.
  unfold valid_date. intros H.
  repeat (apply andb_true_iff in H; destruct H as [H ?]).
  repeat match goal with H : (_ <=? _) = true |- _ => apply Z.leb_le in H end. lia.
Qed.

(* the calendar fields of a day number form a valid date *)
Lemma civil_fields_valid z y m d : civil_from_days z = (y, m, d) -> valid_date y m d = true /\ days_from_civil y m d = z.
Proof. intros E. pose proof (civil_roundtrip z) as H. rewrite E in H. tauto. Qed.

(* ------------------------------------------------------------------------------------------ *)
(* the step-back loops of _get_safe_anchor                                                     *)

Lemma month_back_spec fuel k bd : forall abs a,
  month_back fuel k bd abs = Some a ->
  exists j, 0 <= j /\
    1 <= (abs - j * k) / 12 /\
    bd <= dim ((abs - j * k) / 12) ((abs - j * k) mod 12 + 1) /\
    a = days_from_civil ((abs - j * k) / 12) ((abs - j * k) mod 12 + 1) bd.
Proof.
  induction fuel as [|f IH]; intros abs a H; cbn [month_back] in H;
    destruct ((1 <=? abs / 12) && (bd <=? dim (abs / 12) (abs mod 12 + 1))) eqn:E.
  - injection H as <-. exists 0. rewrite Z.mul_0_l, Z.sub_0_r.
    apply andb_true_iff in E. destruct E as [E1 E2]. apply Z.leb_le in E1, E2. repeat split; lia.
  - destruct (abs / 12 <? 1); discriminate.
  - injection H as <-. exists 0. rewrite Z.mul_0_l, Z.sub_0_r.
    apply andb_true_iff in E. destruct E as [E1 E2]. apply Z.leb_le in E1, E2. repeat split; lia.
  - destruct (abs / 12 <? 1); [discriminate|].
    apply IH in H. destruct H as [j [Hj H]]. exists (j + 1).
    replace (abs - (j + 1) * k) with (abs - k - j * k) by ring. split; [lia|exact H].
Qed.

Lemma year_back_spec fuel k bm bd : forall year a,
  year_back fuel k bm bd year = Some a ->
  exists j, 0 <= j /\ 1 <= year - j * k /\ bd <= dim (year - j * k) bm /\
            a = days_from_civil (year - j * k) bm bd.
Proof.
  induction fuel as [|f IH]; intros year a H; cbn [year_back] in H;
    destruct ((1 <=? year) && (bd <=? dim year bm)) eqn:E.
  - injection H as <-. exists 0. rewrite Z.mul_0_l, Z.sub_0_r.
    apply andb_true_iff in E. destruct E as [E1 E2]. apply Z.leb_le in E1, E2. repeat split; lia.
  - destruct (year <? 1); discriminate.
  - injection H as <-. exists 0. rewrite Z.mul_0_l, Z.sub_0_r.
    apply andb_true_iff in E. destruct E as [E1 E2]. apply Z.leb_le in E1, E2. repeat split; lia.
  - destruct (year <? 1); [discriminate|].
    apply IH in H. destruct H as [j [Hj H]]. exists (j + 1).
    replace (year - (j + 1) * k) with (year - k - j * k) by ring. split; [lia|exact H].
Qed.

(* ------------------------------------------------------------------------------------------ *)
(* anchor_phase                                                                                *)

Theorem anchor_phase (r : rule) (sd a : Z) :
  0 < r_interval r ->
  safe_anchor r sd = Some a ->
  (period_of (r_freq r) (cdate_of a) - period_of (r_freq r) (cdate_of (base_day r))) mod r_interval r = 0.
Proof.
  intros Hk H. unfold safe_anchor in H.
  set (k := r_interval r) in *. set (base := base_day r) in *.
  assert (Hk0 : k <> 0) by lia.
  destruct (r_freq r).
  - (* daily *)
    assert (Ha : a = base + (sd - base - (sd - base) mod k)) by congruence. subst a. clear H.
    rewrite !period_of_daily.
    replace (base + (sd - base - (sd - base) mod k) - base) with ((sd - base) - (sd - base) mod k) by ring.
    apply aligned_mod0; exact Hk0.
  - (* weekly *)
    assert (Ha : a = base + 7 * ((sd - base) / 7 - ((sd - base) / 7) mod k)) by congruence. subst a. clear H.
    rewrite !period_of_weekly.
    set (n := (sd - base) / 7 - ((sd - base) / 7) mod k).
    replace ((base + 7 * n + 3) / 7 - (base + 3) / 7) with n by lia.
    apply aligned_mod0; exact Hk0.
  - (* monthly *)
    destruct (civil_from_days base) as [[by_ bm] bd] eqn:Eb.
    destruct (civil_from_days sd) as [[sy sm] sdd] eqn:Es.
    apply month_back_spec in H. destruct H as [j [Hj [Hy [Hd ->]]]].
    destruct (civil_fields_valid _ _ _ _ Eb) as [Hvb _]. apply valid_date_elim in Hvb.
    set (total := (sy - by_) * 12 + (sm - bm)) in *.
    set (abs' := by_ * 12 + bm - 1 + (total - total mod k) - j * k) in *.
    rewrite cdate_of_dfc by (apply valid_date_intro; lia).
    unfold cdate_of. rewrite Eb. cbn [period_of].
    replace (abs' / 12 * 12 + (abs' mod 12 + 1) - 1 - (by_ * 12 + bm - 1))
      with (total - total mod k - j * k) by (unfold abs'; lia).
    apply aligned_mod; exact Hk0.
  - (* yearly *)
    destruct (civil_from_days base) as [[by_ bm] bd] eqn:Eb.
    destruct (civil_from_days sd) as [[sy sm] sdd] eqn:Es.
    apply year_back_spec in H. destruct H as [j [Hj [Hy [Hd ->]]]].
    destruct (civil_fields_valid _ _ _ _ Eb) as [Hvb _]. apply valid_date_elim in Hvb.
    rewrite cdate_of_dfc by (apply valid_date_intro; lia).
    unfold cdate_of. rewrite Eb. cbn [period_of].
    replace (sy - (sy - by_) mod k - j * k - by_) with ((sy - by_) - (sy - by_) mod k - j * k) by ring.
    apply aligned_mod; exact Hk0.
Qed.

(* ------------------------------------------------------------------------------------------ *)
(* anchor_template: what rrule's defaults are taken from                                       *)

Theorem anchor_template (r : rule) (sd a : Z) :
  0 < r_interval r ->
  safe_anchor r sd = Some a ->
  match r_freq r with
  | Daily => True
  | Weekly => weekday a = weekday (base_day r)
  | Monthly => day_of a = day_of (base_day r)
  | Yearly => day_of a = day_of (base_day r) /\ month_of a = month_of (base_day r)
  end.
Proof.
  intros Hk H. unfold safe_anchor in H.
  set (k := r_interval r) in *. set (base := base_day r) in *.
  destruct (r_freq r).
  - exact I.
  - assert (Ha : a = base + 7 * ((sd - base) / 7 - ((sd - base) / 7) mod k)) by congruence. subst a.
    apply weekday_periodic.
  - unfold day_of.
    destruct (civil_from_days base) as [[by_ bm] bd] eqn:Eb.
    destruct (civil_from_days sd) as [[sy sm] sdd] eqn:Es.
    apply month_back_spec in H. destruct H as [j [Hj [Hy [Hd ->]]]].
    destruct (civil_fields_valid _ _ _ _ Eb) as [Hvb _]. apply valid_date_elim in Hvb.
    rewrite civil_from_days_from_civil by (apply valid_date_intro; lia). reflexivity.
  - unfold day_of, month_of.
    destruct (civil_from_days base) as [[by_ bm] bd] eqn:Eb.
    destruct (civil_from_days sd) as [[sy sm] sdd] eqn:Es.
    apply year_back_spec in H. destruct H as [j [Hj [Hy [Hd ->]]]].
    destruct (civil_fields_valid _ _ _ _ Eb) as [Hvb _]. apply valid_date_elim in Hvb.
    rewrite civil_from_days_from_civil by (apply valid_date_intro; lia). split; reflexivity.
Qed.

(* ------------------------------------------------------------------------------------------ *)
(* anchor_not_late                                                                             *)

Theorem anchor_not_late_days (r : rule) (sd a : Z) :
  0 < r_interval r ->
  safe_anchor r sd = Some a ->
  match r_freq r with
  | Daily | Weekly => a <= sd
  | _ => True
  end.
Proof.
  intros Hk H. unfold safe_anchor in H.
  set (k := r_interval r) in *. set (base := base_day r) in *.
  destruct (r_freq r); try exact I.
  - assert (Ha : a = base + (sd - base - (sd - base) mod k)) by congruence. subst a.
    pose proof (Z.mod_pos_bound (sd - base) k Hk). lia.
  - assert (Ha : a = base + 7 * ((sd - base) / 7 - ((sd - base) / 7) mod k)) by congruence. subst a.
    pose proof (Z.mod_pos_bound ((sd - base) / 7) k Hk). lia.
Qed.

(* monthly / yearly: the anchor's month index (year) is at most that of the look-back date *)
Theorem anchor_not_late_period (r : rule) (sd a : Z) :
  0 < r_interval r ->
  safe_anchor r sd = Some a ->
  period_of (r_freq r) (cdate_of a) <= period_of (r_freq r) (cdate_of sd).
Proof.
  intros Hk H. unfold safe_anchor in H.
  set (k := r_interval r) in *. set (base := base_day r) in *.
  destruct (r_freq r).
  - assert (Ha : a = base + (sd - base - (sd - base) mod k)) by congruence. subst a.
    rewrite !period_of_daily.
    pose proof (Z.mod_pos_bound (sd - base) k Hk). lia.
  - assert (Ha : a = base + 7 * ((sd - base) / 7 - ((sd - base) / 7) mod k)) by congruence. subst a.
    rewrite !period_of_weekly.
    pose proof (Z.mod_pos_bound ((sd - base) / 7) k Hk). lia.
  - destruct (civil_from_days base) as [[by_ bm] bd] eqn:Eb.
    unfold cdate_of at 2.
    destruct (civil_from_days sd) as [[sy sm] sdd] eqn:Es.
    apply month_back_spec in H. destruct H as [j [Hj [Hy [Hd ->]]]].
    destruct (civil_fields_valid _ _ _ _ Eb) as [Hvb _]. apply valid_date_elim in Hvb.
    set (total := (sy - by_) * 12 + (sm - bm)) in *.
    set (abs' := by_ * 12 + bm - 1 + (total - total mod k) - j * k) in *.
    rewrite cdate_of_dfc by (apply valid_date_intro; lia).
    cbn [period_of].
    pose proof (Z.mod_pos_bound total k Hk).
    assert (0 <= j * k) by nia.
    replace (abs' / 12 * 12 + (abs' mod 12 + 1) - 1) with abs' by lia.
    unfold abs', total. lia.
  - destruct (civil_from_days base) as [[by_ bm] bd] eqn:Eb.
    unfold cdate_of at 2.
    destruct (civil_from_days sd) as [[sy sm] sdd] eqn:Es.
    apply year_back_spec in H. destruct H as [j [Hj [Hy [Hd ->]]]].
    destruct (civil_fields_valid _ _ _ _ Eb) as [Hvb _]. apply valid_date_elim in Hvb.
    rewrite cdate_of_dfc by (apply valid_date_intro; lia).
    cbn [period_of].
    pose proof (Z.mod_pos_bound (sy - by_) k Hk).
    assert (0 <= j * k) by nia. lia.
Qed.

(* ------------------------------------------------------------------------------------------ *)
(* the reverse pager                                                                           *)

Section Pager.
  (* what a forward fetch returns for a window *)
  Variable fwd : Z -> Z -> list ivl.
  Variable chunk : Z.

  (* the loop of _fetch_reverse with a finite start (= effective_start), as in reverse_go *)
  Fixpoint pager (fuel : nat) (eff end_ cur : Z) : option (list ivl) :=
    if cur <=? eff then Some []
    else
      match fuel with
      | O => None
      | S f =>
        let cs := Z.max eff (cur - chunk) in
        let c := filter (fun i => ((fstart i <? cur) || (cur =? end_)) &&
                                  ((cs <=? fstart i) || (cs =? eff))) (fwd cs cur) in
        if cs <=? eff then Some (rev c)
        else match pager f eff end_ cs with
             | Some l' => Some (rev c ++ l')
             | None => None
             end
      end.

  (* the series the forward fetch answers from: ascending by start, positive durations *)
  Variable occs : list ivl.
  Hypothesis fwd_spec : forall a b,
      fwd a b = filter (fun i => (a <? fend i) && (fstart i <=? b)) occs.
  Hypothesis occs_sorted : StronglySorted (fun x y => fstart x <= fstart y) occs.
  Hypothesis occs_pos : Forall (fun i => fstart i < fend i) occs.
  Hypothesis chunk_pos : 0 < chunk.

  (* what has to come out when the loop stands at cur *)
  Definition in_sel (eff end_ cur : Z) (i : ivl) : bool :=
    (eff <? fend i) && (if cur =? end_ then fstart i <=? cur else fstart i <? cur).

  Lemma filter_none_ge (P : ivl -> bool) c l :
    Forall (fun y => c <= fstart y) l -> filter (fun i => P i && (fstart i <? c)) l = [].
  Proof.
    induction 1 as [|x l Hx _ IH]; [reflexivity|]. cbn [filter].
    replace (fstart x <? c) with false by (symmetry; apply Z.ltb_ge; exact Hx).
    rewrite andb_false_r. exact IH.
  Qed.

  Lemma filter_split_sorted (P : ivl -> bool) c l :
    StronglySorted (fun x y => fstart x <= fstart y) l ->
    filter P l = filter (fun i => P i && (fstart i <? c)) l ++ filter (fun i => P i && (c <=? fstart i)) l.
  Proof.
    induction 1 as [|x l Hs IH Hx]; [reflexivity|]. cbn [filter].
    destruct (fstart x <? c) eqn:E.
    - replace (c <=? fstart x) with false by (symmetry; apply Z.leb_gt; apply Z.ltb_lt; exact E).
      rewrite andb_true_r, andb_false_r. destruct (P x); cbn [app]; rewrite IH; reflexivity.
    - apply Z.ltb_ge in E.
      replace (c <=? fstart x) with true by (symmetry; apply Z.leb_le; exact E).
      rewrite andb_true_r, andb_false_r.
      assert (Hall : Forall (fun y => c <= fstart y) l).
      { eapply Forall_impl; [|exact Hx]. cbv beta. intros; lia. }
      rewrite (filter_none_ge P c l Hall) in *. cbn [app] in *.
      destruct (P x); rewrite IH; reflexivity.
  Qed.

  Lemma filter_filter {A} (P Q : A -> bool) l :
    filter P (filter Q l) = filter (fun x => Q x && P x) l.
  Proof.
    induction l as [|x l IH]; [reflexivity|]. cbn [filter].
    destruct (Q x); cbn [filter andb]; [destruct (P x)|]; rewrite IH; reflexivity.
  Qed.

  Lemma filter_ext_Forall {A} (P Q : A -> bool) (R : A -> Prop) l :
    Forall R l -> (forall x, R x -> P x = Q x) -> filter P l = filter Q l.
  Proof.
    induction 1 as [|x l Hx _ IH]; intros Hpq; [reflexivity|]. cbn [filter].
    rewrite (Hpq x Hx), (IH Hpq). reflexivity.
  Qed.

  Lemma pager_inv fuel eff end_ : forall cur,
    eff < cur <= end_ ->
    cur - eff <= Z.of_nat fuel * chunk ->
    pager fuel eff end_ cur = Some (rev (filter (in_sel eff end_ cur) occs)).
  Proof.
    induction fuel as [|f IH]; intros cur Hcur Hfuel.
    - simpl in Hfuel. lia.
    - cbn [pager].
      replace (cur <=? eff) with false by (symmetry; apply Z.leb_gt; lia).
      set (cs := Z.max eff (cur - chunk)).
      assert (Hcs : eff <= cs < cur) by (unfold cs; lia).
      rewrite fwd_spec, filter_filter.
      destruct (cs <=? eff) eqn:Ecs.
      + (* oldest chunk *)
        apply Z.leb_le in Ecs. assert (cs = eff) by lia.
        f_equal. f_equal. apply (filter_ext_Forall _ _ _ _ occs_pos).
        intros x Hx. unfold in_sel. rewrite H.
        replace (eff =? eff) with true by (symmetry; apply Z.eqb_refl).
        rewrite orb_true_r, andb_true_r.
        destruct (cur =? end_) eqn:Ec.
        * rewrite orb_true_r, andb_true_r. reflexivity.
        * rewrite orb_false_r.
          destruct (eff <? fend x); cbn [andb]; [|reflexivity].
          destruct (fstart x <? cur) eqn:E1; [|rewrite andb_false_r; reflexivity].
          rewrite andb_true_r. apply Z.leb_le. apply Z.ltb_lt in E1. lia.
      + apply Z.leb_gt in Ecs.
        assert (Hcs' : cs = cur - chunk) by (unfold cs in *; lia).
        rewrite IH by (rewrite Nat2Z.inj_succ in Hfuel; lia).
        f_equal. rewrite <- rev_app_distr. f_equal.
        rewrite (filter_split_sorted (in_sel eff end_ cur) cs occs occs_sorted).
        f_equal.
        * apply (filter_ext_Forall _ _ _ _ occs_pos). intros x Hx. unfold in_sel.
          replace (cs =? end_) with false by (symmetry; apply Z.eqb_neq; lia).
          destruct (eff <? fend x); cbn [andb]; [|reflexivity].
          destruct (fstart x <? cs) eqn:E1; [|rewrite andb_false_r; reflexivity].
          rewrite andb_true_r. apply Z.ltb_lt in E1.
          destruct (cur =? end_); symmetry; [apply Z.leb_le|apply Z.ltb_lt]; lia.
        * apply (filter_ext_Forall _ _ _ _ occs_pos). intros x Hx. unfold in_sel.
          replace (cs =? eff) with false by (symmetry; apply Z.eqb_neq; lia).
          rewrite orb_false_r.
          destruct (cs <=? fstart x) eqn:E1; [|rewrite !andb_false_r; reflexivity].
          apply Z.leb_le in E1. rewrite !andb_true_r.
          replace (eff <? fend x) with true by (symmetry; apply Z.ltb_lt; lia).
          replace (cs <? fend x) with true by (symmetry; apply Z.ltb_lt; lia).
          cbn [andb].
          destruct (cur =? end_) eqn:Ec.
          -- rewrite orb_true_r, andb_true_r. reflexivity.
          -- rewrite orb_false_r.
             destruct (fstart x <? cur) eqn:E2; [|rewrite andb_false_r; reflexivity].
             rewrite andb_true_r. apply Z.leb_le. apply Z.ltb_lt in E2. lia.
  Qed.

  (* reverse paging = the forward answer for the whole window, reversed: each occurrence exactly
     once, newest first, whatever the chunk size and the durations *)
  Theorem pager_exactly_once fuel a b :
    a < b -> b - a <= Z.of_nat fuel * chunk ->
    pager fuel a b b = Some (rev (fwd a b)).
  Proof.
    intros Hab Hf. rewrite (pager_inv fuel a b b) by lia.
    f_equal. f_equal. rewrite fwd_spec. apply filter_ext. intros x. unfold in_sel.
    rewrite Z.eqb_refl. reflexivity.
  Qed.
End Pager.

(* Model/Recur.v's reverse_go is the pager over what fetch_forward returns *)
Lemma reverse_go_pager (r : rule) (fwd : Z -> Z -> list ivl) :
  (forall a b, fetch_forward r a b = Ok (fwd a b)) ->
  forall fuel eff end_ cur,
    reverse_go fuel r eff (Some eff) end_ cur =
    match pager fwd (chunk_size (r_freq r)) fuel eff end_ cur with
    | Some l => Ok l
    | None => OutOfFuel
    end.
Proof.
  intros Hf. induction fuel as [|f IH]; intros eff end_ cur; cbn [reverse_go pager].
  - destruct (cur <=? eff); reflexivity.
  - destruct (cur <=? eff); [reflexivity|].
    rewrite Hf.
    destruct (Z.max eff (cur - chunk_size (r_freq r)) <=? eff); [reflexivity|].
    rewrite IH.
    destruct (pager fwd (chunk_size (r_freq r)) f eff end_ (Z.max eff (cur - chunk_size (r_freq r))));
      reflexivity.
Qed.

Lemma chunk_size_pos f : 0 < chunk_size f.
Proof. destruct f; unfold chunk_size, DAY; lia. Qed.

(* so: if the forward fetch answers every window from one ascending series of positive-length
   occurrences, the reverse fetch of the model is the forward fetch reversed *)
Theorem fetch_reverse_is_rev_forward (r : rule) (occs : list ivl) :
  (forall a b, fetch_forward r a b =
               Ok (filter (fun i => (a <? fend i) && (fstart i <=? b)) occs)) ->
  StronglySorted (fun x y => fstart x <= fstart y) occs ->
  Forall (fun i => fstart i < fend i) occs ->
  forall a b, a < b ->
    fetch_reverse r a b = Ok (rev (filter (fun i => (a <? fend i) && (fstart i <=? b)) occs)).
Proof.
  intros Hf Hs Hp a b Hab.
  unfold fetch_reverse, fetch_reverse_opt.
  set (fwd := fun a b => filter (fun i => (a <? fend i) && (fstart i <=? b)) occs).
  rewrite (reverse_go_pager r fwd Hf).
  pose proof (chunk_size_pos (r_freq r)) as Hc.
  rewrite (pager_exactly_once fwd (chunk_size (r_freq r)) occs (fun _ _ => eq_refl) Hs Hp Hc); [reflexivity|exact Hab|].
  set (c := chunk_size (r_freq r)) in *.
  rewrite Z2Nat.id by (apply Z.add_nonneg_nonneg; [apply Z.div_pos; lia|lia]).
  replace (Z.max 0 (b - a)) with (b - a) by lia.
  pose proof (Z.mod_pos_bound (b - a) c Hc). pose proof (Z.div_mod (b - a) c). nia.
Qed.

(* ------------------------------------------------------------------------------------------ *)
(* anchor_before: the look-back is long enough                                                 *)
From CG Require Import Proofs.CdateP.

Lemma period_of_monthly d : period_of Monthly (cdate_of d) = midx d.
Proof.
  unfold cdate_of, midx, year_of, month_of. destruct (civil_from_days d) as [[y m] dd]. reflexivity.
Qed.

Lemma period_of_yearly d : period_of Yearly (cdate_of d) = year_of d.
Proof. unfold cdate_of, year_of. destruct (civil_from_days d) as [[y m] dd]. reflexivity. Qed.

Lemma year_len_le y : days_from_civil (y + 1) 1 1 - days_from_civil y 1 1 <= 366.
Proof.
  unfold days_from_civil. change (1 <=? 2) with true. change (1 >? 2) with false. cbv iota zeta.
  replace (y + 1 - 1) with y by ring. lia.
Qed.

Lemma jan1_valid y : valid_date y 1 1 = true.
Proof. apply valid_date_intro; [lia|]. pose proof (dim_bounds y 1). lia. Qed.

Lemma year_of_jan1 y : year_of (days_from_civil y 1 1) = y.
Proof. unfold year_of. rewrite (civil_from_days_from_civil _ _ _ (jan1_valid y)). reflexivity. Qed.

(* the day before 1 January of year y belongs to year y - 1 *)
Lemma year_of_before_jan1 y : year_of (days_from_civil y 1 1 - 1) = y - 1.
Proof.
  set (p := days_from_civil y 1 1 - 1).
  pose proof (civil_succ p) as H. replace (p + 1) with (days_from_civil y 1 1) in H by (unfold p; ring).
  rewrite (civil_from_days_from_civil _ _ _ (jan1_valid y)) in H.
  unfold year_of. pose proof (civil_roundtrip p) as Hv.
  destruct (civil_from_days p) as [[y' m'] d']. destruct Hv as [_ Hv]. apply valid_date_elim in Hv.
  unfold next_civ in H. cbn [fst].
  destruct (d' <? dim y' m'); [injection H; intros; lia|].
  destruct (m' <? 12); injection H; intros; lia.
Qed.

Lemma jan1_le d : days_from_civil (year_of d) 1 1 <= d.
Proof.
  destruct (Z_le_gt_dec (days_from_civil (year_of d) 1 1) d) as [|Hgt]; [assumption|].
  assert (H : year_of d <= year_of (days_from_civil (year_of d) 1 1 - 1)) by (apply year_mono; lia).
  rewrite year_of_before_jan1 in H. lia.
Qed.

Lemma lt_next_jan1 d : d < days_from_civil (year_of d + 1) 1 1.
Proof.
  destruct (Z_lt_ge_dec d (days_from_civil (year_of d + 1) 1 1)) as [|Hge]; [assumption|].
  assert (H : year_of (days_from_civil (year_of d + 1) 1 1) <= year_of d) by (apply year_mono; lia).
  rewrite year_of_jan1 in H. lia.
Qed.

(* a day whose year is not after another's is at most 365 days after it *)
Theorem year_le_close a sd : year_of a <= year_of sd -> a <= sd + 365.
Proof.
  intros H. destruct (Z_le_gt_dec a sd) as [|Hgt]; [lia|].
  assert (year_of sd <= year_of a) by (apply year_mono; lia).
  assert (E : year_of a = year_of sd) by lia.
  pose proof (jan1_le sd). pose proof (lt_next_jan1 a). pose proof (year_len_le (year_of a)).
  rewrite E in *. lia.
Qed.

(* how far after the look-back date the rrule dtstart can lie *)
Definition anchor_slack (f : freq) : Z :=
  match f with Daily | Weekly => 0 | Monthly => 30 | Yearly => 365 end.

Theorem anchor_not_late (r : rule) (sd a : Z) :
  0 < r_interval r -> safe_anchor r sd = Some a -> a <= sd + anchor_slack (r_freq r).
Proof.
  intros Hk H.
  pose proof (anchor_not_late_days r sd a Hk H) as Hd.
  pose proof (anchor_not_late_period r sd a Hk H) as Hp.
  destruct (r_freq r); cbn [anchor_slack].
  - lia.
  - lia.
  - rewrite !period_of_monthly in Hp. apply midx_le_close. exact Hp.
  - rewrite !period_of_yearly in Hp. apply year_le_close. exact Hp.
Qed.

(* ---- zones: the offsets the conversions use are those of the table ---- *)
Lemma offset_at_go_in tr t : forall cur, In (offset_at_go cur tr t) (cur :: map snd tr).
Proof.
  induction tr as [|[T o] rest IH]; intros cur; cbn [offset_at_go map snd].
  - left. reflexivity.
  - destruct (T <=? t); [right; apply IH|left; reflexivity].
Qed.

Lemma wall_offset_go_in tr w f : forall cur, In (wall_offset_go cur tr w f) (cur :: map snd tr).
Proof.
  induction tr as [|[T o] rest IH]; intros cur; cbn [wall_offset_go map snd].
  - left. reflexivity.
  - destruct (T + (if f then Z.min cur o else Z.max cur o) <=? w); [right; apply IH|left; reflexivity].
Qed.

Lemma offset_at_in z t : In (offset_at z t) (zone_offsets z).
Proof. apply offset_at_go_in. Qed.
Lemma wall_offset_in z w f : In (wall_offset z w f) (zone_offsets z).
Proof. apply wall_offset_go_in. Qed.

(* any two UTC offsets of the zone's table differ by at most S *)
Definition zone_spread_le (z : zone) (S : Z) : Prop :=
  forall o o', In o (zone_offsets z) -> In o' (zone_offsets z) -> o - o' <= S.

(* the executable check the harness applies to every exported zone table gives the hypothesis *)
Lemma zone_spread_ok_le z : zone_spread_ok z = true -> zone_spread_le z (DAY / 2).
Proof.
  unfold zone_spread_ok, zone_spread_le. intros H o o' Ho Ho'.
  rewrite forallb_forall in H. specialize (H o Ho). rewrite forallb_forall in H.
  specialize (H o' Ho'). apply Z.leb_le in H. unfold DAY in *. lia.
Qed.

(* Every occurrence the window [A, ..) can see lies at or after the rrule dtstart: an occurrence
   on a local date before dtstart ends at or before A.  Needs: the pattern's start_seconds within
   a day (__init__), interval >= 1, and a zone whose offsets differ by at most half a day (all of
   tzdata except the date-line jumps of Pacific/Apia, Kwajalein, ...).  The duration is arbitrary:
   the look-back buffer adds it on top of a full period. *)
Theorem anchor_before (r : rule) (A a d S : Z) (i : ivl) :
  0 < r_interval r ->
  0 <= r_sod r < DAY ->
  zone_spread_le (r_zone r) S -> 2 * S <= DAY ->
  safe_anchor r (local_day (r_zone r) (A - lookback_buffer r)) = Some a ->
  d < a ->
  occurrence_to_interval r d = Some i ->
  fend i <= A.
Proof.
  intros Hk Hsod Hz HS Ha Hd Hi.
  pose proof (anchor_not_late r _ a Hk Ha) as Hlate.
  set (z := r_zone r) in *.
  unfold occurrence_to_interval in Hi.
  destruct ((r_sod r <? 0) || (DAY <=? r_sod r)); [discriminate|].
  injection Hi as <-. fold z. cbn [fend en].
  unfold wall_to_utc, utc_to_wall, mk_wall.
  set (ws := d * DAY + r_sod r).
  set (o3 := wall_offset z ws false).
  set (o2 := offset_at z (ws - o3)).
  set (o1 := wall_offset z (ws - o3 + o2 + r_dur r) false).
  unfold local_day, wall_day, utc_to_wall in Hlate.
  set (t0 := A - lookback_buffer r) in *.
  set (o4 := offset_at z t0) in *.
  assert (H23 : o2 - o3 <= S) by (apply Hz; [apply offset_at_in|apply wall_offset_in]).
  assert (H41 : o4 - o1 <= S) by (apply Hz; [apply offset_at_in|apply wall_offset_in]).
  assert (Hsd : (t0 + o4) / DAY * DAY <= t0 + o4) by (unfold DAY; lia).
  unfold t0, lookback_buffer in Hsd.
  assert (Hper : DAY * (anchor_slack (r_freq r) + 1) <= r_interval r * period_secs (r_freq r)).
  { destruct (r_freq r); cbn [anchor_slack period_secs]; unfold DAY; nia. }
  set (sd := (t0 + o4) / DAY) in *.
  assert (Hd' : d * DAY <= (sd + anchor_slack (r_freq r) - 1) * DAY) by (unfold DAY; nia).
  unfold ws. unfold t0, lookback_buffer in *.
  unfold DAY in *. nia.
Qed.

(* ------------------------------------------------------------------------------------------ *)
(* anchor_series: seen from the rrule dtstart, the series is the same series                   *)

Lemma s_base_base_day r : s_base r = base_day r.
Proof. unfold s_base, base_day, local_day. destruct (r_anchor r); reflexivity. Qed.

Lemma mod_shift_iff p pa pb k :
  0 < k -> (pa - pb) mod k = 0 -> ((p - pa) mod k =? 0) = ((p - pb) mod k =? 0).
Proof.
  intros Hk H.
  replace (p - pb) with ((p - pa) + (pa - pb)) by ring.
  rewrite Z.add_mod by lia. rewrite H, Z.add_0_r, Z.mod_mod by lia. reflexivity.
Qed.

(* The reference series built from the rrule dtstart a = safe_anchor (phase counted from a's
   period, missing BYxxx parts taken from a) has the same dates as the series built from the base
   anchor date — whatever look-back date led to a. *)
Theorem anchor_series (r : rule) (sd a : Z) :
  0 < r_interval r ->
  safe_anchor r sd = Some a ->
  forall c, matches_s (series_from r a) c = matches_s (series_of r) c.
Proof.
  intros Hk Ha c.
  pose proof (anchor_phase r sd a Hk Ha) as Hph.
  pose proof (anchor_template r sd a Hk Ha) as Htm.
  unfold series_of. rewrite s_base_base_day.
  set (b := base_day r) in *.
  (* the two series differ in the base period only *)
  assert (E : series_from r a =
              mkSeries (e_freq (series_from r b)) (e_interval (series_from r b))
                       (period_of (r_freq r) (cdate_of a))
                       (e_bymonth (series_from r b)) (e_bymonthday (series_from r b))
                       (e_byday (series_from r b)) (e_nth_in_year (series_from r b))
                       (e_bysetpos (series_from r b))).
  { unfold series_from. cbn [e_freq e_interval e_bymonth e_bymonthday e_byday e_nth_in_year e_bysetpos].
    destruct (r_freq r); cbn [freq_eqb andb orb] in *; rewrite ?andb_false_r; cbn [andb orb].
    - reflexivity.
    - rewrite Htm. reflexivity.
    - rewrite Htm. reflexivity.
    - destruct Htm as [Hd Hm]. rewrite Hd, Hm. reflexivity. }
  rewrite E. clear E.
  set (sb := series_from r b).
  assert (Hfreq : e_freq sb = r_freq r) by reflexivity.
  assert (Hint : e_interval sb = r_interval r) by reflexivity.
  assert (Hbp : e_base_period sb = period_of (r_freq r) (cdate_of b)) by reflexivity.
  assert (Hfilt : forall x, filters_ok (mkSeries (e_freq sb) (e_interval sb) (period_of (r_freq r) (cdate_of a))
                                          (e_bymonth sb) (e_bymonthday sb) (e_byday sb) (e_nth_in_year sb)
                                          (e_bysetpos sb)) x = filters_ok sb x).
  { intros x. destruct sb. reflexivity. }
  unfold matches_s.
  replace (in_phase (mkSeries (e_freq sb) (e_interval sb) (period_of (r_freq r) (cdate_of a))
                              (e_bymonth sb) (e_bymonthday sb) (e_byday sb) (e_nth_in_year sb)
                              (e_bysetpos sb)) c) with (in_phase sb c).
  2:{ unfold in_phase. cbn [e_freq e_interval e_base_period]. rewrite Hbp, Hint, Hfreq.
      symmetry. apply mod_shift_iff; assumption. }
  destruct (in_phase sb c); [|reflexivity].
  rewrite Hfilt. destruct (filters_ok sb c); [|reflexivity].
  unfold setpos_ok. cbn [e_bysetpos e_freq].
  destruct (is_nil (e_bysetpos sb)); [reflexivity|].
  rewrite (filter_ext _ _ Hfilt). reflexivity.
Qed.

Corollary anchor_before_checked_zone (r : rule) (A a d : Z) (i : ivl) :
  0 < r_interval r ->
  0 <= r_sod r < DAY ->
  zone_spread_ok (r_zone r) = true ->
  safe_anchor r (local_day (r_zone r) (A - lookback_buffer r)) = Some a ->
  d < a ->
  occurrence_to_interval r d = Some i ->
  fend i <= A.
Proof.
  intros Hk Hs Hz. apply (anchor_before r A a d (DAY / 2) i Hk Hs (zone_spread_ok_le _ Hz)).
  unfold DAY. lia.
Qed.
