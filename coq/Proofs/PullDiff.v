(* Proofs/PullDiff.v — C14, continued.
   1. diff_machine_refines       the Difference pull machine (dnext/dloop/dskipM, subtractors merged
                                 by heapq.merge) over operand machines that refine lists yields exactly
                                 diff_sweep (Model/Sweeps.v) of those lists
      pull_eq_list_diff          hence the refinement of Proofs/PullInter.v for EVERY operator: the
      pull_eq_list_slice_diff    "difference-free" side condition frag2 is gone (what remains, wfx,
                                 is the modelling convention "an Intersection has >= 2 operands")
   2. bounded_terminates_diff    bounded queries terminate, every operator
   3. prefix_of_bounded_partial  islice(e[a:], n) = the first n items of every sufficiently long
      prefix_of_bounded_explicit bounded query e[a:b] (same items, same source reads, same state),
                                 for every expression without Complement; the side condition
                                 (slice_horizon <= POS_INF: no unbounded item reached the clip) is
      prefix_of_bounded_refuted  necessary for window ends below the sentinel.
   4. next_mono / ptake_mono     the interpreter is monotone in its fuel; hence
      bounded_take_is_list_prefix   [take] on a bounded slice, whatever its fuel, returns the first n
                                 items of the list model (every operator), and
      open_slice_is_list_prefix  islice(e[a:], n) = firstn n (lslice e a b) for all large b.
   Not proved: 3 for expressions containing Complement (its machine carries the window end in its
   state; experiments with vm_compute find no counterexample on recurring sources). *)
From Coq Require Import Lia.
From CG Require Import Model.Pull Proofs.PullP Proofs.PullRefine Proofs.PullInter.

Section Diff.
Variable env : fenv.
Variable o : oenv.
Notation runs := (runs env o).
Notation good := (good env o).
Notation steps_to := (steps_to env o).

(* (current_subtractor, subtractor iterator) stands for the remaining merged subtractor list *)
Definition srel (cs : option ivl) (sub : mach) (L : list ivl) : Prop :=
  match cs with
  | Some x => exists r, L = x :: r /\ runs sub r
  | None => L = []
  end.

Lemma srel_of_step : forall sub L, runs sub L ->
  exists y m', steps_to sub (y, m') /\ srel y m' L.
Proof.
  intros sub L H. destruct (good_of_runs env o sub L H) as [[y m'] [Hs Hg]].
  exists y, m'. split; [exact Hs|]. unfold srel, good in *. simpl in *. destruct y; exact Hg.
Qed.

(* the loop [dloop] in mode md returns r, for all sufficiently large fuels *)
Definition dl (md : dmode) (cs : option ivl) (src sub : mach) (r : step) : Prop :=
  exists N, forall G F, (N <= G)%nat -> (N <= F)%nat ->
    run o (dloop G (next F env) md cs src sub) = Some r.

Lemma dnext_steps : forall cs src sub r,
  dl DmNext cs src sub r -> steps_to (MDiff DNext cs src sub) r.
Proof.
  intros cs src sub r [N H]. exists (S N). intros F HF.
  destruct F as [|F]; [lia|]. simpl. apply H; lia.
Qed.

Lemma dhole_steps : forall ev oe cs src sub r,
  dl (DmAfter ev oe) cs src sub r -> steps_to (MDiff (DHole ev oe) cs src sub) r.
Proof.
  intros ev oe cs src sub r [N H]. exists (S N). intros F HF.
  destruct F as [|F]; [lia|]. simpl. apply H; lia.
Qed.

(* the skipping loop *)
Lemma dskip_sim : forall cursor subs cs sub, srel cs sub subs ->
  exists cs' sub', srel cs' sub' (dskip cursor subs) /\
    exists N, forall G F, (N <= G)%nat -> (N <= F)%nat ->
      run o (dskipM G (next F env) cursor cs sub) = Some (cs', sub').
Proof.
  intros cursor subs. induction subs as [|s r IH]; intros cs sub Hrel.
  - destruct cs as [x|]; simpl in Hrel.
    + destruct Hrel as [r [Hr _]]. discriminate.
    + exists None, sub. split; [reflexivity|]. exists 1%nat. intros G F HG HF.
      destruct G as [|G]; [lia|]. reflexivity.
  - destruct cs as [x|]; simpl in Hrel; [|discriminate].
    destruct Hrel as [r' [Heq Hr]]. injection Heq as Hx Hr'. subst s r'.
    cbn [dskip]. destruct (fend x <? cursor) eqn:E.
    + destruct (srel_of_step sub r Hr) as [y [m' [[N1 Hs] Hrel']]].
      destruct (IH y m' Hrel') as [cs' [sub' [Hrel2 [N2 H2]]]].
      exists cs', sub'. split; [exact Hrel2|].
      exists (S (Nat.max N1 N2)). intros G F HG HF. destruct G as [|G]; [lia|].
      cbn [dskipM]. rewrite E. rewrite run_bind, Hs by lia. cbn [fst snd]. apply H2; lia.
    + exists (Some x), sub. split; [simpl; eauto|]. exists 1%nat. intros G F HG HF.
      destruct G as [|G]; [lia|]. cbn [dskipM]. rewrite E. reflexivity.
Qed.

(* what the carving of [ev] from [cursor] on, followed by the rest of the sweep, produces *)
Definition carve_out (ev : ivl) (cursor : Z) (subs Lr : list ivl) : list ivl :=
  let '(o1, subs2) := dcarve ev cursor (fend ev) subs in o1 ++ dsweep Lr subs2.

Section OneEvent.
Variable ev : ivl.
Variable src : mach.
Variable Lr : list ivl.
(* the statement for the rest of the source stream *)
Hypothesis IHnext : forall cs sub subs, srel cs sub subs ->
  exists r, dl DmNext cs src sub r /\ good r (dsweep Lr subs).

Lemma dfinal_sim : forall cursor cs sub subs, srel cs sub subs ->
  exists r, dl (DmFinal ev cursor) cs src sub r /\
            good r (dfinal ev cursor (fend ev) ++ dsweep Lr subs).
Proof.
  intros cursor cs sub subs Hrel. unfold dfinal.
  destruct (IHnext cs sub subs Hrel) as [r [Hdl Hg]].
  destruct (cursor <? fend ev) eqn:E.
  - exists (Some (set_span ev (unS cursor) (unE (fend ev))), MDiff DNext cs src sub). split.
    + exists 1%nat. intros G F HG HF. destruct G as [|G]; [lia|]. cbn [dloop]. rewrite E. reflexivity.
    + simpl. eexists. split; [reflexivity|].
      eapply runs_of_good; [apply dnext_steps; exact Hdl|exact Hg].
  - exists r. split; [|exact Hg]. destruct Hdl as [N H].
    exists (S N). intros G F HG HF. destruct G as [|G]; [lia|]. cbn [dloop]. rewrite E.
    apply H; lia.
Qed.

(* the list-level continuation at "if current_subtractor.finite_end <= event_end" *)
Definition tail_out (cursor : Z) (subs : list ivl) : list ivl :=
  match subs with
  | [] => dfinal ev cursor (fend ev) ++ dsweep Lr []
  | s :: r => if fend s <=? fend ev then carve_out ev cursor r Lr
              else dfinal ev cursor (fend ev) ++ dsweep Lr subs
  end.

(* ... and at "cursor = overlap_end; if cursor >= event_end: break" *)
Definition after_out (oe : Z) (subs : list ivl) : list ivl :=
  if oe >=? fend ev then dfinal ev oe (fend ev) ++ dsweep Lr subs else tail_out oe subs.

Lemma carve_out_cons : forall cursor s r,
  carve_out ev cursor (s :: r) Lr =
  if fstart s <=? fend ev then
    let os := Z.max cursor (fstart s) in
    let oe := Z.min (fend ev) (fend s) in
    if os <? oe then
      (if cursor <? os then [set_span ev (unS cursor) (unS os)] else []) ++ after_out oe (s :: r)
    else tail_out cursor (s :: r)
  else dfinal ev cursor (fend ev) ++ dsweep Lr (s :: r).
Proof.
  intros cursor s r. unfold carve_out, after_out, tail_out. cbn [dcarve]. cbv zeta.
  destruct (fstart s <=? fend ev); [|reflexivity].
  destruct (Z.max cursor (fstart s) <? Z.min (fend ev) (fend s)).
  - destruct (Z.min (fend ev) (fend s) >=? fend ev).
    + rewrite <- app_assoc. reflexivity.
    + destruct (fend s <=? fend ev).
      * unfold carve_out. destruct (dcarve ev (Z.min (fend ev) (fend s)) (fend ev) r) as [o1 l1].
        rewrite <- app_assoc. reflexivity.
      * rewrite <- app_assoc. reflexivity.
  - destruct (fend s <=? fend ev); reflexivity.
Qed.

Lemma carve_out_nil : forall cursor,
  carve_out ev cursor [] Lr = dfinal ev cursor (fend ev) ++ dsweep Lr [].
Proof. reflexivity. Qed.

(* given the carving statement for the tail r of the subtractor list *)
Section Tail.
Variable s : ivl.
Variable r : list ivl.
Hypothesis IHcarve : forall cursor cs sub, srel cs sub r ->
  exists res, dl (DmCarve ev cursor) cs src sub res /\ good res (carve_out ev cursor r Lr).

Lemma dtail_sim : forall cursor sub, runs sub r ->
  exists res, dl (DmTail ev cursor) (Some s) src sub res /\ good res (tail_out cursor (s :: r)).
Proof.
  intros cursor sub Hr. cbn [tail_out]. destruct (fend s <=? fend ev) eqn:E.
  - destruct (srel_of_step sub r Hr) as [y [m' [[N1 Hs] Hrel']]].
    destruct (IHcarve cursor y m' Hrel') as [res [[N2 H2] Hg]].
    exists res. split; [|exact Hg].
    exists (S (Nat.max N1 N2)). intros G F HG HF. destruct G as [|G]; [lia|].
    cbn [dloop]. rewrite E. rewrite run_bind, Hs by lia. cbn [fst snd]. apply H2; lia.
  - destruct (dfinal_sim cursor (Some s) sub (s :: r)) as [res [[N H] Hg]].
    { simpl. eauto. }
    exists res. split; [|exact Hg].
    exists (S N). intros G F HG HF. destruct G as [|G]; [lia|].
    cbn [dloop]. rewrite E. apply H; lia.
Qed.

Lemma dafter_sim : forall oe sub, runs sub r ->
  exists res, dl (DmAfter ev oe) (Some s) src sub res /\ good res (after_out oe (s :: r)).
Proof.
  intros oe sub Hr. unfold after_out. destruct (oe >=? fend ev) eqn:E.
  - destruct (dfinal_sim oe (Some s) sub (s :: r)) as [res [[N H] Hg]].
    { simpl. eauto. }
    exists res. split; [|exact Hg].
    exists (S N). intros G F HG HF. destruct G as [|G]; [lia|].
    cbn [dloop]. rewrite E. apply H; lia.
  - destruct (dtail_sim oe sub Hr) as [res [[N H] Hg]].
    exists res. split; [|exact Hg].
    exists (S N). intros G F HG HF. destruct G as [|G]; [lia|].
    cbn [dloop]. rewrite E. apply H; lia.
Qed.

Lemma dcarve_cons_sim : forall cursor sub, runs sub r ->
  exists res, dl (DmCarve ev cursor) (Some s) src sub res /\
              good res (carve_out ev cursor (s :: r) Lr).
Proof.
  intros cursor sub Hr. rewrite carve_out_cons. cbv zeta.
  destruct (fstart s <=? fend ev) eqn:E1.
  - destruct (Z.max cursor (fstart s) <? Z.min (fend ev) (fend s)) eqn:E2.
    + destruct (dafter_sim (Z.min (fend ev) (fend s)) sub Hr) as [res [Hdl Hg]].
      destruct (cursor <? Z.max cursor (fstart s)) eqn:E3.
      * exists (Some (set_span ev (unS cursor) (unS (Z.max cursor (fstart s)))),
                MDiff (DHole ev (Z.min (fend ev) (fend s))) (Some s) src sub). split.
        -- exists 1%nat. intros G F HG HF. destruct G as [|G]; [lia|].
           cbn [dloop]. rewrite E1. cbv zeta. rewrite E2, E3. reflexivity.
        -- simpl. eexists. split; [reflexivity|].
           eapply runs_of_good; [apply dhole_steps; exact Hdl|exact Hg].
      * exists res. split; [|exact Hg]. destruct Hdl as [N H].
        exists (S N). intros G F HG HF. destruct G as [|G]; [lia|].
        cbn [dloop]. rewrite E1. cbv zeta. rewrite E2, E3. apply H; lia.
    + destruct (dtail_sim cursor sub Hr) as [res [[N H] Hg]].
      exists res. split; [|exact Hg].
      exists (S N). intros G F HG HF. destruct G as [|G]; [lia|].
      cbn [dloop]. rewrite E1. cbv zeta. rewrite E2. apply H; lia.
  - destruct (dfinal_sim cursor (Some s) sub (s :: r)) as [res [[N H] Hg]].
    { simpl. eauto. }
    exists res. split; [|exact Hg].
    exists (S N). intros G F HG HF. destruct G as [|G]; [lia|].
    cbn [dloop]. rewrite E1. apply H; lia.
Qed.
End Tail.

Lemma dcarve_sim : forall subs cursor cs sub, srel cs sub subs ->
  exists res, dl (DmCarve ev cursor) cs src sub res /\ good res (carve_out ev cursor subs Lr).
Proof.
  induction subs as [|s r IH]; intros cursor cs sub Hrel.
  - destruct cs as [x|]; simpl in Hrel.
    { destruct Hrel as [r [Hr _]]. discriminate. }
    rewrite carve_out_nil.
    destruct (dfinal_sim cursor None sub [] eq_refl) as [res [[N H] Hg]].
    exists res. split; [|exact Hg].
    exists (S N). intros G F HG HF. destruct G as [|G]; [lia|]. cbn [dloop]. apply H; lia.
  - destruct cs as [x|]; simpl in Hrel; [|discriminate].
    destruct Hrel as [r' [Heq Hr]]. injection Heq as Hx Hr'. subst x r'.
    apply dcarve_cons_sim; [exact IH|exact Hr].
Qed.
End OneEvent.

(* the main loop, from "for event in source_stream" *)
Lemma dloop_sim : forall src Ls, runs src Ls ->
  forall cs sub subs, srel cs sub subs ->
  exists r, dl DmNext cs src sub r /\ good r (dsweep Ls subs).
Proof.
  intros src Ls H. induction H as [m m' [N Hs]|m m' ev Lr [N Hs] Hr IH]; intros cs sub subs Hrel.
  - exists (None, MDiff DDone cs m' sub). split; [|reflexivity].
    exists (S N). intros G F HG HF. destruct G as [|G]; [lia|]. cbn [dloop].
    rewrite run_bind, Hs by lia. reflexivity.
  - destruct cs as [x|].
    + destruct Hrel as [r' [-> Hr']].
      destruct (dskip_sim (fstart ev) (x :: r') (Some x) sub) as [cs' [sub' [Hrel2 [N2 H2]]]].
      { simpl. eauto. }
      cbn [dsweep]. destruct (dskip (fstart ev) (x :: r')) as [|s1 r1] eqn:Esk.
      * destruct cs' as [y|]; simpl in Hrel2.
        { destruct Hrel2 as [r2 [Hr2 _]]. discriminate. }
        exists (Some ev, MDiff DNext None m' sub'). split.
        -- exists (S (Nat.max N (S N2))). intros G F HG HF. destruct G as [|G]; [lia|].
           cbn [dloop]. rewrite run_bind, Hs by lia. cbn [fst snd].
           rewrite run_bind, H2 by lia. reflexivity.
        -- simpl. eexists. split; [reflexivity|].
           destruct (IH None sub' [] eq_refl) as [r [Hdl Hg]].
           eapply runs_of_good; [apply dnext_steps; exact Hdl|exact Hg].
      * destruct cs' as [y|]; simpl in Hrel2; [|discriminate].
        destruct (dcarve_sim ev m' Lr IH (s1 :: r1) (fstart ev) (Some y) sub' Hrel2)
          as [res [[N3 H3] Hg]].
        exists res. split; [|exact Hg].
        exists (S (Nat.max N (S (Nat.max N2 N3)))). intros G F HG HF. destruct G as [|G]; [lia|].
        cbn [dloop]. rewrite run_bind, Hs by lia. cbn [fst snd].
        rewrite run_bind, H2 by lia. cbn [fst snd]. apply H3; lia.
    + simpl in Hrel. subst subs. cbn [dsweep].
      exists (Some ev, MDiff DNext None m' sub). split.
      * exists (S N). intros G F HG HF. destruct G as [|G]; [lia|].
        cbn [dloop]. rewrite run_bind, Hs by lia. reflexivity.
      * simpl. eexists. split; [reflexivity|].
        destruct (IH None sub [] eq_refl) as [r [Hdl Hg]].
        eapply runs_of_good; [apply dnext_steps; exact Hdl|exact Hg].
Qed.

(* Difference._sweep over a source machine and ONE (already merged) subtractor machine *)
Theorem runs_dsweep : forall src sub Ls Lsub, runs src Ls -> runs sub Lsub ->
  runs (MDiff DInit None src sub) (dsweep Ls Lsub).
Proof.
  intros src sub Ls Lsub Hs Hsub.
  destruct (srel_of_step sub Lsub Hsub) as [y [m' [[N1 H1] Hrel]]].
  destruct (dloop_sim src Ls Hs y m' Lsub Hrel) as [r [[N2 H2] Hg]].
  eapply runs_of_good; [|exact Hg].
  exists (S (Nat.max N1 N2)). intros F HF. destruct F as [|F]; [lia|]. cbn [next dnext].
  rewrite run_bind, H1 by lia. cbn [fst snd]. apply H2; lia.
Qed.

(* the Difference machine as [compile] builds it: the subtractors merged by heapq.merge *)
Theorem diff_machine_refines : forall src subs Ls Lsubs,
  runs src Ls -> Forall2 runs subs Lsubs ->
  runs (MDiff DInit None src (MUnion UInit (map (fun m => (None, m)) subs)))
       (diff_sweep Ls Lsubs).
Proof.
  intros src subs Ls Lsubs Hs Hsubs. unfold diff_sweep.
  apply runs_dsweep; [exact Hs|]. apply runs_union. exact Hsubs.
Qed.

End Diff.

Print Assumptions diff_machine_refines.

(* non-vacuity: a daily source minus two subtractor machines over finite (truncated) oracles *)
Example diff_machine_refines_ex :
  let o : oenv := fun id k =>
    match id, k with
    | 0%nat, 0%nat => Some (mkI (Some 0) (Some 100) Plain)
    | 0%nat, 1%nat => Some (mkI (Some 200) (Some 300) Plain)
    | 1%nat, 0%nat => Some (mkI (Some 10) (Some 20) Plain)
    | 2%nat, 0%nat => Some (mkI (Some 50) (Some 250) Plain)
    | _, _ => None
    end in
  runs [] o (MLeaf 0 0) (enum 2 (o 0%nat) 0) /\
  Forall2 (runs [] o) [MLeaf 1 0; MLeaf 2 0] [enum 1 (o 1%nat) 0; enum 1 (o 2%nat) 0] /\
  diff_sweep (enum 2 (o 0%nat) 0) [enum 1 (o 1%nat) 0; enum 1 (o 2%nat) 0] =
    [mkI (Some 0) (Some 10) Plain; mkI (Some 20) (Some 50) Plain; mkI (Some 250) (Some 300) Plain].
Proof.
  cbv zeta. split; [apply runs_leaf; reflexivity|]. split; [|reflexivity].
  repeat constructor; apply runs_leaf; reflexivity.
Qed.

(* ------------------------------------------------------------------------------------ *)
(* whole expressions: every operator.  The only remaining condition is the modelling one of
   Model/Pull.v: an Intersection has at least two operands (a & b has two, tl[a:b] adds solid;
   the one-operand special case of Intersection._sweep is not a shape the operators build). *)

Fixpoint wfx (e : pexpr) : bool :=
  match e with
  | PPer _ _ _ _ => true
  | PSto _ _ => true
  | PSolid => true
  | PUnion es => forallb wfx es
  | PInter es => (2 <=? length es)%nat && forallb wfx es
  | PDiff s subs => wfx s && forallb wfx subs
  | PCompl s => wfx s
  | PFilt s _ => wfx s
  | PBuf s _ _ => wfx s
  end.

(* frag2 (the class of Proofs/PullInter.v) is the difference-free part of wfx *)
Lemma frag2_wfx : forall e, frag2 e = true -> wfx e = true.
Proof.
  induction e using pexpr_ind2; intro Hf; simpl in *; auto.
  - induction H as [|x es Hx HF IH]; simpl in *; [reflexivity|].
    apply andb_prop in Hf as [H1 H2]. rewrite Hx, IH by assumption. reflexivity.
  - apply andb_prop in Hf as [Hl Hf]. rewrite Hl. simpl.
    clear Hl. induction H as [|x es Hx HF IH]; simpl in *; [reflexivity|].
    apply andb_prop in Hf as [H1 H2]. rewrite Hx, IH by assumption. reflexivity.
  - destruct subs; [|discriminate]. rewrite IHe by assumption. reflexivity.
Qed.

Lemma Forall2_compile_lfetch : forall env o a b es,
  Forall (fun e => forall a b, wfx e = true -> pos_periods e = true -> leaves_ok o e a (Some b) ->
                   runs env o (compile e a (Some b)) (lfetch env e a b)) es ->
  forallb wfx es = true -> forallb pos_periods es = true ->
  (fix all (l : list pexpr) : Prop :=
     match l with [] => True | s :: r => leaves_ok o s a (Some b) /\ all r end) es ->
  Forall2 (runs env o) (map (fun s => compile s a (Some b)) es) (map (fun s => lfetch env s a b) es).
Proof.
  intros env o a b es H. induction H as [|x es Hx HF IH]; intros Hf Hp Hl; simpl in *; [constructor|].
  apply andb_prop in Hf as [Hf1 Hf2]. apply andb_prop in Hp as [Hp1 Hp2]. destruct Hl as [Hl1 Hl2].
  constructor; [apply Hx; assumption|apply IH; assumption].
Qed.

Theorem pull_eq_list_diff : forall env o e a b,
  wfx e = true -> pos_periods e = true -> leaves_ok o e a (Some b) ->
  runs env o (compile e a (Some b)) (lfetch env e a b).
Proof.
  intros env o e. induction e using pexpr_ind2; intros a b Hf Hp Hl.
  - simpl in *. apply Z.ltb_lt in Hp.
    rewrite <- (enum_ext _ (o id) _ 0 Hl).
    apply runs_leaf. simpl. rewrite Hl. apply per_oracle_none. exact Hp.
  - simpl in *. set (L := fetch_static (sl_build evs) (Some a) (Some b) false) in *.
    assert (HL : enum (length L) (o id) 0 = L).
    { rewrite (enum_ext _ (o id) (nth_error L) 0 Hl). exact (enum_nth_error L []). }
    change (runs env o (MLeaf id 0) L). rewrite <- HL. apply runs_leaf. simpl. rewrite Hl.
    unfold sto_oracle. fold L. apply nth_error_None. lia.
  - apply runs_once.
  - simpl in *. rewrite <- (map_map (fun s => compile s a (Some b)) (fun m => (None, m))).
    apply runs_union. apply Forall2_compile_lfetch; assumption.
  - simpl in Hf, Hp, Hl. apply andb_prop in Hf as [Hlen Hf].
    assert (Hlen2 : (2 <= length es)%nat) by (destruct (length es) as [|[|n]]; try discriminate; lia).
    pose proof (Forall2_compile_lfetch env o a b es H Hf Hp Hl) as HF2.
    cbn [compile lfetch].
    rewrite <- (map_map (fun s => compile s a (Some b)) (fun m => (s0, m))).
    destruct es as [|e1 es']; [simpl in Hlen2; lia|].
    apply runs_inter; [exact HF2|]. rewrite map_length. exact Hlen2.
  - simpl in Hf, Hp, Hl. apply andb_prop in Hf as [Hf1 Hf2]. apply andb_prop in Hp as [Hp1 Hp2].
    destruct Hl as [Hl1 Hl2].
    pose proof (Forall2_compile_lfetch env o a b subs H Hf2 Hp2 Hl2) as HF2.
    cbn [compile lfetch]. destruct subs as [|u subs'].
    + apply IHe; assumption.
    + rewrite <- (map_map (fun s => compile s a (Some b)) (fun m => (None, m))).
      apply diff_machine_refines; [apply IHe; assumption|exact HF2].
  - simpl in *. apply (runs_compl env o _ _ a (Some b)). apply IHe; assumption.
  - simpl in *. apply runs_filt. apply IHe; assumption.
  - simpl in *. apply runs_buf. apply (IHe (a - y) (b + x)); assumption.
Qed.
Print Assumptions pull_eq_list_diff.

(* the slice tl[a:b] = (tl & solid).fetch(a, b) *)
Theorem pull_eq_list_slice_diff : forall env o e a b,
  wfx e = true -> pos_periods e = true -> leaves_ok o e a (Some b) ->
  runs env o (pslice e a (Some b)) (lslice env e a b).
Proof.
  intros env o e a b Hf Hp Hl. unfold pslice, lslice. apply pull_eq_list_diff.
  - unfold pand. destruct e; simpl in *; rewrite ?Hf; try reflexivity.
    apply andb_prop in Hf as [Hlen Hf].
    assert (Hlen2 : (2 <= length es)%nat) by (destruct (length es) as [|[|n]]; try discriminate; lia).
    rewrite forallb_app, Hf. simpl. rewrite andb_true_r.
    rewrite app_length. simpl. destruct (length es) as [|[|n]]; try lia. reflexivity.
  - unfold pand. destruct e; simpl in *; rewrite ?Hp; try reflexivity.
    rewrite forallb_app, Hp. reflexivity.
  - unfold pand. destruct e; simpl in *; auto.
    apply (all_app_leaves o a (Some b) es [PSolid] Hl). simpl. auto.
Qed.
Print Assumptions pull_eq_list_slice_diff.

(* bounded queries terminate, for every operator: the machine of a finite window stops after
   finitely many items, every next() returning for all sufficiently large fuel *)
Corollary bounded_terminates_diff : forall env o e a b,
  wfx e = true -> pos_periods e = true -> leaves_ok o e a (Some b) ->
  exists l, runs env o (pslice e a (Some b)) l.
Proof. intros. eexists. apply pull_eq_list_slice_diff; eassumption. Qed.
Print Assumptions bounded_terminates_diff.

(* non-vacuity: working hours minus (a weekly day off | a stored meeting), a shape excluded
   by frag2; the machine run to StopIteration equals the list model *)
Definition ex_diff : pexpr :=
  PDiff (PPer 0 32400 86400 28800)
        [PPer 1 (-259200) 604800 86400; PSto 2 [mkI (Some 1160000) (Some 1170000) Plain]].

Example pull_eq_list_slice_diff_ex :
  wfx ex_diff = true /\ frag2 ex_diff = false /\ pos_periods ex_diff = true /\
  leaves_ok (oenv_of ex_diff 1000000 (Some 1300000)) ex_diff 1000000 (Some 1300000) /\
  (exists m' c', take 60 [] (oenv_of ex_diff 1000000 (Some 1300000)) 10
                   (pslice ex_diff 1000000 (Some 1300000)) [] =
                 Some (lslice [] ex_diff 1000000 1300000, true, m', c')) /\
  lslice [] ex_diff 1000000 1300000 =
    [mkI (Some 1069200) (Some 1098000) Plain; mkI (Some 1155600) (Some 1160000) Plain;
     mkI (Some 1170000) (Some 1184400) Plain; mkI (Some 1242000) (Some 1270800) Plain].
Proof.
  split; [reflexivity|]. split; [reflexivity|]. split; [reflexivity|].
  split; [simpl; repeat split; intro k; reflexivity|].
  split; [eexists; eexists; vm_compute; reflexivity|vm_compute; reflexivity].
Qed.

(* ==================================================================================== *)
(* 3. the open-ended slice is a prefix of every sufficiently long bounded slice *)

Lemma exec_bind : forall A B (p : prog A) (f : A -> prog B) o c,
  exec o c (bind p f) = match exec o c p with Some (a, c1) => exec o c1 (f a) | None => None end.
Proof.
  induction p as [a0| |id k cont IH]; simpl; intros f o c; try reflexivity. apply IH.
Qed.

(* ---- list helpers *)

Lemma upd_length : forall A (l : list A) i x, length (upd i x l) = length l.
Proof. induction l as [|y l IH]; intros [|i] x; simpl; auto. Qed.

Lemma upd_app_l : forall A (pre suf : list A) i x, (i < length pre)%nat ->
  upd i x (pre ++ suf) = upd i x pre ++ suf.
Proof.
  induction pre as [|y pre IH]; intros suf i x Hi; simpl in Hi; [lia|].
  destruct i as [|i]; simpl; [reflexivity|]. rewrite IH by lia. reflexivity.
Qed.

Lemma fold_min_last : forall x r z,
  fold_right Z.min z (map fend (r ++ [x])) = Z.min (fold_right Z.min z (map fend r)) (fend x).
Proof.
  intros x r. induction r as [|y r IH]; intro z; cbn [app map fold_right].
  - lia.
  - rewrite IH. lia.
Qed.

Lemma min_end_last : forall act x, act <> [] -> min_end act < fend x ->
  min_end (act ++ [x]) = min_end act.
Proof.
  intros [|a0 r] x Hne Hlt; [congruence|]. unfold min_end in *. cbn [app].
  rewrite fold_min_last. lia.
Qed.

Lemma max_start_last : forall act x1 x2, fstart x1 = fstart x2 ->
  max_start (act ++ [x1]) = max_start (act ++ [x2]).
Proof.
  intros [|a0 r] x1 x2 H; unfold max_start; cbn [app]; [exact H|].
  rewrite !map_app. cbn [map]. rewrite H. reflexivity.
Qed.

Section Switch.
Variable o : oenv.
Variable a : Z.

(* the solid timeline seen through [a, +inf) and through [a, b] *)
Definition solo : ivl := mkI (Some a) None Plain.
Definition solb (b : Z) : ivl := mkI (Some a) (Some b) Plain.
(* its source state in a running Intersection *)
Definition sol (x : ivl) (ex : bool) (lp : option Z) : sstate * mach :=
  (mkS (Some x) [] ex lp, MOnce None).

(* replace the end of the LAST operand (the solid clip) of an Intersection machine by b *)
Definition swp (b : Z) (y : sstate * mach) : sstate * mach :=
  (mkS (match cur (fst y) with Some x => Some (mkI (st x) (Some b) (pl x)) | None => None end)
       (rest (fst y)) (exh (fst y)) (lpc (fst y)),
   match snd y with MOnce (Some x) => MOnce (Some (mkI (st x) (Some b) (pl x))) | m => m end).
Definition swl (b : Z) (ss : list (sstate * mach)) : list (sstate * mach) :=
  removelast ss ++ [swp b (last ss (s0, MOnce None))].
Definition toB (b : Z) (m : mach) : mach :=
  match m with MInter masks c ss => MInter masks c (swl b ss) | _ => m end.

Lemma swl_last : forall b pre y, swl b (pre ++ [y]) = pre ++ [swp b y].
Proof. intros. unfold swl. rewrite removelast_last, last_last. reflexivity. Qed.

Lemma swl_sol : forall b pre ex lp, swl b (pre ++ [sol solo ex lp]) = pre ++ [sol (solb b) ex lp].
Proof. intros. rewrite swl_last. reflexivity. Qed.

(* the machines of an open-ended slice: not started / running *)
Inductive oform : mach -> Prop :=
| of_init : forall masks ms, ms <> [] -> emit_sel masks (length ms) = false ->
    oform (MInter masks IInit (map (fun m => (s0, m)) ms ++ [(s0, MOnce (Some solo))]))
| of_run : forall masks ctl pre ex lp, ctl <> IInit -> pre <> [] ->
    emit_sel masks (length pre) = false ->
    oform (MInter masks ctl (pre ++ [sol solo ex lp])).

Lemma ends_at_solo : forall oe ex lp, oe < POS_INF -> ends_at oe (fst (sol solo ex lp)) = false.
Proof.
  intros oe ex lp H. unfold ends_at, sol, solo, fend. cbn [fst cur en].
  replace (POS_INF =? oe) with false by (symmetry; apply Z.eqb_neq; lia). reflexivity.
Qed.

Lemma ends_at_solb : forall oe b ex lp, oe < b -> ends_at oe (fst (sol (solb b) ex lp)) = false.
Proof.
  intros oe b ex lp H. unfold ends_at, sol, solb, fend. cbn [fst cur en].
  replace (b =? oe) with false by (symmetry; apply Z.eqb_neq; lia). reflexivity.
Qed.

Lemma all_cur_last : forall pre x ex lp,
  all_cur (map fst (pre ++ [sol x ex lp])) =
  match all_cur (map fst pre) with Some l => Some (l ++ [x]) | None => None end.
Proof.
  intros pre x ex lp. induction pre as [|sm pre IH]; [reflexivity|].
  unfold all_cur in *. cbn [app map fold_right]. rewrite IH.
  destruct (cur (fst sm)); [|reflexivity].
  destruct (fold_right _ (Some []) (map fst pre)); reflexivity.
Qed.

Lemma all_cur_ne : forall (pre : list (sstate * mach)) act,
  pre <> [] -> all_cur (map fst pre) = Some act -> act <> [].
Proof.
  intros [|sm pre] act Hne H; [congruence|]. unfold all_cur in H. cbn [map fold_right] in H.
  destruct (cur (fst sm)); [|discriminate].
  destruct (fold_right _ (Some []) (map fst pre)); [|discriminate].
  injection H as <-. discriminate.
Qed.

Lemma efind_last : forall oe sel pre i j y1 y2, sel (i + length pre)%nat = false ->
  efind oe sel i j (pre ++ [y1]) = efind oe sel i j (pre ++ [y2]).
Proof.
  intros oe sel pre. induction pre as [|sm pre IH]; intros i j y1 y2 H; cbn [app efind length] in *.
  - rewrite Nat.add_0_r in H. rewrite H, andb_false_r. cbn [andb].
    destruct (cur (fst y1)), (cur (fst y2)); reflexivity.
  - rewrite (IH (S i) j y1 y2) by (rewrite <- H; f_equal; lia). reflexivity.
Qed.

Lemma set_lpc_last : forall i oe pre ex lp,
  exists pre' lp', length pre' = length pre /\
    forall x, set_lpc i oe (pre ++ [sol x ex lp]) = pre' ++ [sol x ex lp'].
Proof.
  intros i oe pre ex lp. destruct (lt_eq_lt_dec i (length pre)) as [[Hlt|Heq]|Hgt].
  - destruct (nth_error pre i) as [[s m]|] eqn:En.
    + exists (upd i (mkS (cur s) (rest s) (exh s) (Some oe), m) pre), lp.
      split; [apply upd_length|]. intro x. unfold set_lpc.
      rewrite nth_error_app1, En by exact Hlt. apply upd_app_l. exact Hlt.
    + apply nth_error_None in En. lia.
  - subst i. exists pre, (Some oe). split; [reflexivity|]. intro x. unfold set_lpc.
    rewrite nth_error_app2, Nat.sub_diag by lia. cbn [nth_error sol]. apply upd_app.
  - exists pre, lp. split; [reflexivity|]. intro x. unfold set_lpc.
    replace (nth_error (pre ++ [sol x ex lp]) i) with (@None (sstate * mach)); [reflexivity|].
    symmetry. apply nth_error_None. rewrite app_length. simpl. lia.
Qed.

Lemma padv_first_last : forall nx p sel pre i y1 c res c1,
  sel (i + length pre)%nat && p (fst y1) = false ->
  exec o c (padv_first nx p sel i (pre ++ [y1])) = Some (res, c1) ->
  exists pre', length pre' = length pre /\ fst res = pre' ++ [y1] /\
    forall y2, sel (i + length pre)%nat && p (fst y2) = false ->
      exec o c (padv_first nx p sel i (pre ++ [y2])) = Some ((pre' ++ [y2], snd res), c1).
Proof.
  intros nx p sel pre. induction pre as [|sm pre IH]; intros i y1 c res c1 H1 H;
    cbn [app padv_first length] in *.
  - rewrite Nat.add_0_r in *. rewrite H1 in H. cbn in H. injection H as <- <-.
    exists []. split; [reflexivity|]. split; [reflexivity|]. intros y2 H2. rewrite H2. reflexivity.
  - replace (i + S (length pre))%nat with (S i + length pre)%nat in * by lia.
    destruct (sel i && p (fst sm)).
    + rewrite exec_bind in H. destruct (exec o c (padv nx sm)) as [[smb c2]|] eqn:E; [|discriminate].
      cbn in H. injection H as <- <-. exists (fst smb :: pre). split; [reflexivity|].
      split; [reflexivity|]. intros y2 _. rewrite exec_bind, E. reflexivity.
    + rewrite exec_bind in H.
      destruct (exec o c (padv_first nx p sel (S i) (pre ++ [y1]))) as [[rb c2]|] eqn:E; [|discriminate].
      cbn in H. injection H as <- <-.
      destruct (IH (S i) y1 c rb c2 H1 E) as [pre' [Hlen [Hfst Hy2]]].
      exists (sm :: pre'). split; [simpl; lia|]. split; [cbn [fst]; rewrite Hfst; reflexivity|].
      intros y2 H2. rewrite exec_bind, (Hy2 y2 H2). reflexivity.
Qed.

Lemma min_end_app_last : forall act x, act <> [] ->
  min_end (act ++ [x]) = Z.min (min_end act) (fend x).
Proof.
  intros [|a0 r] x Hne; [congruence|]. unfold min_end. cbn [app]. apply fold_min_last.
Qed.

Section Loop.
Variable nx : mach -> prog step.
Variable masks : list bool.

(* the HORIZON of a run of the loop: 1 + the largest overlap end (min of the operands' current
   ends) it looked at.  Computed from the open-ended run alone. *)
Fixpoint ihor (f : nat) (entry : option (Z * Z * nat)) (ss : list (sstate * mach)) (c : cnts) : Z :=
  match f with
  | O => 0
  | S f' =>
    let pos := match entry with
               | Some e => Some e
               | None => match all_cur (map fst ss) with
                         | None => None
                         | Some act => Some (max_start act, min_end act, O)
                         end
               end in
    match pos with
    | None => 0
    | Some (os, oe, j) =>
      match (if os <? oe then efind oe (emit_sel masks) 0 j ss else None) with
      | Some _ => oe + 1
      | None =>
        match exec o c (padv_first nx (ends_at oe) (fun _ => true) 0 ss) with
        | None => 0
        | Some (r1, c2) =>
          match exec o c2 (if snd r1 then Ret r1
                           else padv_first nx (stalled oe) (emit_sel masks) 0 (fst r1)) with
          | None => 0
          | Some (r2, c3) => if snd r2 then Z.max (oe + 1) (ihor f' None (fst r2) c3) else oe + 1
          end
        end
      end
    end
  end.

Lemma ihor_entry : forall f os oe j ss c,
  ihor (S f) (Some (os, oe, j)) ss c =
  match (if os <? oe then efind oe (emit_sel masks) 0 j ss else None) with
  | Some _ => oe + 1
  | None =>
    match exec o c (padv_first nx (ends_at oe) (fun _ => true) 0 ss) with
    | None => 0
    | Some (r1, c2) =>
      match exec o c2 (if snd r1 then Ret r1
                       else padv_first nx (stalled oe) (emit_sel masks) 0 (fst r1)) with
      | None => 0
      | Some (r2, c3) => if snd r2 then Z.max (oe + 1) (ihor f None (fst r2) c3) else oe + 1
      end
    end
  end.
Proof. reflexivity. Qed.

Lemma ihor_none : forall f ss c act, all_cur (map fst ss) = Some act ->
  ihor (S f) None ss c = ihor (S f) (Some (max_start act, min_end act, O)) ss c.
Proof. intros f ss c act H. cbn [ihor]. rewrite H. reflexivity. Qed.

Lemma ihor_entry_ge : forall f os oe j ss c r c1,
  exec o c (iloop (S f) nx masks (Some (os, oe, j)) ss) = Some (r, c1) ->
  oe + 1 <= ihor (S f) (Some (os, oe, j)) ss c.
Proof.
  intros f os oe j ss c r c1 H. rewrite iloop_entry in H. rewrite ihor_entry.
  destruct (if os <? oe then efind oe (emit_sel masks) 0 j ss else None) as [[i cc]|]; [lia|].
  unfold ipost in H. rewrite exec_bind in H.
  destruct (exec o c (padv_first nx (ends_at oe) (fun _ => true) 0 ss)) as [[r1 c2]|]; [|discriminate].
  rewrite exec_bind in H.
  destruct (exec o c2 (if snd r1 then Ret r1
                       else padv_first nx (stalled oe) (emit_sel masks) 0 (fst r1))) as [[r2 c3]|];
    [|discriminate].
  destruct (snd r2); lia.
Qed.

(* the statement for the loop entered at its top *)
Definition sw_ok (f : nat) : Prop :=
  forall pre ex lp c r c1, pre <> [] -> emit_sel masks (length pre) = false ->
  exec o c (iloop f nx masks None (pre ++ [sol solo ex lp])) = Some (r, c1) ->
  forall b, ihor f None (pre ++ [sol solo ex lp]) c <= b ->
            ihor f None (pre ++ [sol solo ex lp]) c <= POS_INF ->
    oform (snd r) /\
    exec o c (iloop f nx masks None (pre ++ [sol (solb b) ex lp])) = Some ((fst r, toB b (snd r)), c1).

Lemma entry_sw : forall f, sw_ok f ->
  forall os oe j pre ex lp c r c1, pre <> [] -> emit_sel masks (length pre) = false ->
  exec o c (iloop (S f) nx masks (Some (os, oe, j)) (pre ++ [sol solo ex lp])) = Some (r, c1) ->
  forall b, ihor (S f) (Some (os, oe, j)) (pre ++ [sol solo ex lp]) c <= b ->
            ihor (S f) (Some (os, oe, j)) (pre ++ [sol solo ex lp]) c <= POS_INF ->
    oform (snd r) /\
    exec o c (iloop (S f) nx masks (Some (os, oe, j)) (pre ++ [sol (solb b) ex lp]))
      = Some ((fst r, toB b (snd r)), c1).
Proof.
  intros f IH os oe j pre ex lp c r c1 Hne Hsel H b Hb Hp.
  pose proof (ihor_entry_ge _ _ _ _ _ _ _ _ H) as Hge.
  assert (Eoe : oe < POS_INF) by lia. assert (Eob : oe < b) by lia. clear Hge.
  rewrite ihor_entry in Hb, Hp. rewrite iloop_entry in H.
  assert (Hef : efind oe (emit_sel masks) 0 j (pre ++ [sol (solb b) ex lp]) =
                efind oe (emit_sel masks) 0 j (pre ++ [sol solo ex lp])).
  { apply efind_last. exact Hsel. }
  destruct (if os <? oe then efind oe (emit_sel masks) 0 j (pre ++ [sol solo ex lp]) else None)
    as [[i cc]|] eqn:Ef.
  - cbn in H. injection H as <- <-. split.
    + apply of_run; [discriminate|exact Hne|exact Hsel].
    + rewrite iloop_entry, Hef, Ef. cbn [fst snd toB]. rewrite swl_sol. reflexivity.
  - unfold ipost in H. rewrite exec_bind in H.
    destruct (exec o c (padv_first nx (ends_at oe) (fun _ => true) 0 (pre ++ [sol solo ex lp])))
      as [[r1 c2]|] eqn:E1; [|discriminate].
    destruct (padv_first_last nx (ends_at oe) (fun _ => true) pre 0%nat (sol solo ex lp) c r1 c2
                (ends_at_solo oe ex lp Eoe) E1)
      as [pre1 [Hlen1 [Hfst1 Hy1]]].
    rewrite exec_bind in H.
    destruct (exec o c2 (if snd r1 then Ret r1
                         else padv_first nx (stalled oe) (emit_sel masks) 0 (fst r1)))
      as [[r2 c3]|] eqn:E2; [|discriminate].
    (* second pass *)
    assert (H2 : exists pre2, length pre2 = length pre /\ fst r2 = pre2 ++ [sol solo ex lp] /\
              exec o c2 (if snd r1 then Ret (pre1 ++ [sol (solb b) ex lp], snd r1)
                         else padv_first nx (stalled oe) (emit_sel masks) 0
                                (pre1 ++ [sol (solb b) ex lp]))
                = Some ((pre2 ++ [sol (solb b) ex lp], snd r2), c3)).
    { destruct r1 as [ss1 adv1]. cbn [fst snd] in *. subst ss1. destruct adv1.
      - cbn in E2. injection E2 as <- <-. exists pre1. split; [exact Hlen1|]. split; reflexivity.
      - assert (Hs1 : forall y : sstate * mach,
                  emit_sel masks (0 + length pre1) && stalled oe (fst y) = false).
        { intro y. cbn [Nat.add]. rewrite Hlen1, Hsel. reflexivity. }
        destruct (padv_first_last nx (stalled oe) (emit_sel masks) pre1 0%nat (sol solo ex lp) c2 r2 c3
                    (Hs1 _) E2) as [pre2 [Hlen2 [Hfst2 Hy2]]].
        exists pre2. split; [lia|]. split; [exact Hfst2|]. apply Hy2. apply Hs1. }
    destruct H2 as [pre2 [Hlen2 [Hfst2 Hb2]]].
    destruct r2 as [ss2 adv2]. cbn [fst snd] in *. subst ss2.
    assert (Hne2 : pre2 <> []) by (intro; subst pre2; destruct pre; simpl in *; [congruence|lia]).
    assert (Hsel2 : emit_sel masks (length pre2) = false) by (rewrite Hlen2; exact Hsel).
    assert (Hstep :
              exec o c (iloop (S f) nx masks (Some (os, oe, j)) (pre ++ [sol (solb b) ex lp])) =
              exec o c3 (if adv2 then iloop f nx masks None (pre2 ++ [sol (solb b) ex lp])
                         else Ret (None, MInter masks IDone (pre2 ++ [sol (solb b) ex lp])))).
    { rewrite iloop_entry, Hef, Ef. unfold ipost. rewrite exec_bind.
      rewrite (Hy1 (sol (solb b) ex lp) (ends_at_solb oe b ex lp Eob)). cbn [fst snd].
      rewrite exec_bind, Hb2. reflexivity. }
    rewrite Hstep. destruct adv2.
    + apply (IH pre2 ex lp c3 r c1 Hne2 Hsel2 H); lia.
    + cbn in H. injection H as <- <-. split.
      * apply of_run; [discriminate|exact Hne2|exact Hsel2].
      * cbn [fst snd toB exec]. rewrite swl_sol. reflexivity.
Qed.

Lemma sw_all : forall f, sw_ok f.
Proof.
  induction f as [|f IH]; intros pre ex lp c r c1 Hne Hsel H b Hb Hp; [discriminate|].
  pose proof (all_cur_last pre solo ex lp) as Ho.
  pose proof (all_cur_last pre (solb b) ex lp) as Hbb.
  destruct (all_cur (map fst pre)) as [act|] eqn:Eact.
  - pose proof (all_cur_ne pre act Hne Eact) as Hact.
    rewrite (iloop_none _ _ _ _ _ Ho) in H. rewrite (ihor_none _ _ _ _ Ho) in Hb, Hp.
    pose proof (ihor_entry_ge _ _ _ _ _ _ _ _ H) as Hge.
    assert (Hfs : fend solo = POS_INF) by reflexivity.
    assert (Hfb : fend (solb b) = b) by reflexivity.
    pose proof (min_end_app_last act solo Hact) as HM. rewrite Hfs in HM.
    assert (EM : min_end act < POS_INF) by lia.
    assert (EMo : min_end (act ++ [solo]) = min_end act) by (apply min_end_last; [exact Hact|lia]).
    rewrite EMo in *.
    assert (EMb : min_end (act ++ [solb b]) = min_end act) by (apply min_end_last; [exact Hact|lia]).
    rewrite (iloop_none _ _ _ _ _ Hbb), EMb.
    rewrite (max_start_last act (solb b) solo eq_refl).
    exact (entry_sw f IH _ _ _ pre ex lp c r c1 Hne Hsel H b Hb Hp).
  - rewrite (iloop_none_done _ _ _ _ Ho) in H. cbn in H. injection H as <- <-. split.
    + apply of_run; [discriminate|exact Hne|exact Hsel].
    + rewrite (iloop_none_done _ _ _ _ Hbb). cbn [fst snd toB exec]. rewrite swl_sol. reflexivity.
Qed.

Lemma iloop_switch : forall f entry pre ex lp c r c1,
  pre <> [] -> emit_sel masks (length pre) = false ->
  exec o c (iloop f nx masks entry (pre ++ [sol solo ex lp])) = Some (r, c1) ->
  forall b, ihor f entry (pre ++ [sol solo ex lp]) c <= b ->
            ihor f entry (pre ++ [sol solo ex lp]) c <= POS_INF ->
    oform (snd r) /\
    exec o c (iloop f nx masks entry (pre ++ [sol (solb b) ex lp])) = Some ((fst r, toB b (snd r)), c1).
Proof.
  intros f [[[os oe] j]|] pre ex lp c r c1 Hne Hsel H.
  - destruct f as [|f]; [discriminate|].
    exact (entry_sw f (sw_all f) os oe j pre ex lp c r c1 Hne Hsel H).
  - exact (sw_all f pre ex lp c r c1 Hne Hsel H).
Qed.

Lemma iinit_last : (forall x, nx (MOnce x) = Ret (x, MOnce None)) ->
  forall l x c ss' c1,
  exec o c (iinit nx (l ++ [(s0, MOnce (Some x))])) = Some (ss', c1) ->
  exists pre, length pre = length l /\ ss' = pre ++ [sol x false None] /\
    forall x2, exec o c (iinit nx (l ++ [(s0, MOnce (Some x2))])) = Some (pre ++ [sol x2 false None], c1).
Proof.
  intros Hnx l. induction l as [|sm l IH]; intros x c ss' c1 H; cbn [app iinit] in *.
  - unfold padv in *. cbn [fst snd s0 exh] in *. rewrite Hnx in *. cbn in H. injection H as <- <-.
    exists []. split; [reflexivity|]. split; [reflexivity|]. intro x2. rewrite Hnx. reflexivity.
  - rewrite exec_bind in H. destruct (exec o c (padv nx sm)) as [[smb c2]|] eqn:E; [|discriminate].
    rewrite exec_bind in H.
    destruct (exec o c2 (iinit nx (l ++ [(s0, MOnce (Some x))]))) as [[r' c3]|] eqn:E2; [|discriminate].
    cbn in H. injection H as <- <-.
    destruct (IH x c2 r' c3 E2) as [pre [Hlen [-> Hx2]]].
    exists (fst smb :: pre). split; [simpl; lia|]. split; [reflexivity|].
    intro x2. rewrite exec_bind, E, exec_bind, Hx2. reflexivity.
Qed.


End Loop.
End Switch.

(* ---- one next(), then the first n items, of the sliced machine *)

Section SwitchRun.
Variable env : fenv.
Variable o : oenv.
Variable a : Z.

(* horizon of one next() on an Intersection machine, and of the first n items *)
Definition nhor (F : nat) (m : mach) (c : cnts) : Z :=
  match F, m with
  | S f, MInter masks ctl ss =>
    match ctl with
    | IInit =>
      match exec o c (iinit (next f env) ss) with
      | Some (ss', c2) =>
        if forallb (fun sm : sstate * mach =>
                      exh (fst sm) && match cur (fst sm) with None => true | _ => false end) ss'
        then 0 else ihor o (next f env) masks f None ss' c2
      | None => 0
      end
    | IEmit os oe i => ihor o (next f env) masks f (Some (os, oe, S i)) (set_lpc i oe ss) c
    | IDone => 0
    end
  | _, _ => 0
  end.

Fixpoint phor (F n : nat) (m : mach) (c : cnts) : Z :=
  match n with
  | O => 0
  | S n' =>
    match exec o c (next F env m) with
    | Some ((Some _, m2), c2) => Z.max (nhor F m c) (phor F n' m2 c2)
    | Some ((None, _), _) => nhor F m c
    | None => 0
    end
  end.

Lemma next_MOnce : forall f x, next (S f) env (MOnce x) = Ret (x, MOnce None).
Proof. reflexivity. Qed.

Lemma next_MInter : forall f masks c ss,
  next (S f) env (MInter masks c ss) = inext f (next f env) masks c ss.
Proof. reflexivity. Qed.

Lemma forallb_last_sol : forall pre x ex lp,
  forallb (fun sm : sstate * mach =>
             exh (fst sm) && match cur (fst sm) with None => true | _ => false end)
          (pre ++ [sol x ex lp]) = false.
Proof.
  intros. rewrite forallb_app. cbn [forallb sol fst cur]. rewrite !andb_false_r. reflexivity.
Qed.

Lemma next_switch : forall F c mo r c1, oform a mo ->
  exec o c (next F env mo) = Some (r, c1) ->
  forall b, nhor F mo c <= b -> nhor F mo c <= POS_INF ->
    oform a (snd r) /\ exec o c (next F env (toB b mo)) = Some ((fst r, toB b (snd r)), c1).
Proof.
  intros F c mo r c1 Hform H b Hb Hp. destruct F as [|f]; [discriminate|].
  destruct Hform as [masks ms Hne Hsel|masks ctl pre ex lp Hctl Hne Hsel].
  - (* not started: the initial pulls, then the loop *)
    rewrite next_MInter in H. cbn [inext] in H. cbn [nhor] in Hb, Hp.
    destruct f as [|f'].
    { exfalso. destruct ms as [|m ms]; [congruence|]. cbn in H. discriminate. }
    rewrite exec_bind in H.
    destruct (exec o c (iinit (next (S f') env) (map (fun m => (s0, m)) ms ++ [(s0, MOnce (Some (solo a)))])))
      as [[ss' c2]|] eqn:E; [|discriminate].
    destruct (iinit_last o (next (S f') env) (next_MOnce f') _ _ _ _ _ E) as [pre [Hlen [-> Hx2]]].
    rewrite forallb_last_sol in H, Hb, Hp.
    assert (Hne2 : pre <> []).
    { intro; subst pre. rewrite map_length in Hlen. destruct ms; simpl in *; [congruence|lia]. }
    assert (Hsel2 : emit_sel masks (length pre) = false).
    { rewrite Hlen, map_length. exact Hsel. }
    destruct (iloop_switch o a _ masks _ None pre false None c2 r c1 Hne2 Hsel2 H b Hb Hp) as [Hf Hex].
    split; [exact Hf|].
    cbn [toB]. rewrite swl_last, next_MInter. cbn [inext]. rewrite exec_bind.
    change (swp b (s0, MOnce (Some (solo a)))) with (s0, MOnce (Some (solb a b))).
    rewrite (Hx2 (solb a b)). rewrite forallb_last_sol. exact Hex.
  - destruct ctl as [|os oe i|]; [congruence| |].
    + (* resumed inside the emit loop *)
      rewrite next_MInter in H. cbn [inext] in H. cbn [nhor] in Hb, Hp.
      destruct (set_lpc_last i oe pre ex lp) as [pre' [lp' [Hlen Hset]]].
      rewrite (Hset (solo a)) in H, Hb, Hp.
      assert (Hne2 : pre' <> []) by (intro; subst pre'; destruct pre; simpl in *; [congruence|lia]).
      assert (Hsel2 : emit_sel masks (length pre') = false) by (rewrite Hlen; exact Hsel).
      destruct (iloop_switch o a _ masks _ _ pre' ex lp' c r c1 Hne2 Hsel2 H b Hb Hp) as [Hf Hex].
      split; [exact Hf|].
      cbn [toB]. rewrite swl_sol, next_MInter. cbn [inext]. rewrite (Hset (solb a b)). exact Hex.
    + cbn in H. injection H as <- <-. split.
      * apply of_run; assumption.
      * reflexivity.
Qed.

Lemma ptake_switch : forall F n c mo res c1, oform a mo ->
  exec o c (ptake F env n mo) = Some (res, c1) ->
  forall b, phor F n mo c <= b -> phor F n mo c <= POS_INF ->
    exec o c (ptake F env n (toB b mo)) = Some ((fst (fst res), snd (fst res), toB b (snd res)), c1).
Proof.
  intros F n. induction n as [|n IH]; intros c mo res c1 Hform H b Hb Hp.
  - cbn in H. injection H as <- <-. reflexivity.
  - cbn [ptake] in H. rewrite exec_bind in H. cbn [phor] in Hb, Hp.
    destruct (exec o c (next F env mo)) as [[xm c2]|] eqn:E; [|discriminate].
    destruct xm as [[x|] m2]; cbn [fst snd] in *.
    + destruct (next_switch F c mo _ c2 Hform E b ltac:(lia) ltac:(lia)) as [Hform2 E'].
      cbn [fst snd] in *.
      rewrite exec_bind in H.
      destruct (exec o c2 (ptake F env n m2)) as [[res2 c3]|] eqn:E2; [|discriminate].
      cbn in H. injection H as <- <-.
      cbn [ptake]. rewrite exec_bind, E'. cbn [fst snd].
      rewrite exec_bind, (IH c2 m2 res2 c3 Hform2 E2 b) by lia. reflexivity.
    + destruct (next_switch F c mo _ c2 Hform E b Hb Hp) as [Hform2 E'].
      cbn in H. injection H as <- <-. cbn [ptake]. rewrite exec_bind, E'. reflexivity.
Qed.

(* switching the clip from [a, +inf) to [a, b], same sources: same first n items, same reads *)
Theorem take_switch : forall F n c mo outs fin m' c1, oform a mo ->
  take F env o n mo c = Some (outs, fin, m', c1) ->
  forall b, phor F n mo c <= b -> phor F n mo c <= POS_INF ->
    take F env o n (toB b mo) c = Some (outs, fin, toB b m', c1).
Proof.
  unfold take. intros F n c mo outs fin m' c1 Hform H.
  exact (ptake_switch F n c mo (outs, fin, m') c1 Hform H).
Qed.

End SwitchRun.
Print Assumptions take_switch.

(* ---- the sources: the window end only cuts a source off; every prefix survives a long
   enough window (for EVERY expression) *)

Lemma ev_and : forall P Q : Z -> Prop,
  (exists B, forall b, B <= b -> P b) -> (exists B, forall b, B <= b -> Q b) ->
  exists B, forall b, B <= b -> P b /\ Q b.
Proof.
  intros P Q [B1 H1] [B2 H2]. exists (Z.max B1 B2). intros b Hb. split; [apply H1|apply H2]; lia.
Qed.

Lemma per_oracle_ev : forall ph pe du a K, exists B, forall b, B <= b -> forall k, (k < K)%nat ->
  per_oracle ph pe du a None k = per_oracle ph pe du a (Some b) k.
Proof.
  intros ph pe du a K. induction K as [|K [B IH]].
  - exists 0. intros b _ k Hk. lia.
  - set (s := ph + ((a - du - ph) / pe + 1 + Z.of_nat K) * pe).
    exists (Z.max B s). intros b Hb k Hk. destruct (Nat.eq_dec k K) as [->|Hne].
    + unfold per_oracle. cbv beta iota zeta.
      match goal with |- context [if ?cnd then _ else _] => destruct cnd eqn:E end; [|reflexivity].
      rewrite Z.gtb_ltb in E. apply Z.ltb_lt in E. unfold s in Hb. lia.
    + apply IH; lia.
Qed.

Lemma take_le_all : forall l, exists B, forall b, B <= b -> take_le_start b l = l.
Proof.
  induction l as [|x l [B IH]].
  - exists 0. reflexivity.
  - exists (Z.max B (fstart x)). intros b Hb. cbn [take_le_start].
    replace (fstart x <=? b) with true by (symmetry; apply Z.leb_le; lia).
    rewrite IH by lia. reflexivity.
Qed.

Definition ofirst (a : Z) (b : option Z) (id : nat) : list pexpr -> option (nat -> option ivl) :=
  fix first (l : list pexpr) : option (nat -> option ivl) :=
    match l with
    | [] => None
    | s :: r => match oracle_of s a b id with Some f => Some f | None => first r end
    end.

Lemma oracle_none_indep : forall e a b a' b' id,
  oracle_of e a b id = None -> oracle_of e a' b' id = None.
Proof.
  induction e using pexpr_ind2; intros a b a' b' id' Hn.
  - cbn [oracle_of] in *. destruct (Nat.eqb id id'); [discriminate|reflexivity].
  - cbn [oracle_of] in *. destruct (Nat.eqb id id'); [discriminate|reflexivity].
  - reflexivity.
  - change (ofirst a' b' id' es = None). change (ofirst a b id' es = None) in Hn.
    induction H as [|x es Hx HF IH]; [reflexivity|]. cbn [ofirst] in *.
    destruct (oracle_of x a b id') eqn:E; [discriminate|]. rewrite (Hx _ _ a' b' _ E). apply IH. exact Hn.
  - change (ofirst a' b' id' es = None). change (ofirst a b id' es = None) in Hn.
    induction H as [|x es Hx HF IH]; [reflexivity|]. cbn [ofirst] in *.
    destruct (oracle_of x a b id') eqn:E; [discriminate|]. rewrite (Hx _ _ a' b' _ E). apply IH. exact Hn.
  - change (ofirst a' b' id' (e :: subs) = None). change (ofirst a b id' (e :: subs) = None) in Hn.
    cbn [ofirst] in *.
    destruct (oracle_of e a b id') eqn:E; [discriminate|]. rewrite (IHe _ _ a' b' _ E).
    induction H as [|x es Hx HF IH]; [reflexivity|]. cbn [ofirst] in *.
    destruct (oracle_of x a b id') eqn:E2; [discriminate|]. rewrite (Hx _ _ a' b' _ E2). apply IH. exact Hn.
  - cbn [oracle_of] in *. eapply IHe; eassumption.
  - cbn [oracle_of] in *. eapply IHe; eassumption.
  - cbn [oracle_of] in *. eapply IHe; eassumption.
Qed.

Definition src_ev (e : pexpr) : Prop :=
  forall a id K, exists B, forall b, B <= b -> forall k, (k < K)%nat ->
    oenv_of e a None id k = oenv_of e a (Some b) id k.

Lemma ofirst_ev : forall es, Forall src_ev es ->
  forall a id K, exists B, forall b, B <= b -> forall k, (k < K)%nat ->
    match ofirst a None id es with Some f => f k | None => None end =
    match ofirst a (Some b) id es with Some f => f k | None => None end.
Proof.
  intros es H. induction H as [|x es Hx HF IH]; intros a id K.
  - exists 0. reflexivity.
  - cbn [ofirst]. destruct (oracle_of x a None id) as [f|] eqn:E.
    + destruct (Hx a id K) as [B HB]. exists B. intros b Hb k Hk.
      specialize (HB b Hb k Hk). unfold oenv_of in HB. rewrite E in HB.
      destruct (oracle_of x a (Some b) id) as [g|] eqn:E2; [exact HB|].
      rewrite (oracle_none_indep x _ _ a None _ E2) in E. discriminate.
    + destruct (IH a id K) as [B HB]. exists B. intros b Hb k Hk.
      rewrite (oracle_none_indep x _ _ a (Some b) _ E). apply HB; assumption.
Qed.

Lemma sources_eventually : forall e, src_ev e.
Proof.
  induction e using pexpr_ind2; intros a id' K.
  - unfold oenv_of. cbn [oracle_of]. destruct (Nat.eqb id id').
    + apply per_oracle_ev.
    + exists 0. reflexivity.
  - unfold oenv_of. cbn [oracle_of]. destruct (Nat.eqb id id').
    + destruct (take_le_all (sl_build evs)) as [B HB]. exists B. intros b Hb k _.
      unfold sto_oracle, fetch_static. rewrite HB by exact Hb. reflexivity.
    + exists 0. reflexivity.
  - exists 0. reflexivity.
  - exact (ofirst_ev es H a id' K).
  - exact (ofirst_ev es H a id' K).
  - exact (ofirst_ev (e :: subs) (Forall_cons e IHe H) a id' K).
  - exact (IHe a id' K).
  - exact (IHe a id' K).
  - destruct (IHe (a - y) id' K) as [B HB]. exists (B - x). intros b Hb k Hk.
    exact (HB (b + x) ltac:(lia) k Hk).
Qed.

Lemma agree_eventually : forall e a c, exists B, forall b, B <= b ->
  agree c (oenv_of e a None) (oenv_of e a (Some b)).
Proof.
  intros e a c.
  assert (H : forall sh : nat, exists B, forall b, B <= b -> forall id k, (k < cget c id)%nat ->
            oenv_of e a None (sh + id)%nat k = oenv_of e a (Some b) (sh + id)%nat k).
  { induction c as [|x r IH]; intro sh.
    - exists 0. intros b _ id k Hk. rewrite cget_nil in Hk. lia.
    - destruct (IH (S sh)) as [B1 H1]. destruct (sources_eventually e a sh x) as [B2 H2].
      exists (Z.max B1 B2). intros b Hb [|id] k Hk.
      + rewrite Nat.add_0_r. apply H2; [lia|exact Hk].
      + replace (sh + S id)%nat with (S sh + id)%nat by lia. apply H1; [lia|exact Hk]. }
  destruct (H O) as [B HB]. exists B. intros b Hb id k Hk. exact (HB b Hb id k Hk).
Qed.

(* ---- the class: every operator except Complement (and an explicit solid), whose machines
   carry the window end in their state.  For all others the generator chain does not depend
   on the window at all; only the leaves see it. *)

Fixpoint nsc (e : pexpr) : bool :=
  match e with
  | PPer _ _ _ _ => true
  | PSto _ _ => true
  | PSolid => false
  | PUnion es => forallb nsc es
  | PInter es => forallb nsc es
  | PDiff s subs => nsc s && forallb nsc subs
  | PCompl _ => false
  | PFilt s _ => nsc s
  | PBuf s _ _ => nsc s
  end.

Lemma map_compile_nsc : forall es,
  Forall (fun e => nsc e = true -> forall a b a' b', compile e a b = compile e a' b') es ->
  forallb nsc es = true ->
  forall a b a' b', map (fun s => compile s a b) es = map (fun s => compile s a' b') es.
Proof.
  intros es H. induction H as [|x es Hx HF IH]; intros Hn a b a' b'; [reflexivity|].
  simpl in Hn. apply andb_prop in Hn as [H1 H2]. cbn [map].
  rewrite (Hx H1 a b a' b'), (IH H2 a b a' b'). reflexivity.
Qed.

Lemma compile_nsc : forall e, nsc e = true ->
  forall a b a' b', compile e a b = compile e a' b'.
Proof.
  induction e using pexpr_ind2; intros Hn a b a' b'; cbn [nsc] in Hn; try discriminate.
  - reflexivity.
  - reflexivity.
  - cbn [compile]. rewrite <- !(map_map (fun s => compile s _ _) (fun m => (None, m))).
    rewrite (map_compile_nsc es H Hn a b a' b'). reflexivity.
  - cbn [compile]. rewrite <- !(map_map (fun s => compile s _ _) (fun m => (s0, m))).
    rewrite (map_compile_nsc es H Hn a b a' b'). reflexivity.
  - apply andb_prop in Hn as [H1 H2]. cbn [compile]. destruct subs as [|u subs'].
    + apply IHe. exact H1.
    + rewrite <- !(map_map (fun s => compile s _ _) (fun m => (None, m))).
      rewrite (map_compile_nsc (u :: subs') H H2 a b a' b'), (IHe H1 a b a' b'). reflexivity.
  - cbn [compile]. rewrite (IHe Hn a b a' b'). reflexivity.
  - cbn [compile]. rewrite (IHe Hn (a - y) (addO b x) (a' - y) (addO b' x)). reflexivity.
Qed.

(* the operands of tl[a:b] = Intersection(operands..., solid) *)
Definition operands (e : pexpr) : list pexpr := match e with PInter l => l | _ => [e] end.

Lemma pand_solid : forall e, pand e PSolid = PInter (operands e ++ [PSolid]).
Proof. destruct e; reflexivity. Qed.

Lemma nsc_operands : forall e, nsc e = true -> forallb nsc (operands e) = true.
Proof. destruct e; simpl; intro H; rewrite ?H; try reflexivity; try discriminate; try exact H. Qed.

Lemma pslice_shape : forall e a b, nsc e = true ->
  pslice e a b =
  MInter (map pis_mask (operands e) ++ [true]) IInit
         (map (fun m => (s0, m)) (map (fun s => compile s a None) (operands e))
          ++ [(s0, MOnce (Some (mkI (Some a) b Plain)))]).
Proof.
  intros e a b Hn. unfold pslice. rewrite pand_solid. cbn [compile]. rewrite !map_app. cbn [map pis_mask compile].
  f_equal. f_equal. rewrite map_map.
  pose proof (nsc_operands e Hn) as Hall. induction (operands e) as [|x l IH]; [reflexivity|].
  simpl in Hall. apply andb_prop in Hall as [H1 H2]. cbn [map].
  rewrite (compile_nsc x H1 a b a None), (IH H2). reflexivity.
Qed.

Lemma emit_sel_solid : forall l, l <> [] -> emit_sel (l ++ [true]) (length l) = false.
Proof.
  intros l Hne. unfold emit_sel. rewrite forallb_app, existsb_app. cbn [forallb existsb].
  rewrite andb_true_r, orb_true_r.
  destruct (forallb (fun b => b) l).
  - destruct l; [congruence|reflexivity].
  - rewrite app_nth2, Nat.sub_diag by lia. reflexivity.
Qed.

(* the horizon of islice(e[a:], n): 1 + the largest overlap end the clip looked at *)
Definition slice_horizon (F : nat) (env : fenv) (e : pexpr) (a : Z) (n : nat) (c : cnts) : Z :=
  phor env (oenv_of (pand e PSolid) a None) F n (pslice e a None) c.

(* explicit form: b may be any window end at or past the horizon of the open-ended run through
   which the leaves show the same prefixes as they do through [a, +inf) *)
Theorem prefix_of_bounded_explicit : forall F env e a n c outs fin m' c',
  nsc e = true -> operands e <> [] ->
  take F env (oenv_of (pand e PSolid) a None) n (pslice e a None) c = Some (outs, fin, m', c') ->
  slice_horizon F env e a n c <= POS_INF ->
  forall b, slice_horizon F env e a n c <= b ->
    agree c' (oenv_of (pand e PSolid) a None) (oenv_of (pand e PSolid) a (Some b)) ->
    take F env (oenv_of (pand e PSolid) a (Some b)) n (pslice e a (Some b)) c
      = Some (outs, fin, toB b m', c').
Proof.
  intros F env e a n c outs fin m' c' Hn Hne H Hhor b Hb Hag. unfold slice_horizon in Hhor, Hb.
  rewrite (pslice_shape e a None Hn) in H, Hhor, Hb.
  set (masks := map pis_mask (operands e) ++ [true]) in *.
  set (ms := map (fun s => compile s a None) (operands e)) in *.
  assert (Hform : oform a (MInter masks IInit (map (fun m => (s0, m)) ms ++ [(s0, MOnce (Some (solo a)))]))).
  { apply of_init.
    - unfold ms. destruct (operands e); [congruence|discriminate].
    - unfold ms, masks. rewrite map_length, <- (map_length pis_mask). apply emit_sel_solid.
      destruct (operands e); [congruence|discriminate]. }
  change (mkI (Some a) None Plain) with (solo a) in H, Hhor, Hb.
  pose proof (take_switch env _ a F n c _ outs fin m' c' Hform H b Hb Hhor) as Hsw.
  rewrite (pslice_shape e a (Some b) Hn). fold masks ms.
  eapply pull_noninterference; [|exact Hag].
  cbn [toB] in Hsw. rewrite swl_last in Hsw. exact Hsw.
Qed.
Print Assumptions prefix_of_bounded_explicit.

(* C14, "yields exactly the first n results of a sufficiently long bounded query":
   for every expression built from recurring and stored leaves with | & - filter buffer
   (everything except Complement), if islice(e[a:], n) returns (outs, fin) after reading the
   source prefixes c', then there is a bound B such that EVERY bounded query e[a:b], b >= B,
   returns the same first n results, after reading exactly the same source prefixes, and is
   left in the same state (up to the end of the clip).  The side condition says that the
   overlap ends the clip looked at stay below the +infinity sentinel 2^63-2 (that is: no
   unbounded events reached the clip); the horizon is computable from the open-ended run. *)
(* FULL STATEMENT (not proved; no counterexample found by vm_compute on recurring sources):
     forall F env e a n c outs fin m' c', wfx e = true ->
       take F env (oenv_of (pand e PSolid) a None) n (pslice e a None) c = Some (outs, fin, m', c') ->
       slice_horizon' ... <= POS_INF ->      (a horizon that also covers the Complement nodes)
       exists B, forall b, B <= b -> exists m'',
         take F env (oenv_of (pand e PSolid) a (Some b)) n (pslice e a (Some b)) c
           = Some (outs, fin, m'', c').
   Missing: expressions containing Complement (or an explicit solid).  Their machines carry the
   window end in their state (MCompl eb e), so the open-ended and the bounded chain differ below
   the clip as well; the proof here uses that for every other operator [compile] does not depend
   on the window (compile_nsc) and only the clip and the leaf oracles have to be switched. *)
Theorem prefix_of_bounded_partial : forall F env e a n c outs fin m' c',
  nsc e = true -> operands e <> [] ->
  take F env (oenv_of (pand e PSolid) a None) n (pslice e a None) c = Some (outs, fin, m', c') ->
  slice_horizon F env e a n c <= POS_INF ->
  exists B, forall b, B <= b ->
    take F env (oenv_of (pand e PSolid) a (Some b)) n (pslice e a (Some b)) c
      = Some (outs, fin, toB b m', c').
Proof.
  intros F env e a n c outs fin m' c' Hn Hne H Hhor.
  destruct (agree_eventually (pand e PSolid) a c') as [B2 HB2].
  exists (Z.max B2 (slice_horizon F env e a n c)). intros b Hb.
  apply (prefix_of_bounded_explicit F env e a n c outs fin m' c' Hn Hne H Hhor b); [lia|].
  apply HB2. lia.
Qed.
Print Assumptions prefix_of_bounded_partial.

(* non-vacuity: (working hours - a weekly day off) & a buffered 12-hourly pattern, open end:
   5 items exist, the horizon is 1443601; the last source item read (the next weekly day off,
   held as current_subtractor) starts at 1555200, and the bounded query ending there gives the
   same items, reads and state *)
Definition ex_lazy : pexpr :=
  pand (PDiff (PPer 0 32400 86400 28800) [PPer 1 (-259200) 604800 86400])
       (PBuf (PPer 3 0 43200 3600) 10000 20000).

Example prefix_of_bounded_partial_ex :
  nsc ex_lazy = true /\ operands ex_lazy <> [] /\
  slice_horizon 60 [] ex_lazy 1000000 5 [] = 1443601 /\ 1443601 <= POS_INF /\
  exists outs m' c',
    take 60 [] (oenv_of (pand ex_lazy PSolid) 1000000 None) 5 (pslice ex_lazy 1000000 None) []
      = Some (outs, false, m', c') /\
    length outs = 5%nat /\
    take 60 [] (oenv_of (pand ex_lazy PSolid) 1000000 (Some 1555200)) 5
         (pslice ex_lazy 1000000 (Some 1555200)) []
      = Some (outs, false, toB 1555200 m', c').
Proof.
  split; [reflexivity|]. split; [discriminate|]. split; [vm_compute; reflexivity|].
  split; [vm_compute; discriminate|].
  eexists. eexists. eexists. split; [vm_compute; reflexivity|].
  split; [reflexivity|vm_compute; reflexivity].
Qed.

(* The side condition cannot be dropped for window ends below the sentinel: with an unbounded
   stored event the open-ended slice yields an item with end = None, every bounded slice an
   item with end = b.  (Not a defect: C14 speaks of recurring sources, whose items are
   bounded.)  The statement "there is B < POS_INF such that all b in [B, POS_INF) give the
   same first n items" is false of the model: *)
Theorem prefix_of_bounded_refuted :
  exists F env e a n c outs m' c',
    nsc e = true /\ operands e <> [] /\ wfx e = true /\
    take F env (oenv_of (pand e PSolid) a None) n (pslice e a None) c = Some (outs, false, m', c') /\
    POS_INF < slice_horizon F env e a n c /\
    forall B, B < POS_INF -> exists b, B <= b < POS_INF /\
      exists outs' fin' m'' c'',
        take F env (oenv_of (pand e PSolid) a (Some b)) n (pslice e a (Some b)) c
          = Some (outs', fin', m'', c'') /\ outs' <> outs.
Proof.
  exists 10%nat, [], (PSto 0 [mkI (Some 0) None Plain]), 0, 1%nat, [].
  eexists. eexists. eexists.
  split; [reflexivity|]. split; [discriminate|]. split; [reflexivity|].
  split; [vm_compute; reflexivity|]. split; [vm_compute; reflexivity|].
  intros B HB. exists (POS_INF - 1). split; [lia|].
  eexists. eexists. eexists. eexists. split; [vm_compute; reflexivity|discriminate].
Qed.
Print Assumptions prefix_of_bounded_refuted.

(* ==================================================================================== *)
(* 4. fuel monotonicity of the interpreter, and with it: the open-ended slice against the LIST
   model of the bounded query *)

Section Mono.
Variable o : oenv.

Definition pmono {A} (p p' : prog A) : Prop := forall r, run o p = Some r -> run o p' = Some r.

Lemma pmono_refl : forall A (p : prog A), pmono p p.
Proof. intros A p r H. exact H. Qed.

Lemma pmono_fail : forall A (p' : prog A), pmono Fail p'.
Proof. intros A p' r H. discriminate. Qed.

Lemma pmono_bind : forall A B (p p' : prog A) (f f' : A -> prog B),
  pmono p p' -> (forall x, pmono (f x) (f' x)) -> pmono (bind p f) (bind p' f').
Proof.
  intros A B p p' f f' Hp Hf r H. rewrite run_bind in *.
  destruct (run o p) as [x|] eqn:E; [|discriminate]. rewrite (Hp x E). apply Hf. exact H.
Qed.

Section Loops.
Variables nx nx' : mach -> prog step.
Hypothesis Hnx : forall m, pmono (nx m) (nx' m).

Lemma uinit_mono : forall hs, pmono (uinit nx hs) (uinit nx' hs).
Proof.
  induction hs as [|[h m] r IH]; cbn [uinit]; [apply pmono_refl|].
  apply pmono_bind; [apply Hnx|]. intro xm. apply pmono_bind; [exact IH|]. intro. apply pmono_refl.
Qed.

Lemma unext_mono : forall c hs, pmono (unext nx c hs) (unext nx' c hs).
Proof.
  intros [|i|] hs; cbn [unext]; [| |apply pmono_refl].
  - apply pmono_bind; [apply uinit_mono|]. intro. apply pmono_refl.
  - destruct (nth_error hs i) as [[h m]|]; [|apply pmono_refl].
    apply pmono_bind; [apply Hnx|]. intro. apply pmono_refl.
Qed.

Lemma padv_mono : forall sm, pmono (padv nx sm) (padv nx' sm).
Proof.
  intro sm. unfold padv. destruct (exh (fst sm)); [apply pmono_refl|].
  apply pmono_bind; [apply Hnx|]. intro. apply pmono_refl.
Qed.

Lemma iinit_mono : forall ss, pmono (iinit nx ss) (iinit nx' ss).
Proof.
  induction ss as [|sm r IH]; cbn [iinit]; [apply pmono_refl|].
  apply pmono_bind; [apply padv_mono|]. intro. apply pmono_bind; [exact IH|]. intro. apply pmono_refl.
Qed.

Lemma padv_first_mono : forall p sel ss i, pmono (padv_first nx p sel i ss) (padv_first nx' p sel i ss).
Proof.
  intros p sel ss. induction ss as [|sm r IH]; intro i; cbn [padv_first]; [apply pmono_refl|].
  destruct (sel i && p (fst sm)).
  - apply pmono_bind; [apply padv_mono|]. intro. apply pmono_refl.
  - apply pmono_bind; [apply IH|]. intro. apply pmono_refl.
Qed.

Lemma iloop_mono : forall masks f f', (f <= f')%nat -> forall entry ss,
  pmono (iloop f nx masks entry ss) (iloop f' nx' masks entry ss).
Proof.
  intros masks. induction f as [|f IH]; intros f' Hle entry ss; [apply pmono_fail|].
  destruct f' as [|f']; [lia|]. cbn [iloop].
  destruct (match entry with
            | Some e => Some e
            | None => match all_cur (map fst ss) with
                      | Some act => Some (max_start act, min_end act, 0%nat)
                      | None => None
                      end
            end) as [[[os oe] j]|]; [|apply pmono_refl].
  destruct (if os <? oe then efind oe (emit_sel masks) 0 j ss else None) as [[i c]|]; [apply pmono_refl|].
  apply pmono_bind; [apply padv_first_mono|]. intro r1.
  apply pmono_bind; [destruct (snd r1); [apply pmono_refl|apply padv_first_mono]|]. intro r2.
  destruct (snd r2); [apply IH; lia|apply pmono_refl].
Qed.

Lemma inext_mono : forall masks f f', (f <= f')%nat -> forall c ss,
  pmono (inext f nx masks c ss) (inext f' nx' masks c ss).
Proof.
  intros masks f f' Hle [|os oe i|] ss; cbn [inext]; [| |apply pmono_refl].
  - apply pmono_bind; [apply iinit_mono|]. intro ss'.
    destruct (forallb _ ss'); [apply pmono_refl|apply iloop_mono; exact Hle].
  - apply iloop_mono; exact Hle.
Qed.

Lemma dskipM_mono : forall cursor f f', (f <= f')%nat -> forall cs sub,
  pmono (dskipM f nx cursor cs sub) (dskipM f' nx' cursor cs sub).
Proof.
  intros cursor. induction f as [|f IH]; intros f' Hle cs sub; [apply pmono_fail|].
  destruct f' as [|f']; [lia|]. cbn [dskipM]. destruct cs as [s|]; [|apply pmono_refl].
  destruct (fend s <? cursor); [|apply pmono_refl].
  apply pmono_bind; [apply Hnx|]. intro. apply IH. lia.
Qed.

Lemma dloop_mono : forall f f', (f <= f')%nat -> forall md cs src sub,
  pmono (dloop f nx md cs src sub) (dloop f' nx' md cs src sub).
Proof.
  induction f as [|f IH]; intros f' Hle md cs src sub; [apply pmono_fail|].
  destruct f' as [|f']; [lia|]. assert (Hle' : (f <= f')%nat) by lia.
  cbn [dloop]. destruct md as [|ev cursor|ev oe|ev cursor|ev cursor].
  - apply pmono_bind; [apply Hnx|]. intro xm. destruct (fst xm) as [ev|]; [|apply pmono_refl].
    destruct cs as [s|]; [|apply pmono_refl].
    apply pmono_bind; [apply dskipM_mono; exact Hle'|]. intro cm.
    destruct (fst cm); [apply IH; exact Hle'|apply pmono_refl].
  - destruct cs as [s|]; [|apply IH; exact Hle'].
    destruct (fstart s <=? fend ev); [|apply IH; exact Hle']. cbv zeta.
    destruct (Z.max cursor (fstart s) <? Z.min (fend ev) (fend s)); [|apply IH; exact Hle'].
    destruct (cursor <? Z.max cursor (fstart s)); [apply pmono_refl|apply IH; exact Hle'].
  - destruct (oe >=? fend ev); apply IH; exact Hle'.
  - destruct cs as [s|]; [|apply IH; exact Hle'].
    destruct (fend s <=? fend ev); [|apply IH; exact Hle'].
    apply pmono_bind; [apply Hnx|]. intro. apply IH; exact Hle'.
  - destruct (cursor <? fend ev); [apply pmono_refl|apply IH; exact Hle'].
Qed.

Lemma dnext_mono : forall f f', (f <= f')%nat -> forall c cs src sub,
  pmono (dnext f nx c cs src sub) (dnext f' nx' c cs src sub).
Proof.
  intros f f' Hle [| |ev oe|] cs src sub; cbn [dnext]; try (apply dloop_mono; exact Hle).
  - apply pmono_bind; [apply Hnx|]. intro. apply dloop_mono; exact Hle.
  - apply pmono_refl.
Qed.

Lemma cloop_mono : forall sb eb e f f', (f <= f')%nat -> forall entry cursor m,
  pmono (cloop f nx sb eb e entry cursor m) (cloop f' nx' sb eb e entry cursor m).
Proof.
  intros sb eb e. induction f as [|f IH]; intros f' Hle entry cursor m; [apply pmono_fail|].
  destruct f' as [|f']; [lia|]. assert (Hle' : (f <= f')%nat) by lia.
  cbn [cloop]. destruct entry as [se|].
  - cbv zeta. destruct (Z.max cursor se >? eb); [apply pmono_refl|apply IH; exact Hle'].
  - apply pmono_bind; [apply Hnx|]. intro xm. cbv zeta. destruct (fst xm) as [x|]; [|apply pmono_refl].
    destruct (fend x <? sb); [apply IH; exact Hle'|].
    destruct (fstart x >? eb); [apply pmono_refl|].
    destruct (Z.min (fend x) eb <=? cursor); [apply IH; exact Hle'|].
    destruct (Z.max (fstart x) sb >? cursor); [apply pmono_refl|apply IH; exact Hle'].
Qed.

Lemma floop_mono : forall keep fl f f', (f <= f')%nat -> forall m,
  pmono (floop f nx keep fl m) (floop f' nx' keep fl m).
Proof.
  intros keep fl. induction f as [|f IH]; intros f' Hle m; [apply pmono_fail|].
  destruct f' as [|f']; [lia|]. cbn [floop].
  apply pmono_bind; [apply Hnx|]. intro xm. destruct (fst xm) as [x|]; [|apply pmono_refl].
  destruct (keep x); [apply pmono_refl|apply IH; lia].
Qed.
End Loops.

Variable env : fenv.

Lemma next_mono : forall F F', (F <= F')%nat -> forall m, pmono (next F env m) (next F' env m).
Proof.
  induction F as [|F IH]; intros F' Hle m; [apply pmono_fail|].
  destruct F' as [|F']; [lia|]. assert (Hle' : (F <= F')%nat) by lia.
  pose proof (IH F' Hle') as Hnx. cbn [next]. cbv zeta.
  destruct m as [id k|x|c hs|masks c ss|c cs src sub|sb eb e c cursor s|fl s|before after s].
  - apply pmono_refl.
  - apply pmono_refl.
  - apply unext_mono; exact Hnx.
  - apply inext_mono; [exact Hnx|exact Hle'].
  - apply dnext_mono; [exact Hnx|exact Hle'].
  - destruct c; [apply cloop_mono; [exact Hnx|exact Hle']|apply cloop_mono; [exact Hnx|exact Hle']|apply pmono_refl].
  - apply floop_mono; [exact Hnx|exact Hle'].
  - apply pmono_bind; [apply Hnx|]. intro. apply pmono_refl.
Qed.

Lemma ptake_mono : forall F F', (F <= F')%nat -> forall n m,
  pmono (ptake F env n m) (ptake F' env n m).
Proof.
  intros F F' Hle. induction n as [|n IH]; intro m; cbn [ptake]; [apply pmono_refl|].
  apply pmono_bind; [apply next_mono; exact Hle|]. intro xm.
  destruct (fst xm); [|apply pmono_refl]. apply pmono_bind; [apply IH|]. intro. apply pmono_refl.
Qed.

(* a machine that yields exactly L: its first n items are the first n items of L *)
Lemma ptake_runs : forall n F m L res, runs env o m L ->
  run o (ptake F env n m) = Some res ->
  fst (fst res) = firstn n L /\
  (snd (fst res) = true -> fst (fst res) = L) /\
  (snd (fst res) = false -> length (fst (fst res)) = n).
Proof.
  induction n as [|n IH]; intros F m L res Hr H.
  - cbn in H. injection H as <-. cbn. split; [reflexivity|]. split; [discriminate|reflexivity].
  - cbn [ptake] in H. rewrite run_bind in H.
    destruct (run o (next F env m)) as [xm|] eqn:E; [|discriminate].
    assert (Hdet : forall r', steps_to env o m r' -> xm = r').
    { intros r' [N HN]. specialize (HN (Nat.max F N) ltac:(lia)).
      pose proof (next_mono F (Nat.max F N) ltac:(lia) m xm E) as E'. congruence. }
    inversion Hr as [? m1 Hs|? m1 x l Hs Hrl]; subst.
    + rewrite (Hdet _ Hs) in H. cbn in H. injection H as <-. cbn.
      split; [reflexivity|]. split; [reflexivity|discriminate].
    + rewrite (Hdet _ Hs) in H. cbn [fst snd] in H. rewrite run_bind in H.
      destruct (run o (ptake F env n m1)) as [r2|] eqn:E2; [|discriminate].
      cbn in H. injection H as <-. cbn [fst snd firstn length].
      destruct (IH F m1 l r2 Hrl E2) as [H1 [H2 H3]].
      split; [f_equal; exact H1|]. split; [intro Ht; f_equal; apply H2; exact Ht|].
      intro Hf. f_equal. apply H3. exact Hf.
Qed.

End Mono.

(* whatever fuel [take] was given: if it returned, it returned the first n items of the list
   model of the bounded query (every operator) *)
Theorem bounded_take_is_list_prefix : forall F env o e a b n c outs fin m' c',
  wfx e = true -> pos_periods e = true -> leaves_ok o e a (Some b) ->
  take F env o n (pslice e a (Some b)) c = Some (outs, fin, m', c') ->
  outs = firstn n (lslice env e a b) /\
  (fin = true -> outs = lslice env e a b) /\
  (fin = false -> length outs = n).
Proof.
  intros F env o e a b n c outs fin m' c' Hw Hp Hl H. unfold take in H.
  apply exec_run in H.
  exact (ptake_runs o env n F _ _ (outs, fin, m') (pull_eq_list_slice_diff env o e a b Hw Hp Hl) H).
Qed.
Print Assumptions bounded_take_is_list_prefix.

Lemma wfx_operands : forall e, wfx e = true -> operands e <> [].
Proof.
  destruct e; simpl; intro H; try discriminate.
  apply andb_prop in H as [H _]. destruct es; [discriminate H|discriminate].
Qed.

(* C14 end to end: the n items islice(e[a:], n) delivers on infinite sources are the first n
   items the LIST model (the sweeps of Model/Sweeps.v) computes for e[a:b], for every
   sufficiently large b.  [Hleaves] says the leaf ids of e are used consistently (every leaf
   is the oracle registered under its id). *)
Theorem open_slice_is_list_prefix : forall F env e a n c outs m' c',
  nsc e = true -> wfx e = true -> pos_periods e = true ->
  (forall b, leaves_ok (oenv_of (pand e PSolid) a (Some b)) e a (Some b)) ->
  take F env (oenv_of (pand e PSolid) a None) n (pslice e a None) c = Some (outs, false, m', c') ->
  slice_horizon F env e a n c <= POS_INF ->
  exists B, forall b, B <= b -> outs = firstn n (lslice env e a b) /\ length outs = n.
Proof.
  intros F env e a n c outs m' c' Hn Hw Hp Hleaves H Hhor.
  destruct (prefix_of_bounded_partial F env e a n c outs false m' c' Hn (wfx_operands e Hw) H Hhor)
    as [B HB].
  exists B. intros b Hb.
  destruct (bounded_take_is_list_prefix F env _ e a b n c outs false _ c' Hw Hp (Hleaves b) (HB b Hb))
    as [H1 [_ H3]].
  split; [exact H1|apply H3; reflexivity].
Qed.
Print Assumptions open_slice_is_list_prefix.

Example open_slice_is_list_prefix_ex :
  nsc ex_lazy = true /\ wfx ex_lazy = true /\ pos_periods ex_lazy = true /\
  (forall b, leaves_ok (oenv_of (pand ex_lazy PSolid) 1000000 (Some b)) ex_lazy 1000000 (Some b)) /\
  slice_horizon 60 [] ex_lazy 1000000 5 [] <= POS_INF /\
  firstn 5 (lslice [] ex_lazy 1000000 1600000) =
    [mkI (Some 1070000) (Some 1098000) Plain; mkI (Some 1156400) (Some 1184400) Plain;
     mkI (Some 1242800) (Some 1270800) Plain; mkI (Some 1329200) (Some 1357200) Plain;
     mkI (Some 1415600) (Some 1443600) Plain].
Proof.
  split; [reflexivity|]. split; [reflexivity|]. split; [reflexivity|].
  split; [intro b; simpl; repeat split; intro k; reflexivity|].
  split; [vm_compute; discriminate|vm_compute; reflexivity].
Qed.
