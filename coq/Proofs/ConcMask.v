(* Proofs/ConcMask.v — C11 for MASK caches (cached(T) with T a mask: Model/Cache.v with
   masked = true), on top of the generic lock theorems of Proofs/ConcP.v and the mask invariant
   of Proofs/CacheMask.v.

   What is reused as it is from ConcP.v: the n-thread/one-lock machinery ([C11_serializable],
   [C11_prefix_invariant], [inv], [no_deadlock], [explore_all]) and the thread-program
   construction ([qinstr], [compile], [fetches], [cinit_cfg]), none of which mentions
   [masked].  Only [qwf]/[implements]/[fetch_crit] of ConcP.v are specific to masked = false
   (and to the static source [src_of evs 0]); their masked analogues are defined here.

   Time and source mutations.  In Model/Conc.v a [Local] step cannot touch the shared state, so
   a clock advance cannot be a step "outside" a critical section.  It is modelled where it is
   OBSERVED: every fetch carries a [timing] — the time that has passed since the previous clock
   reading of any thread (its first micro-step, executed under the lock, moves the clock on by
   tm_wait >= 0), and the extra time passing inside the critical section before each later
   reading of the clock — and its own source [src], ANY function faithful to the covered time D
   (in particular [src_of evs v] for any version v: the source may have been mutated any number
   of times between two fetches, even between two gap fetches of one query).  Both are arbitrary
   per fetch.  With timing [wait_only d] the critical section is exactly [cquery true] of
   Model/Cache.v run d later ([mcq_cquery]). *)
From Coq Require Import List Arith ZArith Lia Bool Permutation.
Import ListNotations.
From CG Require Import Model.Conc Proofs.ConcP.
From CG Require Import Proofs.Defs Model.Cache Proofs.CacheInv Proofs.CacheInv2 Proofs.CacheMask.

(* the clock moves on by d *)
Definition cadv (d : Z) (s : cstate) : cstate :=
  mkC (sink s) (cover s) (heap s) (hseq s) (now s + d).

Lemma cadv_0 s : cadv 0 s = s.
Proof. destruct s as [sk cv h sq t]. unfold cadv. cbn [sink cover heap hseq now]. rewrite Z.add_0_r. reflexivity. Qed.

(* How time passes around and INSIDE one critical section: [tm_wait] between the previous clock
   reading (by whichever thread) and this fetch's first reading (waiting for the lock included);
   [tm_evict] between the eviction pass and the computation of the gaps, and [tm_gap gs] before
   the fill of the gap starting at gs — each on top of the [tick] that every reading of the clock
   takes in Model/Cache.v.  So the clock is any monotone clock. *)
Record timing := mkTm { tm_wait : Z; tm_evict : Z; tm_gap : Z -> Z }.
Definition timing_ok (tm : timing) : Prop :=
  0 <= tm_wait tm /\ 0 <= tm_evict tm /\ forall x, 0 <= tm_gap tm x.
(* time passes between fetches only (inside, the clock of Model/Cache.v) *)
Definition wait_only (d : Z) : timing := mkTm d 0 (fun _ => 0).

Lemma fold_left_ext {A B} (f g : A -> B -> A) l : (forall a b, f a b = g a b) ->
  forall a, fold_left f l a = fold_left g l a.
Proof. intro H. induction l as [|x l IH]; intro a; simpl; [reflexivity|]. rewrite H. apply IH. Qed.

Section MaskInst.
Variables (D : Z -> bool) (ttl tick t0 : Z).

(* the statements of `fetch` for a masked cache: time passes; evict; time passes; fill the gaps
   (time passing before each); read out *)
Definition tfill_step (src : Z -> Z -> list ivl) (e : Z -> Z) (s0 : cstate) (g : ivl) : cstate :=
  fill_gap true ttl tick (src (fstart g) (fend g)) (fstart g) (fend g) (cadv (e (fstart g)) s0).
Definition mfill_stmt (src : Z -> Z -> list ivl) (e : Z -> Z) (a b : Z) (s : cstate) : cstate :=
  fold_left (tfill_step src e) (gaps_of (cover s) a b) s.

(* the sequential model of one fetch(a, b, reverse=rv) of a masked cache against the source src
   with timing tm: new state, result *)
Definition mcq (src : Z -> Z -> list ivl) (tm : timing) (q : query) (s : cstate) : cstate * list ivl :=
  let '(a, b, rv) := q in
  let s2 := mfill_stmt src (tm_gap tm) a b (cadv (tm_evict tm) (evict_stmt tick (cadv (tm_wait tm) s))) in
  (s2, read_stmt a b rv s2).

Definition mfetch_crit (src : Z -> Z -> list ivl) (tm : timing) (q : query) : crit cstate (list ivl) :=
  let '(a, b, rv) := q in
  mkCrit [cadv (tm_wait tm); evict_stmt tick; cadv (tm_evict tm); mfill_stmt src (tm_gap tm) a b]
         (read_stmt a b rv).

Lemma mfetch_crit_run src tm q s : run_crit (mfetch_crit src tm q) s = mcq src tm q s.
Proof. destruct q as [[a b] rv]. reflexivity. Qed.

(* with no extra time inside, it is the query of Model/Cache.v made tm_wait later *)
Lemma mfill_fold_fst src gaps : forall s (lg : list (Z * Z * Z)),
  fst (fold_left (fun acc g =>
                    let '(s0, lg) := acc in
                    let gs := fstart g in let ge := fend g in
                    (fill_gap true ttl tick (src gs ge) gs ge s0, lg ++ [(now s0, gs, ge)]))
                 gaps (s, lg)) =
  fold_left (fun s0 g => fill_gap true ttl tick (src (fstart g) (fend g)) (fstart g) (fend g) s0)
            gaps s.
Proof. induction gaps as [|g gaps IH]; intros s lg; simpl; [reflexivity|]. apply IH. Qed.

Lemma mcq_cquery src d a b rv s :
  mcq src (wait_only d) (a, b, rv) s = fst (cquery true ttl tick src (cadv d s) a b rv).
Proof.
  unfold mcq, wait_only, cquery. cbn [tm_wait tm_evict tm_gap]. rewrite cadv_0.
  unfold evict_stmt, mfill_stmt, read_stmt.
  destruct (evict_go (now (cadv d s)) (heap (cadv d s)) (cover (cadv d s)) (sink (cadv d s)))
    as [[h1 cv1] sk1]. cbn [cover].
  rewrite (fold_left_ext (tfill_step src (fun _ => 0))
             (fun s0 g => fill_gap true ttl tick (src (fstart g) (fend g)) (fstart g) (fend g) s0))
    by (intros s0 g; unfold tfill_step; rewrite cadv_0; reflexivity).
  rewrite <- (mfill_fold_fst src (gaps_of cv1 a b) _ []).
  destruct (fold_left _ (gaps_of cv1 a b) _) as [s2 log]. reflexivity.
Qed.

(* a critical section implements query q (at ANY granularity of micro-steps) for some source
   faithful to D and some timing *)
Definition mimplements (k : crit cstate (list ivl)) (q : query) : Prop :=
  exists src tm, faithful D src /\ timing_ok tm /\ forall s, run_crit k s = mcq src tm q s.

Lemma mfetch_crit_implements src tm q :
  faithful D src -> timing_ok tm -> mimplements (mfetch_crit src tm q) q.
Proof. intros Hs Ht. exists src, tm. split; [exact Hs|]. split; [exact Ht|]. apply mfetch_crit_run. Qed.

(* well-formed thread programs (the programs themselves are those of ConcP.v) *)
Definition mqwf (x : qinstr) : Prop :=
  match x with QLocal => True | QFetch q k => bounded q /\ mimplements k q end.

(* NB: ttl > 0 is not needed for any theorem of this file (with ttl <= 0 every segment has
   expired at the next query and is fetched again; the results are still right) *)
Hypothesis Htick : tick >= 0.

(* the state invariant of Proofs/CacheMask.v *)
Definition mgood (s : cstate) : Prop := heap_inv ttl s /\ mask_inv D s.

Lemma mgood_init : mgood (cinit t0).
Proof. split; [apply heap_inv_init|apply mask_inv_init]. Qed.

Lemma cadv_good d s : 0 <= d -> mgood s -> mgood (cadv d s).
Proof.
  intros Hd [H Hmi]. split.
  - destruct H as [A B C E F G K]. constructor; simpl; auto.
    intros c Hc. specialize (K c Hc). lia.
  - destruct Hmi as [A B]. constructor; simpl; assumption.
Qed.

Lemma evict_stmt_good s : mgood s -> mgood (evict_stmt tick s).
Proof.
  intros [H [Hs Hsem]]. unfold evict_stmt.
  destruct (evict_go (now s) (heap s) (cover s) (sink s)) as [[h1 cv1] sk1] eqn:He.
  split; [exact (evict_inv ttl tick s h1 cv1 sk1 Htick H He)|].
  destruct (evict_go_mask D _ _ _ _ _ _ _ (hi_bij _ _ H) (hi_chain _ _ H) (hi_span _ _ H) Hs Hsem He)
    as [Hs1 Hsem1].
  constructor; assumption.
Qed.

(* the loop over the gaps, with time passing before each fill *)
Lemma tfill_fold src e : faithful D src -> (forall x, 0 <= e x) -> forall gaps s0,
  mgood s0 -> (forall g, In g gaps -> gap_ok g) -> separatedP gaps ->
  (forall g c, In g gaps -> In c (cover s0) -> cv_e c <= fstart g \/ fend g <= cv_s c) ->
  let s2 := fold_left (tfill_step src e) gaps s0 in
  mgood s2 /\ (forall c, In c (cover s0) -> In c (cover s2)) /\
  (forall g, In g gaps -> exists c, In c (cover s2) /\ cv_s c = fstart g /\ cv_e c = fend g).
Proof.
  intros Hsrc He. induction gaps as [|g r IH]; intros s0 Hg0 Hok Hsep Hd; cbn [fold_left].
  - split; [exact Hg0|]. split; [auto|intros g []].
  - cbn [separatedP] in Hsep. destruct Hsep as [Hg Hr].
    destruct (Hok g (or_introl eq_refl)) as (Hlo & Hlt & Hhi).
    destruct (cadv_good (e (fstart g)) s0 (He _) Hg0) as [H0 [Hs0 Hm0]].
    set (s1 := tfill_step src e s0 g).
    assert (H1 : heap_inv ttl s1).
    { apply fill_gap_inv; auto. intros c Hc. apply Hd; [left; reflexivity|exact Hc]. }
    destruct (fill_gap_mask D ttl tick (src (fstart g) (fend g)) (fstart g) (fend g) _
                Hs0 Hm0 Hlo Hlt Hhi (fun t => Hsrc (fstart g) (fend g) t Hlo Hhi)) as [Hs1 Hm1].
    assert (Hg1 : mgood s1) by (split; [exact H1|constructor; assumption]).
    assert (Hd1 : forall g' c, In g' r -> In c (cover s1) -> cv_e c <= fstart g' \/ fend g' <= cv_s c).
    { intros g' c Hg' Hc. apply fill_gap_cover in Hc as [->|Hc].
      - simpl. left. specialize (Hg g' Hg'). lia.
      - apply Hd; [right; exact Hg'|exact Hc]. }
    destruct (IH s1 Hg1 (fun g' Hg' => Hok g' (or_intror Hg')) Hr Hd1) as (Hg2 & Hkeep & Hnew).
    split; [exact Hg2|]. split.
    { intros c Hc. apply Hkeep. apply fill_gap_cover. right; exact Hc. }
    intros g' [<-|Hg']; [|auto].
    exists (mkCov (fstart g) (fend g) (now (cadv (e (fstart g)) s0))). split; [|split; reflexivity].
    apply Hkeep. apply fill_gap_cover. left; reflexivity.
Qed.

Lemma mcq_good src tm q s :
  faithful D src -> timing_ok tm -> bounded q -> mgood s ->
  mgood (fst (mcq src tm q s)) /\ c09m_result D q (snd (mcq src tm q s)).
Proof.
  intros Hsrc (Hw & Hev & Hgp) Hb Hg. destruct q as [[a b] rv]. destruct Hb as (Ha & Hab & Hb).
  unfold mcq. cbn [fst snd].
  set (s1 := cadv (tm_evict tm) (evict_stmt tick (cadv (tm_wait tm) s))).
  assert (Hg1 : mgood s1).
  { apply cadv_good; [exact Hev|]. apply evict_stmt_good. apply cadv_good; assumption. }
  pose proof Hg1 as [H1 _].
  assert (Hok : cov_span_ok (cover s1)) by (exact (hi_span _ _ H1)).
  assert (Hch : cov_chain (cover s1)) by (exact (hi_chain _ _ H1)).
  destruct (gaps_spec (cover s1) a b Ha Hab Hb Hok Hch) as (Hin & Hsep & Hcov).
  pose proof (gaps_disjoint_cover (cover s1) a b Ha Hab Hb Hok Hch) as Hdis.
  assert (Hgok : forall g, In g (gaps_of (cover s1) a b) -> gap_ok g).
  { intros g Hg'. destruct (Hin g Hg') as (? & ? & ?). unfold gap_ok. lia. }
  destruct (tfill_fold src (tm_gap tm) Hsrc Hgp (gaps_of (cover s1) a b) s1 Hg1 Hgok Hsep
              (fun g c Hg' Hc => Hdis g c Hg' Hc)) as (Hg2 & Hkeep & Hnew).
  fold (mfill_stmt src (tm_gap tm) a b s1) in Hg2, Hkeep, Hnew.
  split; [exact Hg2|]. unfold read_stmt.
  apply fetch_mask_window; [apply Hg2|].
  intros x Hx. apply covers_cov_iff.
  destruct (covers (map cov_ivl (cover s1)) x) eqn:E.
  - apply covers_cov_iff in E as (c & Hc & ? & ?). exists c. split; [apply Hkeep; exact Hc|lia].
  - assert (Hgx : covers (gaps_of (cover s1) a b) x = true) by (rewrite Hcov, E; lia).
    apply covers_true_iff in Hgx as (g & Hg' & Hi). unfold inside in Hi.
    destruct (Hnew g Hg') as (c & Hc & Hs & Hee). exists c. split; [exact Hc|lia].
Qed.

Definition mres_ok (k : crit cstate (list ivl)) (out : list ivl) : Prop :=
  forall q, bounded q -> mimplements k q -> c09m_result D q out.

Notation impl_some := (fun ik : nat * crit cstate (list ivl) => exists q, bounded q /\ mimplements (snd ik) q).

(* the serial execution of critical sections implementing bounded queries keeps the invariant
   and every result is right for every query its critical section implements *)
Lemma mserial_results l : forall s, mgood s -> Forall impl_some l ->
  mgood (fst (serial s l)) /\
  Forall2 (fun ik ir => fst ik = fst ir /\ mres_ok (snd ik) (snd ir)) l (snd (serial s l)).
Proof.
  induction l as [|[i k] l IH]; intros s Hg Hl.
  - simpl. split; [exact Hg|constructor].
  - inversion Hl as [|? ? (q & Hb & (src & d & Hsrc & Hd & Himp)) Hl']; subst. simpl in Himp.
    assert (Hg1 : mgood (fst (run_crit k s))).
    { rewrite (Himp s). apply (mcq_good src d q s Hsrc Hd Hb Hg). }
    assert (Hr : mres_ok k (snd (run_crit k s))).
    { intros q' Hb' (src' & d' & Hsrc' & Hd' & Himp'). rewrite (Himp' s).
      apply (mcq_good src' d' q' s Hsrc' Hd' Hb' Hg). }
    cbn [serial]. destruct (run_crit k s) as [s1 r1]. simpl in Hg1, Hr.
    destruct (IH s1 Hg1 Hl') as [Hg2 Hf]. destruct (serial s1 l) as [s2 rs]. simpl in *.
    split; [exact Hg2|]. constructor; [split; [reflexivity|exact Hr]|exact Hf].
Qed.

(* every critical section that acquired the lock implements a bounded query *)
Lemma macq_implements qps sch :
  Forall (Forall mqwf) qps -> Forall impl_some (acq (run (cinit_cfg t0 qps) sch)).
Proof.
  intros Hwf. apply Forall_forall. intros [i k] Hin.
  pose proof (inv_run _ _ _ _ sch _ (inv_init _ _ (cinit t0) (map compile qps))) as Hinv.
  destruct (i_acq _ _ _ _ _ Hinv i k Hin) as (p & Hp & Hk).
  rewrite nth_error_map in Hp. destruct (nth_error qps i) as [qp|] eqn:Hqp; [|discriminate].
  inversion Hp; subst p; clear Hp.
  assert (Hq : Forall mqwf qp). { rewrite Forall_forall in Hwf. apply Hwf. eapply nth_error_In; eauto. }
  clear - Hk Hq. simpl. induction qp as [|x qp IH]; simpl in Hk; [contradiction|].
  inversion Hq; subst. destruct x as [|q k']; simpl in Hk.
  - apply IH; assumption.
  - destruct Hk as [<-|Hk]; [exists q; assumption|apply IH; assumption].
Qed.

Lemma mcompleted_implements qps sch :
  Forall (Forall mqwf) qps -> Forall impl_some (completed (run (cinit_cfg t0 qps) sch)).
Proof.
  intros Hwf. pose proof (macq_implements qps sch Hwf) as H. unfold completed.
  destruct (holder _); [apply removelast_Forall|]; exact H.
Qed.

Lemma mresults_of_program qp : forall outs, Forall mqwf qp ->
  Forall2 mres_ok (crits_of (compile qp)) outs -> Forall2 (c09m_result D) (fetches qp) outs.
Proof.
  induction qp as [|x qp IH]; intros outs Hq Hf; simpl in *.
  - inversion Hf. constructor.
  - inversion Hq as [|? ? Hx Hq']; subst. destruct x as [|q k]; simpl in *.
    + apply IH; assumption.
    + inversion Hf as [|? o ? outs' Hk Hf']; subst. destruct Hx as [Hb Himp].
      constructor; [apply Hk; assumption|apply IH; assumption].
Qed.

Lemma mresults_of_prefix qp : forall pre suf outs, Forall mqwf qp ->
  crits_of (compile qp) = pre ++ suf -> Forall2 mres_ok pre outs ->
  exists qs qs', fetches qp = qs ++ qs' /\ Forall2 (c09m_result D) qs outs.
Proof.
  induction qp as [|x qp IH]; intros pre suf outs Hq He Hf; simpl in *.
  - symmetry in He. apply app_eq_nil in He. destruct He as [-> _]. inversion Hf; subst.
    exists [], []. split; [reflexivity|constructor].
  - inversion Hq as [|? ? Hx Hq']; subst. destruct x as [|q k]; simpl in *.
    + exact (IH pre suf outs Hq' He Hf).
    + destruct pre as [|k' pre].
      * inversion Hf; subst. exists [], (q :: fetches qp). split; [reflexivity|constructor].
      * simpl in He. inversion He; subst k'. inversion Hf as [|? o ? outs' Hk Hf']; subst.
        destruct (IH pre suf outs' Hq' H1 Hf') as (qs & qs' & Hqs & Hall).
        exists (q :: qs), qs'. split; [simpl; rewrite Hqs; reflexivity|].
        destruct Hx as [Hb Himp]. constructor; [apply Hk; assumption|exact Hall].
Qed.

(* C11 for mask caches, results: any number of threads, any programs of well-formed bounded
   fetches (each with its own elapsed time and its own faithful source), EVERY schedule that lets
   all threads finish: every result of every thread is right for the query it was issued for *)
Theorem C11_maskD_results qps sch :
  Forall (Forall mqwf) qps ->
  let c := run (cinit_cfg t0 qps) sch in
  all_done c = true ->
  forall i qp t, nth_error qps i = Some qp -> nth_error (threads c) i = Some t ->
    Forall2 (c09m_result D) (fetches qp) (t_res t).
Proof.
  intros Hwf c Hd i qp t Hqp Ht.
  destruct (C11_serializable _ _ (cinit t0) (map compile qps) sch Hd) as (_ & _ & _ & Hres & Hprog).
  fold (cinit_cfg t0 qps) in Hres, Hprog. fold c in Hres, Hprog.
  pose proof (macq_implements qps sch Hwf) as Himp. fold c in Himp.
  destruct (mserial_results (acq c) (cinit t0) mgood_init Himp) as [_ Hf].
  apply mresults_of_program.
  - rewrite Forall_forall in Hwf. apply Hwf. eapply nth_error_In; eauto.
  - rewrite (Hres _ _ Ht). rewrite <- (Hprog i (compile qp)).
    + apply by_thread_Forall2. exact Hf.
    + rewrite nth_error_map, Hqp. reflexivity.
Qed.

(* ... at every moment, under EVERY schedule, finished or not: the results a thread has collected
   so far are right for the first of its fetches, in program order *)
Theorem C11_maskD_results_anytime qps sch :
  Forall (Forall mqwf) qps ->
  let c := run (cinit_cfg t0 qps) sch in
  forall i qp t, nth_error qps i = Some qp -> nth_error (threads c) i = Some t ->
    exists qs qs', fetches qp = qs ++ qs' /\ Forall2 (c09m_result D) qs (t_res t).
Proof.
  intros Hwf c i qp t Hqp Ht.
  assert (Hinv : inv _ _ (cinit t0) (map compile qps) c) by (apply inv_run, inv_init).
  pose proof (mcompleted_implements qps sch Hwf) as Hc. fold c in Hc.
  destruct (mserial_results (completed c) (cinit t0) mgood_init Hc) as [_ Hf].
  apply (by_thread_Forall2 mres_ok i) in Hf.
  rewrite <- (i_rel _ _ _ _ _ Hinv), <- (i_res _ _ _ _ _ Hinv i t Ht) in Hf.
  assert (Hp : exists suf, crits_of (compile qp) = by_thread i (completed c) ++ suf).
  { assert (Hcq : nth_error (map compile qps) i = Some (compile qp)) by (rewrite nth_error_map, Hqp; reflexivity).
    rewrite (i_prog _ _ _ _ _ Hinv i t _ Ht Hcq).
    destruct (C11_prefix_invariant _ _ (cinit t0) (map compile qps) sch) as [_ Hsh].
    fold (cinit_cfg t0 qps) in Hsh. fold c in Hsh. unfold completed in *.
    destruct (holder c) as [h|].
    - destruct Hsh as (k & done & todo & p & res & Ha & _).
      set (cm := removelast (acq c)) in *. rewrite Ha.
      rewrite by_thread_snoc, <- app_assoc. eexists; reflexivity.
    - eexists; reflexivity. }
  destruct Hp as [suf Hp].
  apply (mresults_of_prefix qp (by_thread i (completed c)) suf); [|exact Hp|exact Hf].
  rewrite Forall_forall in Hwf. apply Hwf. eapply nth_error_In; eauto.
Qed.

(* the invariant of the SHARED state: whenever the lock is free (under every schedule, finished
   or not) the cache satisfies the heap invariant and the mask invariant: its sink covers exactly
   the source's covered time inside the cached segments, no fragment duplicated into two
   segments or missing *)
Theorem C11_maskD_state_inv qps sch :
  Forall (Forall mqwf) qps ->
  let c := run (cinit_cfg t0 qps) sch in
  holder c = None -> heap_inv ttl (sh c) /\ mask_inv D (sh c).
Proof.
  intros Hwf c Hfree.
  pose proof (mcompleted_implements qps sch Hwf) as Hc. fold c in Hc.
  destruct (mserial_results (completed c) (cinit t0) mgood_init Hc) as [Hg _].
  destruct (C11_prefix_invariant _ _ (cinit t0) (map compile qps) sch) as [_ Hsh].
  fold (cinit_cfg t0 qps) in Hsh. fold c in Hsh. rewrite Hfree in Hsh. rewrite Hsh. exact Hg.
Qed.

(* C11, afterwards: once all threads have finished (under any schedule), after any further lapse
   of time the cache answers every bounded query, against any faithful source, correctly *)
Theorem C11_maskD_afterwards qps sch :
  Forall (Forall mqwf) qps ->
  let c := run (cinit_cfg t0 qps) sch in
  all_done c = true ->
  forall src d a b rv s' out log,
    faithful D src -> 0 <= d -> NEG_INF < a -> a < b -> b < POS_INF ->
    cquery true ttl tick src (cadv d (sh c)) a b rv = (s', out, log) ->
    c09m_result D (a, b, rv) out /\ heap_inv ttl s' /\ mask_inv D s'.
Proof.
  intros Hwf c Hd src d a b rv s' out log Hsrc Hd0 Ha Hab Hb Hq.
  assert (Hfree : holder c = None).
  { eapply inv_done_free; [|exact Hd]. apply inv_run, inv_init. }
  pose proof (C11_maskD_state_inv qps sch Hwf Hfree) as Hg. fold c in Hg.
  assert (Ht : timing_ok (wait_only d)) by (unfold timing_ok, wait_only; cbn; repeat split; intros; lia).
  destruct (mcq_good src (wait_only d) (a, b, rv) (sh c) Hsrc Ht (conj Ha (conj Hab Hb)) Hg) as [[H' Hmi'] Hr].
  rewrite mcq_cquery, Hq in H', Hmi', Hr. cbn [fst snd] in H', Hmi', Hr. auto.
Qed.

End MaskInst.

(* by-product: CacheMask.cquery_mask holds for EVERY ttl (its hypothesis ttl > 0 is not needed) *)
Corollary cquery_mask_any_ttl D src ttl tick s a b rv s' out log :
  faithful D src -> tick >= 0 -> NEG_INF < a -> a < b -> b < POS_INF ->
  heap_inv ttl s -> mask_inv D s ->
  cquery true ttl tick src s a b rv = (s', out, log) ->
  heap_inv ttl s' /\ mask_inv D s' /\ c09m_result D (a, b, rv) out.
Proof.
  intros Hsrc Htick Ha Hab Hb H Hmi Hq.
  assert (Ht : timing_ok (wait_only 0)) by (unfold timing_ok, wait_only; cbn; repeat split; intros; lia).
  destruct (mcq_good D ttl tick Htick src (wait_only 0) (a, b, rv) s Hsrc Ht (conj Ha (conj Hab Hb)) (conj H Hmi))
    as [[H' Hmi'] Hr].
  rewrite mcq_cquery, cadv_0, Hq in H', Hmi', Hr. cbn [fst snd] in H', Hmi', Hr. auto.
Qed.

(* ==================================================================================== *)
(* The headline statements: D the covered time of an event list, of which NOTHING is assumed
   (overlapping, nested, duplicated, unbounded, empty, reversed events; any payloads) *)

(* the analogue of ConcP.qwf with masked = true: a critical section that is the sequential model
   of one fetch against version v of the source is well-formed (no time lapse: d = 0) *)
Lemma mqwf_static evs ttl tick v q k :
  bounded q ->
  (forall s, run_crit k s = let '(a, b, rv) := q in fst (cquery true ttl tick (src_of evs v) s a b rv)) ->
  mqwf (covers evs) ttl tick (QFetch q k).
Proof.
  intros Hb Hk. split; [exact Hb|]. exists (src_of evs v), (wait_only 0).
  split; [apply src_of_faithful|]. split; [unfold timing_ok, wait_only; cbn; repeat split; intros; lia|].
  intros s. rewrite (Hk s). destruct q as [[a b] rv]. rewrite mcq_cquery, cadv_0. reflexivity.
Qed.

Theorem C11_mask_results_eq_source evs ttl tick t0 qps sch :
  tick >= 0 ->
  Forall (Forall (mqwf (covers evs) ttl tick)) qps ->
  let c := run (cinit_cfg t0 qps) sch in
  all_done c = true ->
  forall i qp t, nth_error qps i = Some qp -> nth_error (threads c) i = Some t ->
    Forall2 (c09m_result (covers evs)) (fetches qp) (t_res t).
Proof. intros Htick. exact (C11_maskD_results (covers evs) ttl tick t0 Htick qps sch). Qed.

Theorem C11_mask_results_anytime evs ttl tick t0 qps sch :
  tick >= 0 ->
  Forall (Forall (mqwf (covers evs) ttl tick)) qps ->
  let c := run (cinit_cfg t0 qps) sch in
  forall i qp t, nth_error qps i = Some qp -> nth_error (threads c) i = Some t ->
    exists qs qs', fetches qp = qs ++ qs' /\ Forall2 (c09m_result (covers evs)) qs (t_res t).
Proof. intros Htick. exact (C11_maskD_results_anytime (covers evs) ttl tick t0 Htick qps sch). Qed.

Theorem C11_mask_state_inv evs ttl tick t0 qps sch :
  tick >= 0 ->
  Forall (Forall (mqwf (covers evs) ttl tick)) qps ->
  let c := run (cinit_cfg t0 qps) sch in
  holder c = None ->
  heap_inv ttl (sh c) /\ mask_inv (covers evs) (sh c).
Proof. intros Htick. exact (C11_maskD_state_inv (covers evs) ttl tick t0 Htick qps sch). Qed.

(* afterwards, the exact analogue of ConcP.C11_afterwards_correct (against any version v of the
   source: it may have been mutated in the meantime) *)
Theorem C11_mask_afterwards_correct evs ttl tick t0 qps sch :
  tick >= 0 ->
  Forall (Forall (mqwf (covers evs) ttl tick)) qps ->
  let c := run (cinit_cfg t0 qps) sch in
  all_done c = true ->
  forall v a b rv s' out log,
    NEG_INF < a -> a < b -> b < POS_INF ->
    cquery true ttl tick (src_of evs v) (sh c) a b rv = (s', out, log) ->
    c09m_result (covers evs) (a, b, rv) out.
Proof.
  intros Htick Hwf c Hd v a b rv s' out log Ha Hab Hb Hq.
  rewrite <- (cadv_0 (sh c)) in Hq.
  destruct (C11_maskD_afterwards (covers evs) ttl tick t0 Htick qps sch Hwf Hd
              (src_of evs v) 0 a b rv s' out log (src_of_faithful evs v) ltac:(lia) Ha Hab Hb Hq) as [Hr _].
  exact Hr.
Qed.

(* ... and after any further lapse of time d >= 0 *)
Theorem C11_mask_afterwards_later evs ttl tick t0 qps sch :
  tick >= 0 ->
  Forall (Forall (mqwf (covers evs) ttl tick)) qps ->
  let c := run (cinit_cfg t0 qps) sch in
  all_done c = true ->
  forall v d a b rv s' out log,
    0 <= d -> NEG_INF < a -> a < b -> b < POS_INF ->
    cquery true ttl tick (src_of evs v) (cadv d (sh c)) a b rv = (s', out, log) ->
    c09m_result (covers evs) (a, b, rv) out.
Proof.
  intros Htick Hwf c Hd v d a b rv s' out log Hd0 Ha Hab Hb Hq.
  destruct (C11_maskD_afterwards (covers evs) ttl tick t0 Htick qps sch Hwf Hd
              (src_of evs v) d a b rv s' out log (src_of_faithful evs v) Hd0 Ha Hab Hb Hq) as [Hr _].
  exact Hr.
Qed.

(* no query deadlocks (ConcP.no_deadlock at this instance): while some thread is unfinished,
   the lock holder can step, or, the lock being free, every unfinished thread can *)
Theorem C11_mask_no_deadlock t0 (qps : list (list qinstr)) sch :
  let c := run (cinit_cfg t0 qps) sch in
  all_done c = false ->
  match holder c with
  | Some h => step c h <> None
  | None => forall i t, nth_error (threads c) i = Some t -> finished t = false -> step c i <> None
  end /\
  exists i, (i < length qps)%nat /\ step c i <> None.
Proof.
  intros c Hd. destruct (no_deadlock _ _ (cinit t0) (map compile qps) sch Hd) as [H1 (i & Hi & Hs)].
  split; [exact H1|]. exists i. rewrite map_length in Hi. split; assumption.
Qed.

Print Assumptions C11_mask_results_eq_source.
Print Assumptions C11_mask_results_anytime.
Print Assumptions C11_mask_state_inv.
Print Assumptions C11_mask_afterwards_correct.
Print Assumptions C11_mask_afterwards_later.
Print Assumptions C11_mask_no_deadlock.
Print Assumptions C11_maskD_results.
Print Assumptions C11_maskD_afterwards.

(* the boolean oracle the harness applies to masked-cache outputs (Harness/CacheChk.c09_one, the
   check used on traces of the Python code) follows from c09m_result: so every result of every
   thread under every schedule passes the harness oracle, whatever source version it is
   compared with *)
Lemma c09m_result_oracle evs v a b rv out :
  c09m_result (covers evs) (a, b, rv) out -> CacheChk.c09_one true evs (a, b, rv, v) out = true.
Proof.
  intros (Hcov & _ & Hsort). unfold CacheChk.c09_one. apply andb_true_iff. split.
  - destruct rv; [apply sorted_le_by_rev|apply sorted_le_by_fwd]; exact Hsort.
  - apply agree_on_all. intro t. rewrite !clipW_covers, covers_retag, covers_pos_len.
    destruct (in_seg a b t) eqn:I; [|reflexivity]. cbn [andb]. apply Hcov. unfold in_seg in I. lia.
Qed.

Theorem C11_mask_results_oracle evs ttl tick t0 qps sch :
  tick >= 0 ->
  Forall (Forall (mqwf (covers evs) ttl tick)) qps ->
  let c := run (cinit_cfg t0 qps) sch in
  all_done c = true ->
  forall i qp t, nth_error qps i = Some qp -> nth_error (threads c) i = Some t ->
    Forall2 (fun q out => forall v, CacheChk.c09_one true evs (q, v) out = true) (fetches qp) (t_res t).
Proof.
  intros Htick Hwf c Hd i qp t Hqp Ht.
  pose proof (C11_mask_results_eq_source evs ttl tick t0 qps sch Htick Hwf Hd i qp t Hqp Ht) as H.
  induction H as [|[[a b] rv] out qs outs Hr _ IH]; constructor; [|exact IH].
  intros v. apply c09m_result_oracle. exact Hr.
Qed.
Print Assumptions C11_mask_results_oracle.

(* a source that changes version between the gap fetches of ONE query is faithful too *)
Lemma faithful_versions evs (ver : Z -> Z -> N) :
  faithful (covers evs) (fun gs ge => src_of evs (ver gs ge) gs ge).
Proof. intros gs ge t Hlo Hhi Ht. apply (src_of_faithful evs (ver gs ge) gs ge t Hlo Hhi Ht). Qed.

(* ==================================================================================== *)
(* Non-vacuity: the event list of the C09 mask examples (overlapping, nested, duplicated,
   unbounded, empty, reversed events, two events with one key), ttl 5, tick 1; two threads, two
   fetches each, overlapping windows.  Every fetch has its own time lapse d and its own source
   version v (the source is mutated between the fetches); the last fetch of thread 1 runs on a slow
   clock (time passes inside its critical section too) against a source whose version depends on
   the gap fetched. *)
Module ExMask.
Definition mfq (v : N) (d a b : Z) (rv : bool) : qinstr :=
  QFetch (a, b, rv) (mfetch_crit 5 1 (src_of mx_evs v) (wait_only d) (a, b, rv)).
(* time passing inside the critical section as well: 2 after the eviction pass, 1 before the
   fill of every gap starting before 10 *)
Definition slow : timing := mkTm 4 2 (fun gs => if gs <? 10 then 1 else 0).
Definition vsrc (gs ge : Z) : list ivl := src_of mx_evs (if gs <? 10 then 2%N else 3%N) gs ge.
Definition mprogs : list (list qinstr) :=
  [ [QLocal; mfq 0 0 0 10 false; mfq 1 3 8 25 true];
    [mfq 0 2 10 20 false; QLocal; QFetch (0, 30, false) (mfetch_crit 5 1 vsrc slow (0, 30, false))] ].
Definition mc0 : config cstate (list ivl) := cinit_cfg 0 mprogs.

Definition zr (lo : Z) (n : nat) : list Z := map (fun k => lo + Z.of_nat k) (seq 0 n).
(* c09m_result, decided: same covered time as the source at every instant of the window,
   positive fragments meeting the window's closure and inside source coverage, ordered *)
Definition mres_chk (q : query) (out : list ivl) : bool :=
  let '(a, b, rv) := q in
  forallb (fun t => Bool.eqb (covers out t) (covers mx_evs t)) (zr a (Z.to_nat (b - a))) &&
  forallb (fun f => (fstart f <? fend f) && (fstart f <=? b) && (a <? fend f) &&
                    forallb (fun t => covers mx_evs t) (zr (fstart f) (Z.to_nat (fend f - fstart f)))) out &&
  sorted_by (if rv then Z.geb else Z.leb) out.
Definition mchk (c : config cstate (list ivl)) : bool :=
  if all_done c then ExCache.all2 (fun qp t => ExCache.all2 mres_chk (fetches qp) (t_res t)) mprogs (threads c)
  else true.
End ExMask.
Import ExMask.

(* the hypotheses of the theorems are satisfiable *)
Example ex_mqwf : Forall (Forall (mqwf (covers mx_evs) 5 1)) mprogs.
Proof.
  assert (Hw : forall d, 0 <= d -> timing_ok (wait_only d)).
  { intros d Hd. unfold timing_ok, wait_only; cbn. repeat split; intros; lia. }
  assert (Hs : timing_ok slow).
  { unfold timing_ok, slow; cbn. repeat split; try lia. intros x. destruct (x <? 10); lia. }
  unfold mprogs, mfq.
  repeat constructor; try (unfold NEG_INF, POS_INF; lia);
    try (apply mfetch_crit_implements; [apply src_of_faithful|apply Hw; lia]).
  apply mfetch_crit_implements; [|exact Hs].
  exact (faithful_versions mx_evs (fun gs _ => if gs <? 10 then 2%N else 3%N)).
Qed.

Example ex_mask_thm : forall sch,
  all_done (run mc0 sch) = true ->
  forall i qp t, nth_error mprogs i = Some qp -> nth_error (threads (run mc0 sch)) i = Some t ->
    Forall2 (c09m_result (covers mx_evs)) (fetches qp) (t_res t).
Proof. intros sch. apply (C11_mask_results_eq_source mx_evs 5 1 0); [lia|exact ex_mqwf]. Qed.

(* by computation, independently of the theorems: EVERY schedule (165 distinct complete
   interleavings of the 26 steps) gives every thread results with the source's covered time *)
Example ex_mask_every_schedule :
  measure mc0 = 26%nat /\ ExCache.leaves 26 [0; 1]%nat mc0 = 165%nat /\
  forall sch, mchk (run mc0 sch) = true.
Proof.
  split; [reflexivity|]. split; [vm_compute; reflexivity|].
  apply (explore_all [0; 1]%nat).
  - vm_compute. reflexivity.
  - simpl. intros i Hi. destruct i as [|[|i]]; simpl; auto. lia.
Qed.

(* the raw results (how the covered time is cut into fragments, and the payload versions) DO
   depend on the schedule: with thread 0 first its fetch of [0,10) finds nothing cached and gets
   [5,25) clipped to the fetched gap; with thread 1 first the whole range [0,30) has been cached
   as one segment (of the mutated source: id 7002) and the same fetch is served the whole
   fragment [5,25) — both cover, inside [0,10), exactly what the source covers.  And time
   passing between the fetches makes segments expire in one schedule and not in the other: the
   final caches differ ([0,30) cached, or only [8,25)), both satisfy the invariant *)
Example ex_mask_two_schedules :
  let first0 := run mc0 (repeat 0 13 ++ repeat 1 13)%nat in
  let first1 := run mc0 (repeat 1 13 ++ repeat 0 13)%nat in
  all_done first0 = true /\ all_done first1 = true /\
  hd [] (t_res (nth 0 (threads first0) (mkT (Outside []) []))) = [mP 0 8; mR 2 6 7; mP 5 10] /\
  hd [] (t_res (nth 0 (threads first1) (mkT (Outside []) []))) =
    [mP 0 8; mkI (Some 2) (Some 6) (Rich 7002); mP 5 25] /\
  cover (sh first0) = [mkCov 0 30 18] /\ cover (sh first1) = [mkCov 8 25 18] /\
  mchk first0 = true /\ mchk first1 = true.
Proof. vm_compute. repeat split; reflexivity. Qed.

Example ex_mask_afterwards : forall sch, all_done (run mc0 sch) = true ->
  forall s' out log,
    cquery true 5 1 (src_of mx_evs 9) (cadv 100 (sh (run mc0 sch))) (-3) 45 true = (s', out, log) ->
    c09m_result (covers mx_evs) (-3, 45, true) out.
Proof.
  intros sch Hd s' out log Hq.
  apply (C11_mask_afterwards_later mx_evs 5 1 0 mprogs sch ltac:(lia) ex_mqwf Hd 9%N 100 _ _ _ s' out log);
    unfold NEG_INF, POS_INF; try lia. exact Hq.
Qed.

(* cached(~T) shared by threads: the generic-D theorem at D = the complement of the covered time,
   the source being the mask expression ~T itself (CacheMask.src_compl) *)
Theorem C11_mask_complement_results evs ttl tick t0 qps sch :
  tick >= 0 ->
  Forall (Forall (mqwf (fun t => negb (covers evs t)) ttl tick)) qps ->
  let c := run (cinit_cfg t0 qps) sch in
  all_done c = true ->
  forall i qp t, nth_error qps i = Some qp -> nth_error (threads c) i = Some t ->
    Forall2 (c09m_result (fun t => negb (covers evs t))) (fetches qp) (t_res t).
Proof. intros Htick. exact (C11_maskD_results _ ttl tick t0 Htick qps sch). Qed.

Example ex_mqwf_complement :
  Forall (Forall (mqwf (fun t => negb (covers mc_evs t)) 5 1))
    [ [QFetch (0, 10, false) (mfetch_crit 5 1 (src_compl mc_evs) (wait_only 0) (0, 10, false))];
      [QLocal; QFetch (5, 50, true) (mfetch_crit 5 1 (src_compl mc_evs) (mkTm 7 1 (fun _ => 2)) (5, 50, true))] ].
Proof.
  repeat constructor; try (unfold NEG_INF, POS_INF; lia);
    (apply mfetch_crit_implements; [apply src_compl_faithful, mc_wf|]);
    unfold timing_ok, wait_only; cbn; repeat split; intros; lia.
Qed.

Print Assumptions C11_mask_complement_results.
Print Assumptions ex_mask_every_schedule.
Print Assumptions ex_mask_thm.
