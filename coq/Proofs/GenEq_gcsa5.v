(* Proofs/GenEq_gcsa5.v — tie C for calgebra/gcsa.py (tag gcsa), part 5:
     K. g_gcsa_remove_recurring_instance   Calendar._remove_recurring_instance = Model/Gcsa.v remove_instance
     L. g_gcsa_handle_write_errors (+ g_gcsa_error_result)   the wrapper of @_handle_write_errors
   The backend calls get_event / update_event are parameters returning (result + exception): the source
   wraps each in try / except Exception (TRUSTED reading R12 of srcspecs_gcsa.py).  Instantiation: a master
   event is the backend's stored event (sev), its recurrence list is its srec (line = recurrence[0], the
   other lines = recurrence[1:]). *)
From CG Require Import Model.Loop Gen.Source Model.Gcsa.
From CG Require Proofs.GcsaP Proofs.GenEq_gcsa.
From Coq Require Import ZArith List Bool Lia ZifyBool.
Import ListNotations.
Local Open Scope Z_scope.
Import GenEq_gcsa.

Definition mev_has_recurrence (st : sev) : bool := match s_rec st with Some _ => true | None => false end.
Definition mev_line (st : sev) : list tok := match s_rec st with Some r => r_line r | None => [] end.
(* [new_rrule, *master_event.recurrence[1:]] *)
Definition mev_recurrence_with (st : sev) (l : list tok) : option srec :=
  match s_rec st with
  | Some r => Some (mkR (r_weekly r) (r_interval r) (r_byday r) l (r_extra r))
  | None => None
  end.
Definition ok_result : list wres := [(true, None)].

Section RemoveInstance.
  Variable get_event : N -> sev + unit.
  Variable update_event : sev -> unit + unit.

  Definition src_remove_instance (ev : aev) (m : N) : res (list wres) :=
    g_gcsa_remove_recurring_instance utc_zone gz_fromtimestamp gz_strftime_exdate
      parse_exdates exd_eqb TEx (fun base part => base ++ [part])
      get_event update_event mev_has_recurrence mev_line mev_recurrence_with GcsaP.set_rec
      (fun _ _ => [failed]) (fun _ => [failed]) [failed] (fun _ => [failed]) (fun _ => ok_result)
      (fun e => Some (e_s e)) ev m.

  (* what the source text does, for ANY backend: which calls it makes, on what, and what it returns *)
  Theorem g_gcsa_remove_recurring_instance_eq (ev : aev) (m : N) :
    src_remove_instance ev m =
    RDone (match get_event m with
           | inr _ => [failed]
           | inl st =>
             match s_rec st with
             | None => [failed]
             | Some r =>
               let x := format_exdate (e_s ev) in
               if in_exd x (snd (parse_exdates (r_line r))) then ok_result
               else
                 let r' := mkR (r_weekly r) (r_interval r) (r_byday r) (add_exdate (r_line r) x) (r_extra r) in
                 match update_event (GcsaP.set_rec st (Some r')) with
                 | inl _ => ok_result
                 | inr _ => [failed]
                 end
             end
           end).
  Proof.
    unfold src_remove_instance, g_gcsa_remove_recurring_instance.
    destruct (get_event m) as [st|[]]; [|reflexivity].
    unfold mev_has_recurrence, mev_line, mev_recurrence_with.
    destruct (s_rec st) as [r|]; cbn [negb]; [|reflexivity].
    cbv zeta. cbn [is_none ozd].
    fold (src_format_exdate (e_s ev)). rewrite g_gcsa_format_exdate_eq.
    fold (src_add_exdate (r_line r) (format_exdate (e_s ev))). rewrite g_gcsa_add_exdate_to_rrule_eq.
    destruct (parse_exdates (r_line r)) as [base ex]. cbn [snd]. unfold in_exd.
    destruct (existsb (exd_eqb (format_exdate (e_s ev))) ex); cbn [negb]; [reflexivity|].
    destruct (update_event _) as [[]|[]]; reflexivity.
  Qed.
End RemoveInstance.
Print Assumptions g_gcsa_remove_recurring_instance_eq.

(* HEADLINE K: the model's Calendar._remove_recurring_instance is the generated one over the simulated
   backend: get_event is the first backend call (it raises when that call fails or the id is unknown),
   update_event the second *)
Theorem src_remove_instance_is_model (a : astate) (ev : aev) (m : N) :
  let b1 := fst (tick (a_b a)) in
  let ok1 := snd (tick (a_b a)) in
  let ok2 := snd (tick b1) in
  src_remove_instance
    (fun id => if ok1 then match find_ev id (bs_store b1) with Some st => inl st | None => inr tt end else inr tt)
    (fun _ => if ok2 then inl tt else inr tt) ev m
  = RDone (snd (remove_instance a ev m)).
Proof.
  intros b1 ok1 ok2. rewrite g_gcsa_remove_recurring_instance_eq. f_equal.
  unfold remove_instance. subst b1 ok1 ok2.
  destruct (tick (a_b a)) as [b1 ok1]. cbn [fst snd].
  destruct ok1; cbn [negb]; [|reflexivity].
  destruct (find_ev m (bs_store b1)) as [st|]; [|reflexivity].
  destruct (s_rec st) as [r|]; [|reflexivity].
  destruct (parse_exdates (r_line r)) as [base ex]. cbn [snd]. cbv zeta.
  destruct (in_exd (format_exdate (e_s ev)) ex); [reflexivity|].
  destruct (tick b1) as [b2 ok2]. cbn [snd]. destruct ok2; reflexivity.
Qed.
Print Assumptions src_remove_instance_is_model.

(* and the record the model stores on success is the one the source text hands to update_event *)
Lemma stored_record_is_updated_event (m : N) (rc : option srec) (l : list sev) (st : sev) :
  find_ev m l = Some st -> find_ev m (upd_rec m rc l) = Some (GcsaP.set_rec st rc).
Proof. apply GcsaP.find_upd_rec. Qed.

(* ========================================================================================== *)
(* L. @_handle_write_errors: the wrapper returns what the method returns, or one failed WriteResult
   when it raised an Exception — it never raises one itself *)
Theorem g_gcsa_handle_write_errors_eq {EXC WRS : Type} (wrs_error : EXC -> WRS) (r : WRS + EXC) :
  g_gcsa_handle_write_errors wrs_error r = RDone (match r with inl v => v | inr e => wrs_error e end).
Proof. destruct r; reflexivity. Qed.
Print Assumptions g_gcsa_handle_write_errors_eq.

Corollary src_handle_write_errors_contains (r : list wres + unit) :
  exists l, g_gcsa_handle_write_errors (fun _ => [failed]) r = RDone l /\
            (forall e, r = inr e -> l = [failed]) /\ (forall v, r = inl v -> l = v).
Proof.
  rewrite g_gcsa_handle_write_errors_eq. eexists. split; [reflexivity|]. split.
  - intros e ->. reflexivity.
  - intros v ->. reflexivity.
Qed.

(* sanity: removing the second occurrence of a daily series; an id that does not exist; an update that fails *)
Example remove_instance_example :
  let r := mkR false 1 [] [TRule] [] in
  let st := mkSev (Some 1%N) (Some 1%N) None (Some utc_zone) [] false false 1736157600 (Some 1736161200) KZone (Some r) in
  let a := init utc_zone [st] 2%N [] in
  let afail := init utc_zone [st] 2%N [1%nat] in
  let ev := mkE (EInst 1%N 1736244000) 1%N None (Some 1%N) false None 1736244000 1736247600 in
  snd (remove_instance a ev 1%N) = [(true, None)] /\
  snd (remove_instance a ev 9%N) = [failed] /\
  snd (remove_instance afail ev 1%N) = [failed] /\
  src_remove_instance (fun id => if (id =? 1)%N then inl st else inr tt) (fun _ => inl tt) ev 1%N = RDone [(true, None)].
Proof. vm_compute. repeat split; reflexivity. Qed.
