(* Proofs/GenEq6.v — tie C for calgebra/core.py class _SourceState and Intersection._sweep: the
   definitions generated from their source text (Gen/Source.v: g_ss_advance, g_ss_init,
   g_ss_advance_if_ends_at, g_ss_advance_if_stalled, g_ss_was_processed_at, g_inter_sweep) equal
   Model/Sweeps.v's advance / init_state / ends_at / stalled / lpc_is / inter_sweep, for all inputs,
   given a frozenset of emit indices that is read as an ascending list of in-range indices and
   fuel for one `while` iteration per input event plus one. *)
From CG Require Import Model.Loop Gen.Source Model.Sweeps Proofs.Defs Proofs.InterFuel.
From CG Require Model.Recur.
Notation zmem := CG.Model.Recur.zmem.
From Coq Require Import ZArith List Bool Lia Sorted.
Import ListNotations.
Open Scope Z_scope.

(* ------------------------------------------------------------------------------------------ *)
(* _SourceState: the five methods *)

Theorem g_ss_advance_eq : forall s, g_ss_advance s = advance s.
Proof.
  intros [c r e l]. unfold g_ss_advance, advance. cbn [cur rest exh lpc].
  destruct e; [reflexivity|]. destruct r; reflexivity.
Qed.

Theorem g_ss_init_eq : forall l, g_ss_init l = init_state l.
Proof.
  intro l. unfold g_ss_init, init_state. cbv zeta. rewrite g_ss_advance_eq.
  destruct (advance (mkS None l false None)); reflexivity.
Qed.

Theorem g_ss_advance_if_ends_at_eq : forall s c,
  g_ss_advance_if_ends_at s c = if ends_at c s then advance s else (s, false).
Proof.
  intros s c. unfold g_ss_advance_if_ends_at, ends_at. rewrite g_ss_advance_eq.
  destruct (cur s) as [x|]; cbn [is_none negb andb oivld]; [|reflexivity].
  destruct ((fend x =? c) && negb (exh s)); [|reflexivity].
  destruct (advance s); reflexivity.
Qed.

Theorem g_ss_was_processed_at_eq : forall s c, g_ss_was_processed_at s c = lpc_is s c.
Proof.
  intros s c. unfold g_ss_was_processed_at, lpc_is, oZ_eqb. destruct (lpc s); reflexivity.
Qed.

Theorem g_ss_advance_if_stalled_eq : forall s c,
  g_ss_advance_if_stalled s c = if stalled c s then advance s else (s, false).
Proof.
  intros s c. unfold g_ss_advance_if_stalled, stalled. rewrite g_ss_advance_eq.
  change (oZ_eqb (lpc s) (Some c)) with (g_ss_was_processed_at s c).
  rewrite g_ss_was_processed_at_eq.
  destruct (cur s) as [x|]; cbn [is_none negb andb oivld]; [|reflexivity].
  destruct (negb (exh s) && lpc_is s c && negb (fend x =? c)); [|reflexivity].
  destruct (advance s); reflexivity.
Qed.

(* ------------------------------------------------------------------------------------------ *)
(* the frozenset of emit indices: an ascending list of indices of the list of states *)

Fixpoint asc_in (lo hi : Z) (idxs : list Z) : Prop :=
  match idxs with
  | [] => True
  | i :: r => lo <= i < hi /\ asc_in (i + 1) hi r
  end.

(* strictly ascending, every member i with 0 <= i < n *)
Definition fs_ok (n : nat) (idxs : list Z) : Prop := asc_in 0 (Z.of_nat n) idxs.

Lemma asc_in_spec : forall idxs lo hi,
  asc_in lo hi idxs <-> StronglySorted Z.lt idxs /\ Forall (fun i => lo <= i < hi) idxs.
Proof.
  induction idxs as [|i r IH]; intros lo hi; cbn [asc_in].
  - split; [intros _; split; constructor|intros _; exact I].
  - rewrite IH. split.
    + intros (Hi & Hs & Hf). split.
      * constructor; [exact Hs|]. eapply Forall_impl; [|exact Hf]. cbv beta. intros; lia.
      * constructor; [exact Hi|]. eapply Forall_impl; [|exact Hf]. cbv beta. intros; lia.
    + intros (Hs & Hf). inversion Hs as [|? ? Hs' Hlt]; subst. inversion Hf as [|? ? Hi Hf']; subst.
      split; [exact Hi|]. split; [exact Hs'|].
      rewrite Forall_forall in *. intros x Hx. specialize (Hlt x Hx). specialize (Hf' x Hx). lia.
Qed.

Lemma fs_ok_spec n idxs :
  fs_ok n idxs <-> StronglySorted Z.lt idxs /\ Forall (fun i => 0 <= i < Z.of_nat n) idxs.
Proof. apply asc_in_spec. Qed.

Definition sel_of (idxs : list Z) (i : nat) : bool := zmem (Z.of_nat i) idxs.

Lemma zmem_below : forall l lo hi x, asc_in lo hi l -> x < lo -> zmem x l = false.
Proof.
  induction l as [|i r IH]; intros lo hi x Ha Hx; [reflexivity|].
  cbn [asc_in] in Ha. destruct Ha as [Hi Hr].
  unfold zmem in *. cbn [existsb]. rewrite (IH (i + 1) hi x Hr) by lia.
  destruct (Z.eqb_spec x i); [lia|reflexivity].
Qed.

Lemma sel_of_tail (k : nat) r j : (S k <= j)%nat -> sel_of (Z.of_nat k :: r) j = sel_of r j.
Proof.
  intro Hj. unfold sel_of, zmem. cbn [existsb].
  destruct (Z.eqb_spec (Z.of_nat j) (Z.of_nat k)); [lia|reflexivity].
Qed.

Lemma sel_of_head (k : nat) r : sel_of (Z.of_nat k :: r) k = true.
Proof. unfold sel_of, zmem. cbn [existsb]. rewrite Z.eqb_refl. reflexivity. Qed.

Lemma asc_in_eq lo hi lo' hi' l : lo = lo' -> hi = hi' -> asc_in lo hi l -> asc_in lo' hi' l.
Proof. intros -> ->. exact (fun H => H). Qed.

(* ------------------------------------------------------------------------------------------ *)
(* list helpers: xs[i] and xs[i] = x at the position after a prefix *)

Local Notation dflt := (mkS None [] true None).

Lemma py_index_app {A : Type} (d : A) pre s r :
  py_index d (pre ++ s :: r) (Z.of_nat (length pre)) = s.
Proof.
  unfold py_index. cbv zeta. rewrite app_length. cbn [length].
  destruct (Z.of_nat (length pre) <? 0) eqn:E1; [lia|].
  destruct ((0 <=? Z.of_nat (length pre)) &&
            (Z.of_nat (length pre) <? Z.of_nat (length pre + S (length r)))) eqn:E2; [|lia].
  rewrite Nat2Z.id. rewrite app_nth2 by lia. rewrite Nat.sub_diag. reflexivity.
Qed.

Lemma list_set_nat_app {A : Type} (x : A) s r : forall pre,
  list_set_nat (pre ++ s :: r) (length pre) x = pre ++ x :: r.
Proof.
  induction pre as [|a pre IH]; cbn [app length list_set_nat]; [reflexivity|].
  rewrite IH. reflexivity.
Qed.

Lemma py_set_index_app {A : Type} pre (s : A) r x :
  py_set_index (pre ++ s :: r) (Z.of_nat (length pre)) x = pre ++ x :: r.
Proof.
  unfold py_set_index. cbv zeta. rewrite app_length. cbn [length].
  destruct (Z.of_nat (length pre) <? 0) eqn:E1; [lia|].
  destruct ((0 <=? Z.of_nat (length pre)) &&
            (Z.of_nat (length pre) <? Z.of_nat (length pre + S (length r)))) eqn:E2; [|lia].
  rewrite Nat2Z.id. apply list_set_nat_app.
Qed.

Lemma app_snoc {A : Type} pre (s : A) r : pre ++ s :: r = (pre ++ [s]) ++ r.
Proof. rewrite <- app_assoc. reflexivity. Qed.

Lemma length_snoc {A : Type} pre (s : A) : length (pre ++ [s]) = S (length pre).
Proof. rewrite app_length. cbn [length]. lia. Qed.

(* ------------------------------------------------------------------------------------------ *)
(* adv_first and emit only look at [sel] from their index argument on; they keep the length *)

Lemma adv_first_ext p sel sel' : forall ss i,
  (forall j, (i <= j < i + length ss)%nat -> sel j = sel' j) ->
  adv_first p sel i ss = adv_first p sel' i ss.
Proof.
  induction ss as [|s r IH]; intros i H; cbn [adv_first]; [reflexivity|]. cbn [length] in H.
  rewrite (H i) by lia. rewrite (IH (S i)) by (intros j Hj; apply H; lia). reflexivity.
Qed.

Lemma emit_ext os oe sel sel' : forall ss i,
  (forall j, (i <= j < i + length ss)%nat -> sel j = sel' j) ->
  emit os oe sel i ss = emit os oe sel' i ss.
Proof.
  induction ss as [|s r IH]; intros i H; cbn [emit]; [reflexivity|]. cbn [length] in H.
  rewrite (H i) by lia. rewrite (IH (S i)) by (intros j Hj; apply H; lia). reflexivity.
Qed.

Lemma adv_first_nosel p : forall ss i, adv_first p (sel_of []) i ss = (ss, false).
Proof.
  induction ss as [|s r IH]; intro i; cbn [adv_first]; [reflexivity|].
  rewrite IH. reflexivity.
Qed.

Lemma emit_nosel' os oe : forall ss i, emit os oe (sel_of []) i ss = (ss, []).
Proof.
  induction ss as [|s r IH]; intro i; cbn [emit]; [reflexivity|].
  rewrite IH. cbn [sel_of zmem existsb andb]. destruct (cur s); reflexivity.
Qed.

Lemma adv_first_length p sel : forall ss i, length (fst (adv_first p sel i ss)) = length ss.
Proof.
  induction ss as [|s r IH]; intro i; cbn [adv_first]; [reflexivity|].
  destruct (sel i && p s); [reflexivity|].
  specialize (IH (S i)). destruct (adv_first p sel (S i) r) as [r' b]. cbn [fst length] in *.
  rewrite IH. reflexivity.
Qed.

Lemma emit_length os oe sel : forall ss i, length (fst (emit os oe sel i ss)) = length ss.
Proof.
  induction ss as [|s r IH]; intro i; cbn [emit]; [reflexivity|].
  specialize (IH (S i)). destruct (emit os oe sel (S i) r) as [r' o]. cbn [fst] in IH.
  destruct (cur s); [destruct (sel i && negb (lpc_is s oe))|]; cbn [fst length]; rewrite IH; reflexivity.
Qed.

(* ------------------------------------------------------------------------------------------ *)
(* any(s.advance_if_X(cutoff) for s in states) *)

Lemma any_mut_adv p (m : sstate -> sstate * bool) :
  (forall s, p s = true -> exh s = false) ->
  (forall v, m v = if p v then advance v else (v, false)) ->
  forall ss i, any_mut m ss = adv_first p (fun _ => true) i ss.
Proof.
  intros Hp Hm. induction ss as [|s r IH]; intro i; cbn [any_mut adv_first]; [reflexivity|].
  rewrite Hm. cbn [andb]. destruct (p s) eqn:Eps.
  - destruct (advance_live s (Hp s Eps)) as [A1 _].
    destruct (advance s) as [x' b]. cbn [fst snd] in *. subst b. reflexivity.
  - rewrite (IH (S i)). reflexivity.
Qed.

(* any(states[idx].advance_if_X(cutoff) for idx in emit_indices) *)
Lemma any_mut_at_adv p (m : sstate -> sstate * bool) :
  (forall s, p s = true -> exh s = false) ->
  (forall v, m v = if p v then advance v else (v, false)) ->
  forall suf pre idxs,
    asc_in (Z.of_nat (length pre)) (Z.of_nat (length pre + length suf)) idxs ->
    any_mut_at dflt m (pre ++ suf) idxs =
    (pre ++ fst (adv_first p (sel_of idxs) (length pre) suf),
     snd (adv_first p (sel_of idxs) (length pre) suf)).
Proof.
  intros Hp Hm. induction suf as [|s r IH]; intros pre idxs Hasc.
  - destruct idxs as [|i r']; [reflexivity|]. cbn [asc_in length] in Hasc. lia.
  - destruct idxs as [|i r'].
    { rewrite adv_first_nosel. reflexivity. }
    cbn [asc_in] in Hasc. destruct Hasc as [Hi Hr'].
    assert (Hskip : forall idxs',
               asc_in (Z.of_nat (length pre) + 1) (Z.of_nat (length pre + length (s :: r))) idxs' ->
               any_mut_at dflt m (pre ++ s :: r) idxs' =
               (pre ++ s :: fst (adv_first p (sel_of idxs') (S (length pre)) r),
                snd (adv_first p (sel_of idxs') (S (length pre)) r))).
    { intros idxs' Ha. rewrite app_snoc, IH.
      - rewrite length_snoc, <- app_assoc. reflexivity.
      - eapply asc_in_eq; [| |exact Ha]; rewrite length_snoc; cbn [length]; lia. }
    destruct (Z.eq_dec i (Z.of_nat (length pre))) as [->|Hne].
    + cbn [any_mut_at adv_first]. rewrite py_index_app, Hm, sel_of_head. cbn [andb].
      destruct (p s) eqn:Eps.
      * destruct (advance_live s (Hp s Eps)) as [A1 _].
        destruct (advance s) as [x' b]. cbn [fst snd] in *. subst b.
        cbv zeta. rewrite py_set_index_app. reflexivity.
      * cbv zeta. rewrite py_set_index_app. rewrite Hskip by exact Hr'.
        rewrite (adv_first_ext p (sel_of (Z.of_nat (length pre) :: r')) (sel_of r'))
          by (intros j Hj; apply sel_of_tail; lia).
        destruct (adv_first p (sel_of r') (S (length pre)) r) as [r'' b]. reflexivity.
    + rewrite Hskip by (cbn [asc_in]; split; [lia|exact Hr']).
      cbn [adv_first].
      assert (Hs : sel_of (i :: r') (length pre) = false).
      { unfold sel_of. apply (zmem_below (i :: r') i (Z.of_nat (length pre + length (s :: r)))).
        - cbn [asc_in]. split; [lia|exact Hr'].
        - lia. }
      rewrite Hs. cbn [andb].
      destruct (adv_first p (sel_of (i :: r')) (S (length pre)) r) as [r'' b]. reflexivity.
Qed.

Lemma any_mut_at_adv0 p (m : sstate -> sstate * bool) ss idxs :
  (forall s, p s = true -> exh s = false) ->
  (forall v, m v = if p v then advance v else (v, false)) ->
  fs_ok (length ss) idxs ->
  any_mut_at dflt m ss idxs = adv_first p (sel_of idxs) 0 ss.
Proof.
  intros Hp Hm Hok. pose proof (any_mut_at_adv p m Hp Hm ss [] idxs Hok) as H.
  cbn [app length] in H. rewrite H.
  destruct (adv_first p (sel_of idxs) 0 ss); reflexivity.
Qed.

(* ------------------------------------------------------------------------------------------ *)
(* the emission loop "for idx in emit_indices" *)

Lemma emit_loop os oe (body : list sstate -> Z -> list ivl * list sstate * bool) :
  (forall states idx,
      body states idx =
      if is_none (cur (py_index dflt states idx)) || lpc_is (py_index dflt states idx) oe
      then ([], states, true)
      else ([set_span (oivld (cur (py_index dflt states idx))) (unS os) (unE oe)],
            py_set_index states idx
              (mkS (cur (py_index dflt states idx)) (rest (py_index dflt states idx))
                   (exh (py_index dflt states idx)) (Some oe)),
            true)) ->
  forall suf pre idxs,
    asc_in (Z.of_nat (length pre)) (Z.of_nat (length pre + length suf)) idxs ->
    sub_for body (pre ++ suf) idxs =
    (snd (emit os oe (sel_of idxs) (length pre) suf),
     pre ++ fst (emit os oe (sel_of idxs) (length pre) suf)).
Proof.
  intros Hb. induction suf as [|s r IH]; intros pre idxs Hasc.
  - destruct idxs as [|i r']; [reflexivity|]. cbn [asc_in length] in Hasc. lia.
  - destruct idxs as [|i r'].
    { rewrite emit_nosel'. reflexivity. }
    cbn [asc_in] in Hasc. destruct Hasc as [Hi Hr'].
    assert (Hskip : forall s' idxs',
               asc_in (Z.of_nat (length pre) + 1) (Z.of_nat (length pre + length (s :: r))) idxs' ->
               sub_for body (pre ++ s' :: r) idxs' =
               (snd (emit os oe (sel_of idxs') (S (length pre)) r),
                pre ++ s' :: fst (emit os oe (sel_of idxs') (S (length pre)) r))).
    { intros s' idxs' Ha. rewrite app_snoc, IH.
      - rewrite length_snoc, <- app_assoc. reflexivity.
      - eapply asc_in_eq; [| |exact Ha]; rewrite length_snoc; cbn [length]; lia. }
    destruct (Z.eq_dec i (Z.of_nat (length pre))) as [->|Hne].
    + cbn [sub_for emit]. rewrite Hb, !py_index_app, sel_of_head. cbn [andb].
      rewrite (emit_ext os oe (sel_of (Z.of_nat (length pre) :: r')) (sel_of r'))
        by (intros j Hj; apply sel_of_tail; lia).
      destruct (cur s) as [c|] eqn:Ec; cbn [is_none orb oivld].
      * destruct (lpc_is s oe) eqn:El; cbn [negb].
        -- rewrite Hskip by exact Hr'.
           destruct (emit os oe (sel_of r') (S (length pre)) r) as [r1 o1]. reflexivity.
        -- rewrite py_set_index_app. rewrite Hskip by exact Hr'.
           destruct (emit os oe (sel_of r') (S (length pre)) r) as [r1 o1]. reflexivity.
      * rewrite Hskip by exact Hr'.
        destruct (emit os oe (sel_of r') (S (length pre)) r) as [r1 o1]. reflexivity.
    + rewrite Hskip by (cbn [asc_in]; split; [lia|exact Hr']).
      cbn [emit].
      assert (Hs : sel_of (i :: r') (length pre) = false).
      { unfold sel_of. apply (zmem_below (i :: r') i (Z.of_nat (length pre + length (s :: r)))).
        - cbn [asc_in]. split; [lia|exact Hr'].
        - lia. }
      rewrite Hs. cbn [andb].
      destruct (emit os oe (sel_of (i :: r')) (S (length pre)) r) as [r1 o1].
      destruct (cur s); reflexivity.
Qed.

Lemma emit_loop0 os oe (body : list sstate -> Z -> list ivl * list sstate * bool) ss idxs :
  (forall states idx,
      body states idx =
      if is_none (cur (py_index dflt states idx)) || lpc_is (py_index dflt states idx) oe
      then ([], states, true)
      else ([set_span (oivld (cur (py_index dflt states idx))) (unS os) (unE oe)],
            py_set_index states idx
              (mkS (cur (py_index dflt states idx)) (rest (py_index dflt states idx))
                   (exh (py_index dflt states idx)) (Some oe)),
            true)) ->
  fs_ok (length ss) idxs ->
  sub_for body ss idxs = (snd (emit os oe (sel_of idxs) 0 ss), fst (emit os oe (sel_of idxs) 0 ss)).
Proof.
  intros Hb Hok. exact (emit_loop os oe body Hb ss [] idxs Hok).
Qed.

(* ------------------------------------------------------------------------------------------ *)
(* active = [s.current for s in states if s.current is not None] *)

Definition act_of (ss : list sstate) : list ivl :=
  map (fun s => oivld (cur s)) (filter (fun s => negb (is_none (cur s))) ss).

Lemma act_of_le : forall ss, (length (act_of ss) <= length ss)%nat.
Proof.
  induction ss as [|s r IH]; [cbn; lia|]. unfold act_of in *. cbn [filter].
  destruct (negb (is_none (cur s))); cbn [map length]; lia.
Qed.

Lemma act_of_all_cur : forall ss,
  match all_cur ss with
  | Some act => act_of ss = act /\ length act = length ss
  | None => (length (act_of ss) < length ss)%nat
  end.
Proof.
  induction ss as [|s r IH]; [cbn; auto|].
  unfold all_cur in *. cbn [fold_right].
  pose proof (act_of_le r) as Hle.
  unfold act_of in *. cbn [filter].
  destruct (cur s) as [c|] eqn:Ec; cbn [is_none negb map length]; rewrite ?Ec; cbn [oivld].
  - destruct (fold_right _ (Some []) r) as [act|].
    + destruct IH as [-> IH]. rewrite <- IH. split; reflexivity.
    + lia.
  - lia.
Qed.

Lemma act_lt_is_none ss :
  (Z.of_nat (length (act_of ss)) <? Z.of_nat (length ss)) = is_none (all_cur ss).
Proof.
  pose proof (act_of_all_cur ss) as H. destruct (all_cur ss) as [act|]; cbn [is_none].
  - destruct H as [-> H]. rewrite H. apply Z.ltb_irrefl.
  - apply Z.ltb_lt. lia.
Qed.

Lemma act_of_some ss act : all_cur ss = Some act -> act_of ss = act.
Proof. intro E. pose proof (act_of_all_cur ss) as H. rewrite E in H. apply H. Qed.

(* max(..) / min(..) run left to right, the model folds from the right *)
Lemma py_max_eq f act : (forall x, f x = fstart x) -> py_max (map f act) = max_start act.
Proof.
  intro Hf. rewrite (map_ext f fstart Hf).
  destruct act as [|a r]; [reflexivity|]. cbn [map py_max max_start].
  apply fold_symmetric; [apply Z.max_assoc|intro; apply Z.max_comm].
Qed.

Lemma py_min_eq f act : (forall x, f x = fend x) -> py_min (map f act) = min_end act.
Proof.
  intro Hf. rewrite (map_ext f fend Hf).
  destruct act as [|a r]; [reflexivity|]. cbn [map py_min min_end].
  apply fold_symmetric; [apply Z.min_assoc|intro; apply Z.min_comm].
Qed.

Lemma unS_if z : (if negb (z =? NEG_INF) then Some z else None) = unS z.
Proof. unfold unS. destruct (z =? NEG_INF); reflexivity. Qed.

Lemma unE_if z : (if negb (z =? POS_INF) then Some z else None) = unE z.
Proof. unfold unE. destruct (z =? POS_INF); reflexivity. Qed.

(* ------------------------------------------------------------------------------------------ *)
(* one iteration of "while True" as the model runs it *)

Definition step_of (sel : nat -> bool) (ss : list sstate) : list ivl * list sstate * ctl :=
  match all_cur ss with
  | None => ([], ss, Ret)
  | Some act =>
    let os := max_start act in
    let oe := min_end act in
    let '(ss1, out) := if os <? oe then emit os oe sel 0 ss else (ss, []) in
    let '(ss2, adv) := adv_first (ends_at oe) (fun _ => true) 0 ss1 in
    let '(ss3, adv2) := if adv then (ss2, true) else adv_first (stalled oe) sel 0 ss2 in
    (out, ss3, if adv2 then Cont else Ret)
  end.

Lemma step_of_length sel ss : length (snd (fst (step_of sel ss))) = length ss.
Proof.
  unfold step_of. destruct (all_cur ss) as [act|]; [|reflexivity]. cbv zeta.
  set (os := max_start act). set (oe := min_end act).
  assert (H1 : length (fst (if os <? oe then emit os oe sel 0 ss else (ss, []))) = length ss).
  { destruct (os <? oe); [apply emit_length|reflexivity]. }
  destruct (if os <? oe then emit os oe sel 0 ss else (ss, [])) as [ss1 out]. cbn [fst] in H1.
  pose proof (adv_first_length (ends_at oe) (fun _ => true) ss1 0%nat) as H2.
  destruct (adv_first (ends_at oe) (fun _ => true) 0 ss1) as [ss2 adv]. cbn [fst] in H2.
  destruct adv; cbn [fst snd]; [lia|].
  pose proof (adv_first_length (stalled oe) sel ss2 0%nat) as H3.
  destruct (adv_first (stalled oe) sel 0 ss2) as [ss3 adv2]. cbn [fst snd] in *. lia.
Qed.

Lemma inter_loop_step f sel ss :
  inter_loop (S f) sel ss =
  let '(out, ss', c) := step_of sel ss in
  match c with
  | Cont => match inter_loop f sel ss' with Some o => Some (out ++ o) | None => None end
  | _ => Some out
  end.
Proof.
  cbn [inter_loop]. unfold step_of. destruct (all_cur ss) as [act|]; [|reflexivity]. cbv zeta.
  destruct (if max_start act <? min_end act then emit (max_start act) (min_end act) sel 0 ss
            else (ss, [])) as [ss1 out].
  destruct (adv_first (ends_at (min_end act)) (fun _ => true) 0 ss1) as [ss2 adv].
  destruct (if adv then (ss2, true) else adv_first (stalled (min_end act)) sel 0 ss2) as [ss3 adv2].
  destruct adv2; reflexivity.
Qed.

(* the main loop, for any condition / body / post that behave like the source's *)
Lemma main_loop n sel (cond : list sstate -> bool)
      (body : list sstate -> list ivl * list sstate * ctl) (post : list sstate -> list ivl) :
  (forall ss, cond ss = true) -> (forall ss, post ss = []) ->
  (forall ss, length ss = n -> body ss = step_of sel ss) ->
  forall f ss, length ss = n ->
    run_while f cond body post ss =
    match inter_loop f sel ss with Some o => RDone o | None => RFuel end.
Proof.
  intros Hc Hp Hb. induction f as [|f IH]; intros ss Hlen.
  - cbn [run_while inter_loop]. rewrite Hc. reflexivity.
  - rewrite inter_loop_step. cbn [run_while]. rewrite Hc, Hb by exact Hlen.
    pose proof (step_of_length sel ss) as Hl.
    destruct (step_of sel ss) as [[out ss'] c]. cbn [fst snd] in Hl.
    destruct c.
    + rewrite IH by lia. destruct (inter_loop f sel ss'); reflexivity.
    + rewrite Hp, app_nil_r. reflexivity.
    + reflexivity.
Qed.

(* the single-source loop; the second component of the loop state (the list) is dead *)
Lemma single_loop (cond : sstate * list sstate -> bool)
      (body : sstate * list sstate -> list ivl * (sstate * list sstate) * ctl)
      (post : sstate * list sstate -> list ivl) :
  (forall s sts, cond (s, sts) = negb (is_none (cur s))) ->
  (forall x, post x = []) ->
  (forall s sts, exists sts',
      body (s, sts) = ([oivld (cur s)], (fst (advance s), sts'),
                       if exh (fst (advance s)) then Brk else Cont)) ->
  forall f s sts, (length (rest s) < f)%nat ->
    run_while f cond body post (s, sts) = RDone (inter_single (S (length (rest s))) s).
Proof.
  intros Hc Hp Hb. induction f as [|f IH]; intros s sts Hf; [lia|].
  cbn [run_while inter_single]. rewrite Hc.
  destruct (cur s) as [c|] eqn:Ec; cbn [is_none negb].
  - destruct (Hb s sts) as [sts' ->]. rewrite Ec. cbn [oivld].
    destruct (exh (fst (advance s))) eqn:Ee.
    + rewrite Hp. reflexivity.
    + assert (Hr : S (length (rest (fst (advance s)))) = length (rest s)).
      { unfold advance in *. destruct (exh s) eqn:E1; cbn [fst] in Ee; [congruence|].
        destruct (rest s); cbn [fst exh rest length] in *; [discriminate|reflexivity]. }
      rewrite IH by lia. rewrite <- Hr. reflexivity.
  - rewrite Hp. reflexivity.
Qed.

Lemma ss_measure_init : forall streams, ss_measure (map init_state streams) = total_len streams.
Proof.
  induction streams as [|l r IH]; [reflexivity|].
  cbn [map]. unfold ss_measure, total_len in *. cbn [fold_right]. rewrite IH.
  destruct l as [|x l]; [reflexivity|].
  unfold init_state, advance, st_measure. cbn [exh rest fst length]. lia.
Qed.

(* the two any(..) scans that end an iteration, from the list of states [ss1]; leaves the side
   condition "the emit indices are indices of the list the second scan runs on" *)
Ltac scan_tac oe idxs ss1 :=
  match goal with
  | |- context [any_mut ?M ss1] =>
    rewrite (any_mut_adv (ends_at oe) M (ends_at_live oe)
                         (fun v => g_ss_advance_if_ends_at_eq v oe) ss1 0%nat)
  end;
  let Hl2 := fresh "Hl2" in
  pose proof (adv_first_length (ends_at oe) (fun _ => true) ss1 0%nat) as Hl2;
  let ss2 := fresh "ss2" in
  let adv := fresh "adv" in
  destruct (adv_first (ends_at oe) (fun _ => true) 0 ss1) as [ss2 adv]; cbn [fst] in Hl2;
  destruct adv; cbn [negb]; [reflexivity|];
  match goal with
  | |- context [any_mut_at _ ?M ss2 idxs] =>
    rewrite (any_mut_at_adv0 (stalled oe) M ss2 idxs (stalled_live oe)
                             (fun v => g_ss_advance_if_stalled_eq v oe));
    [ let ss3 := fresh "ss3" in
      let adv2 := fresh "adv2" in
      destruct (adv_first (stalled oe) (sel_of idxs) 0 ss2) as [ss3 adv2];
      destruct adv2; reflexivity
    | ]
  end.

(* ------------------------------------------------------------------------------------------ *)
(* HEADLINE.  The fuel bound: one iteration of the loop per input event, plus one. *)
Theorem g_inter_sweep_eq : forall fuel streams idxs,
  fs_ok (length streams) idxs ->
  (total_len streams < fuel)%nat ->
  g_inter_sweep fuel streams idxs = RDone (inter_sweep streams (fun i => zmem (Z.of_nat i) idxs)).
Proof.
  intros fuel streams idxs Hok Hfuel.
  change (fun i => zmem (Z.of_nat i) idxs) with (sel_of idxs).
  unfold g_inter_sweep. cbv zeta.
  assert (Hst : map (fun stream => g_ss_init stream) streams = map init_state streams)
    by (apply map_ext; intro; apply g_ss_init_eq).
  rewrite Hst. clear Hst.
  pose proof (inter_sweep_some streams (sel_of idxs)) as Hs. unfold inter_sweep_opt in Hs.
  cbv zeta in Hs.
  pose proof (ss_measure_init streams) as Hm.
  unfold fs_ok in Hok. rewrite <- (map_length init_state) in Hok.
  set (res := inter_sweep streams (sel_of idxs)) in *. clearbody res.
  set (ss := map init_state streams) in *. clearbody ss.
  change (forallb (fun s => exh s && is_none (cur s)) ss)
    with (forallb (fun s => exh s && match cur s with None => true | Some _ => false end) ss).
  destruct (forallb (fun s => exh s && match cur s with None => true | Some _ => false end) ss) eqn:Eall.
  { injection Hs as <-. reflexivity. }
  destruct ss as [|s [|s' r]].
  - cbn [forallb] in Eall. discriminate.
  - (* a single source *)
    cbn [length Z.of_nat Pos.of_succ_nat Z.eqb Pos.eqb].
    change (py_index dflt [s] 0) with s.
    injection Hs as <-.
    apply single_loop.
    + intros; reflexivity.
    + intros [? ?]; reflexivity.
    + intros s0 sts. cbv beta iota zeta. rewrite g_ss_advance_eq.
      destruct (advance s0) as [s1 b]. cbn [fst]. eexists.
      destruct (exh s1); reflexivity.
    + unfold ss_measure, st_measure in Hm. cbn [fold_right] in Hm. lia.
  - (* two sources or more *)
    assert (E1 : (Z.of_nat (length (s :: s' :: r)) =? 1) = false) by (cbn [length]; lia).
    rewrite E1. clear E1.
    set (ss := s :: s' :: r) in *. clearbody ss. clear s s' r Eall.
    match goal with
    | |- run_while fuel ?C ?B ?P ss = _ =>
      rewrite (main_loop (length ss) (sel_of idxs) C B P)
    end.
    + rewrite (inter_loop_fuel_irrel (sel_of idxs) fuel (S (ss_measure ss)) ss) by lia.
      rewrite Hs. reflexivity.
    + intro; reflexivity.
    + intro; reflexivity.
    + clear Hs Hm res. intros ss0 Hlen. rewrite <- Hlen in Hok. clear Hlen ss.
      cbv beta zeta. unfold step_of.
      match goal with
      | |- context [map ?f (filter ?g ss0)] => change (map f (filter g ss0)) with (act_of ss0)
      end.
      rewrite act_lt_is_none.
      destruct (all_cur ss0) as [act|] eqn:Eact; cbn [is_none]; [|reflexivity].
      rewrite (act_of_some ss0 act Eact).
      match goal with
      | |- context [py_max (map ?F act)] => rewrite (py_max_eq F act (fun _ => eq_refl))
      end.
      match goal with
      | |- context [py_min (map ?F act)] => rewrite (py_min_eq F act (fun _ => eq_refl))
      end.
      set (os := max_start act). set (oe := min_end act).
      destruct (os <? oe) eqn:Elt.
      * match goal with
        | |- context [sub_for ?B ss0 idxs] => rewrite (emit_loop0 os oe B ss0 idxs)
        end.
        -- pose proof (emit_length os oe (sel_of idxs) ss0 0%nat) as Hl1.
           destruct (emit os oe (sel_of idxs) 0 ss0) as [ss1 out]. cbn [fst snd app] in *.
           scan_tac oe idxs ss1; unfold fs_ok; rewrite Hl2, Hl1; exact Hok.
        -- intros states idx. rewrite unS_if, unE_if, g_ss_was_processed_at_eq. reflexivity.
        -- exact Hok.
      * scan_tac oe idxs ss0; unfold fs_ok; rewrite Hl2; exact Hok.
    + reflexivity.
Qed.
Print Assumptions g_inter_sweep_eq.

(* ------------------------------------------------------------------------------------------ *)
(* sanity: concrete runs of the generated definition *)

Example fs_ok_example : fs_ok 2 [0; 1].
Proof. cbn. lia. Qed.

(* two sources, both emitting: the overlaps, each once per emitter, lower index first *)
Example g_inter_sweep_example :
  g_inter_sweep 4 [[mkI (Some 0) (Some 10) (Rich 1); mkI (Some 12) (Some 20) (Rich 2)];
                   [mkI (Some 5) (Some 15) (Rich 3)]] [0; 1]
  = RDone [mkI (Some 5) (Some 10) (Rich 1); mkI (Some 5) (Some 10) (Rich 3);
           mkI (Some 12) (Some 15) (Rich 2); mkI (Some 12) (Some 15) (Rich 3)].
Proof. vm_compute. reflexivity. Qed.

(* the same through the theorem: its hypotheses hold of this instance *)
Example g_inter_sweep_example_thm :
  g_inter_sweep 4 [[mkI (Some 0) (Some 10) (Rich 1); mkI (Some 12) (Some 20) (Rich 2)];
                   [mkI (Some 5) (Some 15) (Rich 3)]] [0; 1]
  = RDone (inter_sweep [[mkI (Some 0) (Some 10) (Rich 1); mkI (Some 12) (Some 20) (Rich 2)];
                        [mkI (Some 5) (Some 15) (Rich 3)]] (fun i => zmem (Z.of_nat i) [0; 1])).
Proof. apply g_inter_sweep_eq; [cbn; lia|cbn; lia]. Qed.

(* only the second source emits (the first is a mask) *)
Example g_inter_sweep_example_mask :
  g_inter_sweep 4 [[mkI (Some 0) (Some 10) Plain; mkI (Some 12) (Some 20) Plain];
                   [mkI (Some 5) (Some 15) (Rich 3)]] [1]
  = RDone [mkI (Some 5) (Some 10) (Rich 3); mkI (Some 12) (Some 15) (Rich 3)].
Proof. vm_compute. reflexivity. Qed.

(* without fuel the result is the explicit RFuel, never a truncated list *)
Example g_inter_sweep_fuel :
  g_inter_sweep 0 [[mkI (Some 0) (Some 10) Plain]; [mkI (Some 5) (Some 15) Plain]] [0; 1] = RFuel.
Proof. vm_compute. reflexivity. Qed.

Example g_inter_sweep_fuel1 :
  g_inter_sweep 1 [[mkI (Some 0) (Some 10) Plain; mkI (Some 12) (Some 20) Plain];
                   [mkI (Some 5) (Some 15) Plain]] [0; 1] = RFuel.
Proof. vm_compute. reflexivity. Qed.

(* a single source: the identity *)
Example g_inter_sweep_single :
  g_inter_sweep 3 [[mkI (Some 0) (Some 10) (Rich 1); mkI (Some 12) (Some 20) (Rich 2)]] [0]
  = RDone [mkI (Some 0) (Some 10) (Rich 1); mkI (Some 12) (Some 20) (Rich 2)].
Proof. vm_compute. reflexivity. Qed.

(* no events at all: the early exit needs no fuel *)
Example g_inter_sweep_empty : g_inter_sweep 0 [[]; []] [0; 1] = RDone [].
Proof. vm_compute. reflexivity. Qed.

(* ------------------------------------------------------------------------------------------ *)
(* the result depends on the selection only through the indices of the sources *)

Lemma step_of_ext sel sel' ss :
  (forall i, (i < length ss)%nat -> sel i = sel' i) -> step_of sel ss = step_of sel' ss.
Proof.
  intro H. unfold step_of. destruct (all_cur ss) as [act|]; [|reflexivity]. cbv zeta.
  set (os := max_start act). set (oe := min_end act).
  rewrite (emit_ext os oe sel sel' ss 0%nat) by (intros j Hj; apply H; lia).
  assert (H1 : length (fst (if os <? oe then emit os oe sel' 0 ss else (ss, []))) = length ss).
  { destruct (os <? oe); [apply emit_length|reflexivity]. }
  destruct (if os <? oe then emit os oe sel' 0 ss else (ss, [])) as [ss1 out]. cbn [fst] in H1.
  pose proof (adv_first_length (ends_at oe) (fun _ => true) ss1 0%nat) as H2.
  destruct (adv_first (ends_at oe) (fun _ => true) 0 ss1) as [ss2 adv]. cbn [fst] in H2.
  destruct adv; [reflexivity|].
  rewrite (adv_first_ext (stalled oe) sel sel' ss2 0%nat) by (intros j Hj; apply H; lia).
  reflexivity.
Qed.

Lemma inter_loop_ext sel sel' : forall f ss,
  (forall i, (i < length ss)%nat -> sel i = sel' i) -> inter_loop f sel ss = inter_loop f sel' ss.
Proof.
  induction f as [|f IH]; intros ss H; [reflexivity|].
  rewrite !inter_loop_step. rewrite (step_of_ext sel sel' ss H).
  pose proof (step_of_length sel' ss) as Hl.
  destruct (step_of sel' ss) as [[out ss'] c]. cbn [fst snd] in Hl.
  destruct c; [|reflexivity|reflexivity].
  rewrite (IH ss') by (rewrite Hl; exact H). reflexivity.
Qed.

Theorem inter_sweep_sel_ext streams sel sel' :
  (forall i, (i < length streams)%nat -> sel i = sel' i) ->
  inter_sweep streams sel = inter_sweep streams sel'.
Proof.
  intro H. unfold inter_sweep, inter_sweep_opt. cbv zeta.
  rewrite <- (map_length init_state) in H.
  destruct (forallb _ (map init_state streams)); [reflexivity|].
  destruct (map init_state streams) as [|s [|s' r]]; [|reflexivity|];
    rewrite (inter_loop_ext sel sel' _ _ H); reflexivity.
Qed.

(* ------------------------------------------------------------------------------------------ *)
(* headline theorems of the property files restated on the GENERATED definition *)
From CG Require Import Proofs.InterDisjoint Proofs.InterCover.

Lemma fs_ok_has_sel n idxs :
  fs_ok n idxs -> idxs <> [] -> exists i, (i < n)%nat /\ zmem (Z.of_nat i) idxs = true.
Proof.
  destruct idxs as [|i0 r]; [congruence|]. intros [Hi _] _. exists (Z.to_nat i0). split; [lia|].
  unfold zmem. cbn [existsb]. rewrite Z2Nat.id by lia. rewrite Z.eqb_refl. reflexivity.
Qed.

(* never invents: every emission is an event of an emitting source, trimmed to a non-empty span
   inside the coverage of every source (any streams at all) *)
Theorem src_inter_never_invents : forall fuel streams idxs l x,
  fs_ok (length streams) idxs -> (total_len streams < fuel)%nat -> (2 <= length streams)%nat ->
  g_inter_sweep fuel streams idxs = RDone l -> In x l ->
  fstart x < fend x /\
  (exists i s c, nth_error streams i = Some s /\ zmem (Z.of_nat i) idxs = true /\ In c s /\
                 pl x = pl c /\ fstart c <= fstart x /\ fend x <= fend c) /\
  forall t, inside x t = true -> forallb (fun s => covers s t) streams = true.
Proof.
  intros fuel streams idxs l x Hok Hf Hk Hrun Hx.
  rewrite (g_inter_sweep_eq fuel streams idxs Hok Hf) in Hrun. injection Hrun as <-.
  exact (inter_sweep_sound_cover streams _ x Hk Hx).
Qed.

(* sources sorted by start, at least one emitter: the run completes, its output is sorted by start
   and covers exactly the instants covered by every source *)
Theorem src_inter_cover_sorted : forall fuel streams idxs,
  fs_ok (length streams) idxs -> (total_len streams < fuel)%nat -> (2 <= length streams)%nat ->
  idxs <> [] ->
  Forall (Forall wf_ivl) streams -> Forall sorted_start streams ->
  exists l, g_inter_sweep fuel streams idxs = RDone l /\
            sorted_start l /\
            forall t, covers l t = forallb (fun s => covers s t) streams.
Proof.
  intros fuel streams idxs Hok Hf Hk Hne Hwf Hso.
  eexists. split; [apply g_inter_sweep_eq; assumption|]. split.
  - apply inter_sweep_sorted; assumption.
  - apply inter_sweep_cover_sorted; try assumption.
    apply (fs_ok_has_sel _ _ Hok Hne).
Qed.

(* internally disjoint sources: the output is, up to order, the per-event reference *)
Theorem src_inter_exact : forall fuel streams idxs,
  fs_ok (length streams) idxs -> (total_len streams < fuel)%nat -> (2 <= length streams)%nat ->
  Forall (Forall wf_ivl) streams -> Forall disjoint_sorted streams ->
  exists l, g_inter_sweep fuel streams idxs = RDone l /\
            Permutation l (inter_ref' (fun i => zmem (Z.of_nat i) idxs) streams).
Proof.
  intros fuel streams idxs Hok Hf Hk Hwf Hd.
  eexists. split; [apply g_inter_sweep_eq; assumption|].
  apply inter_sweep_exact; assumption.
Qed.

(* ... and the reference semantics Spec.inter_ref of the expression level, whenever the emit
   indices are those the mask flags select (what Intersection.fetch computes) *)
Theorem src_inter_is_ref : forall fuel masks streams idxs,
  fs_ok (length streams) idxs -> (total_len streams < fuel)%nat -> (2 <= length streams)%nat ->
  (forall i, (i < length streams)%nat -> zmem (Z.of_nat i) idxs = emit_sel masks i) ->
  Forall (Forall wf_ivl) streams -> Forall disjoint_sorted streams ->
  exists l, g_inter_sweep fuel streams idxs = RDone l /\ Permutation l (inter_ref masks streams).
Proof.
  intros fuel masks streams idxs Hok Hf Hk Hsel Hwf Hd.
  eexists. split; [apply g_inter_sweep_eq; assumption|].
  rewrite (inter_sweep_sel_ext streams _ (emit_sel masks) Hsel).
  apply inter_sweep_is_ref; assumption.
Qed.

Print Assumptions inter_sweep_sel_ext.
Print Assumptions src_inter_never_invents.
Print Assumptions src_inter_cover_sorted.
Print Assumptions src_inter_exact.
Print Assumptions src_inter_is_ref.

(* ------------------------------------------------------------------------------------------ *)
(* the emit indices Intersection.fetch passes to _sweep (fetch itself is not generated: this is its
   text read by hand, with a frozenset read as the ascending list of its members):
     all mask  -> frozenset([0]);   some mask -> frozenset(i for i, m in enumerate(masks) if not m);
     no mask   -> frozenset(range(len(sources))) *)
Definition idxs_of_masks (masks : list bool) : list Z :=
  if forallb (fun b => b) masks then [0]
  else if existsb (fun b => b) masks
       then map fst (filter (fun p => negb (snd p)) (py_enumerate masks))
       else zrange (Z.of_nat (length masks)).

Definition enumk (k : nat) (l : list bool) : list (Z * bool) :=
  combine (map Z.of_nat (seq k (length l))) l.

Lemma asc_in_weaken lo lo' hi l : lo' <= lo -> asc_in lo hi l -> asc_in lo' hi l.
Proof. destruct l; cbn [asc_in]; [auto|]. intros H [H1 H2]. split; [lia|exact H2]. Qed.

Lemma enumk_asc q : forall l k,
  asc_in (Z.of_nat k) (Z.of_nat (k + length l)) (map fst (filter q (enumk k l))).
Proof.
  induction l as [|b l IH]; intro k; [exact I|].
  unfold enumk. cbn [length seq map combine filter]. fold (enumk (S k) l).
  assert (Hr : asc_in (Z.of_nat k + 1) (Z.of_nat (k + S (length l))) (map fst (filter q (enumk (S k) l)))).
  { eapply asc_in_eq; [| |apply (IH (S k))]; lia. }
  destruct (q (Z.of_nat k, b)); cbn [map fst asc_in].
  - split; [lia|exact Hr].
  - eapply asc_in_weaken; [|exact Hr]. lia.
Qed.

Lemma enumk_mem : forall l k i, (k <= i < k + length l)%nat ->
  zmem (Z.of_nat i) (map fst (filter (fun p => negb (snd p)) (enumk k l))) = negb (nth (i - k) l false).
Proof.
  induction l as [|b l IH]; intros k i Hi; [cbn [length] in Hi; lia|].
  unfold enumk. cbn [length seq map combine filter snd]. fold (enumk (S k) l). cbn [length] in Hi.
  destruct (Nat.eq_dec i k) as [->|Hne].
  - rewrite Nat.sub_diag. cbn [nth]. destruct b; cbn [negb map fst].
    + apply (zmem_below _ (Z.of_nat (S k)) (Z.of_nat (S k + length l))); [apply enumk_asc|lia].
    + unfold zmem. cbn [existsb]. rewrite Z.eqb_refl. reflexivity.
  - replace (i - k)%nat with (S (i - S k)) by lia. cbn [nth].
    rewrite <- (IH (S k) i) by lia.
    destruct b; cbn [negb map fst]; [reflexivity|].
    unfold zmem. cbn [existsb]. destruct (Z.eqb_spec (Z.of_nat i) (Z.of_nat k)); [lia|reflexivity].
Qed.

Lemma py_enumerate_enumk l : py_enumerate l = enumk 0 l.
Proof. unfold py_enumerate, enumk, zrange. rewrite Nat2Z.id. reflexivity. Qed.

Lemma range_asc : forall n k, asc_in (Z.of_nat k) (Z.of_nat (k + n)) (map Z.of_nat (seq k n)).
Proof.
  induction n as [|n IH]; intro k; [exact I|]. cbn [seq map asc_in]. split; [lia|].
  eapply asc_in_eq; [| |apply (IH (S k))]; lia.
Qed.

Lemma range_mem : forall n k i, (k <= i < k + n)%nat -> zmem (Z.of_nat i) (map Z.of_nat (seq k n)) = true.
Proof.
  induction n as [|n IH]; intros k i Hi; [lia|]. cbn [seq map]. unfold zmem. cbn [existsb].
  destruct (Z.eqb_spec (Z.of_nat i) (Z.of_nat k)); [reflexivity|].
  apply (IH (S k) i). lia.
Qed.

Lemma idxs_of_masks_ok masks : masks <> [] -> fs_ok (length masks) (idxs_of_masks masks).
Proof.
  intro Hne. unfold fs_ok, idxs_of_masks.
  destruct (forallb (fun b => b) masks).
  - destruct masks; [congruence|]. cbn [asc_in length]. lia.
  - destruct (existsb (fun b => b) masks).
    + rewrite py_enumerate_enumk. apply (enumk_asc _ masks 0%nat).
    + unfold zrange. rewrite Nat2Z.id. apply (range_asc (length masks) 0%nat).
Qed.

Lemma idxs_of_masks_sel masks i : (i < length masks)%nat ->
  zmem (Z.of_nat i) (idxs_of_masks masks) = emit_sel masks i.
Proof.
  intro Hi. unfold idxs_of_masks, emit_sel.
  destruct (forallb (fun b => b) masks).
  - destruct i; reflexivity.
  - destruct (existsb (fun b => b) masks).
    + rewrite py_enumerate_enumk, (enumk_mem masks 0%nat i) by lia. rewrite Nat.sub_0_r. reflexivity.
    + unfold zrange. rewrite Nat2Z.id. apply (range_mem (length masks) 0%nat i). lia.
Qed.

(* fetch's emit indices, then the generated _sweep: the reference semantics of Intersection *)
Theorem src_inter_fetch_is_ref : forall fuel masks streams,
  length masks = length streams -> (total_len streams < fuel)%nat -> (2 <= length streams)%nat ->
  Forall (Forall wf_ivl) streams -> Forall disjoint_sorted streams ->
  exists l, g_inter_sweep fuel streams (idxs_of_masks masks) = RDone l /\
            Permutation l (inter_ref masks streams).
Proof.
  intros fuel masks streams Hlen Hf Hk Hwf Hd.
  apply src_inter_is_ref; try assumption.
  - rewrite <- Hlen. apply idxs_of_masks_ok. destruct masks; [cbn in Hlen; lia|discriminate].
  - intros i Hi. apply idxs_of_masks_sel. lia.
Qed.
Print Assumptions src_inter_fetch_is_ref.

Example idxs_of_masks_examples :
  idxs_of_masks [true; true] = [0] /\ idxs_of_masks [true; false; false] = [1; 2] /\
  idxs_of_masks [false; false] = [0; 1].
Proof. vm_compute. auto. Qed.

(* ------------------------------------------------------------------------------------------ *)
(* Intersection.fetch ITSELF, generated from its source text (Gen/Source.v: g_inter_fetch), equals
   the Inter case of Model/Expr.v's fetch.  The hand transcription idxs_of_masks above is now a
   stepping stone only: the generated emit_indices term is proved equal to it. *)
From CG Require Import Model.Expr Proofs.GenEq.

(* a frozenset built from an ascending duplicate-free list is that list *)
Lemma fs_insert_last : forall acc lo hi x, asc_in lo hi acc -> hi <= x -> fs_insert x acc = acc ++ [x].
Proof.
  induction acc as [|i r IH]; intros lo hi x Ha Hx; [reflexivity|].
  cbn [asc_in] in Ha. destruct Ha as [Hi Hr]. cbn [fs_insert app].
  destruct (Z.ltb_spec x i); [lia|]. destruct (Z.eqb_spec x i); [lia|].
  rewrite (IH (i + 1) hi x Hr Hx). reflexivity.
Qed.

Lemma asc_in_snoc : forall acc lo mid x,
  asc_in lo mid acc -> mid <= x -> lo <= x -> asc_in lo (x + 1) (acc ++ [x]).
Proof.
  induction acc as [|i r IH]; intros lo mid x Ha Hx Hlo; cbn [app asc_in].
  - split; [lia|exact I].
  - cbn [asc_in] in Ha. destruct Ha as [Hi Hr]. split; [lia|].
    apply (IH (i + 1) mid x Hr Hx). lia.
Qed.

Lemma fs_fold_asc : forall l acc lo mid hi,
  lo <= mid -> asc_in lo mid acc -> asc_in mid hi l ->
  fold_left (fun acc x => fs_insert x acc) l acc = acc ++ l.
Proof.
  induction l as [|x r IH]; intros acc lo mid hi Hlm Ha Hl; cbn [fold_left].
  - rewrite app_nil_r. reflexivity.
  - cbn [asc_in] in Hl. destruct Hl as [Hx Hr].
    rewrite (fs_insert_last acc lo mid x Ha) by lia.
    rewrite (IH (acc ++ [x]) lo (x + 1) hi); [rewrite <- app_assoc; reflexivity|lia| |exact Hr].
    apply (asc_in_snoc acc lo mid x Ha); lia.
Qed.

Theorem fs_of_list_asc : forall lo hi l, asc_in lo hi l -> fs_of_list l = l.
Proof.
  intros lo hi l Hl. unfold fs_of_list.
  apply (fs_fold_asc l [] lo lo hi); [lia|exact I|exact Hl].
Qed.
Print Assumptions fs_of_list_asc.

(* the emit_indices term of the generated fetch, verbatim *)
Definition g_emit_indices (mask_sources : list bool) (n : nat) : list Z :=
  if (forallb (fun b_ => b_) mask_sources) then
    (fs_of_list [0])
  else
    if (existsb (fun b_ => b_) mask_sources) then
      (fs_of_list (map (fun '(i, is_mask) => i) (filter (fun '(i, is_mask) => (negb is_mask)) (py_enumerate mask_sources))))
    else
      (fs_of_list (zrange (Z.of_nat n))).

Lemma g_inter_fetch_unfold {TL : Type} fuel (srcs : list TL) is_m
  (tlf : TL -> option Z -> option Z -> bool -> list ivl) a b rv :
  g_inter_fetch fuel srcs is_m tlf a b rv =
  if negb (nonempty srcs) then RDone []
  else
    let ei := g_emit_indices (map is_m srcs) (length srcs) in
    if rv then
      res_bind (g_inter_sweep fuel (map (fun s => g_negate_stream (tlf s a b true)) srcs) ei)
               (fun r => RDone (g_negate_stream r))
    else
      res_bind (g_inter_sweep fuel (map (fun s => tlf s a b false) srcs) ei) (fun r => RDone r).
Proof. reflexivity. Qed.

Lemma g_emit_indices_eq masks : g_emit_indices masks (length masks) = idxs_of_masks masks.
Proof.
  unfold g_emit_indices, idxs_of_masks.
  destruct (forallb (fun b => b) masks); [reflexivity|].
  destruct (existsb (fun b => b) masks).
  - assert (E : map (fun '(i, is_mask) => i)
                  (filter (fun '(i, is_mask) => negb is_mask) (py_enumerate masks))
                = map fst (filter (fun p : Z * bool => negb (snd p)) (py_enumerate masks))).
    { rewrite (filter_ext (fun '(i, is_mask) => negb is_mask) (fun p : Z * bool => negb (snd p)))
        by (intros [i m]; reflexivity).
      apply map_ext. intros [i m]. reflexivity. }
    rewrite E, py_enumerate_enumk.
    apply (fs_of_list_asc _ _ _ (enumk_asc _ masks 0%nat)).
  - unfold zrange. rewrite Nat2Z.id.
    apply (fs_of_list_asc _ _ _ (range_asc (length masks) 0%nat)).
Qed.

Lemma total_len_map_neg {TL : Type} (f : TL -> list ivl) : forall l,
  total_len (map (fun s => neg_stream (f s)) l) = total_len (map f l).
Proof.
  induction l as [|s r IH]; [reflexivity|].
  unfold total_len in *. cbn [map fold_right]. rewrite IH. unfold neg_stream. rewrite map_length.
  reflexivity.
Qed.

(* HEADLINE *)
Theorem g_inter_fetch_eq : forall (TL : Type) fuel (srcs : list TL) (is_m : TL -> bool)
    (tlf : TL -> option Z -> option Z -> bool -> list ivl) a b rv,
  (total_len (map (fun s => tlf s a b rv) srcs) < fuel)%nat ->
  g_inter_fetch fuel srcs is_m tlf a b rv =
  RDone (match srcs with
         | [] => []
         | _ => let sel := emit_sel (map is_m srcs) in
                if rv then neg_stream (inter_sweep (map (fun s => neg_stream (tlf s a b true)) srcs) sel)
                else inter_sweep (map (fun s => tlf s a b false) srcs) sel
         end).
Proof.
  intros TL fuel srcs is_m tlf a b rv Hfuel.
  rewrite g_inter_fetch_unfold.
  destruct srcs as [|s0 r]; [reflexivity|].
  cbn [nonempty negb]. remember (s0 :: r) as srcs eqn:Es.
  assert (Hne : map is_m srcs <> []) by (rewrite Es; discriminate).
  cbv zeta.
  replace (g_emit_indices (map is_m srcs) (length srcs)) with (idxs_of_masks (map is_m srcs))
    by (rewrite <- (map_length is_m srcs); symmetry; apply g_emit_indices_eq).
  assert (Hsel : forall (streams : list (list ivl)), length streams = length srcs ->
            inter_sweep streams (fun i => zmem (Z.of_nat i) (idxs_of_masks (map is_m srcs)))
            = inter_sweep streams (emit_sel (map is_m srcs))).
  { intros streams Hl. apply inter_sweep_sel_ext. intros i Hi.
    apply idxs_of_masks_sel. rewrite map_length. lia. }
  pose proof (idxs_of_masks_ok (map is_m srcs) Hne) as Hok. rewrite map_length in Hok.
  destruct rv.
  - rewrite (map_ext (fun s => g_negate_stream (tlf s a b true))
                     (fun s => neg_stream (tlf s a b true))
                     (fun s => g_negate_stream_eq _)).
    rewrite g_inter_sweep_eq.
    + cbn [res_bind]. rewrite g_negate_stream_eq, Hsel by apply map_length. reflexivity.
    + rewrite map_length. exact Hok.
    + rewrite total_len_map_neg. exact Hfuel.
  - rewrite g_inter_sweep_eq.
    + cbn [res_bind]. rewrite Hsel by apply map_length. reflexivity.
    + rewrite map_length. exact Hok.
    + exact Hfuel.
Qed.
Print Assumptions g_inter_fetch_eq.

(* the expression level: Intersection.fetch over operands fetched by the model is the model's
   fetch of the intersection *)
Corollary g_inter_fetch_is_model : forall env es a b rv fuel,
  (total_len (map (fun s => fetch env s a b rv) es) < fuel)%nat ->
  g_inter_fetch fuel es is_mask (fetch env) a b rv = RDone (fetch env (Inter es) a b rv).
Proof.
  intros env es a b rv fuel Hfuel.
  rewrite (g_inter_fetch_eq expr fuel es is_mask (fetch env) a b rv Hfuel).
  destruct es; reflexivity.
Qed.
Print Assumptions g_inter_fetch_is_model.

Definition ex_A : expr :=
  Stored [mkI (Some 12) (Some 20) (Rich 2); mkI (Some 0) (Some 10) (Rich 1)].
Definition ex_B : expr := Stored [mkI (Some 5) (Some 15) (Rich 3)].

(* forward run, two stored operands (ex_A stored out of order), both emit *)
Example g_inter_fetch_example_fwd :
  g_inter_fetch 4 [ex_A; ex_B] is_mask (fetch []) (Some 0) (Some 30) false
  = RDone [mkI (Some 5) (Some 10) (Rich 1); mkI (Some 5) (Some 10) (Rich 3);
           mkI (Some 12) (Some 15) (Rich 2); mkI (Some 12) (Some 15) (Rich 3)]
  /\ fetch [] (Inter [ex_A; ex_B]) (Some 0) (Some 30) false
     = [mkI (Some 5) (Some 10) (Rich 1); mkI (Some 5) (Some 10) (Rich 3);
        mkI (Some 12) (Some 15) (Rich 2); mkI (Some 12) (Some 15) (Rich 3)].
Proof. vm_compute. split; reflexivity. Qed.

(* reverse run: the sweep over the time-negated reverse streams, negated back *)
Example g_inter_fetch_example_rev :
  g_inter_fetch 4 [ex_A; ex_B] is_mask (fetch []) (Some 0) (Some 30) true
  = RDone [mkI (Some 12) (Some 15) (Rich 2); mkI (Some 12) (Some 15) (Rich 3);
           mkI (Some 5) (Some 10) (Rich 1); mkI (Some 5) (Some 10) (Rich 3)]
  /\ fetch [] (Inter [ex_A; ex_B]) (Some 0) (Some 30) true
     = [mkI (Some 12) (Some 15) (Rich 2); mkI (Some 12) (Some 15) (Rich 3);
        mkI (Some 5) (Some 10) (Rich 1); mkI (Some 5) (Some 10) (Rich 3)].
Proof. vm_compute. split; reflexivity. Qed.

(* reverse run with a mask operand (a complement): only the stored operand emits *)
Example g_inter_fetch_example_mask_rev :
  g_inter_fetch 5 [ex_A; Compl ex_B] is_mask (fetch []) (Some 0) (Some 30) true
  = RDone [mkI (Some 15) (Some 20) (Rich 2); mkI (Some 0) (Some 5) (Rich 1)].
Proof. vm_compute. reflexivity. Qed.

(* the same through the corollary: its fuel hypothesis holds of these instances *)
Example g_inter_fetch_example_thm :
  g_inter_fetch 4 [ex_A; ex_B] is_mask (fetch []) (Some 0) (Some 30) true
  = RDone (fetch [] (Inter [ex_A; ex_B]) (Some 0) (Some 30) true).
Proof. apply g_inter_fetch_is_model. vm_compute. lia. Qed.

(* the bound is sharp here: three events, fuel three is not enough, and the result is the explicit
   RFuel, never a truncated list; no operands: [] without fuel *)
Example g_inter_fetch_fuel :
  g_inter_fetch 3 [ex_A; ex_B] is_mask (fetch []) (Some 0) (Some 30) true = RFuel
  /\ g_inter_fetch 0 (@nil expr) is_mask (fetch []) None None true = RDone [].
Proof. vm_compute. split; reflexivity. Qed.
