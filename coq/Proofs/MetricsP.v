(* Proofs/MetricsP.v — proofs about Model/Metrics.v and Spec/MetricsSpec.v (property C13).
   1. counting instants: measure = count_in (covers evs)            measure_is_count
   2. additivity of measure, and over any chain of windows           measure_additive, chain_additive
   3. the model's _total_duration is the measure                      total_is_measure(_cached)
   4. windows produced by the stepping loops are contiguous           windows_contiguous
   5. ratios lie in [0,1]                                             ratio_in_unit *)
From CG Require Import Proofs.Defs Proofs.Stored Proofs.Compl Proofs.Canon Proofs.Clip.
From CG Require Import Spec.MetricsSpec.

(* ------------------------------------------------------------------------------------ *)
(* 1. counting *)

Lemma cnt_n_app f a n m :
  cnt_n f a (n + m) = cnt_n f a n + cnt_n f (a + Z.of_nat n) m.
Proof.
  revert a. induction n as [|n IH]; intros a.
  - simpl. f_equal. lia.
  - cbn [cnt_n Nat.add]. rewrite IH. replace (a + 1 + Z.of_nat n) with (a + Z.of_nat (S n)) by lia. lia.
Qed.

Lemma count_in_empty f a b : b <= a -> count_in f a b = 0.
Proof. intros H. unfold count_in. replace (Z.to_nat (b - a)) with O by lia. reflexivity. Qed.

Lemma count_in_split f a b c : a <= b <= c -> count_in f a c = count_in f a b + count_in f b c.
Proof.
  intros H. unfold count_in.
  replace (Z.to_nat (c - a)) with (Z.to_nat (b - a) + Z.to_nat (c - b))%nat by lia.
  rewrite cnt_n_app. do 2 f_equal. lia.
Qed.

Lemma cnt_n_ext f g a n :
  (forall t, a <= t < a + Z.of_nat n -> f t = g t) -> cnt_n f a n = cnt_n g a n.
Proof.
  revert a. induction n as [|n IH]; intros a H; [reflexivity|].
  cbn [cnt_n]. rewrite (H a) by lia. rewrite (IH (a + 1)); [reflexivity|].
  intros t Ht. apply H. lia.
Qed.

Lemma count_in_ext f g a b :
  (forall t, a <= t < b -> f t = g t) -> count_in f a b = count_in g a b.
Proof. intros H. unfold count_in. apply cnt_n_ext. intros t Ht. apply H. lia. Qed.

Lemma cnt_n_false a n : cnt_n (fun _ => false) a n = 0.
Proof. revert a. induction n as [|n IH]; intros a; simpl; [reflexivity|]. rewrite IH. reflexivity. Qed.

Lemma cnt_n_true a n : cnt_n (fun _ => true) a n = Z.of_nat n.
Proof. revert a. induction n as [|n IH]; intros a; [reflexivity|]. cbn [cnt_n]. rewrite IH. lia. Qed.

Lemma count_in_false f a b : (forall t, a <= t < b -> f t = false) -> count_in f a b = 0.
Proof.
  intros H. rewrite (count_in_ext f (fun _ => false)) by exact H. unfold count_in. apply cnt_n_false.
Qed.

Lemma count_in_true f a b : a <= b -> (forall t, a <= t < b -> f t = true) -> count_in f a b = b - a.
Proof.
  intros Hab H. rewrite (count_in_ext f (fun _ => true)) by exact H. unfold count_in.
  rewrite cnt_n_true. lia.
Qed.

Lemma count_in_nonneg f a b : 0 <= count_in f a b.
Proof.
  unfold count_in. generalize (Z.to_nat (b - a)). intros n. revert a.
  induction n as [|n IH]; intros a; cbn [cnt_n]; [lia|]. specialize (IH (a + 1)). destruct (f a); lia.
Qed.

Lemma cnt_n_le f a n : cnt_n f a n <= Z.of_nat n.
Proof.
  revert a. induction n as [|n IH]; intros a; cbn [cnt_n]; [lia|].
  specialize (IH (a + 1)). destruct (f a); lia.
Qed.

Lemma count_in_le_len f a b : a <= b -> count_in f a b <= b - a.
Proof.
  intros Hab. unfold count_in. pose proof (cnt_n_le f a (Z.to_nat (b - a))). lia.
Qed.

(* inclusion-exclusion *)
Lemma cnt_n_or_and f g a n :
  cnt_n (fun t => f t || g t) a n + cnt_n (fun t => f t && g t) a n = cnt_n f a n + cnt_n g a n.
Proof.
  revert a. induction n as [|n IH]; intros a; [reflexivity|].
  cbn [cnt_n]. specialize (IH (a + 1)). destruct (f a), (g a); cbn [orb andb]; lia.
Qed.

Lemma count_in_or_and f g a b :
  count_in (fun t => f t || g t) a b =
  count_in f a b + count_in g a b - count_in (fun t => f t && g t) a b.
Proof. unfold count_in. pose proof (cnt_n_or_and f g a (Z.to_nat (b - a))). lia. Qed.

(* restricting f to [lo,hi) inside [a,b) = counting over the intersection of the two windows *)
Lemma count_in_window f lo hi a b :
  count_in (fun t => ((lo <=? t) && (t <? hi)) && f t) a b = count_in f (Z.max a lo) (Z.min b hi).
Proof.
  destruct (Z_lt_le_dec (Z.max a lo) (Z.min b hi)) as [Hlt|Hge].
  - rewrite (count_in_split _ a (Z.max a lo) b) by lia.
    rewrite (count_in_split _ (Z.max a lo) (Z.min b hi) b) by lia.
    rewrite (count_in_false _ a (Z.max a lo)) by (intros t Ht; lia).
    rewrite (count_in_false _ (Z.min b hi) b) by (intros t Ht; lia).
    rewrite (count_in_ext _ f (Z.max a lo) (Z.min b hi)); [lia|].
    intros t Ht. replace ((lo <=? t) && (t <? hi)) with true by lia. reflexivity.
  - rewrite (count_in_empty f) by lia. apply count_in_false. intros t Ht. lia.
Qed.

Lemma count_in_inside x a b : count_in (inside x) a b = clip_len a b x.
Proof.
  unfold clip_len.
  rewrite (count_in_ext (inside x) (fun t => ((fstart x <=? t) && (t <? fend x)) && true))
    by (intros t _; unfold inside; rewrite andb_true_r; reflexivity).
  rewrite (count_in_window (fun _ => true)).
  destruct (Z_lt_le_dec (Z.max a (fstart x)) (Z.min b (fend x))) as [Hlt|Hge].
  - rewrite count_in_true by (first [lia | intros; reflexivity]). lia.
  - rewrite count_in_empty by lia. lia.
Qed.

(* the inclusion-exclusion measure counts the covered instants *)
Theorem measure_is_count : forall evs a b, measure evs a b = count_in (covers evs) a b.
Proof.
  induction evs as [|x r IH]; intros a b.
  - simpl. symmetry. apply count_in_false. reflexivity.
  - cbn [measure]. destruct (b <=? a) eqn:Hba.
    { symmetry. apply count_in_empty. lia. }
    rewrite !IH.
    rewrite (count_in_ext (covers (x :: r)) (fun t => inside x t || covers r t)) by reflexivity.
    rewrite count_in_or_and, count_in_inside.
    rewrite (count_in_ext (fun t => inside x t && covers r t)
                          (fun t => ((fstart x <=? t) && (t <? fend x)) && covers r t)) by reflexivity.
    rewrite count_in_window. reflexivity.
Qed.

Corollary measure_empty evs a b : b <= a -> measure evs a b = 0.
Proof. intros H. rewrite measure_is_count. apply count_in_empty, H. Qed.

Corollary measure_bounds evs a b : a <= b -> 0 <= measure evs a b <= b - a.
Proof.
  intros H. rewrite measure_is_count. split; [apply count_in_nonneg|apply count_in_le_len, H].
Qed.

(* measure depends on the covered instants only *)
Corollary measure_ext evs1 evs2 a b :
  (forall t, a <= t < b -> covers evs1 t = covers evs2 t) -> measure evs1 a b = measure evs2 a b.
Proof. intros H. rewrite !measure_is_count. apply count_in_ext, H. Qed.

(* ------------------------------------------------------------------------------------ *)
(* 2. additivity *)

Theorem measure_additive evs a b c :
  a <= b <= c -> measure evs a c = measure evs a b + measure evs b c.
Proof. intros H. rewrite !measure_is_count. apply count_in_split, H. Qed.

(* measure inside a window clamped to the query range [A,B) *)
Definition clampm (evs : list ivl) (A B s e : Z) : Z := measure evs (Z.max A s) (Z.min B e).

Lemma clampm_split evs A B s m e :
  s <= m <= e -> clampm evs A B s e = clampm evs A B s m + clampm evs A B m e.
Proof.
  intros H. unfold clampm.
  destruct (Z_le_gt_dec m A) as [H1|H1].
  - rewrite (measure_empty evs (Z.max A s) (Z.min B m)) by lia.
    replace (Z.max A s) with A by lia. replace (Z.max A m) with A by lia. lia.
  - destruct (Z_le_gt_dec B m) as [H2|H2].
    + rewrite (measure_empty evs (Z.max A m) (Z.min B e)) by lia.
      replace (Z.min B m) with B by lia. replace (Z.min B e) with B by lia. lia.
    + replace (Z.min B m) with m by lia. replace (Z.max A m) with m by lia.
      destruct (Z_le_gt_dec (Z.max A s) (Z.min B e)).
      * apply measure_additive. lia.
      * lia.
Qed.

(* a chain of windows: each begins where the previous one ended, none is reversed *)
Fixpoint chain (ws : list win) (s0 : Z) : Prop :=
  match ws with
  | [] => True
  | (_, s, e) :: r => s = s0 /\ s <= e /\ chain r e
  end.
Fixpoint chain_end (ws : list win) (s0 : Z) : Z :=
  match ws with
  | [] => s0
  | (_, _, e) :: r => chain_end r e
  end.

Lemma chain_end_ge ws : forall s0, chain ws s0 -> s0 <= chain_end ws s0.
Proof.
  induction ws as [|[[L s] e] r IH]; intros s0 H; simpl; [lia|].
  destruct H as (-> & Hse & Hr). specialize (IH e Hr). lia.
Qed.

Theorem chain_additive evs A B ws : forall s0,
  chain ws s0 ->
  sumZ (map (spec_total evs A B) ws) = clampm evs A B s0 (chain_end ws s0).
Proof.
  induction ws as [|[[L s] e] r IH]; intros s0 H.
  - simpl. unfold clampm. symmetry. apply measure_empty.
    (* an empty chain: the clamped window [max A s0, min B s0) is empty *) lia.
  - destruct H as (-> & Hse & Hr). cbn [map sumZ fold_right chain_end].
    change (fold_right Z.add 0 (map (spec_total evs A B) r)) with (sumZ (map (spec_total evs A B) r)).
    rewrite (IH e Hr).
    rewrite (clampm_split evs A B s0 e (chain_end r e)) by (pose proof (chain_end_ge r e Hr); lia).
    reflexivity.
Qed.

(* per-period totals of any chain of windows that reaches over the query range add up to the total
   over the range *)
Theorem C13_additivity_chain evs A B ws s0 :
  chain ws s0 -> s0 <= A -> B <= chain_end ws s0 -> A <= B ->
  sumZ (map (spec_total evs A B) ws) = measure evs A B.
Proof.
  intros Hc H1 H2 H3. rewrite (chain_additive evs A B ws s0 Hc). unfold clampm.
  replace (Z.max A s0) with A by lia. replace (Z.min B (chain_end ws s0)) with B by lia. reflexivity.
Qed.

(* ------------------------------------------------------------------------------------ *)
(* 3. the model's _total_duration is the measure *)
From CG Require Import Proofs.RefSpec.

Definition sum_len (a b : Z) (l : list ivl) : Z := sumZ (map (clip_len a b) l).

Lemma sum_len_cons a b x l : sum_len a b (x :: l) = clip_len a b x + sum_len a b l.
Proof. reflexivity. Qed.

(* the accumulation loop over the clipped stream: every element has finite bounds inside the window,
   none is skipped, each adds its clipped length *)
Lemma total_fold_clip ws we : NEG_INF < ws -> we < POS_INF -> forall l acc,
  fold_left (total_step ws we) (flat_map (clipW (Some ws) (Some we)) l) acc = acc + sum_len ws we l.
Proof.
  intros Hlo Hhi. induction l as [|x r IH]; intros acc.
  - simpl. unfold sum_len. simpl. lia.
  - cbn [flat_map]. rewrite fold_left_app, IH, sum_len_cons. unfold clipW, clip_len. cbv zeta.
    cbn [bnd_lo bnd_hi].
    destruct (Z.max (fstart x) ws <? Z.min (fend x) we) eqn:E.
    + cbn [fold_left]. unfold total_step, set_span. cbn [st en].
      unfold unS, unE.
      replace (Z.max (fstart x) ws =? NEG_INF) with false by lia.
      replace (Z.min (fend x) we =? POS_INF) with false by lia.
      replace (Z.max (Z.max (fstart x) ws) ws <? Z.min (Z.min (fend x) we) we) with true by lia.
      lia.
    + cbn [fold_left]. lia.
Qed.

(* pairwise disjoint pieces: lengths add up to the number of covered instants *)
Lemma sum_len_count a b l : disjoint_sorted l -> sum_len a b l = count_in (covers l) a b.
Proof.
  induction l as [|x r IH]; intros H.
  - unfold sum_len. simpl. symmetry. apply count_in_false. reflexivity.
  - destruct H as [Hx Hr]. rewrite sum_len_cons, (IH Hr).
    rewrite (count_in_ext (covers (x :: r)) (fun t => inside x t || covers r t)) by reflexivity.
    rewrite count_in_or_and, count_in_inside.
    rewrite (count_in_false (fun t => inside x t && covers r t)); [lia|].
    intros t _. destruct (inside x t) eqn:Ei; [|reflexivity]. cbn [andb].
    apply covers_false_iff. intros y Hy. specialize (Hx y Hy). unfold inside in *. lia.
Qed.

Lemma covers_filter (P : ivl -> bool) t : forall l,
  (forall x, In x l -> inside x t = true -> P x = true) -> covers (filter P l) t = covers l t.
Proof.
  induction l as [|x r IH]; intros H; [reflexivity|].
  cbn [filter]. rewrite covers_cons. destruct (P x) eqn:E.
  - rewrite covers_cons, IH; [reflexivity|]. intros y Hy. apply H. right; exact Hy.
  - rewrite IH by (intros y Hy; apply H; right; exact Hy).
    destruct (inside x t) eqn:Ei; [|reflexivity].
    rewrite (H x (or_introl eq_refl) Ei) in E. discriminate.
Qed.

(* what a stored timeline hands to the sweeps covers the same instants of the window *)
Lemma covers_fetch_static evs ws we t : ws <= t < we ->
  covers (fetch_static (sl_build evs) (Some ws) (Some we) false) t = covers evs t.
Proof.
  intros Ht. rewrite (proj1 (fetch_static_spec _ (Some ws) (Some we) (sl_build_sorted evs))).
  rewrite covers_filter; [apply sl_build_covers|].
  intros x _ Hi. unfold in_range, inside in *. lia.
Qed.

Lemma fetch_static_wf evs a b :
  Forall wf_ivl evs -> Forall wf_ivl (fetch_static (sl_build evs) a b false).
Proof.
  intros H. apply Forall_forall. intros x Hx.
  apply (fetch_static_in _ a b false x (sl_build_sorted evs)) in Hx. destruct Hx as [Hx _].
  apply (proj1 (sl_build_in evs x)) in Hx. rewrite Forall_forall in H. apply H, Hx.
Qed.

Lemma fetch_static_sorted_start evs a b : sorted_start (fetch_static (sl_build evs) a b false).
Proof. apply sorted_key_sorted_start, fetch_static_sorted, sl_build_sorted. Qed.

(* flatten(tl)[ws:we] for a stored timeline, as the sweeps the code runs *)
Lemma tslice_flatten_stored evs ws we : ws <= we ->
  tslice (flatten_ (Stored evs)) ws we =
  inter_sweep [compl_sweep (compl_sweep (fetch_static (sl_build evs) (Some ws) (Some we) false)
                                        (Some ws) (Some we)) (Some ws) (Some we);
               [mkI (Some ws) (Some we) Plain]] (emit_sel [true; true]).
Proof.
  intros H. unfold tslice, slice, norm_bounds. replace (ws >? we) with false by lia. reflexivity.
Qed.

(* tl[ws:we] for a stored timeline *)
Lemma tslice_stored evs ws we : ws <= we ->
  tslice (Stored evs) ws we =
  inter_sweep [fetch_static (sl_build evs) (Some ws) (Some we) false; [mkI (Some ws) (Some we) Plain]]
              (emit_sel [false; true]).
Proof.
  intros H. unfold tslice, slice, norm_bounds. replace (ws >? we) with false by lia. reflexivity.
Qed.

Lemma wf_win_some ws we : NEG_INF < ws -> ws < we -> we < POS_INF -> wf_win (Some ws) (Some we).
Proof.
  intros H1 H2 H3. unfold wf_win. cbn [bnd_lo bnd_hi]. repeat split; try lia; intros z E; inversion E; lia.
Qed.

(* _total_duration(tl, ws, we) of a stored timeline = number of instants of [ws,we) covered by
   some event *)
Theorem total_is_measure evs ws we :
  Forall wf_ivl evs -> NEG_INF < ws -> ws < we -> we < POS_INF ->
  total_duration_ (Stored evs) ws we = measure evs ws we.
Proof.
  intros Hwf H1 H2 H3. unfold total_duration_.
  rewrite tslice_flatten_stored by lia.
  set (a := Some ws). set (b := Some we).
  set (xs := fetch_static (sl_build evs) a b false).
  assert (Hw : wf_win a b) by (apply wf_win_some; assumption).
  assert (Wx : Forall wf_ivl xs) by (apply fetch_static_wf, Hwf).
  assert (Sx : sorted_start xs) by apply fetch_static_sorted_start.
  destruct (compl_out_wf_sorted xs a b Hw Wx Sx) as [W1 S1].
  destruct (compl_out_wf_sorted _ a b Hw W1 S1) as [W2 S2].
  pose proof (compl_canonP _ a b Hw W1 S1) as [_ Sep].
  rewrite (clip_sweep_masks true _ a b S2).
  subst a b. rewrite total_fold_clip by assumption.
  rewrite sum_len_count by (apply separatedP_disjoint, Sep).
  rewrite measure_is_count. rewrite Z.add_0_l.
  apply count_in_ext. intros t Ht.
  rewrite (flatten_cover xs (Some ws) (Some we) t Hw Wx Sx) by (cbn [bnd_lo bnd_hi]; lia).
  apply covers_fetch_static, Ht.
Qed.

(* the clipped copies handed to make_timeline are well formed *)
Lemma clip_all_wf a b l : Forall wf_ivl l -> wf_win a b -> Forall wf_ivl (flat_map (clipW a b) l).
Proof.
  intros H Hw. apply Forall_forall. intros g Hg. apply in_flat_map in Hg as [i [Hi Hg]].
  apply clipW_shape in Hg as (_ & E1 & E2 & Hlt & _).
  rewrite Forall_forall in H. destruct (H i Hi) as (A1 & A2 & A3 & A4 & A5).
  pose proof (wf_win_bounds a b Hw) as [B1 B2]. destruct Hw as (_ & _ & B3).
  unfold wf_ivl. lia.
Qed.

(* _windowed_agg: the per-period total computed on the materialised slice tl[A:B] is the measure of
   the source's coverage inside the period clipped to the query range *)
Theorem total_is_measure_cached evs A B s e :
  Forall wf_ivl evs -> NEG_INF < A -> A < B -> B < POS_INF ->
  NEG_INF < s -> s < e -> e < POS_INF ->
  total_duration_ (cached_timeline (Stored evs) A B) s e = measure evs (Z.max A s) (Z.min B e).
Proof.
  intros Hwf A1 A2 A3 S1 S2 S3. unfold cached_timeline.
  rewrite tslice_stored by lia.
  rewrite (clip_sweep_masks false _ (Some A) (Some B)) by apply fetch_static_sorted_start.
  assert (Hw : wf_win (Some A) (Some B)) by (apply wf_win_some; assumption).
  rewrite total_is_measure; try assumption.
  2:{ apply clip_all_wf; [apply fetch_static_wf, Hwf|exact Hw]. }
  rewrite !measure_is_count.
  replace (Z.max A s) with (Z.max s A) by lia. replace (Z.min B e) with (Z.min e B) by lia.
  rewrite <- (count_in_window (covers evs) A B s e).
  apply count_in_ext. intros t Ht. rewrite covers_clipW. unfold inw. cbn [bnd_lo bnd_hi].
  destruct ((A <=? t) && (t <? B)) eqn:E.
  - rewrite andb_true_r, andb_true_l. apply covers_fetch_static. lia.
  - rewrite andb_false_r. reflexivity.
Qed.

(* ------------------------------------------------------------------------------------ *)
(* 4. windows of the stepping loops *)

(* each window ends where the next one begins *)
Fixpoint contigP (ws : list win) : Prop :=
  match ws with
  | [] => True
  | (_, _, e) :: r => match r with [] => True | (_, s', _) :: _ => e = s' end /\ contigP r
  end.

Lemma win_loop_head fuel z next c ew ws :
  win_loop fuel z next c ew = Some ws ->
  match ws with
  | [] => ew <= c
  | (L, s, e) :: r => L = c /\ s = ts0 z c /\ e = ts0 z (next c) /\ c < ew /\
                      exists fuel', win_loop fuel' z next (next c) ew = Some r
  end.
Proof.
  destruct fuel as [|f]; cbn [win_loop]; destruct (c <? ew) eqn:E; try discriminate.
  - intros H; inversion H; subst. lia.
  - destruct (win_loop f z next (next c) ew) as [r|] eqn:Er; [|discriminate].
    intros H; inversion H; subst. repeat split; try lia. exists f. exact Er.
  - intros H; inversion H; subst. lia.
Qed.

Lemma win_loop_contig z next ew : forall ws fuel c,
  win_loop fuel z next c ew = Some ws -> contigP ws.
Proof.
  induction ws as [|[[L s] e] r IH]; intros fuel c H; [exact I|].
  apply win_loop_head in H. destruct H as (_ & _ & He & _ & fuel' & Hr).
  cbn [contigP]. split; [|eapply IH, Hr].
  destruct r as [|[[L' s'] e'] r']; [exact I|].
  apply win_loop_head in Hr. destruct Hr as (_ & Hs' & _). congruence.
Qed.

(* Period windows are contiguous: for every zone table, period and range (no hypothesis on the zone:
   each end and the next start are the same timestamp of the same wall clock value) *)
Theorem windows_contiguous z a b p ws :
  period_windows_dt z a b p = Some ws -> contigP ws.
Proof.
  unfold period_windows_dt. destruct (a >=? b); [intros H; inversion H; exact I|].
  destruct p; try (apply win_loop_contig).
  intros H; inversion H. cbn. auto.
Qed.

(* The loop under a zone hypothesis stated on the wall clock values the loop visits.
   [P] holds of the period boundaries (the values of [current]); for those:
     G1  if the local clock at instant t shows at least L, then L's timestamp is at most t
     G2  if the local clock at the range end b shows at most L, then b is at most L's timestamp
     G3  the local clock at L's timestamp shows at least L
   (Proofs below derive them from a condition on the transition table.) *)
Section Loop.
  Variable z : zone.
  Variable P : Z -> Prop.
  Variable next : Z -> Z.
  Hypothesis P_next : forall c, P c -> P (next c).
  Hypothesis next_gt : forall c, P c -> c < next c.
  Hypothesis G1 : forall L t, P L -> L <= utc_to_wall z t -> ts0 z L <= t.
  Hypothesis G3 : forall L, P L -> L <= utc_to_wall z (ts0 z L).

  Lemma ts0_mono c c' : P c -> P c' -> c <= c' -> ts0 z c <= ts0 z c'.
  Proof. intros Hc Hc' Hle. apply G1; [exact Hc|]. pose proof (G3 c' Hc'). lia. Qed.

  (* every window runs forwards, and the list is a chain from the first timestamp to the last *)
  Lemma win_loop_chain ew : forall ws fuel c,
    P c -> win_loop fuel z next c ew = Some ws ->
    chain ws (ts0 z c) /\ exists cN, P cN /\ ew <= cN /\ c <= cN /\ chain_end ws (ts0 z c) = ts0 z cN.
  Proof.
    induction ws as [|[[L s] e] r IH]; intros fuel c Hc H.
    - apply win_loop_head in H. split; [exact I|]. exists c. repeat split; try lia; assumption.
    - apply win_loop_head in H. destruct H as (-> & -> & -> & Hlt & fuel' & Hr).
      destruct (IH fuel' (next c) (P_next c Hc) Hr) as (Hch & cN & PN & H1 & H2 & H3).
      split.
      + cbn [chain]. repeat split; [|exact Hch].
        apply ts0_mono; [exact Hc|apply P_next, Hc|pose proof (next_gt c Hc); lia].
      + exists cN. cbn [chain_end]. pose proof (next_gt c Hc). repeat split; try lia; assumption.
  Qed.

  (* the windows reach over the query range *)
  Theorem win_loop_cover a b c0 fuel ws :
    P c0 -> c0 <= utc_to_wall z a ->
    (forall L, P L -> utc_to_wall z b <= L -> b <= ts0 z L) ->               (* G2 at the range end *)
    win_loop fuel z next c0 (utc_to_wall z b) = Some ws ->
    chain ws (ts0 z c0) /\ ts0 z c0 <= a /\ b <= chain_end ws (ts0 z c0).
  Proof.
    intros P0 Hle G2 H. destruct (win_loop_chain _ ws fuel c0 P0 H) as (Hch & cN & PN & H1 & H2 & H3).
    split; [exact Hch|]. split; [apply G1; assumption|]. rewrite H3. apply G2; assumption.
  Qed.
End Loop.

(* hence, with part 2: per-period totals of the model's windows add up to the total of the range *)
Theorem loop_totals_add_up z (P : Z -> Prop) next evs a b c0 fuel ws :
  (forall c, P c -> P (next c)) -> (forall c, P c -> c < next c) ->
  (forall L t, P L -> L <= utc_to_wall z t -> ts0 z L <= t) ->
  (forall L, P L -> L <= utc_to_wall z (ts0 z L)) ->
  (forall L, P L -> utc_to_wall z b <= L -> b <= ts0 z L) ->
  P c0 -> c0 <= utc_to_wall z a -> a <= b ->
  win_loop fuel z next c0 (utc_to_wall z b) = Some ws ->
  sumZ (map (spec_total evs a b) ws) = measure evs a b.
Proof.
  intros Pn Ngt G1 G3 G2 P0 Hle Hab H.
  destruct (win_loop_cover z P next Pn Ngt G1 G3 a b c0 fuel ws P0 Hle G2 H) as (Hch & H1 & H2).
  eapply C13_additivity_chain; eauto.
Qed.

(* ------------------------------------------------------------------------------------ *)
(* 5. ratios *)

Theorem ratio_in_unit evs a b w : a <= b -> rat_in_unit (ratio_of evs a b w) = true.
Proof.
  intros Hab. unfold ratio_of, rat_in_unit. destruct w as [[L s] e]. unfold wspan, spec_total, wlo, whi.
  destruct (e - s <=? 0) eqn:E; cbn [fst snd]; [reflexivity|].
  destruct (Z_le_gt_dec (Z.max a s) (Z.min b e)) as [Hle|Hgt].
  - pose proof (measure_bounds evs _ _ Hle). lia.
  - rewrite measure_empty by lia. lia.
Qed.

(* the model's per-window ratio (numerator, denominator) lies in [0,1] *)
Theorem model_ratio_in_unit evs A B s e :
  Forall wf_ivl evs -> NEG_INF < A -> A < B -> B < POS_INF -> NEG_INF < s -> e < POS_INF ->
  let q := ratio_win (cached_timeline (Stored evs) A B) s e in
  0 <= fst q <= snd q /\ 0 < snd q.
Proof.
  intros Hwf A1 A2 A3 S1 S3. unfold ratio_win. destruct (e - s <=? 0) eqn:E; cbn [fst snd]; [lia|].
  rewrite total_is_measure_cached by (try assumption; lia).
  destruct (Z_le_gt_dec (Z.max A s) (Z.min B e)) as [Hle|Hgt].
  - pose proof (measure_bounds evs _ _ Hle). lia.
  - rewrite measure_empty by lia. lia.
Qed.

(* sums of numerators and denominators of ratios in [0,1] give a ratio in [0,1] (group_by combiner) *)
Lemma zsum_fold l : forall acc, fold_left Z.add l acc = acc + sumZ l.
Proof. induction l as [|x r IH]; intros acc; cbn [fold_left sumZ fold_right]; [lia|]. rewrite IH. unfold sumZ. lia. Qed.

Theorem combine_ratios_in_unit ts :
  Forall (fun q => 0 <= fst q <= snd q) ts ->
  let q := combine_ratios ts in 0 <= fst q <= snd q /\ 0 < snd q.
Proof.
  intros H. unfold combine_ratios, zsum. rewrite !zsum_fold, !Z.add_0_l.
  assert (B : 0 <= sumZ (map fst ts) <= sumZ (map snd ts)).
  { induction H as [|q r Hq _ IH]; cbn [map sumZ fold_right]; [lia|]. unfold sumZ in IH. lia. }
  destruct (sumZ (map snd ts) >? 0) eqn:E; cbn [fst snd]; lia.
Qed.

(* ------------------------------------------------------------------------------------ *)
(* 6. the zone hypothesis, on the transition table.
   A transition (T, o) after offset cur sets the wall clock from T + cur to T + o: the stretch between
   lo = T + min cur o and hi = T + max cur o is skipped (o > cur) or shown twice (o < cur).
   zone_wf u z: transitions strictly ascending, stretches in ascending order and not overlapping,
   offsets below one day, and NO MULTIPLE OF u STRICTLY INSIDE A STRETCH (u = 3600 for hourly
   stepping, 86400 for day / week / month / year).  "Every shift at most the stepping unit" is neither
   necessary nor sufficient: see hourly_pacific_chatham_refuted in Props/C13.v. *)

Definition mult_inside (u lo hi : Z) : bool := (lo / u + 1) * u <? hi.

Fixpoint tab_ok (u cur ph pT : Z) (tr : list (Z * Z)) : bool :=
  match tr with
  | [] => true
  | (T, o) :: r =>
    let lo := T + Z.min cur o in
    let hi := T + Z.max cur o in
    (pT <? T) && (ph <=? lo) && negb (mult_inside u lo hi) && (Z.abs o <? 86400) && tab_ok u o hi T r
  end.

Definition zone_wf (u : Z) (z : zone) : bool :=
  (0 <? u) && (Z.abs (off0 z) <? 86400) &&
  match trans z with
  | [] => true
  | (T, o) :: _ => tab_ok u (off0 z) (T + Z.min (off0 z) o) (T - 1) (trans z)
  end.

Lemma no_mult_inside u lo hi L :
  0 < u -> mult_inside u lo hi = false -> L mod u = 0 -> lo < L -> L < hi -> False.
Proof.
  intros Hu Hm HL H1 H2. unfold mult_inside in Hm.
  assert (E : L = u * (L / u)) by (pose proof (Z.div_mod L u); lia).
  assert (lo / u < L / u) by (apply Z.div_lt_upper_bound; lia).
  assert ((lo / u + 1) * u <= (L / u) * u) by (apply Z.mul_le_mono_nonneg_r; lia).
  lia.
Qed.

Section Table.
  Variable u : Z.
  Hypothesis u_pos : 0 < u.

  (* C: the timestamp of a wall clock value past the previous stretch is past the previous transition *)
  Lemma tab_ts_lower : forall tr cur ph pT L,
    tab_ok u cur ph pT tr = true -> ph <= L -> ph - cur <= L - wall_offset_go cur tr L false.
  Proof.
    induction tr as [|[T o] r IH]; intros cur ph pT L H HL; cbn [wall_offset_go]; [lia|].
    cbn [tab_ok] in H. cbv zeta in H.
    apply andb_prop in H as [H H5]. apply andb_prop in H as [H H4].
    apply andb_prop in H as [H H3]. apply andb_prop in H as [H1 H2].
    destruct (T + Z.max cur o <=? L) eqn:E.
    - specialize (IH o (T + Z.max cur o) T L H5). lia.
    - lia.
  Qed.

  (* D: the wall clock at an instant past transition pT stays above what precedes the next stretch *)
  Lemma tab_wall_lower : forall tr c ph pT t X,
    tab_ok u c ph pT tr = true -> X <= t + c -> X <= ph -> X <= t + offset_at_go c tr t.
  Proof.
    induction tr as [|[T o] r IH]; intros c ph pT t X H H1 H2; cbn [offset_at_go]; [lia|].
    cbn [tab_ok] in H. cbv zeta in H.
    apply andb_prop in H as [H H5]. apply andb_prop in H as [H H4].
    apply andb_prop in H as [H H3]. apply andb_prop in H as [Ha Hb].
    destruct (T <=? t) eqn:E; [|lia].
    apply (IH o (T + Z.max c o) T t X H5); lia.
  Qed.

  Lemma offset_at_go_before c tr pT ph t :
    tab_ok u c ph pT tr = true -> t <= pT -> offset_at_go c tr t = c.
  Proof.
    destruct tr as [|[T o] r]; [reflexivity|]. cbn [tab_ok offset_at_go]. cbv zeta. intros H Ht.
    apply andb_prop in H as [H _]. apply andb_prop in H as [H _].
    apply andb_prop in H as [H _]. apply andb_prop in H as [Ha _].
    replace (T <=? t) with false by lia. reflexivity.
  Qed.

  (* G1 *)
  Lemma tab_G1 : forall tr cur ph pT L t,
    tab_ok u cur ph pT tr = true -> L mod u = 0 ->
    L <= t + offset_at_go cur tr t -> L - wall_offset_go cur tr L false <= t.
  Proof.
    induction tr as [|[T o] r IH]; intros cur ph pT L t H HL Hw; cbn [wall_offset_go offset_at_go] in *; [lia|].
    pose proof H as H0. cbn [tab_ok] in H. cbv zeta in H.
    apply andb_prop in H as [H H5]. apply andb_prop in H as [H H4].
    apply andb_prop in H as [H H3]. apply andb_prop in H as [Ha Hb].
    apply negb_true_iff in H3.
    destruct (T <=? t) eqn:Et.
    - destruct (T + Z.max cur o <=? L) eqn:El.
      + eapply IH; eauto.
      + destruct (Z_le_gt_dec o cur) as [Hf|Hg]; [lia|].
        destruct (Z_le_gt_dec L (T + Z.min cur o)); [lia|].
        exfalso. eapply (no_mult_inside u _ _ L u_pos H3 HL); lia.
    - replace (T + Z.max cur o <=? L) with false by lia. lia.
  Qed.

  (* G3 *)
  Lemma tab_G3 : forall tr cur ph pT L,
    tab_ok u cur ph pT tr = true -> L mod u = 0 ->
    let ts := L - wall_offset_go cur tr L false in L <= ts + offset_at_go cur tr ts.
  Proof.
    induction tr as [|[T o] r IH]; intros cur ph pT L H HL; cbv zeta; cbn [wall_offset_go]; [cbn; lia|].
    pose proof H as H0. cbn [tab_ok] in H. cbv zeta in H.
    apply andb_prop in H as [H H5]. apply andb_prop in H as [H H4].
    apply andb_prop in H as [H H3]. apply andb_prop in H as [Ha Hb].
    apply negb_true_iff in H3.
    destruct (T + Z.max cur o <=? L) eqn:El.
    - pose proof (tab_ts_lower r o (T + Z.max cur o) T L H5 ltac:(lia)) as Hlow.
      cbn [offset_at_go]. replace (T <=? L - wall_offset_go o r L false) with true by lia.
      apply (IH o _ T L H5 HL).
    - cbn [offset_at_go]. destruct (T <=? L - cur) eqn:Et; [|lia].
      (* L lies in [T + cur, T + max cur o): a skipped stretch; it can only be its beginning *)
      destruct (Z_le_gt_dec L (T + Z.min cur o)) as [Hle|Hgt].
      + assert (L - cur = T) by lia.
        replace (L - cur) with T by lia.
        rewrite (offset_at_go_before o r T _ T H5) by lia. lia.
      + exfalso. eapply (no_mult_inside u _ _ L u_pos H3 HL); lia.
  Qed.

  (* G2, strict part: an instant whose wall clock is below L comes before L's timestamp *)
  Lemma tab_G2 : forall tr cur ph pT L t,
    tab_ok u cur ph pT tr = true -> L mod u = 0 ->
    t + offset_at_go cur tr t < L -> t < L - wall_offset_go cur tr L false.
  Proof.
    induction tr as [|[T o] r IH]; intros cur ph pT L t H HL Hw; cbn [wall_offset_go offset_at_go] in *; [lia|].
    pose proof H as H0. cbn [tab_ok] in H. cbv zeta in H.
    apply andb_prop in H as [H H5]. apply andb_prop in H as [H H4].
    apply andb_prop in H as [H H3]. apply andb_prop in H as [Ha Hb].
    apply negb_true_iff in H3.
    destruct (T <=? t) eqn:Et.
    - destruct (T + Z.max cur o <=? L) eqn:El.
      + eapply IH; eauto.
      + exfalso.
        pose proof (tab_wall_lower r o (T + Z.max cur o) T t (T + Z.min cur o) H5 ltac:(lia) ltac:(lia)).
        eapply (no_mult_inside u _ _ L u_pos H3 HL); lia.
    - destruct (T + Z.max cur o <=? L) eqn:El; [|lia].
      pose proof (tab_ts_lower r o (T + Z.max cur o) T L H5 ltac:(lia)). lia.
  Qed.
End Table.

(* the three facts the loop theorems need, for a zone whose table is well formed for unit u *)
Theorem zone_wf_G1 u z L t :
  zone_wf u z = true -> L mod u = 0 -> L <= utc_to_wall z t -> ts0 z L <= t.
Proof.
  unfold zone_wf, utc_to_wall, ts0, wall_to_utc, wall_offset, offset_at. intros H HL Hw.
  apply andb_prop in H as [H H2]. apply andb_prop in H as [Hu _]. assert (0 < u) by lia.
  destruct (trans z) as [|[T o] r] eqn:E; [cbn in *; lia|].
  eapply tab_G1; eauto.
Qed.

Theorem zone_wf_G3 u z L :
  zone_wf u z = true -> L mod u = 0 -> L <= utc_to_wall z (ts0 z L).
Proof.
  unfold zone_wf, utc_to_wall, ts0, wall_to_utc, wall_offset, offset_at. intros H HL.
  apply andb_prop in H as [H H2]. apply andb_prop in H as [Hu _]. assert (0 < u) by lia.
  destruct (trans z) as [|[T o] r] eqn:E; [cbn; lia|].
  eapply (tab_G3 u ltac:(assumption)); eauto.
Qed.

Theorem zone_wf_G2 u z L t :
  zone_wf u z = true -> L mod u = 0 -> utc_to_wall z t < L -> t < ts0 z L.
Proof.
  unfold zone_wf, utc_to_wall, ts0, wall_to_utc, wall_offset, offset_at. intros H HL Hw.
  apply andb_prop in H as [H H2]. apply andb_prop in H as [Hu _]. assert (0 < u) by lia.
  destruct (trans z) as [|[T o] r] eqn:E; [cbn in *; lia|].
  eapply tab_G2; eauto.
Qed.

(* G2 at the range end: b must not be the second showing of a period boundary
   (fold_of z b = true with a boundary on the clock is finding M3) *)
Corollary zone_wf_G2_end u z b L :
  zone_wf u z = true -> L mod u = 0 ->
  (utc_to_wall z b mod u = 0 -> fold_of z b = false) ->
  utc_to_wall z b <= L -> b <= ts0 z L.
Proof.
  intros Hz HL Hf Hle. destruct (Z_lt_le_dec (utc_to_wall z b) L) as [Hlt|Hge].
  - pose proof (zone_wf_G2 u z L b Hz HL Hlt). lia.
  - assert (E : utc_to_wall z b = L) by lia. rewrite E in Hf. specialize (Hf HL).
    unfold fold_of in Hf. apply negb_false_iff in Hf. rewrite E in Hf. unfold ts0. lia.
Qed.

(* ------------------------------------------------------------------------------------ *)
(* 7. the stepping loops of _period_windows_with_dt, period by period *)
From CG Require Import Proofs.MetricsCivil.
Ltac Zify.zify_post_hook ::= Z.to_euclidean_division_equations.   (* lia: division and modulo by constants *)

Definition unit_of_period (p : period) : Z := match p with PHour => 3600 | _ => DAY end.

Lemma dt_ymd_wall w : dt_ymd (w_year w) (w_month w) (w_day w) = wall_day w * DAY.
Proof. unfold dt_ymd, w_year, w_month, w_day, mk_wall. rewrite civil_roundtrip. lia. Qed.

Lemma wall_day_mul d : wall_day (d * DAY) = d.
Proof. unfold wall_day, DAY. lia. Qed.

Lemma day_multiple c : c mod DAY = 0 -> c = wall_day c * DAY.
Proof. unfold wall_day, DAY. lia. Qed.

(* first value of [current]: a period boundary at or before the wall clock of the range start *)
Lemma snap_hour w :
  let c := dt_ymdh (w_year w) (w_month w) (w_day w) (w_hour w) in c mod 3600 = 0 /\ c <= w.
Proof.
  cbv zeta. unfold dt_ymdh, w_year, w_month, w_day, w_hour, mk_wall. rewrite civil_roundtrip.
  unfold wall_day, wall_sod, DAY. lia.
Qed.
Lemma snap_day w : let c := dt_ymd (w_year w) (w_month w) (w_day w) in c mod DAY = 0 /\ c <= w.
Proof. cbv zeta. rewrite dt_ymd_wall. unfold wall_day, DAY. lia. Qed.
Lemma snap_week w :
  let c := dt_ymd (w_year w) (w_month w) (w_day w) - weekday (wall_day w) * DAY in c mod DAY = 0 /\ c <= w.
Proof. cbv zeta. rewrite dt_ymd_wall. unfold weekday, wall_day, DAY. lia. Qed.
Lemma snap_month w : let c := dt_ymd (w_year w) (w_month w) 1 in c mod DAY = 0 /\ c <= w.
Proof.
  cbv zeta. unfold dt_ymd, w_year, w_month, year_of, month_of, mk_wall.
  pose proof (civil_facts (wall_day w)) as F. destruct (civil_from_days (wall_day w)) as [[y m] dd].
  cbn [fst snd]. destruct F as (_ & _ & _ & _ & _ & F & _). unfold wall_day, DAY in *. lia.
Qed.
Lemma snap_year w : let c := dt_ymd (w_year w) 1 1 in c mod DAY = 0 /\ c <= w.
Proof.
  cbv zeta. unfold dt_ymd, w_year, year_of, mk_wall.
  pose proof (civil_facts (wall_day w)) as F. destruct (civil_from_days (wall_day w)) as [[y m] dd].
  cbn [fst snd]. destruct F as (_ & _ & _ & _ & _ & _ & F). unfold wall_day, DAY in *. lia.
Qed.

(* every step lands on a boundary again and moves forwards *)
Lemma step_hour c : c mod 3600 = 0 -> next_hour c mod 3600 = 0 /\ c < next_hour c.
Proof. unfold next_hour. lia. Qed.
Lemma step_day c : c mod DAY = 0 -> next_day c mod DAY = 0 /\ c < next_day c.
Proof. unfold next_day, DAY. lia. Qed.
Lemma step_week c : c mod DAY = 0 -> next_week c mod DAY = 0 /\ c < next_week c.
Proof. unfold next_week, DAY. lia. Qed.
Lemma step_month c : c mod DAY = 0 -> next_month c mod DAY = 0 /\ c < next_month c.
Proof.
  intros Hc. pose proof (day_multiple c Hc) as Ec.
  unfold next_month, dt_ymd, w_year, w_month, year_of, month_of, mk_wall.
  set (d := wall_day c) in *.
  pose proof (civil_facts d) as F. destruct (civil_from_days d) as [[y m] dd].
  cbn [fst snd]. destruct F as (_ & _ & _ & F & _). unfold next_month_start in F.
  destruct (m =? 12); unfold DAY in *; lia.
Qed.
Lemma step_year c : c mod DAY = 0 -> next_year c mod DAY = 0 /\ c < next_year c.
Proof.
  intros Hc. pose proof (day_multiple c Hc) as Ec.
  unfold next_year, dt_ymd, w_year, year_of, mk_wall.
  set (d := wall_day c) in *.
  pose proof (civil_facts d) as F. destruct (civil_from_days d) as [[y m] dd].
  cbn [fst snd]. destruct F as (_ & _ & _ & _ & F & _). unfold DAY in *. lia.
Qed.

(* one stepping loop under the zone hypothesis *)
Lemma loop_cover u z next a b c0 fuel ws :
  zone_wf u z = true ->
  (forall c, c mod u = 0 -> next c mod u = 0 /\ c < next c) ->
  (utc_to_wall z b mod u = 0 -> fold_of z b = false) ->
  c0 mod u = 0 /\ c0 <= utc_to_wall z a ->
  win_loop fuel z next c0 (utc_to_wall z b) = Some ws ->
  exists s0, chain ws s0 /\ s0 <= a /\ b <= chain_end ws s0.
Proof.
  intros Hz Hstep Hend [P0 Hle] H. exists (ts0 z c0).
  apply (win_loop_cover z (fun c => c mod u = 0) next
           (fun c Hc => proj1 (Hstep c Hc)) (fun c Hc => proj2 (Hstep c Hc))
           (fun L t HL => zone_wf_G1 u z L t Hz HL) (fun L HL => zone_wf_G3 u z L Hz HL)
           a b c0 fuel ws P0 Hle); [|exact H].
  intros L HL. apply (zone_wf_G2_end u z b L Hz HL Hend).
Qed.

(* Period windows form a chain of forward-running windows reaching over the query range.
   Hypotheses: the zone table is well formed for the stepping unit (hour: 3600, otherwise 86400), and
   the range end is not the second showing of a period boundary (finding M3).
   The conclusion is about the windows the model computes when its loop does not run out of fuel
   (out-of-fuel is a distinguishable result that the correspondence would flag). *)
Theorem windows_cover_range z a b p ws :
  zone_wf (unit_of_period p) z = true -> a < b ->
  (utc_to_wall z b mod unit_of_period p = 0 -> fold_of z b = false) ->
  period_windows_dt z a b p = Some ws ->
  exists s0, chain ws s0 /\ s0 <= a /\ b <= chain_end ws s0.
Proof.
  intros Hz Hab Hend. unfold period_windows_dt. replace (a >=? b) with false by lia.
  destruct p; cbn [unit_of_period] in *.
  - apply loop_cover with (u := 3600); auto using step_hour, snap_hour.
  - apply loop_cover with (u := DAY); auto using step_day, snap_day.
  - apply loop_cover with (u := DAY); auto using step_week, snap_week.
  - apply loop_cover with (u := DAY); auto using step_month, snap_month.
  - apply loop_cover with (u := DAY); auto using step_year, snap_year.
  - intros H; inversion H; subst. exists a. cbn [chain chain_end]. repeat split; lia.
Qed.

(* ... hence the per-period measures add up to the measure of the range *)
Theorem C13_additivity_windows z a b p ws evs :
  zone_wf (unit_of_period p) z = true -> a < b ->
  (utc_to_wall z b mod unit_of_period p = 0 -> fold_of z b = false) ->
  period_windows_dt z a b p = Some ws ->
  sumZ (map (spec_total evs a b) ws) = measure evs a b.
Proof.
  intros Hz Hab Hend H. destruct (windows_cover_range z a b p ws Hz Hab Hend H) as (s0 & Hc & H1 & H2).
  apply (C13_additivity_chain evs a b ws s0 Hc H1 H2). lia.
Qed.

(* an empty or reversed window contributes nothing, in the model as in the spec *)
Lemma total_step_empty ws we : we <= ws -> forall l acc, fold_left (total_step ws we) l acc = acc.
Proof.
  intros H. induction l as [|i r IH]; intros acc; [reflexivity|]. cbn [fold_left]. rewrite IH.
  unfold total_step. destruct (st i), (en i); try reflexivity.
  replace (Z.max z ws <? Z.min z0 we) with false by lia. reflexivity.
Qed.

Lemma total_duration_empty tl ws we : we <= ws -> total_duration_ tl ws we = 0.
Proof. intros H. unfold total_duration_. apply total_step_empty, H. Qed.

(* the rows total_duration(period=p) returns for a stored timeline: every value is the measure of the
   source's coverage inside its period clipped to the range, and the values add up to the measure of
   the whole range *)
Definition win_bounded (w : win) : Prop := let '(_, s, e) := w in NEG_INF < s /\ e < POS_INF.

Theorem C13_total_duration_rows z evs a b p ws :
  Forall wf_ivl evs -> NEG_INF < a -> a < b -> b < POS_INF ->
  zone_wf (unit_of_period p) z = true ->
  (utc_to_wall z b mod unit_of_period p = 0 -> fold_of z b = false) ->
  period_windows_dt z a b p = Some ws -> Forall win_bounded ws ->
  let vals := map (fun w : win => let '(_, s, e) := w in total_duration_ (cached_timeline (Stored evs) a b) s e) ws in
  vals = map (spec_total evs a b) ws /\ sumZ vals = measure evs a b.
Proof.
  intros Hwf A1 A2 A3 Hz Hend H Hb. cbv zeta.
  destruct (windows_cover_range z a b p ws Hz A2 Hend H) as (s0 & Hc & H1 & H2).
  assert (E : map (fun w : win => let '(_, s, e) := w in
                                  total_duration_ (cached_timeline (Stored evs) a b) s e) ws =
              map (spec_total evs a b) ws).
  { clear H1 H2 H. revert s0 Hc. induction ws as [|[[L s] e] r IH]; intros s0 Hc; [reflexivity|].
    destruct Hc as (-> & Hse & Hr). inversion Hb as [|? ? Hw Hb']; subst.
    change (NEG_INF < s0 /\ e < POS_INF) in Hw. destruct Hw as [B1 B2]. cbn [map]. f_equal.
    - unfold spec_total, wlo, whi. destruct (Z_lt_le_dec s0 e) as [Hlt|Hge].
      + apply total_is_measure_cached; assumption.
      + rewrite total_duration_empty by lia. symmetry. apply measure_empty. lia.
    - apply (IH Hb' e Hr). }
  split; [exact E|]. rewrite E. apply (C13_additivity_chain evs a b ws s0 Hc H1 H2). lia.
Qed.

(* ------------------------------------------------------------------------------------ *)
(* 8. the oracle's window check implies additivity: whatever windows an implementation returns, if
      they pass Spec windows_ok then the per-window measures add up to the measure of the range *)

Lemma last_end_cons w r : r <> [] -> last_end (w :: r) = last_end r.
Proof.
  intros Hr. unfold last_end. cbn [rev].
  destruct (rev r) as [|x l] eqn:E.
  - exfalso. apply Hr. apply (f_equal (@rev win)) in E. rewrite rev_involutive in E. exact E.
  - reflexivity.
Qed.

Lemma chain_end_last ws : ws <> [] -> forall s0, chain_end ws s0 = last_end ws.
Proof.
  induction ws as [|[[L s] e] r IH]; intros Hne s0; [congruence|].
  cbn [chain_end]. destruct r as [|w r'].
  - reflexivity.
  - rewrite last_end_cons by discriminate. apply IH. discriminate.
Qed.

Lemma windows_ok_chain z p : forall ws,
  forallb (window_ok z p) ws = true -> contiguous p ws = true -> chain ws (first_start ws).
Proof.
  induction ws as [|[[L s] e] r IH]; intros Hw Hc; [exact I|].
  cbn [forallb] in Hw. apply andb_prop in Hw as [Hw1 Hw2].
  cbn [chain first_start]. split; [reflexivity|]. split.
  - unfold window_ok in Hw1. lia.
  - destruct r as [|[[L' s'] e'] r']; [exact I|].
    cbn [contiguous] in Hc. apply andb_prop in Hc as [Hc Hc3]. apply andb_prop in Hc as [Hc1 Hc2].
    specialize (IH Hw2 Hc3). cbn [first_start] in IH. replace e with s' by lia. exact IH.
Qed.

Theorem windows_ok_additive z p a b ws evs :
  windows_ok z p a b ws = true -> a < b ->
  sumZ (map (spec_total evs a b) ws) = measure evs a b.
Proof.
  intros H Hab. unfold windows_ok in H. replace (a >=? b) with false in H by lia.
  assert (G : forall ws', ws' <> [] ->
              forallb (window_ok z p) ws' && contiguous p ws' && (first_start ws' <=? a) &&
              (b <=? last_end ws') && forallb (meets a b) ws' = true ->
              sumZ (map (spec_total evs a b) ws') = measure evs a b).
  { intros ws' Hne H'. apply andb_prop in H' as [H' _]. apply andb_prop in H' as [H' H4].
    apply andb_prop in H' as [H' H3]. apply andb_prop in H' as [H1 H2].
    apply (C13_additivity_chain evs a b ws' (first_start ws') (windows_ok_chain z p ws' H1 H2)); try lia.
    rewrite chain_end_last by exact Hne. lia. }
  destruct p; try (destruct ws as [|w r]; [discriminate|apply G; [discriminate|exact H]]).
  (* full *)
  destruct ws as [|[[L s] e] [|w r]]; try discriminate.
  cbn [map sumZ fold_right]. unfold spec_total, wlo, whi.
  replace (Z.max a s) with a by lia. replace (Z.min b e) with b by lia. lia.
Qed.

(* ------------------------------------------------------------------------------------ *)
(* 9. max_duration / min_duration: the loop returns an interval of the slice whose length is extreme
      among the bounded intervals of the slice (None iff there is none) *)

Definition blen (i : ivl) : option Z :=
  match st i, en i with Some s, Some e => Some (e - s) | _, _ => None end.

Definition ext_inv (fm : bool) (seen : list ivl) (acc : option ivl * option Z) : Prop :=
  match acc with
  | (None, None) => forall y, In y seen -> blen y = None
  | (Some x, Some l) =>
    In x seen /\ blen x = Some l /\
    forall y d, In y seen -> blen y = Some d -> if fm then d <= l else l <= d
  | _ => False
  end.

Lemma ext_step_inv fm seen acc i :
  ext_inv fm seen acc -> ext_inv fm (seen ++ [i]) (ext_step fm acc i).
Proof.
  intros H. unfold ext_step. destruct (st i) as [s|] eqn:Es; [destruct (en i) as [e|] eqn:Ee|].
  - assert (Bi : blen i = Some (e - s)) by (unfold blen; rewrite Es, Ee; reflexivity).
    destruct acc as [[x|] [l|]]; cbn [snd ext_inv] in *; try contradiction.
    + destruct H as (Hx & Bx & Hall).
      assert (Keep : In x (seen ++ [i])) by (apply in_or_app; left; exact Hx).
      assert (New : In i (seen ++ [i])) by (apply in_or_app; right; left; reflexivity).
      destruct fm; cbn [andb negb].
      * destruct (e - s >? l) eqn:C; cbn [ext_inv].
        -- split; [exact New|]. split; [exact Bi|]. intros y d Hy By.
           apply in_app_or in Hy as [Hy|[<-|[]]]; [specialize (Hall y d Hy By); cbn in Hall; lia|].
           rewrite Bi in By. inversion By. lia.
        -- split; [exact Keep|]. split; [exact Bx|]. intros y d Hy By.
           apply in_app_or in Hy as [Hy|[<-|[]]]; [exact (Hall y d Hy By)|].
           rewrite Bi in By. inversion By. lia.
      * destruct (e - s <? l) eqn:C; cbn [ext_inv].
        -- split; [exact New|]. split; [exact Bi|]. intros y d Hy By.
           apply in_app_or in Hy as [Hy|[<-|[]]]; [specialize (Hall y d Hy By); cbn in Hall; lia|].
           rewrite Bi in By. inversion By. lia.
        -- split; [exact Keep|]. split; [exact Bx|]. intros y d Hy By.
           apply in_app_or in Hy as [Hy|[<-|[]]]; [exact (Hall y d Hy By)|].
           rewrite Bi in By. inversion By. lia.
    + split; [apply in_or_app; right; left; reflexivity|]. split; [exact Bi|].
      intros y d Hy By. apply in_app_or in Hy as [Hy|[<-|[]]].
      * rewrite (H y Hy) in By. discriminate.
      * rewrite Bi in By. inversion By. destruct fm; lia.
  - assert (Bi : blen i = None) by (unfold blen; rewrite Es, Ee; reflexivity).
    destruct acc as [[x|] [l|]]; cbn [ext_inv] in *; try contradiction.
    + destruct H as (Hx & Bx & Hall). split; [apply in_or_app; left; exact Hx|]. split; [exact Bx|].
      intros y d Hy By. apply in_app_or in Hy as [Hy|[<-|[]]]; [exact (Hall y d Hy By)|congruence].
    + intros y Hy. apply in_app_or in Hy as [Hy|[<-|[]]]; [exact (H y Hy)|exact Bi].
  - assert (Bi : blen i = None) by (unfold blen; rewrite Es; reflexivity).
    destruct acc as [[x|] [l|]]; cbn [ext_inv] in *; try contradiction.
    + destruct H as (Hx & Bx & Hall). split; [apply in_or_app; left; exact Hx|]. split; [exact Bx|].
      intros y d Hy By. apply in_app_or in Hy as [Hy|[<-|[]]]; [exact (Hall y d Hy By)|congruence].
    + intros y Hy. apply in_app_or in Hy as [Hy|[<-|[]]]; [exact (H y Hy)|exact Bi].
Qed.

Lemma ext_fold_inv fm : forall l seen acc,
  ext_inv fm seen acc -> ext_inv fm (seen ++ l) (fold_left (ext_step fm) l acc).
Proof.
  induction l as [|i r IH]; intros seen acc H.
  - rewrite app_nil_r. exact H.
  - cbn [fold_left]. replace (seen ++ i :: r) with ((seen ++ [i]) ++ r) by (rewrite <- app_assoc; reflexivity).
    apply IH, ext_step_inv, H.
Qed.

Theorem extremum_spec tl ws we fm :
  match extremum_duration tl ws we fm with
  | None => forall y, In y (tslice tl ws we) -> blen y = None
  | Some x => In x (tslice tl ws we) /\
              exists l, blen x = Some l /\
                        forall y d, In y (tslice tl ws we) -> blen y = Some d -> if fm then d <= l else l <= d
  end.
Proof.
  unfold extremum_duration.
  pose proof (ext_fold_inv fm (tslice tl ws we) [] (None, None) (fun y Hy => match Hy with end)) as H.
  cbn [app] in H. destruct (fold_left (ext_step fm) (tslice tl ws we) (None, None)) as [[x|] [l|]];
    cbn [ext_inv fst] in *; try contradiction.
  - destruct H as (Hx & Bx & Hall). split; [exact Hx|]. exists l. split; assumption.
  - exact H.
Qed.

(* count_intervals counts what the slice returns (by definition of the model), and for a stored
   timeline that is the number of events with an instant inside the window *)
Lemma length_clip_all a b : forall l,
  length (flat_map (clipW a b) l) = length (filter (fun i => Z.max (fstart i) (bnd_lo a) <? Z.min (fend i) (bnd_hi b)) l).
Proof.
  induction l as [|x r IH]; [reflexivity|]. cbn [flat_map filter]. rewrite app_length, IH.
  unfold clipW. cbv zeta. destruct (Z.max (fstart x) (bnd_lo a) <? Z.min (fend x) (bnd_hi b)); reflexivity.
Qed.

Lemma filter_length_perm (f : ivl -> bool) l1 l2 :
  Permutation l1 l2 -> length (filter f l1) = length (filter f l2).
Proof.
  induction 1 as [|x l l' _ IH|x y l|l l' l'' _ IH1 _ IH2]; cbn [filter].
  - reflexivity.
  - destruct (f x); cbn [length]; congruence.
  - destruct (f x), (f y); reflexivity.
  - congruence.
Qed.

Theorem count_is_hits evs ws we :
  ws <= we -> count_ (Stored evs) ws we = Z.of_nat (length (filter (hits ws we) evs)).
Proof.
  intros H. unfold count_. f_equal. rewrite tslice_stored by exact H.
  rewrite (clip_sweep_masks false _ (Some ws) (Some we)) by apply fetch_static_sorted_start.
  rewrite length_clip_all. cbn [bnd_lo bnd_hi].
  rewrite (proj1 (fetch_static_spec _ (Some ws) (Some we) (sl_build_sorted evs))).
  rewrite filter_filter.
  rewrite (filter_length_perm _ _ _ (sl_build_perm evs)).
  f_equal. apply filter_ext. intros i. unfold hits, in_range. lia.
Qed.

(* ------------------------------------------------------------------------------------ *)
(* 10. alignment: every window of the stepping loops begins at the instant the local clock reaches its
       label, a multiple of the stepping unit (hour: minute = second = 0; otherwise: local midnight),
       and ends at the instant the local clock reaches the next label *)

Lemma reaches_ts0 u z L : zone_wf u z = true -> L mod u = 0 -> reaches z L (ts0 z L) = true.
Proof.
  intros Hz HL. unfold reaches. pose proof (zone_wf_G3 u z L Hz HL) as H3.
  destruct (Z_lt_le_dec (utc_to_wall z (ts0 z L - 1)) L) as [Hlt|Hge]; [lia|].
  pose proof (zone_wf_G1 u z L (ts0 z L - 1) Hz HL Hge). lia.
Qed.

Definition aligned_win (u : Z) (z : zone) (w : win) : Prop :=
  let '(L, s, e) := w in
  L mod u = 0 /\ reaches z L s = true /\ exists L', L' mod u = 0 /\ L < L' /\ reaches z L' e = true.

Lemma win_loop_aligned u z next ew :
  zone_wf u z = true ->
  (forall c, c mod u = 0 -> next c mod u = 0 /\ c < next c) ->
  forall ws fuel c, c mod u = 0 -> win_loop fuel z next c ew = Some ws -> Forall (aligned_win u z) ws.
Proof.
  intros Hz Hstep. induction ws as [|[[L s] e] r IH]; intros fuel c Hc H; [constructor|].
  apply win_loop_head in H. destruct H as (-> & -> & -> & _ & fuel' & Hr).
  destruct (Hstep c Hc) as [Hn Hlt]. constructor.
  - cbn. split; [exact Hc|]. split; [apply (reaches_ts0 u); assumption|].
    exists (next c). split; [exact Hn|]. split; [exact Hlt|]. apply (reaches_ts0 u); assumption.
  - apply (IH fuel' (next c) Hn Hr).
Qed.

Theorem windows_aligned z a b p ws :
  zone_wf (unit_of_period p) z = true -> p <> PFull ->
  period_windows_dt z a b p = Some ws -> Forall (aligned_win (unit_of_period p) z) ws.
Proof.
  intros Hz Hp. unfold period_windows_dt. destruct (a >=? b); [intros H; inversion H; constructor|].
  destruct p; cbn [unit_of_period] in *; try congruence.
  - apply win_loop_aligned; auto using step_hour. apply snap_hour.
  - apply win_loop_aligned; auto using step_day. apply snap_day.
  - apply win_loop_aligned; auto using step_week. apply snap_week.
  - apply win_loop_aligned; auto using step_month. apply snap_month.
  - apply win_loop_aligned; auto using step_year. apply snap_year.
Qed.
