(* Proofs/MetricsP.v — proofs about Model/Metrics.v and Spec/MetricsSpec.v (property C13).
   1. counting instants: measure = count_in (covers evs)            measure_is_count
   2. additivity of measure, and over any chain of windows           measure_additive, chain_additive
   3. the model's _total_duration is the measure                      total_is_measure(_cached)
   4. windows produced by the stepping loops are contiguous           windows_contiguous
   5. ratios lie in [0,1]                                             ratio_in_unit *)
From CG Require Import Proofs.Defs Proofs.Stored Proofs.Compl Proofs.Canon Proofs.Clip.
From CG Require Import Spec.MetricsSpec.

(* ------------------------------------------------------------------------------------ *)
(* 1. counting *)

Lemma cnt_n_app f a n m :
  cnt_n f a (n + m) = cnt_n f a n + cnt_n f (a + Z.of_nat n) m.
Proof.
  revert a. induction n as [|n IH]; intros a.
  - simpl. f_equal. lia.
  - cbn [cnt_n Nat.add]. rewrite IH. replace (a + 1 + Z.of_nat n) with (a + Z.of_nat (S n)) by lia. lia.
Qed.

Lemma count_in_empty f a b : b <= a -> count_in f a b = 0.
Proof. intros H. unfold count_in. replace (Z.to_nat (b - a)) with O by lia. reflexivity. Qed.

Lemma count_in_split f a b c : a <= b <= c -> count_in f a c = count_in f a b + count_in f b c.
Proof.
  intros H. unfold count_in.
  replace (Z.to_nat (c - a)) with (Z.to_nat (b - a) + Z.to_nat (c - b))%nat by lia.
  rewrite cnt_n_app. do 2 f_equal. lia.
Qed.

Lemma cnt_n_ext f g a n :
  (forall t, a <= t < a + Z.of_nat n -> f t = g t) -> cnt_n f a n = cnt_n g a n.
Proof.
  revert a. induction n as [|n IH]; intros a H; [reflexivity|].
  cbn [cnt_n]. rewrite (H a) by lia. rewrite (IH (a + 1)); [reflexivity|].
  intros t Ht. apply H. lia.
Qed.

Lemma count_in_ext f g a b :
  (forall t, a <= t < b -> f t = g t) -> count_in f a b = count_in g a b.
Proof. intros H. unfold count_in. apply cnt_n_ext. intros t Ht. apply H. lia. Qed.

Lemma cnt_n_false a n : cnt_n (fun _ => false) a n = 0.
Proof. revert a. induction n as [|n IH]; intros a; simpl; [reflexivity|]. rewrite IH. reflexivity. Qed.

Lemma cnt_n_true a n : cnt_n (fun _ => true) a n = Z.of_nat n.
Proof. revert a. induction n as [|n IH]; intros a; [reflexivity|]. cbn [cnt_n]. rewrite IH. lia. Qed.

Lemma count_in_false f a b : (forall t, a <= t < b -> f t = false) -> count_in f a b = 0.
Proof.
  intros H. rewrite (count_in_ext f (fun _ => false)) by exact H. unfold count_in. apply cnt_n_false.
Qed.

Lemma count_in_true f a b : a <= b -> (forall t, a <= t < b -> f t = true) -> count_in f a b = b - a.
Proof.
  intros Hab H. rewrite (count_in_ext f (fun _ => true)) by exact H. unfold count_in.
  rewrite cnt_n_true. lia.
Qed.

Lemma count_in_nonneg f a b : 0 <= count_in f a b.
Proof.
  unfold count_in. generalize (Z.to_nat (b - a)). intros n. revert a.
  induction n as [|n IH]; intros a; cbn [cnt_n]; [lia|]. specialize (IH (a + 1)). destruct (f a); lia.
Qed.

Lemma cnt_n_le f a n : cnt_n f a n <= Z.of_nat n.
Proof.
  revert a. induction n as [|n IH]; intros a; cbn [cnt_n]; [lia|].
  specialize (IH (a + 1)). destruct (f a); lia.
Qed.

Lemma count_in_le_len f a b : a <= b -> count_in f a b <= b - a.
Proof.
  intros Hab. unfold count_in. pose proof (cnt_n_le f a (Z.to_nat (b - a))). lia.
Qed.

(* inclusion-exclusion *)
Lemma cnt_n_or_and f g a n :
  cnt_n (fun t => f t || g t) a n + cnt_n (fun t => f t && g t) a n = cnt_n f a n + cnt_n g a n.
Proof.
  revert a. induction n as [|n IH]; intros a; [reflexivity|].
  cbn [cnt_n]. specialize (IH (a + 1)). destruct (f a), (g a); cbn [orb andb]; lia.
Qed.

Lemma count_in_or_and f g a b :
  count_in (fun t => f t || g t) a b =
  count_in f a b + count_in g a b - count_in (fun t => f t && g t) a b.
Proof. unfold count_in. pose proof (cnt_n_or_and f g a (Z.to_nat (b - a))). lia. Qed.

(* restricting f to [lo,hi) inside [a,b) = counting over the intersection of the two windows *)
Lemma count_in_window f lo hi a b :
  count_in (fun t => ((lo <=? t) && (t <? hi)) && f t) a b = count_in f (Z.max a lo) (Z.min b hi).
Proof.
  destruct (Z_lt_le_dec (Z.max a lo) (Z.min b hi)) as [Hlt|Hge].
  - rewrite (count_in_split _ a (Z.max a lo) b) by lia.
    rewrite (count_in_split _ (Z.max a lo) (Z.min b hi) b) by lia.
    rewrite (count_in_false _ a (Z.max a lo)) by (intros t Ht; lia).
    rewrite (count_in_false _ (Z.min b hi) b) by (intros t Ht; lia).
    rewrite (count_in_ext _ f (Z.max a lo) (Z.min b hi)); [lia|].
    intros t Ht. replace ((lo <=? t) && (t <? hi)) with true by lia. reflexivity.
  - rewrite (count_in_empty f) by lia. apply count_in_false. intros t Ht. lia.
Qed.

Lemma count_in_inside x a b : count_in (inside x) a b = clip_len a b x.
Proof.
  unfold clip_len.
  rewrite (count_in_ext (inside x) (fun t => ((fstart x <=? t) && (t <? fend x)) && true))
    by (intros t _; unfold inside; rewrite andb_true_r; reflexivity).
  rewrite (count_in_window (fun _ => true)).
  destruct (Z_lt_le_dec (Z.max a (fstart x)) (Z.min b (fend x))) as [Hlt|Hge].
  - rewrite count_in_true by (first [lia | intros; reflexivity]). lia.
  - rewrite count_in_empty by lia. lia.
Qed.

(* the inclusion-exclusion measure counts the covered instants *)
Theorem measure_is_count : forall evs a b, measure evs a b = count_in (covers evs) a b.
Proof.
  induction evs as [|x r IH]; intros a b.
  - simpl. symmetry. apply count_in_false. reflexivity.
  - cbn [measure]. rewrite !IH.
    rewrite (count_in_ext (covers (x :: r)) (fun t => inside x t || covers r t)) by reflexivity.
    rewrite count_in_or_and, count_in_inside.
    rewrite (count_in_ext (fun t => inside x t && covers r t)
                          (fun t => ((fstart x <=? t) && (t <? fend x)) && covers r t)) by reflexivity.
    rewrite count_in_window. reflexivity.
Qed.

Corollary measure_empty evs a b : b <= a -> measure evs a b = 0.
Proof. intros H. rewrite measure_is_count. apply count_in_empty, H. Qed.

Corollary measure_bounds evs a b : a <= b -> 0 <= measure evs a b <= b - a.
Proof.
  intros H. rewrite measure_is_count. split; [apply count_in_nonneg|apply count_in_le_len, H].
Qed.

(* measure depends on the covered instants only *)
Corollary measure_ext evs1 evs2 a b :
  (forall t, a <= t < b -> covers evs1 t = covers evs2 t) -> measure evs1 a b = measure evs2 a b.
Proof. intros H. rewrite !measure_is_count. apply count_in_ext, H. Qed.

(* ------------------------------------------------------------------------------------ *)
(* 2. additivity *)

Theorem measure_additive evs a b c :
  a <= b <= c -> measure evs a c = measure evs a b + measure evs b c.
Proof. intros H. rewrite !measure_is_count. apply count_in_split, H. Qed.

(* measure inside a window clamped to the query range [A,B) *)
Definition clampm (evs : list ivl) (A B s e : Z) : Z := measure evs (Z.max A s) (Z.min B e).

Lemma clampm_split evs A B s m e :
  s <= m <= e -> clampm evs A B s e = clampm evs A B s m + clampm evs A B m e.
Proof.
  intros H. unfold clampm.
  destruct (Z_le_gt_dec m A) as [H1|H1].
  - rewrite (measure_empty evs (Z.max A s) (Z.min B m)) by lia.
    replace (Z.max A s) with A by lia. replace (Z.max A m) with A by lia. lia.
  - destruct (Z_le_gt_dec B m) as [H2|H2].
    + rewrite (measure_empty evs (Z.max A m) (Z.min B e)) by lia.
      replace (Z.min B m) with B by lia. replace (Z.min B e) with B by lia. lia.
    + replace (Z.min B m) with m by lia. replace (Z.max A m) with m by lia.
      destruct (Z_le_gt_dec (Z.max A s) (Z.min B e)).
      * apply measure_additive. lia.
      * lia.
Qed.

(* a chain of windows: each begins where the previous one ended, none is reversed *)
Fixpoint chain (ws : list win) (s0 : Z) : Prop :=
  match ws with
  | [] => True
  | (_, s, e) :: r => s = s0 /\ s <= e /\ chain r e
  end.
Fixpoint chain_end (ws : list win) (s0 : Z) : Z :=
  match ws with
  | [] => s0
  | (_, _, e) :: r => chain_end r e
  end.

Lemma chain_end_ge ws : forall s0, chain ws s0 -> s0 <= chain_end ws s0.
Proof.
  induction ws as [|[[L s] e] r IH]; intros s0 H; simpl; [lia|].
  destruct H as (-> & Hse & Hr). specialize (IH e Hr). lia.
Qed.

Theorem chain_additive evs A B ws : forall s0,
  chain ws s0 ->
  sumZ (map (spec_total evs A B) ws) = clampm evs A B s0 (chain_end ws s0).
Proof.
  induction ws as [|[[L s] e] r IH]; intros s0 H.
  - simpl. unfold clampm. symmetry. apply measure_empty.
    (* an empty chain: the clamped window [max A s0, min B s0) is empty *) lia.
  - destruct H as (-> & Hse & Hr). cbn [map sumZ fold_right chain_end].
    change (fold_right Z.add 0 (map (spec_total evs A B) r)) with (sumZ (map (spec_total evs A B) r)).
    rewrite (IH e Hr).
    rewrite (clampm_split evs A B s0 e (chain_end r e)) by (pose proof (chain_end_ge r e Hr); lia).
    reflexivity.
Qed.

(* per-period totals of any chain of windows that reaches over the query range add up to the total
   over the range *)
Theorem C13_additivity_chain evs A B ws s0 :
  chain ws s0 -> s0 <= A -> B <= chain_end ws s0 -> A <= B ->
  sumZ (map (spec_total evs A B) ws) = measure evs A B.
Proof.
  intros Hc H1 H2 H3. rewrite (chain_additive evs A B ws s0 Hc). unfold clampm.
  replace (Z.max A s0) with A by lia. replace (Z.min B (chain_end ws s0)) with B by lia. reflexivity.
Qed.

(* ------------------------------------------------------------------------------------ *)
(* 3. the model's _total_duration is the measure *)
From CG Require Import Proofs.RefSpec.

Definition sum_len (a b : Z) (l : list ivl) : Z := sumZ (map (clip_len a b) l).

Lemma sum_len_cons a b x l : sum_len a b (x :: l) = clip_len a b x + sum_len a b l.
Proof. reflexivity. Qed.

(* the accumulation loop over the clipped stream: every element has finite bounds inside the window,
   none is skipped, each adds its clipped length *)
Lemma total_fold_clip ws we : NEG_INF < ws -> we < POS_INF -> forall l acc,
  fold_left (total_step ws we) (flat_map (clipW (Some ws) (Some we)) l) acc = acc + sum_len ws we l.
Proof.
  intros Hlo Hhi. induction l as [|x r IH]; intros acc.
  - simpl. unfold sum_len. simpl. lia.
  - cbn [flat_map]. rewrite fold_left_app, IH, sum_len_cons. unfold clipW, clip_len. cbv zeta.
    cbn [bnd_lo bnd_hi].
    destruct (Z.max (fstart x) ws <? Z.min (fend x) we) eqn:E.
    + cbn [fold_left]. unfold total_step, set_span. cbn [st en].
      unfold unS, unE.
      replace (Z.max (fstart x) ws =? NEG_INF) with false by lia.
      replace (Z.min (fend x) we =? POS_INF) with false by lia.
      replace (Z.max (Z.max (fstart x) ws) ws <? Z.min (Z.min (fend x) we) we) with true by lia.
      lia.
    + cbn [fold_left]. lia.
Qed.

(* pairwise disjoint pieces: lengths add up to the number of covered instants *)
Lemma sum_len_count a b l : disjoint_sorted l -> sum_len a b l = count_in (covers l) a b.
Proof.
  induction l as [|x r IH]; intros H.
  - unfold sum_len. simpl. symmetry. apply count_in_false. reflexivity.
  - destruct H as [Hx Hr]. rewrite sum_len_cons, (IH Hr).
    rewrite (count_in_ext (covers (x :: r)) (fun t => inside x t || covers r t)) by reflexivity.
    rewrite count_in_or_and, count_in_inside.
    rewrite (count_in_false (fun t => inside x t && covers r t)); [lia|].
    intros t _. destruct (inside x t) eqn:Ei; [|reflexivity]. cbn [andb].
    apply covers_false_iff. intros y Hy. specialize (Hx y Hy). unfold inside in *. lia.
Qed.

Lemma covers_filter (P : ivl -> bool) t : forall l,
  (forall x, In x l -> inside x t = true -> P x = true) -> covers (filter P l) t = covers l t.
Proof.
  induction l as [|x r IH]; intros H; [reflexivity|].
  cbn [filter]. rewrite covers_cons. destruct (P x) eqn:E.
  - rewrite covers_cons, IH; [reflexivity|]. intros y Hy. apply H. right; exact Hy.
  - rewrite IH by (intros y Hy; apply H; right; exact Hy).
    destruct (inside x t) eqn:Ei; [|reflexivity].
    rewrite (H x (or_introl eq_refl) Ei) in E. discriminate.
Qed.

(* what a stored timeline hands to the sweeps covers the same instants of the window *)
Lemma covers_fetch_static evs ws we t : ws <= t < we ->
  covers (fetch_static (sl_build evs) (Some ws) (Some we) false) t = covers evs t.
Proof.
  intros Ht. rewrite (proj1 (fetch_static_spec _ (Some ws) (Some we) (sl_build_sorted evs))).
  rewrite covers_filter; [apply sl_build_covers|].
  intros x _ Hi. unfold in_range, inside in *. lia.
Qed.

Lemma fetch_static_wf evs a b :
  Forall wf_ivl evs -> Forall wf_ivl (fetch_static (sl_build evs) a b false).
Proof.
  intros H. apply Forall_forall. intros x Hx.
  apply (fetch_static_in _ a b false x (sl_build_sorted evs)) in Hx. destruct Hx as [Hx _].
  apply (proj1 (sl_build_in evs x)) in Hx. rewrite Forall_forall in H. apply H, Hx.
Qed.

Lemma fetch_static_sorted_start evs a b : sorted_start (fetch_static (sl_build evs) a b false).
Proof. apply sorted_key_sorted_start, fetch_static_sorted, sl_build_sorted. Qed.

(* flatten(tl)[ws:we] for a stored timeline, as the sweeps the code runs *)
Lemma tslice_flatten_stored evs ws we : ws <= we ->
  tslice (flatten_ (Stored evs)) ws we =
  inter_sweep [compl_sweep (compl_sweep (fetch_static (sl_build evs) (Some ws) (Some we) false)
                                        (Some ws) (Some we)) (Some ws) (Some we);
               [mkI (Some ws) (Some we) Plain]] (emit_sel [true; true]).
Proof.
  intros H. unfold tslice, slice, norm_bounds. replace (ws >? we) with false by lia. reflexivity.
Qed.

(* tl[ws:we] for a stored timeline *)
Lemma tslice_stored evs ws we : ws <= we ->
  tslice (Stored evs) ws we =
  inter_sweep [fetch_static (sl_build evs) (Some ws) (Some we) false; [mkI (Some ws) (Some we) Plain]]
              (emit_sel [false; true]).
Proof.
  intros H. unfold tslice, slice, norm_bounds. replace (ws >? we) with false by lia. reflexivity.
Qed.

Lemma wf_win_some ws we : NEG_INF < ws -> ws < we -> we < POS_INF -> wf_win (Some ws) (Some we).
Proof.
  intros H1 H2 H3. unfold wf_win. cbn [bnd_lo bnd_hi]. repeat split; try lia; intros z E; inversion E; lia.
Qed.

(* _total_duration(tl, ws, we) of a stored timeline = number of instants of [ws,we) covered by
   some event *)
Theorem total_is_measure evs ws we :
  Forall wf_ivl evs -> NEG_INF < ws -> ws < we -> we < POS_INF ->
  total_duration_ (Stored evs) ws we = measure evs ws we.
Proof.
  intros Hwf H1 H2 H3. unfold total_duration_.
  rewrite tslice_flatten_stored by lia.
  set (a := Some ws). set (b := Some we).
  set (xs := fetch_static (sl_build evs) a b false).
  assert (Hw : wf_win a b) by (apply wf_win_some; assumption).
  assert (Wx : Forall wf_ivl xs) by (apply fetch_static_wf, Hwf).
  assert (Sx : sorted_start xs) by apply fetch_static_sorted_start.
  destruct (compl_out_wf_sorted xs a b Hw Wx Sx) as [W1 S1].
  destruct (compl_out_wf_sorted _ a b Hw W1 S1) as [W2 S2].
  pose proof (compl_canonP _ a b Hw W1 S1) as [_ Sep].
  rewrite (clip_sweep_masks true _ a b S2).
  subst a b. rewrite total_fold_clip by assumption.
  rewrite sum_len_count by (apply separatedP_disjoint, Sep).
  rewrite measure_is_count. rewrite Z.add_0_l.
  apply count_in_ext. intros t Ht.
  rewrite (flatten_cover xs (Some ws) (Some we) t Hw Wx Sx) by (cbn [bnd_lo bnd_hi]; lia).
  apply covers_fetch_static, Ht.
Qed.

(* the clipped copies handed to make_timeline are well formed *)
Lemma clip_all_wf a b l : Forall wf_ivl l -> wf_win a b -> Forall wf_ivl (flat_map (clipW a b) l).
Proof.
  intros H Hw. apply Forall_forall. intros g Hg. apply in_flat_map in Hg as [i [Hi Hg]].
  apply clipW_shape in Hg as (_ & E1 & E2 & Hlt & _).
  rewrite Forall_forall in H. destruct (H i Hi) as (A1 & A2 & A3 & A4 & A5).
  pose proof (wf_win_bounds a b Hw) as [B1 B2]. destruct Hw as (_ & _ & B3).
  unfold wf_ivl. lia.
Qed.

(* _windowed_agg: the per-period total computed on the materialised slice tl[A:B] is the measure of
   the source's coverage inside the period clipped to the query range *)
Theorem total_is_measure_cached evs A B s e :
  Forall wf_ivl evs -> NEG_INF < A -> A < B -> B < POS_INF ->
  NEG_INF < s -> s < e -> e < POS_INF ->
  total_duration_ (cached_timeline (Stored evs) A B) s e = measure evs (Z.max A s) (Z.min B e).
Proof.
  intros Hwf A1 A2 A3 S1 S2 S3. unfold cached_timeline.
  rewrite tslice_stored by lia.
  rewrite (clip_sweep_masks false _ (Some A) (Some B)) by apply fetch_static_sorted_start.
  assert (Hw : wf_win (Some A) (Some B)) by (apply wf_win_some; assumption).
  rewrite total_is_measure; try assumption.
  2:{ apply clip_all_wf; [apply fetch_static_wf, Hwf|exact Hw]. }
  rewrite !measure_is_count.
  replace (Z.max A s) with (Z.max s A) by lia. replace (Z.min B e) with (Z.min e B) by lia.
  rewrite <- (count_in_window (covers evs) A B s e).
  apply count_in_ext. intros t Ht. rewrite covers_clipW. unfold inw. cbn [bnd_lo bnd_hi].
  destruct ((A <=? t) && (t <? B)) eqn:E.
  - rewrite andb_true_r, andb_true_l. apply covers_fetch_static. lia.
  - rewrite andb_false_r. reflexivity.
Qed.

(* ------------------------------------------------------------------------------------ *)
(* 4. windows of the stepping loops *)

(* each window ends where the next one begins *)
Fixpoint contigP (ws : list win) : Prop :=
  match ws with
  | [] => True
  | (_, _, e) :: r => match r with [] => True | (_, s', _) :: _ => e = s' end /\ contigP r
  end.

Lemma win_loop_head fuel z next c ew ws :
  win_loop fuel z next c ew = Some ws ->
  match ws with
  | [] => ew <= c
  | (L, s, e) :: r => L = c /\ s = ts0 z c /\ e = ts0 z (next c) /\ c < ew /\
                      exists fuel', win_loop fuel' z next (next c) ew = Some r
  end.
Proof.
  destruct fuel as [|f]; cbn [win_loop]; destruct (c <? ew) eqn:E; try discriminate.
  - intros H; inversion H; subst. lia.
  - destruct (win_loop f z next (next c) ew) as [r|] eqn:Er; [|discriminate].
    intros H; inversion H; subst. repeat split; try lia. exists f. exact Er.
  - intros H; inversion H; subst. lia.
Qed.

Lemma win_loop_contig z next ew : forall ws fuel c,
  win_loop fuel z next c ew = Some ws -> contigP ws.
Proof.
  induction ws as [|[[L s] e] r IH]; intros fuel c H; [exact I|].
  apply win_loop_head in H. destruct H as (_ & _ & He & _ & fuel' & Hr).
  cbn [contigP]. split; [|eapply IH, Hr].
  destruct r as [|[[L' s'] e'] r']; [exact I|].
  apply win_loop_head in Hr. destruct Hr as (_ & Hs' & _). congruence.
Qed.

(* Period windows are contiguous: for every zone table, period and range (no hypothesis on the zone:
   each end and the next start are the same timestamp of the same wall clock value) *)
Theorem windows_contiguous z a b p ws :
  period_windows_dt z a b p = Some ws -> contigP ws.
Proof.
  unfold period_windows_dt. destruct (a >=? b); [intros H; inversion H; exact I|].
  destruct p; try (apply win_loop_contig).
  intros H; inversion H. cbn. auto.
Qed.

(* The loop under a zone hypothesis stated on the wall clock values the loop visits.
   [P] holds of the period boundaries (the values of [current]); for those:
     G1  if the local clock at instant t shows at least L, then L's timestamp is at most t
     G2  if the local clock at the range end b shows at most L, then b is at most L's timestamp
     G3  the local clock at L's timestamp shows at least L
   (Proofs below derive them from a condition on the transition table.) *)
Section Loop.
  Variable z : zone.
  Variable P : Z -> Prop.
  Variable next : Z -> Z.
  Hypothesis P_next : forall c, P c -> P (next c).
  Hypothesis next_gt : forall c, P c -> c < next c.
  Hypothesis G1 : forall L t, P L -> L <= utc_to_wall z t -> ts0 z L <= t.
  Hypothesis G3 : forall L, P L -> L <= utc_to_wall z (ts0 z L).

  Lemma ts0_mono c c' : P c -> P c' -> c <= c' -> ts0 z c <= ts0 z c'.
  Proof. intros Hc Hc' Hle. apply G1; [exact Hc|]. pose proof (G3 c' Hc'). lia. Qed.

  (* every window runs forwards, and the list is a chain from the first timestamp to the last *)
  Lemma win_loop_chain ew : forall ws fuel c,
    P c -> win_loop fuel z next c ew = Some ws ->
    chain ws (ts0 z c) /\ exists cN, P cN /\ ew <= cN /\ c <= cN /\ chain_end ws (ts0 z c) = ts0 z cN.
  Proof.
    induction ws as [|[[L s] e] r IH]; intros fuel c Hc H.
    - apply win_loop_head in H. split; [exact I|]. exists c. repeat split; try lia; assumption.
    - apply win_loop_head in H. destruct H as (-> & -> & -> & Hlt & fuel' & Hr).
      destruct (IH fuel' (next c) (P_next c Hc) Hr) as (Hch & cN & PN & H1 & H2 & H3).
      split.
      + cbn [chain]. repeat split; [|exact Hch].
        apply ts0_mono; [exact Hc|apply P_next, Hc|pose proof (next_gt c Hc); lia].
      + exists cN. cbn [chain_end]. pose proof (next_gt c Hc). repeat split; try lia; assumption.
  Qed.

  (* the windows reach over the query range *)
  Theorem win_loop_cover a b c0 fuel ws :
    P c0 -> c0 <= utc_to_wall z a ->
    (forall L, P L -> utc_to_wall z b <= L -> b <= ts0 z L) ->               (* G2 at the range end *)
    win_loop fuel z next c0 (utc_to_wall z b) = Some ws ->
    chain ws (ts0 z c0) /\ ts0 z c0 <= a /\ b <= chain_end ws (ts0 z c0).
  Proof.
    intros P0 Hle G2 H. destruct (win_loop_chain _ ws fuel c0 P0 H) as (Hch & cN & PN & H1 & H2 & H3).
    split; [exact Hch|]. split; [apply G1; assumption|]. rewrite H3. apply G2; assumption.
  Qed.
End Loop.

(* hence, with part 2: per-period totals of the model's windows add up to the total of the range *)
Theorem loop_totals_add_up z (P : Z -> Prop) next evs a b c0 fuel ws :
  (forall c, P c -> P (next c)) -> (forall c, P c -> c < next c) ->
  (forall L t, P L -> L <= utc_to_wall z t -> ts0 z L <= t) ->
  (forall L, P L -> L <= utc_to_wall z (ts0 z L)) ->
  (forall L, P L -> utc_to_wall z b <= L -> b <= ts0 z L) ->
  P c0 -> c0 <= utc_to_wall z a -> a <= b ->
  win_loop fuel z next c0 (utc_to_wall z b) = Some ws ->
  sumZ (map (spec_total evs a b) ws) = measure evs a b.
Proof.
  intros Pn Ngt G1 G3 G2 P0 Hle Hab H.
  destruct (win_loop_cover z P next Pn Ngt G1 G3 a b c0 fuel ws P0 Hle G2 H) as (Hch & H1 & H2).
  eapply C13_additivity_chain; eauto.
Qed.

(* ------------------------------------------------------------------------------------ *)
(* 5. ratios *)

Theorem ratio_in_unit evs a b w : a <= b -> rat_in_unit (ratio_of evs a b w) = true.
Proof.
  intros Hab. unfold ratio_of, rat_in_unit. destruct w as [[L s] e]. unfold wspan, spec_total, wlo, whi.
  destruct (e - s <=? 0) eqn:E; cbn [fst snd]; [reflexivity|].
  destruct (Z_le_gt_dec (Z.max a s) (Z.min b e)) as [Hle|Hgt].
  - pose proof (measure_bounds evs _ _ Hle). lia.
  - rewrite measure_empty by lia. lia.
Qed.

(* the model's per-window ratio (numerator, denominator) lies in [0,1] *)
Theorem model_ratio_in_unit evs A B s e :
  Forall wf_ivl evs -> NEG_INF < A -> A < B -> B < POS_INF -> NEG_INF < s -> e < POS_INF ->
  let q := ratio_win (cached_timeline (Stored evs) A B) s e in
  0 <= fst q <= snd q /\ 0 < snd q.
Proof.
  intros Hwf A1 A2 A3 S1 S3. unfold ratio_win. destruct (e - s <=? 0) eqn:E; cbn [fst snd]; [lia|].
  rewrite total_is_measure_cached by (try assumption; lia).
  destruct (Z_le_gt_dec (Z.max A s) (Z.min B e)) as [Hle|Hgt].
  - pose proof (measure_bounds evs _ _ Hle). lia.
  - rewrite measure_empty by lia. lia.
Qed.

(* sums of numerators and denominators of ratios in [0,1] give a ratio in [0,1] (group_by combiner) *)
Lemma zsum_fold l : forall acc, fold_left Z.add l acc = acc + sumZ l.
Proof. induction l as [|x r IH]; intros acc; cbn [fold_left sumZ fold_right]; [lia|]. rewrite IH. unfold sumZ. lia. Qed.

Theorem combine_ratios_in_unit ts :
  Forall (fun q => 0 <= fst q <= snd q) ts ->
  let q := combine_ratios ts in 0 <= fst q <= snd q /\ 0 < snd q.
Proof.
  intros H. unfold combine_ratios, zsum. rewrite !zsum_fold, !Z.add_0_l.
  assert (B : 0 <= sumZ (map fst ts) <= sumZ (map snd ts)).
  { induction H as [|q r Hq _ IH]; cbn [map sumZ fold_right]; [lia|]. unfold sumZ in IH. lia. }
  destruct (sumZ (map snd ts) >? 0) eqn:E; cbn [fst snd]; lia.
Qed.

(* ------------------------------------------------------------------------------------ *)
(* 6. the zone hypothesis, on the transition table.
   A transition (T, o) after offset cur sets the wall clock from T + cur to T + o: the stretch between
   lo = T + min cur o and hi = T + max cur o is skipped (o > cur) or shown twice (o < cur).
   zone_wf u z: transitions strictly ascending, stretches in ascending order and not overlapping,
   offsets below one day, and NO MULTIPLE OF u STRICTLY INSIDE A STRETCH (u = 3600 for hourly
   stepping, 86400 for day / week / month / year).  "Every shift at most the stepping unit" is neither
   necessary nor sufficient: see hourly_pacific_chatham_refuted in Props/C13.v. *)

Definition mult_inside (u lo hi : Z) : bool := (lo / u + 1) * u <? hi.

Fixpoint tab_ok (u cur ph pT : Z) (tr : list (Z * Z)) : bool :=
  match tr with
  | [] => true
  | (T, o) :: r =>
    let lo := T + Z.min cur o in
    let hi := T + Z.max cur o in
    (pT <? T) && (ph <=? lo) && negb (mult_inside u lo hi) && (Z.abs o <? 86400) && tab_ok u o hi T r
  end.

Definition zone_wf (u : Z) (z : zone) : bool :=
  (0 <? u) && (Z.abs (off0 z) <? 86400) &&
  match trans z with
  | [] => true
  | (T, o) :: _ => tab_ok u (off0 z) (T + Z.min (off0 z) o) (T - 1) (trans z)
  end.

Lemma no_mult_inside u lo hi L :
  0 < u -> mult_inside u lo hi = false -> L mod u = 0 -> lo < L -> L < hi -> False.
Proof.
  intros Hu Hm HL H1 H2. unfold mult_inside in Hm.
  assert (E : L = u * (L / u)) by (pose proof (Z.div_mod L u); lia).
  assert (lo / u < L / u) by (apply Z.div_lt_upper_bound; lia).
  assert ((lo / u + 1) * u <= (L / u) * u) by (apply Z.mul_le_mono_nonneg_r; lia).
  lia.
Qed.

Section Table.
  Variable u : Z.
  Hypothesis u_pos : 0 < u.

  (* C: the timestamp of a wall clock value past the previous stretch is past the previous transition *)
  Lemma tab_ts_lower : forall tr cur ph pT L,
    tab_ok u cur ph pT tr = true -> ph <= L -> ph - cur <= L - wall_offset_go cur tr L false.
  Proof.
    induction tr as [|[T o] r IH]; intros cur ph pT L H HL; cbn [wall_offset_go]; [lia|].
    cbn [tab_ok] in H. cbv zeta in H.
    apply andb_prop in H as [H H5]. apply andb_prop in H as [H H4].
    apply andb_prop in H as [H H3]. apply andb_prop in H as [H1 H2].
    destruct (T + Z.max cur o <=? L) eqn:E.
    - specialize (IH o (T + Z.max cur o) T L H5). lia.
    - lia.
  Qed.

  (* D: the wall clock at an instant past transition pT stays above what precedes the next stretch *)
  Lemma tab_wall_lower : forall tr c ph pT t X,
    tab_ok u c ph pT tr = true -> X <= t + c -> X <= ph -> X <= t + offset_at_go c tr t.
  Proof.
    induction tr as [|[T o] r IH]; intros c ph pT t X H H1 H2; cbn [offset_at_go]; [lia|].
    cbn [tab_ok] in H. cbv zeta in H.
    apply andb_prop in H as [H H5]. apply andb_prop in H as [H H4].
    apply andb_prop in H as [H H3]. apply andb_prop in H as [Ha Hb].
    destruct (T <=? t) eqn:E; [|lia].
    apply (IH o (T + Z.max c o) T t X H5); lia.
  Qed.

  Lemma offset_at_go_before c tr pT ph t :
    tab_ok u c ph pT tr = true -> t <= pT -> offset_at_go c tr t = c.
  Proof.
    destruct tr as [|[T o] r]; [reflexivity|]. cbn [tab_ok offset_at_go]. cbv zeta. intros H Ht.
    apply andb_prop in H as [H _]. apply andb_prop in H as [H _].
    apply andb_prop in H as [H _]. apply andb_prop in H as [Ha _].
    replace (T <=? t) with false by lia. reflexivity.
  Qed.

  (* G1 *)
  Lemma tab_G1 : forall tr cur ph pT L t,
    tab_ok u cur ph pT tr = true -> L mod u = 0 ->
    L <= t + offset_at_go cur tr t -> L - wall_offset_go cur tr L false <= t.
  Proof.
    induction tr as [|[T o] r IH]; intros cur ph pT L t H HL Hw; cbn [wall_offset_go offset_at_go] in *; [lia|].
    pose proof H as H0. cbn [tab_ok] in H. cbv zeta in H.
    apply andb_prop in H as [H H5]. apply andb_prop in H as [H H4].
    apply andb_prop in H as [H H3]. apply andb_prop in H as [Ha Hb].
    apply negb_true_iff in H3.
    destruct (T <=? t) eqn:Et.
    - destruct (T + Z.max cur o <=? L) eqn:El.
      + eapply IH; eauto.
      + destruct (Z_le_gt_dec o cur) as [Hf|Hg]; [lia|].
        destruct (Z_le_gt_dec L (T + Z.min cur o)); [lia|].
        exfalso. eapply (no_mult_inside u _ _ L u_pos H3 HL); lia.
    - replace (T + Z.max cur o <=? L) with false by lia. lia.
  Qed.

  (* G3 *)
  Lemma tab_G3 : forall tr cur ph pT L,
    tab_ok u cur ph pT tr = true -> L mod u = 0 ->
    let ts := L - wall_offset_go cur tr L false in L <= ts + offset_at_go cur tr ts.
  Proof.
    induction tr as [|[T o] r IH]; intros cur ph pT L H HL; cbv zeta; cbn [wall_offset_go]; [cbn; lia|].
    pose proof H as H0. cbn [tab_ok] in H. cbv zeta in H.
    apply andb_prop in H as [H H5]. apply andb_prop in H as [H H4].
    apply andb_prop in H as [H H3]. apply andb_prop in H as [Ha Hb].
    apply negb_true_iff in H3.
    destruct (T + Z.max cur o <=? L) eqn:El.
    - pose proof (tab_ts_lower r o (T + Z.max cur o) T L H5 ltac:(lia)) as Hlow.
      cbn [offset_at_go]. replace (T <=? L - wall_offset_go o r L false) with true by lia.
      apply (IH o _ T L H5 HL).
    - cbn [offset_at_go]. destruct (T <=? L - cur) eqn:Et; [|lia].
      (* L lies in [T + cur, T + max cur o): a skipped stretch; it can only be its beginning *)
      destruct (Z_le_gt_dec L (T + Z.min cur o)) as [Hle|Hgt].
      + assert (L - cur = T) by lia.
        replace (L - cur) with T by lia.
        rewrite (offset_at_go_before o r T _ T H5) by lia. lia.
      + exfalso. eapply (no_mult_inside u _ _ L u_pos H3 HL); lia.
  Qed.

  (* G2, strict part: an instant whose wall clock is below L comes before L's timestamp *)
  Lemma tab_G2 : forall tr cur ph pT L t,
    tab_ok u cur ph pT tr = true -> L mod u = 0 ->
    t + offset_at_go cur tr t < L -> t < L - wall_offset_go cur tr L false.
  Proof.
    induction tr as [|[T o] r IH]; intros cur ph pT L t H HL Hw; cbn [wall_offset_go offset_at_go] in *; [lia|].
    pose proof H as H0. cbn [tab_ok] in H. cbv zeta in H.
    apply andb_prop in H as [H H5]. apply andb_prop in H as [H H4].
    apply andb_prop in H as [H H3]. apply andb_prop in H as [Ha Hb].
    apply negb_true_iff in H3.
    destruct (T <=? t) eqn:Et.
    - destruct (T + Z.max cur o <=? L) eqn:El.
      + eapply IH; eauto.
      + exfalso.
        pose proof (tab_wall_lower r o (T + Z.max cur o) T t (T + Z.min cur o) H5 ltac:(lia) ltac:(lia)).
        eapply (no_mult_inside u _ _ L u_pos H3 HL); lia.
    - destruct (T + Z.max cur o <=? L) eqn:El; [|lia].
      pose proof (tab_ts_lower r o (T + Z.max cur o) T L H5 ltac:(lia)). lia.
  Qed.
End Table.

(* the three facts the loop theorems need, for a zone whose table is well formed for unit u *)
Theorem zone_wf_G1 u z L t :
  zone_wf u z = true -> L mod u = 0 -> L <= utc_to_wall z t -> ts0 z L <= t.
Proof.
  unfold zone_wf, utc_to_wall, ts0, wall_to_utc, wall_offset, offset_at. intros H HL Hw.
  apply andb_prop in H as [H H2]. apply andb_prop in H as [Hu _]. assert (0 < u) by lia.
  destruct (trans z) as [|[T o] r] eqn:E; [cbn in *; lia|].
  eapply tab_G1; eauto.
Qed.

Theorem zone_wf_G3 u z L :
  zone_wf u z = true -> L mod u = 0 -> L <= utc_to_wall z (ts0 z L).
Proof.
  unfold zone_wf, utc_to_wall, ts0, wall_to_utc, wall_offset, offset_at. intros H HL.
  apply andb_prop in H as [H H2]. apply andb_prop in H as [Hu _]. assert (0 < u) by lia.
  destruct (trans z) as [|[T o] r] eqn:E; [cbn; lia|].
  eapply (tab_G3 u ltac:(assumption)); eauto.
Qed.

Theorem zone_wf_G2 u z L t :
  zone_wf u z = true -> L mod u = 0 -> utc_to_wall z t < L -> t < ts0 z L.
Proof.
  unfold zone_wf, utc_to_wall, ts0, wall_to_utc, wall_offset, offset_at. intros H HL Hw.
  apply andb_prop in H as [H H2]. apply andb_prop in H as [Hu _]. assert (0 < u) by lia.
  destruct (trans z) as [|[T o] r] eqn:E; [cbn in *; lia|].
  eapply tab_G2; eauto.
Qed.

(* G2 at the range end: b must not be the second showing of a period boundary
   (fold_of z b = true with a boundary on the clock is finding M3) *)
Corollary zone_wf_G2_end u z b L :
  zone_wf u z = true -> L mod u = 0 ->
  (utc_to_wall z b mod u = 0 -> fold_of z b = false) ->
  utc_to_wall z b <= L -> b <= ts0 z L.
Proof.
  intros Hz HL Hf Hle. destruct (Z_lt_le_dec (utc_to_wall z b) L) as [Hlt|Hge].
  - pose proof (zone_wf_G2 u z L b Hz HL Hlt). lia.
  - assert (E : utc_to_wall z b = L) by lia. rewrite E in Hf. specialize (Hf HL).
    unfold fold_of in Hf. apply negb_false_iff in Hf. rewrite E in Hf. unfold ts0. lia.
Qed.
