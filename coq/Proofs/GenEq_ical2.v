(* Proofs/GenEq_ical2.v — tie C for calgebra/ical.py (third extension, tag ical), part 2:
     G. g_ical_interval_to_vevent   _interval_to_vevent (the whole function)   = Model/Ical.v to_vevent
   The generated definition (Gen/Source.v) is parametric in the item, the pattern's attributes, the
   datetime operations and the Event object; the theorem shows the instantiation it is about (Model/IcalSrc.v):
   `cast(T, item)` is item, so a pattern / an interval / an item are the model's [item]; the Event under
   construction is the record [pev] of the properties added so far. *)
From CG Require Import Model.Loop Gen.Source Model.IcalSrc.
From CG Require Proofs.IcalP Proofs.GenEq_ical.
From Coq Require Import ZArith List Bool Lia ZifyBool.
Import ListNotations.
Local Open Scope Z_scope.

Definition src_interval_to_vevent (it : item) : res pev :=
  g_ical_interval_to_vevent
    it_is_pattern (fun i : item => i) (fun i : item => i)
    it_meta (fun i => r_zone (it_rule i)) (fun i => r_anchor (it_rule i)) (fun i => r_sod (it_rule i))
    (fun i => r_dur (it_rule i)) (fun i => r_freq (it_rule i)) (fun i => r_exdates (it_rule i))
    it_rrule_text lv_vrecur_from_ical
    lv_anchor_wall_clock lv_ymd lv_with_zone lv_add ltd_of_seconds
    m_allday (fun z => zone_eqb z utc_zone) lv_to_date lv_fromtimestamp utc_zone
    it_meta it_start it_end (fun (_ : item) (m : meta) => m_allday m) md_text_of
    (mkMeta None None None None false) pev_empty
    pev_add_dtstart pev_add_dtend pev_add_duration pev_add_rrule pev_add_exdate pev_add_text
    it.

(* the four `val = meta.get(key); if val is not None: event.add(prop, val)` *)
Definition add_texts (m : meta) (e : pev) : pev :=
  mkPev (pv_dtstart e) (pv_end e) (pv_rrule e) (pv_exdate e)
        (match m_summary m with Some t => Some t | None => pv_summary e end)
        (match m_description m with Some t => Some t | None => pv_description e end)
        (match m_uid m with Some t => Some t | None => pv_uid e end)
        (match m_location m with Some t => Some t | None => pv_location e end).

Lemma fold_exdates (f : Z -> dtval) : forall (l : list Z) (e : pev),
  fold_left (fun ev t => pev_add_exdate (f t) ev) l e =
  mkPev (pv_dtstart e) (pv_end e) (pv_rrule e) (pv_exdate e ++ map f l)
        (pv_summary e) (pv_description e) (pv_uid e) (pv_location e).
Proof.
  induction l as [|t r IH]; intros e; cbn [fold_left map].
  - rewrite app_nil_r. destruct e; reflexivity.
  - rewrite IH. unfold pev_add_exdate. cbn [pv_dtstart pv_end pv_rrule pv_exdate pv_summary pv_description pv_uid pv_location].
    now rewrite <- app_assoc.
Qed.

Lemma nonempty_if {A R : Type} (L : list A) (a b : R) :
  (L = [] -> a = b) -> (if nonempty L then a else b) = a.
Proof. destruct L; intros H; cbn [nonempty]; [symmetry; now apply H|reflexivity]. Qed.

Lemma add_dur_stamp_w (z : zone) (w s : Z) : add_dur (stamp_w z w) s = stamp_w z (w + s).
Proof. unfold stamp_w. destruct (zone_eqb z utc_zone); reflexivity. Qed.

Lemma phase_base_wall (f : freq) : wall_of (g_ical_phase_base lv_ymd f) = phase_base f * DAY.
Proof. destruct f; vm_compute; reflexivity. Qed.

Lemma to_date_dated (ad : bool) (v : dtval) :
  (if ad then lv_to_date v else v) =
  (if ad then match v with DUtc t => DDate (t / DAY) | DTz _ w => DDate (w / DAY)
                         | DFloat w => DDate (w / DAY) | DDate d => DDate d end
   else v).
Proof. destruct ad, v; reflexivity. Qed.

Theorem g_ical_interval_to_vevent_eq (it : item) :
  src_interval_to_vevent it =
  match to_vevent it with Some v => RDone (pev_of v) | None => RRaise ValueError end.
Proof.
  destruct it as [s e m | x m].
  - (* a static interval *)
    destruct s as [s|]; [|reflexivity].
    unfold src_interval_to_vevent, g_ical_interval_to_vevent, to_vevent, pev_of.
    cbn [it_is_pattern it_start it_end it_meta is_none negb ozd]. cbv beta zeta.
    unfold lv_fromtimestamp, stamp, md_text_of. cbn [Z.eqb].
    replace (zone_eqb utc_zone utc_zone) with true by reflexivity.
    destruct m as [a b c d ad]; cbn [m_summary m_description m_uid m_location m_allday present].
    destruct ad, e as [e|], a, b, c, d; reflexivity.
  - (* a recurring pattern *)
    unfold src_interval_to_vevent, g_ical_interval_to_vevent, to_vevent, pev_of.
    cbn [it_is_pattern it_meta it_rule it_rrule_text]. cbv beta zeta.
    unfold lv_vrecur_from_ical.
    destruct (parse_vrecur (rrule_text (parts_of x))) as [vr|]; cbn [res_bind]; [|reflexivity].
    set (r := x_rule x).
    assert (Had : (m_allday m && zone_eqb (r_zone r) utc_zone && (r_sod r =? 0) && (r_dur r mod 86400 =? 0))
                  = writes_date r m) by reflexivity.
    rewrite Had. set (ad := writes_date r m).
    assert (Hst : (if negb (is_none (r_anchor r))
                   then lv_anchor_wall_clock (ozd (r_anchor r)) (r_sod r) (r_zone r)
                   else lv_add (lv_with_zone (g_ical_phase_base lv_ymd (r_freq r)) (r_zone r)) (ltd_of_seconds (r_sod r)))
                  = match r_anchor r with
                    | Some a => stamp_w (r_zone r) (own_wall (r_zone r) a (r_sod r))
                    | None => stamp_w (r_zone r) (phase_base (r_freq r) * DAY + r_sod r)
                    end).
    { destruct (r_anchor r) as [a|]; cbn [is_none negb ozd]; [reflexivity|].
      unfold lv_add, lv_with_zone, ltd_of_seconds. now rewrite add_dur_stamp_w, phase_base_wall. }
    rewrite Hst. clear Hst.
    set (dtstart := match r_anchor r with Some a => _ | None => _ end).
    rewrite nonempty_if by (intros El; rewrite El; reflexivity).
    unfold lv_fromtimestamp.
    rewrite (GenEq_ical.iter_for_fold
               (fun ev t => pev_add_exdate (if ad then lv_to_date (stamp (r_zone r) t) else stamp (r_zone r) t) ev)).
    rewrite fold_exdates.
    unfold md_text_of. cbn [Z.eqb].
    cbn [pev_add_rrule pev_add_duration pev_add_dtstart pev_empty pv_dtstart pv_end pv_rrule pv_exdate
         pv_summary pv_description pv_uid pv_location app].
    unfold ltd_of_seconds. rewrite to_date_dated.
    destruct m as [a b c d adm]; cbn [m_summary m_description m_uid m_location present].
    assert (Hex : map (fun t => if ad then lv_to_date (stamp (r_zone r) t) else stamp (r_zone r) t) (r_exdates r)
                  = map (fun t => if ad then match stamp (r_zone r) t with
                                             | DUtc t0 => DDate (t0 / DAY) | DTz _ w => DDate (w / DAY)
                                             | DFloat w => DDate (w / DAY) | DDate d0 => DDate d0 end
                                  else stamp (r_zone r) t) (r_exdates r)).
    { apply map_ext. intro t. apply to_date_dated. }
    rewrite Hex.
    destruct a, b, c, d; reflexivity.
Qed.
Print Assumptions g_ical_interval_to_vevent_eq.

(* what is written for an item is the model's VEVENT; an unbounded start is "Cannot serialize" *)
Example g_ical_interval_to_vevent_unbounded (e : option Z) (m : meta) :
  src_interval_to_vevent (Static None e m) = RRaise ValueError.
Proof. reflexivity. Qed.
