(* Proofs/Merge.v — heapq.merge as modelled by [merge_by] (Model/Sweeps.v), for any number of
   streams of any length:
   - the output is a permutation of the concatenation of the streams (nothing lost, nothing
     duplicated; the fuel [total_len ss] is exactly enough);
   - each step yields a head that is least for the key, ties to the lowest stream index;
   - if every stream is sorted for the key, so is the output (for the three keys of the code);
   - the output is an interleaving of the streams: each stream is an order-preserving
     subsequence of the output; one stream is returned unchanged. *)
From CG Require Import Proofs.Defs.

(* ------------------------------------------------------------------------------------ *)
(* heads of live streams *)

Definition head_at (ss : list (list ivl)) (k : nat) (x : ivl) : Prop :=
  exists s', nth_error ss k = Some (x :: s').

Lemma head_at_nil k x : ~ head_at [] k x.
Proof. intros [s' H]. destruct k; discriminate H. Qed.

Lemma head_at_0 s r x : head_at (s :: r) 0 x <-> exists s', s = x :: s'.
Proof.
  unfold head_at; simpl. split; intros [s' H]; exists s'.
  - injection H as H; exact H.
  - rewrite H; reflexivity.
Qed.

Lemma head_at_S s r k x : head_at (s :: r) (S k) x <-> head_at r k x.
Proof. unfold head_at; simpl. tauto. Qed.

(* where the result of pick_min comes from *)
Lemma pick_min_loc lt ss : forall best i,
  match pick_min lt best i ss with
  | None => best = None /\ concat ss = []
  | Some (j, x) => best = Some (j, x) \/ exists k, j = (i + k)%nat /\ head_at ss k x
  end.
Proof.
  induction ss as [|s r IH]; intros best i.
  - simpl. destruct best as [[j x]|]; [left; reflexivity|split; reflexivity].
  - assert (Hnew : forall y s', s = y :: s' ->
              match pick_min lt (Some (i, y)) (S i) r with
              | None => best = None /\ concat (s :: r) = []
              | Some (j, x) => best = Some (j, x) \/ exists k, j = (i + k)%nat /\ head_at (s :: r) k x
              end).
    { intros y s' Hs. specialize (IH (Some (i, y)) (S i)).
      destruct (pick_min lt (Some (i, y)) (S i) r) as [[j x]|].
      - right. destruct IH as [H|[k [Hj Hk]]].
        + injection H as H1 H2. exists O. split; [lia|]. apply head_at_0. exists s'. subst; reflexivity.
        + exists (S k). split; [lia|]. apply (proj2 (head_at_S _ _ _ _)); exact Hk.
      - destruct IH as [H _]; discriminate H. }
    assert (Hold : match pick_min lt best (S i) r with
              | None => best = None /\ concat r = []
              | Some (j, x) => best = Some (j, x) \/ exists k, j = (i + k)%nat /\ head_at (s :: r) k x
              end).
    { specialize (IH best (S i)). destruct (pick_min lt best (S i) r) as [[j x]|]; [|exact IH].
      destruct IH as [H|[k [Hj Hk]]]; [left; exact H|right].
      exists (S k). split; [lia|]. apply (proj2 (head_at_S _ _ _ _)); exact Hk. }
    destruct s as [|y s'].
    + simpl. exact Hold.
    + simpl. destruct best as [[jb b]|].
      * destruct (lt y b) eqn:E.
        -- specialize (Hnew y s' eq_refl).
           destruct (pick_min lt (Some (i, y)) (S i) r) as [[j x]|]; [|destruct Hnew as [H _]; discriminate H].
           exact Hnew.
        -- destruct (pick_min lt (Some (jb, b)) (S i) r) as [[j x]|]; [exact Hold|].
           destruct Hold as [H _]; discriminate H.
      * specialize (Hnew y s' eq_refl).
        destruct (pick_min lt (Some (i, y)) (S i) r) as [[j x]|]; [exact Hnew|].
        destruct Hnew as [_ H]. discriminate H.
Qed.

Lemma pick_min_some lt ss j x :
  pick_min lt None 0 ss = Some (j, x) -> head_at ss j x.
Proof.
  intro H. pose proof (pick_min_loc lt ss None 0%nat) as P. rewrite H in P.
  destruct P as [P|[k [Hj Hk]]]; [discriminate P|]. simpl in Hj. subst k. exact Hk.
Qed.

Lemma pick_min_none lt ss : pick_min lt None 0 ss = None -> concat ss = [].
Proof.
  intro H. pose proof (pick_min_loc lt ss None 0%nat) as P. rewrite H in P. apply P.
Qed.

(* popping a head removes exactly that element *)
Lemma head_at_pop ss : forall k x, head_at ss k x ->
  Permutation (concat ss) (x :: concat (pop_at k ss)) /\
  total_len ss = S (total_len (pop_at k ss)).
Proof.
  induction ss as [|s r IH]; intros k x H.
  - exfalso. exact (head_at_nil k x H).
  - destruct k as [|k].
    + apply head_at_0 in H as [s' ->]. simpl. split; reflexivity.
    + apply (proj1 (head_at_S _ _ _ _)) in H. destruct (IH k x H) as [P L]. split.
      * simpl. eapply Permutation_trans; [apply Permutation_app_head; exact P|].
        apply Permutation_sym, Permutation_middle.
      * unfold total_len in *. simpl. rewrite L. lia.
Qed.

Lemma total_len_0 ss : total_len ss = 0%nat <-> concat ss = [].
Proof.
  induction ss as [|s r IH]; [simpl; tauto|].
  unfold total_len in *. simpl. destruct s as [|y s']; simpl.
  - exact IH.
  - split; intro H; [lia|discriminate H].
Qed.

(* ------------------------------------------------------------------------------------ *)
(* 1. every element of every stream is yielded exactly once *)

Lemma merge_fuel_perm lt : forall n ss, total_len ss = n ->
  Permutation (merge_fuel n lt ss) (concat ss).
Proof.
  induction n as [|n IH]; intros ss H; simpl.
  - apply total_len_0 in H. rewrite H. constructor.
  - destruct (pick_min lt None 0 ss) as [[j x]|] eqn:E.
    + apply pick_min_some in E. destruct (head_at_pop ss j x E) as [P L].
      eapply Permutation_trans; [|apply Permutation_sym; exact P].
      constructor. apply IH. lia.
    + apply pick_min_none in E. rewrite E. constructor.
Qed.

Theorem merge_perm : forall lt ss, Permutation (merge_by lt ss) (concat ss).
Proof. intros lt ss. unfold merge_by. apply merge_fuel_perm. reflexivity. Qed.

(* 2. *)
Lemma length_concat_total ss : length (concat ss) = total_len ss.
Proof.
  induction ss as [|s r IH]; [reflexivity|].
  unfold total_len in *. simpl. rewrite app_length, IH. reflexivity.
Qed.

Theorem merge_length : forall lt ss, length (merge_by lt ss) = total_len ss.
Proof.
  intros lt ss. rewrite (Permutation_length (merge_perm lt ss)). apply length_concat_total.
Qed.

Theorem merge_in : forall lt ss x,
  In x (merge_by lt ss) <-> exists s, In s ss /\ In x s.
Proof.
  intros lt ss x. rewrite <- in_concat. split; intro H.
  - eapply Permutation_in; [apply merge_perm|exact H].
  - eapply Permutation_in; [apply Permutation_sym, merge_perm|exact H].
Qed.

Lemma covers_concat ss t : covers (concat ss) t = existsb (fun s => covers s t) ss.
Proof.
  induction ss as [|s r IH]; [reflexivity|].
  simpl. rewrite covers_app, IH. reflexivity.
Qed.

Theorem covers_merge : forall lt ss t,
  covers (merge_by lt ss) t = existsb (fun s => covers s t) ss.
Proof.
  intros lt ss t. rewrite (covers_perm _ _ t (merge_perm lt ss)). apply covers_concat.
Qed.

(* with any fuel the output only contains stream elements *)
Lemma merge_fuel_in lt : forall n ss y, In y (merge_fuel n lt ss) -> In y (concat ss).
Proof.
  induction n as [|n IH]; intros ss y H; simpl in H; [contradiction|].
  destruct (pick_min lt None 0 ss) as [[j x]|] eqn:E; [|contradiction].
  apply pick_min_some in E. destruct (head_at_pop ss j x E) as [P _].
  eapply Permutation_in; [apply Permutation_sym; exact P|].
  destruct H as [H|H]; [left; exact H|right; apply IH; exact H].
Qed.

(* ------------------------------------------------------------------------------------ *)
(* 3. sortedness *)

(* "key a <= key b" induced by the strict comparison handed to the merge *)
Definition le_of (lt : ivl -> ivl -> bool) (a b : ivl) : bool := negb (lt b a).

(* head is [le] every later element *)
Fixpoint sorted_le (le : ivl -> ivl -> bool) (l : list ivl) : Prop :=
  match l with
  | [] => True
  | x :: r => (forall y, In y r -> le x y = true) /\ sorted_le le r
  end.

Lemma sorted_le_ext le1 le2 l :
  (forall a b, le1 a b = le2 a b) -> sorted_le le1 l -> sorted_le le2 l.
Proof.
  intro Hext. induction l as [|x r IH]; simpl; [tauto|].
  intros [Hx Hr]. split; [|exact (IH Hr)]. intros y Hy. rewrite <- Hext. exact (Hx y Hy).
Qed.

Lemma sorted_le_tl le l : sorted_le le l -> sorted_le le (tl l).
Proof. destruct l as [|x r]; simpl; tauto. Qed.

Lemma pop_at_sorted le ss : forall k,
  Forall (sorted_le le) ss -> Forall (sorted_le le) (pop_at k ss).
Proof.
  induction ss as [|s r IH]; intros k H; [destruct k; exact H|].
  inversion H as [|? ? Hs Hr]; subst. destruct k as [|k]; simpl.
  - constructor; [apply sorted_le_tl; exact Hs|exact Hr].
  - constructor; [exact Hs|apply IH; exact Hr].
Qed.

Section Sorted.
  Variable lt : ivl -> ivl -> bool.
  Hypothesis le_total : forall a b, le_of lt a b = true \/ le_of lt b a = true.
  Hypothesis le_trans : forall a b c,
    le_of lt a b = true -> le_of lt b c = true -> le_of lt a c = true.

  Lemma le_refl a : le_of lt a a = true.
  Proof. destruct (le_total a a) as [H|H]; exact H. Qed.

  Lemma lt_le a b : lt a b = true -> le_of lt a b = true.
  Proof.
    intro H. destruct (le_total a b) as [H1|H1]; [exact H1|].
    unfold le_of in H1. rewrite H in H1. discriminate H1.
  Qed.

  Lemma lt_le_trans a b c : lt a b = true -> le_of lt b c = true -> lt a c = true.
  Proof.
    intros H1 H2. destruct (lt a c) eqn:E; [reflexivity|].
    assert (Hca : le_of lt c a = true) by (unfold le_of; rewrite E; reflexivity).
    pose proof (le_trans b c a H2 Hca) as Hba. unfold le_of in Hba. rewrite H1 in Hba.
    discriminate Hba.
  Qed.

  Lemma lt_trans a b c : lt a b = true -> lt b c = true -> lt a c = true.
  Proof. intros H1 H2. eapply lt_le_trans; [exact H1|apply lt_le; exact H2]. Qed.

  (* the picked head is least: below the incoming best and below every head *)
  Lemma pick_min_min ss : forall best i j x,
    pick_min lt best i ss = Some (j, x) ->
    (forall jb b, best = Some (jb, b) -> le_of lt x b = true) /\
    (forall k h, head_at ss k h -> le_of lt x h = true).
  Proof.
    induction ss as [|s r IH]; intros best i j x H.
    - simpl in H. subst best. split.
      + intros jb b Hb. injection Hb as _ <-. apply le_refl.
      + intros k h Hh. exfalso. exact (head_at_nil k h Hh).
    - destruct s as [|y s'].
      + simpl in H. destruct (IH best (S i) j x H) as [Hb Hh]. split; [exact Hb|].
        intros k h Hk. destruct k as [|k].
        * apply head_at_0 in Hk as [s' Hk]. discriminate Hk.
        * apply (proj1 (head_at_S _ _ _ _)) in Hk. exact (Hh k h Hk).
      + assert (Hnew : pick_min lt (Some (i, y)) (S i) r = Some (j, x) ->
                  forall k h, head_at ((y :: s') :: r) k h -> le_of lt x h = true).
        { intros H' k h Hk. destruct (IH _ _ _ _ H') as [Hb Hh]. destruct k as [|k].
          - apply head_at_0 in Hk as [s'' Hk]. injection Hk as <- _.
            exact (Hb i y eq_refl).
          - apply (proj1 (head_at_S _ _ _ _)) in Hk. exact (Hh k h Hk). }
        simpl in H. destruct best as [[jb b]|].
        * destruct (lt y b) eqn:E.
          -- split; [|exact (Hnew H)]. intros jb' b' Hb'. injection Hb' as _ <-.
             destruct (IH _ _ _ _ H) as [Hb _]. specialize (Hb i y eq_refl).
             eapply le_trans; [exact Hb|apply lt_le; exact E].
          -- destruct (IH _ _ _ _ H) as [Hb Hh]. specialize (Hb jb b eq_refl).
             split; [intros jb' b' Hb'; injection Hb' as _ <-; exact Hb|].
             intros k h Hk. destruct k as [|k].
             ++ apply head_at_0 in Hk as [s'' Hk]. injection Hk as <- _.
                eapply le_trans; [exact Hb|]. unfold le_of. rewrite E. reflexivity.
             ++ apply (proj1 (head_at_S _ _ _ _)) in Hk. exact (Hh k h Hk).
        * split; [intros jb b Hb; discriminate Hb|exact (Hnew H)].
  Qed.

  (* ties go to the lowest stream index: the picked head is strictly below the heads of all
     earlier streams *)
  Lemma pick_min_strict ss : forall best i j x,
    pick_min lt best i ss = Some (j, x) ->
    (forall jb b, best = Some (jb, b) -> (jb < i)%nat) ->
    (forall jb b, best = Some (jb, b) -> (jb, b) = (j, x) \/ lt x b = true) /\
    (forall k h, head_at ss k h -> (i + k < j)%nat -> lt x h = true).
  Proof.
    induction ss as [|s r IH]; intros best i j x H Hi.
    - simpl in H. subst best. split.
      + intros jb b Hb. left. injection Hb as <- <-. reflexivity.
      + intros k h Hh. exfalso. exact (head_at_nil k h Hh).
    - destruct s as [|y s'].
      + simpl in H.
        assert (Hi' : forall jb b, best = Some (jb, b) -> (jb < S i)%nat).
        { intros jb b Hb. specialize (Hi jb b Hb). lia. }
        destruct (IH best (S i) j x H Hi') as [Hb Hh]. split; [exact Hb|].
        intros k h Hk Hlt. destruct k as [|k].
        * apply head_at_0 in Hk as [s' Hk]. discriminate Hk.
        * apply (proj1 (head_at_S _ _ _ _)) in Hk. apply (Hh k h Hk). lia.
      + assert (Hnew : pick_min lt (Some (i, y)) (S i) r = Some (j, x) ->
                  ((i, y) = (j, x) \/ lt x y = true) /\
                  forall k h, head_at ((y :: s') :: r) k h -> (i + k < j)%nat -> lt x h = true).
        { intros H'.
          assert (Hi' : forall jb b, Some (i, y) = Some (jb, b) -> (jb < S i)%nat).
          { intros jb b Hb. injection Hb as <- _. lia. }
          destruct (IH _ _ _ _ H' Hi') as [Hb Hh]. specialize (Hb i y eq_refl).
          split; [exact Hb|]. intros k h Hk Hlt. destruct k as [|k].
          - apply head_at_0 in Hk as [s'' Hk]. injection Hk as <- _.
            destruct Hb as [Hb|Hb]; [injection Hb as Hb _; lia|exact Hb].
          - apply (proj1 (head_at_S _ _ _ _)) in Hk. apply (Hh k h Hk). lia. }
        simpl in H. destruct best as [[jb b]|].
        * destruct (lt y b) eqn:E.
          -- destruct (Hnew H) as [Hb Hh]. split; [|exact Hh].
             intros jb' b' Hb'. injection Hb' as _ <-. right.
             destruct Hb as [Hb|Hb].
             ++ injection Hb as _ <-. exact E.
             ++ eapply lt_trans; [exact Hb|exact E].
          -- assert (Hi' : forall jb' b', Some (jb, b) = Some (jb', b') -> (jb' < S i)%nat).
             { intros jb' b' Hb'. specialize (Hi jb' b' Hb'). lia. }
             destruct (IH _ _ _ _ H Hi') as [Hb Hh]. specialize (Hb jb b eq_refl).
             split; [intros jb' b' Hb'; injection Hb' as <- <-; exact Hb|].
             intros k h Hk Hlt. destruct k as [|k].
             ++ apply head_at_0 in Hk as [s'' Hk]. injection Hk as <- _.
                destruct Hb as [Hb|Hb].
                ** injection Hb as Hb _. specialize (Hi jb b eq_refl). lia.
                ** eapply lt_le_trans; [exact Hb|]. unfold le_of. rewrite E. reflexivity.
             ++ apply (proj1 (head_at_S _ _ _ _)) in Hk. apply (Hh k h Hk). lia.
        * destruct (Hnew H) as [_ Hh]. split; [intros jb b Hb; discriminate Hb|exact Hh].
  Qed.

  (* one step of heapq.merge: the yielded element is the head of a live stream, no head has
     a smaller key, and the heads of all earlier streams have a strictly larger key *)
  Theorem pick_min_spec ss j x :
    pick_min lt None 0 ss = Some (j, x) ->
    head_at ss j x /\
    (forall k h, head_at ss k h -> le_of lt x h = true) /\
    (forall k h, head_at ss k h -> (k < j)%nat -> lt x h = true).
  Proof.
    intro H. split; [exact (pick_min_some lt ss j x H)|]. split.
    - exact (proj2 (pick_min_min ss None 0%nat j x H)).
    - assert (Hi : forall jb b, @None (nat * ivl) = Some (jb, b) -> (jb < 0)%nat)
        by (intros jb b Hb; discriminate Hb).
      destruct (pick_min_strict ss None 0%nat j x H Hi) as [_ Hh].
      intros k h Hk Hlt. apply (Hh k h Hk). simpl. exact Hlt.
  Qed.

  (* below every head of sorted streams = below every element *)
  Lemma below_heads_below_all ss x :
    Forall (sorted_le (le_of lt)) ss ->
    (forall k h, head_at ss k h -> le_of lt x h = true) ->
    forall z, In z (concat ss) -> le_of lt x z = true.
  Proof.
    intros Hs Hmin z Hz. apply in_concat in Hz as [s [Hin Hzs]].
    pose proof (proj1 (Forall_forall _ _) Hs s Hin) as Hss.
    apply In_nth_error in Hin as [k Hk].
    destruct s as [|h t]; [contradiction|].
    assert (Hxh : le_of lt x h = true) by (apply (Hmin k h); exists t; exact Hk).
    destruct Hzs as [<-|Hzt]; [exact Hxh|].
    destruct Hss as [Hh _]. eapply le_trans; [exact Hxh|exact (Hh z Hzt)].
  Qed.

  Lemma merge_fuel_sorted : forall n ss,
    Forall (sorted_le (le_of lt)) ss -> sorted_le (le_of lt) (merge_fuel n lt ss).
  Proof.
    induction n as [|n IH]; intros ss Hs; simpl; [exact I|].
    destruct (pick_min lt None 0 ss) as [[j x]|] eqn:E; [|exact I].
    simpl. split.
    - intros y Hy. apply merge_fuel_in in Hy.
      pose proof (pick_min_some lt ss j x E) as Hh.
      destruct (head_at_pop ss j x Hh) as [P _].
      apply (below_heads_below_all ss x Hs).
      + exact (proj2 (pick_min_min ss None 0%nat j x E)).
      + eapply Permutation_in; [apply Permutation_sym; exact P|]. right. exact Hy.
    - apply IH. apply pop_at_sorted. exact Hs.
  Qed.

  Theorem merge_sorted : forall ss,
    Forall (sorted_le (le_of lt)) ss -> sorted_le (le_of lt) (merge_by lt ss).
  Proof. intros ss Hs. unfold merge_by. apply merge_fuel_sorted. exact Hs. Qed.
End Sorted.

(* ---- the three keys of the code ---- *)

Definition key_ge (a b : ivl) : bool := key_le b a.                 (* descending (start, end) *)
Definition start_le (a b : ivl) : bool := fstart a <=? fstart b.    (* start only *)

Lemma le_of_fwd a b : le_of lt_fwd a b = key_le a b.
Proof.
  unfold le_of, lt_fwd, key_lt, key_le.
  destruct (fstart a <? fstart b) eqn:E1; destruct (fstart b <? fstart a) eqn:E2;
  destruct (fstart a =? fstart b) eqn:E3; destruct (fstart b =? fstart a) eqn:E4;
  destruct (fend a <=? fend b) eqn:E5; destruct (fend b <? fend a) eqn:E6;
  simpl; try reflexivity; lia.
Qed.

Lemma le_of_rev a b : le_of lt_rev a b = key_ge a b.
Proof.
  unfold le_of, lt_rev, key_ge, key_le.
  destruct (fstart a <? fstart b) eqn:E1; destruct (fstart b <? fstart a) eqn:E2;
  destruct (fstart b =? fstart a) eqn:E4;
  destruct (fend b <=? fend a) eqn:E5; destruct (fend a <? fend b) eqn:E6;
  simpl; try reflexivity; lia.
Qed.

Lemma le_of_start a b : le_of lt_start a b = start_le a b.
Proof.
  unfold le_of, lt_start, start_le.
  destruct (fstart b <? fstart a) eqn:E1; destruct (fstart a <=? fstart b) eqn:E2;
  simpl; try reflexivity; lia.
Qed.

Lemma key_le_total a b : key_le a b = true \/ key_le b a = true.
Proof.
  unfold key_le.
  destruct (fstart a <? fstart b) eqn:E1; destruct (fstart b <? fstart a) eqn:E2;
  destruct (fstart a =? fstart b) eqn:E3; destruct (fstart b =? fstart a) eqn:E4;
  destruct (fend a <=? fend b) eqn:E5; destruct (fend b <=? fend a) eqn:E6;
  simpl; auto; lia.
Qed.

Lemma key_le_spec a b :
  key_le a b = true <->
  fstart a < fstart b \/ (fstart a = fstart b /\ fend a <= fend b).
Proof.
  unfold key_le.
  destruct (fstart a <? fstart b) eqn:E1; destruct (fstart a =? fstart b) eqn:E3;
  destruct (fend a <=? fend b) eqn:E5; simpl; split; intro H; try reflexivity;
  try discriminate H; lia.
Qed.

Lemma key_le_trans a b c : key_le a b = true -> key_le b c = true -> key_le a c = true.
Proof. rewrite !key_le_spec. lia. Qed.

Lemma key_le_fstart a b : key_le a b = true -> fstart a <= fstart b.
Proof. rewrite key_le_spec. lia. Qed.

Lemma start_le_spec a b : start_le a b = true <-> fstart a <= fstart b.
Proof. unfold start_le. destruct (fstart a <=? fstart b) eqn:E; split; intro H; try reflexivity; try discriminate H; lia. Qed.

Lemma fwd_total a b : le_of lt_fwd a b = true \/ le_of lt_fwd b a = true.
Proof. rewrite !le_of_fwd. apply key_le_total. Qed.
Lemma fwd_trans a b c :
  le_of lt_fwd a b = true -> le_of lt_fwd b c = true -> le_of lt_fwd a c = true.
Proof. rewrite !le_of_fwd. apply key_le_trans. Qed.

Lemma rev_total a b : le_of lt_rev a b = true \/ le_of lt_rev b a = true.
Proof. rewrite !le_of_rev. unfold key_ge. apply key_le_total. Qed.
Lemma rev_trans a b c :
  le_of lt_rev a b = true -> le_of lt_rev b c = true -> le_of lt_rev a c = true.
Proof. rewrite !le_of_rev. unfold key_ge. intros H1 H2. exact (key_le_trans c b a H2 H1). Qed.

Lemma start_total a b : le_of lt_start a b = true \/ le_of lt_start b a = true.
Proof. rewrite !le_of_start, !start_le_spec. lia. Qed.
Lemma start_trans a b c :
  le_of lt_start a b = true -> le_of lt_start b c = true -> le_of lt_start a c = true.
Proof. rewrite !le_of_start, !start_le_spec. lia. Qed.

Lemma Forall_sorted_le_ext le1 le2 ss :
  (forall a b, le1 a b = le2 a b) ->
  Forall (sorted_le le1) ss -> Forall (sorted_le le2) ss.
Proof.
  intros Hext H. eapply Forall_impl; [|exact H]. intros l Hl.
  exact (sorted_le_ext le1 le2 l Hext Hl).
Qed.

(* Union.fetch forward, Difference._sweep: key (finite_start, finite_end) *)
Theorem merge_fwd_sorted : forall ss,
  Forall (sorted_le key_le) ss -> sorted_le key_le (merge_by lt_fwd ss).
Proof.
  intros ss Hs. apply (sorted_le_ext (le_of lt_fwd) key_le); [exact le_of_fwd|].
  apply (merge_sorted lt_fwd fwd_total fwd_trans).
  apply (Forall_sorted_le_ext key_le (le_of lt_fwd)); [|exact Hs].
  intros a b; symmetry; apply le_of_fwd.
Qed.

(* Union.fetch reverse: key (-finite_start, -finite_end) *)
Theorem merge_rev_sorted : forall ss,
  Forall (sorted_le key_ge) ss -> sorted_le key_ge (merge_by lt_rev ss).
Proof.
  intros ss Hs. apply (sorted_le_ext (le_of lt_rev) key_ge); [exact le_of_rev|].
  apply (merge_sorted lt_rev rev_total rev_trans).
  apply (Forall_sorted_le_ext key_ge (le_of lt_rev)); [|exact Hs].
  intros a b; symmetry; apply le_of_rev.
Qed.

(* MemoryTimeline.fetch: key finite_start *)
Theorem merge_start_sorted : forall ss,
  Forall (sorted_le start_le) ss -> sorted_le start_le (merge_by lt_start ss).
Proof.
  intros ss Hs. apply (sorted_le_ext (le_of lt_start) start_le); [exact le_of_start|].
  apply (merge_sorted lt_start start_total start_trans).
  apply (Forall_sorted_le_ext start_le (le_of lt_start)); [|exact Hs].
  intros a b; symmetry; apply le_of_start.
Qed.

(* bridges to [sorted_start] of Defs.v *)
Lemma sorted_key_le_sorted_start l : sorted_le key_le l -> sorted_start l.
Proof.
  induction l as [|x r IH]; simpl; [tauto|]. intros [Hx Hr]. split; [|exact (IH Hr)].
  intros y Hy. apply key_le_fstart. exact (Hx y Hy).
Qed.

Lemma sorted_start_le_iff l : sorted_le start_le l <-> sorted_start l.
Proof.
  induction l as [|x r IH]; simpl; [tauto|]. split; intros [Hx Hr]; (split; [|apply IH; exact Hr]).
  - intros y Hy. apply start_le_spec. exact (Hx y Hy).
  - intros y Hy. apply start_le_spec. exact (Hx y Hy).
Qed.

Theorem merge_fwd_sorted_start : forall ss,
  Forall (sorted_le key_le) ss -> sorted_start (merge_by lt_fwd ss).
Proof. intros ss Hs. apply sorted_key_le_sorted_start, merge_fwd_sorted, Hs. Qed.

Theorem merge_start_sorted_start : forall ss,
  Forall sorted_start ss -> sorted_start (merge_by lt_start ss).
Proof.
  intros ss Hs. apply sorted_start_le_iff, merge_start_sorted.
  eapply Forall_impl; [|exact Hs]. intros l Hl. apply sorted_start_le_iff. exact Hl.
Qed.

(* ------------------------------------------------------------------------------------ *)
(* 4. stability *)

Theorem merge_nil : forall lt, merge_by lt [] = [].
Proof. intro lt. reflexivity. Qed.

Theorem merge_single : forall lt s, merge_by lt [s] = s.
Proof.
  intros lt s. unfold merge_by, total_len. simpl.
  induction s as [|x r IH]; [reflexivity|].
  simpl. rewrite IH. reflexivity.
Qed.

(* The output is an interleaving of the streams: built by repeatedly taking the head of some
   live stream until all are exhausted.  (No assumption on the comparison.) *)
Inductive interleaving : list (list ivl) -> list ivl -> Prop :=
| il_done ss : concat ss = [] -> interleaving ss []
| il_take ss k x out :
    head_at ss k x -> interleaving (pop_at k ss) out -> interleaving ss (x :: out).

Lemma merge_fuel_interleaving lt : forall n ss, total_len ss = n ->
  interleaving ss (merge_fuel n lt ss).
Proof.
  induction n as [|n IH]; intros ss H; simpl.
  - apply il_done. apply total_len_0. exact H.
  - destruct (pick_min lt None 0 ss) as [[j x]|] eqn:E.
    + apply pick_min_some in E. destruct (head_at_pop ss j x E) as [_ L].
      apply (il_take ss j x); [exact E|]. apply IH. lia.
    + apply il_done. exact (pick_min_none lt ss E).
Qed.

Theorem merge_interleaving : forall lt ss, interleaving ss (merge_by lt ss).
Proof. intros lt ss. unfold merge_by. apply merge_fuel_interleaving. reflexivity. Qed.

(* order-preserving subsequence *)
Inductive subseq : list ivl -> list ivl -> Prop :=
| ss_nil l : subseq [] l
| ss_skip s x l : subseq s l -> subseq s (x :: l)
| ss_take s x l : subseq s l -> subseq (x :: s) (x :: l).

Lemma nth_error_pop_at ss : forall j k,
  nth_error (pop_at j ss) k =
  if Nat.eqb k j then option_map (@tl ivl) (nth_error ss k) else nth_error ss k.
Proof.
  induction ss as [|s r IH]; intros j k.
  - destruct j as [|j]; destruct k as [|k]; simpl; try reflexivity; destruct (Nat.eqb k j); reflexivity.
  - destruct j as [|j]; destruct k as [|k]; simpl; try reflexivity. apply IH.
Qed.

Lemma interleaving_subseq ss out : interleaving ss out ->
  forall k s, nth_error ss k = Some s -> subseq s out.
Proof.
  intro H. induction H as [ss Hc|ss j x out Hh Hi IH]; intros k s Hk.
  - assert (Hs : s = []).
    { apply nth_error_In in Hk. destruct s as [|y t]; [reflexivity|].
      assert (Hy : In y (concat ss)) by (apply in_concat; exists (y :: t); split; [exact Hk|left; reflexivity]).
      rewrite Hc in Hy. contradiction. }
    subst s. apply ss_nil.
  - pose proof (nth_error_pop_at ss j k) as Hp. destruct (Nat.eqb k j) eqn:E.
    + apply Nat.eqb_eq in E. subst k. destruct Hh as [s' Hs']. rewrite Hs' in Hk.
      injection Hk as <-. rewrite Hs' in Hp. simpl in Hp.
      apply ss_take. exact (IH j s' Hp).
    + rewrite Hk in Hp. apply ss_skip. exact (IH k s Hp).
Qed.

(* every stream keeps its relative order in the output *)
Theorem merge_keeps_stream_order : forall lt ss k s,
  nth_error ss k = Some s -> subseq s (merge_by lt ss).
Proof.
  intros lt ss k s Hk. exact (interleaving_subseq ss _ (merge_interleaving lt ss) k s Hk).
Qed.

Print Assumptions merge_perm.
Print Assumptions merge_length.
Print Assumptions merge_in.
Print Assumptions covers_merge.
Print Assumptions pick_min_spec.
Print Assumptions merge_sorted.
Print Assumptions merge_fwd_sorted.
Print Assumptions merge_rev_sorted.
Print Assumptions merge_start_sorted.
Print Assumptions merge_fwd_sorted_start.
Print Assumptions merge_start_sorted_start.
Print Assumptions merge_nil.
Print Assumptions merge_single.
Print Assumptions merge_interleaving.
Print Assumptions merge_keeps_stream_order.
